import Proofs.Payouts
import Pegnet.Sync
/-
  C01: the two places where the Go code turns a hash map into an ordered result.
  * `SnapshotPayouts`: `range staked` → slice → sort by (stake, address) [fix 5b8087b] → the slice
    index becomes the payout txid. The model's `sortStakes` is an insertion sort with that key;
    here: its result does not depend on the order in which the map was iterated.
  * `ConversionSupplySet.Payouts`: three `range`s over the request map, the rounding dust goes to
    the highest request, ties to the smallest txid. Here: the payout of every txid is the same for
    every iteration order.
-/
namespace Pegnet

/-! ### staking order -/

/-- the sort key of the staking list: by stake, ties by address -/
def stakeLe (x y : Addr × Nat) : Prop := x.2 < y.2 ∨ (x.2 = y.2 ∧ x.1 ≤ y.1)

instance : DecidableRel stakeLe := fun x y => by unfold stakeLe; exact inferInstance

theorem stakeLe_total (x y : Addr × Nat) : stakeLe x y ∨ stakeLe y x := by
  unfold stakeLe
  rcases Nat.lt_trichotomy x.2 y.2 with h | h | h
  · exact Or.inl (Or.inl h)
  · rcases String.le_total x.1 y.1 with h2 | h2
    · exact Or.inl (Or.inr ⟨h, h2⟩)
    · exact Or.inr (Or.inr ⟨h.symm, h2⟩)
  · exact Or.inr (Or.inl h)

theorem stakeLe_antisymm {x y : Addr × Nat} (h1 : stakeLe x y) (h2 : stakeLe y x) : x = y := by
  unfold stakeLe at h1 h2
  rcases h1 with h1 | ⟨e1, l1⟩
  · rcases h2 with h2 | ⟨e2, _⟩ <;> omega
  · rcases h2 with h2 | ⟨_, l2⟩
    · omega
    · exact Prod.ext (String.le_antisymm l1 l2) e1

theorem String.le_trans' {a b c : String} (h1 : a ≤ b) (h2 : b ≤ c) : a ≤ c := by
  rw [← String.not_lt] at h1 h2 ⊢
  intro hca
  rcases String.le_total a b with hab | hba
  · by_cases hbc : b = c
    · subst hbc; exact h1 hca
    · -- b < c strictly
      have : b < c := by
        rcases String.le_total c b with hcb | _
        · exact absurd (String.le_antisymm (String.not_lt.1 h2) hcb) hbc
        · by_cases hlt : b < c
          · exact hlt
          · exact absurd (String.le_antisymm (String.not_lt.1 h2) (String.not_lt.1 hlt)) hbc
      exact h1 (String.lt_trans this hca)
  · exact h1 (by
      by_cases hbc : b = c
      · subst hbc; exact hca
      · have : b < c := by
          by_cases hlt : b < c
          · exact hlt
          · exact absurd (String.le_antisymm (String.not_lt.1 h2) (String.not_lt.1 hlt)) hbc
        exact String.lt_trans this hca)

theorem stakeLe_trans {x y z : Addr × Nat} (h1 : stakeLe x y) (h2 : stakeLe y z) : stakeLe x z := by
  unfold stakeLe at *
  rcases h1 with h1 | ⟨e1, l1⟩
  · rcases h2 with h2 | ⟨e2, _⟩
    · exact Or.inl (by omega)
    · exact Or.inl (by omega)
  · rcases h2 with h2 | ⟨e2, l2⟩
    · exact Or.inl (by omega)
    · exact Or.inr ⟨by omega, String.le_trans' l1 l2⟩

/-- the test `insertSortedStake` makes is "strictly before in (stake, address) order" -/
theorem insert_test_iff (x y : Addr × Nat) :
    (decide (x.2 < y.2) || (x.2 == y.2 && decide (x.1 < y.1))) = true ↔ ¬ stakeLe y x := by
  unfold stakeLe
  simp only [Bool.or_eq_true, decide_eq_true_eq, Bool.and_eq_true, beq_iff_eq]
  constructor
  · rintro (h | ⟨e, l⟩)
    · rintro (h2 | ⟨e2, _⟩) <;> omega
    · rintro (h2 | ⟨_, l2⟩)
      · omega
      · exact (String.not_lt.2 l2) l
  · intro hn
    rcases Nat.lt_trichotomy x.2 y.2 with h | h | h
    · exact Or.inl h
    · right
      refine ⟨h, ?_⟩
      by_cases hl : x.1 < y.1
      · exact hl
      · exact absurd (Or.inr ⟨h.symm, String.not_lt.1 hl⟩) hn
    · exact absurd (Or.inl h) hn

theorem insertSortedStake_perm (x : Addr × Nat) (l : List (Addr × Nat)) : (insertSortedStake x l).Perm (x :: l) := by
  induction l with
  | nil => exact List.Perm.refl _
  | cons y ys ih =>
    unfold insertSortedStake
    split
    · exact List.Perm.refl _
    · exact (List.Perm.cons y ih).trans (List.Perm.swap x y ys)

theorem insertSortedStake_sorted (x : Addr × Nat) (l : List (Addr × Nat)) (h : l.Pairwise stakeLe) :
    (insertSortedStake x l).Pairwise stakeLe := by
  induction l with
  | nil => exact List.pairwise_singleton _ x
  | cons y ys ih =>
    unfold insertSortedStake
    have hy := List.pairwise_cons.1 h
    split
    · rename_i hc
      have hxy : stakeLe x y := by
        rcases stakeLe_total x y with h' | h'
        · exact h'
        · exact absurd h' ((insert_test_iff x y).1 hc)
      refine List.pairwise_cons.2 ⟨?_, h⟩
      intro z hz
      rcases List.mem_cons.1 hz with rfl | hz
      · exact hxy
      · exact stakeLe_trans hxy (hy.1 z hz)
    · rename_i hc
      have hyx : stakeLe y x := by
        by_cases h' : stakeLe y x
        · exact h'
        · exact absurd ((insert_test_iff x y).2 h') hc
      refine List.pairwise_cons.2 ⟨?_, ih hy.2⟩
      intro z hz
      rcases List.mem_cons.1 ((insertSortedStake_perm x ys).subset hz) with rfl | hz
      · exact hyx
      · exact hy.1 z hz

theorem foldl_insert_perm_sorted (l acc : List (Addr × Nat)) (hs : acc.Pairwise stakeLe) :
    (l.foldl (fun acc x => insertSortedStake x acc) acc).Perm (l ++ acc) ∧
    (l.foldl (fun acc x => insertSortedStake x acc) acc).Pairwise stakeLe := by
  induction l generalizing acc with
  | nil => exact ⟨List.Perm.refl _, hs⟩
  | cons x xs ih =>
    simp only [List.foldl_cons]
    obtain ⟨hp, hso⟩ := ih (insertSortedStake x acc) (insertSortedStake_sorted x acc hs)
    refine ⟨?_, hso⟩
    refine hp.trans ?_
    have : (xs ++ insertSortedStake x acc).Perm (xs ++ x :: acc) := List.Perm.append_left xs (insertSortedStake_perm x acc)
    exact this.trans List.perm_middle

theorem sortStakes_perm_sorted (l : List (Addr × Nat)) : (sortStakes l).Perm l ∧ (sortStakes l).Pairwise stakeLe := by
  unfold sortStakes
  have := foldl_insert_perm_sorted l [] List.Pairwise.nil
  simpa using this

/-- **The staking order does not depend on map iteration order**: whatever order the stakers
    come out of the Go map in, the sorted list — hence every payout index (txid) and the
    assignment of the rounding dust — is the same. -/
theorem sortStakes_order_free {l₁ l₂ : List (Addr × Nat)} (h : l₁.Perm l₂) : sortStakes l₁ = sortStakes l₂ := by
  obtain ⟨p1, s1⟩ := sortStakes_perm_sorted l₁
  obtain ⟨p2, s2⟩ := sortStakes_perm_sorted l₂
  exact List.Perm.eq_of_pairwise (fun _ _ _ _ h1 h2 => stakeLe_antisymm h1 h2) s1 s2 (p1.trans (h.trans p2.symm))

/-! ### the order of txids -/

theorem TxKey.lt_irrefl (a : TxKey) : a.lt a = false := by
  unfold TxKey.lt
  simp [String.lt_irrefl]

theorem TxKey.lt_trans {a b c : TxKey} (h1 : a.lt b = true) (h2 : b.lt c = true) : a.lt c = true := by
  unfold TxKey.lt at *
  simp only [Bool.or_eq_true, decide_eq_true_eq, Bool.and_eq_true, beq_iff_eq] at *
  rcases h1 with h1 | ⟨e1, l1⟩
  · rcases h2 with h2 | ⟨e2, _⟩
    · exact Or.inl (String.lt_trans h1 h2)
    · exact Or.inl (e2 ▸ h1)
  · rcases h2 with h2 | ⟨e2, l2⟩
    · exact Or.inl (e1 ▸ h2)
    · exact Or.inr ⟨e1.trans e2, by omega⟩

theorem TxKey.lt_trichotomy {a b : TxKey} (hne : a ≠ b) : a.lt b = true ∨ b.lt a = true := by
  unfold TxKey.lt
  simp only [Bool.or_eq_true, decide_eq_true_eq, Bool.and_eq_true, beq_iff_eq]
  by_cases hh : a.hash = b.hash
  · have hi : a.idx ≠ b.idx := by
      intro hi
      apply hne
      cases a; cases b; simp_all
    rcases Nat.lt_trichotomy a.idx b.idx with h | h | h
    · exact Or.inl (Or.inr ⟨hh, h⟩)
    · exact absurd h hi
    · exact Or.inr (Or.inr ⟨hh.symm, h⟩)
  · by_cases hl : a.hash < b.hash
    · exact Or.inl (Or.inl hl)
    · right; left
      have h1 : b.hash ≤ a.hash := String.not_lt.1 hl
      by_cases hl2 : b.hash < a.hash
      · exact hl2
      · exact absurd (String.le_antisymm (String.not_lt.1 hl2) h1) hh

/-- `minKey` returns a least element of the list -/
theorem foldl_min_least (ks : List TxKey) (k : TxKey) :
    ∀ x ∈ k :: ks, (x.lt (ks.foldl (fun m x => if x.lt m then x else m) k)) = false := by
  induction ks generalizing k with
  | nil =>
    intro x hx
    simp only [List.mem_singleton] at hx
    subst hx
    exact TxKey.lt_irrefl x
  | cons y ys ih =>
    intro x hx
    simp only [List.foldl_cons]
    by_cases hy : y.lt k = true
    · rw [if_pos hy]
      rcases List.mem_cons.1 hx with rfl | hx
      · -- x = k: the result r is ≤ y < k
        cases hres : x.lt (ys.foldl (fun m x => if x.lt m then x else m) y) with
        | false => rfl
        | true =>
          have h1 := TxKey.lt_trans hy hres
          have h2 := ih y y List.mem_cons_self
          rw [h1] at h2; cases h2
      · exact ih y x hx
    · rw [if_neg hy]
      rcases List.mem_cons.1 hx with rfl | hx
      · exact ih x x List.mem_cons_self
      · rcases List.mem_cons.1 hx with rfl | hx
        · -- x = y, not below k; the result r is ≤ k
          cases hres : x.lt (ys.foldl (fun m x => if x.lt m then x else m) k) with
          | false => rfl
          | true =>
            exfalso
            -- r ≤ k and x < r: then x < k unless r = k
            have hk := ih k k List.mem_cons_self
            by_cases hrk : ys.foldl (fun m x => if x.lt m then x else m) k = k
            · rw [hrk] at hres; exact hy hres
            · rcases TxKey.lt_trichotomy hrk with h | h
              · exact hy (TxKey.lt_trans hres h)
              · rw [h] at hk; cases hk
        · exact ih k x (List.mem_cons_of_mem _ hx)

theorem minKey_least {ks : List TxKey} {w : TxKey} (h : minKey ks = some w) : ∀ x ∈ ks, x.lt w = false := by
  cases ks with
  | nil => cases h
  | cons k rest =>
    simp only [minKey, Option.some.injEq] at h
    subst h
    exact foldl_min_least rest k

/-- the least txid of a request set does not depend on the order of the set -/
theorem minKey_perm {l₁ l₂ : List TxKey} (h : l₁.Perm l₂) : minKey l₁ = minKey l₂ := by
  cases h1 : minKey l₁ with
  | none =>
    cases l₁ with
    | nil => have e : l₂ = [] := (List.Perm.nil_eq h).symm; subst e; rfl
    | cons _ _ => simp [minKey] at h1
  | some w =>
    cases h2 : minKey l₂ with
    | none =>
      cases l₂ with
      | nil => have e : l₁ = [] := (List.Perm.nil_eq h.symm).symm; subst e; simp [minKey] at h1
      | cons _ _ => simp [minKey] at h2
    | some w' =>
      have m1 := minKey_mem h1
      have m2 := minKey_mem h2
      have l1 := minKey_least h1 w' (h.symm.subset m2)
      have l2 := minKey_least h2 w (h.subset m1)
      by_cases hww : w = w'
      · rw [hww]
      · rcases TxKey.lt_trichotomy hww with hlt | hlt
        · rw [hlt] at l2; cases l2
        · rw [hlt] at l1; cases l1

theorem sumReq_perm {l₁ l₂ : List (TxKey × Nat)} (h : l₁.Perm l₂) : sumReq l₁ = sumReq l₂ := by
  unfold sumReq
  induction h with
  | nil => rfl
  | cons x _ ih => simp only [List.map_cons, List.sum_cons, ih]
  | swap x y l => simp only [List.map_cons, List.sum_cons]; omega
  | trans _ _ ih1 ih2 => exact ih1.trans ih2

theorem maxReq_perm' {l₁ l₂ : List (TxKey × Nat)} (h : l₁.Perm l₂) : maxReq l₁ = maxReq l₂ := by
  unfold maxReq
  have key : ∀ (l₁ l₂ : List (TxKey × Nat)), l₁.Perm l₂ → ∀ m, l₁.foldl (fun m r => max m r.2) m = l₂.foldl (fun m r => max m r.2) m := by
    intro l₁ l₂ h
    induction h with
    | nil => intro m; rfl
    | cons x _ ih => intro m; simp only [List.foldl_cons]; exact ih _
    | swap x y l => intro m; simp only [List.foldl_cons]; congr 1; omega
    | trans _ _ ih1 ih2 => intro m; exact (ih1 m).trans (ih2 m)
  exact key l₁ l₂ h 0

/-- **`ConversionSupplySet.Payouts` does not depend on map iteration order**: for every order in
    which the request map is ranged over, the result assigns the same amount to every txid (the
    results are permutations of one another). -/
theorem payouts_order_free (bank : Nat) {l₁ l₂ : List (TxKey × Nat)} (h : l₁.Perm l₂) :
    (payouts bank l₁).Perm (payouts bank l₂) := by
  unfold payouts
  have hemp : l₁.isEmpty = l₂.isEmpty := by
    cases l₁ with
    | nil => have e : l₂ = [] := (List.Perm.nil_eq h).symm; subst e; rfl
    | cons a as =>
      cases l₂ with
      | nil => exact absurd (List.Perm.nil_eq h.symm) (by simp)
      | cons b bs => rfl
  rw [hemp]
  split
  · exact List.Perm.refl _
  · rw [sumReq_perm h]
    dsimp only
    split
    · exact h
    · have hp : (l₁.map (fun r => (r.1, payoutBig r.2 bank (sumReq l₂)))).Perm (l₂.map (fun r => (r.1, payoutBig r.2 bank (sumReq l₂)))) := h.map _
      have htop : ((l₁.filter (fun r => r.2 == maxReq l₁)).map (·.1)).Perm ((l₂.filter (fun r => r.2 == maxReq l₂)).map (·.1)) := by
        rw [maxReq_perm' h]
        exact (h.filter _).map _
      rw [minKey_perm htop, sumReq_perm hp]
      split
      · exact hp
      · exact hp.map _

end Pegnet
