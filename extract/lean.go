package main

import (
	"fmt"
	"math"
	"strconv"
	"strings"
)

func leanStr(s string) string { return strconv.Quote(s) }

func leanStrList(l []string) string {
	q := make([]string, len(l))
	for i, s := range l {
		q[i] = leanStr(s)
	}
	return "[" + strings.Join(q, ", ") + "]"
}

func siteIDs(ss []Site) []string {
	out := make([]string, len(ss))
	for i, s := range ss {
		out[i] = s.File + ":" + s.Func + ":" + s.What
	}
	return out
}

func tickerIndex(F *Facts, name string) int {
	for i, t := range F.Tickers {
		if t == name {
			return i + 1
		}
	}
	return 0
}

func leanFacts(F *Facts) string {
	var sb strings.Builder
	w := func(f string, a ...interface{}) { fmt.Fprintf(&sb, f, a...) }
	w("import Pegnet.Basic\n/-! REGENERATED from /repo by /verif/extract on every run. Do not edit. -/\nnamespace Pegnet.Generated\n\n")
	act := func(k string) string {
		if v, ok := F.Activations[k]; ok {
			return v
		}
		return "0"
	}
	w("def activationsComplete : Bool := %v\n\n", len(F.Activations) == 17)
	w("def activations : Activations :=\n  { pegnet := %s, gradingV2 := %s, txConv := %s, pegPricing := %s, oneWayFCT := %s, convLimit := %s,\n    pegFloat := %s, rcde := %s, v4 := %s, v20 := %s, devRewards := %s, sprSig := %s, oneWaySmall := %s,\n    v202 := %s, v204 := %s, v204Burn := %s, pip10 := %s }\n\n",
		act("PegnetActivation"), act("GradingV2Activation"), act("TransactionConversionActivation"), act("PEGPricingActivation"),
		act("OneWaypFCTConversions"), act("PegnetConversionLimitActivation"), act("PEGFreeFloatingPriceActivation"), act("Fat2RCDEActivation"),
		act("V4OPRUpdate"), act("V20HeightActivation"), act("V20DevRewardsHeightActivation"), act("SprSignatureActivation"),
		act("OneWaySmallAssetsConversions"), act("V202EnhanceActivation"), act("V204EnhanceActivation"), act("V204BurnMintedTokenActivation"),
		act("PIP10AverageActivation"))
	w("def setAllActivationsCovers : List String := %s\n\n", leanStrList(F.SetAllCovers))
	w("def tickers : List String := %s\n\n", leanStrList(F.Tickers))
	w("def tickerConsts : List String := %s\n\n", leanStrList(F.TickerConsts))
	w("def tickerMax : Nat := %d\n\n", len(F.Tickers)+1)
	var ow []string
	for _, n := range F.OneWaySet {
		ow = append(ow, strconv.Itoa(tickerIndex(F, n)))
	}
	w("def oneWaySet : List Nat := [%s]\n", strings.Join(ow, ", "))
	w("def oneWayNames : List String := %s\n", leanStrList(F.OneWaySet))
	w("def oneWayGuard : String := %s\n\n", leanStr(F.OneWayGuard))
	cn := func(k string) string {
		if v, ok := F.Consts[k]; ok {
			return v
		}
		return "0"
	}
	for _, k := range []string{"PerBlock", "PerBlockMiners", "PerBlockPastMiners", "PerBlockAssetHolders", "PerBlockStakers", "PerBlockDevelopers", "SnapshotRate", "BankBaseAmount", "AveragePeriod", "QueryLimit"} {
		name := strings.ToLower(k[:1]) + k[1:]
		w("def %s : Nat := %s\n", name, cn(k))
	}
	w("def averageRequiredExpr : String := %s\n\n", leanStr(F.Consts["AverageRequiredExpr"]))
	// developer table: percentages must be integral
	integral := true
	var devs []string
	for _, d := range F.Devs {
		f, err := strconv.ParseFloat(d.Pct, 64)
		if err != nil || f != math.Trunc(f) || f < 0 {
			integral = false
			continue
		}
		devs = append(devs, fmt.Sprintf("(%s, %d)", leanStr(d.Address), int64(f)))
	}
	w("def devPctIntegral : Bool := %v\n", integral)
	w("def devs : List (String × Nat) := [%s]\n\n", strings.Join(devs, ", "))
	var mint []string
	for _, m := range F.Mint {
		mint = append(mint, fmt.Sprintf("(%d, %s)", tickerIndex(F, tickerString(m.Ticker, F)), m.Amount))
	}
	w("def mint : List (Nat × Nat) := [%s]\n\n", strings.Join(mint, ", "))
	for _, k := range []string{"BurnAddress", "GlobalBurnAddress", "GlobalOldBurnAddress", "GlobalMintAddress", "BurnRCD"} {
		name := strings.ToLower(k[:1]) + k[1:]
		w("def %s : String := %s\n", name, leanStr(F.Addresses[k]))
	}
	w("\ndef syncVersion : Int := %s\n", orZero(F.SyncVersion))
	var forks []string
	for _, f := range F.Forks {
		forks = append(forks, fmt.Sprintf("(%s, %s)", orZero(f.Activation), orZero(f.MinVersion)))
	}
	w("def forks : List (Nat × Int) := [%s]\n\n", strings.Join(forks, ", "))
	rc := func(k string) string {
		if v, ok := F.RejectCodes[k]; ok {
			return v
		}
		return "0"
	}
	w("def rejectInsufficient : Int := %s\ndef rejectPFCTOneWay : Int := %s\ndef rejectZeroRates : Int := %s\ndef rejectSmallOneWay : Int := %s\n",
		rc("InsufficientBalanceErrInt"), rc("PFCTOneWayErrorInt"), rc("ZeroRatesErrorInt"), rc("PSMALLOneWayErrorInt"))
	var rmap []string
	for _, k := range []string{"InsufficientBalanceErr", "PFCTOneWayError", "PSMALLOneWayError", "ZeroRatesError"} {
		rmap = append(rmap, fmt.Sprintf("(%s, %s)", leanStr(k), leanStr(F.RejectCodes["map:"+k])))
	}
	w("def rejectMap : List (String × String) := [%s]\n\n", strings.Join(rmap, ", "))
	lad := func(name string, l *Ladder) {
		if l == nil {
			w("def %sBase : Option Nat := none\ndef %sRungs : List (String × Nat) := []\n", name, name)
			return
		}
		base := strings.TrimSuffix(strings.TrimPrefix(l.Base, "uint8("), ")")
		w("def %sBase : Option Nat := some %s\n", name, base)
		var r []string
		for _, x := range l.Rungs {
			r = append(r, fmt.Sprintf("(%s, %s)", leanStr(x[0]), x[1]))
		}
		w("def %sRungs : List (String × Nat) := [%s]\n", name, strings.Join(r, ", "))
	}
	lad("oprLadder", F.OprLadder)
	lad("sprLadder", F.SprLadder)
	var bands []string
	for _, k := range []string{"GetAssetRates:tol", "GetAssetRates:tol:override", "GetAssetRates:guard", "GetAssetRatesV0:tol", "GetAssetRatesV0:tol:override", "GetAssetRatesV0:threshold"} {
		bands = append(bands, fmt.Sprintf("(%s, %s)", leanStr(k), leanStr(F.Bands[k])))
	}
	w("\ndef bands : List (String × String) := [%s]\n\n", strings.Join(bands, ", "))
	w("def poolWrites : List String := %s\n\n", leanStrList(siteIDs(F.PoolWrites)))
	w("def poolReadsSyncPath : List String := %s\n\n", leanStrList(siteIDs(F.PoolReads)))
	w("def discardedErrors : List String := %s\n\n", leanStrList(siteIDs(F.Discarded)))
	w("def logOnlyErrors : List String := %s\n\n", leanStrList(siteIDs(F.LogOnly)))
	w("def blankAssignedErrors : List String := %s\n\n", leanStrList(siteIDs(F.BlankErr)))
	w("def mapRanges : List String := %s\n\n", leanStrList(siteIDs(F.MapRanges)))
	w("def sorts : List String := %s\n\n", leanStrList(siteIDs(F.Sorts)))
	w("def timeNow : List String := %s\n\n", leanStrList(siteIDs(F.TimeNow)))
	w("def packageVars : List String := %s\n\n", leanStrList(F.PackageVars))
	w("def uncheckedRowLoops : List String := %s\n\n", leanStrList(F.UncheckedRowLoops))
	w("def sharedState : List String := %s\n\n", leanStrList(siteIDs(F.SharedState)))
	w("def apiSharedState : List String := %s\n\n", leanStrList(siteIDs(F.ApiShared)))
	w("def goStatements : List String := %s\n\n", leanStrList(siteIDs(F.GoStmts)))
	w("def missing : List String := %s\n\n", leanStrList(F.Missing))
	w("end Pegnet.Generated\n")
	return sb.String()
}

func orZero(s string) string {
	if _, err := strconv.ParseInt(s, 10, 64); err != nil {
		return "0"
	}
	if strings.HasPrefix(s, "-") {
		return "(" + s + ")"
	}
	return s
}
