#!/bin/bash
# usage: ./seedverify.sh <seeded-dir> [pkgdir=node]
# Confirms a seeded change in a scratch worktree of /repo (outside /repo and /verif):
#   demo passes without the patch, fails with it; go build + the existing suite pass with it.
# Prints one summary line; removes the worktree.
set -u
d=$(realpath "$1"); pkg=${2:-node}
id=$(basename "$d")
wt=/tmp/sv-$id
export GOFLAGS=-mod=mod GOPROXY=off GOSUMDB=off GOTOOLCHAIN=local LXRBITSIZE=8
git -C /repo worktree remove --force "$wt" >/dev/null 2>&1
git -C /repo worktree add --detach "$wt" HEAD >/dev/null 2>&1 || { echo "$id worktree failed"; exit 2; }
trap 'git -C /repo worktree remove --force "$wt" >/dev/null 2>&1' EXIT
demo=$(ls "$d"/*_test.go | head -1)
cp "$demo" "$wt/$pkg/"
run=$(grep -o '^func Test[A-Za-z0-9_]*' "$demo" | sed 's/func //' | paste -sd'|')
(cd "$wt" && go test -vet=off -count=1 ./$pkg/ -run "^($run)\$" >/tmp/sv-$id.clean.log 2>&1); clean=$?
git -C "$wt" apply "$d/patch.diff" || { echo "$id patch does not apply"; exit 2; }
(cd "$wt" && go test -vet=off -count=1 ./$pkg/ -run "^($run)\$" >/tmp/sv-$id.patched.log 2>&1); patched=$?
rm "$wt/$pkg/$(basename "$demo")"
(cd "$wt" && go build ./... >/tmp/sv-$id.build.log 2>&1); build=$?
(cd "$wt" && go test -vet=off -count=1 ./... >/tmp/sv-$id.suite.log 2>&1); suite=$?
echo "$id demo-clean=$clean demo-patched=$patched build=$build suite=$suite"
