import Proofs.LivenessHeld
import Proofs.Payouts
/-
  C08 / C16: the bank pass never fails on conversions with distinct keys.
-/
namespace Pegnet

/-- succeeds from every state and leaves the bank table alone -/
def SafeB {α} (m : LM α) : Prop := ∀ s, ∃ a s', m s = .ok a s' ∧ s'.bank = s.bank

namespace SafeB
variable {α β : Type}
theorem pure' (a : α) : SafeB (M.pure a : LM α) := fun s => ⟨a, s, rfl, rfl⟩
theorem bind {m : LM α} {f : α → LM β} (hm : SafeB m) (hf : ∀ a, SafeB (f a)) : SafeB (m >>= f) := by
  intro s
  obtain ⟨a, s1, h1, b1⟩ := hm s
  obtain ⟨b, s2, h2, b2⟩ := hf a s1
  exact ⟨b, s2, by rw [M.bind_run, h1]; exact h2, by rw [b2, b1]⟩
theorem guarded {g : DB → Option Failure} {u : DB → DB} (hg : ∀ s, g s = none) (hu : ∀ s, (u s).bank = s.bank) : SafeB (M.guarded g u) := by
  intro s
  exact ⟨(), u s, by simp only [M.guarded, hg s], hu s⟩
theorem forEach {l : List α} {f : α → LM Unit} (hf : ∀ a ∈ l, SafeB (f a)) : SafeB (M.forEach l f) := by
  induction l with
  | nil => exact pure' ()
  | cons x xs ih =>
    exact bind (m := f x) (hf x List.mem_cons_self) (fun _ => ih (fun a ha => hf a (List.mem_cons_of_mem _ ha)))
end SafeB

theorem addBal_safeB (P : Params) (a : Addr) (t : Ticker) (v : Nat) (ht : validTicker P t = true) (hv : v ≤ maxInt64) :
    SafeB (addBal P a t v) :=
  SafeB.guarded (fun _ => by simp [ht]; omega) (fun _ => rfl)

theorem convertD_le (pip10 h : Nat) (amt : Int) (fr fa tr ta : Nat) : convertD pip10 h amt fr fa tr ta ≤ (maxInt64 : Int) := by
  unfold convertD
  cases hc : convert pip10 h amt fr fa tr ta with
  | none => simp [maxInt64]
  | some x => simpa using convert_le hc

/-- paying one request never fails: known assets, a yield within int64 -/
theorem payPegReq_safe (P : Params) (h : Nat) (rates : TMap) (r : PegReq) (y : Nat)
    (hc : validTicker P r.tx.conversion = true) (ht : validTicker P r.tx.inType = true) (hy : y ≤ maxInt64) :
    SafeB (payPegReq P h rates r y) := by
  unfold payPegReq
  refine SafeB.bind (SafeB.guarded (fun _ => rfl) (fun _ => rfl)) (fun _ => ?_)
  refine SafeB.bind (addBal_safeB P _ _ _ hc hy) (fun _ => ?_)
  apply addBal_safeB P _ _ _ ht
  have h1 := convertD_le P.act.pip10 h
    (convertD P.act.pip10 h (toInt64 r.tx.inAmount) (rates.get r.tx.inType) (rates.get r.tx.inType) (rates.get r.tx.conversion) (rates.get r.tx.conversion) - toInt64 y)
    (rates.get r.tx.conversion) (rates.get r.tx.conversion) (rates.get r.tx.inType) (rates.get r.tx.inType)
  unfold refund
  dsimp only
  omega


theorem hasDupKey_nodup : ∀ ks : List TxKey, hasDupKey ks = false → ks.Nodup := by
  intro ks
  induction ks with
  | nil => intro _; exact List.nodup_nil
  | cons k rest ih =>
    intro hd
    simp only [hasDupKey, Bool.or_eq_false_iff] at hd
    refine List.nodup_cons.2 ⟨?_, ih hd.2⟩
    intro hin
    have := hd.1
    simp [List.contains_iff_mem, hin] at this

/-- with distinct keys no request is paid more than the bank -/
theorem payout_le_bank (bank : Nat) (reqs : List (TxKey × Nat)) (hb : bank ≤ maxUint64)
    (hn : (reqs.map (·.1)).Nodup) : ∀ p ∈ payouts bank reqs, p.2 ≤ bank := by
  intro p hp
  by_cases hne : reqs = []
  · rw [hne] at hp; simp [payouts] at hp
  · have h1 := mem_sumReq_le hp
    rw [payouts_sum bank reqs hb hn hne] at h1
    split at h1 <;> omega

/-- **The bank pass never fails** on batches whose transactions are all conversions into a known
    asset (a genuine PEG request is one), with distinct (entry, index) keys, a bank within int64 and —
    in the bank-table era — the block's bank row in place. The excluded shape (a TRANSFER inside a
    batch that also holds a PEG request) is the recorded finding of C08: it is "paid" in ticker 0. -/
theorem recordPegRequests_never_fails (P : Params) (h : Nat) (rates avgs : TMap) (batches : List TxEntry)
    (bank : Nat) (bh : Int) (s : DB)
    (hkeys : hasDupKey ((pegRequests P h rates avgs batches).map (·.key)) = false)
    (hconv : ∀ r ∈ pegRequests P h rates avgs batches, validTicker P r.tx.conversion = true ∧ validTicker P r.tx.inType = true)
    (hbank : bank ≤ maxInt64)
    (hrow : bh ≥ (P.act.v4 : Int) → s.bank.any (·.height == bh) = true) :
    ∃ s', recordPegRequests P h rates avgs batches bank bh s = .ok () s' := by
  unfold recordPegRequests
  dsimp only
  rw [if_neg (by simp [hkeys])]
  simp only [M.bind_run, M.pure_run]
  have hnd : (((pegRequests P h rates avgs batches).map fun r => (r.key, r.requested)).map (·.1)).Nodup := by
    have hk : ((pegRequests P h rates avgs batches).map fun r => (r.key, r.requested)).map (·.1) =
        (pegRequests P h rates avgs batches).map (·.key) := by
      simp [List.map_map, Function.comp]
    rw [hk]; exact hasDupKey_nodup _ hkeys
  have hloop : SafeB (M.forEach ((pegRequests P h rates avgs batches).zip
      (payouts bank ((pegRequests P h rates avgs batches).map fun r => (r.key, r.requested))))
      (fun rp => payPegReq P h rates rp.1 rp.2.2)) := by
    apply SafeB.forEach
    intro rp hrp
    have hr := (List.of_mem_zip hrp).1
    have hp := (List.of_mem_zip hrp).2
    have hy := payout_le_bank bank _ (by simp [maxInt64, maxUint64] at *; omega) hnd rp.2 hp
    exact payPegReq_safe P h rates rp.1 rp.2.2 (hconv rp.1 hr).1 (hconv rp.1 hr).2 (by omega)
  obtain ⟨_, s1, h1, hb1⟩ := hloop s
  rw [h1]
  dsimp only
  split
  · rename_i hv4
    simp only [updateBank, M.guarded]
    have := hrow hv4
    rw [← hb1] at this
    simp only [this, if_true]
    exact ⟨_, rfl⟩
  · exact ⟨s1, rfl⟩


/-! ### the keys of a pass are distinct when the joined entries are -/

theorem nodup_hasDupKey : ∀ ks : List TxKey, ks.Nodup → hasDupKey ks = false := by
  intro ks
  induction ks with
  | nil => intro _; rfl
  | cons k rest ih =>
    intro hn
    obtain ⟨hk, hr⟩ := List.nodup_cons.1 hn
    simp only [hasDupKey, Bool.or_eq_false_iff]
    refine ⟨?_, ih hr⟩
    apply Bool.eq_false_iff.2
    intro hc
    exact hk (List.contains_iff_mem.1 hc)

theorem pegRequests_keys (P : Params) (h : Nat) (rates avgs : TMap) (batches : List TxEntry) :
    (pegRequests P h rates avgs batches).map (·.key) =
      batches.flatMap (fun e => (List.range e.txs.length).map (fun i => ({ idx := i, hash := e.hash } : TxKey))) := by
  unfold pegRequests
  induction batches with
  | nil => rfl
  | cons e rest ih =>
    simp only [List.flatMap_cons, List.map_append, ih]
    congr 1
    rw [List.map_map]
    have : ∀ (l : List Tx) (k : Nat), (l.zipIdx k).map ((fun r : PegReq => r.key) ∘ fun p =>
        { key := { idx := p.2, hash := e.hash }, tx := p.1,
          requested := (convertD P.act.pip10 h (toInt64 p.1.inAmount) (rates.get p.1.inType) (avgs.get p.1.inType) (rates.get p.1.conversion) (avgs.get p.1.conversion)).toNat }) =
        (List.range' k l.length).map (fun i => ({ idx := i, hash := e.hash } : TxKey)) := by
      intro l
      induction l with
      | nil => intro k; rfl
      | cons t ts ih2 => intro k; simp only [List.zipIdx_cons, List.map_cons, List.length_cons, List.range'_succ, ih2 (k + 1)]; rfl
    rw [this e.txs 0, List.range_eq_range']

/-- distinct entry hashes ⇒ distinct (entry, index) keys ⇒ the duplicate-key test of the pass is negative -/
theorem pegRequests_no_dup (P : Params) (h : Nat) (rates avgs : TMap) (batches : List TxEntry)
    (hn : (batches.map (·.hash)).Nodup) :
    hasDupKey ((pegRequests P h rates avgs batches).map (·.key)) = false := by
  apply nodup_hasDupKey
  rw [pegRequests_keys]
  induction batches with
  | nil => exact List.nodup_nil
  | cons e rest ih =>
    obtain ⟨he, hr⟩ := List.nodup_cons.1 hn
    simp only [List.flatMap_cons]
    rw [List.nodup_append]
    refine ⟨?_, ih hr, ?_⟩
    · have : ∀ (l : List Nat), l.Nodup → (l.map (fun i : Nat => ({ idx := i, hash := e.hash } : TxKey))).Nodup := by
        intro l
        induction l with
        | nil => intro _; exact List.nodup_nil
        | cons a as iha =>
          intro hl
          obtain ⟨h1, h2⟩ := List.nodup_cons.1 hl
          rw [List.map_cons]
          refine List.nodup_cons.2 ⟨?_, iha h2⟩
          intro hm
          obtain ⟨b, hb, hab⟩ := List.mem_map.1 hm
          injection hab with hab _
          exact h1 (hab ▸ hb)
      exact this _ List.nodup_range
    · intro a ha b hb hab
      obtain ⟨i, _, rfl⟩ := List.mem_map.1 ha
      obtain ⟨e', he', hb'⟩ := List.mem_flatMap.1 hb
      obtain ⟨j, _, rfl⟩ := List.mem_map.1 hb'
      injection hab with _ hh
      exact he (by show e.hash ∈ rest.map (·.hash); rw [hh]; exact List.mem_map_of_mem he')

end Pegnet
