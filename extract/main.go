// extract: re-reads /repo's working tree (go/parser + go/ast only) and regenerates the facts the
// Lean model is parameterised by: activation heights, ticker table, issuance constants, developer
// and mint tables, fork table, reject codes, the one-way destination set, grader ladders, band
// constants, and structural facts of the sync path (SQL handle discipline, discarded errors,
// shared in-memory state, map ranges / sorts).
//
// Output: facts.json and lean/Pegnet/Generated/Facts.lean. A shape that is not found is emitted
// as missing (null / `none`), which breaks the obligation that needs it.
package main

import (
	"encoding/json"
	"fmt"
	"go/ast"
	"go/parser"
	"go/printer"
	"go/token"
	"math/big"
	"os"
	"path/filepath"
	"sort"
	"strconv"
	"strings"
)

type Site struct {
	File string `json:"file"`
	Func string `json:"func"`
	Line int    `json:"line"`
	What string `json:"what"`
}

type DevEntry struct {
	Group   string `json:"group"`
	Address string `json:"address"`
	Pct     string `json:"pct"` // literal text
}
type MintEntry struct {
	Ticker string `json:"ticker"`
	Amount string `json:"amount"`
}
type ForkEntry struct {
	Activation string `json:"activation"`
	MinVersion string `json:"min_version"`
}
type Ladder struct {
	Base  string     `json:"base"`
	Rungs [][2]string `json:"rungs"` // (activation variable, version)
}

type Facts struct {
	Activations   map[string]string `json:"activations"`
	SetAllCovers  []string          `json:"set_all_activations_covers"`
	Tickers       []string          `json:"tickers"`
	TickerConsts  []string          `json:"ticker_consts"`
	Consts        map[string]string `json:"consts"`
	Devs          []DevEntry        `json:"devs"`
	Mint          []MintEntry       `json:"mint"`
	Addresses     map[string]string `json:"addresses"`
	SyncVersion   string            `json:"sync_version"`
	Forks         []ForkEntry       `json:"forks"`
	RejectCodes   map[string]string `json:"reject_codes"`
	OneWaySet     []string          `json:"one_way_set"`
	OneWayGuard   string            `json:"one_way_guard"`
	OprLadder     *Ladder           `json:"opr_ladder"`
	SprLadder     *Ladder           `json:"spr_ladder"`
	Bands         map[string]string `json:"bands"`
	SQLSites      []Site            `json:"sql_sites"`
	PoolWrites    []Site            `json:"pool_writes"`
	PoolReads     []Site            `json:"pool_reads_sync_path"`
	Discarded     []Site            `json:"discarded_errors"`
	LogOnly       []Site            `json:"log_only_errors"`
	BlankErr      []Site            `json:"blank_assigned_errors"`
	MapRanges     []Site            `json:"map_ranges"`
	Sorts         []Site            `json:"sorts"`
	SharedState   []Site            `json:"shared_state_access"`
	ApiShared     []Site            `json:"api_shared_state_access"`
	GoStmts       []Site            `json:"go_statements"`
	TimeNow       []Site            `json:"time_now"`
	PackageVars   []string          `json:"package_vars"`
	UncheckedRowLoops []string      `json:"unchecked_row_loops"`
	Missing       []string          `json:"missing"`
}

var fset = token.NewFileSet()
var repo = "/repo"

func parseDir(rel string) map[string]*ast.File {
	out := map[string]*ast.File{}
	dir := filepath.Join(repo, rel)
	ents, err := os.ReadDir(dir)
	if err != nil {
		return out
	}
	for _, e := range ents {
		n := e.Name()
		if e.IsDir() || !strings.HasSuffix(n, ".go") || strings.HasSuffix(n, "_test.go") {
			continue
		}
		f, err := parser.ParseFile(fset, filepath.Join(dir, n), nil, parser.ParseComments)
		if err != nil {
			fmt.Fprintln(os.Stderr, "parse error:", err)
			continue
		}
		// skip files guarded by the verif build tag (hooks)
		skip := false
		for _, cg := range f.Comments {
			for _, c := range cg.List {
				if strings.Contains(c.Text, "go:build verif") || strings.Contains(c.Text, "+build verif") {
					skip = true
				}
			}
		}
		if skip {
			continue
		}
		out[filepath.Join(rel, n)] = f
	}
	return out
}

func src(n ast.Node) string {
	var sb strings.Builder
	printer.Fprint(&sb, fset, n)
	return sb.String()
}

// valueSpecs collects name -> value expression for package-level var/const declarations.
func valueSpecs(files map[string]*ast.File) map[string]ast.Expr {
	out := map[string]ast.Expr{}
	for _, f := range files {
		for _, d := range f.Decls {
			gd, ok := d.(*ast.GenDecl)
			if !ok || (gd.Tok != token.VAR && gd.Tok != token.CONST) {
				continue
			}
			for _, s := range gd.Specs {
				vs := s.(*ast.ValueSpec)
				for i, n := range vs.Names {
					if i < len(vs.Values) {
						out[n.Name] = vs.Values[i]
					}
				}
			}
		}
	}
	return out
}

// evalInt evaluates integer constant expressions: literals (incl. 1e8 forms), + * /, parens,
// identifiers resolved in env, conversions like uint64(x).
func evalInt(e ast.Expr, env map[string]ast.Expr, depth int) (*big.Int, bool) {
	if depth > 20 {
		return nil, false
	}
	switch x := e.(type) {
	case *ast.BasicLit:
		if x.Kind == token.INT {
			v, ok := new(big.Int).SetString(strings.ReplaceAll(x.Value, "_", ""), 0)
			return v, ok
		}
		if x.Kind == token.FLOAT {
			f, ok := new(big.Float).SetPrec(200).SetString(x.Value)
			if !ok || !f.IsInt() {
				return nil, false
			}
			v, _ := f.Int(nil)
			return v, true
		}
	case *ast.ParenExpr:
		return evalInt(x.X, env, depth+1)
	case *ast.Ident:
		if v, ok := env[x.Name]; ok {
			return evalInt(v, env, depth+1)
		}
	case *ast.SelectorExpr:
		if v, ok := env[x.Sel.Name]; ok {
			return evalInt(v, env, depth+1)
		}
	case *ast.CallExpr:
		if len(x.Args) == 1 {
			return evalInt(x.Args[0], env, depth+1)
		}
	case *ast.BinaryExpr:
		a, ok1 := evalInt(x.X, env, depth+1)
		b, ok2 := evalInt(x.Y, env, depth+1)
		if !ok1 || !ok2 {
			return nil, false
		}
		switch x.Op {
		case token.ADD:
			return new(big.Int).Add(a, b), true
		case token.MUL:
			return new(big.Int).Mul(a, b), true
		case token.SUB:
			return new(big.Int).Sub(a, b), true
		case token.QUO:
			if b.Sign() == 0 {
				return nil, false
			}
			return new(big.Int).Quo(a, b), true
		}
	case *ast.UnaryExpr:
		if x.Op == token.SUB {
			a, ok := evalInt(x.X, env, depth+1)
			if ok {
				return new(big.Int).Neg(a), true
			}
		}
	}
	return nil, false
}

func site(file, fn string, n ast.Node, what string) Site {
	return Site{File: file, Func: fn, Line: fset.Position(n.Pos()).Line, What: what}
}

func funcDecl(files map[string]*ast.File, name string) (*ast.FuncDecl, string) {
	for fn, f := range files {
		for _, d := range f.Decls {
			if fd, ok := d.(*ast.FuncDecl); ok && fd.Name.Name == name {
				return fd, fn
			}
		}
	}
	return nil, ""
}

func main() {
	if len(os.Args) > 1 {
		repo = os.Args[1]
	}
	outDir := "/verif"
	if len(os.Args) > 2 {
		outDir = os.Args[2]
	}
	F := &Facts{Activations: map[string]string{}, Consts: map[string]string{}, Addresses: map[string]string{},
		RejectCodes: map[string]string{}, Bands: map[string]string{}}
	miss := func(s string) { F.Missing = append(F.Missing, s) }

	cfg := parseDir("config")
	fat2 := parseDir("fat/fat2")
	nodeP := parseDir("node")
	pegP := parseDir("node/pegnet")
	convP := parseDir("node/conversions")
	srvP := parseDir("srv")
	cmdP := parseDir("cmd")

	// F1 activations
	env := valueSpecs(cfg)
	for k, v := range valueSpecs(fat2) {
		env[k] = v
	}
	for _, name := range []string{"PegnetActivation", "GradingV2Activation", "TransactionConversionActivation",
		"PEGPricingActivation", "OneWaypFCTConversions", "PegnetConversionLimitActivation", "PEGFreeFloatingPriceActivation",
		"Fat2RCDEActivation", "V4OPRUpdate", "V20HeightActivation", "V20DevRewardsHeightActivation", "SprSignatureActivation",
		"OneWaySmallAssetsConversions", "V202EnhanceActivation", "V204EnhanceActivation", "V204BurnMintedTokenActivation",
		"PIP10AverageActivation"} {
		if e, ok := env[name]; ok {
			if v, ok := evalInt(e, env, 0); ok {
				F.Activations[name] = v.String()
				continue
			}
		}
		miss("activation " + name)
	}
	if fd, _ := funcDecl(cfg, "SetAllActivations"); fd != nil {
		for _, st := range fd.Body.List {
			if as, ok := st.(*ast.AssignStmt); ok && len(as.Lhs) == 1 {
				F.SetAllCovers = append(F.SetAllCovers, src(as.Lhs[0]))
			}
		}
	}

	// F2 tickers
	f2env := valueSpecs(fat2)
	if cl, ok := f2env["validPTickerStrings"].(*ast.CompositeLit); ok {
		for _, el := range cl.Elts {
			if bl, ok := el.(*ast.BasicLit); ok {
				s, _ := strconv.Unquote(bl.Value)
				F.Tickers = append(F.Tickers, s)
			}
		}
	} else {
		miss("validPTickerStrings")
	}
	for _, f := range fat2 {
		for _, d := range f.Decls {
			gd, ok := d.(*ast.GenDecl)
			if !ok || gd.Tok != token.CONST {
				continue
			}
			isTicker := false
			for _, s := range gd.Specs {
				vs := s.(*ast.ValueSpec)
				if len(vs.Names) > 0 && vs.Names[0].Name == "PTickerInvalid" {
					isTicker = true
				}
			}
			if isTicker {
				for _, s := range gd.Specs {
					for _, n := range s.(*ast.ValueSpec).Names {
						F.TickerConsts = append(F.TickerConsts, n.Name)
					}
				}
			}
		}
	}

	// F3 constants
	cenv := valueSpecs(convP)
	for k, v := range valueSpecs(pegP) {
		cenv[k] = v
	}
	for k, v := range valueSpecs(nodeP) {
		cenv[k] = v
	}
	for _, name := range []string{"PerBlock", "PerBlockMiners", "PerBlockPastMiners", "PerBlockAssetHolders", "PerBlockStakers",
		"PerBlockDevelopers", "SnapshotRate", "BankBaseAmount", "AveragePeriod", "QueryLimit"} {
		if e, ok := cenv[name]; ok {
			if v, ok := evalInt(e, cenv, 0); ok {
				F.Consts[name] = v.String()
				continue
			}
		}
		miss("const " + name)
	}
	if e, ok := cenv["AverageRequired"]; ok {
		F.Consts["AverageRequiredExpr"] = src(e)
	}

	// F4 tables and addresses
	nenv := valueSpecs(nodeP)
	if cl, ok := nenv["DeveloperRewardAddreses"].(*ast.CompositeLit); ok {
		for _, el := range cl.Elts {
			if c, ok := el.(*ast.CompositeLit); ok && len(c.Elts) == 3 {
				g, _ := strconv.Unquote(src(c.Elts[0]))
				a, _ := strconv.Unquote(src(c.Elts[1]))
				F.Devs = append(F.Devs, DevEntry{g, a, src(c.Elts[2])})
			}
		}
	} else {
		miss("DeveloperRewardAddreses")
	}
	if cl, ok := nenv["MintTotalSupplyMap"].(*ast.CompositeLit); ok {
		for _, el := range cl.Elts {
			if c, ok := el.(*ast.CompositeLit); ok && len(c.Elts) == 2 {
				F.Mint = append(F.Mint, MintEntry{strings.TrimPrefix(src(c.Elts[0]), "fat2."), src(c.Elts[1])})
			}
		}
	} else {
		miss("MintTotalSupplyMap")
	}
	for _, name := range []string{"BurnAddress", "GlobalBurnAddress", "GlobalOldBurnAddress", "GlobalMintAddress"} {
		if bl, ok := nenv[name].(*ast.BasicLit); ok {
			s, _ := strconv.Unquote(bl.Value)
			F.Addresses[name] = s
		} else {
			miss("address " + name)
		}
	}
	// BurnRCD hex literal in init()
	for _, f := range nodeP {
		ast.Inspect(f, func(n ast.Node) bool {
			if ce, ok := n.(*ast.CallExpr); ok && src(ce.Fun) == "hex.DecodeString" && len(ce.Args) == 1 {
				if bl, ok := ce.Args[0].(*ast.BasicLit); ok {
					s, _ := strconv.Unquote(bl.Value)
					F.Addresses["BurnRCD"] = s
				}
			}
			return true
		})
	}

	// F5 sync version / forks
	penv := valueSpecs(pegP)
	if e, ok := penv["PegnetdSyncVersion"]; ok {
		F.SyncVersion = src(e)
	} else {
		miss("PegnetdSyncVersion")
	}
	if cl, ok := penv["Hardforks"].(*ast.CompositeLit); ok {
		for _, el := range cl.Elts {
			c, ok := el.(*ast.CompositeLit)
			if !ok {
				continue
			}
			var a, m string
			for i, e := range c.Elts {
				if kv, ok := e.(*ast.KeyValueExpr); ok {
					if src(kv.Key) == "ActivationHeight" {
						a = src(kv.Value)
					} else {
						m = src(kv.Value)
					}
				} else if i == 0 {
					a = src(e)
				} else {
					m = src(e)
				}
			}
			F.Forks = append(F.Forks, ForkEntry{a, m})
		}
	} else {
		miss("Hardforks")
	}

	// F6 reject codes
	for _, name := range []string{"InsufficientBalanceErrInt", "PFCTOneWayErrorInt", "ZeroRatesErrorInt", "PSMALLOneWayErrorInt"} {
		if e, ok := penv[name]; ok {
			if v, ok := evalInt(e, penv, 0); ok {
				F.RejectCodes[name] = v.String()
				continue
			}
		}
		miss("reject code " + name)
	}
	if fd, _ := funcDecl(pegP, "IsRejectedTx"); fd != nil {
		ast.Inspect(fd, func(n ast.Node) bool {
			if is, ok := n.(*ast.IfStmt); ok {
				if be, ok := is.Cond.(*ast.BinaryExpr); ok && be.Op == token.EQL && src(be.X) == "err" {
					if len(is.Body.List) == 1 {
						if rs, ok := is.Body.List[0].(*ast.ReturnStmt); ok && len(rs.Results) == 2 {
							F.RejectCodes["map:"+src(be.Y)] = src(rs.Results[0])
						}
					}
				}
			}
			return true
		})
	}

	// F7 one-way set, F9 bands, F8 ladders
	if fd, _ := funcDecl(nodeP, "applyTransactionBatch"); fd != nil {
		ast.Inspect(fd, func(n ast.Node) bool {
			is, ok := n.(*ast.IfStmt)
			if !ok {
				return true
			}
			c := src(is.Cond)
			if strings.Contains(c, "OneWaySmallAssetsConversions") {
				var walk func(e ast.Expr)
				walk = func(e ast.Expr) {
					switch x := e.(type) {
					case *ast.ParenExpr:
						walk(x.X)
					case *ast.BinaryExpr:
						if x.Op == token.LOR || x.Op == token.LAND {
							walk(x.X)
							walk(x.Y)
						} else if x.Op == token.EQL && src(x.X) == "tx.Conversion" {
							F.OneWaySet = append(F.OneWaySet, tickerString(strings.TrimPrefix(src(x.Y), "fat2."), F))
						} else if x.Op == token.GEQ || x.Op == token.GTR {
							F.OneWayGuard = src(x)
						}
					}
				}
				walk(is.Cond)
			}
			return true
		})
	}
	if len(F.OneWaySet) == 0 {
		miss("one-way set")
	}
	for _, fn := range []string{"GetAssetRates", "GetAssetRatesV0"} {
		if fd, _ := funcDecl(nodeP, fn); fd != nil {
			ast.Inspect(fd, func(n ast.Node) bool {
				switch x := n.(type) {
				case *ast.AssignStmt:
					if len(x.Lhs) == 1 && src(x.Lhs[0]) == "toleranceRate" {
						key := fn + ":tol"
						if x.Tok == token.ASSIGN {
							key += ":override"
						}
						F.Bands[key] = src(x.Rhs[0])
					}
				case *ast.IfStmt:
					c := src(x.Cond)
					if strings.Contains(c, "sprRate >=") {
						F.Bands[fn+":threshold"] = c
					}
					if fn == "GetAssetRates" && strings.Contains(c, "V202EnhanceActivation") {
						F.Bands[fn+":guard"] = c
					}
				}
				return true
			})
		}
	}
	ladder := func(files map[string]*ast.File, fn string) *Ladder {
		fd, _ := funcDecl(files, fn)
		if fd == nil {
			return nil
		}
		l := &Ladder{}
		for _, st := range fd.Body.List {
			switch x := st.(type) {
			case *ast.AssignStmt:
				if len(x.Lhs) == 1 && src(x.Lhs[0]) == "ver" && x.Tok == token.DEFINE {
					l.Base = src(x.Rhs[0])
				}
			case *ast.IfStmt:
				c := src(x.Cond)
				if strings.HasPrefix(c, "block.Height >= ") && len(x.Body.List) == 1 {
					if as, ok := x.Body.List[0].(*ast.AssignStmt); ok && src(as.Lhs[0]) == "ver" {
						l.Rungs = append(l.Rungs, [2]string{strings.TrimPrefix(c, "block.Height >= config."), src(as.Rhs[0])})
					}
				}
			}
		}
		return l
	}
	F.OprLadder = ladder(nodeP, "Grade")
	F.SprLadder = ladder(nodeP, "GradeS")
	if F.OprLadder == nil {
		miss("opr ladder")
	}
	if F.SprLadder == nil {
		miss("spr ladder")
	}

	structural(F, nodeP, pegP, srvP, cmdP)

	sort.Strings(F.Missing)
	os.MkdirAll(outDir, 0755)
	data, _ := json.MarshalIndent(F, "", " ")
	os.WriteFile(filepath.Join(outDir, "facts.json"), data, 0644)
	genDir := filepath.Join(outDir, "lean", "Pegnet", "Generated")
	os.RemoveAll(genDir)
	os.MkdirAll(genDir, 0755)
	os.WriteFile(filepath.Join(genDir, "Facts.lean"), []byte(leanFacts(F)), 0644)
	fmt.Printf("extract: %d activations, %d tickers, %d devs, %d mint, %d sql sites, %d discarded, %d missing\n",
		len(F.Activations), len(F.Tickers), len(F.Devs), len(F.Mint), len(F.SQLSites), len(F.Discarded), len(F.Missing))
}

func tickerString(constName string, F *Facts) string {
	// PTickerXXX -> index in TickerConsts -> Tickers[index-1]
	for i, c := range F.TickerConsts {
		if c == constName && i >= 1 && i-1 < len(F.Tickers) {
			return F.Tickers[i-1]
		}
	}
	return "?" + constName
}
