import Proofs.Payouts
import Proofs.Arith
import Proofs.Bank
import Proofs.Moves
import Proofs.LivenessBank
import Pegnet.Generated.Facts
/-
  C16 — PEG conversion bank (legacy era): limit, proportional yield, refund.
  Statements are about `payouts` / `refund`, the model functions the correspondence check runs
  against `ConversionSupplySet.Payouts` / `conversions.Refund`.
-/
namespace Pegnet.C16
open Pegnet

/-- The PEG created by the conversions of one block never exceeds that block's bank. -/
theorem bank_limit (bank : Nat) (reqs : List (TxKey × Nat)) (hb : bank ≤ maxUint64)
    (hn : (reqs.map (·.1)).Nodup) : sumReq (payouts bank reqs) ≤ bank := by
  by_cases hne : reqs = []
  · subst hne; simp [payouts, sumReq]
  · rw [payouts_sum bank reqs hb hn hne]
    split <;> omega

/-- Each request receives its full amount if the total fits under the bank. -/
theorem full_if_fits (bank : Nat) (reqs : List (TxKey × Nat)) (hb : bank ≤ maxUint64)
    (hfit : sumReq reqs < bank) : payouts bank reqs = reqs :=
  payouts_fit bank reqs hb hfit

/-- Otherwise the whole bank is paid out, to the last unit. -/
theorem exact_when_over (bank : Nat) (reqs : List (TxKey × Nat)) (hb : bank ≤ maxUint64)
    (hn : (reqs.map (·.1)).Nodup) (hne : reqs ≠ []) (hover : bank ≤ sumReq reqs) :
    sumReq (payouts bank reqs) = bank := by
  rw [payouts_sum bank reqs hb hn hne, if_neg (by omega)]

/-- …and before the dust every request gets its proportional share ⌊c·bank/total⌋. -/
theorem proportional_otherwise (bank : Nat) (reqs : List (TxKey × Nat)) (hb : bank ≤ maxUint64) :
    reqs.map (fun r => (r.1, payoutBig r.2 bank (sumReq reqs))) =
    reqs.map (fun r => (r.1, r.2 * bank / sumReq reqs)) :=
  pays_eq_shares reqs bank (Nat.lt_of_le_of_lt hb maxUint64_lt_W)

/-- payouts are reported for exactly the requesting txids, in order -/
theorem same_requesters (bank : Nat) (reqs : List (TxKey × Nat)) :
    (payouts bank reqs).map (·.1) = reqs.map (·.1) := payouts_keys bank reqs

/-- Yield plus refund never exceed the value of the input:
    yield·pegRate + refund·srcRate ≤ input·srcRate, whenever the yield is at most the full yield
    ⌊input·srcRate/pegRate⌋ (which `payouts` guarantees: a payout never exceeds its request
    when the bank is the binding limit, and equals it otherwise). -/
theorem refund_value (pip10 h : Nat) (input yield : Int) (srcR pegR : Nat)
    (hin : 0 ≤ input)
    (hy : yield ≤ convertD pip10 h input srcR srcR pegR pegR) :
    yield * (pegR : Int) + refund pip10 h input yield srcR pegR * (srcR : Int) ≤ input * (srcR : Int) := by
  unfold refund
  have hmax := convertD_value_le pip10 h input srcR srcR pegR pegR hin
  generalize convertD pip10 h input srcR srcR pegR pegR = maxY at hy hmax
  have hsub : (maxY - yield) * (pegR : Int) = maxY * (pegR : Int) - yield * (pegR : Int) := Int.sub_mul ..
  have hr := convertD_value_le pip10 h (maxY - yield) pegR pegR srcR srcR (by omega)
  show yield * (pegR : Int) + convertD pip10 h (maxY - yield) pegR pegR srcR srcR * (srcR : Int) ≤ input * (srcR : Int)
  omega

/-! ### the second pass of a bank-era block (`recordPegnetRequests`) -/

/-- **The PEG created by the conversions of one block never exceeds that block's bank — at the
    level of the ledger.** Whenever the bank pass of a block completes and everything handed to it
    is a genuine PEG request, the PEG supply has grown by exactly the sum of the payouts computed by
    `ConversionSupplySet.Payouts` on the requests, and that sum is at most the bank. (Batches that
    mix a PEG request with other transactions are excluded: the recorded finding.) -/
theorem block_peg_creation_within_bank (P : Params) (h : Nat) (rates avgs : TMap) (batches : List TxEntry)
    (bank : Nat) (bankHeight : Int) (s s' : DB) (hok : AddrsOK s) (hb : bank ≤ maxUint64)
    (hall : ∀ r ∈ pegRequests P h rates avgs batches, r.tx.conversion = tPEG ∧ r.tx.inType ≠ tPEG)
    (hr : recordPegRequests P h rates avgs batches bank bankHeight s = .ok () s') :
    s'.supply tPEG = s.supply tPEG +
      (sumReq (payouts bank ((pegRequests P h rates avgs batches).map fun r => (r.key, r.requested))) : Int) ∧
    sumReq (payouts bank ((pegRequests P h rates avgs batches).map fun r => (r.key, r.requested))) ≤ bank :=
  recordPegRequests_supply P h rates avgs batches bank bankHeight s s' hok hb hall hr

/-- **The bank ledger records the amount used and requested for the block**: in the bank-table
    era the row of the block gets `used` = the sum of the yields handed out and `requested` = the
    total requested; `amount` and every other row stay as they were. -/
theorem bank_row_records_used_and_requested (P : Params) (h : Nat) (rates avgs : TMap) (batches : List TxEntry)
    (bank : Nat) (bankHeight : Int) (s s' : DB) (hv4 : bankHeight ≥ (P.act.v4 : Int))
    (hr : recordPegRequests P h rates avgs batches bank bankHeight s = .ok () s') :
    let reqs := (pegRequests P h rates avgs batches).map fun r => (r.key, r.requested)
    s'.bank = s.bank.map (fun r => if r.height == bankHeight then
      { r with used := ((payouts bank reqs).map (fun p => toInt64 p.2)).sum, requested := toInt64 (totalRequested reqs) } else r) :=
  recordPegRequests_bank_row P h rates avgs batches bank bankHeight s s' hv4 hr

/-! non-vacuity -/
example : payouts 100 [(⟨0, "aa"⟩, 60), (⟨1, "aa"⟩, 60)] = [(⟨0, "aa"⟩, 50), (⟨1, "aa"⟩, 50)] := by decide
example : payouts 100 [(⟨0, "bb"⟩, 70), (⟨0, "aa"⟩, 70), (⟨1, "aa"⟩, 10)] =
    [(⟨0, "bb"⟩, 46), (⟨0, "aa"⟩, 48), (⟨1, "aa"⟩, 6)] := by decide   -- 2 units of dust to the lowest txid among the top
example : refund 1000 5 199 1 1 100 = 0 := by decide

/-- **"The unconverted part of the input is refunded in the source asset"**: paying one request
    credits the requesting address with the yield in PEG and with
    `Refund(input, yield) = ⌊(⌊in·src/peg⌋ − yield)·peg/src⌋` in the source asset — to nobody else,
    in no other asset — and the request's history row records exactly that yield and that refund. -/
theorem request_paid_and_refunded_exactly (P : Params) (h : Nat) (rates : TMap) (rq : PegReq) (y : Nat) (s s' : DB)
    (hr : payPegReq P h rates rq y s = .ok () s') :
    (∀ a x, s'.bal a x = s.bal a x + pegDelta P h rates rq y a x) ∧
    ∀ r ∈ s'.histT, r.hash = rq.key.hash → r.txIndex = (rq.key.idx : Int) →
      r.toAmount = toInt64 y ∧
      r.outputs = renderOutputs [(rq.tx.inAddr,
        refund P.act.pip10 h (toInt64 rq.tx.inAmount) (toInt64 y) (rates.get rq.tx.inType) (rates.get rq.tx.conversion))] := by
  refine ⟨?_, pegRequest_row_records_payment P h rates rq y s s' hr⟩
  have := payPegReq_exact P h rates rq y s
  rw [hr] at this
  exact this

/-- the whole pass: every request of the block gets its `Payouts` share and its refund -/
theorem bank_pass_pays_and_refunds_exactly (P : Params) (h : Nat) (rates avgs : TMap) (batches : List TxEntry)
    (bank : Nat) (bh : Int) (s : DB) :
    Outcome (recordPegRequests P h rates avgs batches bank bh s)
      (fun _ s' => ∀ a x, s'.bal a x = s.bal a x +
        (((pegRequests P h rates avgs batches).zip
            (payouts bank ((pegRequests P h rates avgs batches).map fun r => (r.key, r.requested)))).map
          (fun rp => pegDelta P h rates rp.1 rp.2.2 a x)).sum) :=
  recordPegRequests_exact P h rates avgs batches bank bh s

/-- **The bank pass never fails** when every transaction of the batches that joined it is a
    conversion into a known asset (a genuine PEG request is one) with distinct (entry, index) keys,
    the bank fits in an int64 and — in the bank-table era — the block's bank row exists: every
    request is paid its share (at most the bank) and refunded, the bank row is updated. The excluded
    shape — a TRANSFER inside a batch that also holds a PEG request — is the recorded C08 finding. -/
theorem bank_pass_never_fails (P : Params) (h : Nat) (rates avgs : TMap) (batches : List TxEntry)
    (bank : Nat) (bh : Int) (s : DB)
    (hkeys : hasDupKey ((pegRequests P h rates avgs batches).map (·.key)) = false)
    (hconv : ∀ r ∈ pegRequests P h rates avgs batches, validTicker P r.tx.conversion = true ∧ validTicker P r.tx.inType = true)
    (hbank : bank ≤ maxInt64)
    (hrow : bh ≥ (P.act.v4 : Int) → s.bank.any (·.height == bh) = true) :
    ∃ s', recordPegRequests P h rates avgs batches bank bh s = .ok () s' :=
  recordPegRequests_never_fails P h rates avgs batches bank bh s hkeys hconv hbank hrow

/-- the same with the natural hypothesis: the batches that joined the pass have distinct entry
    hashes (the holding table has one row per entry: `C06.held_at_most_once`) -/
theorem bank_pass_never_fails_distinct_entries (P : Params) (h : Nat) (rates avgs : TMap) (batches : List TxEntry)
    (bank : Nat) (bh : Int) (s : DB)
    (hdist : (batches.map (·.hash)).Nodup)
    (hconv : ∀ r ∈ pegRequests P h rates avgs batches, validTicker P r.tx.conversion = true ∧ validTicker P r.tx.inType = true)
    (hbank : bank ≤ maxInt64)
    (hrow : bh ≥ (P.act.v4 : Int) → s.bank.any (·.height == bh) = true) :
    ∃ s', recordPegRequests P h rates avgs batches bank bh s = .ok () s' :=
  recordPegRequests_never_fails P h rates avgs batches bank bh s (pegRequests_no_dup P h rates avgs batches hdist) hconv hbank hrow

/-- with distinct keys no request is ever paid more than the bank -/
theorem no_request_paid_more_than_the_bank (bank : Nat) (reqs : List (TxKey × Nat)) (hb : bank ≤ maxUint64)
    (hn : (reqs.map (·.1)).Nodup) : ∀ p ∈ payouts bank reqs, p.2 ≤ bank :=
  payout_le_bank bank reqs hb hn

end Pegnet.C16

namespace Pegnet.C16
open Pegnet
/-- the shipped schedule, regenerated from config/activations.go and fat/fat2/activations.go on every
    run, against the values this property was read with: the heights that bound the bank era and switch it to the bank table. Every scenario of the harness
    runs on a compressed schedule that overwrites these constants, so nothing else would notice one of
    them moving; a moved height is a different protocol, not a rewrite. -/
theorem shipped_schedule :
    let a := Generated.activations
    Generated.activationsComplete = true ∧ a.convLimit = 222270 ∧ a.v4 = 231620 ∧ a.v20 = 258796 := by
  decide
end Pegnet.C16

namespace Pegnet.C16
open Pegnet
/-- the bank a block starts with (regenerated): 5,000 PEG -/
theorem shipped_bank : Generated.bankBaseAmount = 500000000000 := by
  decide
end Pegnet.C16

#print axioms Pegnet.C16.bank_limit
#print axioms Pegnet.C16.full_if_fits
#print axioms Pegnet.C16.exact_when_over
#print axioms Pegnet.C16.proportional_otherwise
#print axioms Pegnet.C16.same_requesters
#print axioms Pegnet.C16.refund_value
#print axioms Pegnet.C16.block_peg_creation_within_bank
#print axioms Pegnet.C16.bank_row_records_used_and_requested
#print axioms Pegnet.C16.request_paid_and_refunded_exactly
#print axioms Pegnet.C16.bank_pass_pays_and_refunds_exactly
#print axioms Pegnet.C16.bank_pass_never_fails
#print axioms Pegnet.C16.no_request_paid_more_than_the_bank
#print axioms Pegnet.C16.bank_pass_never_fails_distinct_entries
#print axioms Pegnet.C16.shipped_schedule
#print axioms Pegnet.C16.shipped_bank
