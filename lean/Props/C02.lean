import Proofs.NonInterference
import Proofs.RestartAvg
import Pegnet.Generated.Facts
/-
  C02 — Per-block atomicity and crash consistency of the balance store.
  In the model a block is one function `DB → Res DB`; what the theorems add is that its result is
  all-or-nothing, that the height bump is part of it, that a height cannot be applied twice, and
  (regenerated from the source) that no write of the sync path bypasses the block transaction.
-/
namespace Pegnet.C02
open Pegnet

/-- A block is applied completely or not at all: either the committed database is untouched
    (and a failure is reported), or it is the result of the complete block transaction. -/
theorem block_all_or_nothing (P : Params) (n : Node) (b : Block) :
    ((applyBlock P n b).1.db = n.db) ∨
    (∃ s' avgs, blockTx P { n.db with avgTouched := false } b avgs { n.db with avgTouched := false } = .ok () s' ∧
      (applyBlock P n b).1.db = { s' with avgTouched := false } ∧ (applyBlock P n b).2 = none) :=
  applyBlock_db P n b

/-- a reported failure means nothing of the block was committed -/
theorem failure_commits_nothing (P : Params) (n : Node) (b : Block) (e : Failure)
    (hf : (applyBlock P n b).2 = some e) : (applyBlock P n b).1.db = n.db := by
  rcases applyBlock_db P n b with h | ⟨_, _, _, _, hnone⟩
  · exact h
  · rw [hnone] at hf; cases hf

/-- version rows are only ever added by the block transaction -/
def svGrow : Rel DB where
  r s s' := ∀ x ∈ s.syncVersions, x ∈ s'.syncVersions
  refl _ _ h := h
  trans _ _ _ h1 h2 x hx := h2 x (h1 x hx)

theorem primsOK_svGrow (P : Params) (h : Nat) : PrimsOK P h svGrow where
  addBal _ _ _ := Step.guarded (fun _ _ hx => hx)
  subBal a t v _ := subBal_step_of P a t v (Step.guarded (fun _ _ hx => hx)) (Step.guarded (fun _ _ hx => hx))
  insertRate _ _ := Step.guarded (fun _ _ hx => hx)
  insertHistBatch _ := Step.guarded (fun _ _ hx => hx)
  insertHistTx _ _ := Step.guarded (fun _ _ hx => hx)
  insertLookup _ := Step.guarded (fun s x hx => by split <;> exact hx)
  setExecuted _ _ := Step.guarded (fun _ _ hx => hx)
  setConvertedAmount _ _ _ := Step.guarded (fun _ _ hx => hx)
  setPegConverted _ _ _ _ := Step.guarded (fun _ _ hx => hx)
  insertRelation _ _ _ _ _ := Step.guarded (fun s x hx => by split <;> exact hx)
  insertHolding _ _ _ := Step.guarded (fun _ _ hx => hx)
  insertBank _ := Step.guarded (fun _ _ hx => hx)
  updateBank _ _ _ := Step.guarded (fun _ _ hx => hx)
  insertGrade _ _ _ _ _ := Step.guarded (fun _ _ hx => hx)
  insertWinner _ _ _ _ _ := Step.guarded (fun _ _ hx => hx)
  markSynced _ := Step.guarded (fun _ x hx => List.mem_append_left _ hx)
  rotate := Step.guarded (fun _ _ hx => hx)
  touch := Step.guarded (fun _ _ hx => hx)

/-- Heights are applied once each: a block whose height already has a version row cannot be
    committed again (the PRIMARY KEY on `pn_sync_version.height` makes the bump fail, and the
    bump is part of the block transaction). -/
theorem height_applied_once (P : Params) (n : Node) (b : Block) (v : Int)
    (hrow : (b.height, v) ∈ n.db.syncVersions) : (applyBlock P n b).2 ≠ none := by
  intro hnone
  rcases applyBlock_db P n b with hdb | ⟨s', avgs, hs, _, _⟩
  · -- unchanged database but "no failure": inspect the definition
    unfold applyBlock at hnone
    simp only at hnone
    split at hnone
    · rename_i s' hs
      -- success: then markSynced succeeded although the row existed
      unfold blockTx at hs
      obtain ⟨_, s1, h1, hs⟩ := M.bind_ok hs
      obtain ⟨_, s2, h2, hs⟩ := M.bind_ok hs
      have ok := primsOK_svGrow P b.height
      have g1 : svGrow.r _ s1 := (burnZeroing_step _ b ok (fun _ => Step.guarded (fun _ _ hx => hx))).ok h1
      have g2 : svGrow.r s1 s2 := (syncBlock_step _ b _ ok (fun _ => Step.guarded (fun _ _ hx => hx))).ok h2
      have hmem : (b.height, v) ∈ s2.syncVersions := g2 _ (g1 _ hrow)
      unfold markSynced M.guarded at hs
      have hany : s2.syncVersions.any (·.1 == b.height) = true :=
        List.any_eq_true.2 ⟨_, hmem, by simp⟩
      simp [hany] at hs
    · cases hnone
  · unfold blockTx at hs
    obtain ⟨_, s1, h1, hs⟩ := M.bind_ok hs
    obtain ⟨_, s2, h2, hs⟩ := M.bind_ok hs
    have ok := primsOK_svGrow P b.height
    have g1 : svGrow.r _ s1 := (burnZeroing_step _ b ok (fun _ => Step.guarded (fun _ _ hx => hx))).ok h1
    have g2 : svGrow.r s1 s2 := (syncBlock_step _ b _ ok (fun _ => Step.guarded (fun _ _ hx => hx))).ok h2
    have hmem : (b.height, v) ∈ s2.syncVersions := g2 _ (g1 _ hrow)
    unfold markSynced M.guarded at hs
    have hany : s2.syncVersions.any (·.1 == b.height) = true :=
      List.any_eq_true.2 ⟨_, hmem, by simp⟩
    simp [hany] at hs

/-- a committed block records its own height as the sync height, in the same transaction -/
theorem commit_bumps_height (P : Params) (c : DB) (b : Block) (avgs : TMap) (s s' : DB)
    (hs : blockTx P c b avgs s = .ok () s') :
    s'.synced = some b.height ∧ (b.height, P.syncVersion) ∈ s'.syncVersions := by
  unfold blockTx at hs
  obtain ⟨_, s1, _, hs⟩ := M.bind_ok hs
  obtain ⟨_, s2, _, hs⟩ := M.bind_ok hs
  unfold markSynced M.guarded at hs
  split at hs
  · cases hs
  · injection hs with _ hs
    subst hs
    exact ⟨rfl, by simp⟩

/-- Regenerated from /repo on every run: no SQL write of the sync path goes through the
    connection pool (every one uses the block's `*sql.Tx`), and the reads that do use the pool
    are exactly the known ones (each reads rows older than the block). -/
theorem all_writes_via_block_tx :
    Generated.poolWrites = [] ∧
    Generated.poolReadsSyncPath =
      ["node/pegnet/addresses.go:IsIncludedTopPEGAddress:pool:SELECT:p.DB",
       "node/pegnet/addresses.go:SelectBalances:pool-arg:p.selectBalances",
       "node/pegnet/addresses.go:SelectIssuances:pool:SELECT:p.DB",
       "node/pegnet/grading.go:SelectPreviousWinners:pool:SELECT:p.DB",
       "node/pegnet/grading.go:SelectRates:pool:SELECT:p.DB",
       "node/pegnet/txbatchholding.go:SelectTransactionBatchesInHoldingAtHeight:pool:SELECT:p.DB"] := by
  decide

/-! ### the daemon as a process (Proofs/Process.lean, Proofs/NonInterference.lean)

  A run is any sequence of: a loop iteration that completes (commit or rollback), an iteration cut
  short before COMMIT by a fault or a kill (nothing committed — the SQLite assumption), a restart.
  The block attempted is always the chain's block at `Sync.Synced + 1`. -/

/-- **Heights are applied once each, in order, without gaps**, along every run from a fresh
    database, whatever the blocks contain and wherever the process is killed or restarted: above
    the activation height the version table lists exactly `pegnet+1, …, Synced`, in this order,
    each once; no row lies above the sync height; the recorded height is the in-memory one. -/
theorem heights_once_in_order (P : Params) (ch : Nat → Block) (hch : ∀ h, (ch h).height = h) (es : List Ev) :
    let n := runEvs P ch (freshNode P) es
    n.db.synced.getD P.act.pegnet = n.mem ∧
    heightsAbove P.act.pegnet n.db.syncVersions = List.range' (P.act.pegnet + 1) (n.mem - P.act.pegnet) ∧
    (n.db.syncVersions.map (·.1)).Nodup ∧ (∀ r ∈ n.db.syncVersions, r.1 ≤ n.mem) := by
  have h := runEvs_inOrder P ch hch (freshNode P).mem es (freshNode P) (inOrder_fresh P)
  exact ⟨h.synced, h.rows, h.nodup, h.rows_le⟩

/-- …and the same from any database being resumed whose bookkeeping is consistent -/
theorem heights_once_in_order_from (P : Params) (ch : Nat → Block) (hch : ∀ h, (ch h).height = h) (n₀ : Node)
    (hs : n₀.db.synced.getD P.act.pegnet = n₀.mem) (hle : ∀ r ∈ n₀.db.syncVersions, r.1 ≤ n₀.mem)
    (hn : (n₀.db.syncVersions.map (·.1)).Nodup) (es : List Ev) :
    InOrder P n₀.mem (runEvs P ch n₀ es) :=
  runEvs_inOrder P ch hch n₀.mem es n₀ (inOrder_start P n₀ hs hle hn)

/-- **Crash consistency.** Iterations cut short before COMMIT (a kill, a failed statement, a
    failed upstream request) leave no trace, at any height: the database and the sync height after
    a run are those of the same run with these iterations erased. (`ValidRun`: an aborted
    iteration can only have advanced the averaging cache if the complete one would.) -/
theorem killed_iterations_leave_no_trace (P : Params) (ch : Nat → Block) (n : Node) (es : List Ev)
    (hv : ValidRun P ch n es) :
    (runEvs P ch n es).db = (runEvs P ch n (es.filter (fun e => !e.isAborted))).db ∧
    (runEvs P ch n es).mem = (runEvs P ch n (es.filter (fun e => !e.isAborted))).mem :=
  aborted_erasable_all P ch es n n ⟨rfl, rfl, Or.inl rfl⟩ hv

/-- **Resume equals uninterrupted run** (below the PIP-10 activation, where the only in-memory
    consensus input — the averaging cache, see C09 — is not consulted): erase every kill, fault
    and restart from a run; the ledger (all tables; the version table up to the legacy back-fill
    rows a restart writes) and the sync height are unchanged, and what remains is the plain replay
    of consecutive blocks. -/
theorem resume_equals_uninterrupted_partial (P : Params) (ch : Nat → Block) (hch : ∀ h, (ch h).height = h)
    (es : List Ev) (hb : BelowPip10 P ch (freshNode P) es) :
    (runEvs P ch (freshNode P) es).db.ledger = (runEvs P ch (freshNode P) (es.filter Ev.isAttempt)).db.ledger ∧
    (runEvs P ch (freshNode P) es).mem = (runEvs P ch (freshNode P) (es.filter Ev.isAttempt)).mem :=
  only_attempts_matter P ch hch (freshNode P).mem es (freshNode P) (freshNode P) [] rfl rfl
    (inOrder_fresh P) (inOrder_fresh P) hb

/-- **Resume equals uninterrupted run, at every height** — above the PIP-10 activation too, where
    the averaging cache prices conversions — on runs none of whose averaging windows has a hole
    (`WholeRun`, Proofs/RestartAvg; C09 shows that a hole is exactly what breaks it): erase every
    kill, fault and restart; ledger and sync height are unchanged. -/
theorem resume_equals_uninterrupted_whole_windows (P : Params) (hp : 0 < P.avgPeriod) (ch : Nat → Block)
    (hch : ∀ h, (ch h).height = h) (es : List Ev) (hw : WholeRun P ch (freshNode P) es) :
    (runEvs P ch (freshNode P) es).db.ledger = (runEvs P ch (freshNode P) (es.filter Ev.isAttempt)).db.ledger ∧
    (runEvs P ch (freshNode P) es).mem = (runEvs P ch (freshNode P) (es.filter Ev.isAttempt)).mem :=
  only_attempts_matter_whole P hp ch hch (freshNode P).mem es (freshNode P) (freshNode P) [] rfl rfl
    (inOrder_fresh P) (inOrder_fresh P)
    ⟨cacheOK_empty P, cacheSem_empty P _, Nat.zero_le _⟩ ⟨cacheOK_empty P, cacheSem_empty P _, Nat.zero_le _⟩ hw

/-- non-vacuity: a run with a kill, a restart and two completed iterations -/
example : [Ev.attempt, .aborted true, .restart, .attempt].filter Ev.isAttempt = [.attempt, .attempt] := rfl

end Pegnet.C02

#print axioms Pegnet.C02.block_all_or_nothing
#print axioms Pegnet.C02.failure_commits_nothing
#print axioms Pegnet.C02.height_applied_once
#print axioms Pegnet.C02.commit_bumps_height
#print axioms Pegnet.C02.all_writes_via_block_tx
#print axioms Pegnet.C02.heights_once_in_order
#print axioms Pegnet.C02.heights_once_in_order_from
#print axioms Pegnet.C02.killed_iterations_leave_no_trace
#print axioms Pegnet.C02.resume_equals_uninterrupted_partial
#print axioms Pegnet.C02.resume_equals_uninterrupted_whole_windows
