import Proofs.Chain
import Pegnet.Generated.Facts
/-
  C08 — Sync liveness. The full statement ("applying any block terminates successfully") is false
  for the code as it is; the model reproduces the failing shapes, each is a proved witness here
  and is replayed on the real daemon by the `malformed` / `dups` scenarios. Positive results are
  `_partial`.
-/
namespace Pegnet.C08
open Pegnet

/-- In the model every function is total: block application always returns (a result or a named
    failure) — there is no divergence. (Lean accepts the definitions only with termination proofs.) -/
theorem block_application_returns (P : Params) (n : Node) (b : Block) :
    ∃ n' r, applyBlock P n b = (n', r) := ⟨_, _, rfl⟩

/-- witness 1: an SPR-chain entry with fewer than two external ids makes `GradeS` panic, at
    every height (the glue indexes ExtIDs[1] before any validation) -/
theorem spr_short_extids_panics (P : Params) (c : DB) (b : Block) (avgs : TMap) (s : DB) (site : String)
    (hs : b.spr = .panic site) (h1 : b.height ≠ P.act.v204) (h2 : b.height ≠ P.act.v204Burn) :
    ∃ s', syncBlock P c b avgs s = .fail (.panic site) s' := by
  unfold syncBlock
  refine ⟨s, ?_⟩
  rw [M.bind_run]
  have : preAdjust P c b.height s = .ok () s := by unfold preAdjust; simp [h1, h2]
  rw [this]
  simp only
  rw [M.bind_run]
  unfold sprPanicCheck
  rw [hs]
  rfl

/-- the model's glue decides "panic" exactly when some SPR entry has fewer than two external ids -/
theorem spr_panic_iff (db : DB) (entries : List (Option Addr)) :
    sprPass db entries = none ↔ ∃ e ∈ entries, e = none := by
  unfold sprPass
  constructor
  · intro h
    by_cases hany : entries.any (·.isNone) = true
    · obtain ⟨e, he, hn⟩ := List.any_eq_true.1 hany
      exact ⟨e, he, by cases e <;> simp_all⟩
    · simp [hany] at h
  · rintro ⟨e, he, rfl⟩
    have : entries.any (·.isNone) = true := List.any_eq_true.2 ⟨none, he, rfl⟩
    simp [this]

/-- witness 2: the same entry hash twice in one transaction block, the first copy held (a
    conversion): the second insert into the history table violates UNIQUE(entry_hash, height) -/
def wP : Params :=
  { act := ⟨0,0,0,0,0,0,0,0,0,0,100,100,200,200,300,310,400⟩, tickerMax := 63, tickerNames := ["PEG", "pUSD", "pEUR"], oneWaySet := [],
    snapshotRate := 144, perBlockHolders := 0, perBlockDevs := 0, bankBase := 0, avgPeriod := 8, avgRequired := 4,
    syncVersion := 2, devs := [], «mint» := [], burnAddr := "b", oldBurnAddr := "o", mintAddr := "m", coinbaseAddr := "c", zeroAddr := "0" }
def convEntry : TxEntry :=
  { hash := "e1", ts := 0, validRCD1 := true, validRCDe := true,
    parsed := some (1, [{ inAddr := "alice", inType := 2, inAmount := 5, transfers := [], conversion := 3 }]) }

theorem duplicate_hash_same_block_wedges :
    (match applyTransactionBlock wP 5 "k" [convEntry, convEntry] {} with
     | .fail (.sqlConstraint t) _ => t
     | _ => "applied") = "pn_history_txbatch" := by decide

/-- witness 3: an entry recorded but not executed (here: still pending) written again in a later
    block violates the primary key of the per-transaction history table -/
theorem resubmitted_pending_entry_wedges :
    (match applyTransactionBlock wP 5 "k" [convEntry] {} with
     | .ok _ s1 =>
        (match applyTransactionBlock wP 6 "k" [convEntry] s1 with
         | .fail (.sqlConstraint t) _ => t
         | _ => "applied")
     | .fail _ _ => "first failed") = "pn_history_transaction" := by decide

/-- `block_total_partial`: a block with no tracked-chain content at an ordinary height (no
    one-time event, no snapshot / developer payout) always applies, on any ledger whose version
    table does not yet contain the height. -/
theorem empty_block_total (P : Params) (c s : DB) (b : Block) (avgs : TMap)
    (hopr : b.opr = .absent) (hspr : b.spr = .absent) (htx : b.txs = none) (hf : b.fcts = [])
    (h1 : b.height ≠ P.act.v204) (h2 : b.height ≠ P.act.v204Burn)
    (h3 : ¬ (b.height ≥ P.act.v20 ∧ b.height % P.snapshotRate = 0))
    (h4 : ¬ (b.height ≥ P.act.devRewards ∧ b.height % P.snapshotRate = 0)) :
    syncBlock P c b avgs s = .ok () s := by
  unfold syncBlock
  have hp : preAdjust P c b.height s = .ok () s := by unfold preAdjust; simp [h1, h2]
  have hc : sprPanicCheck b s = .ok () s := by unfold sprPanicCheck; rw [hspr]; rfl
  have hg : gradeAndRates P c b s = .ok (.cont false) s := by
    unfold gradeAndRates
    by_cases hh : b.height < P.act.v20
    · simp [hh, hopr]
    · simp [hh, hopr, hspr, M.bind_run]
  have htxp : txPhase P c b avgs false s = .ok () s := by
    unfold txPhase snapshotPhase holdingPhase txBlockPhase
    by_cases hh : b.height ≥ P.act.txConv
    · simp [hh, h3, htx, M.bind_run]
    · simp [hh]
  have hrw : rewardPhase P b s = .ok () s := by
    unfold rewardPhase oprRewardPhase sprRewardPhase devRewardPhase applyFactoidBlock
    simp [hopr, hspr, hf, h4, M.bind_run, M.forEach]
    by_cases hh : b.height < P.act.v20 <;> by_cases hh2 : P.act.v20 ≤ b.height <;> simp [hh, hh2, M.bind_run]
  rw [M.bind_run, hp]
  simp only
  rw [M.bind_run, hc]
  simp only
  rw [M.bind_run, hg]
  simp only
  rw [M.bind_run, htxp]
  simp only
  exact hrw

end Pegnet.C08

#print axioms Pegnet.C08.block_application_returns
#print axioms Pegnet.C08.spr_short_extids_panics
#print axioms Pegnet.C08.spr_panic_iff
#print axioms Pegnet.C08.duplicate_hash_same_block_wedges
#print axioms Pegnet.C08.resubmitted_pending_entry_wedges
#print axioms Pegnet.C08.empty_block_total
