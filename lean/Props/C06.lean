import Proofs.BatchLemmas
import Proofs.Holding
/-
  C06 — At-most-once execution of an entry (replay protection).
-/
namespace Pegnet.C06
open Pegnet

/-- Executing a batch marks its entry hash: afterwards `IsReplayTransaction` answers true. -/
theorem execution_marks_entry {P : Params} {h : Nat} {e : TxEntry} {rates avgs : Option TMap} {s s' : DB}
    {t0 : Tx} {rest : List Tx} (htx : e.txs = t0 :: rest)
    (hr : applyBatch P h e rates avgs s = .ok .apply s') : s'.isReplay e.hash = true := by
  unfold applyBatch at hr
  rw [M.bind_run] at hr
  simp only [M.get_run] at hr
  cases hver : verdict P s h rates avgs e.txs with
  | apply =>
    rw [hver] at hr
    obtain ⟨_, s1, hrec, hp⟩ := M.bind_ok hr
    simp only [M.pure_run] at hp
    injection hp with _ hs
    subst hs
    rw [htx] at hrec
    exact recordBatch_marks hrec
  | reject c => rw [hver] at hr; simp only [M.pure_run] at hr; injection hr with hv _; cases hv
  | dropped => rw [hver] at hr; simp only [M.pure_run] at hr; injection hr with hv _; cases hv
  | failBlock f => rw [hver] at hr; simp only [M.throw_run] at hr; cases hr

/-- The mark is permanent: no later block, whatever it contains and whether it is applied or
    rolled back, removes it. For every chain. -/
theorem mark_is_permanent (P : Params) (n : Node) (chain : List Block) (x : Hash)
    (hx : n.db.isReplay x = true) : (runBlocks P n chain).db.isReplay x = true :=
  runBlocks_replay P n chain x hx

/-- A marked entry that arrives again on the chain is skipped entirely: nothing is written. -/
theorem repeated_arrival_is_noop (P : Params) (h : Nat) (keymr : String) (bo : Nat) (e : TxEntry) (s : DB)
    (hx : s.isReplay e.hash = true) : applyTxEntry P h keymr bo e s = .ok () s := by
  unfold applyTxEntry
  rw [M.bind_run]
  simp only [M.get_run, hx, Bool.not_true, Bool.and_false, Bool.false_and, Bool.false_eq_true, if_false]
  rfl

/-- A marked entry still sitting in holding is skipped when its window is processed: balances,
    relations and holding are untouched (only an invalid batch gets its status set to −2). -/
theorem repeated_holding_no_balance_change (P : Params) (h : Nat) (rates avgs : TMap) (e : TxEntry) (s s' : DB) (j : Bool)
    (hx : s.isReplay e.hash = true) (hr : applyHeld P h rates avgs e s = .ok j s') :
    s'.addrs = s.addrs ∧ s'.rels = s.rels := by
  unfold applyHeld at hr
  rw [M.bind_run] at hr
  simp only [M.get_run] at hr
  split at hr
  · obtain ⟨_, s1, h1, h2⟩ := M.bind_ok hr
    simp only [M.pure_run] at h2
    injection h2 with _ hs
    subst hs
    unfold setExecuted M.guarded at h1
    simp only at h1
    injection h1 with _ hs1
    subst hs1
    exact ⟨rfl, rfl⟩
  · simp only [M.pure_run] at hr
    injection hr with _ hs
    subst hs
    exact ⟨rfl, rfl⟩

/-- the holding window of block `h` visits only heights `fromH … h-1`: strictly earlier blocks -/
theorem window_strictly_earlier (fromH h i : Nat) (hi : i ∈ (List.range (h - fromH)).map (· + fromH)) :
    fromH ≤ i ∧ i < h := by
  obtain ⟨k, hk, rfl⟩ := List.mem_map.1 hi
  have := List.mem_range.1 hk
  omega

/-- **At least once.** When a block at or above the transaction activation is applied, then
    unless it had no usable rates (conversions keep waiting) every batch held at a height of the
    window `[last rated height, this height)` is considered in this very block: a non-zero status
    (execution height or negative reject code) is written for it, or it already bears a replay mark, or its
    conversion could not be computed (dropped: C17's known finding). Together with
    `window_strictly_earlier` and `mark_is_permanent` this is "considered for execution exactly
    once". (`DB.statusLog` is a history variable: the sequence of status writes.) -/
theorem held_batches_are_considered {P : Params} {c : DB} {b : Block} {avgs : TMap} {s' : DB}
    (hpos : 0 < b.height) (hrun : blockTx P c b avgs c = .ok () s') (htx : b.height ≥ P.act.txConv) :
    (∃ s1 s2 st, gradeAndRates P c b s1 = .ok st s2 ∧ st ≠ .cont true) ∨
    ∃ rates, ∀ row ∈ c.holding, (c.mostRecentRatesBefore b.height).2 ≤ row.height → row.height < b.height →
      Considered P b.height rates avgs c s' row.entry :=
  block_considers_held hpos hrun htx

/-- non-vacuity: a concrete holding window in which a funded conversion is executed (a status is
    written), evaluated by the kernel -/
def wP : Params :=
  { act := ⟨0,0,0,0,0,0,0,0,0,0,100,100,200,200,300,310,400⟩, tickerMax := 63, tickerNames := ["PEG", "pUSD", "pEUR"], oneWaySet := [],
    snapshotRate := 144, perBlockHolders := 0, perBlockDevs := 0, bankBase := 0, avgPeriod := 8, avgRequired := 4,
    syncVersion := 2, devs := [], «mint» := [], burnAddr := "b", oldBurnAddr := "o", mintAddr := "m", coinbaseAddr := "c", zeroAddr := "0" }
def wEntry : TxEntry :=
  { hash := "e1", ts := 0, validRCD1 := true, validRCDe := true,
    parsed := some (1, [{ inAddr := "alice", inType := 2, inAmount := 100, transfers := [], conversion := 3 }]) }
def wDB : DB :=
  { addrs := [{ addr := "alice", bals := setB [] 2 1000 }],
    holding := [{ entry := wEntry, height := 7, keymr := "k" }],
    histB := [{ hash := "e1", height := 7, blockorder := 0, ts := 0, executed := 0 }] }
example :
    (match applyHolding wP wDB 9 [(2, 100000000), (3, 200000000)] [] 7 wDB with
     | .ok _ s' => s'.statusLog
     | .fail _ _ => []) = [("e1", 9)] := by
  decide

end Pegnet.C06

#print axioms Pegnet.C06.execution_marks_entry
#print axioms Pegnet.C06.mark_is_permanent
#print axioms Pegnet.C06.repeated_arrival_is_noop
#print axioms Pegnet.C06.repeated_holding_no_balance_change
#print axioms Pegnet.C06.window_strictly_earlier
#print axioms Pegnet.C06.held_batches_are_considered
