package main

// General lock-step scenario: an era-compressed chain crossing every activation with OPR / SPR
// sets graded by the real libraries, FCT burns and signed FAT-2 batches, the real daemon and the
// Lean model fed the same blocks, canonical dumps compared after every block.

import (
	"crypto/sha256"
	"sort"
	"database/sql"
	"fmt"
	"math/rand"
	"strings"

	"github.com/Factom-Asset-Tokens/factom"
	"github.com/pegnet/pegnet/modules/opr"
	"github.com/pegnet/pegnetd/fat/fat2"
	"github.com/pegnet/pegnetd/node"
)

// CompressedActs places the activations on a short chain, keeping the main net's order and its
// equalities (sprSig = devRewards, oneWaySmall = v202, convLimit = pegFloat, rcde = v4).
func CompressedActs(r *rand.Rand, variant int) Acts {
	gap := func(lo, hi int) uint32 { return uint32(lo + r.Intn(hi-lo+1)) }
	var a Acts
	a.Pegnet = 0
	a.GradingV2 = a.Pegnet + gap(4, 8)
	a.TxConv = a.GradingV2 + gap(3, 6)
	a.PegPricing = a.TxConv + gap(4, 8)
	a.OneWayFCT = a.PegPricing + gap(5, 9)
	a.ConvLimit = a.OneWayFCT + gap(5, 9)
	a.PegFloat = a.ConvLimit
	a.V4 = a.ConvLimit + gap(8, 12)
	a.RCDE = a.V4
	a.V20 = a.V4 + gap(10, 14)
	switch variant % 3 {
	case 0: // first snapshot (144) in [devRewards, v202), second (288) after v202
		a.DevRewards = 90 + gap(0, 30)
		a.V202 = 150 + gap(0, 20)
	case 1: // first snapshot in [v20, devRewards)
		a.DevRewards = 146 + gap(0, 10)
		a.V202 = a.DevRewards + gap(10, 30)
	case 2: // both snapshots after v202
		a.DevRewards = 80 + gap(0, 20)
		a.V202 = a.DevRewards + gap(8, 30)
	}
	a.SprSig = a.DevRewards
	a.OneWaySmall = a.V202
	a.V204 = a.V202 + gap(6, 12)
	a.V204Burn = a.V204 + gap(6, 12)
	a.PIP10 = a.V204Burn + gap(4, 10)
	return a
}

type World struct {
	G    *Gen
	Run  *Run
	S    Setup
	ro   *sql.DB
	Prev []string // previous winners as the generator believes them
	Extra []factom.FAAddress // fresh addresses that received funds
	Rep  *Report
	// bank scenario: randomBatch leaves transfers out of batches that hold a PEG request
	NoTransferNextToRequest bool
	crowded                 bool // the PEG crowd (more than 100 holders, tied) has been created
}

func (w *World) roDB() *sql.DB {
	if w.ro == nil {
		db, err := sql.Open("sqlite3", "file:"+w.Run.D.DBPath+"?mode=ro&_busy_timeout=10000")
		if err != nil {
			panic(err)
		}
		w.ro = db
	}
	return w.ro
}

// Balance reads a committed balance through the harness' own read-only connection.
func (w *World) Balance(a factom.FAAddress, t fat2.PTicker) uint64 {
	var v int64
	col := strings.ToLower(t.String()) + "_balance"
	err := w.roDB().QueryRow(fmt.Sprintf("SELECT %s FROM pn_addresses WHERE address = ?", col), a[:]).Scan(&v)
	if err != nil {
		return 0
	}
	return uint64(v)
}

func (w *World) NonZeroAssets(a factom.FAAddress) []fat2.PTicker {
	var out []fat2.PTicker
	for t := fat2.PTicker(1); t < fat2.PTickerMax; t++ {
		if w.Balance(a, t) > 0 {
			out = append(out, t)
		}
	}
	return out
}

// LastShortHashes reads the previous winners the way node.Grade does.
func (w *World) LastShortHashes(h uint32) []string {
	var data []byte
	err := w.roDB().QueryRow("SELECT shorthashes FROM pn_grade WHERE height < ? ORDER BY height DESC LIMIT 1", h).Scan(&data)
	if err != nil {
		return nil
	}
	var out []string
	jsonUnmarshal(data, &out)
	return out
}

// TopPEG returns up to n addresses holding PEG, richest first.
func (w *World) TopPEG(n int) [][]byte {
	// (the statement of IsIncludedTopPEGAddress, text and columns: ties at the cut are broken by the
	// same plan)
	rows, err := w.roDB().Query("SELECT address, peg_balance FROM pn_addresses WHERE peg_balance > 0 ORDER BY peg_balance DESC LIMIT ?;", n)
	if err != nil {
		return nil
	}
	defer rows.Close()
	var out [][]byte
	for rows.Next() {
		var a []byte
		var bal uint64
		rows.Scan(&a, &bal)
		out = append(out, a)
	}
	return out
}

// TiedOutsider returns an address that holds exactly as much PEG as the last of the top-100 list
// without being on it (nil unless more than 100 addresses hold PEG and the cut falls inside a tie).
func (w *World) TiedOutsider(top [][]byte) []byte {
	if len(top) < 100 {
		return nil
	}
	var cut uint64
	if err := w.roDB().QueryRow("SELECT peg_balance FROM pn_addresses WHERE address = ?", top[len(top)-1]).Scan(&cut); err != nil || cut == 0 {
		return nil
	}
	rows, err := w.roDB().Query("SELECT address FROM pn_addresses WHERE peg_balance = ? ORDER BY id", cut)
	if err != nil {
		return nil
	}
	defer rows.Close()
	in := map[string]bool{}
	for _, t := range top {
		in[string(t)] = true
	}
	for rows.Next() {
		var a []byte
		rows.Scan(&a)
		if !in[string(a)] {
			return a
		}
	}
	return nil
}

// ZeroPEG returns up to n addresses that have a ledger row but hold no PEG.
func (w *World) ZeroPEG(n int) [][]byte {
	rows, err := w.roDB().Query("SELECT address FROM pn_addresses WHERE peg_balance = 0 ORDER BY id LIMIT ?", n)
	if err != nil {
		return nil
	}
	defer rows.Close()
	var out [][]byte
	for rows.Next() {
		var a []byte
		rows.Scan(&a)
		out = append(out, a)
	}
	return out
}

func (w *World) amountAround(bal uint64) uint64 {
	r := w.G.R
	switch r.Intn(9) {
	case 0:
		return 1
	case 1:
		return bal / 2
	case 2:
		if bal > 0 {
			return bal - 1
		}
		return 0
	case 3:
		return bal
	case 4:
		return bal + 1
	case 5:
		return bal/3 + 1
	case 6:
		return 0
	default:
		if bal == 0 {
			return uint64(r.Intn(1000))
		}
		return uint64(r.Int63n(int64(bal%(1<<62)) + 1))
	}
}

func (w *World) someAddress() factom.FAAddress {
	r := w.G.R
	switch r.Intn(10) {
	case 0:
		var fa factom.FAAddress
		r.Read(fa[:])
		w.Extra = append(w.Extra, fa)
		return fa
	case 1:
		fa, _ := factom.NewFAAddress(node.GlobalBurnAddress)
		return fa
	case 2:
		if len(w.Extra) > 0 {
			return w.Extra[r.Intn(len(w.Extra))]
		}
	case 3:
		return factom.FAAddress{} // the all-zero address
	}
	return w.G.Users[r.Intn(len(w.G.Users))].FA()
}

func (w *World) randomTicker() fat2.PTicker {
	r := w.G.R
	switch r.Intn(8) {
	case 0:
		return fat2.PTickerPEG
	case 1:
		return fat2.PTickerFCT
	case 2:
		return fat2.PTickerUSD
	case 3:
		ow := oneWayTickers()
		return ow[r.Intn(len(ow))]
	}
	return fat2.PTicker(1 + r.Intn(int(fat2.PTickerMax)-1))
}

// randomBatch builds a batch for one user: 1..3 transactions drawing on its balances.
func (w *World) randomBatch(h uint32) (factom.Entry, string) {
	r := w.G.R
	u := w.G.Users[r.Intn(len(w.G.Users))]
	if u.IsE && r.Intn(3) != 0 {
		u = w.G.Users[r.Intn(len(w.G.Users))]
	}
	from := u.FA()
	assets := w.NonZeroAssets(from)
	n := 1 + r.Intn(3)
	if r.Intn(4) != 0 {
		n = 1
	}
	var txs []fat2.Transaction
	shape := ""
	for i := 0; i < n; i++ {
		var t fat2.PTicker
		if len(assets) > 0 && r.Intn(10) != 0 {
			t = assets[r.Intn(len(assets))]
		} else {
			t = w.randomTicker()
		}
		bal := w.Balance(from, t)
		if r.Intn(2) == 0 {
			// transfer with 1..3 outputs
			k := 1 + r.Intn(3)
			total := w.amountAround(bal)
			var outs []fat2.AddressAmountTuple
			rem := total
			for j := 0; j < k; j++ {
				amt := rem
				if j < k-1 && rem > 0 {
					amt = uint64(r.Int63n(int64(rem%(1<<62)) + 1))
				}
				rem -= amt
				outs = append(outs, fat2.AddressAmountTuple{Address: w.someAddress(), Amount: amt})
			}
			txs = append(txs, Transfer(from, t, outs...))
			shape += "T"
		} else {
			to := w.randomTicker()
			if to == t && r.Intn(5) != 0 {
				to = fat2.PTickerUSD
				if t == fat2.PTickerUSD {
					to = fat2.PTickerXBT
				}
			}
			txs = append(txs, Conversion(from, t, w.amountAround(bal), to))
			if to == fat2.PTickerPEG {
				shape += "P"
			} else {
				shape += "C"
			}
		}
	}
	if w.NoTransferNextToRequest && strings.Contains(shape, "T") && strings.Contains(shape, "P") && h+1 >= w.S.Acts.ConvLimit && h < w.S.Acts.V20 {
		// (bank scenario) a transfer next to a PEG request wedges every later rated block of the
		// bank era (known finding): leave the transfers out so that the era stays explorable
		var kept []fat2.Transaction
		for _, tx := range txs {
			if len(tx.Transfers) == 0 {
				kept = append(kept, tx)
			}
		}
		txs = kept
		shape = strings.Replace(shape, "T", "", -1)
	}
	return w.G.Batch(h, u, txs), shape
}

// fundedConversion is a conversion of a tenth of some user's balance into pUSD (pEUR from pUSD).
func (w *World) fundedConversion(h uint32) (factom.Entry, bool) {
	for _, u := range w.G.Users {
		if u.IsE && h < w.S.Acts.RCDE {
			continue
		}
		for _, t := range w.NonZeroAssets(u.FA()) {
			bal := w.Balance(u.FA(), t)
			if bal < 1000 || t == fat2.PTickerPEG && h < w.S.Acts.PegPricing {
				continue
			}
			to := fat2.PTickerUSD
			if t == to {
				to = fat2.PTickerEUR
			}
			return w.G.Batch(h, u, []fat2.Transaction{Conversion(u.FA(), t, bal/10, to)}), true
		}
	}
	return factom.Entry{}, false
}

// fundedConversionTo converts a twentieth of some user's non-PEG balance into `to`.
func (w *World) fundedConversionTo(h uint32, to fat2.PTicker) (factom.Entry, bool) {
	for i := range w.G.Users {
		u := w.G.Users[(i+int(h))%len(w.G.Users)]
		if u.IsE && h < w.S.Acts.RCDE {
			continue
		}
		for _, t := range w.NonZeroAssets(u.FA()) {
			if t == to || t == fat2.PTickerPEG {
				continue
			}
			if bal := w.Balance(u.FA(), t); bal >= 1000 {
				return w.G.Batch(h, u, []fat2.Transaction{Conversion(u.FA(), t, bal/20, to)}), true
			}
		}
	}
	return factom.Entry{}, false
}

// BuildBlock generates the block at height h on top of the implementation's current ledger.
func (w *World) BuildBlock(h uint32) *BlockSpec {
	r := w.G.R
	a := w.S.Acts
	b := &BlockSpec{Height: h, Time: BlockTime(h)}
	// small random walk of the market
	names := make([]string, 0, len(w.G.Rates))
	for name := range w.G.Rates {
		names = append(names, name)
	}
	sort.Strings(names)
	for _, name := range names {
		v := w.G.Rates[name]
		if name == "USD" {
			continue
		}
		d := int64(v/200) * int64(r.Intn(5)-2)
		nv := int64(v) + d
		if nv < 1000 {
			nv = 1000
		}
		w.G.Rates[name] = uint64(nv)
	}
	ver := OPRVersionAt(a, h)
	prev := w.LastShortHashes(h)
	kind := r.Intn(20)
	n := 25
	if ver == 1 {
		n = 10
	}
	switch {
	case kind == 0: // no OPR eblock
	case kind == 1: // too few records
		b.OPR = w.G.OPRSet(h, ver, prev, n-1-r.Intn(3), w.G.Rates, nil)
		w.Rep.Count("opr:toofew")
	case kind == 2: // wrong version for the height
		wv := ver%5 + 1
		b.OPR = w.G.OPRSet(h, wv, nil, 25, w.G.Rates, nil)
		w.Rep.Count("opr:wrongversion")
	default:
		extra := r.Intn(4)
		b.OPR = w.G.OPRSet(h, ver, prev, n+extra, w.G.Rates, nil)
		w.Rep.Count("opr:valid")
	}
	// once, early in the 2.0 era: a PEG holder pays 130 fresh addresses the same small amount — from
	// then on more than 100 addresses hold PEG and the cut of the top-100 list falls inside a tie
	if h >= a.V20+2 && !w.crowded {
		for _, u := range w.G.Users {
			if u.IsE && h <= a.RCDE {
				continue
			}
			if bal := w.Balance(u.FA(), fat2.PTickerPEG); bal > 1e7 {
				// (an entry holds at most 10 KiB: two entries of 65 outputs)
				for part := 0; part < 2; part++ {
					var outs []fat2.AddressAmountTuple
					for i := 0; i < 65; i++ {
						var fa factom.FAAddress
						copy(fa[:], shaBytes(fmt.Sprintf("crowd-%d-%d-%d", w.G.Seed, part, i)))
						outs = append(outs, fat2.AddressAmountTuple{Address: fa, Amount: 1000})
					}
					b.TX = append(b.TX, w.G.Batch(h, u, []fat2.Transaction{Transfer(u.FA(), fat2.PTickerPEG, outs...)}))
				}
				w.crowded = true
				w.Rep.Count("spr:crowd-created")
				break
			}
		}
	}
	if h >= a.V20 || r.Intn(10) == 0 {
		sv := SPRVersionAt(a, h)
		top := w.TopPEG(100)
		kindS := r.Intn(20)
		if len(top) > 0 && kindS != 0 {
			cnt := 25
			if kindS == 1 {
				cnt = 20
			}
			ids := make([][]byte, cnt)
			signers := make([]factom.FsAddress, cnt)
			payout := make([]string, cnt)
			for i := 0; i < cnt; i++ {
				ids[i] = top[i%len(top)]
				signers[i] = w.G.Users[0].Fs
				payout[i] = w.G.Miners[i%len(w.G.Miners)]
			}
			// staker ids that are NOT top PEG holders: an address that has a row but no PEG,
			// or an address the ledger has never seen. Either extra records beyond the 25, or in
			// place of the 25th so that the set is complete only if the stranger is admitted.
			if kindS >= 2 && kindS <= 7 {
				var stranger []byte
				if zero := w.ZeroPEG(3); len(zero) > 0 && kindS%2 == 0 {
					stranger = zero[r.Intn(len(zero))]
					w.Rep.Count("spr:zero-peg-staker")
				} else {
					stranger = make([]byte, 32)
					r.Read(stranger)
					w.Rep.Count("spr:unknown-staker")
				}
				if kindS <= 4 {
					ids[cnt-1] = stranger
				} else {
					ids = append(ids, stranger)
					signers = append(signers, w.G.Users[0].Fs)
					payout = append(payout, w.G.Miners[0])
				}
			}
			// the same stranger twice, as the 25th and a 26th record: each record of an
			// entry block is judged on its own staker id, however often the id occurs
			if kindS == 11 || kindS == 12 {
				stranger := make([]byte, 32)
				r.Read(stranger)
				if zero := w.ZeroPEG(3); len(zero) > 0 && kindS == 12 {
					stranger = zero[r.Intn(len(zero))]
				}
				if cnt >= 2 {
					// 24 eligible records, then the stranger's two: the set is complete only if one
					// of the stranger's records is admitted
					ids[cnt-1] = stranger
					ids = append(ids, stranger)
					signers = append(signers, w.G.Users[0].Fs)
					var fresh factom.FAAddress
					copy(fresh[:], shaBytes(fmt.Sprintf("spr-payout-%d-%d", w.G.Seed, h)))
					payout = append(payout, fresh.String()) // a 26th payout address, distinct from the 25
					w.Rep.Count("spr:stranger-twice")
				}
			}
			// a staker that holds exactly as much PEG as the 100th of the list but is not on it (the
			// rule is membership of the list, not a balance threshold): in place of the 25th record,
			// or as an extra one
			if kindS == 8 || kindS == 9 || kindS == 10 {
				if out := w.TiedOutsider(top); out != nil {
					if kindS == 8 {
						ids[cnt-1] = out
					} else {
						ids = append(ids, out)
						signers = append(signers, w.G.Users[0].Fs)
						payout = append(payout, w.G.Miners[0])
					}
					w.Rep.Count("spr:tied-outsider")
				}
			}
			rates := map[string]uint64{}
			for k, v := range w.G.Rates {
				rates[k] = v
			}
			band := r.Intn(12)
			if band == 0 { // one asset far outside every band
				name := opr.V5Assets[1+r.Intn(len(opr.V5Assets)-1)]
				rates[name] = rates[name] * 2
				w.Rep.Count("spr:outofband")
			} else if band == 1 { // slightly off: inside 10 %/25 %, outside 1 %
				name := opr.V5Assets[1+r.Intn(len(opr.V5Assets)-1)]
				rates[name] = rates[name] + rates[name]/20
				w.Rep.Count("spr:5pct")
			} else if band == 2 { // a low-priced asset half a percent off: inside 1 %, outside 0.1 %
				rates["KRW"] = rates["KRW"] + rates["KRW"]/200
				w.Rep.Count("spr:halfpct-low")
			} else if band == 3 { // a high-priced asset half a percent off
				rates["XBT"] = rates["XBT"] + rates["XBT"]/200
				w.Rep.Count("spr:halfpct-high")
			}
			b.SPR = w.G.SPRSet(h, sv, ids, signers, payout, rates, nil)
			w.Rep.Count("spr:set")
		}
	}
	if h < a.V20+3 {
		nb := r.Intn(3)
		for i := 0; i < nb; i++ {
			u := w.G.Users[r.Intn(len(w.G.Users))]
			b.FCT = append(b.FCT, Burn(h, u.FA(), uint64(1+r.Intn(50))*1e8, i))
		}
		// factoid transactions that miss the burn shape in one respect: they credit nothing
		if h%2 == 0 {
			u := w.G.Users[r.Intn(len(w.G.Users))]
			shape := int(h/2) % 7
			b.FCT = append(b.FCT, NearMissBurn(h, u.FA(), uint64(1+r.Intn(50))*1e8, 10+shape, shape))
			w.Rep.Count(fmt.Sprintf("fct:near-miss-burn-%d", shape))
		}
	}
	// every activation boundary gets a funded plain conversion submitted just before, at and
	// just after it, so that conversions are pending across each rule change
	if h >= a.TxConv {
		for _, act := range []uint32{a.PegPricing, a.OneWayFCT, a.ConvLimit, a.V4, a.V20, a.DevRewards, a.V202, a.V204, a.V204Burn, a.PIP10} {
			if h+2 == act || h+1 == act || h == act {
				if e, ok := w.fundedConversion(h); ok {
					b.TX = append(b.TX, e)
					w.Rep.Count("batch:boundary-conversion")
				}
				if act == a.V20 || act == a.V202 || act == a.ConvLimit || act == a.V4 {
					// a conversion INTO PEG pending across the rule change
					if e, ok := w.fundedConversionTo(h, fat2.PTickerPEG); ok {
						b.TX = append(b.TX, e)
						w.Rep.Count("batch:boundary-conversion-to-peg")
					}
				}
				break
			}
		}
	}
	// in the forty blocks before a snapshot height the holders spread small amounts over every
	// asset in turn, so that each asset column takes part in the staking valuation
	if h >= a.V20-50 && h >= a.TxConv && h%144 >= 100 {
		u := w.G.Users[int(h)%len(w.G.Users)]
		if !(u.IsE && h < a.RCDE) {
			if bal := w.Balance(u.FA(), fat2.PTickerFCT); bal > 1e6 {
				var txs []fat2.Transaction
				for j := 0; j < 3; j++ {
					to := fat2.PTicker(1 + (int(h)*3+j)%(int(fat2.PTickerMax)-1))
					if to != fat2.PTickerFCT && to != fat2.PTickerPEG {
						txs = append(txs, Conversion(u.FA(), fat2.PTickerFCT, bal/200, to))
					}
				}
				if len(txs) > 0 {
					b.TX = append(b.TX, w.G.Batch(h, u, txs))
					w.Rep.Count("batch:asset-spread")
				}
			}
		}
	}
	// a transfer whose outputs add up to the input plus 2^64 (three outputs, each below 2^63, to
	// fresh addresses): "input = sum of transfers" fails only when the sum is not taken modulo
	// 2^64; validly signed — anyone can write it to the chain
	if h >= a.TxConv+4 && h%9 == 0 {
		for _, u := range w.G.Users {
			if u.IsE && h <= a.RCDE {
				continue
			}
			assets := w.NonZeroAssets(u.FA())
			if len(assets) == 0 {
				continue
			}
			t := assets[0]
			var o1, o2, o3 factom.FAAddress
			r.Read(o1[:])
			r.Read(o2[:])
			r.Read(o3[:])
			const third = uint64(6148914691236517205) // (2^64 - 1) / 3
			in := uint64(10)
			if w.Balance(u.FA(), t) < in {
				continue
			}
			tx := fat2.Transaction{Input: fat2.TypedAddressAmountTuple{Address: u.FA(), Amount: in, Type: t},
				Transfers: []fat2.AddressAmountTuple{{Address: o1, Amount: third}, {Address: o2, Amount: third}, {Address: o3, Amount: third + 1 + in}}}
			b.TX = append(b.TX, w.G.Batch(h, u, []fat2.Transaction{tx}))
			w.Rep.Count("batch:outputs-wrap-uint64")
			break
		}
	}
	// a validly signed transfer of more than 2^63-1 units (nobody holds that; the amount does not
	// fit the database's integer type)
	if h >= a.TxConv+4 && h%9 == 4 {
		if u := w.G.Users[int(h)%len(w.G.Users)]; !(u.IsE && h <= a.RCDE) {
			var o factom.FAAddress
			r.Read(o[:])
			b.TX = append(b.TX, w.G.Batch(h, u, []fat2.Transaction{Transfer(u.FA(), fat2.PTickerUSD, fat2.AddressAmountTuple{Address: o, Amount: uint64(1)<<63 + uint64(h)})}))
			w.Rep.Count("batch:amount-above-int64")
		}
	}
	nt := r.Intn(5)
	if nt > 3 {
		nt = 0
	}
	for i := 0; i < nt; i++ {
		e, shape := w.randomBatch(h)
		b.TX = append(b.TX, e)
		w.Rep.Count("batch:" + shape)
	}
	return b
}

func eraOf(a Acts, h uint32) string {
	switch {
	case h < a.TxConv:
		return "pre-tx"
	case h < a.ConvLimit:
		return "v1"
	case h < a.V4:
		return "bank-v3"
	case h < a.V20:
		return "bank-v4"
	case h < a.DevRewards:
		return "v20"
	case h < a.V202:
		return "v20dev"
	case h < a.PIP10:
		return "v202"
	}
	return "pip10"
}

func scenGeneral(rep *Report, tier string, seed int64) {
	chains := 1
	if tier == "thorough" {
		chains = 4
	}
	for c := 0; c < chains; c++ {
		runGeneralChain(rep, seed+int64(c)*1000, int(seed)+c, 300)
	}
	rep.Rule = "one evaluation = one block applied by the real daemon (DBlockSync) and by the Lean model, full canonical dumps compared; " +
		"distinct non-trivial = distinct (era, block shape) where the shape lists OPR/SPR outcome, batch shapes and block result; empty blocks are trivial"
}

func runGeneralChain(rep *Report, seed int64, variant int, length uint32) {
	g := NewGen(seed, 5, 2)
	s := Setup{Acts: CompressedActs(g.R, variant), AvgPeriod: 8, SyncVersion: mainnetSyncVersion}
	run, err := NewRun(s)
	if err != nil {
		rep.Note("infrastructure: %v", err)
		return
	}
	defer run.Close()
	run.FullEvery = 25
	w := &World{G: g, Run: run, S: s, Rep: rep}
	defer func() {
		if w.ro != nil {
			w.ro.Close()
		}
	}()
	for h := s.Acts.Pegnet + 1; h <= s.Acts.Pegnet+length; h++ {
		b := w.BuildBlock(h)
		run.ForceFull = h == s.Acts.Pegnet+length
		res := run.Step(b)
		shape := fmt.Sprintf("%s|opr%d|spr%d|tx%d|fct%d|%s", eraOf(s.Acts, h), len(b.OPR), len(b.SPR), len(b.TX), len(b.FCT), res.ImplClass)
		rep.Case(shape, len(b.OPR)+len(b.SPR)+len(b.TX)+len(b.FCT) > 0)
		rep.Count("era:" + eraOf(s.Acts, h))
		rep.Count("result:" + res.ImplClass)
		rep.Traces++
		if res.Diff != "" {
			path := WriteReplay(rep.Property, "general", Replay{Property: rep.Property, Scenario: "general", Seed: seed, Setup: s,
				What: "model and implementation disagree at height " + fmt.Sprint(h), Detail: []string{res.Diff, "impl: " + res.ImplMsg, "model: " + res.ModelAns},
				Blocks: ChainJSON(run.Chain)})
			rep.Disagree(fmt.Sprintf("lockstep:%s", eraOf(s.Acts, h)), res.Diff, path)
			return
		}
		if !res.ImplOK {
			rep.Sample(map[string]interface{}{"height": h, "era": eraOf(s.Acts, h), "result": res.ImplClass, "msg": res.ImplMsg})
			lpath := WriteReplay(rep.Property, "general-liveness", Replay{Property: rep.Property, Scenario: "general", Seed: seed, Setup: s,
				What: fmt.Sprintf("height %d cannot be applied: %s", h, res.ImplMsg), Blocks: ChainJSON(run.Chain)})
			rep.Violate("liveness:"+res.ImplClass+":"+eraOf(s.Acts, h)+":"+msgSlug(res.ImplMsg), fmt.Sprintf("height %d: %s", h, res.ImplMsg), lpath)
			// replace the block by an empty one so the chain can continue
			if err := run.RecoverFrom(res); err != nil {
				rep.Note("infrastructure: %v", err)
				return
			}
			res2 := run.Step(&BlockSpec{Height: h, Time: BlockTime(h)})
			if res2.Diff != "" {
				rep.Disagree("lockstep:recover", fmt.Sprintf("h=%d %s %s", h, res2.Diff, res2.ImplMsg), "")
				return
			}
			if !res2.ImplOK {
				rep.Count("chain-wedged-for-good") // model and implementation agree: reported as a liveness violation above
				return
			}
		}
		if h == s.Acts.Pegnet+length {
			for _, l := range res.Dump {
				f := strings.Split(l, "|")
				switch f[0] {
				case "B":
					ex := f[5]
					bo := f[3]
					if bo != "0" || true {
						switch {
						case strings.HasPrefix(ex, "-"):
							rep.Count("executed:" + ex)
						case ex == "0":
							rep.Count("executed:pending")
						}
					}
				case "K":
					if f[3] != "0" && f[3] != "-1" {
						rep.Count("bank:used")
					}
				case "T":
					if f[3] == "2" && f[8] != "0" {
						rep.Count("conversion:executed")
					}
					if f[3] == "1" {
						rep.Count("transfer:recorded")
					}
				case "X":
					rep.Count("relations")
				}
			}
		}
		if h%97 == 0 {
			rep.Sample(map[string]interface{}{"height": h, "era": eraOf(s.Acts, h), "opr": len(b.OPR), "spr": len(b.SPR), "tx": len(b.TX), "dump_lines": len(res.Dump)})
		}
	}
}

func init() { scenarios["general"] = scenGeneral }

func shaBytes(x string) []byte { h := sha256.Sum256([]byte(x)); return h[:] }
