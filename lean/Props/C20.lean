import Pegnet.Codec
import Proofs.JsonKeys
import Pegnet.Batch
import Pegnet.Generated.Facts
import Proofs.JsonRoundTrip
/-
  C20 — Canonical encoding and exact amounts at the edges.
  Proved here: the amount parser's numeric core is exact or rejects (after the repair recorded
  in known-findings.jsonl), and the structural validation of decoded batches. The byte-level JSON
  acceptance (duplicate / unknown keys, case folding) is decided by the `codec` correspondence
  scenario against an independent canonical-form checker — it is outside the Lean model (the
  harness hands the model batches already decoded by the real `UnmarshalJSON`).
-/
namespace Pegnet.C20
open Pegnet

theorem frac_scale (p k : Nat) (hk : k ≤ 8) : p * 100000000 / 10 ^ k = p * 10 ^ (8 - k) := by
  have h : (100000000 : Nat) = 10 ^ (8 - k) * 10 ^ k := by
    rw [← Nat.pow_add]
    have : 8 - k + k = 8 := by omega
    rw [this]
  rw [h, ← Nat.mul_assoc, Nat.mul_div_cancel _ (Nat.pow_pos (by omega))]

/-- Human-readable amounts are converted to base units exactly or rejected, never silently
    altered: for a whole part `w` and `k` fraction digits of value `p`, the result is
    w·10^8 + p·10^(8-k) — and it is returned exactly when at most 8 fraction digits were given
    and that value fits in a uint64. -/
theorem amount_exact (w p k n : Nat) :
    amountCore w p k = some n ↔ (k ≤ 8 ∧ n = w * 10 ^ 8 + p * 10 ^ (8 - k) ∧ n ≤ maxUint64) := by
  unfold amountCore
  constructor
  · intro h
    by_cases h1 : w > maxUint64
    · simp [h1] at h
    · by_cases h2 : w > maxUint64 / 100000000
      · simp [h1, h2] at h
      · by_cases h3 : k > 8
        · simp [h1, h2, h3] at h
        · have hk : k ≤ 8 := by omega
          simp only [h1, h2, h3, if_false] at h
          rw [frac_scale p k hk] at h
          by_cases h4 : w * 100000000 + p * 10 ^ (8 - k) > maxUint64
          · simp [h4] at h
          · simp only [h4, if_false] at h
            injection h with h
            exact ⟨hk, by omega, by omega⟩
  · rintro ⟨hk, hn, hle⟩
    have hw : w * 10 ^ 8 ≤ maxUint64 := by omega
    have h1 : ¬ w > maxUint64 := by
      have : w ≤ w * 10 ^ 8 := Nat.le_mul_of_pos_right w (by decide)
      omega
    have h2 : ¬ w > maxUint64 / 100000000 := by
      intro hgt
      have : (maxUint64 / 100000000 + 1) * 100000000 ≤ w * 100000000 := Nat.mul_le_mul_right _ hgt
      have e : (10 : Nat) ^ 8 = 100000000 := by decide
      rw [e] at hw
      have : (maxUint64 / 100000000 + 1) * 100000000 > maxUint64 := by decide
      omega
    have h3 : ¬ k > 8 := by omega
    simp only [h1, h2, h3, if_false]
    rw [frac_scale p k hk]
    have e : (10 : Nat) ^ 8 = 100000000 := by decide
    rw [e] at hn
    have h4 : ¬ w * 100000000 + p * 10 ^ (8 - k) > maxUint64 := by omega
    simp only [h4, if_false]
    rw [hn]

/-- everything else is rejected -/
theorem amount_rejects (w p k : Nat) :
    amountCore w p k = none ↔ (k > 8 ∨ w * 10 ^ 8 + p * 10 ^ (8 - k) > maxUint64) := by
  constructor
  · intro h
    by_cases hk : k > 8
    · exact Or.inl hk
    · right
      by_cases hfit : w * 10 ^ 8 + p * 10 ^ (8 - k) ≤ maxUint64
      · have := (amount_exact w p k _).2 ⟨by omega, rfl, hfit⟩
        rw [h] at this; cases this
      · omega
  · intro h
    cases hres : amountCore w p k with
    | none => rfl
    | some n =>
      obtain ⟨hk, hn, hle⟩ := (amount_exact w p k n).1 hres
      rcases h with h | h <;> omega

/-! the former witness of silent alteration is now rejected; boundary values -/
example : amountCore 184467440738 0 0 = none := by decide
example : amountCore 184467440737 9551615 8 = some 18446744073709551615 := by decide
example : amountCore 184467440737 9551616 8 = none := by decide
example : amountCore 1 5 1 = some 150000000 := by decide

/-! ### structural validation of a decoded batch (`Validate` / `ValidData`) -/

/-- exactly one of transfers or conversion -/
theorem transfers_xor_conversion (P : Params) (t : Tx) (hv : t.valid P = true) :
    (t.transfers.isEmpty = true ∧ t.conversion ≠ 0) ∨ (t.transfers.isEmpty = false ∧ t.conversion = 0) := by
  unfold Tx.valid at hv
  by_cases he : t.transfers.isEmpty = true
  · left
    refine ⟨he, ?_⟩
    intro hc
    simp [he, hc] at hv
  · right
    have he' : t.transfers.isEmpty = false := by simpa using he
    refine ⟨he', ?_⟩
    by_cases hc : t.conversion = 0
    · exact hc
    · have : 0 < t.conversion := Nat.pos_of_ne_zero hc
      simp [he', this] at hv

/-- input equals the sum of the transfers (no uint underflow): the subtract-with-check loop
    succeeds exactly when the running remainder never goes negative -/
theorem remaining_spec (r : Nat) (trs : List Transfer) (rem : Nat) :
    remainingAfter r trs = some rem ↔ (trs.map (·.amount)).sum + rem = r := by
  induction trs generalizing r with
  | nil => simp [remainingAfter]; omega
  | cons x xs ih =>
    unfold remainingAfter
    by_cases hlt : r < x.amount
    · simp only [hlt, if_true, List.map_cons, List.sum_cons]
      constructor
      · intro h; cases h
      · intro h; omega
    · simp only [hlt, if_false, List.map_cons, List.sum_cons]
      rw [ih]
      omega

/-- one input address per batch, amounts within int64, version 1 -/
theorem valid_batch_shape (P : Params) (e : TxEntry) (h : Nat) (v : Nat) (txs : List Tx)
    (hp : e.parsed = some (v, txs)) (hv : e.validAt P h = true) :
    v = 1 ∧ txs ≠ [] ∧ (∀ t ∈ txs, t.inAmount ≤ maxInt64) ∧ (∀ t ∈ txs, t.valid P = true) := by
  unfold TxEntry.validAt at hv
  rw [hp] at hv
  simp only [Bool.and_eq_true] at hv
  obtain ⟨⟨hd, _⟩, hb⟩ := hv
  unfold validData at hd
  simp only [Bool.and_eq_true, beq_iff_eq, Bool.not_eq_true'] at hd
  obtain ⟨⟨⟨h1, h2⟩, h3⟩, _⟩ := hd
  refine ⟨h1, ?_, ?_, ?_⟩
  · intro hn; rw [hn] at h2; simp at h2
  · intro t ht
    have := List.all_eq_true.1 hb t ht
    simpa using this
  · intro t ht
    exact List.all_eq_true.1 h3 t ht

/-! ### the JSON decoders (Pegnet/Json.lean), over the token tree

  `decBatch` / `decTx` / `decTyped` / `decTuple` model `UnmarshalJSON` of `TransactionBatch`,
  `Transaction`, `TypedAddressAmountTuple`, `AddressAmountTuple`; the codec scenario runs them
  against the Go decoders on every generated document. `J.WF` is the tokeniser's contract (a
  lexeme is at least two bytes longer than what it decodes to). -/

/-- **The expected-length accounting is a sound duplicate / unknown key filter.** If an object
    supplies every one of the (distinct) expected names and is no longer than an object made of
    exactly those keys, once each, with the values the decoder picked, then it has exactly those
    keys, once each, and no other — keys compared the way `encoding/json` matches them. -/
theorem length_accounting_sound (names : List String) (hnd : names.Nodup) (hne : names ≠ []) (fs : List Field)
    (hwf : ∀ f ∈ fs, Field.wf f) (vals : String → J) (hpres : ∀ n ∈ names, lookupField fs n = some (vals n))
    (hlen : J.len (.obj fs) ≤ 2 + (names.map (fun n => n.length + 3 + J.len (vals n))).sum + (names.length - 1)) :
    exactKeys names fs :=
  accounting_sound names hnd hne fs hwf vals hpres hlen

/-- **A FAT-2 batch is accepted only in canonical form.** For every document
    `TransactionBatch.UnmarshalJSON` accepts whose transactions each have transfers or a conversion
    (`Transaction.Validate`): the batch has exactly the keys `version`, `transactions`; every
    transaction exactly `input`, exactly ONE of `transfers` / `conversion` (the one its decoded form
    uses), optionally one `metadata`; every input exactly `address`, `amount`, `type` — no
    duplicate and no unknown key on any level. (Known tickers, amounts within int64, one input
    address: `valid_batch_shape`, `transfers_xor_conversion` above, on the decoded form.) -/
theorem accepted_only_in_canonical_form {P : Params} {j : J} {v : Nat} {txs : List Tx} (hwf : J.WF j)
    (h : decBatch P j = some (v, txs)) (hne : txs ≠ [])
    (hval : ∀ t ∈ txs, t.transfers ≠ [] ∨ t.isConversion P = true) :
    ∃ fs items, j = .obj fs ∧ exactKeys ["version", "transactions"] fs ∧
      lookupField fs "transactions" = some (.arr items) ∧ AllPairs (CanonicalTx P) items txs :=
  accepted_is_canonical hwf h hne hval

/-- transfer outputs: exactly `address` and `amount` -/
theorem accepted_output_keys {P : Params} {j : J} {tr : Transfer} (hwf : J.WF j) (h : decTuple P j = some tr) :
    ∃ fs, j = .obj fs ∧ exactKeys ["address", "amount"] fs := decTuple_keys hwf h

/-- **The repaired defect (fix 85f24f7), as a theorem.** An input object without a `type` key is
    refused whatever else it contains. (Before the repair an unknown key of compensating length —
    23 characters with a one-digit value — made the length check pass with the type left at the
    invalid zero value: the soundness statement above could not be proved, and the counterexample
    the failed proof pointed at was replayed on the implementation.) -/
theorem input_without_type_is_refused (P : Params) (fs : List Field) (h : lookupField fs "type" = none) :
    decTyped P (.obj fs) = none := by
  unfold decTyped
  simp only [h]
  cases lookupField fs "address" with
  | none => simp
  | some aj =>
    cases lookupField fs "amount" with
    | none => simp
    | some nj =>
      simp only
      cases decAddr P aj with
      | none => simp
      | some a =>
        cases decUint nj with
        | none => simp
        | some n => simp [validTicker]

/-! executed (not kernel-checked) examples: a canonical conversion batch is accepted; the same input
    with its `type` key replaced by a padding key of compensating length is refused -/
def xP : Params :=
  { act := ⟨0,0,0,0,0,0,0,0,0,0,0,0,0,0,0,0,0⟩, tickerMax := 4, tickerNames := ["PEG", "pUSD", "pEUR"], oneWaySet := [],
    snapshotRate := 144, perBlockHolders := 0, perBlockDevs := 0, bankBase := 0, avgPeriod := 8, avgRequired := 4,
    syncVersion := 2, devs := [], «mint» := [], burnAddr := "b", oldBurnAddr := "o", mintAddr := "m", coinbaseAddr := "c", zeroAddr := "0" }
def xInput : J := .obj [("\"address\"", "address", .str "\"FA1\"" "FA1" (some "aa")), ("\"amount\"", "amount", .num "5"),
  ("\"type\"", "type", .str "\"pUSD\"" "pUSD" none)]
def xBatch : J := .obj [("\"version\"", "version", .num "1"),
  ("\"transactions\"", "transactions", .arr [.obj [("\"input\"", "input", xInput), ("\"conversion\"", "conversion", .str "\"pEUR\"" "pEUR" none)]])]
def xPadded : J := .obj [("\"address\"", "address", .str "\"FA1\"" "FA1" (some "aa")), ("\"amount\"", "amount", .num "5"),
  ("\"aaaaaaaaaaaaaaaaaaaaaaa\"", "aaaaaaaaaaaaaaaaaaaaaaa", .num "1")]
#guard (decBatch xP xBatch).isSome
#guard (decTyped xP xInput).isSome
#guard (decTyped xP xPadded).isNone
#guard J.len xPadded = 32 + J.len (.str "\"FA1\"" "FA1" none) + 1 + ("invalid token type".utf8ByteSize)

end Pegnet.C20

namespace Pegnet.C20
open Pegnet

/-- **Re-encoding round-trips.** Whatever batch the encoders write (`TransactionBatch.MarshalJSON`
    refuses what `ValidData` refuses; `PTicker.MarshalJSON` refuses a ticker outside the table), the
    decoders read back as the same version and the same transactions: every input, every transfer
    output, every conversion target, in order. For every ticker table that satisfies `TickersOK`,
    every way of writing an address that decodes back to it, every amount a uint64 can hold. -/
theorem reencoding_round_trips (P : Params) (ok : TickersOK P) (al : Addr → String × String) (v : Nat) (txs : List Tx)
    (hf : Fits txs) (j : J) (he : encBatch P al v txs = some j) : decBatch P j = some (v, txs) :=
  decBatch_encBatch P ok al v txs hf j he

/-- a `Params` carrying the shipped ticker table (regenerated from fat/fat2/pticker.go) -/
def shipped : Params :=
  { act := ⟨0,0,0,0,0,0,0,0,0,0,0,0,0,0,0,0,0⟩, tickerMax := Generated.tickerMax, tickerNames := Generated.tickers, oneWaySet := [],
    snapshotRate := 144, perBlockHolders := 0, perBlockDevs := 0, bankBase := 0, avgPeriod := 8, avgRequired := 4,
    syncVersion := 2, devs := [], «mint» := [], burnAddr := "b", oldBurnAddr := "o", mintAddr := "m", coinbaseAddr := "c", zeroAddr := "0" }

/-- … and the shipped table does satisfy it: each of the 62 names reads back as its own ticker, is
    at least three bytes long and carries no double quote at either end — so the round trip holds
    for every parameter set that uses that table -/
theorem shipped_tickers_round_trip (P : Params) (h1 : P.tickerNames = Generated.tickers) (h2 : P.tickerMax = Generated.tickerMax) :
    TickersOK P := by
  apply tickersOK_of_check
  rw [namesOK_congr P shipped h1 h2]
  decide

/-- the encoder does accept something: a one-transfer batch is written and read back (non-vacuity of
    `reencoding_round_trips`, on the shipped table) -/
example : (encBatch shipped (fun a => ("\"" ++ a ++ "\"", a)) 1
      [{ inAddr := "aa", inType := 2, inAmount := 5, transfers := [{ addr := "bb", amount := 5 }], conversion := 0 }]).isSome = true := by
  decide

end Pegnet.C20

#print axioms Pegnet.C20.amount_exact
#print axioms Pegnet.C20.amount_rejects
#print axioms Pegnet.C20.transfers_xor_conversion
#print axioms Pegnet.C20.remaining_spec
#print axioms Pegnet.C20.valid_batch_shape
#print axioms Pegnet.C20.length_accounting_sound
#print axioms Pegnet.C20.accepted_only_in_canonical_form
#print axioms Pegnet.C20.accepted_output_keys
#print axioms Pegnet.C20.input_without_type_is_refused
#print axioms Pegnet.C20.reencoding_round_trips
#print axioms Pegnet.C20.shipped_tickers_round_trip
