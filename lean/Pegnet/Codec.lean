import Pegnet.Basic
/-
  cmd/util.go FactoidToFactoshi, and (below) the FAT-2 JSON acceptance over a token tree.
-/
namespace Pegnet

def allDigits (s : String) : Bool := s.toList.all Char.isDigit

/-- `strconv.Atoi` on a string of decimal digits, error ignored: "" ↦ 0, out of range ↦ MaxInt64. -/
def atoiClamped (s : String) : Nat :=
  if s.isEmpty then 0 else
  let n := s.toNat?.getD 0
  if n > maxInt64 then maxInt64 else n

/-- `cmd.FactoidToFactoshi`: `none` = error returned. The result is the uint64 the Go code returns,
    including its silent wrap-around. -/
def factoidToFactoshi (s : String) : Option Nat :=
  let parts := s.splitOn "."
  match parts with
  | [w] =>
    if allDigits w then some ((atoiClamped w * 100000000) % 18446744073709551616) else none
  | [w, f] =>
    if !(allDigits w) || f.isEmpty || !(allDigits f) then none
    else if f.length > 8 then none
    else
      let whole := (atoiClamped w * 100000000) % 18446744073709551616
      let part := f.toNat?.getD 0
      let frac := part * 100000000 / (10 ^ f.length)
      some ((whole + frac) % 18446744073709551616)
  | _ => none

namespace Codec
def runLine (_toks : List String) : String := "unimplemented"
end Codec

end Pegnet
