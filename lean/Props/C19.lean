import Proofs.VersionLock
import Pegnet.Generated.Facts
/-
  C19 — Version lock: a database synced across a hard fork by an old build is refused.
-/
namespace Pegnet.C19
open Pegnet

/-- Start-up is refused exactly when, among the version rows after the legacy back-fill,
    some fork the database has reached has a row at or above its height with a version below the
    fork's minimum (no such row at all counts as version −1), or some row carries a version
    newer than the build that is starting. For every fork table, build version and row set. -/
theorem hardfork_check_iff (forks : List (Nat × Int)) (cur : Int) (synced : Option Nat) (rows : VRows) :
    (checkHardForks forks cur synced rows).2 = true ↔
      (∃ f ∈ forks, f.1 ≤ highestSynced (backfill forks synced rows) ∧
        ((∃ r ∈ backfill forks synced rows, r.1 ≥ f.1 ∧ r.2 < f.2) ∨
         ((∀ r ∈ backfill forks synced rows, r.1 < f.1) ∧ -1 < f.2)))
      ∨ (∃ r ∈ backfill forks synced rows, cur < r.2)
      ∨ (backfill forks synced rows = [] ∧ cur < -1) := by
  unfold checkHardForks
  simp only [Bool.or_eq_true, List.any_eq_true, Bool.and_eq_true, decide_eq_true_eq]
  rw [maxVersionFrom_zero_gt_iff]
  constructor
  · rintro (⟨f, hf, htop, hmin⟩ | h)
    · exact Or.inl ⟨f, hf, htop, (minVersionFrom_lt_iff _ _ _).1 hmin⟩
    · exact Or.inr h
  · rintro (⟨f, hf, htop, hmin⟩ | h)
    · exact Or.inl ⟨f, hf, htop, (minVersionFrom_lt_iff _ _ _).2 hmin⟩
    · exact Or.inr h

/-- the rows `CheckHardForks` leaves behind are the back-filled rows -/
theorem rows_after (forks : List (Nat × Int)) (cur : Int) (synced : Option Nat) (rows : VRows) :
    (checkHardForks forks cur synced rows).1 = backfill forks synced rows := rfl

/-- without recorded sync height, or when every synced height already has a version row
    (the database was created by a build with version tracking), nothing is back-filled -/
theorem no_backfill (forks : List (Nat × Int)) (rows : VRows) (synced : Option Nat)
    (h : synced = none ∨ ∃ s, synced = some s ∧ s ≤ lowestSynced rows) :
    backfill forks synced rows = rows := by
  unfold backfill
  rcases h with h | ⟨s, hs, hle⟩
  · subst h; rfl
  · subst hs; simp only; rw [if_neg (by omega)]

/-- Databases synced entirely with adequate builds are always accepted: if every row has a
    version at least the minimum of every fork at or below its height and at most the starting
    build's version (and there is at least one row), the check passes. -/
theorem adequate_always_accepted (forks : List (Nat × Int)) (cur : Int) (synced : Option Nat) (rows : VRows)
    (hne : backfill forks synced rows ≠ [])
    (hfork : ∀ f ∈ forks, ∀ r ∈ backfill forks synced rows, r.1 ≥ f.1 → f.2 ≤ r.2)
    (hreach : ∀ f ∈ forks, f.1 ≤ highestSynced (backfill forks synced rows) →
        ∃ r ∈ backfill forks synced rows, r.1 ≥ f.1)
    (hcur : ∀ r ∈ backfill forks synced rows, r.2 ≤ cur) :
    (checkHardForks forks cur synced rows).2 = false := by
  cases hres : (checkHardForks forks cur synced rows).2 with
  | false => rfl
  | true =>
    rcases (hardfork_check_iff forks cur synced rows).1 hres with ⟨f, hf, htop, h⟩ | ⟨r, hr, hv⟩ | ⟨he, _⟩
    · rcases h with ⟨r, hr, hge, hlt⟩ | ⟨hall, _⟩
      · have := hfork f hf r hr hge; omega
      · obtain ⟨r, hr, hge⟩ := hreach f hf htop
        have := hall r hr; omega
    · have := hcur r hr; omega
    · exact absurd he hne

/-- regenerated facts: the build's own fork table starts with the catch-all (0, −1) and its
    sync version is at least every fork's minimum (so a database synced only by this build is
    accepted by this build). -/
theorem shipped_table_sane :
    Generated.forks.head? = some (0, -1) ∧ Generated.forks.all (fun f => decide (f.2 ≤ Generated.syncVersion)) = true := by
  decide

/-! non-vacuity and concrete behaviour -/
example : (checkHardForks [(0, -1), (5, 1)] 1 (some 7) [(6, 0), (7, 1)]).2 = true := by decide   -- height 6 ≥ fork 5 synced by v0 < 1
example : (checkHardForks [(0, -1), (5, 1)] 1 (some 7) [(6, 1), (7, 1)]).2 = true := by decide   -- heights ≤ 5 predate tracking: back-fill −1 at 5
example : (checkHardForks [(0, -1), (5, 1)] 1 (some 7) [(1,1),(2,1),(3,1),(4,1),(5,1),(6, 1), (7, 1)]).2 = false := by decide
example : (checkHardForks [(0, -1)] 1 (some 2) [(1, 1), (2, 2)]).2 = true := by decide            -- downgrade

end Pegnet.C19

#print axioms Pegnet.C19.hardfork_check_iff
#print axioms Pegnet.C19.rows_after
#print axioms Pegnet.C19.no_backfill
#print axioms Pegnet.C19.adequate_always_accepted
#print axioms Pegnet.C19.shipped_table_sane
