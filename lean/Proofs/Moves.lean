import Proofs.Events
import Proofs.Balances
/-
  C04 / C17: what an executed transaction moves, for every address and every asset — transfers,
  ordinary conversions and (first pass) PEG requests of the bank era — and what the bank pass adds.
-/
namespace Pegnet

/-- what the output side of an executed transaction credits to `(a, x)` -/
def outDelta (P : Params) (h : Nat) (rates avgs : Option TMap) (t : Tx) (a : Addr) (x : Ticker) : Int :=
  if h ≥ P.act.convLimit ∧ t.isPEGRequest = true then 0          -- paid by the bank pass
  else if t.isConversion P = true then
    match convert P.act.pip10 h (toInt64 t.inAmount) ((rates.getD []).get t.inType) ((avgs.getD []).get t.inType)
        ((rates.getD []).get t.conversion) ((avgs.getD []).get t.conversion) with
    | some out => if a = t.inAddr ∧ x = t.conversion then out else 0
    | none => 0
  else if x = t.inType then creditedTo P h a t.transfers else 0

/-- the balance movements one executed transaction implies -/
def txDelta (P : Params) (h : Nat) (rates avgs : Option TMap) (t : Tx) (a : Addr) (x : Ticker) : Int :=
  outDelta P h rates avgs t a x - (if a = t.inAddr ∧ x = t.inType then (t.inAmount : Int) else 0)

/-- the output side, exactly, for every address and asset -/
theorem recordOutputs_exact (P : Params) (h : Nat) (hash : Hash) (rates avgs : Option TMap) (idx : Nat) (t : Tx) (s : DB) :
    Outcome (recordOutputs P h hash rates avgs idx t s)
      (fun _ s' => ∀ a x, s'.bal a x = s.bal a x + outDelta P h rates avgs t a x) := by
  unfold recordOutputs outDelta
  by_cases hpeg : h ≥ P.act.convLimit ∧ t.isPEGRequest = true
  · rw [if_pos hpeg]
    simp only [if_pos hpeg]
    cases convert P.act.pip10 h (toInt64 t.inAmount) ((rates.getD []).get t.inType) ((avgs.getD []).get t.inType)
        ((rates.getD []).get t.conversion) ((avgs.getD []).get t.conversion) with
    | none => simp [Outcome, NotShort]
    | some _ => simp [Outcome]
  · rw [if_neg hpeg]
    simp only [if_neg hpeg]
    by_cases hcv : t.isConversion P = true
    · rw [if_pos hcv]
      simp only [if_pos hcv]
      cases hconv : convert P.act.pip10 h (toInt64 t.inAmount) ((rates.getD []).get t.inType) ((avgs.getD []).get t.inType)
          ((rates.getD []).get t.conversion) ((avgs.getD []).get t.conversion) with
      | none => simp [Outcome, NotShort]
      | some out =>
        simp only
        have hout : 0 ≤ out := convert_nonneg hconv
        apply Outcome.bind (keeps_bal_outcome (u := fun db => { db with histT := db.histT.map (fun r =>
            if r.hash == hash && r.txIndex == (idx : Int) then { r with toAmount := out } else r) }) (fun _ => rfl) s)
        intro _ s1 h1
        apply Outcome.mono (addBal_outcome P t.inAddr t.conversion out.toNat s1)
        intro _ s2 h2 a x
        rw [h2 a x, h1 a x]
        have : ((out.toNat : Nat) : Int) = out := Int.toNat_of_nonneg hout
        rw [this]
    · rw [if_neg hcv]
      simp only [if_neg hcv]
      cases hr : M.forEach t.transfers (fun tr =>
          if tr.addr == burnAddrAt P h then (pure () : LM Unit) else do
            addBal P tr.addr t.inType tr.amount
            insertRelation hash tr.addr idx true false) s with
      | fail e s4 =>
        have := creditLoop_burn P h hash idx t.inType t.transfers s
        rw [hr] at this
        exact this
      | ok u s4 =>
        simp only [Outcome]
        intro a x
        by_cases hab : a = burnAddrAt P h
        · have := creditLoop_burn P h hash idx t.inType t.transfers s
          rw [hr] at this
          simp only [Outcome] at this
          subst hab
          rw [this x]
          simp [creditedTo]
        · have := creditLoop_outcome P h hash idx t.inType a hab t.transfers s
          rw [hr] at this
          simp only [Outcome] at this
          rw [this x]
          simp [creditedTo, hab]

/-- **One executed transaction, exactly**: every kind, every address, every asset -/
theorem recordTx_exact (P : Params) (h : Nat) (hash : Hash) (rates avgs : Option TMap) (idx : Nat) (t : Tx)
    (s : DB) (hf : (t.inAmount : Int) ≤ s.bal t.inAddr t.inType) :
    Outcome (recordTx P h hash rates avgs idx t s)
      (fun _ s' => ∀ a x, s'.bal a x = s.bal a x + txDelta P h rates avgs t a x) := by
  unfold recordTx
  apply Outcome.bind (subBal_funded_all P t.inAddr t.inType t.inAmount s hf)
  intro ok s1 ⟨hok, h1⟩
  subst hok
  simp only [Bool.not_true, Bool.false_eq_true, if_false]
  apply Outcome.bind (insertRelation_outcome hash t.inAddr idx false (t.isConversion P) s1)
  intro _ s2 h2
  apply Outcome.bind (setExecuted_outcome hash h s2)
  intro _ s3 h3
  apply Outcome.mono (recordOutputs_exact P h hash rates avgs idx t s3)
  intro _ s4 h4 a x
  rw [h4 a x, h3 a x, h2 a x, h1 a x]
  unfold txDelta
  omega


/-- a transaction whose input is not covered does not get recorded -/
theorem recordTx_unfunded_fails (P : Params) (h : Nat) (hash : Hash) (rates avgs : Option TMap) (idx : Nat) (t : Tx)
    (s : DB) (hlt : s.bal t.inAddr t.inType < (t.inAmount : Int)) (h0 : t.inAmount ≠ 0) (u : Unit) (s' : DB) :
    recordTx P h hash rates avgs idx t s ≠ .ok u s' := by
  intro hr
  unfold recordTx at hr
  obtain ⟨b, s1, h1, h2⟩ := M.bind_ok hr
  unfold subBal at h1
  rw [if_neg h0] at h1
  by_cases hvt : (!validTicker P t.inType) = true
  · rw [if_pos hvt] at h1; cases h1
  · rw [if_neg hvt, M.bind_run] at h1
    simp only [M.get_run, if_pos hlt, M.pure_run] at h1
    injection h1 with hb hs
    subst hb
    simp only [Bool.not_false, if_true] at h2
    cases h2

/-- **one recorded transaction, success-only form**: on a well-formed balance table, if the
    transaction is recorded then every balance moved by exactly `txDelta` -/
theorem recordTx_ok_exact (P : Params) (h : Nat) (hash : Hash) (rates avgs : Option TMap) (idx : Nat) (t : Tx)
    (s s' : DB) (hok : AddrsOK s) (hr : recordTx P h hash rates avgs idx t s = .ok () s') :
    AddrsOK s' ∧ ∀ a x, s'.bal a x = s.bal a x + txDelta P h rates avgs t a x := by
  refine ⟨(recordTx_step (primsOK_addrsOK P h) hash rates avgs idx t).ok hr hok, ?_⟩
  by_cases hf : (t.inAmount : Int) ≤ s.bal t.inAddr t.inType
  · have := recordTx_exact P h hash rates avgs idx t s hf
    rw [hr] at this
    exact this
  · have hnn := bal_nonneg_of_addrsOK hok t.inAddr t.inType
    exact absurd hr (recordTx_unfunded_fails P h hash rates avgs idx t s (by omega) (by omega) () s')

/-- what a whole batch moves -/
def batchDelta (P : Params) (h : Nat) (rates avgs : Option TMap) (txs : List Tx) (a : Addr) (x : Ticker) : Int :=
  (txs.map (fun t => txDelta P h rates avgs t a x)).sum

theorem recordLoop_ok_exact (P : Params) (h : Nat) (hash : Hash) (rates avgs : Option TMap) (l : List (Tx × Nat)) :
    ∀ (s s' : DB), AddrsOK s → M.forEach l (fun p => recordTx P h hash rates avgs p.2 p.1) s = .ok () s' →
      AddrsOK s' ∧ ∀ a x, s'.bal a x = s.bal a x + batchDelta P h rates avgs (l.map (·.1)) a x := by
  induction l with
  | nil =>
    intro s s' hok hr
    simp only [M.forEach, M.pure_run'] at hr
    injection hr with _ hs; subst hs
    exact ⟨hok, fun a x => by simp [batchDelta]⟩
  | cons p rest ih =>
    intro s s' hok hr
    simp only [M.forEach] at hr
    obtain ⟨_, s1, h1, h2⟩ := M.bind_ok hr
    obtain ⟨hok1, hd1⟩ := recordTx_ok_exact P h hash rates avgs p.2 p.1 s s1 hok h1
    obtain ⟨hok2, hd2⟩ := ih s1 s' hok1 h2
    refine ⟨hok2, fun a x => ?_⟩
    rw [hd2 a x, hd1 a x]
    simp only [batchDelta, List.map_cons, List.sum_cons]
    omega

theorem zipIdx_map_fst {α} (l : List α) (k : Nat) : (l.zipIdx k).map (·.1) = l := by
  induction l generalizing k with
  | nil => rfl
  | cons x xs ih => simp [List.zipIdx_cons, ih]

/-- **A recorded batch, exactly**: every address and asset moved by the sum of what the batch's
    transactions imply — nothing else, nobody else -/
theorem recordBatch_exact (P : Params) (h : Nat) (hash : Hash) (rates avgs : Option TMap) (txs : List Tx)
    (s s' : DB) (hok : AddrsOK s) (hr : recordBatch P h hash rates avgs txs s = .ok () s') :
    AddrsOK s' ∧ ∀ a x, s'.bal a x = s.bal a x + batchDelta P h rates avgs txs a x := by
  unfold recordBatch M.forEachIdx at hr
  have := recordLoop_ok_exact P h hash rates avgs txs.zipIdx s s' hok hr
  rw [zipIdx_map_fst] at this
  exact this


/-! ### the bank pass (PEG requests of the legacy era) -/

/-- what paying one PEG request moves: the yield in PEG (the request's destination) and the
    refund in the source asset, both to the requesting address -/
def pegDelta (P : Params) (h : Nat) (rates : TMap) (r : PegReq) (y : Nat) (a : Addr) (x : Ticker) : Int :=
  (if a = r.tx.inAddr ∧ x = r.tx.conversion then (y : Int) else 0) +
  (if a = r.tx.inAddr ∧ x = r.tx.inType then
     (((refund P.act.pip10 h (toInt64 r.tx.inAmount) (toInt64 y) (rates.get r.tx.inType) (rates.get r.tx.conversion)).toNat : Nat) : Int)
   else 0)

theorem payPegReq_exact (P : Params) (h : Nat) (rates : TMap) (r : PegReq) (y : Nat) (s : DB) :
    Outcome (payPegReq P h rates r y s)
      (fun _ s' => ∀ a x, s'.bal a x = s.bal a x + pegDelta P h rates r y a x) := by
  unfold payPegReq
  apply Outcome.bind (keeps_bal_outcome (u := fun db => { db with histT := db.histT.map (fun q =>
      if q.hash == r.key.hash && q.txIndex == (r.key.idx : Int) then
        { q with toAmount := toInt64 y, outputs := renderOutputs [(r.tx.inAddr,
            refund P.act.pip10 h (toInt64 r.tx.inAmount) (toInt64 y) (rates.get r.tx.inType) (rates.get r.tx.conversion))] }
      else q) }) (fun _ => rfl) s)
  intro _ s1 h1
  apply Outcome.bind (addBal_outcome P r.tx.inAddr r.tx.conversion y s1)
  intro _ s2 h2
  apply Outcome.mono (addBal_outcome P r.tx.inAddr r.tx.inType _ s2)
  intro _ s3 h3 a x
  rw [h3 a x, h2 a x, h1 a x]
  unfold pegDelta
  omega

theorem updateBank_outcome (bh u r : Int) (s : DB) :
    Outcome (updateBank bh u r s) (fun _ s' => ∀ a x, s'.bal a x = s.bal a x) := by
  simp only [updateBank, M.guarded]
  by_cases hb : s.bank.any (·.height == bh) = true
  · simp only [hb, if_true, Outcome]
    intro a x; rfl
  · simp [hb, Outcome, NotShort]

/-- the pass over all requests of a block: every balance moves by the sum of the per-request moves -/
theorem payLoop_exact (P : Params) (h : Nat) (rates : TMap) (l : List (PegReq × (TxKey × Nat))) (s : DB) :
    Outcome (M.forEach l (fun rp => payPegReq P h rates rp.1 rp.2.2) s)
      (fun _ s' => ∀ a x, s'.bal a x = s.bal a x + (l.map (fun rp => pegDelta P h rates rp.1 rp.2.2 a x)).sum) := by
  induction l generalizing s with
  | nil => simp [M.forEach, Outcome]
  | cons rp rest ih =>
    simp only [M.forEach]
    apply Outcome.bind (payPegReq_exact P h rates rp.1 rp.2.2 s)
    intro _ s1 h1
    apply Outcome.mono (ih s1)
    intro _ s2 h2 a x
    rw [h2 a x, h1 a x]
    simp only [List.map_cons, List.sum_cons]
    omega

/-- **The bank pass, exactly**: `recordPegnetRequests` moves, for every address and asset, the sum
    over the block's requests of (yield paid in PEG + refund in the source asset) — the yields being
    `Payouts` of the bank over the requested amounts — and nothing else -/
theorem recordPegRequests_exact (P : Params) (h : Nat) (rates avgs : TMap) (batches : List TxEntry)
    (bank : Nat) (bh : Int) (s : DB) :
    Outcome (recordPegRequests P h rates avgs batches bank bh s)
      (fun _ s' => ∀ a x, s'.bal a x = s.bal a x +
        (((pegRequests P h rates avgs batches).zip
            (payouts bank ((pegRequests P h rates avgs batches).map fun r => (r.key, r.requested)))).map
          (fun rp => pegDelta P h rates rp.1 rp.2.2 a x)).sum) := by
  unfold recordPegRequests
  dsimp only
  by_cases hd : hasDupKey ((pegRequests P h rates avgs batches).map (·.key)) = true
  · rw [if_pos hd]
    simp [Outcome, NotShort, M.bind_run]
  · rw [if_neg hd]
    simp only [M.bind_run]
    apply Outcome.bind (payLoop_exact P h rates _ s)
    intro _ s1 h1
    split
    · apply Outcome.mono (updateBank_outcome bh _ _ s1)
      intro _ s2 h2 a x
      rw [h2 a x, h1 a x]
    · simp only [M.pure_run, Outcome]
      exact h1


/-! ### issuance events: burns, developer rewards, the mint, staking credits -/

/-- a loop of plain credits: every balance moves by the sum of the credits naming it -/
theorem creditList_exact {α} (P : Params) (fa : α → Addr) (ft : α → Ticker) (fv : α → Nat) (l : List α) (s : DB) :
    Outcome (M.forEach l (fun p => addBal P (fa p) (ft p) (fv p)) s)
      (fun _ s' => ∀ a x, s'.bal a x = s.bal a x +
        (l.map (fun p => if a = fa p ∧ x = ft p then ((fv p : Nat) : Int) else 0)).sum) := by
  induction l generalizing s with
  | nil => simp [M.forEach, Outcome]
  | cons p rest ih =>
    simp only [M.forEach]
    apply Outcome.bind (addBal_outcome P (fa p) (ft p) (fv p) s)
    intro _ s1 h1
    apply Outcome.mono (ih s1)
    intro _ s2 h2 a x
    rw [h2 a x, h1 a x]
    simp only [List.map_cons, List.sum_cons]
    omega

/-- **The one-time mint, exactly**: the mint address receives the tabled amounts, nobody else anything -/
theorem mintTokens_exact (P : Params) (s : DB) :
    Outcome (mintTokens P s)
      (fun _ s' => ∀ a x, s'.bal a x = s.bal a x +
        (P.mint.map (fun p => if a = P.mintAddr ∧ x = p.1 then ((p.2 * 100000000 : Nat) : Int) else 0)).sum) :=
  creditList_exact P (fun (_ : Ticker × Nat) => P.mintAddr) (fun p => p.1) (fun p => p.2 * 100000000) P.mint s

/-- what one factoid transaction credits: its single input, in pFCT, when it has the burn shape -/
def burnDelta (burnRCD : Addr) (f : FctTx) (a : Addr) (x : Ticker) : Int :=
  match burnOf burnRCD f with
  | none => 0
  | some inp => if a = inp.1 ∧ x = tFCT then (inp.2 : Int) else 0

theorem applyFct_exact (P : Params) (h : Nat) (burnRCD : Addr) (f : FctTx) (s : DB) :
    Outcome (applyFct P h burnRCD f s) (fun _ s' => ∀ a x, s'.bal a x = s.bal a x + burnDelta burnRCD f a x) := by
  unfold applyFct burnDelta
  cases hb : burnOf burnRCD f with
  | none => simp [Outcome]
  | some inp =>
    simp only
    apply Outcome.bind (addBal_outcome P inp.1 tFCT inp.2 s)
    intro _ s1 h1
    apply Outcome.bind (insertHistBatch_outcome _ s1)
    intro _ s2 h2
    apply Outcome.bind (insertHistTx_outcome _ s2)
    intro _ s3 h3
    apply Outcome.mono (insertLookup_outcome _ s3)
    intro _ s4 h4 a x
    rw [h4 a x, h3 a x, h2 a x, h1 a x]

/-- **FCT burns, exactly**: a factoid block credits, for every address and asset, the burned amounts
    of the transactions of burn shape to their input addresses in pFCT, and nothing else -/
theorem applyFactoidBlock_exact (P : Params) (h : Nat) (burnRCD : Addr) (fcts : List FctTx) (s : DB) :
    Outcome (applyFactoidBlock P h burnRCD fcts s)
      (fun _ s' => ∀ a x, s'.bal a x = s.bal a x + (fcts.map (fun f => burnDelta burnRCD f a x)).sum) := by
  unfold applyFactoidBlock
  induction fcts generalizing s with
  | nil => simp [M.forEach, Outcome]
  | cons f rest ih =>
    simp only [M.forEach]
    apply Outcome.bind (applyFct_exact P h burnRCD f s)
    intro _ s1 h1
    apply Outcome.mono (ih s1)
    intro _ s2 h2 a x
    rw [h2 a x, h1 a x]
    simp only [List.map_cons, List.sum_cons]
    omega

/-- the reward of one developer-table entry at height `h` -/
def devReward (P : Params) (h : Nat) (d : Addr × Nat) : Nat :=
  (P.perBlockDevs / 100) * d.2 * (if h ≥ P.act.v202 then P.snapshotRate else 1)

theorem devPayoutLoop_exact (P : Params) (h : Nat) (ts : Int) (l : List (Addr × Nat)) :
    ∀ (i j : Nat) (s : DB), Outcome (devPayoutLoop P h ts i j l s)
      (fun _ s' => ∀ a x, s'.bal a x = s.bal a x +
        (l.map (fun d => if a = d.1 ∧ x = tPEG then ((devReward P h d : Nat) : Int) else 0)).sum) := by
  induction l with
  | nil => intro i j s; simp [devPayoutLoop, Outcome]
  | cons d rest ih =>
    intro i j s
    simp only [devPayoutLoop]
    apply Outcome.bind (addBal_outcome P d.1 tPEG _ s)
    intro _ s1 h1
    apply Outcome.bind (insertHistBatch_outcome _ s1)
    intro _ s2 h2
    apply Outcome.bind (insertHistTx_outcome _ s2)
    intro _ s3 h3
    apply Outcome.bind (insertLookup_outcome _ s3)
    intro _ s4 h4
    apply Outcome.mono (ih _ _ s4)
    intro _ s5 h5 a x
    rw [h5 a x, h4 a x, h3 a x, h2 a x, h1 a x]
    simp only [List.map_cons, List.sum_cons, devReward]
    omega

/-- **Developer rewards, exactly**: each entry of the developer table is credited its share in PEG -/
theorem developersPayouts_exact (P : Params) (h : Nat) (ts : Int) (s : DB) :
    Outcome (developersPayouts P h ts s)
      (fun _ s' => ∀ a x, s'.bal a x = s.bal a x +
        (P.devs.map (fun d => if a = d.1 ∧ x = tPEG then ((devReward P h d : Nat) : Int) else 0)).sum) :=
  devPayoutLoop_exact P h ts P.devs 0 1 s


/-! ### the history row says what was credited -/

/-- the writes after `SetTransactionHistoryConvertedAmount` / `…PEGConvertedRequestAmount` leave
    the transaction history alone -/
theorem addBal_histT (P : Params) (a : Addr) (t : Ticker) (v : Nat) (s s' : DB) (u : Unit)
    (hr : addBal P a t v s = .ok u s') : s'.histT = s.histT := by
  simp only [addBal, M.guarded] at hr
  split at hr
  · cases hr
  · injection hr with _ hs; subst hs; rfl

/-- **An executed conversion's row records the amount that was credited**: after the output side
    of an ordinary conversion, every history row of that (entry, index) carries `to_amount = out`,
    the very amount added to the destination balance (`recordOutputs_exact`) -/
theorem conversion_row_records_credit (P : Params) (h : Nat) (hash : Hash) (rates avgs : Option TMap) (idx : Nat) (t : Tx)
    (s s' : DB) (hnp : ¬ (h ≥ P.act.convLimit ∧ t.isPEGRequest = true)) (hcv : t.isConversion P = true)
    (hr : recordOutputs P h hash rates avgs idx t s = .ok () s') :
    ∃ out, convert P.act.pip10 h (toInt64 t.inAmount) ((rates.getD []).get t.inType) ((avgs.getD []).get t.inType)
        ((rates.getD []).get t.conversion) ((avgs.getD []).get t.conversion) = some out ∧
      ∀ r ∈ s'.histT, r.hash = hash → r.txIndex = (idx : Int) → r.toAmount = out := by
  unfold recordOutputs at hr
  rw [if_neg hnp, if_pos hcv] at hr
  cases hconv : convert P.act.pip10 h (toInt64 t.inAmount) ((rates.getD []).get t.inType) ((avgs.getD []).get t.inType)
      ((rates.getD []).get t.conversion) ((avgs.getD []).get t.conversion) with
  | none => rw [hconv] at hr; cases hr
  | some out =>
    rw [hconv] at hr
    refine ⟨out, rfl, ?_⟩
    simp only at hr
    obtain ⟨_, s1, h1, h2⟩ := M.bind_ok hr
    simp only [setConvertedAmount, M.guarded] at h1
    injection h1 with _ hs1
    rw [addBal_histT P _ _ _ _ _ _ h2, ← hs1]
    intro r hrm hh hi
    obtain ⟨q, _, rfl⟩ := List.mem_map.1 hrm
    by_cases hq : (q.hash == hash && q.txIndex == (idx : Int)) = true
    · rw [if_pos hq]
    · rw [if_neg hq] at hh hi ⊢
      exact absurd (by simp [hh, hi]) hq

/-- **A paid PEG request's row records yield and refund**: `to_amount` is the PEG paid and the
    outputs column names the requesting address with the refund that `payPegReq_exact` credits -/
theorem pegRequest_row_records_payment (P : Params) (h : Nat) (rates : TMap) (rq : PegReq) (y : Nat) (s s' : DB)
    (hr : payPegReq P h rates rq y s = .ok () s') :
    ∀ r ∈ s'.histT, r.hash = rq.key.hash → r.txIndex = (rq.key.idx : Int) →
      r.toAmount = toInt64 y ∧
      r.outputs = renderOutputs [(rq.tx.inAddr,
        refund P.act.pip10 h (toInt64 rq.tx.inAmount) (toInt64 y) (rates.get rq.tx.inType) (rates.get rq.tx.conversion))] := by
  unfold payPegReq at hr
  obtain ⟨_, s1, h1, h2⟩ := M.bind_ok hr
  obtain ⟨_, s2, h3, h4⟩ := M.bind_ok h2
  simp only [setPegConverted, M.guarded] at h1
  injection h1 with _ hs1
  rw [addBal_histT P _ _ _ _ _ _ h4, addBal_histT P _ _ _ _ _ _ h3, ← hs1]
  intro r hrm hh hi
  obtain ⟨q, _, rfl⟩ := List.mem_map.1 hrm
  by_cases hq : (q.hash == rq.key.hash && q.txIndex == (rq.key.idx : Int)) = true
  · rw [if_pos hq]; exact ⟨rfl, rfl⟩
  · rw [if_neg hq] at hh hi ⊢
    exact absurd (by simp [hh, hi]) hq

end Pegnet
