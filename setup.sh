#!/bin/sh
# Build everything the checks need, offline, from files on disk only.
set -e
cd "$(dirname "$0")"
export GOFLAGS=-mod=mod GOPROXY=off GOSUMDB=off GOTOOLCHAIN=local LXRBITSIZE=8
mkdir -p bin scratch evidence replays
(cd extract && go build -o ../bin/extract .)
./bin/extract /repo "$(pwd)"
(cd lean && lake build Pegnet Proofs Props driver)
cp /repo/go.sum harness/go.sum
(cd harness && go build -tags verif -o ../bin/vharness .)
echo setup done
