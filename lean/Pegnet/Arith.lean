import Pegnet.Basic
/-
  node/conversions/conversions.go and conversionlimit.go as total functions.
-/
namespace Pegnet

/-- `int64(x)` of a uint64 value (two's complement re-interpretation). -/
def toInt64 (x : Nat) : Int :=
  let y := x % 18446744073709551616
  if y ≤ maxInt64 then (y : Int) else (y : Int) - 18446744073709551616

/-- `conversions.Convert`. `none` = the Go function returned an error.
    `pip10` is `config.PIP10AverageActivation`. -/
def convert (pip10 h : Nat) (amount : Int) (fromRate fromAvg toRate toAvg : Nat) : Option Int :=
  if amount < 0 then none
  else if fromRate = 0 ∨ toRate = 0 then none
  else if h ≥ pip10 ∧ (fromAvg = 0 ∨ toAvg = 0) then none
  else
    let src := if h ≥ pip10 ∧ fromRate > fromAvg then fromAvg else fromRate
    let dst := if h ≥ pip10 ∧ toRate < toAvg then toAvg else toRate
    let num := amount * (src : Int) / (dst : Int)
    if num ≤ (maxInt64 : Int) then some num else none

/-- Go's `x, _ := Convert(...)`: the zero value on error. -/
def convertD (pip10 h : Nat) (amount : Int) (fr fa tr ta : Nat) : Int :=
  (convert pip10 h amount fr fa tr ta).getD 0

/-- `conversions.Refund`. -/
def refund (pip10 h : Nat) (inputAmount pegYield : Int) (inputRate pegRate : Nat) : Int :=
  let maxYield := convertD pip10 h inputAmount inputRate inputRate pegRate pegRate
  let refundPEG := maxYield - pegYield
  convertD pip10 h refundPEG pegRate pegRate inputRate inputRate

/-- `conversions.PayoutBig` (`totalRequested` is a big.Int; result truncated by `.Uint64()`). -/
def payoutBig (requested bank total : Nat) : Nat :=
  if requested = 0 ∨ bank = 0 ∨ total = 0 then 0
  else (requested * bank / total) % 18446744073709551616

/-- A txid `[idx]-[hash]`. -/
structure TxKey where
  idx : Nat
  hash : String
  deriving Repr, DecidableEq

/-- order used by `transactionid.SortTxIDS`: by hash, then by index. -/
def TxKey.lt (a b : TxKey) : Bool :=
  decide (a.hash < b.hash) || (a.hash == b.hash && decide (a.idx < b.idx))

def sumReq (reqs : List (TxKey × Nat)) : Nat := (reqs.map (·.2)).sum

def maxReq (reqs : List (TxKey × Nat)) : Nat := reqs.foldl (fun m r => max m r.2) 0

/-- smallest key under `TxKey.lt` among a non-empty list (first of the stable sort). -/
def minKey : List TxKey → Option TxKey
  | [] => none
  | k :: ks => some (ks.foldl (fun m x => if x.lt m then x else m) k)

/-- `ConversionSupplySet.Payouts` over the request set (a list with distinct keys; the Go code
    ranges over a map, the result is a map: order is irrelevant, see Props/C01). -/
def payouts (bank : Nat) (reqs : List (TxKey × Nat)) : List (TxKey × Nat) :=
  if reqs.isEmpty then []
  else
    let total := sumReq reqs
    if total ≤ maxUint64 ∧ total < bank then reqs
    else
      let pays := reqs.map (fun r => (r.1, payoutBig r.2 bank total))
      let totalPaid := sumReq pays % 18446744073709551616
      let dust := (bank + 18446744073709551616 - totalPaid) % 18446744073709551616
      let most := maxReq reqs
      let top := (reqs.filter (fun r => r.2 == most)).map (·.1)
      match minKey top with
      | none => pays
      | some w => pays.map (fun p => if p.1 == w then (p.1, (p.2 + dust) % 18446744073709551616) else p)

/-- `ConversionSupplySet.TotalRequested()` (`big.Int.Uint64()`: low 64 bits). -/
def totalRequested (reqs : List (TxKey × Nat)) : Nat := sumReq reqs % 18446744073709551616

end Pegnet
