import Proofs.Averages
/-
  What the averaging cache holds, ticker by ticker.

  `series d t` is the series the cache keeps for ticker `t`. One collection step
  (`collectRatesAtHeight`) turns it into `trimTo N (series) ++ quote`, where `quote` is the value the
  rate table has for `t` at that height (if any): `collectAt_series`. The reload path therefore
  builds, from nothing, the quotes of the height window `[start, height]` (`reload_series`: no trim is
  ever effective inside a window of at most N heights), while the incremental path trims the stored
  series by COUNT. The two agree when the window has no hole: `incremental_is_window`.
-/
namespace Pegnet

def series (d : List (Ticker × List Nat)) (t : Ticker) : List Nat := (dataGet d t).getD []

/-- the value the rate table has for ticker `t` at height `g`, as a list of length ≤ 1 -/
def quoteAt (P : Params) (db : DB) (g : Nat) (t : Ticker) : List Nat :=
  (((ratesToMap P (db.ratesAt g)).find? (·.1 == t)).map (·.2)).toList

theorem quoteAt_length (P : Params) (db : DB) (g : Nat) (t : Ticker) : (quoteAt P db g t).length ≤ 1 := by
  unfold quoteAt
  cases ((ratesToMap P (db.ratesAt g)).find? (·.1 == t)).map (·.2) <;> simp

theorem series_dataSet (d : List (Ticker × List Nat)) (t t' : Ticker) (l : List Nat) :
    series (dataSet d t l) t' = if t' = t then l else series d t' := by
  unfold series dataSet dataGet
  by_cases hany : d.any (·.1 == t) = true
  · rw [if_pos hany, List.find?_map]
    have hf : ((fun x : Ticker × List Nat => x.1 == t') ∘ fun p : Ticker × List Nat => if (p.1 == t) = true then (t, l) else p)
        = fun x => x.1 == t' := by
      funext q
      simp only [Function.comp]
      by_cases hq : (q.1 == t) = true
      · have : q.1 = t := by simpa using hq
        simp [hq, this]
      · simp [hq]
    rw [hf]
    by_cases e : t' = t
    · subst e
      rw [if_pos rfl]
      cases hfind : d.find? (·.1 == t') with
      | none =>
        have := List.find?_eq_none.1 hfind
        obtain ⟨q, hq, hk⟩ := List.any_eq_true.1 hany
        exact absurd hk (this q hq)
      | some q =>
        have hk : q.1 = t' := by
          have := List.find?_some hfind
          simpa using this
        simp [hk]
    · rw [if_neg e]
      cases hfind : d.find? (·.1 == t') with
      | none => rfl
      | some q =>
        have hk : q.1 = t' := by
          have := List.find?_some hfind
          simpa using this
        have : ¬ q.1 = t := by rw [hk]; exact e
        simp [this]
  · rw [if_neg hany, List.find?_append]
    have hnone : d.find? (·.1 == t) = none := by
      apply List.find?_eq_none.2
      intro q hq hk
      exact hany (List.any_eq_true.2 ⟨q, hq, hk⟩)
    by_cases e : t' = t
    · subst e
      rw [if_pos rfl, hnone]
      simp
    · rw [if_neg e]
      have : (t == t') = false := by simpa using fun h => e h.symm
      simp [List.find?_cons, this]

theorem series_collect_fold (rates : TMap) (hpw : rates.Pairwise (fun a b => a.1 ≠ b.1)) (t : Ticker) :
    ∀ acc : List (Ticker × List Nat),
      series (rates.foldl (fun acc kv => dataSet acc kv.1 ((dataGet acc kv.1).getD [] ++ [kv.2])) acc) t
        = series acc t ++ ((rates.find? (·.1 == t)).map (·.2)).toList := by
  induction rates with
  | nil => intro acc; simp
  | cons kv rest ih =>
    intro acc
    have hpw' := List.pairwise_cons.1 hpw
    simp only [List.foldl_cons]
    rw [ih hpw'.2, series_dataSet]
    by_cases e : t = kv.1
    · have hnone : rest.find? (·.1 == t) = none := by
        apply List.find?_eq_none.2
        intro q hq hk
        have : q.1 = t := by simpa using hk
        exact hpw'.1 q hq (by rw [this, e])
      have hk : (kv.1 == t) = true := by simp [e]
      rw [if_pos e, hnone, List.find?_cons, hk]
      simp [series, e]
    · have hk : (kv.1 == t) = false := by simpa using fun h => e h.symm
      rw [if_neg e, List.find?_cons, hk]

theorem trimTo_nil (n : Nat) : trimTo n [] = [] := by
  unfold trimTo; split
  · rfl
  · split <;> simp

theorem series_map_trim (n : Nat) (d : List (Ticker × List Nat)) (t : Ticker) :
    series (d.map (fun p => (p.1, trimTo n p.2))) t = trimTo n (series d t) := by
  unfold series dataGet
  rw [List.find?_map]
  have hf : ((fun x : Ticker × List Nat => x.1 == t) ∘ fun p : Ticker × List Nat => (p.1, trimTo n p.2))
      = fun x => x.1 == t := by
    funext q; rfl
  rw [hf]
  cases d.find? (·.1 == t) with
  | none => simp [trimTo_nil]
  | some q => simp

/-- **one collection step, per ticker**: trim the stored series by count, append the height's quote -/
theorem collectAt_series (P : Params) (db : DB) (d : List (Ticker × List Nat)) (g : Nat) (t : Ticker) :
    series (collectAt P db d g) t = trimTo P.avgPeriod (series d t) ++ quoteAt P db g t := by
  unfold collectAt quoteAt
  dsimp only
  rw [series_collect_fold _ (ratesToMap_pairwise P _), series_map_trim]

/-! ### the window, per ticker -/

/-- the quotes of `k` consecutive heights from `a`, oldest first -/
def cat (q : Nat → List Nat) (a : Nat) : Nat → List Nat
  | 0 => []
  | k + 1 => cat q a k ++ q (a + k)

theorem cat_length (q : Nat → List Nat) (hq : ∀ g, (q g).length ≤ 1) (a k : Nat) : (cat q a k).length ≤ k := by
  induction k with
  | zero => simp [cat]
  | succ k ih => simp only [cat, List.length_append]; have := hq (a + k); omega

theorem cat_shift (q : Nat → List Nat) (a k : Nat) : cat q a (k + 1) = q a ++ cat q (a + 1) k := by
  induction k with
  | zero => simp [cat]
  | succ k ih =>
    rw [cat, ih, cat, List.append_assoc]
    congr 2
    congr 1
    omega

theorem trimTo_short {n : Nat} {l : List Nat} (h : l.length < n) : trimTo n l = l := by
  unfold trimTo
  rw [if_neg (by omega), if_neg (by omega)]

/-- the reload loop over at most `N` heights never trims: it builds the window's quotes -/
theorem reload_fold (n : Nat) (q : Nat → List Nat) (hq : ∀ g, (q g).length ≤ 1) (a k : Nat) (hk : k ≤ n) :
    (List.range k).foldl (fun l i => trimTo n l ++ q (a + i)) [] = cat q a k := by
  induction k with
  | zero => rfl
  | succ k ih =>
    rw [List.range_succ, List.foldl_append, ih (by omega)]
    simp only [List.foldl_cons, List.foldl_nil, cat]
    rw [trimTo_short]
    have := cat_length q hq a k
    omega

/-- all `k` heights from `a` are quoted once the first is and no quoted height is followed by an
    unquoted one -/
theorem cat_full (q : Nat → List Nat) (hq : ∀ g, (q g).length ≤ 1) (a : Nat) :
    ∀ k, (∀ i, i + 1 < k → q (a + i) ≠ [] → q (a + i + 1) ≠ []) → 0 < k → q a ≠ [] →
      (cat q a k).length = k ∧ q (a + (k - 1)) ≠ [] := by
  intro k
  induction k with
  | zero => intro _ h; omega
  | succ k ih =>
    intro hc _ h0
    by_cases hk : k = 0
    · subst hk
      have h1 := hq a
      have : (q a).length = 1 := by
        cases hqa : q a with
        | nil => exact absurd hqa h0
        | cons x xs => rw [hqa] at h1; simp at h1 ⊢; exact h1
      simp [cat, this, h0]
    · obtain ⟨hl, hlast⟩ := ih (fun i hi => hc i (by omega)) (by omega) h0
      have hnext : q (a + k) ≠ [] := by
        have := hc (k - 1) (by omega) hlast
        have e : a + (k - 1) + 1 = a + k := by omega
        rwa [e] at this
      have h1 := hq (a + k)
      have : (q (a + k)).length = 1 := by
        cases hqa : q (a + k) with
        | nil => exact absurd hqa hnext
        | cons x xs => rw [hqa] at h1; simp at h1 ⊢; exact h1
      refine ⟨by simp only [cat, List.length_append, hl, this], ?_⟩
      simpa using hnext

/-- **count trim = height trim on a window without holes** -/
theorem trim_window (n : Nat) (hn : 0 < n) (q : Nat → List Nat) (hq : ∀ g, (q g).length ≤ 1) (a : Nat)
    (hc : ∀ i, i + 1 < n → q (a + i) ≠ [] → q (a + i + 1) ≠ []) :
    trimTo n (cat q a n) = cat q (a + 1) (n - 1) := by
  obtain ⟨m, rfl⟩ : ∃ m, n = m + 1 := ⟨n - 1, by omega⟩
  simp only [Nat.add_sub_cancel]
  by_cases h0 : q a = []
  · rw [cat_shift, h0, List.nil_append, trimTo_short]
    have := cat_length q hq (a + 1) m
    omega
  · obtain ⟨hl, _⟩ := cat_full q hq a (m + 1) hc (by omega) h0
    unfold trimTo
    rw [if_neg (by omega), if_pos (by omega), hl, cat_shift]
    have h1 := hq a
    cases hqa : q a with
    | nil => exact absurd hqa h0
    | cons x xs =>
      rw [hqa] at h1
      have : xs = [] := by
        cases xs with
        | nil => rfl
        | cons y ys => simp at h1
      subst this
      have e : m + 1 - (m + 1) + 1 = 1 := by omega
      rw [e]
      rfl

def startOf (n H : Nat) : Nat := if H + 1 > n then H + 1 - n else 1

/-- the quotes of the height window the reload path reads for `H`: heights `[H+1-N, H]` (from 1) -/
def window (P : Params) (db : DB) (H : Nat) (t : Ticker) : List Nat :=
  cat (fun g => quoteAt P db g t) (startOf P.avgPeriod H) (H + 1 - startOf P.avgPeriod H)

/-- the window of `H` has no hole for ticker `t`: inside it a quoted height is never followed by an
    unquoted one (only asked of full windows, `H ≥ N`) -/
def NoHole (P : Params) (db : DB) (H : Nat) (t : Ticker) : Prop :=
  P.avgPeriod ≤ H → ∀ i, i + 1 < P.avgPeriod →
    quoteAt P db (H + 1 - P.avgPeriod + i) t ≠ [] → quoteAt P db (H + 1 - P.avgPeriod + i + 1) t ≠ []

/-- **the incremental step lands on the next window** when the current one has no hole -/
theorem incremental_is_window (P : Params) (hp : 0 < P.avgPeriod) (db : DB) (H : Nat) (t : Ticker)
    (hh : NoHole P db H t) :
    trimTo P.avgPeriod (window P db H t) ++ quoteAt P db (H + 1) t = window P db (H + 1) t := by
  unfold window startOf
  by_cases hH : P.avgPeriod ≤ H
  · rw [if_pos (by omega), if_pos (by omega)]
    have e1 : H + 1 - (H + 1 - P.avgPeriod) = P.avgPeriod := by omega
    have e2 : H + 1 + 1 - (H + 1 + 1 - P.avgPeriod) = P.avgPeriod := by omega
    rw [e1, e2, trim_window P.avgPeriod hp _ (fun g => quoteAt_length P db g t) _ (hh hH)]
    obtain ⟨m, hm⟩ : ∃ m, P.avgPeriod = m + 1 := ⟨P.avgPeriod - 1, by omega⟩
    rw [hm, Nat.add_sub_cancel]
    have e3 : H + 1 + 1 - (m + 1) = H + 1 - (m + 1) + 1 := by omega
    rw [e3, cat]
    congr 2
    omega
  · rw [if_neg (by omega)]
    have hlen := cat_length (fun g => quoteAt P db g t) (fun g => quoteAt_length P db g t) 1 (H + 1 - 1)
    rw [trimTo_short (by omega)]
    by_cases hH1 : H + 1 + 1 > P.avgPeriod
    · rw [if_pos hH1]
      have e : H + 1 + 1 - P.avgPeriod = 1 := by omega
      rw [e]
      have e3 : H + 1 + 1 - 1 = (H + 1 - 1) + 1 := by omega
      rw [e3, cat]
      congr 2
      omega
    · rw [if_neg hH1]
      have e3 : H + 1 + 1 - 1 = (H + 1 - 1) + 1 := by omega
      rw [e3, cat]
      congr 2
      omega

/-! ### the cache -/

/-- the cache holds, for every ticker, the quotes of the height window of its height -/
def CacheSem (P : Params) (db : DB) (c : AvgCache) : Prop := ∀ t, series c.data t = window P db c.height t

theorem cacheSem_empty (P : Params) (db : DB) : CacheSem P db {} := by
  intro t
  unfold window startOf
  by_cases h : 0 + 1 > P.avgPeriod
  · rw [if_pos h]
    have : 0 + 1 - (0 + 1 - P.avgPeriod) = 0 := by omega
    rw [this]; rfl
  · rw [if_neg h]; rfl

theorem series_fold_collect (P : Params) (db : DB) (start : Nat) (t : Ticker) (is : List Nat) :
    ∀ d0 : List (Ticker × List Nat),
      series (is.foldl (fun acc i => collectAt P db acc (start + i)) d0) t
        = is.foldl (fun l i => trimTo P.avgPeriod l ++ quoteAt P db (start + i) t) (series d0 t) := by
  induction is with
  | nil => intro d0; rfl
  | cons i is ih =>
    intro d0
    simp only [List.foldl_cons]
    rw [ih, collectAt_series]

theorem series_emptied (d : List (Ticker × List Nat)) (t : Ticker) :
    series (d.map (fun p => (p.1, ([] : List Nat)))) t = [] := by
  unfold series dataGet
  rw [List.find?_map]
  cases d.find? ((fun x : Ticker × List Nat => x.1 == t) ∘ fun p : Ticker × List Nat => (p.1, ([] : List Nat))) <;> simp

/-- **`GetPegNetRateAverages` keeps the cache on the window**: the cached answer, the reload and —
    when the window it starts from has no hole — the incremental step all leave, for every ticker,
    the quotes of the height window of the height asked for -/
theorem getAverages_sem (P : Params) (hp : 0 < P.avgPeriod) (db : DB) (c : AvgCache) (height : Nat)
    (hc : CacheSem P db c) (hh : c.height + 1 = height → ∀ t, NoHole P db c.height t) :
    CacheSem P db (getAverages P db c height).1 ∧ (getAverages P db c height).1.height = height := by
  unfold getAverages
  split
  · rename_i e
    exact ⟨hc, e⟩
  · rename_i hne
    refine ⟨?_, rfl⟩
    intro t
    dsimp only
    split
    · -- reload
      rw [series_fold_collect, series_emptied]
      have hs : (if (if height + 1 > P.avgPeriod then height + 1 - P.avgPeriod else 1) < 1 then 1
          else (if height + 1 > P.avgPeriod then height + 1 - P.avgPeriod else 1)) = startOf P.avgPeriod height := by
        unfold startOf
        split <;> (split <;> omega)
      rw [hs, reload_fold P.avgPeriod _ (fun g => quoteAt_length P db g t)]
      · rfl
      · unfold startOf; split <;> omega
    · -- incremental
      rename_i hcase
      have e : c.height + 1 = height := by omega
      rw [collectAt_series, hc t, ← e]
      exact incremental_is_window P hp db c.height t (hh e t)

end Pegnet
