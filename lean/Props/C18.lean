import Proofs.Chain
import Pegnet.Generated.Facts
/-
  C18 — API isolation. Lean decides this at CALL GRANULARITY: every API handler call and every
  block application is one atomic step of the model. Goroutine interleavings INSIDE a call (the
  data race on the unsynchronised cache maps) cannot be exhibited by a sequential model; the
  `api` scenario runs the real daemon under the race detector for that part (support, not proof).
-/
namespace Pegnet.C18
open Pegnet

/-- the one API-visible operation that mutates node state: `GetPegNetRateAverages(h)` called
    by the rich-list / global handlers with an arbitrary height -/
def apiGetAverages (P : Params) (n : Node) (h : Nat) : Node × TMap :=
  let (c, a) := getAverages P n.db n.cache h
  ({ n with cache := c }, a)

/-- Serving API requests never changes the committed ledger (handlers have no write path:
    see `no_pool_writes`), at any interleaving of calls with blocks. -/
theorem api_call_keeps_database (P : Params) (n : Node) (h : Nat) : (apiGetAverages P n h).1.db = n.db := rfl

/-- the averages a handler gets are a function of the committed database and the cache -/
theorem api_sees_committed_only (P : Params) (n₁ n₂ : Node) (h : Nat)
    (hdb : n₁.db = n₂.db) (hc : n₁.cache = n₂.cache) : (apiGetAverages P n₁ h).2 = (apiGetAverages P n₂ h).2 := by
  unfold apiGetAverages; rw [hdb, hc]

/-- …but an API call DOES disturb later sync results: it moves the shared cache, so the next
    block's conversion pricing can differ from an undisturbed run (same witness as C09: a handler
    asking for an old height forces the reload path). -/
def wP : Params :=
  { act := ⟨0,0,0,0,0,0,0,0,0,0,0,0,0,0,0,0,0⟩, tickerMax := 63, tickerNames := ["PEG", "pUSD"], oneWaySet := [],
    snapshotRate := 144, perBlockHolders := 0, perBlockDevs := 0, bankBase := 0, avgPeriod := 8, avgRequired := 4,
    syncVersion := 2, devs := [], «mint» := [], burnAddr := "b", oldBurnAddr := "o", mintAddr := "m", coinbaseAddr := "c", zeroAddr := "0" }
def wDB : DB :=
  { rates := ((List.range 20).map (· + 1)).filterMap fun h =>
      if h = 10 then none else some { height := h, token := "pUSD", value := 100 * h } }
def continuous (upto : Nat) : AvgCache :=
  ((List.range upto).map (· + 1)).foldl (fun c h => (getAverages wP wDB c h).1) {}

theorem api_poke_changes_pricing_input :
    let undisturbed : Node := { db := wDB, cache := continuous 13 }
    let poked := (apiGetAverages wP undisturbed 3).1          -- a handler asked for height 3
    (getAverages wP wDB undisturbed.cache 14).2.get 2 = 1000 ∧ (getAverages wP wDB poked.cache 14).2.get 2 = 1057 := by
  decide

/-- Regenerated: no SQL write goes through the connection pool, and the places that touch the
    shared in-memory node state (cache fields, sync height) from the API package and from the
    sync loop are exactly the known ones — a new shared field or a new handler touching it breaks
    this obligation. -/
theorem shared_state_sites :
    Generated.poolWrites = [] ∧
    Generated.apiSharedState =
      ["srv/methods.go:getBank:srv:Synced", "srv/methods.go:getMiningDominance:srv:Synced",
       "srv/methods.go:getMiningDominance:srv:Synced", "srv/methods.go:getMiningDominance:srv:Synced",
       "srv/methods.go:getGlobalRichList:srv:call:GetCurrentSync", "srv/methods.go:getGlobalRichList:srv:call:GetPegNetRateAverages",
       "srv/methods.go:getRichList:srv:call:GetCurrentSync", "srv/methods.go:getRichList:srv:call:GetPegNetRateAverages",
       "srv/methods.go:getPegnetRates:srv:Synced", "srv/methods.go:getSyncStatus:srv:call:GetCurrentSync",
       "srv/methods.go:getSyncStatus:srv:call:GetCurrentSync", "srv/methods.go:getGraded:srv:Synced"] ∧
    Generated.goStatements =
      ["cmd/root.go:always:cmd:go:func() {", "node/sync.go:multiFetch:node:go:func() {",
       "srv/srv.go:Start:srv:go:func() {", "srv/srv.go:Start:srv:go:func() {"] := by
  decide

end Pegnet.C18

#print axioms Pegnet.C18.api_call_keeps_database
#print axioms Pegnet.C18.api_sees_committed_only
#print axioms Pegnet.C18.api_poke_changes_pricing_input
#print axioms Pegnet.C18.shared_state_sites
