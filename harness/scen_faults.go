package main

// C10: fault transparency. For a reference chain, every block of interest is re-applied on a
// copy of the database taken just before it, with exactly one injected fault: the k-th upstream
// request of that block fails once, or the n-th SQL statement of that block fails once. The
// daemon's own retry logic then has to reach the same ledger as the fault-free run.

import (
	"fmt"
	"io"
	"strings"
	"math/rand"
	"os"
	"path/filepath"

	"github.com/Factom-Asset-Tokens/factom"
	"github.com/pegnet/pegnetd/fat/fat2"
	"github.com/pegnet/pegnetd/node"
	"github.com/pegnet/pegnetd/node/pegnet"
)

func faultActs() Acts {
	return Acts{Pegnet: 0, GradingV2: 2, TxConv: 3, PegPricing: 4, OneWayFCT: 6, ConvLimit: 8, PegFloat: 8, RCDE: 12, V4: 12,
		V20: 16, DevRewards: 144, SprSig: 144, OneWaySmall: 150, V202: 150, V204: 154, V204Burn: 158, PIP10: 20}
}

func copyFile(src, dst string) error {
	in, err := os.Open(src)
	if err != nil {
		return err
	}
	defer in.Close()
	out, err := os.Create(dst)
	if err != nil {
		return err
	}
	defer out.Close()
	_, err = io.Copy(out, in)
	return err
}

type faultRef struct {
	S      Setup
	Chain  map[uint32]*BlockSpec
	Dumps  map[uint32][]string
	Snaps  map[uint32]string // database file as of the end of height h
	Reqs   map[uint32]int
	Tip    uint32
	All    []*BlockSpec
}

func buildFaultReference(rep *Report, s Setup, g *Gen, dir string, tip uint32, rich func(h uint32) bool) (*faultRef, bool) {
	run, err := NewRun(s)
	if err != nil {
		rep.Note("infrastructure: %v", err)
		return nil, false
	}
	defer run.Close()
	run.FullEvery = 1 // keep full dumps
	w := &World{G: g, Run: run, S: s, Rep: rep}
	defer func() {
		if w.ro != nil {
			w.ro.Close()
		}
	}()
	ref := &faultRef{S: s, Chain: map[uint32]*BlockSpec{}, Dumps: map[uint32][]string{}, Snaps: map[uint32]string{}, Reqs: map[uint32]int{}, Tip: tip}
	oldBurn, _ := factom.NewFAAddress(node.GlobalOldBurnAddress)
	newBurn, _ := factom.NewFAAddress(node.GlobalBurnAddress)
	for h := uint32(1); h <= tip; h++ {
		var b *BlockSpec
		if rich(h) {
			b = w.BuildBlock(h)
			// make sure the special addresses hold something to zero
			if h > s.Acts.TxConv+2 && h < s.Acts.DevRewards && h%3 == 0 {
				u := g.Users[int(h)%len(g.Users)]
				for _, t := range w.NonZeroAssets(u.FA()) {
					if bal := w.Balance(u.FA(), t); bal > 10 {
						dst := oldBurn
						if h%2 == 0 {
							dst = newBurn
						}
						b.TX = append(b.TX, g.Batch(h, u, []fat2.Transaction{Transfer(u.FA(), t, fat2.AddressAmountTuple{Address: dst, Amount: bal / 10})}))
						break
					}
				}
			}
		} else {
			b = &BlockSpec{Height: h, Time: BlockTime(h)}
			// keep the chain graded so that snapshot heights have rates
			b.OPR = g.OPRSet(h, OPRVersionAt(s.Acts, h), w.LastShortHashes(h), 25, g.Rates, nil)
		}
		run.Fake.ResetCounters()
		res := run.Step(b)
		rep.Traces++
		if res.Diff != "" {
			path := WriteReplay(rep.Property, "faults-ref", Replay{Property: rep.Property, Scenario: "faults", Seed: g.Seed, Setup: s,
				What: fmt.Sprintf("model and implementation disagree at height %d", h), Detail: []string{res.Diff, res.ImplMsg, res.ModelAns}, Blocks: ChainJSON(run.Chain)})
			rep.Disagree("lockstep:"+eraOf(s.Acts, h), res.Diff, path)
			return nil, false
		}
		if !res.ImplOK {
			run.RecoverFrom(res)
			run.Chain = run.Chain[:len(run.Chain)-1]
			b = &BlockSpec{Height: h, Time: BlockTime(h)}
			run.Fake.ResetCounters()
			res = run.Step(b)
			if !res.ImplOK || res.Diff != "" {
				path := WriteReplay(rep.Property, "faults-ref", Replay{Property: rep.Property, Scenario: "faults", Seed: g.Seed, Setup: s,
					What: fmt.Sprintf("reference chain cannot pass height %d even with an empty block", h), Detail: []string{res.Diff, res.ImplMsg, res.ModelAns}})
				rep.Disagree("reference:stuck:"+res.ImplClass, fmt.Sprintf("h=%d %s %s", h, res.Diff, res.ImplMsg), path)
				return nil, false
			}
		}
		ref.Chain[h] = b
		ref.Dumps[h] = res.Dump
		ref.Reqs[h] = run.Fake.RequestsFor(h)
		snap := filepath.Join(dir, fmt.Sprintf("snap-%d.db", h))
		if err := copyFile(run.D.DBPath, snap); err != nil {
			rep.Note("infrastructure: %v", err)
			return nil, false
		}
		ref.Snaps[h] = snap
	}
	ref.All = run.Chain
	return ref, true
}

// runFromSnapshot opens a daemon on a copy of the database as of height h-1, installs the
// blocks h..upto and applies the given fault plan while syncing; returns the dump at `upto`.
func runFromSnapshot(ref *faultRef, dir string, h, upto uint32, upstreamFail string, stmtFail int) ([]string, string, []StmtLog, error) {
	wd, err := os.MkdirTemp(dir, "f")
	if err != nil {
		return nil, "", nil, err
	}
	defer os.RemoveAll(wd)
	if err := copyFile(ref.Snaps[h-1], filepath.Join(wd, "sql.db.v4")); err != nil {
		return nil, "", nil, err
	}
	fake := NewFakeFactom()
	for x := h; x <= upto; x++ {
		b := ref.Chain[x]
		fake.Install(&BlockSpec{Height: b.Height, Time: b.Time, OPR: b.OPR, SPR: b.SPR, TX: b.TX, FCT: b.FCT})
	}
	d, err := OpenDaemon(wd, fake)
	if err != nil {
		return nil, "", nil, err
	}
	fake.SetTip(h - 1)
	Wrap.Reset()
	Wrap.Record = upstreamFail == "" && stmtFail == 0
	if upstreamFail != "" {
		fake.FailAt[upstreamFail] = true
	}
	if stmtFail > 0 {
		Wrap.FailAt[stmtFail] = true
	} else if stmtFail < 0 {
		// the query itself succeeds, fetching its first row fails once
		Wrap.FailRowsAt[-stmtFail] = true
	}
	d.Start()
	synced, msg := d.StepTo(upto)
	nst := append([]StmtLog{}, Wrap.Log...)
	Wrap.Record = false
	if synced < int64(upto) {
		// give the retry loop one more round (a fault consumes one attempt)
		synced, msg = d.StepTo(upto)
	}
	d.Stop()
	Wrap.Reset()
	dump, derr := DumpDB(filepath.Join(wd, "sql.db.v4"))
	if derr != nil {
		return nil, msg, nst, derr
	}
	if synced < int64(upto) {
		return dump, "stuck: " + msg, nst, nil
	}
	return dump, "", nst, nil
}

func scenFaults(rep *Report, tier string, seed int64) {
	dir := tempDir("verif-faults-")
	defer os.RemoveAll(dir)
	r := rand.New(rand.NewSource(seed))
	g := NewGen(seed, 4, 1)
	s := Setup{Acts: faultActs(), AvgPeriod: 8, SyncVersion: mainnetSyncVersion}
	// the chain runs past the SECOND snapshot height: the first one that pays staking rewards (the
	// rotation at the first has an empty past snapshot, nobody is eligible whatever happens to it)
	snap2 := uint32(2 * pegnet.SnapshotRate)
	tip := snap2 + 2
	rich := func(h uint32) bool { return h <= 26 || (h >= 141 && h <= 152) || h+4 >= snap2 }
	ref, ok := buildFaultReference(rep, s, g, dir, tip, rich)
	if !ok {
		return
	}
	// blocks of interest
	// (the blocks right after the PIP-10 activation execute conversions priced with the rolling
	// averages: the in-memory cache is then a consensus input a failed attempt must not disturb)
	// (the block after the bank-table activation and the last bank-era block execute the PEG
	// requests pending across those boundaries: the bank row is read and written there)
	targets := []uint32{s.Acts.DevRewards, s.Acts.V202, s.Acts.PIP10 + 1, s.Acts.PIP10 + 2, s.Acts.V4 + 1, s.Acts.V20 - 1, snap2}
	pool := []uint32{}
	for h := uint32(5); h <= tip-2; h++ {
		if rich(h) && h != s.Acts.DevRewards && h != s.Acts.V202 && h != s.Acts.PIP10+1 && h != s.Acts.PIP10+2 && h != s.Acts.V4+1 && h != s.Acts.V20-1 && h != snap2 {
			pool = append(pool, h)
		}
	}
	nb := 4
	if tier == "thorough" {
		nb = 10
	}
	for i := 0; i < nb && len(pool) > 0; i++ {
		j := r.Intn(len(pool))
		targets = append(targets, pool[j])
		pool = append(pool[:j], pool[j+1:]...)
	}
	for _, h := range targets {
		upto := h + 2
		if upto > tip {
			upto = tip
		}
		want := dropBackfill(ref.Dumps[upto])
		// fault-free control run from the snapshot (also yields the statement count of block h)
		ctrl, msg, stmts, err := runFromSnapshot(ref, dir, h, upto, "", 0)
		nst := len(stmts)
		if err != nil {
			rep.Note("infrastructure: %v", err)
			return
		}
		if msg != "" {
			rep.Violate("faults:control-stuck", fmt.Sprintf("re-running height %d..%d without faults from the stored database: %s", h, upto, msg), "")
			continue
		}
		if d := FirstDiff(dropBackfill(ctrl), want); d != "" {
			// the fault-free run from the stored database is a RESTARTED run: where it differs from
			// the continuous reference the cause is restart dependence (C09's subject: the averaging
			// cache rebuilt by height window; known finding there), not a fault. The property compares
			// a faulted run with the fault-free run from the same starting point: the control.
			rep.Count("faults:control-differs-from-continuous-run")
			rep.Note("height %d..%d: the fault-free control run from the stored database differs from the continuous reference (restart dependence, C09): %s; faulted runs are compared with the control", h, upto, d)
			want = dropBackfill(ctrl)
		}
		// upstream faults: each request index of block h
		nreq := ref.Reqs[h]
		for k := 1; k <= nreq; k++ {
			if tier != "thorough" && nreq > 12 && k > 6 && k < nreq-2 && r.Intn(4) != 0 {
				continue
			}
			dump, msg, _, err := runFromSnapshot(ref, dir, h, upto, fmt.Sprintf("%d:%d", h, k), 0)
			if err != nil {
				rep.Note("infrastructure: %v", err)
				return
			}
			rep.Case(fmt.Sprintf("upstream|h=%d|k=%d", h, k), true)
			rep.Count("fault:upstream")
			reportFault(rep, s, ref, seed, h, fmt.Sprintf("upstream request %d of height %d", k, h), fmt.Sprintf("upstream:%s:request%d", faultEra(s.Acts, h), k), dump, msg, want)
		}
		// statement faults within the statements issued while syncing h..upto
		step := 1
		if tier != "thorough" && nst > 40 {
			step = nst / 40
		} else if tier == "thorough" && nst > 240 {
			step = nst / 240 // bounded: about ten minutes for the whole tier
		}
		// every distinct call path is hit at least once (its first statement), whatever the stride
		pick := map[int]bool{}
		first := map[int]bool{}
		seenPath := map[string]bool{}
		for n := 1; n <= nst; n++ {
			// (statements of one function that differ in their text are different sites: a function
			// that runs four statements in a row has four places to mishandle an error)
			text := stmts[n-1].SQL
			if len(text) > 28 {
				text = text[:28]
			}
			if pth := stmts[n-1].Path + "|" + stmts[n-1].Kind + "|" + text; !seenPath[pth] {
				seenPath[pth] = true
				pick[n] = true
				first[n] = true
			}
		}
		for n := 1; n <= nst; n += step {
			pick[n] = true
		}
		for n := 1; n <= nst; n++ {
			if !pick[n] {
				continue
			}
			dump, msg, _, err := runFromSnapshot(ref, dir, h, upto, "", n)
			if err != nil {
				rep.Note("infrastructure: %v", err)
				return
			}
			rep.Case(fmt.Sprintf("stmt|h=%d|n=%d", h, n), true)
			rep.Count("fault:statement")
			st := stmts[n-1]
			rep.Count("fault-site:" + st.Path)
			reportFault(rep, s, ref, seed, h, fmt.Sprintf("SQL statement %d (%s %q in %s) while syncing heights %d..%d", n, st.Kind, st.SQL, st.Path, h, upto), "statement:"+shortPath(st.Path), dump, msg, want)
			// a query whose rows cannot be fetched (the lock timeout or I/O error of the first
			// sqlite3_step surfaces at rows.Next, not at Query): once per distinct query site
			if st.Kind == "query" && first[n] {
				dump, msg, _, err := runFromSnapshot(ref, dir, h, upto, "", -n)
				if err != nil {
					rep.Note("infrastructure: %v", err)
					return
				}
				rep.Case(fmt.Sprintf("rows|h=%d|n=%d", h, n), true)
				rep.Count("fault:rows")
				rep.Count("fault-rows-site:" + st.Path)
				reportFault(rep, s, ref, seed, h, fmt.Sprintf("the rows of SQL query %d (%q in %s) failing at the first fetch while syncing heights %d..%d", n, st.SQL, st.Path, h, upto), "rows:"+shortPath(st.Path), dump, msg, want)
			}
		}
		if len(rep.Samples) < 4 {
			rep.Sample(map[string]interface{}{"height": h, "upstream_requests": nreq, "statements": nst})
		}
	}
	rep.Rule = "one evaluation = heights h..h+2 re-synced by the real daemon from the stored pre-block database with one injected fault (k-th upstream request of the block, or n-th SQL statement) and the resulting ledger compared with the fault-free ledger; distinct = distinct (fault kind, height, index)"
}

// shortPath keeps the outermost and innermost function of a call path.
func shortPath(p string) string {
	parts := strings.Split(p, ">")
	// everything under NullifyBurnAddress is one call site: its caller discards the result
	if parts[0] == "NullifyBurnAddress" {
		return parts[0]
	}
	if len(parts) <= 2 {
		return p
	}
	return parts[0] + ">" + parts[len(parts)-1]
}

func faultEra(a Acts, h uint32) string {
	switch h {
	case a.DevRewards:
		return "devRewards-height"
	case a.V202:
		return "v202-height"
	}
	return eraOf(a, h)
}

func reportFault(rep *Report, s Setup, ref *faultRef, seed int64, h uint32, what, sigBase string, dump []string, msg string, want []string) {
	if msg != "" {
		path := WriteReplay(rep.Property, "faults-"+fileSafe(sigBase), Replay{Property: rep.Property, Scenario: "faults", Seed: seed, Setup: s,
			What: "after a single transient failure of " + what + " the daemon does not recover", Detail: []string{msg}, Blocks: ChainJSON(ref.All)})
		effect := "stuck"
		if strings.Contains(msg, "panic:") {
			effect = "crash"
		}
		rep.Violate("faults:"+effect+":"+sigBase, what+": "+msg, path)
		return
	}
	if diff := FirstDiff(dropBackfill(dump), want); diff != "" {
		table := diff
		if i := indexOf(diff, "impl=\""); i >= 0 && len(diff) > i+8 {
			table = diff[i+6 : i+8]
		}
		path := WriteReplay(rep.Property, "faults-"+fileSafe(sigBase), Replay{Property: rep.Property, Scenario: "faults", Seed: seed, Setup: s,
			What: "a single transient failure of " + what + " changed the final ledger", Detail: []string{diff}, Blocks: ChainJSON(ref.All)})
		_ = table
		rep.Violate("faults:ledger-differs:"+sigBase, what+": "+diff, path)
	}
}

func indexOf(s, sub string) int {
	for i := 0; i+len(sub) <= len(s); i++ {
		if s[i:i+len(sub)] == sub {
			return i
		}
	}
	return -1
}

func init() { scenarios["faults"] = scenFaults }

func fileSafe(s string) string {
	out := []byte(s)
	for i, c := range out {
		if !(c >= 'a' && c <= 'z' || c >= 'A' && c <= 'Z' || c >= '0' && c <= '9' || c == '-' || c == '.') {
			out[i] = '_'
		}
	}
	return string(out)
}
