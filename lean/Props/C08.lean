import Proofs.Chain
import Proofs.Liveness
import Proofs.HistOK
import Proofs.LivenessHeld
import Pegnet.Generated.Facts
/-
  C08 — Sync liveness. Two defects found by this check were repaired in /repo (known-findings.jsonl:
  the GradeS panic and the repeated-entry-hash wedge); the theorems below state the repaired
  behaviour. The full statement ("applying ANY block succeeds") still does not hold in the legacy
  eras (bank-era mixed batches, snapshot without rates before 2.0.2) — those shapes are recorded as
  known findings and excluded by the `_partial` statements.
-/
namespace Pegnet.C08
open Pegnet

/-- In the model every function is total: block application always returns (a result or a named
    failure) — there is no divergence. (Lean accepts the definitions only with termination proofs.) -/
theorem block_application_returns (P : Params) (n : Node) (b : Block) :
    ∃ n' r, applyBlock P n b = (n', r) := ⟨_, _, rfl⟩

/-- a panic inside the staking grader library (outside the model: the harness reports it as the
    oracle answer `.panic`) would fail the block at every height — GradeS runs before any era check -/
theorem spr_short_extids_panics (P : Params) (c : DB) (b : Block) (avgs : TMap) (s : DB) (site : String)
    (hs : b.spr = .panic site) (h1 : b.height ≠ P.act.v204) (h2 : b.height ≠ P.act.v204Burn) :
    ∃ s', syncBlock P c b avgs s = .fail (.panic site) s' := by
  unfold syncBlock
  refine ⟨s, ?_⟩
  rw [M.bind_run]
  have : preAdjust P c b.height s = .ok () s := by unfold preAdjust; simp [h1, h2]
  rw [this]
  simp only
  rw [M.bind_run]
  unfold sprPanicCheck
  rw [hs]
  rfl

/-- since the repair (known-findings.jsonl) the staking glue never panics: an entry with fewer than
    two external ids is skipped, it is never handed to the grader -/
theorem spr_glue_total (db : DB) (entries : List (Option Addr)) : (sprPass db entries).isSome = true := rfl

theorem spr_short_entries_skipped (db : DB) (entries : List (Option Addr)) (idx : List Nat) (i : Nat)
    (h : sprPass db entries = some idx) (hi : i ∈ idx) : ∃ a, (entries.zipIdx.any fun p => p.2 == i && p.1 == some a) = true := by
  unfold sprPass at h
  injection h with h
  subst h
  obtain ⟨p, hp, hpi⟩ := List.mem_map.1 hi
  obtain ⟨hmem, hcond⟩ := List.mem_filter.1 hp
  cases hpa : p.1 with
  | none => rw [hpa] at hcond; cases hcond
  | some a => exact ⟨a, List.any_eq_true.2 ⟨p, hmem, by simp [hpi, hpa]⟩⟩

/-- since the repair a repeated entry hash is skipped instead of violating the history tables'
    keys: the same conversion twice in one block is recorded (and held) once -/
def wP : Params :=
  { act := ⟨0,0,0,0,0,0,0,0,0,0,100,100,200,200,300,310,400⟩, tickerMax := 63, tickerNames := ["PEG", "pUSD", "pEUR"], oneWaySet := [],
    snapshotRate := 144, perBlockHolders := 0, perBlockDevs := 0, bankBase := 0, avgPeriod := 8, avgRequired := 4,
    syncVersion := 2, devs := [], «mint» := [], burnAddr := "b", oldBurnAddr := "o", mintAddr := "m", coinbaseAddr := "c", zeroAddr := "0" }
def convEntry : TxEntry :=
  { hash := "e1", ts := 0, validRCD1 := true, validRCDe := true,
    parsed := some (1, [{ inAddr := "alice", inType := 2, inAmount := 5, transfers := [], conversion := 3 }]) }

theorem duplicate_hash_same_block_applies :
    (match applyTransactionBlock wP 5 "k" [convEntry, convEntry] {} with
     | .ok _ s => (s.histB.length, s.holding.length)
     | .fail _ _ => (0, 0)) = (1, 1) := by decide

/-- …and an entry that is still pending and is written again in a later block is skipped too -/
theorem resubmitted_pending_entry_applies :
    (match applyTransactionBlock wP 5 "k" [convEntry] {} with
     | .ok _ s1 =>
        (match applyTransactionBlock wP 6 "k" [convEntry] s1 with
         | .ok _ s2 => (s2.histB.length, s2.holding.length)
         | .fail _ _ => (0, 0))
     | .fail _ _ => (0, 0)) = (1, 1) := by decide

/-- an entry already recorded in the history is skipped entirely, whatever its status -/
theorem recorded_entry_is_skipped (P : Params) (h : Nat) (keymr : String) (bo : Nat) (e : TxEntry) (s : DB)
    (hx : s.isRecorded e.hash = true) : applyTxEntry P h keymr bo e s = .ok () s := by
  unfold applyTxEntry
  rw [M.bind_run]
  simp only [M.get_run, hx, Bool.not_true, Bool.and_false, Bool.false_eq_true, if_false]
  rfl

/-- `block_total_partial`: a block with no tracked-chain content at an ordinary height (no
    one-time event, no snapshot / developer payout) always applies, on any ledger whose version
    table does not yet contain the height. -/
theorem empty_block_total (P : Params) (c s : DB) (b : Block) (avgs : TMap)
    (hopr : b.opr = .absent) (hspr : b.spr = .absent) (htx : b.txs = none) (hf : b.fcts = [])
    (h1 : b.height ≠ P.act.v204) (h2 : b.height ≠ P.act.v204Burn)
    (h3 : ¬ (b.height ≥ P.act.v20 ∧ b.height % P.snapshotRate = 0))
    (h4 : ¬ (b.height ≥ P.act.devRewards ∧ b.height % P.snapshotRate = 0)) :
    syncBlock P c b avgs s = .ok () s := by
  unfold syncBlock
  have hp : preAdjust P c b.height s = .ok () s := by unfold preAdjust; simp [h1, h2]
  have hc : sprPanicCheck b s = .ok () s := by unfold sprPanicCheck; rw [hspr]; rfl
  have hg : gradeAndRates P c b s = .ok (.cont false) s := by
    unfold gradeAndRates
    by_cases hh : b.height < P.act.v20
    · simp [hh, hopr]
    · simp [hh, hopr, hspr, M.bind_run]
  have htxp : txPhase P c b avgs false s = .ok () s := by
    unfold txPhase snapshotPhase holdingPhase txBlockPhase
    by_cases hh : b.height ≥ P.act.txConv
    · simp [hh, h3, htx, M.bind_run]
    · simp [hh]
  have hrw : rewardPhase P b s = .ok () s := by
    unfold rewardPhase oprRewardPhase sprRewardPhase devRewardPhase applyFactoidBlock
    simp [hopr, hspr, hf, h4, M.bind_run, M.forEach]
    by_cases hh : b.height < P.act.v20 <;> by_cases hh2 : P.act.v20 ≤ b.height <;> simp [hh, hh2, M.bind_run]
  rw [M.bind_run, hp]
  simp only
  rw [M.bind_run, hc]
  simp only
  rw [M.bind_run, hg]
  simp only
  rw [M.bind_run, htxp]
  simp only
  exact hrw

/-! ### "bad entries are skipped, not fatal" -/

/-- **An entry that does not validate is skipped entirely**: undecodable content, a version or
    shape `ValidData` refuses, a missing / wrong / foreign signature, a salt outside its window, an
    amount above int64 — `applyTxEntry` writes nothing and the block goes on. -/
theorem invalid_entry_is_skipped (P : Params) (h : Nat) (keymr : String) (bo : Nat) (e : TxEntry) (s : DB)
    (hv : e.validAt P h = false) : applyTxEntry P h keymr bo e s = .ok () s := by
  unfold applyTxEntry
  rw [M.bind_run]
  simp only [M.get_run, hv, Bool.false_and, Bool.false_eq_true, if_false]
  rfl

/-- … so a transaction-chain entry block in which NOTHING validates (any number of entries, any
    content) leaves the ledger exactly as it was and never fails the block -/
theorem all_invalid_entries_are_a_noop (P : Params) (h : Nat) (keymr : String) (es : List TxEntry) (s : DB)
    (hv : ∀ e ∈ es, e.validAt P h = false) : applyTransactionBlock P h keymr es s = .ok () s := by
  unfold applyTransactionBlock M.forEachIdx
  suffices hk : ∀ (k : Nat), M.forEach (es.zipIdx k) (fun p => applyTxEntry P h keymr p.2 p.1) s = .ok () s from hk 0
  induction es with
  | nil => intro k; rfl
  | cons e rest ih =>
    intro k
    simp only [List.zipIdx_cons, M.forEach]
    show (applyTxEntry P h keymr k e >>= fun _ => M.forEach (rest.zipIdx (k + 1)) (fun p => applyTxEntry P h keymr p.2 p.1)) s = .ok () s
    rw [M.bind_run, invalid_entry_is_skipped P h keymr k e s (hv e List.mem_cons_self)]
    exact ih (fun e' he' => hv e' (List.mem_cons_of_mem _ he')) (k + 1)

/-- a held batch that no longer validates when its window is processed is given the reject status
    −2 and does not stop the block -/
theorem invalid_held_entry_is_rejected_not_fatal (P : Params) (h : Nat) (rates avgs : TMap) (e : TxEntry) (s : DB)
    (hv : e.validAt P h = false) :
    ∃ s', applyHeld P h rates avgs e s = .ok false s' ∧ s'.addrs = s.addrs := by
  unfold applyHeld
  rw [M.bind_run]
  simp only [M.get_run, hv, Bool.not_false, Bool.or_true, if_true]
  refine ⟨_, rfl, rfl⟩

/-! ### liveness for the transfer class -/

/-- **No transfer-only entry can fail the block** (`block_total_partial`, transaction chain):
    whatever a validly signed transfer-only entry contains — any number of transactions and outputs,
    change outputs, amounts at / above / far above the balance — its step of `ApplyTransactionBlock`
    succeeds: the arrival is recorded, then the batch is applied or rejected for lack of funds.
    Hypotheses: `hplain` is what the decoder and `Validate` guarantee for every accepted batch (known
    asset, amounts within int64, outputs within the input); `hb`: the sender is not the burn address
    (nobody holds its key); `hfresh`: no history row of this entry hash exists yet (an entry that is
    recorded is skipped: `recorded_entry_is_skipped`). Conversions are the other class: their
    failure modes are the recorded findings of this property. -/
theorem transfer_entry_never_fails (P : Params) (h : Nat) (keymr : String) (bo : Nat) (e : TxEntry) (s : DB)
    (a : Addr) (hb : a ≠ burnAddrAt P h) (hall : ∀ t ∈ e.txs, t.inAddr = a) (hplain : ∀ t ∈ e.txs, PlainTransfer P t)
    (hfresh : ∀ r ∈ s.histT, r.hash ≠ e.hash) :
    ∃ s', applyTxEntry P h keymr bo e s = .ok () s' :=
  Pegnet.transfer_entry_never_fails P h keymr bo e s a hb hall hplain hfresh

/-- the batch level of the same: applied or rejected, never a block-failing error -/
theorem transfer_batch_applied_or_rejected (P : Params) (h : Nat) (e : TxEntry) (rates avgs : Option TMap) (s : DB)
    (a : Addr) (hb : a ≠ burnAddrAt P h) (hall : ∀ t ∈ e.txs, t.inAddr = a) (hplain : ∀ t ∈ e.txs, PlainTransfer P t) :
    ∃ v s', applyBatch P h e rates avgs s = .ok v s' ∧ (v = .apply ∨ v = .reject (-1)) :=
  applyBatch_transfers_total P h e rates avgs s a hb hall hplain

/-- the arrival of an entry WITH conversions never fails the block either: recorded, then held -/
theorem conversion_entry_arrival_never_fails (P : Params) (h : Nat) (keymr : String) (bo : Nat) (e : TxEntry) (s : DB)
    (hconv : e.hasConversions P = true) (hfresh : ∀ r ∈ s.histT, r.hash ≠ e.hash)
    (hhold : ∀ r ∈ s.holding, r.entry.hash ≠ e.hash) :
    ∃ s', applyTxEntry P h keymr bo e s = .ok () s' :=
  Pegnet.conversion_entry_arrival_never_fails P h keymr bo e s hconv hfresh hhold

/-! ### on every reachable ledger -/

/-- the history and holding tables are consistent along every chain: every row of
    `pn_history_transaction` and every held entry belongs to a recorded batch (so an entry that is not
    recorded has neither a history row nor a holding row yet) -/
theorem history_consistent_along_every_chain (P : Params) (chain : List Block) :
    HistHoldOK (runBlocks P (freshNode P) chain).db :=
  runBlocks_histHoldOK P _ chain (histHoldOK_fresh P)

/-- **After any chain, no entry block of the transaction chain can fail on arrival.** Every entry is
    of one of three kinds: it does not validate (skipped); it holds a conversion (recorded and put in
    holding); or it is transfer-only — then, with what the decoder guarantees (`PlainTransfer`) and a
    sender other than the burn address, it is recorded and applied or rejected for lack of funds.
    `HarmlessEntry` is that trichotomy with the side conditions of the third case; the freshness
    hypotheses of `transfer_entry_never_fails` / `conversion_entry_arrival_never_fails` are discharged
    by the invariant. -/
theorem harmless_tx_block_never_fails_after_any_chain (P : Params) (chain : List Block) (h : Nat) (keymr : String)
    (es : List TxEntry) (he : ∀ e ∈ es, HarmlessEntry P h e) :
    ∃ s', applyTransactionBlock P h keymr es (runBlocks P (freshNode P) chain).db = .ok () s' := by
  obtain ⟨s', h', _⟩ := harmless_tx_block_never_fails P h keymr es _ (history_consistent_along_every_chain P chain) he
  exact ⟨s', h'⟩

/-- the trichotomy: an entry whose transfer-only case meets the side conditions is harmless -/
theorem every_entry_is_harmless (P : Params) (h : Nat) (e : TxEntry)
    (hside : e.validAt P h = true → e.hasConversions P = false →
      ∃ a, a ≠ burnAddrAt P h ∧ (∀ t ∈ e.txs, t.inAddr = a) ∧ ∀ t ∈ e.txs, PlainTransfer P t) :
    HarmlessEntry P h e := by
  cases hv : e.validAt P h with
  | false => exact Or.inl hv
  | true =>
    cases hc : e.hasConversions P with
    | true => exact Or.inr (Or.inl hc)
    | false => exact Or.inr (Or.inr (hside hv hc))

/-! ### liveness of the execution of held batches -/

/-- **Executing a held batch never fails the block**, whatever it holds — transfers, ordinary
    conversions, PEG requests, mixed — funded or not, still valid at this height or not, on any
    ledger: with the block's rates at hand (`hr`: the block is rated) the batch is applied, rejected
    with a status (−1 funds, −2 invalid, −3 pFCT, −4 zero rate, −5 small assets), dropped (conversion
    not computable), or skipped as a replay. (`hplain`: known asset and int64 amounts, from the
    decoder; `hb`: the sender is not the burn address.) What CAN fail a bank-era block is the bank
    pass that follows (`recordPegnetRequests` on a batch mixing a transfer with a PEG request): the
    recorded finding of this property. -/
theorem held_batch_execution_never_fails (P : Params) (h : Nat) (rates avgs : TMap) (hr : rates.isEmpty = false)
    (e : TxEntry) (s : DB) (a : Addr) (hb : a ≠ burnAddrAt P h) (hall : ∀ t ∈ e.txs, t.inAddr = a)
    (hplain : ∀ t ∈ e.txs, PlainTx P t) :
    ∃ j s', applyHeld P h rates avgs e s = .ok j s' :=
  applyHeld_total P h rates avgs hr e s a hb hall hplain

/-- the batch level: with rates, `applyTransactionBatch` returns a verdict, never a block-failing error -/
theorem batch_with_rates_never_fails (P : Params) (h : Nat) (e : TxEntry) (r : TMap) (hr : r.isEmpty = false)
    (avgs : Option TMap) (s : DB) (a : Addr) (hb : a ≠ burnAddrAt P h) (hall : ∀ t ∈ e.txs, t.inAddr = a)
    (hplain : ∀ t ∈ e.txs, PlainTx P t) :
    ∃ v s', applyBatch P h e (some r) avgs s = .ok v s' :=
  applyBatch_total P h e r hr avgs s a hb hall hplain

/-- non-vacuity: an ordinary conversion meets `PlainTx` -/
example : PlainTx wP { inAddr := "alice", inType := 2, inAmount := 100, transfers := [], conversion := 3 } :=
  ⟨by decide, by decide, by decide, by decide⟩

/-- non-vacuity: a two-output transfer with change meets `PlainTransfer` -/
example : PlainTransfer wP { inAddr := "alice", inType := 2, inAmount := 100, transfers := [⟨"bob", 70⟩, ⟨"alice", 30⟩], conversion := 0 } :=
  ⟨by decide, by decide, by decide, by decide, by decide⟩

end Pegnet.C08

#print axioms Pegnet.C08.block_application_returns
#print axioms Pegnet.C08.spr_short_extids_panics
#print axioms Pegnet.C08.spr_glue_total
#print axioms Pegnet.C08.spr_short_entries_skipped
#print axioms Pegnet.C08.duplicate_hash_same_block_applies
#print axioms Pegnet.C08.resubmitted_pending_entry_applies
#print axioms Pegnet.C08.recorded_entry_is_skipped
#print axioms Pegnet.C08.empty_block_total
#print axioms Pegnet.C08.invalid_entry_is_skipped
#print axioms Pegnet.C08.all_invalid_entries_are_a_noop
#print axioms Pegnet.C08.invalid_held_entry_is_rejected_not_fatal
#print axioms Pegnet.C08.transfer_entry_never_fails
#print axioms Pegnet.C08.transfer_batch_applied_or_rejected
#print axioms Pegnet.C08.conversion_entry_arrival_never_fails
#print axioms Pegnet.C08.history_consistent_along_every_chain
#print axioms Pegnet.C08.harmless_tx_block_never_fails_after_any_chain
#print axioms Pegnet.C08.held_batch_execution_never_fails
#print axioms Pegnet.C08.batch_with_rates_never_fails
#print axioms Pegnet.C08.every_entry_is_harmless
