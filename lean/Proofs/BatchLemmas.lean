import Proofs.Balances
/-
  Facts about applyTransactionBatch's verdict and its effect on the state.
-/
namespace Pegnet

theorem pass1_none_funded {P : Params} {h : Nat} {bal : Ticker → Int} {rates avgs : Option TMap} {txs : List Tx}
    (hp : pass1 P h bal rates avgs txs = none) : ∀ t ∈ txs, (t.inAmount : Int) ≤ bal t.inType := by
  induction txs with
  | nil => intro t ht; cases ht
  | cons x xs ih =>
    unfold pass1 at hp
    cases hx : pass1Tx P h bal rates avgs x with
    | some v => rw [hx] at hp; cases hp
    | none =>
      rw [hx] at hp
      intro t ht
      rcases List.mem_cons.1 ht with e | e
      · subst e
        unfold pass1Tx at hx
        by_cases hgt : (t.inAmount : Int) > bal t.inType
        · rw [if_pos hgt] at hx; cases hx
        · omega
      · exact ih hp t e

theorem pass1Tx_ne_apply (P : Params) (h : Nat) (bal : Ticker → Int) (rates avgs : Option TMap) (t : Tx) :
    pass1Tx P h bal rates avgs t ≠ some .apply := by
  unfold pass1Tx
  split
  · simp
  · split
    · split
      · simp
      · split
        · simp
        · split
          · simp
          · split
            · simp
            · split
              · simp
              · dsimp only
                split <;> simp
    · simp

theorem pass1_ne_apply (P : Params) (h : Nat) (bal : Ticker → Int) (rates avgs : Option TMap) (l : List Tx) :
    pass1 P h bal rates avgs l ≠ some .apply := by
  induction l with
  | nil => simp [pass1]
  | cons x xs ih =>
    unfold pass1
    cases hx : pass1Tx P h bal rates avgs x with
    | none => simpa using ih
    | some w =>
      simp only
      intro hw
      injection hw with hw
      subst hw
      exact pass1Tx_ne_apply P h bal rates avgs x hx

/-- an accepted batch passed the per-transaction funds check against the pre-batch balance -/
theorem verdict_apply_funded {P : Params} {db : DB} {h : Nat} {rates avgs : Option TMap} {t0 : Tx} {rest : List Tx}
    (hv : verdict P db h rates avgs (t0 :: rest) = .apply) :
    ∀ t ∈ t0 :: rest, (t.inAmount : Int) ≤ db.bal t0.inAddr t.inType := by
  unfold verdict at hv
  simp only at hv
  cases hp : pass1 P h (db.balances t0.inAddr) rates avgs (t0 :: rest) with
  | some v =>
    rw [hp] at hv; simp only at hv; subst hv
    exact absurd hp (pass1_ne_apply P h _ rates avgs _)
  | none => exact pass1_none_funded hp

/-- a batch that is not applied (rejected, or silently dropped) changes nothing -/
theorem applyBatch_noop {P : Params} {h : Nat} {e : TxEntry} {rates avgs : Option TMap} {s s' : DB} {v : Verdict}
    (hr : applyBatch P h e rates avgs s = .ok v s') (hv : v ≠ .apply) : s' = s := by
  unfold applyBatch at hr
  rw [M.bind_run] at hr
  simp only [M.get_run] at hr
  cases hver : verdict P s h rates avgs e.txs with
  | apply =>
    rw [hver] at hr
    simp only [M.bind_run, logExec, M.guarded] at hr
    cases hrec : recordBatch P h e.hash rates avgs e.txs { s with execLog := s.execLog ++ [e.hash] } with
    | ok u s2 => rw [hrec] at hr; simp only [M.pure_run] at hr; injection hr with hv' _; exact absurd hv'.symm hv
    | fail f s2 => rw [hrec] at hr; cases hr
  | reject c => rw [hver] at hr; simp only [M.pure_run] at hr; injection hr with _ hs; exact hs.symm
  | dropped => rw [hver] at hr; simp only [M.pure_run] at hr; injection hr with _ hs; exact hs.symm
  | failBlock f => rw [hver] at hr; simp only [M.throw_run] at hr; cases hr

end Pegnet

namespace Pegnet

theorem insertRelation_marks (hash : Hash) (a : Addr) (i : Nat) (t c : Bool) (s : DB) :
    ∃ s', insertRelation hash a i t c s = .ok () s' ∧ s'.isReplay hash = true := by
  unfold insertRelation M.guarded
  simp only
  by_cases hex : s.rels.any (fun r => r.hash == hash && r.addr == a) = true
  · refine ⟨s, by simp [hex], ?_⟩
    unfold DB.isReplay
    rw [List.any_eq_true] at hex ⊢
    obtain ⟨r, hr, hc⟩ := hex
    exact ⟨r, hr, by simp at hc; simp [hc.1]⟩
  · refine ⟨{ s with rels := s.rels ++ [{ hash := hash, addr := a, txIndex := i, to := t || c, conv := c }] }, by simp [hex], ?_⟩
    unfold DB.isReplay
    simp

/-- executing one transaction of a batch leaves the entry marked as executed (a relation row
    for its hash exists), which is what `IsReplayTransaction` consults -/
theorem recordTx_marks {P : Params} {h : Nat} {hash : Hash} {rates avgs : Option TMap} {idx : Nat} {t : Tx} {s s' : DB}
    (hr : recordTx P h hash rates avgs idx t s = .ok () s') : s'.isReplay hash = true := by
  unfold recordTx at hr
  obtain ⟨ok1, s1, _, hr⟩ := M.bind_ok hr
  by_cases hok : (!ok1) = true
  · rw [if_pos hok] at hr; cases hr
  · rw [if_neg hok] at hr
    obtain ⟨_, s2, hi, hr⟩ := M.bind_ok hr
    obtain ⟨s2', hi', hmark⟩ := insertRelation_marks hash t.inAddr idx false (t.isConversion P) s1
    rw [hi'] at hi
    injection hi with _ hs2
    subst hs2
    obtain ⟨_, s3, hse, hr⟩ := M.bind_ok hr
    have ok := primsOK_relsGrow P h
    have h1 : relsGrow.r s2' s3 := (PrimsOK.setExecuted ok hash (h : Int)).ok hse
    have h2 : relsGrow.r s3 s' := (recordOutputs_step ok hash rates avgs idx t).ok hr
    exact h2 hash (h1 hash hmark)

/-- a batch that was applied is marked: it will be recognised as a replay from then on -/
theorem recordBatch_marks {P : Params} {h : Nat} {hash : Hash} {rates avgs : Option TMap} {t0 : Tx} {rest : List Tx} {s s' : DB}
    (hr : recordBatch P h hash rates avgs (t0 :: rest) s = .ok () s') : s'.isReplay hash = true := by
  unfold recordBatch M.forEachIdx at hr
  simp only [List.zipIdx_cons] at hr
  unfold M.forEach at hr
  obtain ⟨_, s1, h0, hr⟩ := M.bind_ok (m := recordTx P h hash rates avgs 0 t0) hr
  have hm := recordTx_marks h0
  have ok := primsOK_relsGrow P h
  have c1 := recordTx_step ok hash rates avgs
  have st : Step relsGrow (M.forEach (rest.zipIdx 1) (fun p => recordTx P h hash rates avgs p.2 p.1)) := by
    step_tac
  exact (st.ok hr) hash hm

end Pegnet
