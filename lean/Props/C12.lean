import Proofs.Chain
import Proofs.Rates
import Pegnet.Generated.Facts
/-
  C12 — Recorded rates follow the winning records and are immutable.
-/
namespace Pegnet.C12
open Pegnet

/-- Rates once recorded for a height never change: replaying any further blocks (of other
    heights — a healthy Factom node serves each height once) leaves the rows of height `g`
    exactly as they were. For every chain, every block content, every oracle answer. -/
theorem rates_immutable (P : Params) (n : Node) (chain : List Block) (g : Nat)
    (hg : ∀ b ∈ chain, g ≠ b.height) :
    (runBlocks P n chain).db.ratesAt g = n.db.ratesAt g :=
  runBlocks_ratesAt P n chain g hg

/-- a single block (applied or rolled back) never touches rate rows of another height -/
theorem block_touches_only_its_height (P : Params) (n : Node) (b : Block) (g : Nat) (hg : g ≠ b.height) :
    (applyBlock P n b).1.db.ratesAt g = n.db.ratesAt g :=
  applyBlock_ratesAt P n b g hg

/-- A block without rates executes no pending conversions: when the block has no rates the
    holding phase is the identity. -/
theorem no_rates_no_conversions (P : Params) (c : DB) (b : Block) (avgs : TMap) (s : DB) :
    holdingPhase P c b avgs false s = .ok () s := by
  unfold holdingPhase
  simp

/-- Before PegNet 2.0 a block without an OPR eblock records nothing. -/
theorem no_winners_no_rates_v1 (P : Params) (c : DB) (b : Block) (s : DB)
    (hh : b.height < P.act.v20) (ho : b.opr = .absent) :
    gradeAndRates P c b s = .ok (.cont false) s := by
  unfold gradeAndRates
  simp [hh, ho]

/-- From PegNet 2.0 on, a block in which neither record set produced a winner records no
    rates (and reports "no rates available"). -/
theorem no_winners_no_rates_v2 (P : Params) (c : DB) (b : Block) (s : DB)
    (hh : ¬ b.height < P.act.v20) (ho : b.opr = .absent) (hs : b.spr = .absent) :
    gradeAndRates P c b s = .ok (.cont false) s := by
  unfold gradeAndRates
  simp [hh, ho, hs, M.bind_run]

/-- the band rule of the 2.0.2 era: in-band assets take the OPR value, out-of-band ones are
    recorded as 0 under the SPR's asset name; other eras reject the block's rates instead. -/
theorem band_rule_step (P : Params) (h : Nat) (o s : String × Nat) (acc : List (String × Nat))
    (hname : (o.1 == s.1) = true) :
    (if o.1 == s.1 then
        (let (tn, td) := if h ≥ P.act.v202 then (25, 2) else (1, 1)
         if inBand o.2 s.2 tn td then some (acc ++ [o])
         else if h ≥ P.act.v202 then some (acc ++ [(s.1, 0)]) else none)
      else some acc) =
    (if h ≥ P.act.v202 then
        (if inBand o.2 s.2 25 2 then some (acc ++ [o]) else some (acc ++ [(s.1, 0)]))
      else (if inBand o.2 s.2 1 1 then some (acc ++ [o]) else none)) := by
  rw [if_pos hname]
  by_cases hv : h ≥ P.act.v202
  · simp [hv]
  · simp [hv]

/-- the tolerances are the constants of the source: 10 %, 25 % from 2.0.2, 1 % and 0.1 % before
    the developer-reward activation (regenerated from node/sync.go on every run). -/
theorem band_constants_match_source :
    Generated.bands = [("GetAssetRates:tol", "0.1"), ("GetAssetRates:tol:override", "0.25"),
      ("GetAssetRates:guard", "height >= config.V202EnhanceActivation"),
      ("GetAssetRatesV0:tol", "0.01"), ("GetAssetRatesV0:tol:override", "0.001"),
      ("GetAssetRatesV0:threshold", "sprRate >= 100000")] := by decide

/-! exact binary64 evaluation of the band edge (the edge is not the rational edge) -/
example : inBand 6600000000000 6000000000000 1 1 = true := by decide
example : inBand 6600000000001 6000000000000 1 1 = false := by decide
example : inBand 75 100 25 2 = true ∧ inBand 74 100 25 2 = false ∧ inBand 125 100 25 2 = true ∧ inBand 126 100 25 2 = false := by decide

/-- **`rates_recorded_exact`.** Whenever the grading step of a block makes rates available — for
    every block content and every answer of the grading libraries — the rate table grows by
    exactly the rows of the selected asset list (`rateRows`): one `p<NAME>` row per non-PEG asset in
    the winner's order with the winner's value, then the PEG row priced by the phase of the height
    (`pegPrice`: 0, the equation over the committed supply, or the winner's PEG quote). The
    selected list (`selectedAssets`) is the winning OPR's before 2.0, and from 2.0 on the winning
    OPR's list filtered against the winning SPR's by the band rule of the era (`assetRatesV0`
    1 % / 0.1 %, `assetRates` 10 % / 25 %-or-zero). Nothing else is written to the rate table. -/
theorem rates_recorded_exact {P : Params} {c : DB} {b : Block} {s s' : DB}
    (hr : gradeAndRates P c b s = .ok (.cont true) s') :
    ∃ sel, selectedAssets P b = some sel ∧
      s'.rates = s.rates ++ rateRows P c b.height sel (if b.height < P.act.v20 then phaseAt P b.height else .floating) :=
  gradeAndRates_records_exact hr

/-- `InsertRates` itself: exactly `rateRows`, nothing else touched -/
theorem insert_rates_exact {P : Params} {c : DB} {h : Nat} {assets : List (String × Nat)} {phase : Phase} {s s' : DB}
    (hr : insertRates P c h assets phase s = .ok () s') :
    s' = { s with rates := s.rates ++ rateRows P c h assets phase } := insertRates_ok hr

/-- non-vacuity: a winning OPR with two assets and a PEG quote in the floating phase -/
def xP : Params :=
  { act := ⟨0,0,0,0,0,0,0,0,0,0,0,0,0,0,0,0,0⟩, tickerMax := 63, tickerNames := [], oneWaySet := [],
    snapshotRate := 144, perBlockHolders := 0, perBlockDevs := 0, bankBase := 0, avgPeriod := 8, avgRequired := 4,
    syncVersion := 2, devs := [], «mint» := [], burnAddr := "", oldBurnAddr := "", mintAddr := "", coinbaseAddr := "", zeroAddr := "" }
example : (rateRows xP {} 7 [("PEG", 5), ("USD", 100), ("EUR", 110)] .floating).map (fun r => (r.height, r.token, r.value)) =
    [(7, "pUSD", 100), (7, "pEUR", 110), (7, "PEG", 5)] := by
  decide

end Pegnet.C12

namespace Pegnet.C12
open Pegnet
/-- the shipped schedule, regenerated from config/activations.go and fat/fat2/activations.go on every
    run, against the values this property was read with: the heights at which the PEG pricing phase, the SPR band and its width change. Every scenario of the harness
    runs on a compressed schedule that overwrites these constants, so nothing else would notice one of
    them moving; a moved height is a different protocol, not a rewrite. -/
theorem shipped_schedule :
    let a := Generated.activations
    Generated.activationsComplete = true ∧ a.pegPricing = 214287 ∧ a.pegFloat = 222270 ∧ a.v20 = 258796 ∧ a.devRewards = 260118 ∧ a.v202 = 274036 := by
  decide
end Pegnet.C12

#print axioms Pegnet.C12.rates_immutable
#print axioms Pegnet.C12.block_touches_only_its_height
#print axioms Pegnet.C12.no_rates_no_conversions
#print axioms Pegnet.C12.no_winners_no_rates_v1
#print axioms Pegnet.C12.no_winners_no_rates_v2
#print axioms Pegnet.C12.band_rule_step
#print axioms Pegnet.C12.band_constants_match_source
#print axioms Pegnet.C12.rates_recorded_exact
#print axioms Pegnet.C12.insert_rates_exact
#print axioms Pegnet.C12.shipped_schedule
