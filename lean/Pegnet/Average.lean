import Pegnet.DB
/-
  node/average.go: the rolling-average cache, as the code has it (incremental path trimmed by
  *count*, reload path by *height window*).
-/
namespace Pegnet

structure AvgCache where
  data : List (Ticker × List Nat) := []     -- LastAveragesData
  avgs : TMap := []                          -- LastAverages
  height : Nat := 0                          -- LastAveragesHeight
  deriving Repr

def numberMissing (period : Nat) (l : List Nat) : Nat :=
  (l.filter (· == 0)).length + (if l.length < period then period - l.length else 0)

def dataGet (d : List (Ticker × List Nat)) (t : Ticker) : Option (List Nat) :=
  (d.find? (·.1 == t)).map (·.2)

def dataSet (d : List (Ticker × List Nat)) (t : Ticker) (l : List Nat) : List (Ticker × List Nat) :=
  if d.any (·.1 == t) then d.map (fun p => if p.1 == t then (t, l) else p) else d ++ [(t, l)]

/-- drop from the front until shorter than `period` -/
def trimTo (period : Nat) (l : List Nat) : List Nat :=
  if period = 0 then l else
  if l.length ≥ period then l.drop (l.length - period + 1) else l

/-- `collectRatesAtHeight(h)` -/
def collectAt (P : Params) (db : DB) (d : List (Ticker × List Nat)) (h : Nat) : List (Ticker × List Nat) :=
  let d1 := d.map (fun p => (p.1, trimTo P.avgPeriod p.2))
  let rates := ratesToMap P (db.ratesAt h)
  rates.foldl (fun acc kv => dataSet acc kv.1 ((dataGet acc kv.1).getD [] ++ [kv.2])) d1

def computeAverages (P : Params) (d : List (Ticker × List Nat)) : TMap :=
  d.map (fun p =>
    if P.avgPeriod - numberMissing P.avgPeriod p.2 < P.avgRequired then (p.1, 0)
    else (p.1, (p.2.sum % 18446744073709551616) / p.2.length))

/-- `GetPegNetRateAverages(height)` reading rates from the committed database `db`. -/
def getAverages (P : Params) (db : DB) (c : AvgCache) (height : Nat) : AvgCache × TMap :=
  if c.height = height then (c, c.avgs)
  else
    let d :=
      if c.height + 1 < height ∨ c.height > height then
        let d0 := c.data.map (fun p => (p.1, ([] : List Nat)))
        let start := if height + 1 > P.avgPeriod then height + 1 - P.avgPeriod else 1
        let start := if start < 1 then 1 else start
        (List.range (height + 1 - start)).foldl (fun acc i => collectAt P db acc (start + i)) d0
      else
        collectAt P db c.data height
    let a := computeAverages P d
    ({ data := d, avgs := a, height := height }, a)

/-- what a freshly started process computes for `height` (the reload path). -/
def reloadAverages (P : Params) (db : DB) (height : Nat) : TMap :=
  (getAverages P db {} height).2

end Pegnet
