import Proofs.Steps
/-
  One structural proof for the whole block transaction: if every primitive table operation of
  the block at height `h` respects a relation `R`, so does `blockTx`.  Property-specific
  relations then only have to discharge the primitive obligations (`PrimsOK`).
-/
namespace Pegnet

/-- `SubFromBalance` respects `R` when its two writes do (for relations that need no guard) -/
theorem subBal_step_of {R : Rel DB} (P : Params) (a : Addr) (t : Ticker) (v : Nat)
    (hadd : Step R (addBal P a t 0)) (hdeb : Step R (debit a t v)) : Step R (subBal P a t v) := by
  unfold subBal; step_tac

theorem Step.forEach_mem {σ α} {R : Rel σ} {l : List α} {f : α → M σ Unit} (hf : ∀ a ∈ l, Step R (f a)) :
    Step R (M.forEach l f) := by
  induction l with
  | nil => exact Step.pure' ()
  | cons x xs ih =>
    exact Step.bind' (hf x List.mem_cons_self) (fun _ => ih (fun a ha => hf a (List.mem_cons_of_mem _ ha)))

theorem mem_of_mem_zipIdx {α} {l : List α} {k : Nat} {p : α × Nat} (hp : p ∈ l.zipIdx k) : p.1 ∈ l := by
  induction l generalizing k with
  | nil => cases hp
  | cons x xs ih =>
    rw [List.zipIdx_cons] at hp
    rcases List.mem_cons.1 hp with h | h
    · subst h; exact List.mem_cons_self
    · exact List.mem_cons_of_mem _ (ih h)

theorem Step.forEachIdx_mem {σ α} {R : Rel σ} {l : List α} {f : Nat → α → M σ Unit} (hf : ∀ i, ∀ a ∈ l, Step R (f i a)) :
    Step R (M.forEachIdx l f) :=
  Step.forEach_mem (fun p hp => hf p.2 p.1 (mem_of_mem_zipIdx hp))

theorem Step.foldM_mem {σ α β} {R : Rel σ} {f : β → α → M σ β} {l : List α} {b : β} (hf : ∀ b, ∀ a ∈ l, Step R (f b a)) :
    Step R (M.foldM f b l) := by
  induction l generalizing b with
  | nil => exact Step.pure' b
  | cons x xs ih =>
    exact Step.bind' (hf b x List.mem_cons_self) (fun b' => ih (fun b a ha => hf b a (List.mem_cons_of_mem _ ha)))

/-- the primitive table operations as the block at height `h` uses them -/
structure PrimsOK (P : Params) (h : Nat) (R : Rel DB) (Auth : Addr → Prop := fun _ => True)
    (AuthT : HistTx → Prop := fun _ => True) (AuthH : Prop := True) : Prop where
  addBal : ∀ a t v, Step R (addBal P a t v)
  /-- `SubFromBalance` has to respect `R` only for the addresses the block is entitled to debit -/
  subBal : ∀ a t v, Auth a → Step R (subBal P a t v)
  insertRate : ∀ tok v, Step R (insertRate h tok v)
  insertHistBatch : ∀ r, Step R (insertHistBatch r)
  /-- inserting a history row has to respect `R` only for the rows `AuthT` admits (a relation that
      needs the batch row to be there first takes `AuthT := fun _ => False` and proves the composites
      that insert both directly: `HistComps`) -/
  insertHistTx : ∀ r, AuthT r → Step R (insertHistTx r)
  insertLookup : ∀ r, Step R (insertLookup r)
  setExecuted : ∀ hash v, Step R (setExecuted hash v)
  setConvertedAmount : ∀ hash i a, Step R (setConvertedAmount hash i a)
  setPegConverted : ∀ hash i a o, Step R (setPegConverted hash i a o)
  insertRelation : ∀ hash a i t c, Step R (insertRelation hash a i t c)
  /-- likewise for the holding row, which follows the batch row of its entry (`HistComps.hold`) -/
  insertHolding : ∀ e keymr, AuthH → Step R (insertHolding { entry := e, height := h, keymr := keymr })
  insertBank : ∀ a, Step R (insertBank h a)
  updateBank : ∀ bh u r, Step R (updateBank bh u r)
  insertGrade : ∀ keymr sh v c n, Step R (insertGrade { height := h, keymr := keymr, shorthashes := sh, version := v, cutoff := c, count := n })
  insertWinner : ∀ p e pay m a, Step R (insertWinner { height := h, position := p, entryhash := e, payout := pay, minerid := m, addrStr := a })
  markSynced : ∀ v, Step R (markSynced h v)
  rotate : Step R (M.guarded (fun _ => none) fun db => { db with snapPast := db.snapCur, snapCur := db.addrs })
  touch : Step R (M.guarded (fun _ => none) fun db => { db with avgTouched := true })

section
variable {P : Params} {h : Nat} {R : Rel DB} {Auth : Addr → Prop} {AuthT : HistTx → Prop} {AuthH : Prop} (ok : PrimsOK P h R Auth AuthT AuthH)
include ok

/-- bring every primitive fact into the local context (for `apply_assumption`) -/
syntax "prims " term : tactic
macro_rules
  | `(tactic| prims $ok) => `(tactic|
    (have p1 := PrimsOK.addBal $ok; have p2 := PrimsOK.subBal $ok; have p3 := PrimsOK.insertRate $ok
     have p4 := PrimsOK.insertHistBatch $ok; have p5 := PrimsOK.insertHistTx $ok; have p6 := PrimsOK.insertLookup $ok
     have p7 := PrimsOK.setExecuted $ok; have p8 := PrimsOK.setConvertedAmount $ok; have p9 := PrimsOK.setPegConverted $ok
     have p10 := PrimsOK.insertRelation $ok; have p11 := PrimsOK.insertHolding $ok; have p12 := PrimsOK.insertBank $ok
     have p13 := PrimsOK.updateBank $ok; have p14 := PrimsOK.insertGrade $ok; have p15 := PrimsOK.insertWinner $ok
     have p16 := PrimsOK.markSynced $ok; have p17 := PrimsOK.rotate $ok; have p18 := PrimsOK.touch $ok))

/-! ### balances -/

theorem subBal_stepA (a : Addr) (t : Ticker) (v : Nat) (ha : Auth a) : Step R (subBal P a t v) := PrimsOK.subBal ok a t v ha

/-! ### Batch.lean -/

theorem recordOutputs_step (hash : Hash) (rates avgs : Option TMap) (idx : Nat) (t : Tx) :
    Step R (recordOutputs P h hash rates avgs idx t) := by
  prims ok
  unfold recordOutputs; step_tac

theorem recordTx_stepA (hash : Hash) (rates avgs : Option TMap) (idx : Nat) (t : Tx) (ha : Auth t.inAddr) :
    Step R (recordTx P h hash rates avgs idx t) := by
  prims ok
  have c1 := subBal_stepA ok t.inAddr t.inType t.inAmount ha
  have c2 := recordOutputs_step ok
  unfold recordTx; step_tac

theorem recordBatch_stepA (hash : Hash) (rates avgs : Option TMap) (txs : List Tx) (ha : ∀ t ∈ txs, Auth t.inAddr) :
    Step R (recordBatch P h hash rates avgs txs) := by
  unfold recordBatch
  exact Step.forEachIdx_mem (fun i t ht => recordTx_stepA ok hash rates avgs i t (ha t ht))

theorem applyBatch_stepA (e : TxEntry) (rates avgs : Option TMap) (ha : ∀ t ∈ e.txs, Auth t.inAddr)
    (hlog : ∀ x, Step R (logExec x)) : Step R (applyBatch P h e rates avgs) := by
  have c1 := recordBatch_stepA ok e.hash rates avgs e.txs ha
  unfold applyBatch; step_tac

theorem payPegReq_step (rates : TMap) (r : PegReq) (y : Nat) : Step R (payPegReq P h rates r y) := by
  prims ok
  unfold payPegReq; step_tac

theorem recordPegRequests_step (rates avgs : TMap) (bs : List TxEntry) (bank : Nat) (bh : Int) :
    Step R (recordPegRequests P h rates avgs bs bank bh) := by
  prims ok
  have c1 := payPegReq_step ok
  unfold recordPegRequests; step_tac

/-! ### Sync.lean -/

theorem mintTokens_step : Step R (mintTokens P) := by
  prims ok
  unfold mintTokens; step_tac

theorem nullifyMinted_stepA (c : DB) (ha : Auth P.mintAddr) : Step R (nullifyMinted P c) := by
  have c1 := fun t v => subBal_stepA ok P.mintAddr t v ha
  unfold nullifyMinted; step_tac

theorem insertZeroingCoinbase_step (hT : ∀ r, AuthT r) (txid : String) (i hh : Nat) (ts : Int) (payout : Nat) (asset : String) (a : Addr) :
    Step R (insertZeroingCoinbase txid i hh ts payout asset a) := by
  prims ok
  have p5' := fun r => PrimsOK.insertHistTx ok r (hT r)
  unfold insertZeroingCoinbase; step_tac

theorem nullifyBurnLoop_stepA (c : DB) (hh : Nat) (ts : Int) (a : Addr) (ha : Auth a)
    (hz : ∀ txid i hh ts payout asset a, Step R (insertZeroingCoinbase txid i hh ts payout asset a))
    (i j : Nat) (ts' : List Ticker) :
    Step R (nullifyBurnLoop P c hh ts a i j ts') := by
  have c1 := fun t v => subBal_stepA ok a t v ha
  have c2 := hz
  induction ts' generalizing i j with
  | nil => unfold nullifyBurnLoop; step_tac
  | cons t rest ih =>
    unfold nullifyBurnLoop
    step_tac

theorem nullifyBurn_stepA (c : DB) (hh : Nat) (ts : Int)
    (ha : Auth (if hh < P.act.v202 then P.oldBurnAddr else P.burnAddr))
    (hz : ∀ txid i hh ts payout asset a, Step R (insertZeroingCoinbase txid i hh ts payout asset a)) :
    Step R (nullifyBurn P c hh ts) := by
  unfold nullifyBurn
  exact nullifyBurnLoop_stepA ok c hh ts _ ha hz ..

theorem insertGradeBlock_step (keymr : String) (g : OprGraded) : Step R (insertGradeBlock h keymr g) := by
  prims ok
  unfold insertGradeBlock; step_tac

theorem insertRates_step (c : DB) (assets : List (String × Nat)) (phase : Phase) :
    Step R (insertRates P c h assets phase) := by
  prims ok
  unfold insertRates; step_tac

theorem snapshotPayouts_step (hT : ∀ r, AuthT r) (ts : Int) (rates : TMap) (order : List Addr) :
    Step R (snapshotPayouts P h ts rates order) := by
  prims ok
  have p5' := fun r => PrimsOK.insertHistTx ok r (hT r)
  unfold snapshotPayouts; step_tac

theorem devPayoutLoop_step (hT : ∀ r, AuthT r) (ts : Int) (i j : Nat) (l : List (Addr × Nat)) :
    Step R (devPayoutLoop P h ts i j l) := by
  prims ok
  have p5' := fun r => PrimsOK.insertHistTx ok r (hT r)
  induction l generalizing i j with
  | nil => unfold devPayoutLoop; step_tac
  | cons d rest ih =>
    unfold devPayoutLoop
    step_tac

theorem developersPayouts_step (hT : ∀ r, AuthT r) (ts : Int) : Step R (developersPayouts P h ts) := by
  unfold developersPayouts; exact devPayoutLoop_step ok hT ..

theorem recordHistory_step (hT : ∀ r, AuthT r) (bo : Nat) (e : TxEntry) : Step R (recordHistory P h bo e) := by
  prims ok
  have p5' := fun r => PrimsOK.insertHistTx ok r (hT r)
  unfold recordHistory; step_tac

theorem applyTxEntry_stepA (keymr : String) (bo : Nat) (e : TxEntry)
    (ha : e.validAt P h = true → ∀ t ∈ e.txs, Auth t.inAddr) (hlog : ∀ x, Step R (logExec x))
    (hrec : ∀ bo e, Step R (recordHistory P h bo e))
    (hhold : ∀ keymr bo e, Step R (recordHistory P h bo e >>= fun _ => insertHolding { entry := e, height := h, keymr := keymr })) :
    Step R (applyTxEntry P h keymr bo e) := by
  prims ok
  have c1 := hrec
  unfold applyTxEntry
  apply Step.bind Step.get
  intro db
  split
  · rename_i hc
    have hv : e.validAt P h = true := by
      simp only [Bool.and_eq_true] at hc
      exact hc.1.1
    have c2 := applyBatch_stepA ok e none none (ha hv) hlog
    by_cases hconv : e.hasConversions P = true
    · simp only [hconv, if_true]
      exact hhold keymr bo e
    · simp only [hconv, Bool.false_eq_true, if_false]
      step_tac
  · exact Step.pure _

theorem applyTransactionBlock_stepA (keymr : String) (es : List TxEntry)
    (ha : ∀ e ∈ es, e.validAt P h = true → ∀ t ∈ e.txs, Auth t.inAddr) (hlog : ∀ x, Step R (logExec x))
    (hrec : ∀ bo e, Step R (recordHistory P h bo e))
    (hhold : ∀ keymr bo e, Step R (recordHistory P h bo e >>= fun _ => insertHolding { entry := e, height := h, keymr := keymr })) :
    Step R (applyTransactionBlock P h keymr es) := by
  unfold applyTransactionBlock
  exact Step.forEachIdx_mem (fun i e he => applyTxEntry_stepA ok keymr i e (ha e he) hlog hrec hhold)

theorem applyHeld_stepA (rates avgs : TMap) (e : TxEntry)
    (ha : e.validAt P h = true → ∀ t ∈ e.txs, Auth t.inAddr) (hlog : ∀ x, Step R (logExec x)) :
    Step R (applyHeld P h rates avgs e) := by
  prims ok
  unfold applyHeld
  apply Step.bind Step.get
  intro db
  split
  · step_tac
  · rename_i hc
    have hv : e.validAt P h = true := by
      cases hval : e.validAt P h with
      | true => rfl
      | false => simp [hval] at hc
    have c2 := applyBatch_stepA ok e (some rates) (some avgs) (ha hv) hlog
    step_tac

theorem applyHolding_stepA (c : DB) (rates avgs : TMap) (fromH : Nat)
    (ha : ∀ row ∈ c.holding, row.entry.validAt P h = true → ∀ t ∈ row.entry.txs, Auth t.inAddr)
    (hlog : ∀ x, Step R (logExec x)) : Step R (applyHolding P c h rates avgs fromH) := by
  have c2 := recordPegRequests_step ok
  have c1 : ∀ i, ∀ e ∈ (c.holding.filter (·.height == i)).map (·.entry), Step R (applyHeld P h rates avgs e) := by
    intro i e he
    obtain ⟨row, hrow, hre⟩ := List.mem_map.1 he
    subst hre
    exact applyHeld_stepA ok rates avgs row.entry (ha row (List.mem_filter.1 hrow).1) hlog
  have c3 : ∀ (pend : List TxEntry) (i : Nat), Step R (M.foldM (fun (l : List TxEntry) e => do
          let join ← applyHeld P h rates avgs e
          pure (if join then l ++ [e] else l)) pend ((c.holding.filter (·.height == i)).map (·.entry))) := by
    intro pend i
    apply Step.foldM_mem
    intro l e he
    have := c1 i e he
    step_tac
  unfold applyHolding; step_tac

theorem applyFct_step (hT : ∀ r, AuthT r) (rcd : Addr) (f : FctTx) : Step R (applyFct P h rcd f) := by
  prims ok
  have p5' := fun r => PrimsOK.insertHistTx ok r (hT r)
  unfold applyFct; step_tac

theorem applyFactoidBlock_step (hT : ∀ r, AuthT r) (rcd : Addr) (fcts : List FctTx) : Step R (applyFactoidBlock P h rcd fcts) := by
  have c1 := applyFct_step ok hT rcd
  unfold applyFactoidBlock; step_tac

theorem applyGradedOPR_step (hT : ∀ r, AuthT r) (oh ts : Int) (ws : List OprW) : Step R (applyGradedOPR P oh ts ws) := by
  prims ok
  have p5' := fun r => PrimsOK.insertHistTx ok r (hT r)
  unfold applyGradedOPR; step_tac

theorem applyGradedSPR_step (hT : ∀ r, AuthT r) (oh ts : Int) (ws : List SprW) : Step R (applyGradedSPR P oh ts ws) := by
  prims ok
  have p5' := fun r => PrimsOK.insertHistTx ok r (hT r)
  unfold applyGradedSPR; step_tac

end

/-- the composites that insert a batch row and then transaction rows of the same hash: what the
    block-level theorems need of them. Derived from the primitives when `AuthT` admits every row
    (`histComps_of_prims`); proved directly for relations about the two history tables together. -/
structure HistComps (P : Params) (h : Nat) (R : Rel DB) : Prop where
  zero : ∀ txid i hh ts payout asset a, Step R (insertZeroingCoinbase txid i hh ts payout asset a)
  snap : ∀ ts rates order, Step R (snapshotPayouts P h ts rates order)
  dev : ∀ ts, Step R (developersPayouts P h ts)
  hist : ∀ bo e, Step R (recordHistory P h bo e)
  hold : ∀ keymr bo e, Step R (recordHistory P h bo e >>= fun _ => insertHolding { entry := e, height := h, keymr := keymr })
  fct : ∀ rcd fcts, Step R (applyFactoidBlock P h rcd fcts)
  opr : ∀ oh ts ws, Step R (applyGradedOPR P oh ts ws)
  spr : ∀ oh ts ws, Step R (applyGradedSPR P oh ts ws)

theorem histComps_of_prims {P : Params} {h : Nat} {R : Rel DB} {Auth : Addr → Prop} {AuthT : HistTx → Prop} {AuthH : Prop}
    (ok : PrimsOK P h R Auth AuthT AuthH) (hT : ∀ r, AuthT r) (hH : AuthH) : HistComps P h R :=
  ⟨insertZeroingCoinbase_step ok hT, snapshotPayouts_step ok hT, developersPayouts_step ok hT, recordHistory_step ok hT,
   fun keymr bo e => Step.bind (recordHistory_step ok hT bo e) (fun _ => PrimsOK.insertHolding ok e keymr hH),
   applyFactoidBlock_step ok hT, applyGradedOPR_step ok hT, applyGradedSPR_step ok hT⟩

/-! ### the block -/

theorem gradeAndRates_step {P : Params} {R : Rel DB} {Auth : Addr → Prop} {AuthT : HistTx → Prop} {AuthH : Prop} (c : DB) (b : Block) (ok : PrimsOK P b.height R Auth AuthT AuthH) :
    Step R (gradeAndRates P c b) := by
  have c1 := insertGradeBlock_step ok
  have c2 := insertRates_step ok
  unfold gradeAndRates; step_tac

/-- what the block at `b.height`, applied on the committed database `c`, is entitled to debit:
    the input address of every batch on the transaction chain or in holding that validates at
    this height (signature included), and the special addresses of the scheduled adjustments -/
structure AuthOK (P : Params) (R : Rel DB) (Auth : Addr → Prop) (c : DB) (b : Block) : Prop where
  /-- the history-variable write of `applyTransactionBatch` respects the relation -/
  log : ∀ x, Step R (logExec x)
  /-- the composites writing both history tables respect the relation -/
  comps : HistComps P b.height R
  txs : ∀ es, b.txs = some es → ∀ e ∈ es, e.validAt P b.height = true → ∀ t ∈ e.txs, Auth t.inAddr
  held : ∀ row ∈ c.holding, row.entry.validAt P b.height = true → ∀ t ∈ row.entry.txs, Auth t.inAddr
  mint : b.height = P.act.v204Burn → Auth P.mintAddr
  burn : b.height = P.act.devRewards ∨ b.height = P.act.v202 →
    Auth (if b.height < P.act.v202 then P.oldBurnAddr else P.burnAddr)

theorem authOK_true (P : Params) {R : Rel DB} (hlog : ∀ x, Step R (logExec x)) (c : DB) (b : Block)
    (hc : HistComps P b.height R) : AuthOK P R (fun _ => True) c b :=
  ⟨hlog, hc, fun _ _ _ _ _ _ _ => trivial, fun _ _ _ _ _ => trivial, fun _ => trivial, fun _ => trivial⟩

section
variable {P : Params} {R : Rel DB} {Auth : Addr → Prop} {AuthT : HistTx → Prop} {AuthH : Prop} (c : DB) (b : Block) (avgs : TMap)
  (ok : PrimsOK P b.height R Auth AuthT AuthH) (au : AuthOK P R Auth c b)
include ok

theorem sprPanicCheck_step : Step R (sprPanicCheck b) := by
  unfold sprPanicCheck; step_tac

omit ok in
theorem snapshotPhase_stepC (hc : HistComps P b.height R) : Step R (snapshotPhase P b) := by
  have c4 := hc.snap
  unfold snapshotPhase; step_tac

omit ok in
theorem oprRewardPhase_stepC (hc : HistComps P b.height R) : Step R (oprRewardPhase P b) := by
  have c8 := hc.opr
  unfold oprRewardPhase; step_tac

omit ok in
theorem sprRewardPhase_stepC (hc : HistComps P b.height R) : Step R (sprRewardPhase P b) := by
  have c9 := hc.spr
  unfold sprRewardPhase; step_tac

omit ok in
theorem devRewardPhase_stepC (hc : HistComps P b.height R) : Step R (devRewardPhase P b) := by
  have c10 := hc.dev
  unfold devRewardPhase; step_tac

omit ok in
theorem rewardPhase_stepC (hc : HistComps P b.height R) : Step R (rewardPhase P b) := by
  have c7 := hc.fct
  have c1 := oprRewardPhase_stepC b hc
  have c2 := sprRewardPhase_stepC b hc
  have c3 := devRewardPhase_stepC b hc
  unfold rewardPhase; step_tac

include au

theorem preAdjust_stepA : Step R (preAdjust P c b.height) := by
  have c2 := mintTokens_step ok
  have hjp : Step R (if b.height = P.act.v204Burn then nullifyMinted P c else pure ()) := by
    split
    · rename_i hb; exact nullifyMinted_stepA ok c (au.mint hb)
    · exact Step.pure _
  unfold preAdjust
  dsimp only
  split
  · exact Step.bind c2 (fun _ => hjp)
  · exact hjp

theorem holdingPhase_stepA (ra : Bool) : Step R (holdingPhase P c b avgs ra) := by
  prims ok
  have c5 := fun rates fromH => applyHolding_stepA ok c rates avgs fromH au.held au.log
  unfold holdingPhase; step_tac

theorem txBlockPhase_stepA : Step R (txBlockPhase P b) := by
  unfold txBlockPhase
  split
  · rename_i es hes
    exact applyTransactionBlock_stepA ok b.txKeymr es (au.txs es hes) au.log au.comps.hist au.comps.hold
  · exact Step.pure _

theorem txPhase_stepA (ra : Bool) : Step R (txPhase P c b avgs ra) := by
  have c1 := snapshotPhase_stepC b au.comps
  have c2 := holdingPhase_stepA c b avgs ok au
  have c3 := txBlockPhase_stepA c b ok au
  unfold txPhase; step_tac

theorem syncBlock_stepA : Step R (syncBlock P c b avgs) := by
  have c1 := gradeAndRates_step c b ok
  have c2 := preAdjust_stepA c b ok au
  have c3 := sprPanicCheck_step (P := P) b ok
  have c4 := txPhase_stepA c b avgs ok au
  have c5 := rewardPhase_stepC b au.comps
  unfold syncBlock; step_tac

theorem burnZeroing_stepA : Step R (burnZeroing P c b) := by
  have hjp : Step R (if b.height = P.act.v202 then do
        let _ ← M.swallow (nullifyBurn P c b.height b.ts)
        pure ()
      else (pure () : LM Unit)) := by
    split
    · rename_i hb
      have := nullifyBurn_stepA ok c b.height b.ts (au.burn (Or.inr hb)) au.comps.zero
      step_tac
    · exact Step.pure _
  unfold burnZeroing
  dsimp only
  split
  · rename_i hb
    have := nullifyBurn_stepA ok c b.height b.ts (au.burn (Or.inl hb)) au.comps.zero
    exact Step.bind (Step.swallow this) (fun _ => hjp)
  · exact hjp

/-- every step of the block transaction respects `R`, provided `SubFromBalance` does for the
    addresses the block is entitled to debit -/
theorem blockTx_stepA : Step R (blockTx P c b avgs) := by
  prims ok
  have c1 := syncBlock_stepA c b avgs ok au
  have c2 := burnZeroing_stepA c b ok au
  unfold blockTx; step_tac

end

/-! ### the unconditional versions (`Auth` = everything) -/

section
variable {P : Params} {h : Nat} {R : Rel DB} (ok : PrimsOK P h R) (hlog : ∀ x, Step R (logExec x))
include ok

theorem subBal_step (a : Addr) (t : Ticker) (v : Nat) : Step R (subBal P a t v) := subBal_stepA ok a t v trivial
theorem recordTx_step (hash : Hash) (rates avgs : Option TMap) (idx : Nat) (t : Tx) :
    Step R (recordTx P h hash rates avgs idx t) := recordTx_stepA ok hash rates avgs idx t trivial
theorem recordBatch_step (hash : Hash) (rates avgs : Option TMap) (txs : List Tx) :
    Step R (recordBatch P h hash rates avgs txs) := recordBatch_stepA ok hash rates avgs txs (fun _ _ => trivial)
include hlog
theorem applyBatch_step (e : TxEntry) (rates avgs : Option TMap) : Step R (applyBatch P h e rates avgs) :=
  applyBatch_stepA ok e rates avgs (fun _ _ => trivial) hlog
omit hlog
theorem nullifyMinted_step (c : DB) : Step R (nullifyMinted P c) := nullifyMinted_stepA ok c trivial
theorem nullifyBurn_step (c : DB) (hh : Nat) (ts : Int) : Step R (nullifyBurn P c hh ts) :=
  nullifyBurn_stepA ok c hh ts trivial (insertZeroingCoinbase_step ok (fun _ => trivial))
include hlog
theorem applyTxEntry_step (keymr : String) (bo : Nat) (e : TxEntry) : Step R (applyTxEntry P h keymr bo e) :=
  applyTxEntry_stepA ok keymr bo e (fun _ _ _ => trivial) hlog (recordHistory_step ok (fun _ => trivial))
    (fun keymr bo e => Step.bind (recordHistory_step ok (fun _ => trivial) bo e) (fun _ => PrimsOK.insertHolding ok e keymr trivial))
theorem applyTransactionBlock_step (keymr : String) (es : List TxEntry) :
    Step R (applyTransactionBlock P h keymr es) := applyTransactionBlock_stepA ok keymr es (fun _ _ _ _ _ => trivial) hlog (recordHistory_step ok (fun _ => trivial))
    (fun keymr bo e => Step.bind (recordHistory_step ok (fun _ => trivial) bo e) (fun _ => PrimsOK.insertHolding ok e keymr trivial))
theorem applyHeld_step (rates avgs : TMap) (e : TxEntry) : Step R (applyHeld P h rates avgs e) :=
  applyHeld_stepA ok rates avgs e (fun _ _ _ => trivial) hlog
theorem applyHolding_step (c : DB) (rates avgs : TMap) (fromH : Nat) :
    Step R (applyHolding P c h rates avgs fromH) := applyHolding_stepA ok c rates avgs fromH (fun _ _ _ _ _ => trivial) hlog

end

section
variable {P : Params} {R : Rel DB} (c : DB) (b : Block) (avgs : TMap) (ok : PrimsOK P b.height R)
  (hlog : ∀ x, Step R (logExec x))
include ok hlog

omit hlog in
theorem histComps_std : HistComps P b.height R := histComps_of_prims ok (fun _ => trivial) trivial
omit hlog in
theorem snapshotPhase_step : Step R (snapshotPhase P b) := snapshotPhase_stepC b (histComps_std b ok)
omit hlog in
theorem oprRewardPhase_step : Step R (oprRewardPhase P b) := oprRewardPhase_stepC b (histComps_std b ok)
omit hlog in
theorem sprRewardPhase_step : Step R (sprRewardPhase P b) := sprRewardPhase_stepC b (histComps_std b ok)
omit hlog in
theorem devRewardPhase_step : Step R (devRewardPhase P b) := devRewardPhase_stepC b (histComps_std b ok)
omit hlog in
theorem rewardPhase_step : Step R (rewardPhase P b) := rewardPhase_stepC b (histComps_std b ok)
theorem preAdjust_step : Step R (preAdjust P c b.height) := preAdjust_stepA c b ok (authOK_true P hlog c b (histComps_std b ok))
theorem holdingPhase_step (ra : Bool) : Step R (holdingPhase P c b avgs ra) := holdingPhase_stepA c b avgs ok (authOK_true P hlog c b (histComps_std b ok)) ra
theorem txBlockPhase_step : Step R (txBlockPhase P b) := txBlockPhase_stepA ({} : DB) b ok (authOK_true P hlog {} b (histComps_std b ok))
theorem txPhase_step (ra : Bool) : Step R (txPhase P c b avgs ra) := txPhase_stepA c b avgs ok (authOK_true P hlog c b (histComps_std b ok)) ra
theorem syncBlock_step : Step R (syncBlock P c b avgs) := syncBlock_stepA c b avgs ok (authOK_true P hlog c b (histComps_std b ok))
theorem burnZeroing_step : Step R (burnZeroing P c b) := burnZeroing_stepA c b ok (authOK_true P hlog c b (histComps_std b ok))
/-- every step of the block transaction respects `R` -/
theorem blockTx_step : Step R (blockTx P c b avgs) := blockTx_stepA c b avgs ok (authOK_true P hlog c b (histComps_std b ok))

end

end Pegnet
