import Proofs.NonInterference
import Proofs.RestartAvg
/-
  C09 — Restart independence.
  The only consensus input the daemon keeps in memory is the rolling-average cache. The full
  statement (`restart_independent`) is FALSE for the code as it is: the incremental path trims
  by COUNT, the reload path by HEIGHT WINDOW; the witness below is replayed on the real daemon
  by the `restart` scenario. What does hold is stated as `_partial` theorems.
-/
namespace Pegnet.C09
open Pegnet

/-- a freshly started process computes the averages as a function of the database alone -/
theorem reload_is_function_of_db (P : Params) (db : DB) (c₁ c₂ : AvgCache) (h : Nat)
    (h₁ : c₁.height + 1 < h ∨ c₁.height > h) (h₂ : c₂.height + 1 < h ∨ c₂.height > h)
    (hd : c₁.data.map (·.1) = c₂.data.map (·.1)) :
    (getAverages P db c₁ h).2 = (getAverages P db c₂ h).2 := by
  unfold getAverages
  have e1 : ¬ c₁.height = h := by omega
  have e2 : ¬ c₂.height = h := by omega
  simp only [e1, e2, if_false, h₁, h₂, if_true]
  have : c₁.data.map (fun p => (p.1, ([] : List Nat))) = c₂.data.map (fun p => (p.1, ([] : List Nat))) := by
    have := congrArg (List.map (fun t => (t, ([] : List Nat)))) hd
    rw [List.map_map, List.map_map] at this
    exact this
  rw [this]

/-- asking twice for the same height returns the cached answer and leaves the cache alone -/
theorem cache_hit (P : Params) (db : DB) (c : AvgCache) :
    getAverages P db c c.height = (c, c.avgs) := by
  unfold getAverages; simp

/-- everything else a block needs is read from the database: restarting (dropping the cache)
    changes nothing of the committed state -/
theorem restart_keeps_database (P : Params) (n : Node) :
    (restart P n).db.addrs = n.db.addrs ∧ (restart P n).db.rates = n.db.rates ∧ (restart P n).db.holding = n.db.holding ∧
    (restart P n).db.rels = n.db.rels ∧ (restart P n).db.synced = n.db.synced := by
  unfold restart; simp

/-! ### the witness (period 8, rates at heights 1..20 except 10, one asset) -/
def wP : Params :=
  { act := ⟨0,0,0,0,0,0,0,0,0,0,0,0,0,0,0,0,0⟩, tickerMax := 63, tickerNames := ["PEG", "pUSD"], oneWaySet := [],
    snapshotRate := 144, perBlockHolders := 0, perBlockDevs := 0, bankBase := 0, avgPeriod := 8, avgRequired := 4,
    syncVersion := 2, devs := [], «mint» := [], burnAddr := "b", oldBurnAddr := "o", mintAddr := "m", coinbaseAddr := "c", zeroAddr := "0" }

def wDB : DB :=
  { rates := ((List.range 20).map (· + 1)).filterMap fun h =>
      if h = 10 then none else some { height := h, token := "pUSD", value := 100 * h } }

/-- the cache of a process that has been running since height 1 and was asked for every height -/
def continuous (upto : Nat) : AvgCache :=
  ((List.range upto).map (· + 1)).foldl (fun c h => (getAverages wP wDB c h).1) {}

/-- Continuous process vs. freshly restarted process at height 14: the averages differ
    (1000 vs 1057), so a conversion priced with them credits different amounts. -/
theorem restart_dependent_witness :
    (getAverages wP wDB (continuous 13) 14).2.get 2 = 1000 ∧ (reloadAverages wP wDB 14).get 2 = 1057 := by
  decide

/-- hence the full statement is false: there is a database, a height and two admissible histories
    of the same process (with / without a restart) for which the pricing input differs -/
theorem not_restart_independent :
    ¬ (∀ (P : Params) (db : DB) (c : AvgCache) (h : Nat), (getAverages P db c h).2 = reloadAverages P db h) := by
  intro hall
  have := hall wP wDB (continuous 13) 14
  have w := restart_dependent_witness
  rw [this] at w
  omega

/-! ### what does hold for whole runs (Proofs/AvgIrrelevant, Proofs/NonInterference) -/

/-- Below the PIP-10 activation `Convert` ignores the averages, so the outcome of a block does
    not depend on the in-memory cache at all: two processes on the same database apply it with
    the same result whatever their histories. -/
theorem block_independent_of_cache_below_pip10 (P : Params) (n₁ n₂ : Node) (b : Block) (hdb : n₁.db = n₂.db)
    (hlt : b.height < P.act.pip10) :
    (applyBlock P n₁ b).1.db = (applyBlock P n₂ b).1.db ∧ (applyBlock P n₁ b).2 = (applyBlock P n₂ b).2 :=
  applyBlock_cache_irrelevant n₁ n₂ b hdb hlt

/-- **`restart_independent_partial`**: for every run of the daemon that stays below the PIP-10
    activation, stopping and starting it any number of times, anywhere, changes nothing: the
    ledger and the sync height are those of the run without the restarts (and without the aborted
    iterations). Above PIP-10 the statement is false — `not_restart_independent`. -/
theorem restart_independent_partial (P : Params) (ch : Nat → Block) (hch : ∀ h, (ch h).height = h)
    (es : List Ev) (hb : BelowPip10 P ch (freshNode P) es) :
    (runEvs P ch (freshNode P) es).db.ledger = (runEvs P ch (freshNode P) (es.filter Ev.isAttempt)).db.ledger ∧
    (runEvs P ch (freshNode P) es).mem = (runEvs P ch (freshNode P) (es.filter Ev.isAttempt)).mem :=
  only_attempts_matter P ch hch (freshNode P).mem es (freshNode P) (freshNode P) [] rfl rfl
    (inOrder_fresh P) (inOrder_fresh P) hb

/-- the same from any consistent database being resumed -/
theorem restart_independent_partial_from (P : Params) (ch : Nat → Block) (hch : ∀ h, (ch h).height = h)
    (n₀ : Node) (h0 : InOrder P n₀.mem n₀) (es : List Ev) (hb : BelowPip10 P ch n₀ es) :
    (runEvs P ch n₀ es).db.ledger = (runEvs P ch n₀ (es.filter Ev.isAttempt)).db.ledger ∧
    (runEvs P ch n₀ es).mem = (runEvs P ch n₀ (es.filter Ev.isAttempt)).mem :=
  only_attempts_matter P ch hch n₀.mem es n₀ n₀ n₀.db.syncVersions rfl rfl h0 h0 hb

/-- a restart keeps every ledger table and re-derives the sync height from the database -/
theorem restart_keeps_ledger (P : Params) (n : Node) : (restart P n).db.ledger = n.db.ledger := rfl

/-! ### above PIP-10: exactly the hole matters (Proofs/AvgWindow, Proofs/AvgGet, Proofs/RestartAvg) -/

/-- what the cache holds after any call, ticker by ticker: the quotes of the height window of the
    height asked for — whether the answer came from the cache, from a reload, or from the
    incremental step out of a window without a hole -/
theorem cache_holds_the_window (P : Params) (hp : 0 < P.avgPeriod) (db : DB) (c : AvgCache) (height : Nat)
    (hc : CacheSem P db c) (hh : c.height + 1 = height → ∀ t, NoHole P db c.height t) :
    CacheSem P db (getAverages P db c height).1 ∧ (getAverages P db c height).1.height = height :=
  getAverages_sem P hp db c height hc hh

/-- the block transaction reads the averages only through what they answer per ticker (at every
    height, above PIP-10 too) -/
theorem block_reads_averages_per_ticker {P : Params} (c : DB) (b : Block) (a₁ a₂ : TMap) (hg : ∀ t, a₁.get t = a₂.get t) :
    blockTx P c b a₁ = blockTx P c b a₂ :=
  blockTx_get c b a₁ a₂ hg

/-- a ticker that, once quoted, is quoted at every later rated height up to `H` leaves no hole -/
theorem no_hole_when_quotes_continue (P : Params) (db : DB) (H : Nat) (t : Ticker)
    (h : ∀ g, g < H → quoteAt P db g t ≠ [] → quoteAt P db (g + 1) t ≠ []) : NoHole P db H t := by
  intro hH i hi hq
  exact h _ (by omega) hq

/-- **`restart_independent_whole_windows`**: at EVERY height — above the PIP-10 activation too —
    any run of the daemon with any number of restarts, kills and failed iterations ends in the ledger
    and sync height of the run without them, provided no averaging window the incremental path
    starts from has a hole (`WholeRun`: inside the window a quoted height is never followed by an
    unquoted one, i.e. no ungraded block after a quoted height). Together with the witness below
    this pins the known finding down: restart dependence needs a hole, and a hole suffices. -/
theorem restart_independent_whole_windows (P : Params) (hp : 0 < P.avgPeriod) (ch : Nat → Block) (hch : ∀ h, (ch h).height = h)
    (es : List Ev) (hw : WholeRun P ch (freshNode P) es) :
    (runEvs P ch (freshNode P) es).db.ledger = (runEvs P ch (freshNode P) (es.filter Ev.isAttempt)).db.ledger ∧
    (runEvs P ch (freshNode P) es).mem = (runEvs P ch (freshNode P) (es.filter Ev.isAttempt)).mem :=
  only_attempts_matter_whole P hp ch hch (freshNode P).mem es (freshNode P) (freshNode P) [] rfl rfl
    (inOrder_fresh P) (inOrder_fresh P)
    ⟨cacheOK_empty P, cacheSem_empty P _, Nat.zero_le _⟩ ⟨cacheOK_empty P, cacheSem_empty P _, Nat.zero_le _⟩ hw

/-- the same from any consistent database being resumed by a process whose cache holds the window
    of its height (a freshly started one does: `cacheGood_restart`) -/
theorem restart_independent_whole_windows_from (P : Params) (hp : 0 < P.avgPeriod) (ch : Nat → Block) (hch : ∀ h, (ch h).height = h)
    (n₀ : Node) (h0 : InOrder P n₀.mem n₀) (g0 : CacheGood P n₀) (es : List Ev) (hw : WholeRun P ch n₀ es) :
    (runEvs P ch n₀ es).db.ledger = (runEvs P ch n₀ (es.filter Ev.isAttempt)).db.ledger ∧
    (runEvs P ch n₀ es).mem = (runEvs P ch n₀ (es.filter Ev.isAttempt)).mem :=
  only_attempts_matter_whole P hp ch hch n₀.mem es n₀ n₀ n₀.db.syncVersions rfl rfl h0 h0 g0 g0 hw

/-- the witness of `restart_dependent_witness` is a hole: in the window [6, 13] of the running
    process height 9 is quoted and height 10 (the ungraded block) is not -/
theorem witness_window_has_a_hole : ¬ NoHole wP wDB 13 2 := by
  intro h
  have := h (by decide) 3 (by decide)
  revert this
  decide

/-- the hypothesis is satisfiable on a window that matters: the same rate table without the gap
    (heights 1..20 all rated) has no hole in the window [6, 13] -/
def wDBfull : DB :=
  { rates := ((List.range 20).map (· + 1)).map fun h => { height := h, token := "pUSD", value := 100 * h } }

example : NoHole wP wDBfull 13 2 := by
  intro _ i hi
  match i, hi with
  | 0, _ => decide
  | 1, _ => decide
  | 2, _ => decide
  | 3, _ => decide
  | 4, _ => decide
  | 5, _ => decide
  | 6, _ => decide
  | i + 7, hi => exact absurd hi (by show ¬ i + 7 + 1 < 8; omega)

/-- … and there the running process and a restarted one answer alike -/
example : (getAverages wP wDBfull
      (((List.range 13).map (· + 1)).foldl (fun c h => (getAverages wP wDBfull c h).1) {}) 14).2.get 2
    = (reloadAverages wP wDBfull 14).get 2 := by decide

end Pegnet.C09

#print axioms Pegnet.C09.reload_is_function_of_db
#print axioms Pegnet.C09.cache_hit
#print axioms Pegnet.C09.restart_keeps_database
#print axioms Pegnet.C09.restart_dependent_witness
#print axioms Pegnet.C09.not_restart_independent
#print axioms Pegnet.C09.block_independent_of_cache_below_pip10
#print axioms Pegnet.C09.restart_independent_partial
#print axioms Pegnet.C09.restart_independent_partial_from
#print axioms Pegnet.C09.restart_keeps_ledger
#print axioms Pegnet.C09.cache_holds_the_window
#print axioms Pegnet.C09.block_reads_averages_per_ticker
#print axioms Pegnet.C09.no_hole_when_quotes_continue
#print axioms Pegnet.C09.restart_independent_whole_windows
#print axioms Pegnet.C09.restart_independent_whole_windows_from
#print axioms Pegnet.C09.witness_window_has_a_hole
