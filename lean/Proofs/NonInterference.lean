import Proofs.Process
/-
  A relational program logic (two runs of the same program from related states) and its use:
  nothing in the block transaction READS `pn_sync_version` except the final height bump, so two
  databases that differ only in that table (e.g. by the legacy back-fill rows a restart adds) go
  through the same block with the same result.
-/
namespace Pegnet

def Res.rel {σ α} (Q : σ → σ → Prop) : Res σ α → Res σ α → Prop
  | .ok a s₁, .ok b s₂ => a = b ∧ Q s₁ s₂
  | .fail e s₁, .fail e' s₂ => e = e' ∧ Q s₁ s₂
  | _, _ => False

structure Step2 {σ α} (Q : σ → σ → Prop) (m : M σ α) : Prop where
  run : ∀ s₁ s₂, Q s₁ s₂ → Res.rel Q (m s₁) (m s₂)

namespace Step2
variable {σ α β : Type} {Q : σ → σ → Prop}

theorem pure (a : α) : Step2 Q (Pure.pure a : M σ α) := ⟨fun _ _ h => ⟨rfl, h⟩⟩
theorem pure' (a : α) : Step2 Q (M.pure a : M σ α) := ⟨fun _ _ h => ⟨rfl, h⟩⟩
theorem throw (e : Failure) : Step2 Q (M.throw e : M σ α) := ⟨fun _ _ h => ⟨rfl, h⟩⟩

theorem bind' {m : M σ α} {f : α → M σ β} (hm : Step2 Q m) (hf : ∀ a, Step2 Q (f a)) : Step2 Q (M.bind m f) := by
  constructor
  intro s₁ s₂ hq
  have h := hm.run s₁ s₂ hq
  unfold M.bind
  cases h1 : m s₁ with
  | ok a t₁ =>
    cases h2 : m s₂ with
    | ok b t₂ =>
      rw [h1, h2] at h
      obtain ⟨hab, hq'⟩ := h
      subst hab
      exact (hf a).run t₁ t₂ hq'
    | fail e t₂ => rw [h1, h2] at h; exact h.elim
  | fail e t₁ =>
    cases h2 : m s₂ with
    | ok b t₂ => rw [h1, h2] at h; exact h.elim
    | fail e' t₂ => rw [h1, h2] at h; exact h

theorem bind {m : M σ α} {f : α → M σ β} (hm : Step2 Q m) (hf : ∀ a, Step2 Q (f a)) : Step2 Q (m >>= f) :=
  bind' hm hf

theorem swallow {m : M σ Unit} (hm : Step2 Q m) : Step2 Q (M.swallow m) := by
  constructor
  intro s₁ s₂ hq
  have h := hm.run s₁ s₂ hq
  unfold M.swallow
  cases h1 : m s₁ with
  | ok a t₁ =>
    cases h2 : m s₂ with
    | ok b t₂ => rw [h1, h2] at h; exact ⟨rfl, h.2⟩
    | fail e t₂ => rw [h1, h2] at h; exact h.elim
  | fail e t₁ =>
    cases h2 : m s₂ with
    | ok b t₂ => rw [h1, h2] at h; exact h.elim
    | fail e' t₂ => rw [h1, h2] at h; exact ⟨rfl, h.2⟩

theorem forEach {l : List α} {f : α → M σ Unit} (hf : ∀ a, Step2 Q (f a)) : Step2 Q (M.forEach l f) := by
  induction l with
  | nil => exact pure' ()
  | cons x xs ih => exact bind' (hf x) (fun _ => ih)

theorem forEachIdx {l : List α} {f : Nat → α → M σ Unit} (hf : ∀ i a, Step2 Q (f i a)) :
    Step2 Q (M.forEachIdx l f) := forEach (fun p => hf p.2 p.1)

theorem foldM {f : β → α → M σ β} {l : List α} {b : β} (hf : ∀ b a, Step2 Q (f b a)) :
    Step2 Q (M.foldM f b l) := by
  induction l generalizing b with
  | nil => exact pure' b
  | cons x xs ih => exact bind' (hf b x) (fun b' => ih)

theorem guarded {g : σ → Option Failure} {u : σ → σ}
    (hg : ∀ s₁ s₂, Q s₁ s₂ → g s₁ = g s₂) (hu : ∀ s₁ s₂, Q s₁ s₂ → Q (u s₁) (u s₂)) : Step2 Q (M.guarded g u) := by
  constructor
  intro s₁ s₂ hq
  unfold M.guarded
  rw [hg s₁ s₂ hq]
  cases g s₂ with
  | some e => exact ⟨rfl, hq⟩
  | none => exact ⟨rfl, hu s₁ s₂ hq⟩

/-- reading the state: allowed when what is done with the value read does not distinguish
    related states -/
theorem get_bind {f : σ → M σ β} (hf : ∀ s₁ s₂, Q s₁ s₂ → f s₁ = f s₂) (hg : ∀ c, Step2 Q (f c)) :
    Step2 Q (M.get >>= f) := by
  constructor
  intro s₁ s₂ hq
  show Res.rel Q (f s₁ s₁) (f s₂ s₂)
  rw [hf s₁ s₂ hq]
  exact (hg s₂).run s₁ s₂ hq

end Step2

/-- equal except for the version table, which is `A` on the left and `B` on the right -/
def svRel (A B : VRows) (s₁ s₂ : DB) : Prop := s₁ = { s₂ with syncVersions := A } ∧ s₂.syncVersions = B

/-- decompose a `Step2 (svRel A B) prog` goal along the structure of `prog` -/
syntax "step2_tac" : tactic
macro_rules
  | `(tactic| step2_tac) => `(tactic|
    repeat (first
      | with_reducible exact Step2.pure _
      | with_reducible exact Step2.pure' _
      | with_reducible exact Step2.throw _
      | with_reducible assumption
      | apply_hyp
      | (with_reducible apply Step2.guarded
         · intro s₁ s₂ hq; obtain ⟨hq, hb⟩ := hq; subst hq; rfl
         · intro s₁ s₂ hq; obtain ⟨hq, hb⟩ := hq; subst hq; first | exact ⟨rfl, hb⟩ | (dsimp only; split <;> exact ⟨rfl, hb⟩))
      | (with_reducible apply Step2.get_bind
         · intro s₁ s₂ hq; obtain ⟨hq, hb⟩ := hq; subst hq; rfl)
      | with_reducible apply Step2.swallow
      | with_reducible apply Step2.forEach
      | with_reducible apply Step2.forEachIdx
      | with_reducible apply Step2.foldM
      | with_reducible apply Step2.bind
      | with_reducible apply Step2.bind'
      | intro _
      | dsimp only
      | split))

section
variable {P : Params} {h : Nat} {A B : VRows}

theorem subBal_s2 (a : Addr) (t : Ticker) (v : Nat) : Step2 (svRel A B) (subBal P a t v) := by
  unfold subBal; step2_tac

theorem recordOutputs_s2 (hash : Hash) (rates avgs : Option TMap) (idx : Nat) (t : Tx) :
    Step2 (svRel A B) (recordOutputs P h hash rates avgs idx t) := by
  unfold recordOutputs; step2_tac

theorem recordTx_s2 (hash : Hash) (rates avgs : Option TMap) (idx : Nat) (t : Tx) :
    Step2 (svRel A B) (recordTx P h hash rates avgs idx t) := by
  have c1 := @subBal_s2 P A B
  have c2 := @recordOutputs_s2 P h A B
  unfold recordTx; step2_tac

theorem recordBatch_s2 (hash : Hash) (rates avgs : Option TMap) (txs : List Tx) :
    Step2 (svRel A B) (recordBatch P h hash rates avgs txs) := by
  have c1 := @recordTx_s2 P h A B
  unfold recordBatch; step2_tac

theorem applyBatch_s2 (e : TxEntry) (rates avgs : Option TMap) : Step2 (svRel A B) (applyBatch P h e rates avgs) := by
  have c1 := @recordBatch_s2 P h A B
  unfold applyBatch; step2_tac

theorem payPegReq_s2 (rates : TMap) (r : PegReq) (y : Nat) : Step2 (svRel A B) (payPegReq P h rates r y) := by
  unfold payPegReq; step2_tac

theorem recordPegRequests_s2 (rates avgs : TMap) (bs : List TxEntry) (bank : Nat) (bh : Int) :
    Step2 (svRel A B) (recordPegRequests P h rates avgs bs bank bh) := by
  have c1 := @payPegReq_s2 P h A B
  unfold recordPegRequests; step2_tac


theorem mintTokens_s2 : Step2 (svRel A B) (mintTokens P) := by
  unfold mintTokens; step2_tac

theorem nullifyMinted_s2 (c : DB) : Step2 (svRel A B) (nullifyMinted P c) := by
  have c1 := @subBal_s2 P A B
  unfold nullifyMinted; step2_tac

theorem insertZeroingCoinbase_s2 (txid : String) (i hh : Nat) (ts : Int) (payout : Nat) (asset : String) (a : Addr) :
    Step2 (svRel A B) (insertZeroingCoinbase txid i hh ts payout asset a) := by
  unfold insertZeroingCoinbase; step2_tac

theorem nullifyBurnLoop_s2 (c : DB) (hh : Nat) (ts : Int) (a : Addr) (i j : Nat) (ts' : List Ticker) :
    Step2 (svRel A B) (nullifyBurnLoop P c hh ts a i j ts') := by
  have c1 := @subBal_s2 P A B
  have c2 := @insertZeroingCoinbase_s2 A B
  induction ts' generalizing i j with
  | nil => unfold nullifyBurnLoop; step2_tac
  | cons t rest ih =>
    unfold nullifyBurnLoop
    step2_tac

theorem nullifyBurn_s2 (c : DB) (hh : Nat) (ts : Int) : Step2 (svRel A B) (nullifyBurn P c hh ts) := by
  unfold nullifyBurn
  exact nullifyBurnLoop_s2 ..

theorem insertGradeBlock_s2 (keymr : String) (g : OprGraded) : Step2 (svRel A B) (insertGradeBlock h keymr g) := by
  unfold insertGradeBlock; step2_tac

theorem insertRates_s2 (c : DB) (assets : List (String × Nat)) (phase : Phase) :
    Step2 (svRel A B) (insertRates P c h assets phase) := by
  unfold insertRates; step2_tac

theorem snapshotPayouts_s2 (ts : Int) (rates : TMap) (order : List Addr) :
    Step2 (svRel A B) (snapshotPayouts P h ts rates order) := by
  unfold snapshotPayouts; step2_tac

theorem devPayoutLoop_s2 (ts : Int) (i j : Nat) (l : List (Addr × Nat)) :
    Step2 (svRel A B) (devPayoutLoop P h ts i j l) := by
  induction l generalizing i j with
  | nil => unfold devPayoutLoop; step2_tac
  | cons d rest ih =>
    unfold devPayoutLoop
    step2_tac

theorem developersPayouts_s2 (ts : Int) : Step2 (svRel A B) (developersPayouts P h ts) := by
  unfold developersPayouts; exact devPayoutLoop_s2 ..

theorem recordHistory_s2 (bo : Nat) (e : TxEntry) : Step2 (svRel A B) (recordHistory P h bo e) := by
  unfold recordHistory; step2_tac

theorem applyTxEntry_s2 (keymr : String) (bo : Nat) (e : TxEntry) : Step2 (svRel A B) (applyTxEntry P h keymr bo e) := by
  have c1 := @recordHistory_s2 P h A B
  have c2 := @applyBatch_s2 P h A B
  unfold applyTxEntry; step2_tac

theorem applyTransactionBlock_s2 (keymr : String) (es : List TxEntry) :
    Step2 (svRel A B) (applyTransactionBlock P h keymr es) := by
  have c1 := @applyTxEntry_s2 P h A B
  unfold applyTransactionBlock; step2_tac

theorem applyHeld_s2 (rates avgs : TMap) (e : TxEntry) : Step2 (svRel A B) (applyHeld P h rates avgs e) := by
  have c2 := @applyBatch_s2 P h A B
  unfold applyHeld; step2_tac

theorem applyHolding_s2 (c : DB) (rates avgs : TMap) (fromH : Nat) :
    Step2 (svRel A B) (applyHolding P c h rates avgs fromH) := by
  have c1 := @applyHeld_s2 P h A B
  have c2 := @recordPegRequests_s2 P h A B
  unfold applyHolding; step2_tac

theorem applyFct_s2 (rcd : Addr) (f : FctTx) : Step2 (svRel A B) (applyFct P h rcd f) := by
  unfold applyFct; step2_tac

theorem applyFactoidBlock_s2 (rcd : Addr) (fcts : List FctTx) : Step2 (svRel A B) (applyFactoidBlock P h rcd fcts) := by
  have c1 := @applyFct_s2 P h A B rcd
  unfold applyFactoidBlock; step2_tac

theorem applyGradedOPR_s2 (oh ts : Int) (ws : List OprW) : Step2 (svRel A B) (applyGradedOPR P oh ts ws) := by
  unfold applyGradedOPR; step2_tac

theorem applyGradedSPR_s2 (oh ts : Int) (ws : List SprW) : Step2 (svRel A B) (applyGradedSPR P oh ts ws) := by
  unfold applyGradedSPR; step2_tac

end

section
variable {P : Params} {A B : VRows} (c : DB) (b : Block) (avgs : TMap)

theorem gradeAndRates_s2 : Step2 (svRel A B) (gradeAndRates P c b) := by
  have c1 := @insertGradeBlock_s2 b.height A B
  have c2 := @insertRates_s2 P b.height A B
  unfold gradeAndRates; step2_tac

theorem preAdjust_s2 : Step2 (svRel A B) (preAdjust P c b.height) := by
  have c2 := @mintTokens_s2 P A B
  have c3 := @nullifyMinted_s2 P A B
  unfold preAdjust; step2_tac

theorem sprPanicCheck_s2 : Step2 (svRel A B) (sprPanicCheck b) := by
  unfold sprPanicCheck; step2_tac

theorem snapshotPhase_s2 : Step2 (svRel A B) (snapshotPhase P b) := by
  have c4 := @snapshotPayouts_s2 P b.height A B
  unfold snapshotPhase; step2_tac

theorem holdingPhase_s2 (ra : Bool) : Step2 (svRel A B) (holdingPhase P c b avgs ra) := by
  have c5 := @applyHolding_s2 P b.height A B
  unfold holdingPhase; step2_tac

theorem txBlockPhase_s2 : Step2 (svRel A B) (txBlockPhase P b) := by
  have c6 := @applyTransactionBlock_s2 P b.height A B
  unfold txBlockPhase; step2_tac

theorem txPhase_s2 (ra : Bool) : Step2 (svRel A B) (txPhase P c b avgs ra) := by
  have c1 := @snapshotPhase_s2 P A B b
  have c2 := @holdingPhase_s2 P A B c b avgs
  have c3 := @txBlockPhase_s2 P A B b
  unfold txPhase; step2_tac

theorem oprRewardPhase_s2 : Step2 (svRel A B) (oprRewardPhase P b) := by
  have c8 := @applyGradedOPR_s2 P A B
  unfold oprRewardPhase; step2_tac

theorem sprRewardPhase_s2 : Step2 (svRel A B) (sprRewardPhase P b) := by
  have c9 := @applyGradedSPR_s2 P A B
  unfold sprRewardPhase; step2_tac

theorem devRewardPhase_s2 : Step2 (svRel A B) (devRewardPhase P b) := by
  have c10 := @developersPayouts_s2 P b.height A B
  unfold devRewardPhase; step2_tac

theorem rewardPhase_s2 : Step2 (svRel A B) (rewardPhase P b) := by
  have c7 := @applyFactoidBlock_s2 P b.height A B
  have c1 := @oprRewardPhase_s2 P A B b
  have c2 := @sprRewardPhase_s2 P A B b
  have c3 := @devRewardPhase_s2 P A B b
  unfold rewardPhase; step2_tac

theorem syncBlock_s2 : Step2 (svRel A B) (syncBlock P c b avgs) := by
  have c1 := @gradeAndRates_s2 P A B c b
  have c2 := @preAdjust_s2 P A B c b
  have c3 := @sprPanicCheck_s2 A B b
  have c4 := @txPhase_s2 P A B c b avgs
  have c5 := @rewardPhase_s2 P A B b
  unfold syncBlock; step2_tac

theorem burnZeroing_s2 : Step2 (svRel A B) (burnZeroing P c b) := by
  have c2 := @nullifyBurn_s2 P A B
  unfold burnZeroing; step2_tac

end

end Pegnet

namespace Pegnet

/-! ### the committed database (pool reads) is not asked for its version table either -/

theorem syncBlock_c_blind (P : Params) (c : DB) (r : VRows) (b : Block) (avgs : TMap) :
    syncBlock P { c with syncVersions := r } b avgs = syncBlock P c b avgs := rfl

theorem nullifyBurnLoop_c_blind (P : Params) (c : DB) (r : VRows) (hh : Nat) (ts : Int) (a : Addr) (i j : Nat) (l : List Ticker) :
    nullifyBurnLoop P { c with syncVersions := r } hh ts a i j l = nullifyBurnLoop P c hh ts a i j l := by
  induction l generalizing i j with
  | nil => rfl
  | cons t rest ih =>
    unfold nullifyBurnLoop
    simp only [ih]
    rfl

theorem burnZeroing_c_blind (P : Params) (c : DB) (r : VRows) (b : Block) :
    burnZeroing P { c with syncVersions := r } b = burnZeroing P c b := by
  unfold burnZeroing nullifyBurn
  simp only [nullifyBurnLoop_c_blind]

end Pegnet

namespace Pegnet

/-- the ledger proper: every table except the version bookkeeping -/
def DB.ledger (db : DB) : DB := { db with syncVersions := [] }

theorem ledger_eq_of_sv {s₁ s₂ : DB} {A : VRows} (h : s₁ = { s₂ with syncVersions := A }) : s₁.ledger = s₂.ledger := by
  subst h; rfl

/-- Two databases that differ only in the version table go through the same block transaction
    with the same outcome, provided the height bump meets the same key situation in both. -/
theorem blockTx_sv_blind {P : Params} (c : DB) (rc : VRows) (b : Block) (avgs : TMap) (A : VRows) (s₂ : DB)
    (hg : A.any (·.1 == b.height) = s₂.syncVersions.any (·.1 == b.height)) :
    match blockTx P { c with syncVersions := rc } b avgs { s₂ with syncVersions := A }, blockTx P c b avgs s₂ with
    | .ok _ t₁, .ok _ t₂ => t₁ = { t₂ with syncVersions := A ++ [(b.height, P.syncVersion)] }
    | .fail e _, .fail e' _ => e = e'
    | _, _ => False := by
  unfold blockTx
  rw [burnZeroing_c_blind, syncBlock_c_blind]
  have hq : svRel A s₂.syncVersions { s₂ with syncVersions := A } s₂ := ⟨rfl, rfl⟩
  have h1 := (burnZeroing_s2 (P := P) (A := A) (B := s₂.syncVersions) c b).run _ _ hq
  simp only [M.bind_run]
  cases r1 : burnZeroing P c b { s₂ with syncVersions := A } with
  | fail e t₁ =>
    cases r2 : burnZeroing P c b s₂ with
    | fail e' t₂ => rw [r1, r2] at h1; exact h1.1
    | ok u t₂ => rw [r1, r2] at h1; exact h1.elim
  | ok u t₁ =>
    cases r2 : burnZeroing P c b s₂ with
    | fail e' t₂ => rw [r1, r2] at h1; exact h1.elim
    | ok u' t₂ =>
      rw [r1, r2] at h1
      have h2 := (syncBlock_s2 (P := P) (A := A) (B := s₂.syncVersions) c b avgs).run _ _ h1.2
      simp only
      cases r3 : syncBlock P c b avgs t₁ with
      | fail e w₁ =>
        cases r4 : syncBlock P c b avgs t₂ with
        | fail e' w₂ => rw [r3, r4] at h2; exact h2.1
        | ok _ w₂ => rw [r3, r4] at h2; exact h2.elim
      | ok _ w₁ =>
        cases r4 : syncBlock P c b avgs t₂ with
        | fail e' w₂ => rw [r3, r4] at h2; exact h2.elim
        | ok _ w₂ =>
          rw [r3, r4] at h2
          obtain ⟨_, hw, hwB⟩ := h2
          subst hw
          simp only [markSynced, M.guarded, hwB, hg]
          cases hany : s₂.syncVersions.any (·.1 == b.height) with
          | true => simp
          | false => simp

end Pegnet

namespace Pegnet

theorem applyBlock_sv_blind {P : Params} (n₁ n₂ : Node) (b : Block) (A : VRows)
    (hdb : n₁.db = { n₂.db with syncVersions := A }) (hmem : n₁.mem = n₂.mem)
    (hg : A.any (·.1 == b.height) = n₂.db.syncVersions.any (·.1 == b.height))
    (hlt : b.height < P.act.pip10) :
    (∃ A', (applyBlock P n₁ b).1.db = { (applyBlock P n₂ b).1.db with syncVersions := A' }) ∧
    (applyBlock P n₁ b).1.mem = (applyBlock P n₂ b).1.mem ∧ (applyBlock P n₁ b).2 = (applyBlock P n₂ b).2 := by
  unfold applyBlock
  simp only [hdb, hmem]
  generalize (getAverages P _ n₁.cache _) = g₁
  generalize (getAverages P _ n₂.cache _) = g₂
  have key := blockTx_sv_blind (P := P) { n₂.db with avgTouched := false } A b g₂.2 A { n₂.db with avgTouched := false } hg
  rw [blockTx_avgs _ b g₁.2 g₂.2 hlt]
  revert key
  generalize blockTx P { n₂.db with avgTouched := false } b g₂.2 { n₂.db with avgTouched := false } = r₂
  have e : ({ ({ n₂.db with syncVersions := A } : DB) with avgTouched := false } : DB)
      = { ({ n₂.db with avgTouched := false } : DB) with syncVersions := A } := rfl
  simp only at e ⊢
  generalize blockTx P _ b g₂.2 _ = r₁
  intro key
  cases r₁ with
  | ok u t₁ =>
    cases r₂ with
    | ok u' t₂ => simp only at key; subst key; exact ⟨⟨_, rfl⟩, rfl, rfl⟩
    | fail e' t₂ => exact key.elim
  | fail e t₁ =>
    cases r₂ with
    | ok u' t₂ => exact key.elim
    | fail e' t₂ => simp only at key; subst key; exact ⟨⟨A, rfl⟩, rfl, rfl⟩

end Pegnet

namespace Pegnet

def Ev.isAttempt : Ev → Bool
  | .attempt => true
  | _ => false

theorem inOrder_no_next {P : Params} {lo : Nat} {n : Node} (h : InOrder P lo n) :
    n.db.syncVersions.any (·.1 == n.mem + 1) = false := by
  cases hany : n.db.syncVersions.any (·.1 == n.mem + 1) with
  | false => rfl
  | true =>
    obtain ⟨r, hr, he⟩ := List.any_eq_true.1 hany
    have := h.rows_le r hr
    simp at he
    omega

/-- **Crash consistency / restart independence below PIP-10.** Take any run of the daemon —
    iterations that complete, iterations cut short by faults or kills, restarts — and erase
    everything except the completed iterations: the ledger (every table; the version table may
    differ by the legacy back-fill rows a restart writes) and the sync height are the same. -/
theorem only_attempts_matter (P : Params) (ch : Nat → Block) (hch : ∀ h, (ch h).height = h) (lo : Nat)
    (es : List Ev) (n₁ n₂ : Node) (A : VRows) (hdb : n₁.db = { n₂.db with syncVersions := A }) (hmem : n₁.mem = n₂.mem)
    (h1 : InOrder P lo n₁) (h2 : InOrder P lo n₂) (hb : BelowPip10 P ch n₁ es) :
    (runEvs P ch n₁ es).db.ledger = (runEvs P ch n₂ (es.filter Ev.isAttempt)).db.ledger ∧
    (runEvs P ch n₁ es).mem = (runEvs P ch n₂ (es.filter Ev.isAttempt)).mem := by
  induction es generalizing n₁ n₂ A with
  | nil => exact ⟨ledger_eq_of_sv hdb, hmem⟩
  | cons e rest ih =>
    obtain ⟨hlt, hb'⟩ := hb
    cases e with
    | attempt =>
      have hf : (Ev.attempt :: rest).filter Ev.isAttempt = Ev.attempt :: rest.filter Ev.isAttempt := rfl
      rw [hf]
      show (runEvs P ch (stepEv P ch n₁ .attempt) rest).db.ledger = (runEvs P ch (stepEv P ch n₂ .attempt) _).db.ledger ∧
           (runEvs P ch (stepEv P ch n₁ .attempt) rest).mem = (runEvs P ch (stepEv P ch n₂ .attempt) _).mem
      have e1 : stepEv P ch n₁ .attempt = (applyBlock P n₁ (ch (n₁.mem + 1))).1 := rfl
      have e2 : stepEv P ch n₂ .attempt = (applyBlock P n₂ (ch (n₁.mem + 1))).1 := by simp only [stepEv, hmem]
      have hblk : (ch (n₁.mem + 1)).height < P.act.pip10 := by rw [hch]; exact hlt
      have hg : A.any (·.1 == (ch (n₁.mem + 1)).height) = n₂.db.syncVersions.any (·.1 == (ch (n₁.mem + 1)).height) := by
        rw [hch]
        have a1 := inOrder_no_next h1
        have a2 := inOrder_no_next h2
        rw [hdb] at a1
        rw [← hmem] at a2
        exact a1.trans a2.symm
      obtain ⟨⟨A', hA'⟩, hm', _⟩ := applyBlock_sv_blind (P := P) n₁ n₂ (ch (n₁.mem + 1)) A hdb hmem hg hblk
      apply ih _ _ A'
      · rw [e1, e2]; exact hA'
      · rw [e1, e2]; exact hm'
      · rw [e1]; exact inOrder_attempt _ (hch _) h1
      · rw [e2]; exact inOrder_attempt _ (by rw [hch, hmem]) h2
      · exact hb'
    | aborted t =>
      have hf : (Ev.aborted t :: rest).filter Ev.isAttempt = rest.filter Ev.isAttempt := rfl
      rw [hf]
      show (runEvs P ch (stepEv P ch n₁ (.aborted t)) rest).db.ledger = _ ∧ (runEvs P ch (stepEv P ch n₁ (.aborted t)) rest).mem = _
      apply ih _ _ A
      · simp only [stepEv]; split <;> exact hdb
      · simp only [stepEv]; split <;> exact hmem
      · simp only [stepEv]; split
        · exact { mem_ge := h1.mem_ge, synced := h1.synced, rows_le := h1.rows_le, nodup := h1.nodup, rows := h1.rows }
        · exact h1
      · exact h2
      · exact hb'
    | restart =>
      have hf : (Ev.restart :: rest).filter Ev.isAttempt = rest.filter Ev.isAttempt := rfl
      rw [hf]
      show (runEvs P ch (stepEv P ch n₁ .restart) rest).db.ledger = _ ∧ (runEvs P ch (stepEv P ch n₁ .restart) rest).mem = _
      apply ih _ _ (backfill P.forks n₁.db.synced n₁.db.syncVersions)
      · simp only [stepEv, restart, hdb]
      · show (restart P n₁).mem = n₂.mem
        rw [← hmem]; exact h1.synced
      · exact inOrder_restart h1
      · exact h2
      · exact hb'

/-- a run of completed iterations only is the replay of the chain's consecutive blocks -/
theorem attempts_are_runBlocks (P : Params) (ch : Nat → Block) (k : Nat) (n : Node) :
    ∃ blocks, runEvs P ch n (List.replicate k .attempt) = runBlocks P n blocks := by
  induction k generalizing n with
  | zero => exact ⟨[], rfl⟩
  | succ k ih =>
    obtain ⟨bs, hbs⟩ := ih (stepEv P ch n .attempt)
    exact ⟨ch (n.mem + 1) :: bs, by rw [List.replicate_succ]; show runEvs P ch (stepEv P ch n .attempt) _ = _; rw [hbs]; rfl⟩

end Pegnet
