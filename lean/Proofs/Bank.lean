import Proofs.Supply
import Proofs.Payouts
/-
  C16 at the level of `recordPegnetRequests` (the second pass of the bank era): what the pass
  does to the PEG supply and to the bank row.
-/
namespace Pegnet

theorem setPegConverted_addrs {hash : Hash} {i : Nat} {a : Int} {o : String} {s s' : DB}
    (h : setPegConverted hash i a o s = .ok () s') : s'.addrs = s.addrs ∧ s'.bank = s.bank := by
  simp only [setPegConverted, M.guarded] at h
  injection h with _ hs; subst hs; exact ⟨rfl, rfl⟩

/-- one request paid: the PEG supply grows by the yield (when the source asset is not PEG), the
    source asset's by the refund -/
theorem payPegReq_supply (P : Params) (h : Nat) (rates : TMap) (r : PegReq) (y : Nat) (s s' : DB) (hok : AddrsOK s)
    (hc : r.tx.conversion = tPEG) (hsrc : r.tx.inType ≠ tPEG)
    (hr : payPegReq P h rates r y s = .ok () s') :
    s'.supply tPEG = s.supply tPEG + (y : Int) ∧ AddrsOK s' ∧ s'.bank = s.bank := by
  unfold payPegReq at hr
  obtain ⟨_, s1, h1, hr⟩ := M.bind_ok hr
  obtain ⟨_, s2, h2, h3⟩ := M.bind_ok hr
  obtain ⟨ha1, hb1⟩ := setPegConverted_addrs h1
  have hok1 : AddrsOK s1 := by unfold AddrsOK at *; rw [ha1]; exact hok
  obtain ⟨hs2, hok2⟩ := addBal_supply P r.tx.inAddr r.tx.conversion y s1 s2 hok1 h2
  obtain ⟨hs3, hok3⟩ := addBal_supply P r.tx.inAddr r.tx.inType _ s2 s' hok2 h3
  have hb2 : s2.bank = s1.bank := by
    simp only [addBal, M.guarded] at h2
    split at h2
    · cases h2
    · injection h2 with _ hs; subst hs; rfl
  have hb3 : s'.bank = s2.bank := by
    simp only [addBal, M.guarded] at h3
    split at h3
    · cases h3
    · injection h3 with _ hs; subst hs; rfl
  refine ⟨?_, hok3, by rw [hb3, hb2, hb1]⟩
  rw [hs3 tPEG, hs2 tPEG]
  have e1 : DB.supply s1 tPEG = DB.supply s tPEG := by unfold DB.supply; rw [ha1]
  rw [e1, hc]
  simp [hsrc]

/-- the paying loop: PEG supply grows by the sum of the yields handed out -/
theorem payLoop_supply (P : Params) (h : Nat) (rates : TMap) :
    ∀ (l : List (PegReq × (TxKey × Nat))) (s s' : DB), AddrsOK s →
      (∀ rp ∈ l, rp.1.tx.conversion = tPEG ∧ rp.1.tx.inType ≠ tPEG) →
      M.forEach l (fun rp => payPegReq P h rates rp.1 rp.2.2) s = .ok () s' →
      s'.supply tPEG = s.supply tPEG + ((l.map (fun rp => (rp.2.2 : Int))).sum) ∧ AddrsOK s' ∧ s'.bank = s.bank
  | [], s, s', hok, _, hr => by
    simp only [M.forEach, M.pure_run'] at hr
    injection hr with _ hs; subst hs
    exact ⟨by simp, hok, rfl⟩
  | rp :: rest, s, s', hok, hall, hr => by
    simp only [M.forEach] at hr
    obtain ⟨_, s1, h1, h2⟩ := M.bind_ok (m := payPegReq P h rates rp.1 rp.2.2) hr
    obtain ⟨hc, hsrc⟩ := hall rp List.mem_cons_self
    obtain ⟨e1, hok1, hb1⟩ := payPegReq_supply P h rates rp.1 rp.2.2 s s1 hok hc hsrc h1
    obtain ⟨e2, hok2, hb2⟩ := payLoop_supply P h rates rest s1 s' hok1 (fun x hx => hall x (List.mem_cons_of_mem _ hx)) h2
    refine ⟨?_, hok2, by rw [hb2, hb1]⟩
    rw [e2, e1]
    simp only [List.map_cons, List.sum_cons]
    omega

theorem sum_zip_snd {α} (l : List α) (ps : List (TxKey × Nat)) (hlen : l.length = ps.length) :
    ((l.zip ps).map (fun rp => (rp.2.2 : Int))).sum = (sumReq ps : Int) := by
  induction l generalizing ps with
  | nil =>
    cases ps with
    | nil => simp [sumReq]
    | cons _ _ => simp at hlen
  | cons x xs ih =>
    cases ps with
    | nil => simp at hlen
    | cons p ps =>
      simp only [List.zip_cons_cons, List.map_cons, List.sum_cons, sumReq_cons]
      rw [ih ps (by simpa using hlen)]
      omega

/-- **The bank pass of one block.** When every transaction handed to the pass is a genuine PEG
    request (conversion into PEG from another asset — the shape `IsPEGRequest` describes; batches
    that mix a request with other transactions are the recorded finding), the PEG created by the
    pass is exactly the sum of `ConversionSupplySet.Payouts` over the requests, which never
    exceeds the bank. -/
theorem recordPegRequests_supply (P : Params) (h : Nat) (rates avgs : TMap) (batches : List TxEntry)
    (bank : Nat) (bankHeight : Int) (s s' : DB) (hok : AddrsOK s) (hb : bank ≤ maxUint64)
    (hall : ∀ r ∈ pegRequests P h rates avgs batches, r.tx.conversion = tPEG ∧ r.tx.inType ≠ tPEG)
    (hr : recordPegRequests P h rates avgs batches bank bankHeight s = .ok () s') :
    s'.supply tPEG = s.supply tPEG +
      (sumReq (payouts bank ((pegRequests P h rates avgs batches).map fun r => (r.key, r.requested))) : Int) ∧
    sumReq (payouts bank ((pegRequests P h rates avgs batches).map fun r => (r.key, r.requested))) ≤ bank := by
  unfold recordPegRequests at hr
  simp only at hr
  by_cases hdup : hasDupKey ((pegRequests P h rates avgs batches).map (·.key)) = true
  · rw [if_pos hdup] at hr
    simp only [M.bind_run, M.throw_run] at hr
    cases hr
  · rw [if_neg hdup] at hr
    simp only [M.bind_run, M.pure_run] at hr
    generalize hreqs : pegRequests P h rates avgs batches = reqs at hr hall hdup ⊢
    cases hl : M.forEach (reqs.zip (payouts bank (reqs.map fun r => (r.key, r.requested))))
        (fun rp => payPegReq P h rates rp.1 rp.2.2) s with
    | fail e t => rw [hl] at hr; cases hr
    | ok u s1 =>
      rw [hl] at hr
      have hmem : ∀ rp ∈ reqs.zip (payouts bank (reqs.map fun r => (r.key, r.requested))),
          rp.1.tx.conversion = tPEG ∧ rp.1.tx.inType ≠ tPEG := by
        intro rp hrp
        exact hall rp.1 (List.of_mem_zip hrp).1
      obtain ⟨e1, hok1, hb1⟩ := payLoop_supply P h rates _ s s1 hok hmem hl
      have hlen : reqs.length = (payouts bank (reqs.map fun r => (r.key, r.requested))).length := by
        have := congrArg List.length (payouts_keys bank (reqs.map fun r => (r.key, r.requested)))
        simpa using this.symm
      rw [sum_zip_snd reqs _ hlen] at e1
      have hsup : s'.supply tPEG = s1.supply tPEG := by
        simp only at hr
        split at hr
        · simp only [updateBank, M.guarded] at hr
          split at hr
          · cases hr
          · injection hr with _ hs; subst hs; rfl
        · injection hr with _ hs; subst hs; rfl
      refine ⟨by rw [hsup, e1], ?_⟩
      -- the keys are distinct (the duplicate check passed)
      have hnd : ((reqs.map fun r => (r.key, r.requested)).map (·.1)).Nodup := by
        have hk : (reqs.map fun r => (r.key, r.requested)).map (·.1) = reqs.map (·.key) := by
          simp [List.map_map, Function.comp]
        rw [hk]
        have : ∀ ks : List TxKey, hasDupKey ks = false → ks.Nodup := by
          intro ks
          induction ks with
          | nil => intro _; exact List.nodup_nil
          | cons k rest ih =>
            intro hd
            simp only [hasDupKey, Bool.or_eq_false_iff] at hd
            refine List.nodup_cons.2 ⟨?_, ih hd.2⟩
            intro hin
            have := hd.1
            simp [List.contains_iff_mem, hin] at this
        exact this _ (by simpa using hdup)
      by_cases hne : (reqs.map fun r => (r.key, r.requested)) = []
      · rw [hne]; simp [payouts, sumReq]
      · rw [payouts_sum bank _ hb hnd hne]
        split <;> omega


theorem payLoop_bank (P : Params) (h : Nat) (rates : TMap) :
    ∀ (l : List (PegReq × (TxKey × Nat))) (s s' : DB),
      M.forEach l (fun rp => payPegReq P h rates rp.1 rp.2.2) s = .ok () s' → s'.bank = s.bank
  | [], s, s', hr => by
    simp only [M.forEach, M.pure_run'] at hr
    injection hr with _ hs; subst hs; rfl
  | rp :: rest, s, s', hr => by
    simp only [M.forEach] at hr
    obtain ⟨_, s1, h1, h2⟩ := M.bind_ok (m := payPegReq P h rates rp.1 rp.2.2) hr
    rw [payLoop_bank P h rates rest s1 s' h2]
    unfold payPegReq at h1
    obtain ⟨_, t1, g1, h1⟩ := M.bind_ok h1
    obtain ⟨_, t2, g2, g3⟩ := M.bind_ok h1
    have b1 := (setPegConverted_addrs g1).2
    have b2 : t2.bank = t1.bank := by
      simp only [addBal, M.guarded] at g2
      split at g2
      · cases g2
      · injection g2 with _ hs; subst hs; rfl
    have b3 : s1.bank = t2.bank := by
      simp only [addBal, M.guarded] at g3
      split at g3
      · cases g3
      · injection g3 with _ hs; subst hs; rfl
    rw [b3, b2, b1]

/-- **The bank ledger.** In the bank-table era (`bankHeight ≥ V4`) the row of the block records
    what was used — the sum of the yields handed out — and what was requested in total; the
    amount available is left as inserted; no other row changes. -/
theorem recordPegRequests_bank_row (P : Params) (h : Nat) (rates avgs : TMap) (batches : List TxEntry)
    (bank : Nat) (bankHeight : Int) (s s' : DB) (hv4 : bankHeight ≥ (P.act.v4 : Int))
    (hr : recordPegRequests P h rates avgs batches bank bankHeight s = .ok () s') :
    let reqs := (pegRequests P h rates avgs batches).map fun r => (r.key, r.requested)
    s'.bank = s.bank.map (fun r => if r.height == bankHeight then
      { r with used := ((payouts bank reqs).map (fun p => toInt64 p.2)).sum, requested := toInt64 (totalRequested reqs) } else r) := by
  unfold recordPegRequests at hr
  simp only at hr ⊢
  by_cases hdup : hasDupKey ((pegRequests P h rates avgs batches).map (·.key)) = true
  · rw [if_pos hdup] at hr
    simp only [M.bind_run, M.throw_run] at hr
    cases hr
  · rw [if_neg hdup] at hr
    simp only [M.bind_run] at hr
    cases hl : M.forEach ((pegRequests P h rates avgs batches).zip
        (payouts bank ((pegRequests P h rates avgs batches).map fun r => (r.key, r.requested))))
        (fun rp => payPegReq P h rates rp.1 rp.2.2) s with
    | fail e t => rw [hl] at hr; cases hr
    | ok u s1 =>
      rw [hl] at hr
      have hb1 := payLoop_bank P h rates _ s s1 hl
      simp only [hv4, if_true] at hr
      simp only [updateBank, M.guarded] at hr
      split at hr
      · cases hr
      · injection hr with _ hs
        subst hs
        simp only [hb1]

end Pegnet
