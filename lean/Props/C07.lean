import Proofs.Arith
import Proofs.Holding
import Proofs.Averages
import Pegnet.Generated.Facts
import Proofs.RestartAvg
/-
  C07 — Conversions execute later, at the next graded block's rates, exactly.
  Property theorems only (helper lemmas are in Proofs/).
-/
namespace Pegnet.C07
open Pegnet

/-- `Convert` succeeds exactly under its guards, and then returns
    ⌊amount × source / destination⌋, which fits in an int64. -/
theorem convert_exact (pip10 h : Nat) (amt : Int) (fr fa tr ta : Nat) (x : Int) :
    convert pip10 h amt fr fa tr ta = some x ↔
      (0 ≤ amt ∧ fr ≠ 0 ∧ tr ≠ 0 ∧ (h ≥ pip10 → fa ≠ 0 ∧ ta ≠ 0)) ∧
      x = amt * (srcRate pip10 h fr fa : Int) / (dstRate pip10 h tr ta : Int) ∧ x ≤ (maxInt64 : Int) :=
  convert_eq pip10 h amt fr fa tr ta x

/-- the result is the floor of the exact quotient: x·dst ≤ amt·src < (x+1)·dst -/
theorem convert_is_floor {pip10 h : Nat} {amt : Int} {fr fa tr ta : Nat} {x : Int}
    (hc : convert pip10 h amt fr fa tr ta = some x) :
    x * (dstRate pip10 h tr ta : Int) ≤ amt * (srcRate pip10 h fr fa : Int) ∧
    amt * (srcRate pip10 h fr fa : Int) < (x + 1) * (dstRate pip10 h tr ta : Int) :=
  convert_floor hc

/-- once averaging is active the source rate is min(spot, average), the destination rate
    max(spot, average); before, the spot rates. -/
theorem rates_used (pip10 h fr fa tr ta : Nat) :
    (h ≥ pip10 → srcRate pip10 h fr fa = min fr fa ∧ dstRate pip10 h tr ta = max tr ta) ∧
    (h < pip10 → srcRate pip10 h fr fa = fr ∧ dstRate pip10 h tr ta = tr) :=
  ⟨fun hp => ⟨srcRate_pip10 hp fr fa, dstRate_pip10 hp tr ta⟩,
   fun hp => ⟨srcRate_pre hp fr fa, dstRate_pre hp tr ta⟩⟩

/-- a conversion never yields more USD value (at spot rates) than was put in -/
theorem convert_value_nonincreasing {pip10 h : Nat} {amt : Int} {fr fa tr ta : Nat} {x : Int}
    (hc : convert pip10 h amt fr fa tr ta = some x) :
    x * (tr : Int) ≤ amt * (fr : Int) := convert_value_le hc

/-- every way `Convert` can fail -/
theorem convert_rejects (pip10 h : Nat) (amt : Int) (fr fa tr ta : Nat) :
    convert pip10 h amt fr fa tr ta = none ↔
      (amt < 0 ∨ fr = 0 ∨ tr = 0 ∨ (h ≥ pip10 ∧ (fa = 0 ∨ ta = 0)) ∨
       amt * (srcRate pip10 h fr fa : Int) / (dstRate pip10 h tr ta : Int) > (maxInt64 : Int)) := by
  rw [convert_def]
  by_cases h1 : amt < 0
  · rw [if_pos h1]; exact ⟨fun _ => Or.inl h1, fun _ => rfl⟩
  · rw [if_neg h1]
    by_cases h2 : fr = 0 ∨ tr = 0
    · rw [if_pos h2]
      refine ⟨fun _ => ?_, fun _ => rfl⟩
      rcases h2 with h2 | h2
      · exact Or.inr (Or.inl h2)
      · exact Or.inr (Or.inr (Or.inl h2))
    · rw [if_neg h2]
      by_cases h3 : h ≥ pip10 ∧ (fa = 0 ∨ ta = 0)
      · rw [if_pos h3]
        exact ⟨fun _ => Or.inr (Or.inr (Or.inr (Or.inl h3))), fun _ => rfl⟩
      · rw [if_neg h3]
        by_cases h4 : amt * (srcRate pip10 h fr fa : Int) / (dstRate pip10 h tr ta : Int) ≤ (maxInt64 : Int)
        · rw [if_pos h4]
          constructor
          · intro hh; cases hh
          · intro hh
            rcases hh with hh | hh | hh | hh | hh
            · exact absurd hh h1
            · exact absurd (Or.inl hh) h2
            · exact absurd (Or.inr hh) h2
            · exact absurd hh h3
            · omega
        · rw [if_neg h4]
          exact ⟨fun _ => Or.inr (Or.inr (Or.inr (Or.inr (by omega)))), fun _ => rfl⟩

/-! non-vacuity: concrete conversions meeting the hypotheses -/
example : convert 100 5 1000 200 0 300 0 = some 666 := by decide
example : convert 100 150 1000 200 150 300 400 = some 375 := by decide   -- PIP-10: min(200,150)/max(300,400)
example : convert 100 5 9223372036854775807 2 0 1 0 = none := by decide  -- overflow

/-- "…at the next graded block": the first rated block after a conversion was put in holding
    walks every height since the previous rated block, so the conversion is dealt with in THAT
    block (status written / replay mark / not computable) — it cannot be passed over and picked
    up by a later one. Block-level statement, proved in `Proofs/Holding.lean`. -/
theorem executes_at_first_rated_block {P : Params} {c : DB} {b : Block} {avgs : TMap} {s' : DB}
    (hpos : 0 < b.height) (hrun : blockTx P c b avgs c = .ok () s') (htx : b.height ≥ P.act.txConv) :
    (∃ s1 s2 st, gradeAndRates P c b s1 = .ok st s2 ∧ st ≠ .cont true) ∨
    ∃ rates, ∀ row ∈ c.holding, (c.mostRecentRatesBefore b.height).2 ≤ row.height → row.height < b.height →
      Considered P b.height rates avgs c s' row.entry :=
  block_considers_held hpos hrun htx

/-! ### "averages taken at the last rated height before the executing block" -/

/-- `SelectMostRecentRatesBeforeHeight(h)`, whose height is where the averages are taken, is the
    greatest rated height strictly below `h`: it is rated, below `h`, and nothing rated lies
    between it and `h`. -/
theorem last_rated_height_is_greatest_below (db : DB) (h : Nat) (r : RateRow) (hr : r ∈ db.rates) (hlt : r.height < h) :
    (db.mostRecentRatesBefore h).2 < h ∧ (∃ r' ∈ db.rates, r'.height = (db.mostRecentRatesBefore h).2) ∧
      ∀ r' ∈ db.rates, r'.height < h → r'.height ≤ (db.mostRecentRatesBefore h).2 :=
  mostRecentRatesBefore_spec db h r hr hlt

/-- One iteration of the sync loop prices the block with the averages `GetPegNetRateAverages`
    gives for THAT height on the committed database, starting from the node's cache — and with
    nothing else: the block transaction is the function `blockTx` of exactly these averages. -/
theorem block_priced_with_averages_at_last_rated_height (P : Params) (n : Node) (b : Block) :
    let c := { n.db with avgTouched := false }
    let avgs := (getAverages P c n.cache (c.mostRecentRatesBefore b.height).2).2
    (applyBlock P n b).2 = (match blockTx P c b avgs c with | .ok _ _ => none | .fail e _ => some e) := by
  unfold applyBlock
  dsimp only
  generalize blockTx P _ b _ _ = r
  cases r <;> rfl

/-- and whenever the node's cache moves, it moves to that height -/
theorem cache_height_after_block (P : Params) (n : Node) (b : Block) :
    (applyBlock P n b).1.cache = n.cache ∨
    (applyBlock P n b).1.cache.height = (({ n.db with avgTouched := false } : DB).mostRecentRatesBefore b.height).2 := by
  unfold applyBlock
  dsimp only
  split <;> (dsimp only; split)
  · right; exact getAverages_height P _ _ _
  · left; rfl
  · right; exact getAverages_height P _ _ _
  · left; rfl

end Pegnet.C07

namespace Pegnet.C07
open Pegnet
/-- the shipped schedule, regenerated from config/activations.go and fat/fat2/activations.go on every
    run, against the values this property was read with: the height from which conversions are priced against the rolling averages. Every scenario of the harness
    runs on a compressed schedule that overwrites these constants, so nothing else would notice one of
    them moving; a moved height is a different protocol, not a rewrite. -/
theorem shipped_schedule :
    let a := Generated.activations
    Generated.activationsComplete = true ∧ a.pip10 = 295190 := by
  decide
end Pegnet.C07

namespace Pegnet.C07
open Pegnet
/-- **"average" means the mean over the height window.** Along any chain applied in order whose
    averaging windows have no hole, the average the next block's conversions are priced with
    (min(spot, ·) on the source, max(spot, ·) on the destination) is, for every asset, the mean of the
    quotes the rate table holds for it at the heights of the window ending at the last rated height
    before the block — 0 (unavailable) when fewer than `AverageRequired` of them are non-zero. It does
    not depend on which of the three paths of `GetPegNetRateAverages` produced it, nor on anything
    else the process has seen. -/
theorem priced_with_the_window_mean (P : Params) (hp : 0 < P.avgPeriod) (bs : List Block) (b : Block)
    (hw : WholeChain P (freshNode P) (bs ++ [b])) (t : Ticker) :
    let n := runBlocks P (freshNode P) bs
    (getAverages P { n.db with avgTouched := false } n.cache
        (({ n.db with avgTouched := false } : DB).mostRecentRatesBefore b.height).2).2.get t
      = avgOf P (window P n.db (n.db.mostRecentRatesBefore b.height).2 t) := by
  obtain ⟨h1, _, h3⟩ := wholeChain_append P bs b _ hw
  exact pricing_average_is_window_mean P hp _ b
    (runBlocks_good P hp bs _ ⟨cacheOK_empty P, cacheSem_empty P _, Nat.zero_le _⟩ h1) h3 t
end Pegnet.C07

#print axioms Pegnet.C07.convert_exact
#print axioms Pegnet.C07.convert_is_floor
#print axioms Pegnet.C07.rates_used
#print axioms Pegnet.C07.convert_value_nonincreasing
#print axioms Pegnet.C07.convert_rejects
#print axioms Pegnet.C07.executes_at_first_rated_block
#print axioms Pegnet.C07.last_rated_height_is_greatest_below
#print axioms Pegnet.C07.block_priced_with_averages_at_last_rated_height
#print axioms Pegnet.C07.cache_height_after_block
#print axioms Pegnet.C07.shipped_schedule
#print axioms Pegnet.C07.priced_with_the_window_mean
