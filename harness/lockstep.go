package main

// Lock-step execution: the same block goes to the real daemon and to the Lean model; after each
// block the canonical dumps are compared.

import (
	"encoding/json"
	"fmt"
	"io/ioutil"
	"os"
	"path/filepath"
	"strings"

	"github.com/Factom-Asset-Tokens/factom"
)

type StepResult struct {
	Height    uint32
	ImplOK    bool
	ImplMsg   string
	ImplClass string
	ModelAns  string // "ok" or "fail <class…>"
	ModelClass string
	Diff      string // first differing dump line ("" = equal)
	Dump      []string
}

type Run struct {
	S     Setup
	Fake  *FakeFactom
	D     *Daemon
	M     *Model
	Dir   string
	Chain []*BlockSpec
	Steps []StepResult
	Keep  map[string]bool // dump footprint (nil = everything)
	NoModel bool
	FullEvery int // compare full dumps every n-th block (0/1 = every block); light dumps otherwise
	nstep int
	ForceFull bool
	reported map[string]bool
}

func NewRun(s Setup) (*Run, error) {
	s.Apply()
	r := &Run{S: s, Fake: NewFakeFactom(), Dir: tempDir("verif-run-")}
	d, err := OpenDaemon(r.Dir, r.Fake)
	if err != nil {
		return nil, err
	}
	r.D = d
	r.Fake.SetTip(s.Acts.Pegnet)
	d.Start()
	m, err := StartModel()
	if err != nil {
		return nil, err
	}
	r.M = m
	m.Must(ParamsLine(s))
	return r, nil
}

func (r *Run) Close() {
	if r.D != nil {
		r.D.Stop()
	}
	if r.M != nil {
		r.M.Close()
	}
	os.RemoveAll(r.Dir)
}

// RestartDaemon stops the daemon cleanly and starts a fresh one on the same database.
func (r *Run) RestartDaemon() error {
	r.D.Stop()
	d, err := OpenDaemon(r.Dir, r.Fake)
	if err != nil {
		return err
	}
	r.D = d
	d.Start()
	if r.M != nil {
		r.M.Must("restart")
	}
	return nil
}

func modelClass(ans string) string {
	if ans == "ok" {
		return "ok"
	}
	f := strings.Fields(ans)
	if len(f) < 2 {
		return ans
	}
	raw := unhexStr(f[1])
	switch {
	case strings.HasPrefix(raw, "constraint:"):
		return raw
	case strings.HasPrefix(raw, "sqlerror:"):
		return "sqlerror"
	case strings.HasPrefix(raw, "uncaught:"):
		return "uncaught"
	case strings.HasPrefix(raw, "panic:"):
		return "panic"
	case strings.HasPrefix(raw, "grader:"):
		return "grader"
	case strings.HasPrefix(raw, "upstream:"):
		return "upstream"
	}
	return raw
}

func unhexStr(s string) string {
	if s == "-" {
		return ""
	}
	b := make([]byte, len(s)/2)
	for i := 0; i+1 < len(s); i += 2 {
		var v byte
		fmt.Sscanf(s[i:i+2], "%02x", &v)
		b[i/2] = v
	}
	return string(b)
}

// Step installs the block, lets the real daemon attempt it, feeds it to the model and compares.
func (r *Run) Step(b *BlockSpec) StepResult {
	r.Fake.Install(b)
	r.Chain = append(r.Chain, b)
	synced, msg := r.D.StepTo(b.Height)
	res := StepResult{Height: b.Height, ImplOK: synced >= int64(b.Height), ImplMsg: msg}
	if res.ImplOK {
		res.ImplClass = "ok"
	} else {
		res.ImplClass = classify(msg)
	}
	r.nstep++
	full := r.FullEvery <= 1 || r.nstep%r.FullEvery == 0 || !res.ImplOK || r.ForceFull
	var dump []string
	var err error
	if full {
		dump, err = DumpDB(r.D.DBPath)
	} else {
		dump, err = DumpLight(r.D.DBPath)
	}
	if err != nil {
		res.Diff = "dump error: " + err.Error()
		r.Steps = append(r.Steps, res)
		return res
	}
	res.Dump = dump
	if !r.NoModel {
		// (no order oracle is passed: since the tie-break fix the payout order is a function of the
		// stakes and addresses, and the model's canonical order must match it)
		res.ModelAns = r.M.FeedBlock(b)
		res.ModelClass = modelClass(res.ModelAns)
		var md []string
		if full {
			md = r.M.Dump()
		} else {
			md = r.M.DumpLight()
		}
		if full && res.ImplOK && curReport != nil {
			r.universalMonitors(b, dump, md)
		}
		res.Diff = FirstDiff(FilterDump(dump, r.Keep), FilterDump(md, r.Keep))
		if res.Diff == "" && res.ImplClass != res.ModelClass {
			res.Diff = fmt.Sprintf("outcome: impl=%s (%s) model=%s", res.ImplClass, msg, res.ModelClass)
		}
	}
	r.Steps = append(r.Steps, res)
	return res
}

// curReport is the report of the scenario this process runs (one scenario per process).
var curReport *Report

// universalMonitors are specifications that need nothing but the implementation's own dump and
// are therefore evaluated after every fully dumped block of every lock-step scenario.
func (r *Run) universalMonitors(b *BlockSpec, dump, modelDump []string) {
	L := ParseDump(dump)
	// C06 / C07 / C17: a conversion placed in holding is considered by the first rated block
	// after it (ApplyTransactionBatchesInHolding walks every height since the last rated one):
	// once a later rated block is applied its history row must carry an outcome (height or
	// reject code). The one exception the rules know is a batch whose conversion cannot be
	// computed (overflow, no average under PIP-10): it is dropped without a status — the model
	// leaves it pending too, and that case is reported under its own signature (a C17 matter).
	modelPending := map[string]bool{}
	for _, mb := range ParseDump(modelDump).B {
		if mb.exec == 0 {
			modelPending[mb.hash] = true
		}
	}
	for _, po := range L.PassedOver() {
		sig := "holding:passed-over"
		if modelPending[po[0]] {
			sig = "holding:unconvertible-stays-pending"
		}
		if r.reported == nil {
			r.reported = map[string]bool{}
		}
		if r.reported[sig+po[0]] {
			continue
		}
		r.reported[sig+po[0]] = true
		path := WriteReplay(curReport.Property, curReport.Scenario+"-"+strings.TrimPrefix(sig, "holding:"), Replay{Property: curReport.Property, Scenario: curReport.Scenario, Seed: curReport.Seed, Setup: r.S,
			What: fmt.Sprintf("height %d: %s", b.Height, po[1]), Blocks: ChainJSON(r.Chain)})
		curReport.Violate(sig, fmt.Sprintf("height %d: %s", b.Height, po[1]), path)
	}
}

// RecoverFrom handles a block the daemon could not apply: the daemon is restarted when it
// panicked (its goroutine is gone and a transaction is left open), and the fake node's tip is
// pulled back so that the next Step can replace the block.
func (r *Run) RecoverFrom(res StepResult) error {
	if res.ImplOK {
		return nil
	}
	r.Fake.SetTip(res.Height - 1)
	if strings.HasPrefix(res.ImplMsg, "panic:") {
		r.D.Stop()
		d, err := OpenDaemon(r.Dir, r.Fake)
		if err != nil {
			return err
		}
		r.D = d
		d.Start()
		// the model keeps its in-memory state: a crash loses the cache, as a restart does
		if r.M != nil {
			r.M.Must("restart")
		}
	}
	return nil
}

/* ---------- replay files ---------- */

type entryJSON struct {
	ExtIDs  []string `json:"extids"`
	Content string   `json:"content"`
}
type fctJSON struct {
	Raw string `json:"raw"`
}
type blockJSON struct {
	Height uint32      `json:"height"`
	OPR    []entryJSON `json:"opr,omitempty"`
	SPR    []entryJSON `json:"spr,omitempty"`
	TX     []entryJSON `json:"tx,omitempty"`
	FCT    []fctJSON   `json:"fct,omitempty"`
}
type Replay struct {
	Property string      `json:"property"`
	Scenario string      `json:"scenario"`
	Seed     int64       `json:"seed"`
	Setup    Setup       `json:"setup"`
	What     string      `json:"what"`
	Detail   []string    `json:"detail,omitempty"`
	Blocks   []blockJSON `json:"blocks,omitempty"`
	Extra    interface{} `json:"extra,omitempty"`
}

func entriesJSON(es []factom.Entry) []entryJSON {
	var out []entryJSON
	for _, e := range es {
		j := entryJSON{Content: hx(e.Content)}
		for _, x := range e.ExtIDs {
			j.ExtIDs = append(j.ExtIDs, hx(x))
		}
		out = append(out, j)
	}
	return out
}

func ChainJSON(chain []*BlockSpec) []blockJSON {
	var out []blockJSON
	for _, b := range chain {
		j := blockJSON{Height: b.Height, OPR: entriesJSON(b.OPR), SPR: entriesJSON(b.SPR), TX: entriesJSON(b.TX)}
		for i := range b.FCT {
			raw, _ := b.FCT[i].MarshalBinary()
			j.FCT = append(j.FCT, fctJSON{Raw: hx(raw)})
		}
		out = append(out, j)
	}
	return out
}

func WriteReplay(prop, name string, rp Replay) string {
	dir := filepath.Join(verifRoot(), "replays")
	os.MkdirAll(dir, 0755)
	path := filepath.Join(dir, fmt.Sprintf("%s-%s-seed%d.json", prop, name, rp.Seed))
	data, _ := json.MarshalIndent(rp, "", " ")
	ioutil.WriteFile(path, data, 0644)
	return path
}

func verifRoot() string {
	if p := os.Getenv("VERIF_ROOT"); p != "" {
		return p
	}
	return "/verif"
}
