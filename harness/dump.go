package main

// Canonical ledger dump (DESIGN §4.2): one line per row; the same normalisation is applied to
// the model's dump so the two texts can be compared line by line.

import (
	"database/sql"
	"encoding/hex"
	"encoding/json"
	"fmt"
	"sort"
	"strings"

	"github.com/Factom-Asset-Tokens/factom"
	"github.com/pegnet/pegnetd/fat/fat2"
)

func jsonUnmarshal(data []byte, v interface{}) error { return json.Unmarshal(data, v) }

func hx(b []byte) string { return hex.EncodeToString(b) }

func hexOrDash(s string) string {
	if s == "" {
		return "-"
	}
	return hex.EncodeToString([]byte(s))
}

func tickerCols() []string {
	cols := make([]string, 0, int(fat2.PTickerMax)-1)
	for i := 1; i < int(fat2.PTickerMax); i++ {
		cols = append(cols, strings.ToLower(fat2.PTicker(i).String())+"_balance")
	}
	return cols
}

func dumpAddrTable(db *sql.DB, table, prefix string, out *[]string) error {
	cols := tickerCols()
	rows, err := db.Query(fmt.Sprintf("SELECT address, %s FROM %s ORDER BY id", strings.Join(cols, ","), table))
	if err != nil {
		return err
	}
	defer rows.Close()
	for rows.Next() {
		var addr []byte
		vals := make([]int64, len(cols))
		ptrs := make([]interface{}, 0, len(cols)+1)
		ptrs = append(ptrs, &addr)
		for i := range vals {
			ptrs = append(ptrs, &vals[i])
		}
		if err := rows.Scan(ptrs...); err != nil {
			return err
		}
		var parts []string
		for i, v := range vals {
			if v != 0 {
				parts = append(parts, fmt.Sprintf("%d=%d", i+1, v))
			}
		}
		*out = append(*out, fmt.Sprintf("%s|%s|%s", prefix, hx(addr), strings.Join(parts, ",")))
	}
	return rows.Err()
}

// renderOutputs canonicalises a history `outputs` blob: "" stays "", a JSON list becomes
// "[hexaddr:amount,...]".
func renderOutputs(raw []byte) string {
	if len(raw) == 0 {
		return ""
	}
	var outs []struct {
		Address factom.FAAddress `json:"address"`
		Amount  int64            `json:"amount"`
	}
	if err := json.Unmarshal(raw, &outs); err != nil {
		return "?" + hx(raw)
	}
	parts := make([]string, len(outs))
	for i, o := range outs {
		parts[i] = fmt.Sprintf("%s:%d", hx(o.Address[:]), o.Amount)
	}
	return "[" + strings.Join(parts, ",") + "]"
}

func asString(v interface{}) string {
	switch x := v.(type) {
	case nil:
		return ""
	case []byte:
		return string(x)
	case string:
		return x
	case int64:
		return fmt.Sprint(x)
	case float64:
		return fmt.Sprint(x)
	}
	return fmt.Sprint(v)
}

// DumpDB dumps every ledger table of the SQLite file at path (read-only connection).
func DumpDB(path string) ([]string, error) {
	db, err := sql.Open("sqlite3", "file:"+path+"?mode=ro&_busy_timeout=10000")
	if err != nil {
		return nil, err
	}
	defer db.Close()
	return DumpFrom(db)
}

func DumpFrom(db *sql.DB) ([]string, error) {
	var out []string
	if err := dumpAddrTable(db, "pn_addresses", "A", &out); err != nil {
		return nil, err
	}
	if err := dumpAddrTable(db, "snapshot_past", "SP", &out); err != nil {
		return nil, err
	}
	if err := dumpAddrTable(db, "snapshot_current", "SC", &out); err != nil {
		return nil, err
	}
	q := func(query string, f func(r *sql.Rows) (string, error)) error {
		rows, err := db.Query(query)
		if err != nil {
			return err
		}
		defer rows.Close()
		for rows.Next() {
			s, err := f(rows)
			if err != nil {
				return err
			}
			out = append(out, s)
		}
		return rows.Err()
	}
	if err := q("SELECT height, token, value FROM pn_rate", func(r *sql.Rows) (string, error) {
		var h int64
		var t string
		var v int64
		err := r.Scan(&h, &t, &v)
		return fmt.Sprintf("R|%d|%s|%d", h, t, v), err
	}); err != nil {
		return nil, err
	}
	if err := q("SELECT height, keymr, shorthashes, version, cutoff, count FROM pn_grade", func(r *sql.Rows) (string, error) {
		var h, ver, cut, cnt int64
		var keymr, sh []byte
		err := r.Scan(&h, &keymr, &sh, &ver, &cut, &cnt)
		return fmt.Sprintf("G|%d|%s|%s|%d|%d|%d", h, hx(keymr), hexOrDash(string(sh)), ver, cut, cnt), err
	}); err != nil {
		return nil, err
	}
	if err := q("SELECT height, position, entryhash, payout, minerid, address FROM pn_winners", func(r *sql.Rows) (string, error) {
		var h, pos, payout int64
		var eh []byte
		var minerid, addr interface{}
		err := r.Scan(&h, &pos, &eh, &payout, &minerid, &addr)
		return fmt.Sprintf("W|%d|%d|%s|%d|%s|%s", h, pos, hx(eh), payout, hexOrDash(asString(minerid)), hexOrDash(asString(addr))), err
	}); err != nil {
		return nil, err
	}
	if err := q("SELECT entry_hash, height, unix_timestamp, eblock_keymr FROM pn_transaction_batch_holding ORDER BY id", func(r *sql.Rows) (string, error) {
		var eh, keymr []byte
		var h, ts int64
		err := r.Scan(&eh, &h, &ts, &keymr)
		return fmt.Sprintf("H|%s|%d|%d|%s", hx(eh), h, ts, hx(keymr)), err
	}); err != nil {
		return nil, err
	}
	if err := q(`SELECT entry_hash, address, tx_index, "to", conversion FROM pn_address_transactions`, func(r *sql.Rows) (string, error) {
		var eh, a []byte
		var idx int64
		var to, conv bool
		err := r.Scan(&eh, &a, &idx, &to, &conv)
		b := func(x bool) int {
			if x {
				return 1
			}
			return 0
		}
		return fmt.Sprintf("X|%s|%s|%d|%d|%d", hx(eh), hx(a), idx, b(to), b(conv)), err
	}); err != nil {
		return nil, err
	}
	if err := q("SELECT entry_hash, height, blockorder, timestamp, executed FROM pn_history_txbatch ORDER BY history_id", func(r *sql.Rows) (string, error) {
		var eh []byte
		var h, bo, ts, ex int64
		err := r.Scan(&eh, &h, &bo, &ts, &ex)
		return fmt.Sprintf("B|%s|%d|%d|%d|%d", hx(eh), h, bo, ts, ex), err
	}); err != nil {
		return nil, err
	}
	if err := q("SELECT entry_hash, tx_index, action_type, from_address, from_asset, from_amount, to_asset, to_amount, outputs FROM pn_history_transaction", func(r *sql.Rows) (string, error) {
		var eh, from []byte
		var idx, action, fa, ta int64
		var fromAsset, toAsset, outputs interface{}
		err := r.Scan(&eh, &idx, &action, &from, &fromAsset, &fa, &toAsset, &ta, &outputs)
		return fmt.Sprintf("T|%s|%d|%d|%s|%s|%d|%s|%d|%s", hx(eh), idx, action, hx(from), asString(fromAsset), fa, asString(toAsset), ta, renderOutputs([]byte(asString(outputs)))), err
	}); err != nil {
		return nil, err
	}
	if err := q("SELECT entry_hash, tx_index, address FROM pn_history_lookup", func(r *sql.Rows) (string, error) {
		var eh, a []byte
		var idx int64
		err := r.Scan(&eh, &idx, &a)
		return fmt.Sprintf("L|%s|%d|%s", hx(eh), idx, hx(a)), err
	}); err != nil {
		return nil, err
	}
	if err := q("SELECT height, bank_amount, bank_used, total_requested FROM pn_bank", func(r *sql.Rows) (string, error) {
		var h, a, u, t int64
		err := r.Scan(&h, &a, &u, &t)
		return fmt.Sprintf("K|%d|%d|%d|%d", h, a, u, t), err
	}); err != nil {
		return nil, err
	}
	var data []byte
	if err := db.QueryRow("SELECT value FROM pn_metadata WHERE name = 'synced'").Scan(&data); err != nil {
		out = append(out, "S|-")
	} else {
		var v struct{ Synced int64 }
		json.Unmarshal(data, &v)
		out = append(out, fmt.Sprintf("S|%d", v.Synced))
	}
	if err := q("SELECT height, version FROM pn_sync_version", func(r *sql.Rows) (string, error) {
		var h, v int64
		err := r.Scan(&h, &v)
		return fmt.Sprintf("V|%d|%d", h, v), err
	}); err != nil {
		return nil, err
	}
	return Canon(out), nil
}

// orderObservable lists the dump prefixes whose row order is observable behaviour.
var orderObservable = map[string]bool{"A": true, "SP": true, "SC": true, "H": true, "B": true, "S": true}

var prefixOrder = []string{"A", "SP", "SC", "R", "G", "W", "H", "X", "B", "T", "L", "K", "S", "V"}

// Canon groups lines by table and sorts the tables whose row order is not observable.
func Canon(lines []string) []string {
	groups := map[string][]string{}
	for _, l := range lines {
		p := l
		if i := strings.Index(l, "|"); i >= 0 {
			p = l[:i]
		}
		groups[p] = append(groups[p], l)
	}
	var out []string
	for _, p := range prefixOrder {
		g := groups[p]
		if !orderObservable[p] {
			sort.Strings(g)
		}
		out = append(out, g...)
	}
	return out
}

// FilterDump keeps the lines whose table prefix is in keep (nil = all).
func FilterDump(lines []string, keep map[string]bool) []string {
	if keep == nil {
		return lines
	}
	var out []string
	for _, l := range lines {
		p := l
		if i := strings.Index(l, "|"); i >= 0 {
			p = l[:i]
		}
		if keep[p] {
			out = append(out, l)
		}
	}
	return out
}

// FirstDiff returns a description of the first differing line ("" when equal).
func FirstDiff(a, b []string) string {
	n := len(a)
	if len(b) < n {
		n = len(b)
	}
	for i := 0; i < n; i++ {
		if a[i] != b[i] {
			return fmt.Sprintf("line %d: impl=%q model=%q", i, a[i], b[i])
		}
	}
	if len(a) != len(b) {
		if len(a) > len(b) {
			return fmt.Sprintf("impl has extra line %q", a[n])
		}
		return fmt.Sprintf("model has extra line %q", b[n])
	}
	return ""
}

// DumpLight dumps the small tables in full and the append-mostly tables as counts (the same
// shape as the model's `dumplight`).
func DumpLight(path string) ([]string, error) {
	db, err := sql.Open("sqlite3", "file:"+path+"?mode=ro&_busy_timeout=10000")
	if err != nil {
		return nil, err
	}
	defer db.Close()
	var out []string
	if err := dumpAddrTable(db, "pn_addresses", "A", &out); err != nil {
		return nil, err
	}
	if err := dumpAddrTable(db, "snapshot_past", "SP", &out); err != nil {
		return nil, err
	}
	if err := dumpAddrTable(db, "snapshot_current", "SC", &out); err != nil {
		return nil, err
	}
	rows, err := db.Query("SELECT entry_hash, height, unix_timestamp, eblock_keymr FROM pn_transaction_batch_holding ORDER BY id")
	if err != nil {
		return nil, err
	}
	for rows.Next() {
		var eh, keymr []byte
		var h, ts int64
		rows.Scan(&eh, &h, &ts, &keymr)
		out = append(out, fmt.Sprintf("H|%s|%d|%d|%s", hx(eh), h, ts, hx(keymr)))
	}
	rows.Close()
	rows, err = db.Query("SELECT height, bank_amount, bank_used, total_requested FROM pn_bank ORDER BY height")
	if err != nil {
		return nil, err
	}
	for rows.Next() {
		var h, a, u, t int64
		rows.Scan(&h, &a, &u, &t)
		out = append(out, fmt.Sprintf("K|%d|%d|%d|%d", h, a, u, t))
	}
	rows.Close()
	var data []byte
	if err := db.QueryRow("SELECT value FROM pn_metadata WHERE name = 'synced'").Scan(&data); err != nil {
		out = append(out, "S|-")
	} else {
		var v struct{ Synced int64 }
		json.Unmarshal(data, &v)
		out = append(out, fmt.Sprintf("S|%d", v.Synced))
	}
	cnt := func(tag, q string) {
		var n int64
		db.QueryRow(q).Scan(&n)
		out = append(out, fmt.Sprintf("N|%s|%d", tag, n))
	}
	cnt("R", "SELECT COUNT(*) FROM pn_rate")
	cnt("G", "SELECT COUNT(*) FROM pn_grade")
	cnt("W", "SELECT COUNT(*) FROM pn_winners")
	cnt("X", "SELECT COUNT(*) FROM pn_address_transactions")
	cnt("B", "SELECT COUNT(*) FROM pn_history_txbatch")
	cnt("T", "SELECT COUNT(*) FROM pn_history_transaction")
	cnt("L", "SELECT COUNT(*) FROM pn_history_lookup")
	cnt("V", "SELECT COUNT(*) FROM pn_sync_version")
	cnt("Bx", "SELECT COALESCE(SUM(executed),0) FROM pn_history_txbatch")
	cnt("Tx", "SELECT COALESCE(SUM(to_amount),0) FROM pn_history_transaction")
	return out, nil
}

// StakeOrder returns the addresses of the staking coinbase of height h in tx_index order.
func StakeOrder(path string, h uint32) []string {
	db, err := sql.Open("sqlite3", "file:"+path+"?mode=ro&_busy_timeout=10000")
	if err != nil {
		return nil
	}
	defer db.Close()
	txid, _ := hex.DecodeString(fmt.Sprintf("%064d", h))
	rows, err := db.Query("SELECT from_address FROM pn_history_transaction WHERE entry_hash = ? ORDER BY tx_index", txid)
	if err != nil {
		return nil
	}
	defer rows.Close()
	var out []string
	for rows.Next() {
		var a []byte
		rows.Scan(&a)
		out = append(out, hx(a))
	}
	return out
}
