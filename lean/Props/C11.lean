import Proofs.Chain
import Proofs.Moves
import Proofs.Events
import Pegnet.Generated.Facts
/-
  C11 — Grading rewards and FCT burns are issued exactly as decided, once.
  The grading algorithm itself is the external library (its answer is an arbitrary `OprGraded` /
  `SprGraded` value in the model); these theorems are about pegnetd's glue.
-/
namespace Pegnet.C11
open Pegnet

/-- the grader version is chosen by activation height exactly as the source's ladders say -/
theorem version_ladders_match_source :
    Generated.oprLadderBase = some 1 ∧
    Generated.oprLadderRungs = [("GradingV2Activation", 2), ("PEGFreeFloatingPriceActivation", 3), ("V4OPRUpdate", 4), ("V20HeightActivation", 5)] ∧
    Generated.sprLadderBase = some 5 ∧
    Generated.sprLadderRungs = [("V20HeightActivation", 5), ("SprSignatureActivation", 6), ("V202EnhanceActivation", 7)] := by
  decide

theorem opr_version_by_height (P : Params) (h : Nat)
    (ho : P.act.gradingV2 ≤ P.act.pegFloat ∧ P.act.pegFloat ≤ P.act.v4 ∧ P.act.v4 ≤ P.act.v20) :
    graderVersionOPR P h =
      if h < P.act.gradingV2 then 1 else if h < P.act.pegFloat then 2 else if h < P.act.v4 then 3
      else if h < P.act.v20 then 4 else 5 := by
  unfold graderVersionOPR
  repeat' split
  all_goals omega

/-- blocks without an OPR eblock, or whose graded block has no winners, pay nothing -/
theorem no_winners_no_reward (P : Params) (b : Block) (s : DB)
    (h : b.opr = .absent ∨ (∃ w, b.opr = .err w) ∨ ∃ g, b.opr = .graded g ∧ g.winners = []) :
    oprRewardPhase P b s = .ok () s := by
  unfold oprRewardPhase
  rcases h with h | ⟨w, h⟩ | ⟨g, h, hw⟩
  · rw [h]; rfl
  · rw [h]; rfl
  · rw [h]; simp only; unfold applyGradedOPR; rw [hw]; rfl

/-- a winning record whose payout address does not parse is skipped (it pays nothing and the
    remaining winners are still paid) -/
theorem unparsable_address_skipped (P : Params) (oh ts : Int) (w : OprW) (rest : List OprW) (hw : w.addr = none) :
    applyGradedOPR P oh ts (w :: rest) = applyGradedOPR P oh ts rest := by
  unfold applyGradedOPR
  funext s
  simp only [M.forEach, hw]
  rfl

/-- each winner with a valid address is credited exactly `Payout()` in PEG and gets one coinbase
    history row; nothing else is written for it -/
theorem winner_paid_exactly (P : Params) (oh ts : Int) (w : OprW) (a : Addr) (rest : List OprW) (hw : w.addr = some a) :
    applyGradedOPR P oh ts (w :: rest) =
      (do addBal P a tPEG w.payout.toNat
          insertHistBatch { hash := w.entryhash, height := oh, blockorder := 0, ts := ts, executed := oh }
          insertHistTx { hash := w.entryhash, txIndex := 0, action := 3, fromAddr := a, fromAsset := "", fromAmount := 0,
                         toAsset := "PEG", toAmount := w.payout, outputs := "" }
          insertLookup { hash := w.entryhash, txIndex := 0, addr := a }) >>= fun _ => applyGradedOPR P oh ts rest := by
  unfold applyGradedOPR
  funext s
  simp only [M.forEach, hw]
  rfl

/-- staking (SPR) rewards exist only from PegNet 2.0 on -/
theorem spr_rewards_only_from_v20 (P : Params) (b : Block) (s : DB) (h : b.height < P.act.v20) :
    sprRewardPhase P b s = .ok () s := by
  unfold sprRewardPhase
  have : ¬ b.height ≥ P.act.v20 := by omega
  simp [this]

/-- only records whose declared staker id is among the top-100 PEG holders of the COMMITTED state
    are handed to the staking grader -/
theorem spr_only_top100 (db : DB) (entries : List (Option Addr)) (idx : List Nat) (h : sprPass db entries = some idx) :
    ∀ i ∈ idx, ∃ a, (entries.zipIdx.any fun p => p.2 == i && p.1 == some a) = true ∧ a ∈ db.top100 := by
  unfold sprPass at h
  injection h with h
  subst h
  intro i hi
  obtain ⟨p, hp, hpi⟩ := List.mem_map.1 hi
  obtain ⟨hmem, hcond⟩ := List.mem_filter.1 hp
  cases hpa : p.1 with
  | none => rw [hpa] at hcond; cases hcond
  | some a =>
    rw [hpa] at hcond
    exact ⟨a, List.any_eq_true.2 ⟨p, hmem, by simp [hpi, hpa]⟩, by simpa using hcond⟩

/-- the top-100 list has at most 100 members, all with a positive PEG balance -/
theorem top100_bounded (db : DB) : db.top100.length ≤ 100 := by
  unfold DB.top100
  simp only [List.length_map, List.length_take]
  omega

/-- FCT burns: exactly the factoid transactions with one FCT input, no FCT output and one EC
    output of amount zero to the burn address are burns, of the input's amount, by the input's
    address -/
theorem burn_shape (rcd : Addr) (f : FctTx) (inp : Addr × Nat) :
    burnOf rcd f = some inp ↔
      f.fctInputs = [inp] ∧ f.nFctOutputs = 0 ∧ ∃ out, f.ecOutputs = [out] ∧ out.1 = rcd ∧ out.2 = 0 := by
  unfold burnOf
  constructor
  · intro hb
    split at hb
    · rename_i out i he hf
      by_cases h1 : f.nFctOutputs > 0
      · simp [h1] at hb
      · by_cases h2 : (out.1 != rcd) = true
        · simp [h1, h2] at hb
        · by_cases h3 : (out.2 != 0) = true
          · simp [h1, h2, h3] at hb
          · simp [h1, h2, h3] at hb
            subst hb
            exact ⟨hf, by omega, out, he, by simpa using h2, by simpa using h3⟩
    · cases hb
  · rintro ⟨hf, hn, out, he, h1, h2⟩
    rw [he, hf]
    simp [hn, h1, h2]

/-- anything else in a factoid block credits nothing -/
theorem non_burn_credits_nothing (P : Params) (h : Nat) (rcd : Addr) (f : FctTx) (s : DB)
    (hb : burnOf rcd f = none) : applyFct P h rcd f s = .ok () s := by
  unfold applyFct; rw [hb]; rfl

/-- a burn credits exactly the burned amount of pFCT to the burning address, with one history row -/
theorem burn_credits_exactly (P : Params) (h : Nat) (rcd : Addr) (f : FctTx) (inp : Addr × Nat)
    (hb : burnOf rcd f = some inp) :
    applyFct P h rcd f = (do
      addBal P inp.1 tFCT inp.2
      insertHistBatch { hash := f.txid, height := h, blockorder := -1, ts := f.ts, executed := h }
      insertHistTx { hash := f.txid, txIndex := 0, action := 4, fromAddr := inp.1, fromAsset := "FCT", fromAmount := inp.2,
                     toAsset := "pFCT", toAmount := inp.2, outputs := "" }
      insertLookup { hash := f.txid, txIndex := 0, addr := inp.1 }) := by
  unfold applyFct; rw [hb]

/-- burns are applied only before PegNet 2.0 -/
theorem burns_only_before_v20 (P : Params) (b : Block) (hh : ¬ b.height < P.act.v20) :
    rewardPhase P b = (do oprRewardPhase P b; sprRewardPhase P b; devRewardPhase P b) := by
  unfold rewardPhase
  simp [hh]

/-- **Rewards are issued exactly as decided, to the payout address named, and to nobody else**:
    whatever list of winners the grader returns, applying it changes — for every address and every
    asset — only the PEG balance of the addresses the winning records name, by the sum of the
    payouts of the records naming that address; records whose address does not parse pay nothing
    (`oprCredit` / `sprCredit` filter on the parsed address). -/
theorem opr_rewards_exact (P : Params) (oh ts : Int) (ws : List OprW) (s : DB) :
    Outcome (applyGradedOPR P oh ts ws s)
      (fun _ s' => ∀ a x, s'.bal a x = s.bal a x + (if x = tPEG then oprCredit a ws else 0)) :=
  oprRewards_exact P oh ts ws s

theorem spr_rewards_exact (P : Params) (oh ts : Int) (ws : List SprW) (s : DB) :
    Outcome (applyGradedSPR P oh ts ws s)
      (fun _ s' => ∀ a x, s'.bal a x = s.bal a x + (if x = tPEG then sprCredit a ws else 0)) :=
  sprRewards_exact P oh ts ws s

/-- **FCT burns, for every address and asset**: before 2.0 a factoid block credits exactly the
    burned amount of each transaction of burn shape (one FCT input, no FCT output, one zero-amount
    EC output to the burn RCD) to its input address in pFCT — nothing for any other shape, nothing
    to anybody else, nothing in any other asset. -/
theorem fct_burns_credit_exactly (P : Params) (h : Nat) (burnRCD : Addr) (fcts : List FctTx) (s : DB) :
    Outcome (applyFactoidBlock P h burnRCD fcts s)
      (fun _ s' => ∀ a x, s'.bal a x = s.bal a x + (fcts.map (fun f => burnDelta burnRCD f a x)).sum) :=
  applyFactoidBlock_exact P h burnRCD fcts s

/-- a factoid transaction that misses the burn shape in any respect credits nothing -/
theorem non_burn_shape_credits_nothing (burnRCD : Addr) (f : FctTx) (hb : burnOf burnRCD f = none) (a : Addr) (x : Ticker) :
    burnDelta burnRCD f a x = 0 := by
  unfold burnDelta; rw [hb]

end Pegnet.C11

namespace Pegnet.C11
open Pegnet
/-- the shipped schedule, regenerated from config/activations.go and fat/fat2/activations.go on every
    run, against the values this property was read with: the heights at which the grading version, the miner set, staking records and their signatures change. Every scenario of the harness
    runs on a compressed schedule that overwrites these constants, so nothing else would notice one of
    them moving; a moved height is a different protocol, not a rewrite. -/
theorem shipped_schedule :
    let a := Generated.activations
    Generated.activationsComplete = true ∧ a.gradingV2 = 210330 ∧ a.v4 = 231620 ∧ a.v20 = 258796 ∧ a.sprSig = 260118 := by
  decide
end Pegnet.C11

#print axioms Pegnet.C11.version_ladders_match_source
#print axioms Pegnet.C11.opr_version_by_height
#print axioms Pegnet.C11.no_winners_no_reward
#print axioms Pegnet.C11.unparsable_address_skipped
#print axioms Pegnet.C11.winner_paid_exactly
#print axioms Pegnet.C11.spr_rewards_only_from_v20
#print axioms Pegnet.C11.spr_only_top100
#print axioms Pegnet.C11.top100_bounded
#print axioms Pegnet.C11.burn_shape
#print axioms Pegnet.C11.non_burn_credits_nothing
#print axioms Pegnet.C11.burn_credits_exactly
#print axioms Pegnet.C11.burns_only_before_v20
#print axioms Pegnet.C11.opr_rewards_exact
#print axioms Pegnet.C11.spr_rewards_exact
#print axioms Pegnet.C11.fct_burns_credit_exactly
#print axioms Pegnet.C11.non_burn_shape_credits_nothing
#print axioms Pegnet.C11.shipped_schedule
