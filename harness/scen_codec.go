package main

// C20 (encoding): byte strings offered as batch content go through the real fat2 decoder and
// validator. Checked: (1) every canonically encoded valid batch is accepted and re-encoding an
// accepted batch decodes to the same transactions; (2) an accepted content has, at every object,
// exactly the allowed keys each once (keys compared as encoding/json does, case-insensitively),
// known tickers, exactly one of transfers / conversion, amounts within int64 and one input
// address — decided by an independent token-level checker; (3) the structural validation of the
// decoded batch agrees with the model's `validData` / `validAt`.

import (
	"math/big"
	"bytes"
	"encoding/json"
	"fmt"
	"math"
	"math/rand"
	"strings"

	"github.com/Factom-Asset-Tokens/factom"
	"github.com/Factom-Asset-Tokens/factom/fat103"
	"github.com/pegnet/pegnetd/fat/fat2"
)

// canonicalIssues inspects raw JSON with a token-level walk and reports what makes it
// non-canonical ("" = canonical in the sense of C20).
func canonicalIssues(data []byte) string {
	var v interface{}
	dec := json.NewDecoder(bytes.NewReader(data))
	dec.UseNumber()
	if err := dec.Decode(&v); err != nil {
		return "not json"
	}
	if dec.More() {
		return "trailing data"
	}
	// duplicate keys are invisible in the decoded map: walk tokens
	if dup := duplicateKey(data); dup != "" {
		return "duplicate key " + dup
	}
	top, ok := v.(map[string]interface{})
	if !ok {
		return "top level is not an object"
	}
	if msg := keysWithin(top, []string{"version", "transactions"}, []string{"version", "transactions"}); msg != "" {
		return "batch: " + msg
	}
	txs, ok := getFold(top, "transactions").([]interface{})
	if !ok || len(txs) == 0 {
		return "transactions missing or empty"
	}
	inputs := map[string]bool{}
	for _, t := range txs {
		tx, ok := t.(map[string]interface{})
		if !ok {
			return "transaction is not an object"
		}
		hasTr := getFold(tx, "transfers") != nil
		hasConv := getFold(tx, "conversion") != nil
		if hasTr == hasConv {
			if hasTr {
				return "both transfers and conversion"
			}
			return "neither transfers nor conversion"
		}
		req := []string{"input"}
		if msg := keysWithin(tx, []string{"input", "transfers", "conversion", "metadata"}, req); msg != "" {
			return "transaction: " + msg
		}
		in, ok := getFold(tx, "input").(map[string]interface{})
		if !ok {
			return "input is not an object"
		}
		if msg := keysWithin(in, []string{"address", "amount", "type"}, []string{"address", "amount", "type"}); msg != "" {
			return "input: " + msg
		}
		var u uint64
		if av := getFold(in, "amount"); av != nil { // (a JSON null leaves the amount at zero)
			amt, ok := av.(json.Number)
			if !ok {
				return "amount is not a number"
			}
			var err error
			u, err = parseUintStrict(string(amt))
			if err != nil || u > math.MaxInt64 {
				return "amount out of int64"
			}
		}
		ty, _ := getFold(in, "type").(string)
		if fat2.StringToTicker(ty) == fat2.PTickerInvalid {
			return "unknown ticker " + ty
		}
		a, _ := getFold(in, "address").(string)
		inputs[a] = true
		if hasConv {
			c, _ := getFold(tx, "conversion").(string)
			if fat2.StringToTicker(c) == fat2.PTickerInvalid {
				return "unknown conversion ticker " + c
			}
		}
		if hasTr {
			trs, ok := getFold(tx, "transfers").([]interface{})
			if !ok || len(trs) == 0 {
				return "transfers empty"
			}
			total := new(big.Int)
			for _, x := range trs {
				tr, ok := x.(map[string]interface{})
				if !ok {
					return "transfer is not an object"
				}
				if msg := keysWithin(tr, []string{"address", "amount"}, []string{"address", "amount"}); msg != "" {
					return "transfer: " + msg
				}
				if n, ok := getFold(tr, "amount").(json.Number); ok {
					if v, ok := new(big.Int).SetString(string(n), 10); ok {
						total.Add(total, v)
					}
				}
			}
			// input = sum of the transfers, as integers (not modulo 2^64)
			if total.Cmp(new(big.Int).SetUint64(u)) != 0 {
				return "input differs from the sum of the transfers"
			}
		}
	}
	if len(inputs) != 1 {
		return "more than one input address"
	}
	return ""
}

func parseUintStrict(s string) (uint64, error) {
	if s == "" {
		return 0, fmt.Errorf("empty")
	}
	var v uint64
	for _, c := range s {
		if c < '0' || c > '9' {
			return 0, fmt.Errorf("not an unsigned integer")
		}
		d := uint64(c - '0')
		if v > (math.MaxUint64-d)/10 {
			return 0, fmt.Errorf("overflow")
		}
		v = v*10 + d
	}
	return v, nil
}

func getFold(m map[string]interface{}, key string) interface{} {
	for k, v := range m {
		if strings.EqualFold(k, key) {
			return v
		}
	}
	return nil
}

// hasFold: the key is present (whatever its value, null included).
func hasFold(m map[string]interface{}, key string) bool {
	for k := range m {
		if strings.EqualFold(k, key) {
			return true
		}
	}
	return false
}

// keysWithin: every key (case-folded) is allowed, every required key present.
func keysWithin(m map[string]interface{}, allowed, required []string) string {
	for k := range m {
		ok := false
		for _, a := range allowed {
			if strings.EqualFold(k, a) {
				ok = true
			}
		}
		if !ok {
			return "unknown key " + k
		}
	}
	for _, r := range required {
		if !hasFold(m, r) {
			return "missing key " + r
		}
	}
	return ""
}

// duplicateKey walks the token stream and reports a key that occurs twice (case-folded) in one
// object; metadata subtrees are exempt.
func duplicateKey(data []byte) string {
	dec := json.NewDecoder(bytes.NewReader(data))
	type frame struct {
		isObj   bool
		keys    map[string]bool
		expectK bool
		exempt  bool
	}
	var stack []*frame
	for {
		tok, err := dec.Token()
		if err != nil {
			return ""
		}
		top := func() *frame {
			if len(stack) == 0 {
				return nil
			}
			return stack[len(stack)-1]
		}
		switch t := tok.(type) {
		case json.Delim:
			switch t {
			case '{':
				ex := false
				if f := top(); f != nil {
					ex = f.exempt
					if f.isObj {
						f.expectK = true
					}
				}
				stack = append(stack, &frame{isObj: true, keys: map[string]bool{}, expectK: true, exempt: ex})
			case '[':
				ex := false
				if f := top(); f != nil {
					ex = f.exempt
					if f.isObj {
						f.expectK = true
					}
				}
				stack = append(stack, &frame{exempt: ex})
			case '}', ']':
				stack = stack[:len(stack)-1]
			}
		case string:
			f := top()
			if f != nil && f.isObj && f.expectK {
				k := strings.ToLower(t)
				if f.keys[k] && !f.exempt {
					return t
				}
				f.keys[k] = true
				f.expectK = false
				if k == "metadata" {
					// the value that follows is free-form
					var skip interface{}
					dec.Decode(&skip)
					f.expectK = true
				}
			} else if f != nil && f.isObj {
				f.expectK = true
			}
		default:
			if f := top(); f != nil && f.isObj {
				f.expectK = true
			}
		}
	}
}

func scenCodec(rep *Report, tier string, seed int64) {
	r := rand.New(rand.NewSource(seed))
	n := 4000
	if tier == "thorough" {
		n = 60000
	}
	m, err := StartModel()
	if err != nil {
		rep.Note("infrastructure: %v", err)
		return
	}
	defer m.Close()
	s := Setup{Acts: advActs(), AvgPeriod: 8, SyncVersion: mainnetSyncVersion}
	s.Apply()
	m.Must(ParamsLine(s))
	g := NewGen(seed, 3, 1)
	tickers := func() fat2.PTicker { return fat2.PTicker(1 + r.Intn(int(fat2.PTickerMax)-1)) }
	randAddr := func() factom.FAAddress {
		var a factom.FAAddress
		r.Read(a[:])
		return a
	}
	accepted, rejected := 0, 0
	for i := 0; i < n; i++ {
		u := g.Users[r.Intn(len(g.Users))]
		from := u.FA()
		k := 1 + r.Intn(3)
		var txs []fat2.Transaction
		for j := 0; j < k; j++ {
			amt := uint64(r.Int63n(1e12))
			switch r.Intn(12) {
			case 0:
				amt = math.MaxInt64
			case 1:
				amt = 0
			}
			if r.Intn(2) == 0 {
				no := 1 + r.Intn(3)
				var outs []fat2.AddressAmountTuple
				rem := amt
				for x := 0; x < no; x++ {
					a := rem
					if x < no-1 && rem > 0 {
						a = uint64(r.Int63n(int64(rem%(1<<62)) + 1))
					}
					rem -= a
					outs = append(outs, fat2.AddressAmountTuple{Address: randAddr(), Amount: a})
				}
				txs = append(txs, Transfer(from, tickers(), outs...))
			} else {
				src := tickers()
				dst := tickers()
				for dst == src {
					dst = tickers()
				}
				txs = append(txs, Conversion(from, src, amt, dst))
			}
		}
		// structural mutations on the decoded form (the model sees these too)
		structural := r.Intn(10)
		switch structural {
		case 0:
			if len(txs) > 1 {
				txs[1].Input.Address = randAddr() // two input addresses
			}
		case 1:
			txs[0].Input.Amount = uint64(math.MaxInt64) + uint64(r.Intn(3)) // at / above the int64 bound
			if len(txs[0].Transfers) > 0 {
				txs[0].Transfers = []fat2.AddressAmountTuple{{Address: randAddr(), Amount: txs[0].Input.Amount}}
			}
		case 2:
			if len(txs[0].Transfers) > 0 {
				txs[0].Transfers[0].Amount++ // input != sum of transfers
			}
		case 3:
			if txs[0].Conversion != 0 {
				txs[0].Conversion = txs[0].Input.Type // same type
			}
		case 4:
			if len(txs[0].Transfers) > 0 && r.Intn(2) == 0 {
				// outputs that add up to the input plus 2^64
				const third = uint64(6148914691236517205)
				in := txs[0].Input.Amount % 1000000
				txs[0].Input.Amount = in
				txs[0].Transfers = []fat2.AddressAmountTuple{{Address: randAddr(), Amount: third}, {Address: randAddr(), Amount: third}, {Address: randAddr(), Amount: third + 1 + in}}
				structural = 2 // an invalid batch: counts with "input != sum of transfers"
				rep.Count("codec:outputs-wrap-uint64")
			}
		}
		content, err := json.Marshal(struct {
			Version      uint               `json:"version"`
			Transactions []fat2.Transaction `json:"transactions"`
		}{1, txs})
		raw := string(content)
		if err != nil {
			// the encoder refuses this batch: write the content independently of it — if the decoder
			// accepts what the encoder cannot write, the round trip below reports it
			var sb strings.Builder
			canonicalTree(txs).text(&sb)
			raw = sb.String()
			rep.Count("codec:encoder-refused")
		}
		kind := "canonical"
		// byte-level mutations
		switch r.Intn(16) {
		case 0:
			raw = strings.Replace(raw, `"version":1`, `"version":1,"version":1`, 1)
			kind = "dup-version"
		case 1:
			raw = strings.Replace(raw, `"version":1`, `"version":1,"VERSION":1`, 1)
			kind = "dup-version-case"
		case 2:
			raw = strings.Replace(raw, `"version":1`, `"Version":1`, 1)
			kind = "recased-key"
		case 3:
			raw = strings.Replace(raw, `"version":1`, `"version":1,"extra":true`, 1)
			kind = "unknown-key"
		case 4:
			raw = strings.Replace(raw, `"input":{`, `"input":{"extra":1,`, 1)
			kind = "unknown-key-input"
		case 5:
			raw = strings.Replace(raw, `"amount":`, `"amount":1,"amount":`, 1)
			kind = "dup-amount"
		case 6:
			raw = strings.Replace(raw, `{"version"`, " {\n \"version\"", 1)
			raw = strings.Replace(raw, `,"transactions"`, " ,\t\"transactions\"", 1)
			kind = "whitespace"
		case 7:
			raw = strings.Replace(raw, `"version":1`, `"version":1.0`, 1)
			kind = "version-float"
		case 8:
			raw = strings.Replace(raw, `"version":1`, `"version":2`, 1)
			kind = "version-2"
		case 9:
			raw = strings.Replace(raw, `"version":1`, `"version":1,"metadata":{"a":1}`, 1)
			kind = "batch-metadata"
		case 10:
			raw = strings.Replace(raw, `"input":`, `"metadata":{"memo":"x","memo":"y"},"input":`, 1)
			kind = "tx-metadata"
		case 11:
			if strings.Contains(raw, `"conversion":"`) {
				raw = strings.Replace(raw, `"conversion":"`, `"transfers":[],"conversion":"`, 1)
				kind = "empty-transfers-with-conversion"
			}
		case 12:
			raw = strings.Replace(raw, `"type":"p`, `"type":"x`, 1)
			kind = "unknown-ticker"
		case 14:
			// the input's "type" key dropped and replaced by an unknown key whose length makes up
			// for it in the decoder's length accounting (23-character key, one-digit value)
			if i := strings.Index(raw, `"type":"`); i >= 0 {
				j := i + len(`"type":"`)
				k := j + strings.Index(raw[j:], `"`)
				raw = raw[:i] + `"aaaaaaaaaaaaaaaaaaaaaaa":1` + raw[k+1:]
				kind = "type-replaced-by-padding-key"
			}
		case 13:
			// a known ticker decorated with JSON-escaped backslashes or quotes is not that ticker
			field := []string{`"conversion":"`, `"type":"`}[r.Intn(2)]
			if i := strings.Index(raw, field); i >= 0 {
				j := i + len(field)
				k := j + strings.Index(raw[j:], `"`)
				tick := raw[j:k]
				deco := []string{`\\` + tick, tick + `\\`, `\"` + tick + `\"`, `\"` + tick, `\\` + tick + `\\`}[r.Intn(5)]
				raw = raw[:j] + deco + raw[k:]
				kind = "decorated-ticker"
			}
		}
		entry := SignBatch([]byte(raw), EntryTime(20).Unix(), u.Signer())
		entry.Timestamp = EntryTime(20)
		tb := fat2.TransactionBatch{Entry: entry}
		uerr := tb.UnmarshalJSON([]byte(raw))
		var verr error
		if uerr == nil {
			verr = tb.Validate(20) // structure, signature, int64 bound: what NewTransactionBatch requires
		}
		ok := uerr == nil && verr == nil
		if ok {
			accepted++
		} else {
			rejected++
		}
		rep.Case(fmt.Sprintf("%s|structural=%d|accepted=%v", kind, structural, ok), true)
		rep.Count("codec:" + kind)
		if i < 3 {
			rep.Sample(map[string]interface{}{"kind": kind, "content": raw, "accepted": ok})
		}
		// the decoders themselves against the Lean model of them (Pegnet/Json.lean), on the token tree
		if line, clen, okTree := TreeLine([]byte(raw)); okTree {
			want := fmt.Sprintf("reject len=%d", clen)
			if uerr == nil {
				want = RenderDecoded(&tb, clen)
			}
			if ans := m.Ask("json " + line); ans != want {
				path := WriteReplay(rep.Property, "codec-decode", Replay{Property: rep.Property, Scenario: "codec", Seed: seed,
					What: "fat2's JSON decoders and the model of them disagree", Extra: map[string]interface{}{"content": raw, "impl": want, "model": ans}})
				rep.Disagree("json-decode", fmt.Sprintf("impl=%s model=%s content=%s", want, ans, raw), path)
			}
			rep.Count("codec:decoded-by-model")
		}
		issue := canonicalIssues([]byte(raw))
		if ok && issue != "" {
			path := WriteReplay(rep.Property, "codec", Replay{Property: rep.Property, Scenario: "codec", Seed: seed,
				What: "a non-canonical batch content was accepted: " + issue, Extra: map[string]interface{}{"content": raw}})
			rep.Violate("codec:accepted-noncanonical:"+strings.Fields(issue)[0], issue+": "+raw, path)
		}
		if !ok && kind == "canonical" && structural > 3 {
			path := WriteReplay(rep.Property, "codec", Replay{Property: rep.Property, Scenario: "codec", Seed: seed,
				What: "a canonically encoded valid batch was rejected", Extra: map[string]interface{}{"content": raw, "error": fmt.Sprint(uerr, verr)}})
			rep.Violate("codec:rejected-canonical", fmt.Sprint(uerr, verr)+": "+raw, path)
		}
		if ok {
			// round trip
			re, err := json.Marshal(struct {
				Version      uint               `json:"version"`
				Transactions []fat2.Transaction `json:"transactions"`
			}{tb.Version, tb.Transactions})
			tb2 := fat2.TransactionBatch{}
			if err != nil || tb2.UnmarshalJSON(re) != nil || !sameTxs(tb.Transactions, tb2.Transactions) {
				rep.Violate("codec:roundtrip", "re-encoding an accepted batch does not decode to the same transactions: "+raw, "")
			}
		}
		// the encoders against the Lean model of them (Pegnet/JsonEnc.lean — the subject of the
		// round-trip theorem): what json.Marshal writes for the decoded batch, addresses as hex
		if uerr == nil {
			hasMeta := len(tb.Metadata) > 0
			// (a decoded transaction holds its absent metadata as an empty RawMessage inside the
			// interface value; the batch is rebuilt from the decoded fields without it)
			clean := fat2.TransactionBatch{Version: tb.Version}
			for _, tx := range tb.Transactions {
				if rm, isRaw := tx.Metadata.(json.RawMessage); tx.Metadata != nil && !(isRaw && len(rm) == 0) {
					hasMeta = true
				}
				clean.Transactions = append(clean.Transactions, fat2.Transaction{Input: tx.Input, Transfers: tx.Transfers, Conversion: tx.Conversion})
			}
			if !hasMeta {
				want := "refused"
				if re, err := json.Marshal(clean); err == nil {
					text := string(re)
					for _, tx := range tb.Transactions {
						text = strings.ReplaceAll(text, `"`+tx.Input.Address.String()+`"`, `"`+hx(tx.Input.Address[:])+`"`)
						for _, tr := range tx.Transfers {
							text = strings.ReplaceAll(text, `"`+tr.Address.String()+`"`, `"`+hx(tr.Address[:])+`"`)
						}
					}
					want = "ok " + text
				}
				line := "encode " + strings.TrimPrefix(TxLine(entry, EntryTime(20).Unix()), "tx ")
				rep.Count("codec:encoded-by-model:" + strings.Fields(want)[0])
				if ans := m.Ask(line); ans != want {
					path := WriteReplay(rep.Property, "codec-encode", Replay{Property: rep.Property, Scenario: "codec", Seed: seed,
						What: "fat2's JSON encoders and the model of them disagree", Extra: map[string]interface{}{"content": raw, "impl": want, "model": ans}})
					rep.Disagree("json-encode", fmt.Sprintf("impl=%s model=%s content=%s", want, ans, raw), path)
				}
			}
		}
		// the decoded form through the model: Validate(height) = validAt
		if uerr == nil {
			tb.Entry = entry
			for _, h := range []uint32{5, 20} {
				implValid := tb.Validate(int32(h)) == nil
				pegOK := tb.ValidatePegTx(int32(h)) == nil
				line := fmt.Sprintf("validate %d %s", h, strings.TrimPrefix(TxLine(entry, EntryTime(20).Unix()), "tx "))
				want := fmt.Sprintf("ok %s %s %s %s", b01(implValid), b01(pegOK), b01(tb.HasConversions()), b01(tb.HasPEGRequest()))
				if ans := m.Ask(line); ans != want {
					// HasConversions / HasPEGRequest are only meaningful on valid batches
					if implValid || ans[:4] != want[:4] {
						path := WriteReplay(rep.Property, "codec-model", Replay{Property: rep.Property, Scenario: "codec", Seed: seed,
							What: "structural validation differs from the model", Extra: map[string]interface{}{"content": raw, "impl": want, "model": ans, "height": h}})
						rep.Disagree("validate", fmt.Sprintf("h=%d impl=%s model=%s content=%s", h, want, ans, raw), path)
					}
				}
			}
		}
	}
	// structure-level fuzzing of the decoders against the model of them
	nf := 6000
	if tier == "thorough" {
		nf = 60000
	}
	for i := 0; i < nf; i++ {
		var txs []fat2.Transaction
		from := randAddr()
		for k := 0; k < 1+r.Intn(2); k++ {
			if r.Intn(2) == 0 {
				txs = append(txs, Transfer(from, tickers(), fat2.AddressAmountTuple{Address: randAddr(), Amount: uint64(r.Intn(1000))}, fat2.AddressAmountTuple{Address: randAddr(), Amount: uint64(r.Intn(1000))}))
			} else {
				src := tickers()
				dst := tickers()
				for dst == src {
					dst = tickers()
				}
				txs = append(txs, Conversion(from, src, uint64(r.Intn(100000)), dst))
			}
		}
		tree := canonicalTree(txs)
		var kinds []string
		for k := 0; k < r.Intn(4); k++ {
			kinds = append(kinds, mutateTree(tree, r))
		}
		var sb strings.Builder
		tree.text(&sb)
		raw := sb.String()
		line, clen, okTree := TreeLine([]byte(raw))
		if !okTree {
			continue
		}
		var tb fat2.TransactionBatch
		uerr := tb.UnmarshalJSON([]byte(raw))
		want := fmt.Sprintf("reject len=%d", clen)
		if uerr == nil {
			want = RenderDecoded(&tb, clen)
		}
		rep.Count(fmt.Sprintf("jsonfuzz:accepted=%v", uerr == nil))
		for _, k := range kinds {
			rep.Count("jsonfuzz:" + k)
		}
		rep.Case(fmt.Sprintf("jsonfuzz|%s|accepted=%v", strings.Join(kinds, "+"), uerr == nil), true)
		if ans := m.Ask("json " + line); ans != want {
			path := WriteReplay(rep.Property, "codec-decode", Replay{Property: rep.Property, Scenario: "codec", Seed: seed,
				What: "fat2's JSON decoders and the model of them disagree", Extra: map[string]interface{}{"content": raw, "impl": want, "model": ans, "edits": kinds}})
			rep.Disagree("json-decode:"+strings.Join(kinds, "+"), fmt.Sprintf("impl=%s model=%s content=%s", want, ans, raw), path)
		}
		// the specification on the same document: accepted => canonical, and it re-encodes
		if uerr == nil && tb.ValidData() == nil {
			if issue := canonicalIssues([]byte(raw)); issue != "" {
				path := WriteReplay(rep.Property, "codec", Replay{Property: rep.Property, Scenario: "codec", Seed: seed,
					What: "a non-canonical batch content was accepted: " + issue, Extra: map[string]interface{}{"content": raw, "edits": kinds}})
				rep.Violate("codec:accepted-noncanonical:"+strings.Fields(issue)[0], issue+": "+raw, path)
			}
		}
	}
	rep.Distribution["accepted"] = accepted
	rep.Distribution["rejected"] = rejected
	rep.Traces = n
	_ = fat103.Validate
	rep.Rule = "one evaluation = one batch content (canonical encodings of random valid / structurally invalid batches, plus byte-level mutations: duplicate, re-cased and unknown keys, white space, number forms, metadata, both / neither of transfers and conversion, unknown tickers) through fat2 UnmarshalJSON + ValidData, an independent canonical-form checker, a re-encode round trip, and the model's validAt; distinct = (mutation kind, structural mutation, accepted)"
}

func b01(b bool) string {
	if b {
		return "1"
	}
	return "0"
}

func sameTxs(a, b []fat2.Transaction) bool {
	if len(a) != len(b) {
		return false
	}
	for i := range a {
		if a[i].Input != b[i].Input || a[i].Conversion != b[i].Conversion || len(a[i].Transfers) != len(b[i].Transfers) {
			return false
		}
		for j := range a[i].Transfers {
			if a[i].Transfers[j] != b[i].Transfers[j] {
				return false
			}
		}
	}
	return true
}

func init() { scenarios["codec"] = scenCodec }
