package main

// C12: the rule that combines the winning OPR's rates with the winning SPR's rates
// (GetAssetRatesV0 / GetAssetRates, chosen by height exactly as SyncBlock chooses), called
// directly on generated asset lists and compared with the model's assetRatesV0 / assetRates and
// with the per-asset tolerance rule written out below.

import (
	"fmt"
	"math/rand"
	"strings"

	"github.com/pegnet/pegnet/modules/opr"
	"github.com/pegnet/pegnetd/node"
)

func assetLine(l []opr.AssetUint) string {
	var sb strings.Builder
	fmt.Fprintf(&sb, "%d", len(l))
	for _, a := range l {
		fmt.Fprintf(&sb, " %s %d", a.Name, a.Value)
	}
	return sb.String()
}

func scenAssetRates(rep *Report, tier string, seed int64) {
	r := rand.New(rand.NewSource(seed))
	acts := Acts{Pegnet: 0, GradingV2: 10, TxConv: 20, PegPricing: 30, OneWayFCT: 40, ConvLimit: 50, PegFloat: 50, RCDE: 60, V4: 60,
		V20: 70, DevRewards: 80, SprSig: 80, OneWaySmall: 90, V202: 90, V204: 100, V204Burn: 110, PIP10: 120}
	s := Setup{Acts: acts, AvgPeriod: 8, SyncVersion: mainnetSyncVersion}
	s.Apply()
	m, err := StartModel()
	if err != nil {
		rep.Note("infrastructure: %v", err)
		return
	}
	defer m.Close()
	m.Must(ParamsLine(s))
	d := &node.Pegnetd{}
	n := 6000
	if tier == "thorough" {
		n = 120000
	}
	heights := []uint32{70, 75, 79, 80, 85, 89, 90, 95, 125}
	// relative deviations in parts per 100000 (both signs are drawn)
	devs := []int64{0, 0, 0, 0, 30, 99, 100, 101, 500, 999, 1000, 1001, 5000, 9999, 10000, 10001, 24999, 25000, 25001, 30000}
	names := opr.V5Assets
	for i := 0; i < n; i++ {
		h := heights[r.Intn(len(heights))]
		k := 1 + r.Intn(len(names))
		if r.Intn(4) == 0 {
			k = 1 + r.Intn(5)
		}
		start := r.Intn(len(names) - k + 1)
		var o, sp []opr.AssetUint
		off := 0 // how many assets deviate beyond "small"
		for j := 0; j < k; j++ {
			var v uint64
			switch r.Intn(6) {
			case 0:
				v = uint64(1000 + r.Intn(98999)) // below 100000
			case 1:
				v = uint64(99998 + r.Intn(4)) // around the 100000 switch
			case 2:
				v = uint64(100000 + r.Intn(900000))
			default:
				v = uint64(1e6 + r.Int63n(1e12))
			}
			dev := devs[r.Intn(5)]
			// a few assets get the interesting deviations; more often late in the list
			if r.Intn(k+2) == 0 || (j == k-1 && off == 0 && r.Intn(2) == 0) {
				dev = devs[r.Intn(len(devs))]
				off++
			}
			ov := int64(v) + int64(v)*dev/100000*int64(1-2*r.Intn(2))
			if r.Intn(50) == 0 {
				ov += int64(r.Intn(3)) - 1
			}
			if ov < 0 {
				ov = 0
			}
			name := names[start+j]
			o = append(o, opr.AssetUint{Name: name, Value: uint64(ov)})
			sn := name
			if r.Intn(200) == 0 {
				sn = names[r.Intn(len(names))] // name mismatch at this position: the asset is skipped
			}
			sp = append(sp, opr.AssetUint{Name: sn, Value: v})
		}
		switch r.Intn(40) {
		case 0:
			o = nil
		case 1:
			sp = nil
		case 2:
			sp = sp[:len(sp)-1]
			if len(sp) == 0 {
				sp = nil
			}
		case 3:
			o, sp = nil, nil
		}
		var got []opr.AssetUint
		var gerr error
		era := "v202"
		if h < acts.DevRewards {
			got, gerr = d.GetAssetRatesV0(o, sp)
			era = "v0"
		} else {
			got, gerr = d.GetAssetRates(o, sp, h)
			if h < acts.V202 {
				era = "10pct"
			}
		}
		impl := "err"
		if gerr == nil {
			impl = "ok " + assetLine(got)
		}
		model := m.Ask(fmt.Sprintf("assetrates %d %s %s", h, assetLine(o), assetLine(sp)))
		rep.Case(fmt.Sprintf("%s|n=%d|%s|opr=%v|spr=%v", era, bucket(k), strings.Fields(impl)[0], len(o) > 0, len(sp) > 0), true)
		extra := map[string]interface{}{"height": h, "opr": assetLine(o), "spr": assetLine(sp), "impl": impl, "model": model}
		if impl != model {
			path := WriteReplay(rep.Property, "assetrates", Replay{Property: rep.Property, Scenario: "assetrates", Seed: seed, Setup: s,
				What: "GetAssetRates(V0) differs from the model", Extra: extra})
			rep.Disagree("assetrates:"+era, fmt.Sprintf("h=%d impl=%.200q model=%.200q", h, impl, model), path)
		}
		// the rule written out per asset
		if len(o) > 0 && len(sp) > 0 && len(o) == len(sp) {
			want := "ok"
			var exp []opr.AssetUint
			for j := range o {
				if o[j].Name != sp[j].Name {
					continue
				}
				tol := 0.1
				switch era {
				case "v0":
					tol = 0.01
					if sp[j].Value >= 100000 {
						tol = 0.001
					}
				case "v202":
					tol = 0.25
				}
				hi := float64(sp[j].Value) * (1 + tol)
				lo := float64(sp[j].Value) * (1 - tol)
				in := float64(o[j].Value) >= lo && float64(o[j].Value) <= hi
				switch {
				case in:
					exp = append(exp, o[j])
				case era == "v202":
					exp = append(exp, opr.AssetUint{Name: sp[j].Name, Value: 0})
				default:
					want = "err"
				}
			}
			if want == "ok" {
				want = "ok " + assetLine(exp)
			}
			if impl != want {
				extra["rule"] = want
				path := WriteReplay(rep.Property, "assetrates-spec", Replay{Property: rep.Property, Scenario: "assetrates", Seed: seed, Setup: s,
					What: "the combined rates contradict the per-asset tolerance rule of the era", Extra: extra})
				rep.Violate("assetrates:band:"+era, fmt.Sprintf("h=%d impl=%.160q rule=%.160q", h, impl, want), path)
			}
		}
		if i < 3 {
			rep.Sample(extra)
		}
	}
	rep.Traces = n
	rep.Rule = "one evaluation = one (OPR winner assets, SPR winner assets, height) triple through the real GetAssetRatesV0 / GetAssetRates (selected by height as SyncBlock does), compared with the model and with the per-asset band rule; deviations drawn at, just inside and just outside 0.1 %, 1 %, 10 %, 25 %, SPR values on both sides of 100000, lists of 1..all assets, name and length mismatches, empty lists; distinct = (era, size bucket, outcome, which lists are present)"
}

func init() { scenarios["assetrates"] = scenAssetRates }
