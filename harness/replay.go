package main

// `vharness replay <file>`: re-runs the chain stored in a replay file (or a chain file) through
// the real daemon and the Lean model in lock-step with full dumps, optionally restarting the
// daemon after the heights listed under extra.restart_after, and prints what happens at every
// height where the two differ or the block cannot be applied. Exit 1 if anything differed.

import (
	"bytes"
	"compress/gzip"
	"encoding/json"
	"fmt"
	"io/ioutil"
	"os"
	"strings"
)

func replayCmd(args []string) {
	if len(args) < 1 {
		say("usage: vharness replay <replay.json[.gz]> [-nomodel]")
		os.Exit(2)
	}
	data, err := ioutil.ReadFile(args[0])
	if err != nil {
		say("replay: %v", err)
		os.Exit(2)
	}
	if strings.HasSuffix(args[0], ".gz") {
		zr, err := gzip.NewReader(bytes.NewReader(data))
		if err != nil {
			say("replay: %v", err)
			os.Exit(2)
		}
		data, _ = ioutil.ReadAll(zr)
	}
	var f struct {
		What   string                 `json:"what"`
		Setup  Setup                  `json:"setup"`
		Blocks []blockJSON            `json:"blocks"`
		Extra  map[string]interface{} `json:"extra"`
	}
	if err := json.Unmarshal(data, &f); err != nil {
		say("replay: %v", err)
		os.Exit(2)
	}
	if len(f.Blocks) == 0 {
		say("replay: the file carries no chain (what: %s)", f.What)
		os.Exit(2)
	}
	restartAfter := map[uint32]bool{}
	if l, ok := f.Extra["restart_after"].([]interface{}); ok {
		for _, x := range l {
			if v, ok := x.(float64); ok {
				restartAfter[uint32(v)] = true
			}
		}
	}
	say("replay: %s", f.What)
	run, err := NewRun(f.Setup)
	if err != nil {
		say("replay: %v", err)
		os.Exit(2)
	}
	defer run.Close()
	run.FullEvery = 1
	for _, a := range args[1:] {
		if a == "-nomodel" {
			run.NoModel = true
		}
	}
	rep := NewReport("X", "replay", "quick", 0)
	curReport = rep
	bad := 0
	for _, b := range BlocksFromJSON(f.Blocks) {
		res := run.Step(b)
		if res.Diff != "" || !res.ImplOK {
			bad++
			say("height %d: impl=%s model=%s", b.Height, res.ImplClass, res.ModelClass)
			if res.ImplMsg != "" {
				say("    impl message: %s", res.ImplMsg)
			}
			if res.Diff != "" {
				say("    first difference: %s", res.Diff)
			}
			if !res.ImplOK {
				if err := run.RecoverFrom(res); err != nil {
					say("    cannot continue: %v", err)
					break
				}
				run.Chain = run.Chain[:len(run.Chain)-1]
				if r2 := run.Step(&BlockSpec{Height: b.Height, Time: BlockTime(b.Height)}); !r2.ImplOK {
					say("    an empty block cannot be applied either: the chain stops here")
					break
				}
			}
			if res.Diff != "" {
				run.NoModel = true
				say("    (continuing with the implementation alone)")
			}
		}
		if restartAfter[b.Height] {
			if err := run.RestartDaemon(); err != nil {
				say("height %d: restart refused: %v", b.Height, err)
				bad++
				break
			}
			say("height %d: daemon restarted", b.Height)
		}
	}
	for _, v := range rep.Violations {
		say("monitor %s: %s", v.Signature, v.What)
		bad++
	}
	say("replay: %d blocks, %d heights with a difference or failure", len(f.Blocks), bad)
	fmt.Print("")
	if bad > 0 {
		os.Exit(1)
	}
}
