import Proofs.Chain
/-
  C14: when and from what the holder staking payout is computed.
-/
namespace Pegnet

/-- an address is considered for the staking payout only if it has a row in BOTH snapshots -/
theorem join_requires_both {cur past : List AddrRow} {x : Addr × List Int × List Int}
    (hx : x ∈ joinSnapshots cur past) :
    (∃ c ∈ cur, c.addr = x.1 ∧ c.bals = x.2.1) ∧ (∃ p ∈ past, p.addr = x.1 ∧ p.bals = x.2.2) := by
  unfold joinSnapshots at hx
  obtain ⟨c, hc, hm⟩ := List.mem_filterMap.1 hx
  cases hf : findRow past c.addr with
  | none => rw [hf] at hm; cases hm
  | some p =>
    rw [hf] at hm
    simp only [Option.some.injEq] at hm
    subst hm
    refine ⟨⟨c, hc, rfl, rfl⟩, ⟨p, ?_, ?_, rfl⟩⟩
    · unfold findRow at hf
      exact List.mem_of_find?_eq_some hf
    · unfold findRow at hf
      have := List.find?_some hf
      simpa using this

/-- an address absent from the previous snapshot is not in the join (is not paid) -/
theorem absent_from_past_not_joined {cur past : List AddrRow} {a : Addr}
    (ha : ∀ p ∈ past, p.addr ≠ a) : ∀ x ∈ joinSnapshots cur past, x.1 ≠ a := by
  intro x hx he
  obtain ⟨_, ⟨p, hp, hpa, _⟩⟩ := join_requires_both hx
  exact ha p hp (hpa.trans he)

theorem absent_from_current_not_joined {cur past : List AddrRow} {a : Addr}
    (ha : ∀ c ∈ cur, c.addr ≠ a) : ∀ x ∈ joinSnapshots cur past, x.1 ≠ a := by
  intro x hx he
  obtain ⟨⟨c, hc, hca, _⟩, _⟩ := join_requires_both hx
  exact ha c hc (hca.trans he)

/-- the snapshot tables after a staking payout: the current snapshot is the balance table as it
    was when the payout step was ENTERED, the past snapshot is the previous current one -/
theorem snapshotPayouts_rotates {P : Params} {h : Nat} {ts : Int} {rates : TMap} {order : List Addr} {s s' : DB}
    (hr : snapshotPayouts P h ts rates order s = .ok () s') :
    s'.snapCur = s.addrs ∧ s'.snapPast = s.snapCur := by
  unfold snapshotPayouts at hr
  obtain ⟨_, s1, h1, h2⟩ := M.bind_ok hr
  simp only [M.guarded] at h1
  injection h1 with _ hs1
  -- everything after the rotation keeps both snapshot tables
  have hk : Step (keepRel (fun db : DB => (db.snapCur, db.snapPast))) (do
      let db ← (M.get : LM DB)
      let joined := joinSnapshots db.snapCur db.snapPast
      let staked ← M.foldM (fun (l : List (Addr × Nat)) j =>
          match stakeOf P h rates j.2.1 j.2.2 with
          | none => M.throw (.uncaught "staking valuation: convert failed")
          | some s => pure (l ++ [(j.1, s)])) [] joined
      if staked.any (fun p => decide (p.2 > maxUint64)) then M.throw (.uncaught "balance that is not uint64")
      let list := orderStakes order (staked.filter (fun p => decide (p.2 > 0)))
      if !list.isEmpty then do
        let txid := txidOfHeight h
        let reqs := list.zipIdx.map fun p => (({ idx := p.2, hash := txid } : TxKey), p.1.2)
        let pays := payouts (P.perBlockHolders * P.snapshotRate) reqs
        insertHistBatch { hash := txid, height := h, blockorder := 0, ts := ts, executed := h }
        M.forEach (list.zip pays) fun lp => do
          insertHistTx { hash := txid, txIndex := lp.2.1.idx, action := 3, fromAddr := lp.1.1, fromAsset := "", fromAmount := 0,
                         toAsset := "PEG", toAmount := lp.2.2, outputs := "" }
          insertLookup { hash := txid, txIndex := lp.2.1.idx, addr := lp.1.1 }
        M.forEach (list.zip pays) fun lp => addBal P lp.1.1 tPEG lp.2.2) := by
    have p1 : ∀ a t v, Step (keepRel (fun db : DB => (db.snapCur, db.snapPast))) (addBal P a t v) :=
      fun a t v => Step.guarded (fun _ => rfl)
    have p4 : ∀ r, Step (keepRel (fun db : DB => (db.snapCur, db.snapPast))) (insertHistBatch r) :=
      fun r => Step.guarded (fun _ => rfl)
    have p5 : ∀ r, Step (keepRel (fun db : DB => (db.snapCur, db.snapPast))) (insertHistTx r) :=
      fun r => Step.guarded (fun _ => rfl)
    have p6 : ∀ r, Step (keepRel (fun db : DB => (db.snapCur, db.snapPast))) (insertLookup r) :=
      fun r => Step.guarded (fun s => by simp only [keepRel]; split <;> rfl)
    step_tac
  have := hk.ok h2
  simp only [keepRel, Prod.mk.injEq] at this
  rw [this.1, this.2, ← hs1]
  exact ⟨rfl, rfl⟩

/-- off the cadence nothing is snapshotted or paid -/
theorem snapshotPhase_off_cadence (P : Params) (b : Block) (s : DB)
    (h : ¬ (b.height ≥ P.act.v20 ∧ b.height % P.snapshotRate = 0)) : snapshotPhase P b s = .ok () s := by
  unfold snapshotPhase
  simp [h]

/-- on the cadence the snapshot is taken first: before the held conversions, the block's
    transactions and its rewards touch any balance. `s` is the state in which the transaction
    phase of the block is entered. -/
theorem snapshot_before_block_transactions {P : Params} {c : DB} {b : Block} {avgs : TMap} {ra : Bool} {s s' : DB}
    (hr : txPhase P c b avgs ra s = .ok () s') (htx : b.height ≥ P.act.txConv)
    (hdue : b.height ≥ P.act.v20 ∧ b.height % P.snapshotRate = 0) :
    ∃ s1, snapshotPhase P b s = .ok () s1 ∧ s1.snapCur = s.addrs ∧ s1.snapPast = s.snapCur := by
  unfold txPhase at hr
  rw [if_pos htx] at hr
  obtain ⟨_, s1, h1, _⟩ := M.bind_ok hr
  refine ⟨s1, h1, ?_⟩
  unfold snapshotPhase at h1
  simp only [hdue, and_self, if_true] at h1
  rw [M.bind_run] at h1
  simp only [M.get_run] at h1
  exact snapshotPayouts_rotates h1

end Pegnet
