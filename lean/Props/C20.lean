import Pegnet.Codec
import Pegnet.Batch
/-
  C20 — Canonical encoding and exact amounts at the edges.
  Proved here: the amount parser's numeric core is exact or rejects (after the repair recorded
  in known-findings.jsonl), and the structural validation of decoded batches. The byte-level JSON
  acceptance (duplicate / unknown keys, case folding) is decided by the `codec` correspondence
  scenario against an independent canonical-form checker — it is outside the Lean model (the
  harness hands the model batches already decoded by the real `UnmarshalJSON`).
-/
namespace Pegnet.C20
open Pegnet

theorem frac_scale (p k : Nat) (hk : k ≤ 8) : p * 100000000 / 10 ^ k = p * 10 ^ (8 - k) := by
  have h : (100000000 : Nat) = 10 ^ (8 - k) * 10 ^ k := by
    rw [← Nat.pow_add]
    have : 8 - k + k = 8 := by omega
    rw [this]
  rw [h, ← Nat.mul_assoc, Nat.mul_div_cancel _ (Nat.pow_pos (by omega))]

/-- Human-readable amounts are converted to base units exactly or rejected, never silently
    altered: for a whole part `w` and `k` fraction digits of value `p`, the result is
    w·10^8 + p·10^(8-k) — and it is returned exactly when at most 8 fraction digits were given
    and that value fits in a uint64. -/
theorem amount_exact (w p k n : Nat) :
    amountCore w p k = some n ↔ (k ≤ 8 ∧ n = w * 10 ^ 8 + p * 10 ^ (8 - k) ∧ n ≤ maxUint64) := by
  unfold amountCore
  constructor
  · intro h
    by_cases h1 : w > maxUint64
    · simp [h1] at h
    · by_cases h2 : w > maxUint64 / 100000000
      · simp [h1, h2] at h
      · by_cases h3 : k > 8
        · simp [h1, h2, h3] at h
        · have hk : k ≤ 8 := by omega
          simp only [h1, h2, h3, if_false] at h
          rw [frac_scale p k hk] at h
          by_cases h4 : w * 100000000 + p * 10 ^ (8 - k) > maxUint64
          · simp [h4] at h
          · simp only [h4, if_false] at h
            injection h with h
            exact ⟨hk, by omega, by omega⟩
  · rintro ⟨hk, hn, hle⟩
    have hw : w * 10 ^ 8 ≤ maxUint64 := by omega
    have h1 : ¬ w > maxUint64 := by
      have : w ≤ w * 10 ^ 8 := Nat.le_mul_of_pos_right w (by decide)
      omega
    have h2 : ¬ w > maxUint64 / 100000000 := by
      intro hgt
      have : (maxUint64 / 100000000 + 1) * 100000000 ≤ w * 100000000 := Nat.mul_le_mul_right _ hgt
      have e : (10 : Nat) ^ 8 = 100000000 := by decide
      rw [e] at hw
      have : (maxUint64 / 100000000 + 1) * 100000000 > maxUint64 := by decide
      omega
    have h3 : ¬ k > 8 := by omega
    simp only [h1, h2, h3, if_false]
    rw [frac_scale p k hk]
    have e : (10 : Nat) ^ 8 = 100000000 := by decide
    rw [e] at hn
    have h4 : ¬ w * 100000000 + p * 10 ^ (8 - k) > maxUint64 := by omega
    simp only [h4, if_false]
    rw [hn]

/-- everything else is rejected -/
theorem amount_rejects (w p k : Nat) :
    amountCore w p k = none ↔ (k > 8 ∨ w * 10 ^ 8 + p * 10 ^ (8 - k) > maxUint64) := by
  constructor
  · intro h
    by_cases hk : k > 8
    · exact Or.inl hk
    · right
      by_cases hfit : w * 10 ^ 8 + p * 10 ^ (8 - k) ≤ maxUint64
      · have := (amount_exact w p k _).2 ⟨by omega, rfl, hfit⟩
        rw [h] at this; cases this
      · omega
  · intro h
    cases hres : amountCore w p k with
    | none => rfl
    | some n =>
      obtain ⟨hk, hn, hle⟩ := (amount_exact w p k n).1 hres
      rcases h with h | h <;> omega

/-! the former witness of silent alteration is now rejected; boundary values -/
example : amountCore 184467440738 0 0 = none := by decide
example : amountCore 184467440737 9551615 8 = some 18446744073709551615 := by decide
example : amountCore 184467440737 9551616 8 = none := by decide
example : amountCore 1 5 1 = some 150000000 := by decide

/-! ### structural validation of a decoded batch (`Validate` / `ValidData`) -/

/-- exactly one of transfers or conversion -/
theorem transfers_xor_conversion (P : Params) (t : Tx) (hv : t.valid P = true) :
    (t.transfers.isEmpty = true ∧ t.conversion ≠ 0) ∨ (t.transfers.isEmpty = false ∧ t.conversion = 0) := by
  unfold Tx.valid at hv
  by_cases he : t.transfers.isEmpty = true
  · left
    refine ⟨he, ?_⟩
    intro hc
    simp [he, hc] at hv
  · right
    have he' : t.transfers.isEmpty = false := by simpa using he
    refine ⟨he', ?_⟩
    by_cases hc : t.conversion = 0
    · exact hc
    · have : 0 < t.conversion := Nat.pos_of_ne_zero hc
      simp [he', this] at hv

/-- input equals the sum of the transfers (no uint underflow): the subtract-with-check loop
    succeeds exactly when the running remainder never goes negative -/
theorem remaining_spec (r : Nat) (trs : List Transfer) (rem : Nat) :
    remainingAfter r trs = some rem ↔ (trs.map (·.amount)).sum + rem = r := by
  induction trs generalizing r with
  | nil => simp [remainingAfter]; omega
  | cons x xs ih =>
    unfold remainingAfter
    by_cases hlt : r < x.amount
    · simp only [hlt, if_true, List.map_cons, List.sum_cons]
      constructor
      · intro h; cases h
      · intro h; omega
    · simp only [hlt, if_false, List.map_cons, List.sum_cons]
      rw [ih]
      omega

/-- one input address per batch, amounts within int64, version 1 -/
theorem valid_batch_shape (P : Params) (e : TxEntry) (h : Nat) (v : Nat) (txs : List Tx)
    (hp : e.parsed = some (v, txs)) (hv : e.validAt P h = true) :
    v = 1 ∧ txs ≠ [] ∧ (∀ t ∈ txs, t.inAmount ≤ maxInt64) ∧ (∀ t ∈ txs, t.valid P = true) := by
  unfold TxEntry.validAt at hv
  rw [hp] at hv
  simp only [Bool.and_eq_true] at hv
  obtain ⟨⟨hd, _⟩, hb⟩ := hv
  unfold validData at hd
  simp only [Bool.and_eq_true, beq_iff_eq, Bool.not_eq_true'] at hd
  obtain ⟨⟨⟨h1, h2⟩, h3⟩, _⟩ := hd
  refine ⟨h1, ?_, ?_, ?_⟩
  · intro hn; rw [hn] at h2; simp at h2
  · intro t ht
    have := List.all_eq_true.1 hb t ht
    simpa using this
  · intro t ht
    exact List.all_eq_true.1 h3 t ht

end Pegnet.C20

#print axioms Pegnet.C20.amount_exact
#print axioms Pegnet.C20.amount_rejects
#print axioms Pegnet.C20.transfers_xor_conversion
#print axioms Pegnet.C20.remaining_spec
#print axioms Pegnet.C20.valid_batch_shape
