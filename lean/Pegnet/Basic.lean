/-
  Basic types of the pegnetd ledger model.  Core Lean only (no Mathlib): everything under
  `Pegnet/` is executable and is what the correspondence check runs against the Go code.
-/
namespace Pegnet

abbrev Height := Nat
/-- `fat2.PTicker` as its integer value: 0 = `PTickerInvalid`, 1 = PEG, 2 = pUSD, … 61 = pNGN,
    62 = `PTickerMax`. -/
abbrev Ticker := Nat
/-- 32-byte values (addresses, hashes) are carried as lower-case hex strings. -/
abbrev Addr := String
abbrev Hash := String

def tPEG : Ticker := 1
def tUSD : Ticker := 2
def tFCT : Ticker := 23

def maxInt64 : Nat := 9223372036854775807
def maxUint64 : Nat := 18446744073709551615

/-- Activation heights (`config/activations.go`, `fat2/activations.go`). -/
structure Activations where
  pegnet      : Nat
  gradingV2   : Nat
  txConv      : Nat
  pegPricing  : Nat
  oneWayFCT   : Nat
  convLimit   : Nat
  pegFloat    : Nat
  rcde        : Nat
  v4          : Nat
  v20         : Nat
  devRewards  : Nat
  sprSig      : Nat
  oneWaySmall : Nat
  v202        : Nat
  v204        : Nat
  v204Burn    : Nat
  pip10       : Nat
  deriving Repr, DecidableEq

/-- Everything about the build/configuration the model is parameterised by. -/
structure Params where
  act           : Activations
  tickerMax     : Nat            -- fat2.PTickerMax
  tickerNames   : List String    -- index i ↦ PTicker(i+1).String()
  oneWaySet     : List Ticker    -- destinations closed at `oneWaySmall` (sync.go:1050-1058)
  snapshotRate  : Nat            -- pegnet.SnapshotRate
  perBlockHolders : Nat          -- conversions.PerBlockAssetHolders
  perBlockDevs  : Nat            -- conversions.PerBlockDevelopers
  bankBase      : Nat            -- pegnet.BankBaseAmount
  avgPeriod     : Nat            -- node.AveragePeriod
  avgRequired   : Nat            -- node.AverageRequired
  syncVersion   : Int            -- pegnet.PegnetdSyncVersion
  devs          : List (Addr × Nat)   -- developer address, percentage (integral)
  mint          : List (Ticker × Nat) -- MintTotalSupplyMap (whole units)
  burnAddr      : Addr           -- GlobalBurnAddress
  oldBurnAddr   : Addr           -- GlobalOldBurnAddress
  mintAddr      : Addr           -- GlobalMintAddress
  coinbaseAddr  : Addr           -- fat2 `coinbase` (reserved input)
  zeroAddr      : Addr           -- 32 zero bytes
  forks         : List (Nat × Int) := []  -- pegnet.Hardforks (activation height, minimum version)
  deriving Repr

def validTicker (P : Params) (t : Ticker) : Bool := decide (0 < t) && decide (t < P.tickerMax)

def tickerName (P : Params) (t : Ticker) : String :=
  if validTicker P t then (P.tickerNames.getD (t - 1) "?") else "invalid token type"

/-- `fat2.StringToTicker`: 0 when unknown. -/
def stringToTicker (P : Params) (s : String) : Ticker :=
  match P.tickerNames.findIdx? (· == s) with
  | some i => i + 1
  | none => 0

/-- a finite map `Ticker → Nat` with default 0 (Go `map[fat2.PTicker]uint64`). -/
abbrev TMap := List (Ticker × Nat)

def TMap.get (m : TMap) (t : Ticker) : Nat :=
  match m.find? (·.1 == t) with
  | some p => p.2
  | none => 0

def TMap.set (m : TMap) (t : Ticker) (v : Nat) : TMap :=
  (t, v) :: m.filter (·.1 != t)

/-- dense balance vector access; index = ticker. Total, default 0. -/
def getB (l : List Int) (i : Nat) : Int := l.getD i 0

def setB : List Int → Nat → Int → List Int
  | [], 0, v => [v]
  | [], i+1, v => 0 :: setB [] i v
  | _ :: xs, 0, v => v :: xs
  | x :: xs, i+1, v => x :: setB xs i v

end Pegnet
