package main

// C02: real kills. A child process runs the real daemon over a stored chain and SIGKILLs itself
// right before its N-th SQL statement (BEGIN / every write and read of the block / COMMIT / the
// point right after COMMIT). The parent re-opens the database file, checks that it holds exactly
// the ledger of the blocks up to the recorded sync height (reference: an uninterrupted lock-step
// run, equal to the Lean model), then lets a fresh child resume to the tip and compares again.

import (
	"github.com/pegnet/pegnetd/node/pegnet"
	"time"
	"database/sql"
	"sync"
	"encoding/json"
	"flag"
	"fmt"
	"io/ioutil"
	"math/rand"
	"os"
	"os/exec"
	"path/filepath"
	"strings"
)

func childSync(args []string) {
	fs := flag.NewFlagSet("child-sync", flag.ExitOnError)
	chainPath := fs.String("chain", "", "")
	dir := fs.String("dir", "", "")
	killAt := fs.Int("killat", 0, "")
	killCommit := fs.Int("killcommit", 0, "")
	failAt := fs.Int("failat", 0, "")
	upto := fs.Uint("upto", 0, "")
	stmtLog := fs.String("stmtlog", "", "")
	fs.Parse(args)
	s, blocks, err := LoadChain(*chainPath)
	if err != nil {
		say("child: %v", err)
		os.Exit(3)
	}
	s.Apply()
	fake := NewFakeFactom()
	for _, b := range blocks {
		fake.Install(b)
	}
	d, err := OpenDaemon(*dir, fake)
	if err != nil {
		say("child: open: %v", err)
		os.Exit(4)
	}
	fake.SetTip(uint32(d.N.Sync.Synced))
	Wrap.Record = *stmtLog != ""
	Wrap.KillAt = *killAt
	Wrap.KillCommit = *killCommit
	Wrap.KillFile = filepath.Join(*dir, "killed-at")
	if *failAt > 0 {
		Wrap.FailAt[*failAt] = true
	}
	d.Start()
	var synced int64
	var msg string
	if *failAt > 0 {
		// a failed statement fails the block; the daemon is expected to retry it: wait for the tip
		// (or a crash, or 60 s) whatever is logged meanwhile
		fake.SetTip(uint32(*upto))
		deadline := time.Now().Add(60 * time.Second)
		for {
			synced = CommittedSynced(d.DBPath)
			if synced >= int64(*upto) {
				break
			}
			if p := d.Panicked(); p != "" {
				msg = "panic: " + p
				break
			}
			if time.Now().After(deadline) {
				msg = "timeout: " + theHook.Last()
				break
			}
			time.Sleep(2 * time.Millisecond)
		}
	} else {
		synced, msg = d.StepTo(uint32(*upto))
	}
	say("child: synced=%d msg=%q statements=%d", synced, msg, Wrap.Count())
	d.Stop()
	if *stmtLog != "" {
		data, _ := json.Marshal(Wrap.Log)
		ioutil.WriteFile(*stmtLog, data, 0644)
	}
	if synced < int64(*upto) {
		os.Exit(5)
	}
	os.Exit(0)
}

func runChild(args ...string) (int, string) {
	cmd := exec.Command(os.Args[0], args...)
	cmd.Env = os.Environ()
	out, err := cmd.CombinedOutput()
	code := 0
	if err != nil {
		if ee, ok := err.(*exec.ExitError); ok {
			code = ee.ExitCode()
		} else {
			code = -2
		}
	}
	return code, string(out)
}

// refRun is an uninterrupted lock-step run that keeps the per-height dumps and statement log.
type refRun struct {
	S       Setup
	Chain   []*BlockSpec
	Dumps   map[int64][]string // by committed height
	Stmts   []StmtLog
	Total   int
	Start   uint32
	Tip     uint32
	ChainFn string
}

// buildReference generates a chain with gen (called per height on the live world), runs it in
// lock-step (full dumps), and stores the chain file in dir.
// tolerateRefDiff: a disagreement with the model while the reference chain is built is recorded
// and the chain is completed by the implementation alone (scenarios that compare implementation
// runs with each other can still do so).
var tolerateRefDiff = false

func buildReference(rep *Report, s Setup, g *Gen, dir string, from, to uint32, build func(w *World, h uint32) *BlockSpec) (*refRun, bool) {
	run, err := NewRun(s)
	if err != nil {
		rep.Note("infrastructure: %v", err)
		return nil, false
	}
	defer run.Close()
	w := &World{G: g, Run: run, S: s, Rep: rep}
	defer func() {
		if w.ro != nil {
			w.ro.Close()
		}
	}()
	ref := &refRun{S: s, Dumps: map[int64][]string{}, Start: from - 1, Tip: to}
	d0, _ := DumpDB(run.D.DBPath)
	ref.Dumps[int64(from-1)] = d0
	ref.Dumps[-1] = d0
	for h := from; h <= to; h++ {
		b := build(w, h)
		res := run.Step(b)
		rep.Traces++
		if res.Diff != "" {
			path := WriteReplay(rep.Property, "reference", Replay{Property: rep.Property, Scenario: rep.Scenario, Seed: g.Seed, Setup: s,
				What: fmt.Sprintf("model and implementation disagree at height %d", h), Detail: []string{res.Diff, res.ImplMsg, res.ModelAns}, Blocks: ChainJSON(run.Chain)})
			rep.Disagree("lockstep:"+eraOf(s.Acts, h), res.Diff, path)
			if !tolerateRefDiff {
				return nil, false
			}
			run.NoModel = true
		}
		if !res.ImplOK {
			// keep the reference chain syncable: replace by an empty block
			run.RecoverFrom(res)
			run.Chain = run.Chain[:len(run.Chain)-1]
			res = run.Step(&BlockSpec{Height: h, Time: BlockTime(h)})
			if !res.ImplOK || res.Diff != "" {
				path := WriteReplay(rep.Property, "reference", Replay{Property: rep.Property, Scenario: rep.Scenario, Seed: g.Seed, Setup: s,
					What: fmt.Sprintf("reference chain cannot pass height %d even with an empty block", h), Detail: []string{res.Diff, res.ImplMsg, res.ModelAns}, Blocks: ChainJSON(run.Chain)})
				rep.Disagree("reference:stuck:"+res.ImplClass, fmt.Sprintf("h=%d %s %s", h, res.Diff, res.ImplMsg), path)
				return nil, false
			}
		}
		ref.Dumps[int64(h)] = res.Dump
	}
	ref.Chain = run.Chain
	ref.ChainFn = filepath.Join(dir, "chain.json")
	if err := SaveChain(ref.ChainFn, s, ref.Chain); err != nil {
		rep.Note("infrastructure: %v", err)
		return nil, false
	}
	// statement numbering of a clean run over the final chain (one child process)
	ldir, _ := ioutil.TempDir(dir, "log")
	logFn := filepath.Join(dir, "stmts.json")
	code, out := runChild("child-sync", "-chain", ref.ChainFn, "-dir", ldir, "-upto", fmt.Sprint(to), "-stmtlog", logFn)
	if code != 0 {
		rep.Note("infrastructure: clean run of the reference chain failed: %s", out)
		return nil, false
	}
	data, _ := ioutil.ReadFile(logFn)
	json.Unmarshal(data, &ref.Stmts)
	ref.Total = len(ref.Stmts)
	clean, _ := DumpDB(filepath.Join(ldir, "sql.db.v4"))
	if diff := FirstDiff(clean, ref.Dumps[int64(to)]); diff != "" {
		sig := "replay:ledger-differs"
		if strings.Contains(diff, fmt.Sprintf("%061d", 0)) && (strings.Contains(diff, fmt.Sprintf("%064d", 144)) || strings.Contains(diff, fmt.Sprintf("%064d", 288))) {
			sig = "replay:staking-tie-order"
		}
		rep.Violate(sig, "a second process replaying the same chain produced a different ledger: "+diff, "")
	}
	os.RemoveAll(ldir)
	return ref, true
}

func crashActs() Acts {
	// a short chain that crosses the transaction, bank and 2.0 eras, the old-burn zeroing (140),
	// a snapshot + staking + developer payout height (144) and the 2.0.2 zeroing (150)
	return Acts{Pegnet: 110, GradingV2: 113, TxConv: 115, PegPricing: 118, OneWayFCT: 121, ConvLimit: 124, PegFloat: 124, RCDE: 130, V4: 130,
		V20: 136, DevRewards: 140, SprSig: 140, OneWaySmall: 150, V202: 150, V204: 160, V204Burn: 165, PIP10: 170}
}

func scenCrash(rep *Report, tier string, seed int64) {
	dir := tempDir("verif-crash-")
	defer os.RemoveAll(dir)
	g := NewGen(seed, 4, 1)
	s := Setup{Acts: crashActs(), AvgPeriod: 8, SyncVersion: mainnetSyncVersion}
	// the version-lock fork heights lie inside the chain (at the bank-table and 2.0 activations, as
	// on mainnet): a process killed around such a height restarts through CheckHardForks with the
	// sync height right below / at / above a fork
	s.Forks = []pegnet.ForkEvent{{ActivationHeight: 0, MinimumVersion: -1}, {ActivationHeight: s.Acts.V4, MinimumVersion: 1}, {ActivationHeight: s.Acts.V20, MinimumVersion: 2}}
	tip := uint32(152)
	first := s.Acts.Pegnet + 1
	ref, ok := buildReference(rep, s, g, dir, first, tip, func(w *World, h uint32) *BlockSpec { return w.BuildBlock(h) })
	if !ok {
		return
	}
	// candidate kill points: statement indices grouped per block transaction
	type txSpan struct{ begin, commit, after int }
	var spans []txSpan
	cur := txSpan{}
	for _, st := range ref.Stmts {
		switch st.Kind {
		case "begin":
			cur = txSpan{begin: st.N}
		case "commit":
			cur.commit = st.N
		case "committed":
			cur.after = st.N
			spans = append(spans, cur)
		}
	}
	r := rand.New(rand.NewSource(seed))
	var points []int
	addSpan := func(sp txSpan, dense bool) {
		points = append(points, sp.begin, sp.begin+1, sp.commit-1, sp.commit, sp.after)
		if sp.after+1 <= ref.Total {
			points = append(points, sp.after+1)
		}
		n := 3
		if dense {
			n = sp.commit - sp.begin
		}
		for i := 0; i < n; i++ {
			if sp.commit-sp.begin > 2 {
				points = append(points, sp.begin+1+r.Intn(sp.commit-sp.begin-1))
			}
		}
	}
	// statements issued between two block transactions (through the pool, outside any block)
	for i := 0; i+1 < len(spans); i++ {
		for n := spans[i].after + 1; n < spans[i+1].begin; n++ {
			if tier == "thorough" || r.Intn(8) == 0 {
				points = append(points, n)
			}
		}
	}
	spanOf := func(h uint32) (txSpan, bool) {
		i := int(h) - int(first)
		if i < 0 || i >= len(spans) {
			return txSpan{}, false
		}
		return spans[i], true
	}
	// the heights with one-time or periodic work are always covered, densely
	for _, h := range []uint32{s.Acts.DevRewards, 144, s.Acts.V202, s.Acts.V4 - 1, s.Acts.V4, s.Acts.V20 - 1, s.Acts.V20} {
		if sp, ok := spanOf(h); ok {
			addSpan(sp, tier == "thorough" && h >= s.Acts.DevRewards)
			for n := sp.begin - 4; n < sp.begin; n++ { // whatever runs right before BEGIN
				points = append(points, n)
			}
		}
	}
	if tier == "thorough" {
		for i, sp := range spans {
			addSpan(sp, i%4 == 0)
		}
	} else {
		for i := 0; i < 14 && len(spans) > 0; i++ {
			addSpan(spans[r.Intn(len(spans))], false)
		}
		// always include the busiest block
		best := spans[0]
		for _, sp := range spans {
			if sp.commit-sp.begin > best.commit-best.begin {
				best = sp
			}
		}
		addSpan(best, false)
	}
	seen := map[int]bool{}
	stmtKind := map[int]StmtLog{}
	for _, st := range ref.Stmts {
		stmtKind[st.N] = st
	}
	var todo []int
	for _, n := range points {
		if n < 1 || n > ref.Total || seen[n] {
			continue
		}
		seen[n] = true
		todo = append(todo, n)
	}
	// the kills are independent child processes: eight at a time
	var mu sync.Mutex
	var wg sync.WaitGroup
	sem := make(chan struct{}, 8)
	for _, n := range todo {
		n := n
		wg.Add(1)
		sem <- struct{}{}
		go func() {
			defer wg.Done()
			defer func() { <-sem }()
			cdir, _ := ioutil.TempDir(dir, "k")
			defer os.RemoveAll(cdir)
			code, out := runChild("child-sync", "-chain", ref.ChainFn, "-dir", cdir, "-killat", fmt.Sprint(n), "-upto", fmt.Sprint(tip))
			st := stmtKind[n]
			dbPath := filepath.Join(cdir, "sql.db.v4")
			k := CommittedSynced(dbPath)
			dump, derr := DumpDB(dbPath)
			reached := !(code != -1 && !strings.Contains(out, "signal: killed") && code != 137 && code == 0)
			var code2 int
			var out2 string
			var final []string
			if reached && derr == nil {
				code2, out2 = runChild("child-sync", "-chain", ref.ChainFn, "-dir", cdir, "-upto", fmt.Sprint(tip))
				if code2 == 0 {
					final, _ = DumpDB(dbPath)
				}
			}
			mu.Lock()
			defer mu.Unlock()
			key := fmt.Sprintf("%s|%s", st.Kind, st.Site)
			rep.Case(key, true)
			rep.Count("kill:" + st.Kind)
			if !reached {
				rep.Note("kill point %d was never reached (child finished)", n)
				return
			}
			if derr != nil {
				rep.Violate("crash:unreadable", fmt.Sprintf("database unreadable after kill before statement %d (%s %s): %v", n, st.Kind, st.SQL, derr), "")
				return
			}
			want, okh := ref.Dumps[k]
			if !okh {
				want = ref.Dumps[-1]
			}
			if diff := FirstDiff(dump, want); diff != "" {
				path := WriteReplay(rep.Property, "crash", Replay{Property: rep.Property, Scenario: "crash", Seed: seed, Setup: s,
					What:   fmt.Sprintf("after SIGKILL before statement %d (%s %q at %s) the database (sync height %d) is not the ledger of the blocks up to that height", n, st.Kind, st.SQL, st.Site, k),
					Detail: []string{diff}, Blocks: ChainJSON(ref.Chain)})
				rep.Violate("crash:partial:"+st.Kind+":"+st.Site, fmt.Sprintf("kill before statement %d (%s %s): %s", n, st.Kind, st.SQL, diff), path)
			}
			if code2 != 0 {
				path := WriteReplay(rep.Property, "crash-resume", Replay{Property: rep.Property, Scenario: "crash", Seed: seed, Setup: s,
					What: fmt.Sprintf("after a kill before statement %d the daemon cannot resume to the tip", n), Detail: []string{out2}, Blocks: ChainJSON(ref.Chain)})
				rep.Violate("crash:resume-stuck:"+st.Kind, fmt.Sprintf("resume after kill at %d failed: %.200s", n, out2), path)
			} else if diff := FirstDiff(dropBackfill(final), dropBackfill(ref.Dumps[int64(tip)])); diff != "" {
				path := WriteReplay(rep.Property, "crash-resume", Replay{Property: rep.Property, Scenario: "crash", Seed: seed, Setup: s,
					What: fmt.Sprintf("resuming after a kill before statement %d yields a different ledger", n), Detail: []string{diff}, Blocks: ChainJSON(ref.Chain)})
				rep.Violate("crash:resume-differs:"+st.Kind+":"+st.Site, diff, path)
			}
			if len(rep.Samples) < 4 {
				rep.Sample(map[string]interface{}{"kill_before_statement": n, "kind": st.Kind, "sql": st.SQL, "site": st.Site, "synced_after_kill": k})
			}
		}()
	}
	wg.Wait()
	// "… or a block fails at any instant": instead of a kill, one statement of a block transaction
	// fails once (first and last write, a random one, COMMIT itself). The block is rolled back and
	// retried; resumed to the tip the ledger — including one version row per height, no gaps — must
	// be the uninterrupted one.
	var failPts []int
	failSpan := func(sp txSpan) {
		failPts = append(failPts, sp.begin+1, sp.commit-1, sp.commit)
		if sp.commit-sp.begin > 2 {
			failPts = append(failPts, sp.begin+1+r.Intn(sp.commit-sp.begin-1))
		}
	}
	for _, h := range []uint32{s.Acts.DevRewards, 144, s.Acts.V202} {
		if sp, ok := spanOf(h); ok {
			failSpan(sp)
		}
	}
	nf := 3
	if tier == "thorough" {
		nf = 40
	}
	for i := 0; i < nf && len(spans) > 0; i++ {
		failSpan(spans[r.Intn(len(spans))])
	}
	seenF := map[int]bool{}
	for _, n := range failPts {
		n := n
		if n < 1 || n > ref.Total || seenF[n] {
			continue
		}
		seenF[n] = true
		wg.Add(1)
		sem <- struct{}{}
		go func() {
			defer wg.Done()
			defer func() { <-sem }()
			cdir, _ := ioutil.TempDir(dir, "f")
			defer os.RemoveAll(cdir)
			code, out := runChild("child-sync", "-chain", ref.ChainFn, "-dir", cdir, "-failat", fmt.Sprint(n), "-upto", fmt.Sprint(tip))
			st := stmtKind[n]
			final, derr := DumpDB(filepath.Join(cdir, "sql.db.v4"))
			mu.Lock()
			defer mu.Unlock()
			rep.Case(fmt.Sprintf("fail|%s|%s", st.Kind, st.Site), true)
			rep.Count("fail:" + st.Kind)
			what := fmt.Sprintf("statement %d (%s %q at %s) failing once", n, st.Kind, st.SQL, st.Site)
			if code != 0 || derr != nil {
				path := WriteReplay(rep.Property, "crash-fail", Replay{Property: rep.Property, Scenario: "crash", Seed: seed, Setup: s,
					What: "after " + what + " the daemon does not reach the tip", Detail: []string{out, fmt.Sprint(derr)}, Blocks: ChainJSON(ref.Chain), Extra: map[string]interface{}{"fail_statement": n}})
				// (the signature names the call path, as below: a statement failing under
				// GetPegNetRateAverages makes the daemon panic — C10's known finding, seen from here)
				sig := "crash:failed-block-not-retried:" + st.Kind
				if strings.Contains(out, "no recovery from a database error getting rates") {
					sig = "crash:failed-block-not-retried:" + shortPath(st.Path)
				}
				rep.Violate(sig, fmt.Sprintf("%s: %.300s", what, out), path)
				return
			}
			if diff := FirstDiff(dropBackfill(final), dropBackfill(ref.Dumps[int64(tip)])); diff != "" {
				path := WriteReplay(rep.Property, "crash-fail", Replay{Property: rep.Property, Scenario: "crash", Seed: seed, Setup: s,
					What: "after " + what + " the ledger at the tip differs from the uninterrupted run", Detail: []string{diff}, Blocks: ChainJSON(ref.Chain), Extra: map[string]interface{}{"fail_statement": n}})
				// (the signature names the call path: everything under NullifyBurnAddress is one call site,
				// whose caller discards the error — C10's known finding, seen from here)
				rep.Violate("crash:failed-block-differs:"+shortPath(st.Path), what+": "+diff, path)
			}
		}()
	}
	wg.Wait()
	crashBigLedger(rep, ref, dir, seed, s)
	rep.Distribution["statements_in_reference_run"] = ref.Total
	rep.Distribution["block_transactions"] = len(spans)
	rep.Rule = "one evaluation = one real SIGKILL of a child daemon right before a numbered SQL statement (BEGIN, each statement of the block, COMMIT, right after COMMIT), followed by re-opening the file, comparing with the reference ledger of the recorded height and resuming to the tip; distinct = distinct (statement kind, call site in /repo)"
}

// crashBigLedger: a kill inside a block whose writes exceed SQLite's page cache (the snapshot
// block of a ledger with tens of thousands of holders copies the whole balance table and pays
// every holder), so that pages of the open transaction have reached the database file before
// COMMIT. The storage configuration is the daemon's own (OpenDaemon mirrors it).
func crashBigLedger(rep *Report, ref *refRun, dir string, seed int64, s Setup) {
	snap := uint32(144)
	cdir, _ := ioutil.TempDir(dir, "big")
	defer os.RemoveAll(cdir)
	if code, out := runChild("child-sync", "-chain", ref.ChainFn, "-dir", cdir, "-upto", fmt.Sprint(snap-1)); code != 0 {
		rep.Note("infrastructure: big-ledger crash: cannot sync to %d: %.200s", snap-1, out)
		return
	}
	dbPath := filepath.Join(cdir, "sql.db.v4")
	db, err := sql.Open("sqlite3", dbPath)
	if err != nil {
		rep.Note("infrastructure: %v", err)
		return
	}
	holders := 40000
	tx, _ := db.Begin()
	r := rand.New(rand.NewSource(seed*7919 + 424243))
	for i := 0; i < holders; i++ {
		var a [32]byte
		r.Read(a[:])
		if _, err := tx.Exec(`INSERT INTO pn_addresses (address, pusd_balance, peur_balance, pxbt_balance) VALUES (?, ?, ?, ?)`, a[:], 1000+i, 7*i, i%13); err != nil {
			tx.Rollback()
			db.Close()
			rep.Note("infrastructure: big-ledger crash: %v", err)
			return
		}
	}
	// the previous snapshot holds the same rows, so that every one of them is a staker
	if err := tx.Commit(); err != nil {
		db.Close()
		rep.Note("infrastructure: %v", err)
		return
	}
	db.Exec(`INSERT INTO snapshot_current SELECT * FROM pn_addresses WHERE id NOT IN (SELECT id FROM snapshot_current)`)
	db.Close()
	before, err := DumpDB(dbPath)
	if err != nil {
		rep.Note("infrastructure: %v", err)
		return
	}
	code, out := runChild("child-sync", "-chain", ref.ChainFn, "-dir", cdir, "-killcommit", "1", "-upto", fmt.Sprint(snap))
	rep.Case("big-ledger|kill-before-commit-of-snapshot-block", true)
	rep.Count("kill:big-ledger-commit")
	if code == 0 {
		rep.Note("big-ledger crash: the child finished without reaching the kill point: %.200s", out)
		return
	}
	// re-open the file the way a restarting daemon does (read-write: SQLite rolls a hot journal
	// back on the first access) and check its integrity
	what := ""
	if rw, err := sql.Open("sqlite3", "file:"+dbPath+"?_busy_timeout=10000"); err == nil {
		var res string
		if err := rw.QueryRow("PRAGMA integrity_check").Scan(&res); err != nil {
			what = "integrity_check: " + err.Error()
		} else if res != "ok" {
			what = "integrity_check: " + res
		}
		rw.Close()
	}
	if what == "" {
		if k := CommittedSynced(dbPath); k != int64(snap-1) {
			what = fmt.Sprintf("recorded sync height %d, expected %d", k, snap-1)
		}
	}
	if what == "" {
		after, err := DumpDB(dbPath)
		if err != nil {
			what = "database unreadable: " + err.Error()
		} else if diff := FirstDiff(dropBackfill(after), dropBackfill(before)); diff != "" {
			what = "ledger differs from the one before the block: " + diff
		}
	}
	if what != "" {
		if len(what) > 400 {
			what = what[:400]
		}
		path := WriteReplay(rep.Property, "crash-big-ledger", Replay{Property: rep.Property, Scenario: "crash", Seed: seed, Setup: s,
			What:   fmt.Sprintf("SIGKILL right before COMMIT of the snapshot block %d on a ledger with %d holders: after re-opening, the database is not the ledger of height %d", snap, holders, snap-1),
			Detail: []string{what}, Blocks: ChainJSON(ref.Chain)})
		rep.Violate("crash:partial:big-ledger-commit", what, path)
	}
}

// dropBackfill removes the version rows CheckHardForks writes at start-up (version -1 at fork
// heights): they are written through the pool outside any block and are not ledger state.
func dropBackfill(lines []string) []string {
	var out []string
	for _, l := range lines {
		if strings.HasPrefix(l, "V|") && strings.HasSuffix(l, "|-1") {
			continue
		}
		out = append(out, l)
	}
	return out
}

func init() {
	scenarios["crash"] = scenCrash
}
