import Proofs.Auth
import Proofs.BatchLemmas
import Proofs.Arith
/-
  C03: the in-memory pre-check of `applyTransactionBatch` is SOUND with respect to the writes of
  `recordBatch`: if the cumulative second pass accepts a batch on the balances the input address
  holds, then `recordBatch` — which re-checks every debit against the database — never meets an
  insufficient balance, whatever the batch contains (several transactions drawing on one balance,
  credits arriving mid-batch from conversions or from outputs back to the sender, PEG requests
  whose output is deferred). This is the statement behind fix eb58d6d.
-/
namespace Pegnet

/-- exact point-wise effect of `AddToBalance` -/
theorem bal_upsertAdd (db : DB) (a a' : Addr) (t t' : Ticker) (v : Int) :
    ({ db with addrs := upsertAdd db.addrs a t v } : DB).bal a' t' =
      db.bal a' t' + (if a' = a ∧ t' = t then v else 0) := by
  unfold upsertAdd
  cases hf : findRow db.addrs a with
  | some r =>
    simp only
    rw [bal_updRow]
    by_cases h1 : a' = a
    · subst h1
      by_cases h2 : t' = t
      · subst h2; simp [hf]
      · simp [h2]
    · simp [h1]
  | none =>
    simp only
    unfold DB.bal
    simp only [findRow_append_singleton]
    cases hf' : findRow db.addrs a' with
    | some r' =>
      have hne : ¬ a' = a := by
        intro h; subst h; rw [hf] at hf'; cases hf'
      simp [hne]
    | none =>
      simp only [Option.none_or]
      by_cases haa : a' = a
      · subst haa
        simp only [beq_self_eq_true, if_true, true_and]
        rw [getB_setB]
        by_cases htt : t = t'
        · subst htt; simp
        · have : ¬ t' = t := fun h => htt h.symm
          simp [htt, this, getB_nil]
      · have : (a == a') = false := by simpa using (fun h => haa h.symm)
        simp [this, haa]

def NotShort (e : Failure) : Prop := e ≠ .uncaught "insufficient balance"

/-- a run either fails with something other than "insufficient balance" or satisfies `post` -/
def Outcome {α} (r : Res DB α) (post : α → DB → Prop) : Prop :=
  match r with
  | .ok a s' => post a s'
  | .fail e _ => NotShort e

theorem Outcome.bind {α β} {m : LM α} {f : α → LM β} {s : DB} {p : α → DB → Prop} {q : β → DB → Prop}
    (hm : Outcome (m s) p) (hf : ∀ a s1, p a s1 → Outcome (f a s1) q) : Outcome ((m >>= f) s) q := by
  rw [M.bind_run]
  cases hms : m s with
  | ok a s1 => rw [hms] at hm; exact hf a s1 hm
  | fail e s1 => rw [hms] at hm; exact hm

theorem addBal_outcome (P : Params) (a : Addr) (t : Ticker) (v : Nat) (s : DB) :
    Outcome (addBal P a t v s) (fun _ s' => ∀ a' x, s'.bal a' x = s.bal a' x + (if a' = a ∧ x = t then (v : Int) else 0)) := by
  simp only [addBal, M.guarded]
  by_cases h1 : (!validTicker P t) = true
  · simp [h1, Outcome, NotShort]
  · by_cases h2 : v > maxInt64
    · simp [h1, h2, Outcome, NotShort]
    · simp only [h1, h2, if_false, Bool.false_eq_true, Outcome]
      intro a' x
      exact bal_upsertAdd s a a' t x v

theorem debit_outcome (a : Addr) (t : Ticker) (v : Nat) (s : DB) (hrow : (findRow s.addrs a).isSome = true) :
    Outcome (debit a t v s) (fun _ s' => ∀ x, s'.bal a x = s.bal a x - (if x = t then (v : Int) else 0)) := by
  simp only [debit, M.guarded]
  by_cases h2 : v > maxInt64
  · simp [h2, Outcome, NotShort]
  · simp only [h2, if_false, Outcome]
    intro x
    rw [bal_updRow]
    by_cases hx : x = t
    · simp [hx, hrow]
    · simp [hx]

theorem row_of_pos_bal {s : DB} {a : Addr} {t : Ticker} (h : 0 < s.bal a t) : (findRow s.addrs a).isSome = true := by
  unfold DB.bal at h
  cases hf : findRow s.addrs a with
  | some r => rfl
  | none => rw [hf] at h; simp at h

/-- `SubFromBalance a t v` on a funded balance: fails only at SQL level, or debits exactly `v` -/
theorem subBal_funded (P : Params) (a : Addr) (t : Ticker) (v : Nat) (s : DB) (hf : (v : Int) ≤ s.bal a t) :
    Outcome (subBal P a t v s) (fun b s' => b = true ∧ ∀ x, s'.bal a x = s.bal a x - (if x = t then (v : Int) else 0)) := by
  unfold subBal
  by_cases hv : v = 0
  · rw [if_pos hv]
    apply Outcome.bind (addBal_outcome P a t 0 s)
    intro _ s1 h1
    simp only [M.pure_run, Outcome]
    refine ⟨trivial, fun x => ?_⟩
    rw [h1 a x]
    subst hv
    simp
  · rw [if_neg hv]
    by_cases hvt : (!validTicker P t) = true
    · rw [if_pos hvt]
      simp [Outcome, NotShort]
    · rw [if_neg hvt, M.bind_run]
      simp only [M.get_run]
      have hnl : ¬ s.bal a t < (v : Int) := by omega
      rw [if_neg hnl]
      have hpos : 0 < s.bal a t := by omega
      apply Outcome.bind (debit_outcome a t v s (row_of_pos_bal hpos))
      intro _ s1 h1
      simp only [M.pure_run, Outcome]
      exact ⟨trivial, h1⟩


/-! ### what one transaction credits back to its own input address -/

def backTo (a : Addr) (trs : List Transfer) : Int :=
  ((trs.filter (·.addr == a)).map (fun tr => (tr.amount : Int))).sum

/-- the credit pass 2 books for one transaction (per asset); `none` = pass 2 stops with an error -/
def creditOf (P : Params) (h : Nat) (rates avgs : Option TMap) (t : Tx) : Option (Ticker → Int) :=
  if t.isConversion P then
    match convert P.act.pip10 h (toInt64 t.inAmount) ((rates.getD []).get t.inType) ((avgs.getD []).get t.inType)
        ((rates.getD []).get t.conversion) ((avgs.getD []).get t.conversion) with
    | none => none
    | some out => some (fun x => if x = t.conversion ∧ ¬ (h ≥ P.act.convLimit ∧ t.isPEGRequest = true) then out else 0)
  else some (fun x => if x = t.inType then backTo t.inAddr t.transfers else 0)

/-- unfolding one step of the cumulative pass -/
theorem pass2_cons_none {P : Params} {h : Nat} {rates avgs : Option TMap} {bal : Ticker → Int} {t : Tx} {rest : List Tx}
    (hp : pass2 P h rates avgs bal (t :: rest) = none) :
    (t.inAmount : Int) ≤ bal t.inType ∧ ∃ c, creditOf P h rates avgs t = some c ∧
      pass2 P h rates avgs (fun x => bal x - (if x = t.inType then (t.inAmount : Int) else 0) + c x) rest = none := by
  unfold pass2 at hp
  by_cases h1 : bal t.inType < (t.inAmount : Int)
  · rw [if_pos h1] at hp; cases hp
  · rw [if_neg h1] at hp
    refine ⟨by omega, ?_⟩
    unfold creditOf
    by_cases hc : t.isConversion P = true
    · rw [if_pos hc] at hp
      rw [if_pos hc]
      simp only at hp
      cases hcv : convert P.act.pip10 h (toInt64 t.inAmount) ((rates.getD []).get t.inType) ((avgs.getD []).get t.inType)
          ((rates.getD []).get t.conversion) ((avgs.getD []).get t.conversion) with
      | none => rw [hcv] at hp; cases hp
      | some out =>
        rw [hcv] at hp
        simp only at hp
        refine ⟨_, rfl, ?_⟩
        have : (fun x => bal x - (if x = t.inType then (t.inAmount : Int) else 0) +
              (if x = t.conversion ∧ ¬ (h ≥ P.act.convLimit ∧ t.isPEGRequest = true) then out else 0)) =
            (fun x => if x = t.conversion ∧ (!(decide (h ≥ P.act.convLimit) && t.isPEGRequest)) = true
              then (if x = t.inType then bal x - (t.inAmount : Int) else bal x) + out
              else (if x = t.inType then bal x - (t.inAmount : Int) else bal x)) := by
          funext x
          have hd : (¬ (h ≥ P.act.convLimit ∧ t.isPEGRequest = true)) ↔ (!(decide (h ≥ P.act.convLimit) && t.isPEGRequest)) = true := by
            by_cases hd : h ≥ P.act.convLimit <;> cases hq : t.isPEGRequest <;> simp [hd]
          by_cases hy : x = t.conversion ∧ (!(decide (h ≥ P.act.convLimit) && t.isPEGRequest)) = true
          · have hy' : x = t.conversion ∧ ¬ (h ≥ P.act.convLimit ∧ t.isPEGRequest = true) := ⟨hy.1, hd.2 hy.2⟩
            rw [if_pos hy', if_pos hy]
            by_cases hx : x = t.inType
            · rw [if_pos hx, if_pos hx]
            · rw [if_neg hx, if_neg hx]; omega
          · have hy' : ¬ (x = t.conversion ∧ ¬ (h ≥ P.act.convLimit ∧ t.isPEGRequest = true)) := fun hh => hy ⟨hh.1, hd.1 hh.2⟩
            rw [if_neg hy', if_neg hy]
            by_cases hx : x = t.inType
            · rw [if_pos hx, if_pos hx]; omega
            · rw [if_neg hx, if_neg hx]; omega
        rw [this]
        exact hp
    · rw [if_neg hc] at hp
      rw [if_neg hc]
      refine ⟨_, rfl, ?_⟩
      have : (fun x => bal x - (if x = t.inType then (t.inAmount : Int) else 0) +
            (if x = t.inType then backTo t.inAddr t.transfers else 0)) =
          (fun x => if x = t.inType then bal x - (t.inAmount : Int) +
            ((t.transfers.filter (·.addr == t.inAddr)).map (fun tr => (tr.amount : Int))).sum else bal x) := by
        funext x
        unfold backTo
        by_cases hx : x = t.inType <;> simp [hx]
      rw [this]
      exact hp

/-- writes that never fail and leave the balance table alone -/
theorem keeps_bal_outcome {u : DB → DB} (hu : ∀ s, (u s).addrs = s.addrs) (s : DB) :
    Outcome (M.guarded (fun _ => none) u s) (fun _ s' => ∀ a x, s'.bal a x = s.bal a x) := by
  simp only [M.guarded, Outcome]
  intro a x
  unfold DB.bal
  rw [hu s]

theorem insertRelation_outcome (hash : Hash) (a : Addr) (i : Nat) (t c : Bool) (s : DB) :
    Outcome (insertRelation hash a i t c s) (fun _ s' => ∀ a' x, s'.bal a' x = s.bal a' x) :=
  keeps_bal_outcome (fun s => by split <;> rfl) s

/-- the crediting loop of a transfer, seen from the input address -/
theorem creditLoop_outcome (P : Params) (h : Nat) (hash : Hash) (idx : Nat) (ty : Ticker) (a : Addr)
    (hb : a ≠ burnAddrAt P h) (trs : List Transfer) (s : DB) :
    Outcome (M.forEach trs (fun tr =>
        if tr.addr == burnAddrAt P h then (pure () : LM Unit) else do
          addBal P tr.addr ty tr.amount
          insertRelation hash tr.addr idx true false) s)
      (fun _ s' => ∀ x, s'.bal a x = s.bal a x + (if x = ty then backTo a trs else 0)) := by
  induction trs generalizing s with
  | nil =>
    simp only [M.forEach, M.pure_run', Outcome, backTo]
    intro x; simp
  | cons tr rest ih =>
    simp only [M.forEach]
    apply Outcome.bind (m := if tr.addr == burnAddrAt P h then (pure () : LM Unit) else do
          addBal P tr.addr ty tr.amount
          insertRelation hash tr.addr idx true false)
      (p := fun _ s1 => ∀ x, s1.bal a x = s.bal a x + (if x = ty ∧ tr.addr = a then (tr.amount : Int) else 0))
    · by_cases hbu : (tr.addr == burnAddrAt P h) = true
      · rw [if_pos hbu]
        simp only [M.pure_run, Outcome]
        intro x
        have : ¬ tr.addr = a := by
          intro he
          apply hb
          rw [← he]
          simpa using hbu
        simp [this]
      · rw [if_neg hbu]
        apply Outcome.bind (addBal_outcome P tr.addr ty tr.amount s)
        intro _ s1 h1
        have h2 := insertRelation_outcome hash tr.addr idx true false s1
        cases hr : insertRelation hash tr.addr idx true false s1 with
        | fail e s2 => rw [hr] at h2; exact h2
        | ok u s2 =>
          rw [hr] at h2
          simp only [Outcome] at h2 ⊢
          intro x
          rw [h2 a x, h1 a x]
          by_cases hx : x = ty <;> by_cases ha : a = tr.addr
          · subst ha; simp [hx]
          · have : ¬ tr.addr = a := fun h => ha h.symm
            simp [hx, ha, this]
          · subst ha; simp [hx]
          · have : ¬ tr.addr = a := fun h => ha h.symm
            simp [hx, ha, this]
    · intro _ s1 h1
      have := ih s1
      cases hr : M.forEach rest (fun tr =>
          if tr.addr == burnAddrAt P h then (pure () : LM Unit) else do
            addBal P tr.addr ty tr.amount
            insertRelation hash tr.addr idx true false) s1 with
      | fail e s2 => rw [hr] at this; exact this
      | ok u s2 =>
        rw [hr] at this
        simp only [Outcome] at this ⊢
        intro x
        rw [this x, h1 x]
        unfold backTo
        by_cases hx : x = ty
        · by_cases hta : tr.addr = a
          · simp [hx, hta]; omega
          · have : (tr.addr == a) = false := by simpa using hta
            simp [hx, hta, this]
        · simp [hx]


/-- the output side of one recorded transaction, seen from its own input address -/
theorem recordOutputs_outcome (P : Params) (h : Nat) (hash : Hash) (rates avgs : Option TMap) (idx : Nat) (t : Tx)
    (hb : t.inAddr ≠ burnAddrAt P h) (c : Ticker → Int) (hc : creditOf P h rates avgs t = some c) (s : DB) :
    Outcome (recordOutputs P h hash rates avgs idx t s)
      (fun _ s' => ∀ x, s'.bal t.inAddr x = s.bal t.inAddr x + c x) := by
  unfold recordOutputs
  unfold creditOf at hc
  by_cases hpeg : h ≥ P.act.convLimit ∧ t.isPEGRequest = true
  · rw [if_pos hpeg]
    -- nothing is credited now; the credit pass 2 books is 0 as well
    have hc0 : ∀ x, c x = 0 := by
      by_cases hcv : t.isConversion P = true
      · rw [if_pos hcv] at hc
        split at hc
        · cases hc
        · injection hc with hc; subst hc
          intro x
          simp [hpeg]
      · rw [if_neg hcv] at hc
        injection hc with hc; subst hc
        intro x
        have htr : t.transfers = [] := by
          have := hpeg.2
          unfold Tx.isPEGRequest at this
          simp only [Bool.and_eq_true, List.isEmpty_iff] at this
          exact this.1
        simp [backTo, htr]
    cases convert P.act.pip10 h (toInt64 t.inAmount) ((rates.getD []).get t.inType) ((avgs.getD []).get t.inType)
        ((rates.getD []).get t.conversion) ((avgs.getD []).get t.conversion) with
    | none => simp [Outcome, NotShort]
    | some _ =>
      simp only [M.pure_run, Outcome]
      intro x; rw [hc0 x]; simp
  · rw [if_neg hpeg]
    by_cases hcv : t.isConversion P = true
    · rw [if_pos hcv] at hc ⊢
      cases hconv : convert P.act.pip10 h (toInt64 t.inAmount) ((rates.getD []).get t.inType) ((avgs.getD []).get t.inType)
          ((rates.getD []).get t.conversion) ((avgs.getD []).get t.conversion) with
      | none => rw [hconv] at hc; cases hc
      | some out =>
        rw [hconv] at hc
        injection hc with hc; subst hc
        simp only
        have hout : 0 ≤ out := convert_nonneg hconv
        apply Outcome.bind (keeps_bal_outcome (u := fun db => { db with histT := db.histT.map (fun r =>
            if r.hash == hash && r.txIndex == (idx : Int) then { r with toAmount := out } else r) }) (fun _ => rfl) s)
        intro _ s1 h1
        have h2 := addBal_outcome P t.inAddr t.conversion out.toNat s1
        cases hr : addBal P t.inAddr t.conversion out.toNat s1 with
        | fail e s2 => rw [hr] at h2; exact h2
        | ok u s2 =>
          rw [hr] at h2
          simp only [Outcome] at h2 ⊢
          intro x
          rw [h2 t.inAddr x, h1 t.inAddr x]
          have : ((out.toNat : Nat) : Int) = out := Int.toNat_of_nonneg hout
          by_cases hx : x = t.conversion
          · simp [hx, hpeg, this]
          · simp [hx]
    · rw [if_neg hcv] at hc ⊢
      injection hc with hc; subst hc
      exact creditLoop_outcome P h hash idx t.inType t.inAddr hb t.transfers s

theorem setExecuted_outcome (hash : Hash) (v : Int) (s : DB) :
    Outcome (setExecuted hash v s) (fun _ s' => ∀ a' x, s'.bal a' x = s.bal a' x) :=
  keeps_bal_outcome (fun _ => rfl) s

/-- one recorded transaction on a funded balance -/
theorem recordTx_outcome (P : Params) (h : Nat) (hash : Hash) (rates avgs : Option TMap) (idx : Nat) (t : Tx)
    (hb : t.inAddr ≠ burnAddrAt P h) (c : Ticker → Int) (hc : creditOf P h rates avgs t = some c) (s : DB)
    (hf : (t.inAmount : Int) ≤ s.bal t.inAddr t.inType) :
    Outcome (recordTx P h hash rates avgs idx t s)
      (fun _ s' => ∀ x, s'.bal t.inAddr x = s.bal t.inAddr x - (if x = t.inType then (t.inAmount : Int) else 0) + c x) := by
  unfold recordTx
  apply Outcome.bind (subBal_funded P t.inAddr t.inType t.inAmount s hf)
  intro ok s1 ⟨hok, h1⟩
  subst hok
  simp only [Bool.not_true, Bool.false_eq_true, if_false]
  apply Outcome.bind (insertRelation_outcome hash t.inAddr idx false (t.isConversion P) s1)
  intro _ s2 h2
  apply Outcome.bind (setExecuted_outcome hash h s2)
  intro _ s3 h3
  have h4 := recordOutputs_outcome P h hash rates avgs idx t hb c hc s3
  cases hr : recordOutputs P h hash rates avgs idx t s3 with
  | fail e s4 => rw [hr] at h4; exact h4
  | ok u s4 =>
    rw [hr] at h4
    simp only [Outcome] at h4 ⊢
    intro x
    rw [h4 x, h3 t.inAddr x, h2 t.inAddr x, h1 x]

/-- **The pre-check is sound.** If the cumulative pass accepts the transactions `txs` of one input
    address `a` on the balances `a` holds in state `s`, then recording them one after the other
    never meets an insufficient balance: every failure `recordBatch` can end in is an SQL-level one
    (which fails the block, to be retried), never "insufficient balance". -/
theorem recordLoop_never_short (P : Params) (h : Nat) (hash : Hash) (rates avgs : Option TMap) (a : Addr)
    (hb : a ≠ burnAddrAt P h) :
    ∀ (txs : List Tx) (k : Nat) (bal : Ticker → Int) (s : DB),
      (∀ t ∈ txs, t.inAddr = a) → (∀ x, s.bal a x = bal x) → pass2 P h rates avgs bal txs = none →
      Outcome (M.forEach (txs.zipIdx k) (fun p => recordTx P h hash rates avgs p.2 p.1) s) (fun _ _ => True)
  | [], _, _, _, _, _, _ => by simp [M.forEach, Outcome]
  | t :: rest, k, bal, s, hall, hbal, hp => by
    obtain ⟨hfund, c, hc, hrest⟩ := pass2_cons_none hp
    have hta : t.inAddr = a := hall t List.mem_cons_self
    rw [List.zipIdx_cons]
    simp only [M.forEach]
    apply Outcome.bind (m := recordTx P h hash rates avgs k t)
      (recordTx_outcome P h hash rates avgs k t (by rw [hta]; exact hb) c hc s (by rw [hta, hbal]; exact hfund))
    intro _ s1 h1
    apply recordLoop_never_short P h hash rates avgs a hb rest (k + 1) _ s1
      (fun t' ht' => hall t' (List.mem_cons_of_mem _ ht')) _ hrest
    intro x
    rw [← hta, h1 x, hta, hbal x]

theorem recordBatch_never_short (P : Params) (h : Nat) (hash : Hash) (rates avgs : Option TMap) (a : Addr)
    (hb : a ≠ burnAddrAt P h) (txs : List Tx) (s : DB)
    (hall : ∀ t ∈ txs, t.inAddr = a) (hp : pass2 P h rates avgs (s.balances a) txs = none) :
    ∀ e s', recordBatch P h hash rates avgs txs s = .fail e s' → e ≠ .uncaught "insufficient balance" := by
  intro e s' hr
  have := recordLoop_never_short P h hash rates avgs a hb txs 0 (s.balances a) s hall (fun _ => rfl) hp
  unfold recordBatch M.forEachIdx at hr
  rw [hr] at this
  exact this


theorem pass2_ne_apply (P : Params) (h : Nat) (rates avgs : Option TMap) (l : List Tx) (bal : Ticker → Int) :
    pass2 P h rates avgs bal l ≠ some .apply := by
  induction l generalizing bal with
  | nil => simp [pass2]
  | cons t rest ih =>
    unfold pass2
    split
    · simp
    · split
      · dsimp only
        split
        · simp
        · exact ih _
      · exact ih _

/-- an accepted batch passed the cumulative pass on the pre-batch balances of its input address -/
theorem verdict_apply_pass2 {P : Params} {db : DB} {h : Nat} {rates avgs : Option TMap} {t0 : Tx} {rest : List Tx}
    (hv : verdict P db h rates avgs (t0 :: rest) = .apply) :
    pass2 P h rates avgs (db.balances t0.inAddr) (t0 :: rest) = none := by
  unfold verdict at hv
  simp only at hv
  cases hp : pass1 P h (db.balances t0.inAddr) rates avgs (t0 :: rest) with
  | some v =>
    rw [hp] at hv; simp only at hv; subst hv
    exact absurd hp (pass1_ne_apply P h _ rates avgs _)
  | none =>
    rw [hp] at hv
    simp only at hv
    cases hp2 : pass2 P h rates avgs (db.balances t0.inAddr) (t0 :: rest) with
    | none => rfl
    | some v =>
      rw [hp2] at hv; simp only at hv; subst hv
      exact absurd hp2 (pass2_ne_apply P h rates avgs _ _)

end Pegnet
