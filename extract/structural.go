package main

import (
	"go/ast"
	"go/token"
	"sort"
	"strings"
)

type fnInfo struct {
	decl *ast.FuncDecl
	file string
	pkg  string
}

func collectFuncs(pkgs map[string]map[string]*ast.File) map[string][]*fnInfo {
	out := map[string][]*fnInfo{}
	for pkg, files := range pkgs {
		for fn, f := range files {
			for _, d := range f.Decls {
				if fd, ok := d.(*ast.FuncDecl); ok && fd.Body != nil {
					out[fd.Name.Name] = append(out[fd.Name.Name], &fnInfo{fd, fn, pkg})
				}
			}
		}
	}
	return out
}

func calleeName(ce *ast.CallExpr) string {
	switch f := ce.Fun.(type) {
	case *ast.Ident:
		return f.Name
	case *ast.SelectorExpr:
		return f.Sel.Name
	}
	return ""
}

func returnsError(fd *ast.FuncDecl) (bool, int) {
	if fd.Type.Results == nil {
		return false, 0
	}
	n := 0
	last := ""
	for _, r := range fd.Type.Results.List {
		k := len(r.Names)
		if k == 0 {
			k = 1
		}
		n += k
		last = src(r.Type)
	}
	return last == "error", n
}

func reachable(funcs map[string][]*fnInfo, roots ...string) map[string]bool {
	seen := map[string]bool{}
	var visit func(name string)
	visit = func(name string) {
		if seen[name] {
			return
		}
		infos, ok := funcs[name]
		if !ok {
			return
		}
		seen[name] = true
		for _, in := range infos {
			ast.Inspect(in.decl.Body, func(n ast.Node) bool {
				if ce, ok := n.(*ast.CallExpr); ok {
					if c := calleeName(ce); c != "" {
						visit(c)
					}
				}
				return true
			})
		}
	}
	for _, r := range roots {
		visit(r)
	}
	return seen
}

func sqlVerb(e ast.Expr, consts map[string]string) string {
	text := ""
	switch x := e.(type) {
	case *ast.BasicLit:
		text = x.Value
	case *ast.CallExpr: // fmt.Sprintf(lit or ident, ...)
		if len(x.Args) > 0 {
			return sqlVerb(x.Args[0], consts)
		}
	case *ast.Ident:
		if v, ok := consts[x.Name]; ok {
			text = v
		} else {
			return "?" + x.Name
		}
	default:
		return "?"
	}
	text = strings.TrimLeft(text, "`\" \n\t")
	f := strings.Fields(text)
	if len(f) == 0 {
		return "?"
	}
	return strings.ToUpper(f[0])
}

func isWriteVerb(v string) bool {
	switch v {
	case "INSERT", "UPDATE", "DELETE", "REPLACE", "ALTER", "CREATE", "DROP", "BEGIN":
		return true
	}
	return false
}

var setupFuncs = map[string]bool{"createTables": true, "migrations": true, "txhistoryMigrateLookup1": true,
	"CreateTableAddresses": true, "CreateTableBank": true, "CreateTableSyncVersion": true, "CreateTableTxHistory": true,
	"CreateTableGrade": true, "CreateTableRate": true, "CreateTableMetadata": true, "CreateTableWinners": true,
	"CreateTableTransactions": true, "CreateTableTransactionBatchHolding": true,
	"v4MigrationNeeded": true, "v5MigrationNeeded": true, "Init": true}

func structural(F *Facts, nodeP, pegP, srvP, cmdP map[string]*ast.File) {
	convP := parseDir("node/conversions")
	pkgs := map[string]map[string]*ast.File{"node": nodeP, "pegnet": pegP, "conversions": convP}
	funcs := collectFuncs(pkgs)
	reach := reachable(funcs, "DBlockSync")

	// string constants / vars holding SQL
	consts := map[string]string{}
	for _, files := range pkgs {
		for name, e := range valueSpecs(files) {
			if bl, ok := e.(*ast.BasicLit); ok && bl.Kind == token.STRING {
				consts[name] = bl.Value
			}
		}
	}
	consts["stmtStringFmt"] = "" // local format strings are resolved below

	errFuncs := map[string]int{} // name -> number of results, for functions whose last result is error
	for name, infos := range funcs {
		for _, in := range infos {
			if ok, n := returnsError(in.decl); ok {
				errFuncs[name] = n
			}
		}
	}
	for _, files := range []map[string]*ast.File{srvP, cmdP} {
		_ = files
	}

	for name, infos := range funcs {
		for _, in := range infos {
			inSync := reach[name]
			// local string variables (query := `...`, stmtStringFmt := `...`)
			locals := map[string]string{}
			ast.Inspect(in.decl.Body, func(n ast.Node) bool {
				if as, ok := n.(*ast.AssignStmt); ok && len(as.Lhs) == 1 && len(as.Rhs) == 1 {
					if id, ok := as.Lhs[0].(*ast.Ident); ok {
						switch r := as.Rhs[0].(type) {
						case *ast.BasicLit:
							if r.Kind == token.STRING {
								locals[id.Name] = r.Value
							}
						case *ast.CallExpr:
							if src(r.Fun) == "fmt.Sprintf" && len(r.Args) > 0 {
								if bl, ok := r.Args[0].(*ast.BasicLit); ok {
									locals[id.Name] = bl.Value
								} else if id2, ok := r.Args[0].(*ast.Ident); ok {
									if v, ok := locals[id2.Name]; ok {
										locals[id.Name] = v
									} else if v, ok := consts[id2.Name]; ok {
										locals[id.Name] = v
									}
								}
							}
						}
					}
				}
				return true
			})
			lookup := map[string]string{}
			for k, v := range consts {
				lookup[k] = v
			}
			for k, v := range locals {
				lookup[k] = v
			}
			ast.Inspect(in.decl.Body, func(n ast.Node) bool {
				ce, ok := n.(*ast.CallExpr)
				if !ok {
					return true
				}
				sel, ok := ce.Fun.(*ast.SelectorExpr)
				if !ok {
					return true
				}
				m := sel.Sel.Name
				switch m {
				case "Exec", "Query", "QueryRow", "QueryRowContext", "QueryContext", "ExecContext", "Prepare", "BeginTx", "Begin":
				default:
					// calls that pass the pool as an argument
					for _, a := range ce.Args {
						if strings.HasSuffix(src(a), ".DB") && inSync {
							F.PoolReads = append(F.PoolReads, site(in.file, name, ce, "pool-arg:"+src(ce.Fun)))
						}
					}
					return true
				}
				recv := src(sel.X)
				if recv == "stmt" || strings.HasSuffix(recv, "Statement") || recv == "lookup" || recv == "txStatement" {
					return true // prepared statement executed: classified at its Prepare
				}
				verb := "BEGIN"
				if m != "BeginTx" && m != "Begin" {
					idx := 0
					if strings.HasSuffix(m, "Context") {
						idx = 1
					}
					if idx < len(ce.Args) {
						verb = sqlVerb(ce.Args[idx], lookup)
					}
				}
				pool := strings.HasSuffix(recv, ".DB")
				handle := "tx"
				if pool {
					handle = "pool"
				}
				s := site(in.file, name, ce, handle+":"+verb+":"+recv)
				if inSync || in.pkg == "pegnet" {
					F.SQLSites = append(F.SQLSites, s)
				}
				if pool && isWriteVerb(verb) && !setupFuncs[name] && m != "BeginTx" {
					F.PoolWrites = append(F.PoolWrites, s)
				}
				if pool && !isWriteVerb(verb) && inSync && !setupFuncs[name] {
					F.PoolReads = append(F.PoolReads, s)
				}
				return true
			})

			if !inSync {
				continue
			}
			// discarded errors
			ast.Inspect(in.decl.Body, func(n ast.Node) bool {
				switch x := n.(type) {
				case *ast.ExprStmt:
					if ce, ok := x.X.(*ast.CallExpr); ok {
						c := calleeName(ce)
						if _, ok := errFuncs[c]; ok && c != "Println" {
							F.Discarded = append(F.Discarded, site(in.file, name, ce, c))
						}
					}
				case *ast.AssignStmt:
					if len(x.Rhs) == 1 {
						if ce, ok := x.Rhs[0].(*ast.CallExpr); ok {
							c := calleeName(ce)
							if nres, ok := errFuncs[c]; ok && len(x.Lhs) == nres {
								if id, ok := x.Lhs[nres-1].(*ast.Ident); ok && id.Name == "_" {
									F.BlankErr = append(F.BlankErr, site(in.file, name, ce, c))
								}
							}
						}
					}
				case *ast.IfStmt:
					c := src(x.Cond)
					if c == "err != nil" || c == "err_s != nil" || c == "errRate != nil" {
						escapes := false
						ast.Inspect(x.Body, func(m ast.Node) bool {
							switch y := m.(type) {
							case *ast.ReturnStmt:
								escapes = true
							case *ast.BranchStmt:
								escapes = true
							case *ast.CallExpr:
								if calleeName(y) == "panic" || calleeName(y) == "Fatal" {
									escapes = true
								}
							}
							return true
						})
						if !escapes {
							F.LogOnly = append(F.LogOnly, site(in.file, name, x, c))
						}
					}
				}
				return true
			})
			// map ranges and sorts
			mapVars := map[string]bool{}
			ast.Inspect(in.decl.Body, func(n ast.Node) bool {
				if as, ok := n.(*ast.AssignStmt); ok && len(as.Lhs) >= 1 && len(as.Rhs) == 1 {
					r := src(as.Rhs[0])
					if strings.HasPrefix(r, "make(map[") || strings.HasPrefix(r, "map[") {
						if id, ok := as.Lhs[0].(*ast.Ident); ok {
							mapVars[id.Name] = true
						}
					}
					if ce, ok := as.Rhs[0].(*ast.CallExpr); ok {
						if infos, ok := funcs[calleeName(ce)]; ok {
							for _, ci := range infos {
								if ci.decl.Type.Results != nil && len(ci.decl.Type.Results.List) > 0 &&
									strings.HasPrefix(src(ci.decl.Type.Results.List[0].Type), "map[") {
									if id, ok := as.Lhs[0].(*ast.Ident); ok {
										mapVars[id.Name] = true
									}
								}
							}
						}
					}
				}
				return true
			})
			if in.decl.Type.Params != nil {
				for _, p := range in.decl.Type.Params.List {
					if strings.HasPrefix(src(p.Type), "map[") {
						for _, nm := range p.Names {
							mapVars[nm.Name] = true
						}
					}
				}
			}
			ast.Inspect(in.decl.Body, func(n ast.Node) bool {
				switch x := n.(type) {
				case *ast.RangeStmt:
					t := src(x.X)
					isMap := false
					if id, ok := x.X.(*ast.Ident); ok && mapVars[id.Name] {
						isMap = true
					}
					if ce, ok := x.X.(*ast.CallExpr); ok {
						if infos, ok := funcs[calleeName(ce)]; ok {
							for _, ci := range infos {
								if ci.decl.Type.Results != nil && len(ci.decl.Type.Results.List) > 0 &&
									strings.HasPrefix(src(ci.decl.Type.Results.List[0].Type), "map[") {
									isMap = true
								}
							}
						}
					}
					if strings.HasSuffix(t, ".ConversionRequests") || strings.Contains(t, "LastAverages") {
						isMap = true
					}
					if isMap {
						F.MapRanges = append(F.MapRanges, site(in.file, name, x, t))
					}
				case *ast.CallExpr:
					f := src(x.Fun)
					if strings.HasPrefix(f, "sort.") {
						F.Sorts = append(F.Sorts, site(in.file, name, x, f))
					}
					if f == "time.Now" {
						F.TimeNow = append(F.TimeNow, site(in.file, name, x, f))
					}
				}
				return true
			})
		}
	}

	// package-level variables of the packages both the sync loop and the API handlers run code of:
	// every one is memory shared between goroutines (file:name, with its declared type or the head
	// of its initialiser). Constants and the verif-tagged hook file are not listed.
	for _, pd := range []struct {
		name  string
		files map[string]*ast.File
	}{{"node", nodeP}, {"node/pegnet", pegP}, {"node/conversions", convP}, {"srv", srvP}, {"fat/fat2", parseDir("fat/fat2")}} {
		for fn, f := range pd.files {
			if strings.Contains(fn, "verif_") {
				continue
			}
			for _, d := range f.Decls {
				gd, ok := d.(*ast.GenDecl)
				if !ok || gd.Tok != token.VAR {
					continue
				}
				for _, sp := range gd.Specs {
					vs := sp.(*ast.ValueSpec)
					for i, nm := range vs.Names {
						if nm.Name == "_" {
							continue
						}
						kind := ""
						if vs.Type != nil {
							kind = src(vs.Type)
						} else if i < len(vs.Values) {
							kind = src(vs.Values[i])
							if j := strings.IndexAny(kind, "({\n"); j > 0 {
								kind = kind[:j]
							}
						}
						F.PackageVars = append(F.PackageVars, fn+":"+nm.Name+":"+kind)
					}
				}
			}
		}
	}
	sort.Strings(F.PackageVars)

	// row loops that never ask rows.Err(): a function of node/pegnet (or node) that iterates a
	// result set with `for rows.Next()` and contains no call of `.Err()` ends the loop silently
	// when a fetch fails (lock timeout, I/O error) and goes on with a truncated result
	for _, pd := range []struct {
		dir   string
		files map[string]*ast.File
	}{{"node", nodeP}, {"node/pegnet", pegP}} {
		for fn, f := range pd.files {
			if strings.Contains(fn, "verif_") || strings.HasSuffix(fn, "_test.go") {
				continue
			}
			for _, d := range f.Decls {
				fd, ok := d.(*ast.FuncDecl)
				if !ok || fd.Body == nil {
					continue
				}
				loops, errCalls := 0, 0
				ast.Inspect(fd.Body, func(n ast.Node) bool {
					switch x := n.(type) {
					case *ast.ForStmt:
						if ce, ok := x.Cond.(*ast.CallExpr); ok {
							if se, ok := ce.Fun.(*ast.SelectorExpr); ok && se.Sel.Name == "Next" {
								loops++
							}
						}
					case *ast.CallExpr:
						if se, ok := x.Fun.(*ast.SelectorExpr); ok && se.Sel.Name == "Err" && len(x.Args) == 0 {
							errCalls++
						}
					}
					return true
				})
				if loops > 0 && errCalls == 0 {
					F.UncheckedRowLoops = append(F.UncheckedRowLoops, fn+":"+fd.Name.Name)
				}
			}
		}
	}
	sort.Strings(F.UncheckedRowLoops)

	// shared in-memory state: who touches it, from which package
	all := map[string]map[string]*ast.File{"node": nodeP, "srv": srvP, "cmd": cmdP}
	for pkg, files := range all {
		for fn, f := range files {
			for _, d := range f.Decls {
				fd, ok := d.(*ast.FuncDecl)
				if !ok || fd.Body == nil {
					continue
				}
				ast.Inspect(fd.Body, func(n ast.Node) bool {
					switch x := n.(type) {
					case *ast.SelectorExpr:
						s := x.Sel.Name
						if s == "LastAverages" || s == "LastAveragesData" || s == "LastAveragesHeight" || s == "Synced" {
							F.SharedState = append(F.SharedState, site(fn, fd.Name.Name, x, pkg+":"+s))
						}
						if pkg != "node" && (s == "avgNode" || s == "avgMu") {
							F.SharedState = append(F.SharedState, site(fn, fd.Name.Name, x, pkg+":private:"+src(x)))
						}
					case *ast.CompositeLit:
						if pkg != "node" && strings.HasSuffix(src(x.Type), "Pegnetd") {
							F.SharedState = append(F.SharedState, site(fn, fd.Name.Name, x, pkg+":new:"+src(x)))
						}
					case *ast.CallExpr:
						c := calleeName(x)
						if pkg != "node" && (c == "GetPegNetRateAverages" || c == "GetCurrentSync") {
							// the receiver is part of the fact: the API may use the averaging
							// function only on its own private node value, never on the shared one
							F.SharedState = append(F.SharedState, site(fn, fd.Name.Name, x, pkg+":call:"+src(x.Fun)))
						}
					case *ast.GoStmt:
						what := src(x.Call.Fun)
						if i := strings.Index(what, "\n"); i >= 0 {
							what = what[:i]
						}
						F.GoStmts = append(F.GoStmts, site(fn, fd.Name.Name, x, pkg+":go:"+what))
					}
					return true
				})
			}
		}
	}

	for _, st := range F.SharedState {
		if strings.HasPrefix(st.What, "srv:") {
			F.ApiShared = append(F.ApiShared, st)
		}
	}
	for _, l := range []*[]Site{&F.GoStmts, &F.ApiShared, &F.SQLSites, &F.PoolWrites, &F.PoolReads, &F.Discarded, &F.LogOnly, &F.BlankErr, &F.MapRanges, &F.Sorts, &F.SharedState, &F.TimeNow} {
		s := *l
		sort.Slice(s, func(i, j int) bool {
			if s[i].File != s[j].File {
				return s[i].File < s[j].File
			}
			if s[i].Line != s[j].Line {
				return s[i].Line < s[j].Line
			}
			return s[i].What < s[j].What
		})
	}
}
