import Proofs.BatchLemmas
/-
  C03 — No overdraft; batches are all-or-nothing.
-/
namespace Pegnet.C03
open Pegnet

/-- No balance is ever negative: after replaying ANY chain of blocks (any entries on the tracked
    chains, any answers of the grading / signature libraries, any failures along the way) every
    address holds a non-negative amount of every asset, and has exactly one balance row. -/
theorem balances_nonneg (P : Params) (chain : List Block) (a : Addr) (t : Ticker) :
    0 ≤ (runBlocks P (freshNode P) chain).db.bal a t := by
  apply bal_nonneg_of_addrsOK
  apply runBlocks_addrsOK
  exact ⟨List.nodup_nil, fun r hr => by cases hr⟩

/-- …and the same from any state that satisfies the invariant (e.g. a database being resumed). -/
theorem balances_nonneg_from (P : Params) (n : Node) (chain : List Block) (h : AddrsOK n.db)
    (a : Addr) (t : Ticker) : 0 ≤ (runBlocks P n chain).db.bal a t :=
  bal_nonneg_of_addrsOK (runBlocks_addrsOK P n chain h) a t

/-- A batch is applied completely or not at all, part 1: a batch that is rejected (codes −1, −3,
    −4, −5) or dropped leaves the whole state exactly as it was (the caller then records only the
    status code). -/
theorem reject_is_noop {P : Params} {h : Nat} {e : TxEntry} {rates avgs : Option TMap} {s s' : DB} {v : Verdict}
    (hr : applyBatch P h e rates avgs s = .ok v s') (hv : v ≠ .apply) : s' = s :=
  applyBatch_noop hr hv

/-- No batch can spend more of an asset than its input address holds when it executes:
    every transaction of an accepted batch passed the funds check against the balance held
    before the batch. -/
theorem no_overspend {P : Params} {db : DB} {h : Nat} {rates avgs : Option TMap} {t0 : Tx} {rest : List Tx}
    (hv : verdict P db h rates avgs (t0 :: rest) = .apply) :
    ∀ t ∈ t0 :: rest, (t.inAmount : Int) ≤ db.bal t0.inAddr t.inType :=
  verdict_apply_funded hv

/-- the debit itself re-checks: `SubFromBalance` never writes when the balance is short -/
theorem debit_guarded (P : Params) (a : Addr) (t : Ticker) (v : Nat) (s : DB)
    (hv : v ≠ 0) (hvt : validTicker P t = true) (hshort : s.bal a t < (v : Int)) :
    subBal P a t v s = .ok false s := by
  unfold subBal
  rw [if_neg hv, if_neg (by simp [hvt]), M.bind_run]
  simp only [M.get_run]
  rw [if_pos hshort]
  rfl

/-- part 2: any failure inside the block transaction leaves the committed database untouched -/
theorem failed_block_changes_nothing (P : Params) (n : Node) (b : Block) (e : Failure)
    (hf : (applyBlock P n b).2 = some e) : (applyBlock P n b).1.db = n.db := by
  rcases applyBlock_db P n b with h | ⟨_, _, _, _, hnone⟩
  · exact h
  · rw [hnone] at hf; cases hf

/-! non-vacuity: a two-transaction batch drawing twice on the same 10 units is rejected by the
    cumulative pass although each transaction alone is funded. -/
def exP : Params :=
  { act := ⟨0,0,0,0,0,0,0,0,0,0,0,0,0,0,0,0,0⟩, tickerMax := 63, tickerNames := [], oneWaySet := [],
    snapshotRate := 144, perBlockHolders := 0, perBlockDevs := 0, bankBase := 0, avgPeriod := 8, avgRequired := 4,
    syncVersion := 2, devs := [], «mint» := [], burnAddr := "burn", oldBurnAddr := "old", mintAddr := "mint",
    coinbaseAddr := "cb", zeroAddr := "00" }
def exDB : DB := { addrs := [{ addr := "alice", bals := setB [] 2 10 }] }
def exTx : Tx := { inAddr := "alice", inType := 2, inAmount := 10, transfers := [{ addr := "bob", amount := 10 }], conversion := 0 }
example : verdict exP exDB 5 none none [exTx] = .apply := by decide
example : verdict exP exDB 5 none none [exTx, exTx] = .reject (-1) := by decide

end Pegnet.C03

#print axioms Pegnet.C03.balances_nonneg
#print axioms Pegnet.C03.balances_nonneg_from
#print axioms Pegnet.C03.reject_is_noop
#print axioms Pegnet.C03.no_overspend
#print axioms Pegnet.C03.debit_guarded
#print axioms Pegnet.C03.failed_block_changes_nothing
