package main

// Chain files: a generated chain (entries + factoid transactions per height) serialised so that
// another process can replay exactly the same blocks.

import (
	"encoding/hex"
	"encoding/json"
	"io/ioutil"

	"github.com/Factom-Asset-Tokens/factom"
	"github.com/pegnet/pegnetd/config"
)

type ChainFile struct {
	Setup  Setup       `json:"setup"`
	Blocks []blockJSON `json:"blocks"`
}

func entriesFromJSON(chain factom.Bytes32, js []entryJSON) []factom.Entry {
	var out []factom.Entry
	for _, j := range js {
		var ext [][]byte
		for _, x := range j.ExtIDs {
			b, _ := hex.DecodeString(x)
			ext = append(ext, b)
		}
		content, _ := hex.DecodeString(j.Content)
		out = append(out, MakeEntry(chain, ext, content))
	}
	return out
}

func BlocksFromJSON(js []blockJSON) []*BlockSpec {
	var out []*BlockSpec
	for _, j := range js {
		b := &BlockSpec{Height: j.Height, Time: BlockTime(j.Height)}
		b.OPR = entriesFromJSON(config.OPRChain, j.OPR)
		b.SPR = entriesFromJSON(config.SPRChain, j.SPR)
		b.TX = entriesFromJSON(config.TransactionChain, j.TX)
		for _, f := range j.FCT {
			raw, _ := hex.DecodeString(f.Raw)
			var t factom.FactoidTransaction
			if err := t.UnmarshalBinary(raw); err == nil {
				b.FCT = append(b.FCT, t)
			}
		}
		out = append(out, b)
	}
	return out
}

func SaveChain(path string, s Setup, chain []*BlockSpec) error {
	data, err := json.Marshal(ChainFile{Setup: s, Blocks: ChainJSON(chain)})
	if err != nil {
		return err
	}
	return ioutil.WriteFile(path, data, 0644)
}

func LoadChain(path string) (Setup, []*BlockSpec, error) {
	data, err := ioutil.ReadFile(path)
	if err != nil {
		return Setup{}, nil, err
	}
	var cf ChainFile
	if err := json.Unmarshal(data, &cf); err != nil {
		return Setup{}, nil, err
	}
	return cf.Setup, BlocksFromJSON(cf.Blocks), nil
}
