import Proofs.Chain
import Pegnet.Generated.Facts
/-
  C18 — API isolation. Lean decides this at CALL GRANULARITY: every API handler call and every
  block application is one atomic step of the model. Goroutine interleavings INSIDE a call
  cannot be exhibited by a sequential model; the `api` scenario runs the real daemon under the
  race detector for that part (support, not proof), and the regenerated facts pin down that the
  handlers share no mutable memory with the sync loop except the atomically read sync height.
  (Before fix 4a9cbf7 the handlers moved the sync loop's own cache; the kernel-checked witness of
  that is kept in C09 as `restart_dependent_witness`: the same reload path.)
-/
namespace Pegnet.C18
open Pegnet

/-- the API server's own mutable state: its private averaging cache (`APIServer.avgNode`) -/
structure Api where
  cache : AvgCache := {}

/-- the one API operation that keeps state between calls: `rateAverages(h)` of the rich-list
    handlers. It reads the committed database and moves the API's OWN cache. -/
def apiGetAverages (P : Params) (n : Node) (a : Api) (h : Nat) : Api × TMap :=
  let (c, avg) := getAverages P n.db a.cache h
  ({ cache := c }, avg)

/-- one event of a daemon's life at call granularity -/
inductive Event where
  | api (h : Nat)        -- a handler asks for averages at a height of its choosing
  | block (b : Block)    -- the sync loop applies (or fails to apply) a block

def stepEvent (P : Params) (s : Node × Api) : Event → Node × Api
  | .api h => (s.1, (apiGetAverages P s.1 s.2 h).1)
  | .block b => ((applyBlock P s.1 b).1, s.2)

def runEvents (P : Params) (s : Node × Api) (es : List Event) : Node × Api := es.foldl (stepEvent P) s

def blocksOf : List Event → List Block
  | [] => []
  | .api _ :: es => blocksOf es
  | .block b :: es => b :: blocksOf es

/-- **API isolation (call granularity).** For every interleaving of API calls with block
    applications, the node — committed database, in-memory sync height and the averaging cache
    conversions are priced with — ends exactly where the same blocks alone would have left it. -/
theorem api_isolation (P : Params) (n : Node) (a : Api) (es : List Event) :
    (runEvents P (n, a) es).1 = runBlocks P n (blocksOf es) := by
  unfold runEvents
  induction es generalizing n a with
  | nil => rfl
  | cons e es ih =>
    cases e with
    | api h => simpa [List.foldl, stepEvent, blocksOf] using ih n _
    | block b => simpa [List.foldl, stepEvent, blocksOf, runBlocks] using ih _ a

/-- the averages a handler gets are a function of the committed database and the API's own cache:
    nothing of a block in progress (which lives in the sync loop's transaction) can show -/
theorem api_sees_committed_only (P : Params) (n₁ n₂ : Node) (a : Api) (h : Nat)
    (hdb : n₁.db = n₂.db) : (apiGetAverages P n₁ a h).2 = (apiGetAverages P n₂ a h).2 := by
  unfold apiGetAverages; rw [hdb]

/-- non-vacuity: an interleaving with API calls and a block -/
example (b : Block) : blocksOf [.api 3, .block b, .api 1] = [b] := rfl

/-- Regenerated: no SQL write goes through the connection pool, and the places where the API
    package touches in-memory node state are exactly these: the averaging function is called only
    on the API's private node value (`s.avgNode`, built and used in `rateAverages` alone, under
    `s.avgMu`), never on the shared `s.Node`; the shared sync height is read through
    `GetCurrentSync` (an atomic load); every `Synced` selector in srv is a field of a value read
    from the database. A new handler touching shared state breaks this obligation. -/
theorem shared_state_sites :
    Generated.poolWrites = [] ∧
    Generated.apiSharedState =
      ["srv/methods.go:getBank:srv:Synced", "srv/methods.go:getMiningDominance:srv:Synced",
       "srv/methods.go:getMiningDominance:srv:Synced", "srv/methods.go:getMiningDominance:srv:Synced",
       "srv/methods.go:rateAverages:srv:private:s.avgMu", "srv/methods.go:rateAverages:srv:private:s.avgMu",
       "srv/methods.go:rateAverages:srv:private:s.avgNode",
       "srv/methods.go:rateAverages:srv:new:node.Pegnetd{Pegnet: s.Node.Pegnet}",
       "srv/methods.go:rateAverages:srv:private:s.avgNode",
       "srv/methods.go:rateAverages:srv:call:s.avgNode.GetPegNetRateAverages",
       "srv/methods.go:rateAverages:srv:private:s.avgNode",
       "srv/methods.go:getGlobalRichList:srv:call:s.Node.GetCurrentSync",
       "srv/methods.go:getRichList:srv:call:s.Node.GetCurrentSync",
       "srv/methods.go:getPegnetRates:srv:Synced", "srv/methods.go:getSyncStatus:srv:call:s.Node.GetCurrentSync",
       "srv/methods.go:getSyncStatus:srv:call:s.Node.GetCurrentSync", "srv/methods.go:getGraded:srv:Synced"] ∧
    Generated.goStatements =
      ["cmd/root.go:always:cmd:go:func() {", "node/sync.go:multiFetch:node:go:func() {",
       "srv/srv.go:Start:srv:go:func() {", "srv/srv.go:Start:srv:go:func() {"] := by
  decide

/-- Regenerated: every package-level variable of the packages whose code runs both in the sync loop
    and in the API handlers (node, node/pegnet, node/conversions, srv, fat/fat2). Each is memory
    shared between goroutines; the ones listed are configuration tables, error values and constants
    written at start-up only (`node/conversions` has none: `Convert` allocates its operands per
    call). A new package-level variable — e.g. scratch space hoisted out of a function that both
    sides call — breaks this obligation. -/
theorem package_state_sites :
    Generated.packageVars = ["fat/fat2/activations.go:Fat2RCDEActivation:uint32", "fat/fat2/pticker.go:validPTickerStrings:[]string", "fat/fat2/pticker.go:validPTickers:func", "fat/fat2/transaction.go:coinbase:factom.FsAddress", "node/average.go:AveragePeriod:uint64", "node/average.go:AverageRequired:AveragePeriod / 2", "node/burns.go:BurnAddress:\"EC2BURNFCT2PEGNETooo1oooo1oooo1oooo1oooo1oooo19wthin\"", "node/burns.go:BurnRCD:[32]byte", "node/burns.go:GlobalBurnAddress:\"FA2BURNBABYBURNoooooooooooooooooooooooooooooooDGvNXy\"", "node/burns.go:GlobalMintAddress:\"FA3j16WPCiqsAFHVZcEoL85Khh5RhPCNe6PWHBKgUxrx8MAnbNoy\"", "node/burns.go:GlobalOldBurnAddress:\"FA1y5ZGuHSLmf2TqNf6hVMkPiNGyQpQDTFJvDLRkKQaoPo4bmbgu\"", "node/devs.go:DeveloperRewardAddreses:[]DevReward", "node/mint.go:MintTotalSupplyMap:[]MintSupply", "node/pegnet/addresses.go:addressSelectCols:``", "node/pegnet/addresses.go:snapshotMinSelectCols:``", "node/pegnet/admin.go:Hardforks:[]ForkEvent", "node/pegnet/admin.go:PegnetdSyncVersion:2", "node/pegnet/errors.go:InsufficientBalanceErr:errors.New", "node/pegnet/errors.go:InsufficientBalanceErrInt:int64", "node/pegnet/errors.go:PFCTOneWayError:errors.New", "node/pegnet/errors.go:PFCTOneWayErrorInt:int64", "node/pegnet/errors.go:PSMALLOneWayError:errors.New", "node/pegnet/errors.go:PSMALLOneWayErrorInt:int64", "node/pegnet/errors.go:ZeroRatesError:errors.New", "node/pegnet/errors.go:ZeroRatesErrorInt:int64", "srv/errors.go:ErrorAddressNotFound:jrpc.NewError", "srv/errors.go:ErrorInvalidTransaction:jrpc.NewError", "srv/errors.go:ErrorNoEC:jrpc.NewError", "srv/errors.go:ErrorNotFound:jrpc.NewError", "srv/errors.go:ErrorPendingDisabled:jrpc.NewError", "srv/errors.go:ErrorTokenNotFound:jrpc.NewError", "srv/errors.go:ErrorTokenSyncing:jrpc.NewError", "srv/errors.go:ErrorTransactionNotFound:jrpc.NewError", "srv/srv.go:srv:http.Server"] := by
  decide

end Pegnet.C18

#print axioms Pegnet.C18.api_isolation
#print axioms Pegnet.C18.api_sees_committed_only
#print axioms Pegnet.C18.shared_state_sites
#print axioms Pegnet.C18.package_state_sites
