import Proofs.Chain
import Pegnet.Generated.Facts
/-
  C18 — API isolation. Lean decides this at CALL GRANULARITY: every API handler call and every
  block application is one atomic step of the model. Goroutine interleavings INSIDE a call
  cannot be exhibited by a sequential model; the `api` scenario runs the real daemon under the
  race detector for that part (support, not proof), and the regenerated facts pin down that the
  handlers share no mutable memory with the sync loop except the atomically read sync height.
  (Before fix 4a9cbf7 the handlers moved the sync loop's own cache; the kernel-checked witness of
  that is kept in C09 as `restart_dependent_witness`: the same reload path.)
-/
namespace Pegnet.C18
open Pegnet

/-- the API server's own mutable state: its private averaging cache (`APIServer.avgNode`) -/
structure Api where
  cache : AvgCache := {}

/-- the one API operation that keeps state between calls: `rateAverages(h)` of the rich-list
    handlers. It reads the committed database and moves the API's OWN cache. -/
def apiGetAverages (P : Params) (n : Node) (a : Api) (h : Nat) : Api × TMap :=
  let (c, avg) := getAverages P n.db a.cache h
  ({ cache := c }, avg)

/-- one event of a daemon's life at call granularity -/
inductive Event where
  | api (h : Nat)        -- a handler asks for averages at a height of its choosing
  | block (b : Block)    -- the sync loop applies (or fails to apply) a block

def stepEvent (P : Params) (s : Node × Api) : Event → Node × Api
  | .api h => (s.1, (apiGetAverages P s.1 s.2 h).1)
  | .block b => ((applyBlock P s.1 b).1, s.2)

def runEvents (P : Params) (s : Node × Api) (es : List Event) : Node × Api := es.foldl (stepEvent P) s

def blocksOf : List Event → List Block
  | [] => []
  | .api _ :: es => blocksOf es
  | .block b :: es => b :: blocksOf es

/-- **API isolation (call granularity).** For every interleaving of API calls with block
    applications, the node — committed database, in-memory sync height and the averaging cache
    conversions are priced with — ends exactly where the same blocks alone would have left it. -/
theorem api_isolation (P : Params) (n : Node) (a : Api) (es : List Event) :
    (runEvents P (n, a) es).1 = runBlocks P n (blocksOf es) := by
  unfold runEvents
  induction es generalizing n a with
  | nil => rfl
  | cons e es ih =>
    cases e with
    | api h => simpa [List.foldl, stepEvent, blocksOf] using ih n _
    | block b => simpa [List.foldl, stepEvent, blocksOf, runBlocks] using ih _ a

/-- the averages a handler gets are a function of the committed database and the API's own cache:
    nothing of a block in progress (which lives in the sync loop's transaction) can show -/
theorem api_sees_committed_only (P : Params) (n₁ n₂ : Node) (a : Api) (h : Nat)
    (hdb : n₁.db = n₂.db) : (apiGetAverages P n₁ a h).2 = (apiGetAverages P n₂ a h).2 := by
  unfold apiGetAverages; rw [hdb]

/-- non-vacuity: an interleaving with API calls and a block -/
example (b : Block) : blocksOf [.api 3, .block b, .api 1] = [b] := rfl

/-- Regenerated: no SQL write goes through the connection pool, and the places where the API
    package touches in-memory node state are exactly these: the averaging function is called only
    on the API's private node value (`s.avgNode`, built and used in `rateAverages` alone, under
    `s.avgMu`), never on the shared `s.Node`; the shared sync height is read through
    `GetCurrentSync` (an atomic load); every `Synced` selector in srv is a field of a value read
    from the database. A new handler touching shared state breaks this obligation. -/
theorem shared_state_sites :
    Generated.poolWrites = [] ∧
    Generated.apiSharedState =
      ["srv/methods.go:getBank:srv:Synced", "srv/methods.go:getMiningDominance:srv:Synced",
       "srv/methods.go:getMiningDominance:srv:Synced", "srv/methods.go:getMiningDominance:srv:Synced",
       "srv/methods.go:rateAverages:srv:private:s.avgMu", "srv/methods.go:rateAverages:srv:private:s.avgMu",
       "srv/methods.go:rateAverages:srv:private:s.avgNode",
       "srv/methods.go:rateAverages:srv:new:node.Pegnetd{Pegnet: s.Node.Pegnet}",
       "srv/methods.go:rateAverages:srv:private:s.avgNode",
       "srv/methods.go:rateAverages:srv:call:s.avgNode.GetPegNetRateAverages",
       "srv/methods.go:rateAverages:srv:private:s.avgNode",
       "srv/methods.go:getGlobalRichList:srv:call:s.Node.GetCurrentSync",
       "srv/methods.go:getRichList:srv:call:s.Node.GetCurrentSync",
       "srv/methods.go:getPegnetRates:srv:Synced", "srv/methods.go:getSyncStatus:srv:call:s.Node.GetCurrentSync",
       "srv/methods.go:getSyncStatus:srv:call:s.Node.GetCurrentSync", "srv/methods.go:getGraded:srv:Synced"] ∧
    Generated.goStatements =
      ["cmd/root.go:always:cmd:go:func() {", "node/sync.go:multiFetch:node:go:func() {",
       "srv/srv.go:Start:srv:go:func() {", "srv/srv.go:Start:srv:go:func() {"] := by
  decide

end Pegnet.C18

#print axioms Pegnet.C18.api_isolation
#print axioms Pegnet.C18.api_sees_committed_only
#print axioms Pegnet.C18.shared_state_sites
