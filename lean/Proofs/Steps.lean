import Proofs.Hoare
import Lean.Elab.Tactic
/-
  Automation for `Step` goals over the ledger monad.
-/
namespace Pegnet

theorem Step.guarded {σ} {R : Rel σ} {g : σ → Option Failure} {u : σ → σ}
    (h : ∀ s, R.r s (u s)) : Step R (M.guarded g u) := by
  constructor
  intro s
  unfold M.guarded
  cases hg : g s with
  | some e => exact R.refl s
  | none => exact h s

/-- registered `Step` facts (primitives with a real obligation, and composite functions once
    proved) found by instance search -/
class StepPrim {σ α} (R : Rel σ) (m : M σ α) : Prop where
  step : Step R m

open Lean Elab Tactic Meta in
/-- close the goal with some local hypothesis (possibly universally quantified), unifying at
    reducible transparency only — cheap, and never unfolds model functions -/
elab "apply_hyp" : tactic => do
  let g ← getMainGoal
  g.withContext do
    let lctx ← getLCtx
    for ldecl in lctx do
      if ldecl.isImplementationDetail then continue
      let s ← saveState
      try
        let gs ← withReducible (g.apply ldecl.toExpr)
        if gs.isEmpty then
          replaceMainGoal []
          return
        else s.restore
      catch _ => s.restore
    throwError "apply_hyp: no hypothesis applies"

/-- decompose a `Step R prog` goal along the structure of `prog` -/
syntax "step_tac" : tactic
macro_rules
  | `(tactic| step_tac) => `(tactic|
    repeat (first
      | with_reducible exact StepPrim.step
      | with_reducible exact Step.pure _
      | with_reducible exact Step.pure' _
      | with_reducible exact Step.throw _
      | with_reducible exact Step.get
      | with_reducible assumption
      | apply_hyp
      | (with_reducible apply Step.guarded; intro _; first | rfl | exact id | (simp only [keepRel]; (repeat' split) <;> rfl))
      | with_reducible apply Step.swallow
      | with_reducible apply Step.forEach
      | with_reducible apply Step.forEachIdx
      | with_reducible apply Step.foldM
      | with_reducible apply Step.bind
      | with_reducible apply Step.bind'
      | intro _
      | dsimp only
      | split))

end Pegnet
