import Proofs.Liveness
/-
  C08 / C17: every history row belongs to a recorded batch — along every chain.

  `HistOK s`: each row of `pn_history_transaction` has a row of `pn_history_txbatch` with its hash.
  It is not preserved by `insertHistTx` alone, so the relation takes `AuthT := fun _ => False` in
  `PrimsOK` and the seven composites that write both tables are proved directly (`HistComps`):
  each inserts the batch row first.
-/
namespace Pegnet

def HistOK (s : DB) : Prop := ∀ r ∈ s.histT, s.isRecorded r.hash = true

/-- every held entry is a recorded one -/
def HoldOK (s : DB) : Prop := ∀ r ∈ s.holding, s.isRecorded r.entry.hash = true

/-- history rows and holding rows stay attached, and what is recorded stays recorded -/
def histRel : Rel DB where
  r s s' := (HistOK s → HistOK s') ∧ (HoldOK s → HoldOK s') ∧ ∀ x, s.isRecorded x = true → s'.isRecorded x = true
  refl _ := ⟨id, id, fun _ h => h⟩
  trans _ _ _ h1 h2 := ⟨fun h => h2.1 (h1.1 h), fun h => h2.2.1 (h1.2.1 h), fun x hx => h2.2.2 x (h1.2.2 x hx)⟩

/-- a state whose recorded set grew and whose two row tables are the same -/
theorem histRel_of_mono {s s' : DB} (hT : s'.histT = s.histT) (hH : s'.holding = s.holding)
    (hm : ∀ x, s.isRecorded x = true → s'.isRecorded x = true) : histRel.r s s' :=
  ⟨fun h r hr => by rw [hT] at hr; exact hm _ (h r hr), fun h r hr => by rw [hH] at hr; exact hm _ (h r hr), hm⟩

theorem histRel_of_keep {s s' : DB} (hT : s'.histT = s.histT) (hB : s'.histB = s.histB) (hH : s'.holding = s.holding) : histRel.r s s' :=
  histRel_of_mono hT hH (fun x hx => by unfold DB.isRecorded at *; rw [hB]; exact hx)

theorem hist_keep {g : DB → Option Failure} {u : DB → DB} (hT : ∀ s, (u s).histT = s.histT) (hB : ∀ s, (u s).histB = s.histB)
    (hH : ∀ s, (u s).holding = s.holding := by intro _; rfl) :
    Step histRel (M.guarded g u) :=
  Step.guarded (fun s => histRel_of_keep (hT s) (hB s) (hH s))

theorem isRecorded_map (l : List HistBatch) (f : HistBatch → HistBatch) (hf : ∀ r, (f r).hash = r.hash) (x : Hash) :
    (l.map f).any (·.hash == x) = l.any (·.hash == x) := by
  induction l with
  | nil => rfl
  | cons r rest ih => simp only [List.map_cons, List.any_cons, hf, ih]

theorem primsOK_hist (P : Params) (h : Nat) : PrimsOK P h histRel (fun _ => True) (fun _ => False) False where
  addBal _ _ _ := hist_keep (fun _ => rfl) (fun _ => rfl)
  subBal a t v _ := subBal_step_of P a t v (hist_keep (fun _ => rfl) (fun _ => rfl)) (hist_keep (fun _ => rfl) (fun _ => rfl))
  insertRate _ _ := hist_keep (fun _ => rfl) (fun _ => rfl)
  insertHistBatch r := Step.guarded (fun s => histRel_of_mono rfl rfl (fun x hx => by
    unfold DB.isRecorded at *
    simp only [List.any_append, hx, Bool.true_or]))
  insertHistTx _ hf := hf.elim
  insertLookup _ := Step.guarded (fun s => by split <;> exact histRel_of_keep rfl rfl rfl)
  setExecuted hash v := Step.guarded (fun s => by
    have hm : ∀ x, ({ s with histB := s.histB.map (fun r => if r.hash == hash then { r with executed := v } else r),
                              statusLog := s.statusLog ++ [(hash, v)] } : DB).isRecorded x = s.isRecorded x := by
      intro x
      unfold DB.isRecorded
      exact isRecorded_map s.histB _ (fun r => by split <;> rfl) x
    exact histRel_of_mono rfl rfl (fun x hx => by rw [hm]; exact hx))
  setConvertedAmount hash i a := Step.guarded (fun s => by
    refine ⟨fun hs q hq => ?_, fun hs => hs, fun x hx => hx⟩
    obtain ⟨q0, hq0, rfl⟩ := List.mem_map.1 hq
    have := hs q0 hq0
    split <;> exact this)
  setPegConverted hash i a o := Step.guarded (fun s => by
    refine ⟨fun hs q hq => ?_, fun hs => hs, fun x hx => hx⟩
    obtain ⟨q0, hq0, rfl⟩ := List.mem_map.1 hq
    have := hs q0 hq0
    split <;> exact this)
  insertRelation _ _ _ _ _ := Step.guarded (fun s => by split <;> exact histRel_of_keep rfl rfl rfl)
  insertHolding _ _ hf := hf.elim
  insertBank _ := hist_keep (fun _ => rfl) (fun _ => rfl)
  updateBank _ _ _ := hist_keep (fun _ => rfl) (fun _ => rfl)
  insertGrade _ _ _ _ _ := hist_keep (fun _ => rfl) (fun _ => rfl)
  insertWinner _ _ _ _ _ := hist_keep (fun _ => rfl) (fun _ => rfl)
  markSynced _ := hist_keep (fun _ => rfl) (fun _ => rfl)
  rotate := hist_keep (fun _ => rfl) (fun _ => rfl)
  touch := hist_keep (fun _ => rfl) (fun _ => rfl)


/-! ### programs that run while the batch row of `x` is there -/

/-- from every state in which `x` is recorded the program respects `histRel` (whether it ends well
    or fails: what a failed attempt leaves behind is rolled back with the block, but a swallowed
    failure is not, so both are covered) -/
def RecStep {α} (x : Hash) (m : LM α) : Prop := ∀ s, s.isRecorded x = true → histRel.r s (m s).state

namespace RecStep
variable {α β : Type} {x : Hash}

theorem of_step {m : LM α} (h : Step histRel m) : RecStep x m := fun s _ => h.run s

theorem pure (a : α) : RecStep x (Pure.pure a : LM α) := fun s _ => histRel.refl s
theorem pure' (a : α) : RecStep x (M.pure a : LM α) := fun s _ => histRel.refl s
theorem throw (e : Failure) : RecStep x (M.throw e : LM α) := fun s _ => histRel.refl s

theorem bind {m : LM α} {f : α → LM β} (hm : RecStep x m) (hf : ∀ a, RecStep x (f a)) : RecStep x (m >>= f) := by
  intro s hs
  have h1 := hm s hs
  rw [M.bind_run]
  cases hms : m s with
  | fail e s1 => rw [hms] at h1; exact h1
  | ok a s1 =>
    rw [hms] at h1
    exact histRel.trans _ _ _ h1 (hf a s1 (h1.2.2 x hs))

theorem forEach {l : List α} {f : α → LM Unit} (hf : ∀ a, RecStep x (f a)) : RecStep x (M.forEach l f) := by
  induction l with
  | nil => exact pure' ()
  | cons a rest ih => exact bind (m := f a) (hf a) (fun _ => ih)

/-- the transaction row of a recorded batch -/
theorem insertHistTx (r : HistTx) (hr : r.hash = x) : RecStep x (Pegnet.insertHistTx r) := by
  intro s hs
  simp only [Pegnet.insertHistTx, M.guarded]
  split
  · exact histRel.refl s
  · refine ⟨fun hok q hq => ?_, fun hh => hh, fun y hy => hy⟩
    rcases List.mem_append.1 hq with hq | hq
    · exact hok q hq
    · simp only [List.mem_singleton] at hq
      subst hq
      rw [hr]; exact hs

/-- the holding row of a recorded entry -/
theorem insertHolding (r : HoldRow) (hr : r.entry.hash = x) : RecStep x (Pegnet.insertHolding r) := by
  intro s hs
  simp only [Pegnet.insertHolding, M.guarded]
  split
  · exact histRel.refl s
  · refine ⟨fun hh => hh, fun hok q hq => ?_, fun y hy => hy⟩
    rcases List.mem_append.1 hq with hq | hq
    · exact hok q hq
    · simp only [List.mem_singleton] at hq
      subst hq
      rw [hr]; exact hs

end RecStep

/-- a batch row, then a program that needs it -/
theorem batch_then {α} (b : HistBatch) {k : LM α} (hk : RecStep b.hash k) : Step histRel (insertHistBatch b >>= fun _ => k) := by
  constructor
  intro s
  rw [M.bind_run]
  simp only [insertHistBatch, M.guarded]
  by_cases hany : (s.histB.any fun x => x.hash == b.hash && x.height == b.height) = true
  · simp only [hany, if_true]
    exact histRel.refl s
  · simp only [hany, Bool.false_eq_true, if_false]
    have h1 : histRel.r s { s with histB := s.histB ++ [b] } :=
      histRel_of_mono rfl rfl (fun y hy => by
        unfold DB.isRecorded at *
        simp only [List.any_append, hy, Bool.true_or])
    have hrec : ({ s with histB := s.histB ++ [b] } : DB).isRecorded b.hash = true := by
      unfold DB.isRecorded
      simp
    exact histRel.trans _ _ _ h1 (hk _ hrec)

theorem hist_lookup (r : HistLookup) : Step histRel (insertLookup r) :=
  Step.guarded (fun s => by split <;> exact histRel_of_keep rfl rfl rfl)

theorem hist_addBal (P : Params) (a : Addr) (t : Ticker) (v : Nat) : Step histRel (addBal P a t v) :=
  hist_keep (fun _ => rfl) (fun _ => rfl)

/-- the coinbase pattern: credit, batch row, transaction row, lookup row -/
theorem coinbase_step (P : Params) (a : Addr) (t : Ticker) (v : Nat) (b : HistBatch) (r : HistTx) (l : HistLookup) (hr : r.hash = b.hash) :
    Step histRel (do addBal P a t v; insertHistBatch b; insertHistTx r; insertLookup l) :=
  Step.bind (hist_addBal P a t v) (fun _ =>
    batch_then b (RecStep.bind (RecStep.insertHistTx r hr) (fun _ => RecStep.of_step (hist_lookup l))))

theorem hist_applyGradedOPR (P : Params) (oh ts : Int) (ws : List OprW) : Step histRel (applyGradedOPR P oh ts ws) := by
  unfold applyGradedOPR
  apply Step.forEach
  intro w
  split
  · exact Step.pure _
  · exact coinbase_step P _ _ _ _ _ _ rfl

theorem hist_applyGradedSPR (P : Params) (oh ts : Int) (ws : List SprW) : Step histRel (applyGradedSPR P oh ts ws) := by
  unfold applyGradedSPR
  apply Step.forEach
  intro w
  split
  · exact Step.pure _
  · exact coinbase_step P _ _ _ _ _ _ rfl

theorem hist_applyFactoidBlock (P : Params) (h : Nat) (rcd : Addr) (fcts : List FctTx) : Step histRel (applyFactoidBlock P h rcd fcts) := by
  unfold applyFactoidBlock
  apply Step.forEach
  intro f
  unfold applyFct
  split
  · exact Step.pure _
  · exact coinbase_step P _ _ _ _ _ _ rfl

theorem hist_devPayoutLoop (P : Params) (h : Nat) (ts : Int) (l : List (Addr × Nat)) : ∀ (i j : Nat), Step histRel (devPayoutLoop P h ts i j l) := by
  induction l with
  | nil => intro i j; unfold devPayoutLoop; exact Step.pure _
  | cons d rest ih =>
    intro i j
    unfold devPayoutLoop
    exact Step.bind (hist_addBal P _ _ _) (fun _ =>
      batch_then _ (RecStep.bind (RecStep.insertHistTx _ rfl) (fun _ =>
        RecStep.bind (RecStep.of_step (hist_lookup _)) (fun _ => RecStep.of_step (ih _ _)))))

theorem hist_insertZeroingCoinbase (txid : String) (i hh : Nat) (ts : Int) (payout : Nat) (asset : String) (a : Addr) :
    Step histRel (insertZeroingCoinbase txid i hh ts payout asset a) := by
  unfold insertZeroingCoinbase
  apply batch_then
  dsimp only
  have hjp : RecStep txid (do
      insertHistTx { hash := txid, txIndex := i, action := 3, fromAddr := a, fromAsset := "", fromAmount := 0,
                     toAsset := asset, toAmount := 0, outputs := "" }
      insertLookup { hash := txid, txIndex := i, addr := a }) :=
    RecStep.bind (RecStep.insertHistTx _ rfl) (fun _ => RecStep.of_step (hist_lookup _))
  split
  · exact RecStep.bind (RecStep.throw _) (fun _ => hjp)
  · exact hjp

/-- the per-transaction rows of `recordHistory`, while the batch row of the entry is there -/
theorem rec_historyRows (P : Params) (e : TxEntry) :
    RecStep e.hash (M.forEachIdx e.txs fun idx t => do
      insertLookup { hash := e.hash, txIndex := idx, addr := t.inAddr }
      if t.isConversion P then
        insertHistTx { hash := e.hash, txIndex := idx, action := 2, fromAddr := t.inAddr, fromAsset := tickerName P t.inType,
                       fromAmount := t.inAmount, toAsset := tickerName P t.conversion, toAmount := 0, outputs := "",
                       fromT := t.inType, toT := t.conversion }
      else do
        M.forEach t.transfers fun tr => insertLookup { hash := e.hash, txIndex := idx, addr := tr.addr }
        insertHistTx { hash := e.hash, txIndex := idx, action := 1, fromAddr := t.inAddr, fromAsset := tickerName P t.inType,
                       fromAmount := t.inAmount, toAsset := "", toAmount := 0,
                       outputs := renderOutputs (t.transfers.map fun tr => (tr.addr, (tr.amount : Int))),
                       fromT := t.inType, outs := t.transfers.map fun tr => (tr.addr, tr.amount) }) := by
  unfold M.forEachIdx
  apply RecStep.forEach
  intro p
  apply RecStep.bind (RecStep.of_step (hist_lookup _))
  intro _
  split
  · exact RecStep.insertHistTx _ rfl
  · exact RecStep.bind (RecStep.forEach (fun tr => RecStep.of_step (hist_lookup _))) (fun _ => RecStep.insertHistTx _ rfl)

/-- `recordHistory`: the batch row of the entry, then one transaction row per transaction -/
theorem hist_recordHistory (P : Params) (h bo : Nat) (e : TxEntry) : Step histRel (recordHistory P h bo e) := by
  unfold recordHistory
  exact batch_then _ (rec_historyRows P e)

theorem M.bind_assoc' {α β γ : Type} (m : LM α) (f : α → LM β) (g : β → LM γ) :
    ((m >>= f) >>= g) = (m >>= fun a => f a >>= g) := by
  funext s
  simp only [M.bind_run]
  cases m s <;> rfl

/-- the arrival of an entry with conversions: its history rows, then its holding row -/
theorem hist_recordAndHold (P : Params) (h : Nat) (keymr : String) (bo : Nat) (e : TxEntry) :
    Step histRel (recordHistory P h bo e >>= fun _ => insertHolding { entry := e, height := h, keymr := keymr }) := by
  unfold recordHistory
  rw [M.bind_assoc']
  exact batch_then _ (RecStep.bind (rec_historyRows P e) (fun _ => RecStep.insertHolding _ rfl))

/-- the recording part of the staking payout: one batch row, one transaction row per staker, the credits -/
theorem hist_stakingRows (P : Params) (h : Nat) (ts : Int) (txid : String) (l : List ((Addr × Nat) × (TxKey × Nat))) :
    Step histRel (do
      insertHistBatch { hash := txid, height := h, blockorder := 0, ts := ts, executed := h }
      M.forEach l fun lp => do
        insertHistTx { hash := txid, txIndex := lp.2.1.idx, action := 3, fromAddr := lp.1.1, fromAsset := "", fromAmount := 0,
                       toAsset := "PEG", toAmount := lp.2.2, outputs := "" }
        insertLookup { hash := txid, txIndex := lp.2.1.idx, addr := lp.1.1 }
      M.forEach l fun lp => addBal P lp.1.1 tPEG lp.2.2) := by
  apply batch_then
  apply RecStep.bind
  · apply RecStep.forEach
    intro lp
    exact RecStep.bind (RecStep.insertHistTx _ rfl) (fun _ => RecStep.of_step (hist_lookup _))
  · intro _
    exact RecStep.of_step (Step.forEach (fun lp => hist_addBal P _ _ _))

theorem hist_snapshotPayouts (P : Params) (h : Nat) (ts : Int) (rates : TMap) (order : List Addr) :
    Step histRel (snapshotPayouts P h ts rates order) := by
  have c1 := hist_stakingRows P h ts
  have c2 : Step histRel (M.guarded (fun _ => none) fun db : DB => { db with snapPast := db.snapCur, snapCur := db.addrs }) :=
    hist_keep (fun _ => rfl) (fun _ => rfl)
  unfold snapshotPayouts; step_tac

theorem hist_developersPayouts (P : Params) (h : Nat) (ts : Int) : Step histRel (developersPayouts P h ts) := by
  unfold developersPayouts; exact hist_devPayoutLoop P h ts P.devs 0 1

/-- the seven composites that write both history tables respect `histRel` -/
theorem histComps_hist (P : Params) (h : Nat) : HistComps P h histRel :=
  ⟨hist_insertZeroingCoinbase, hist_snapshotPayouts P h, hist_developersPayouts P h, hist_recordHistory P h,
   hist_recordAndHold P h, hist_applyFactoidBlock P h, hist_applyGradedOPR P, hist_applyGradedSPR P⟩

/-! ### along every chain -/

theorem hist_logExec (x : Hash) : Step histRel (logExec x) := hist_keep (fun _ => rfl) (fun _ => rfl)

/-- one block transaction keeps every history row attached to a recorded batch (committed or not) -/
theorem blockTx_hist (P : Params) (c : DB) (b : Block) (avgs : TMap) : Step histRel (blockTx P c b avgs) :=
  blockTx_stepA c b avgs (primsOK_hist P b.height)
    ⟨hist_logExec, histComps_hist P b.height, fun _ _ _ _ _ _ _ => trivial, fun _ _ _ _ _ => trivial, fun _ => trivial, fun _ => trivial⟩

/-- both invariants together -/
def HistHoldOK (s : DB) : Prop := HistOK s ∧ HoldOK s

theorem histRel_inv {s s' : DB} (h : histRel.r s s') (hs : HistHoldOK s) : HistHoldOK s' := ⟨h.1 hs.1, h.2.1 hs.2⟩

theorem histOK_congr {s s' : DB} (hT : s'.histT = s.histT) (hB : s'.histB = s.histB) (hH : s'.holding = s.holding)
    (h : HistHoldOK s) : HistHoldOK s' :=
  histRel_inv (histRel_of_keep hT hB hH) h

theorem applyBlock_histOK (P : Params) (n : Node) (b : Block) (hn : HistHoldOK n.db) : HistHoldOK (applyBlock P n b).1.db := by
  rcases applyBlock_db P n b with he | ⟨s', avgs, hs, hdb, _⟩
  · rw [he]; exact hn
  · rw [hdb]
    have h1 := histRel_inv ((blockTx_hist P { n.db with avgTouched := false } b avgs).ok hs) (histOK_congr (s := n.db) rfl rfl rfl hn)
    exact histOK_congr (s := s') rfl rfl rfl h1

/-- **Every history row and every held entry belongs to a recorded batch, along every chain.** -/
theorem runBlocks_histHoldOK (P : Params) (n : Node) (chain : List Block) (hn : HistHoldOK n.db) : HistHoldOK (runBlocks P n chain).db := by
  induction chain generalizing n with
  | nil => exact hn
  | cons b bs ih => exact ih _ (applyBlock_histOK P n b hn)

theorem histHoldOK_fresh (P : Params) : HistHoldOK (freshNode P).db :=
  ⟨fun _ h => absurd h List.not_mem_nil, fun _ h => absurd h List.not_mem_nil⟩

theorem runBlocks_histOK (P : Params) (n : Node) (chain : List Block) (hn : HistHoldOK n.db) : HistOK (runBlocks P n chain).db :=
  (runBlocks_histHoldOK P n chain hn).1

theorem histOK_fresh (P : Params) : HistHoldOK (freshNode P).db := histHoldOK_fresh P

/-- an entry that is not recorded is not held -/
theorem unheld_of_holdOK {s : DB} (hs : HoldOK s) (x : Hash) (hx : s.isRecorded x = false) : ∀ r ∈ s.holding, r.entry.hash ≠ x := by
  intro r hr he
  have := hs r hr
  rw [he, hx] at this
  cases this

/-- an entry that is not recorded has no history row yet -/
theorem fresh_of_histOK {s : DB} (hs : HistOK s) (x : Hash) (hx : s.isRecorded x = false) : ∀ r ∈ s.histT, r.hash ≠ x := by
  intro r hr he
  have := hs r hr
  rw [he, hx] at this
  cases this


/-! ### liveness of the arrival path on every reachable ledger -/

/-- what makes an arriving entry harmless: it does not validate; or it holds a conversion (it is only
    recorded and held); or it is a batch of plain transfers of one sender other than the burn address -/
def HarmlessEntry (P : Params) (h : Nat) (e : TxEntry) : Prop :=
  e.validAt P h = false ∨ e.hasConversions P = true ∨
  ∃ a, a ≠ burnAddrAt P h ∧ (∀ t ∈ e.txs, t.inAddr = a) ∧ ∀ t ∈ e.txs, PlainTransfer P t

theorem harmless_entry_never_fails (P : Params) (h : Nat) (keymr : String) (bo : Nat) (e : TxEntry) (s : DB)
    (hs : HistHoldOK s) (he : HarmlessEntry P h e) :
    ∃ s', applyTxEntry P h keymr bo e s = .ok () s' ∧ HistHoldOK s' := by
  have hstep : Step histRel (applyTxEntry P h keymr bo e) :=
    applyTxEntry_stepA (primsOK_hist P h) keymr bo e (fun _ _ _ => trivial) hist_logExec (hist_recordHistory P h) (hist_recordAndHold P h)
  have hskip : s.isRecorded e.hash = true → applyTxEntry P h keymr bo e s = .ok () s := by
    intro hrec
    unfold applyTxEntry
    rw [M.bind_run]
    simp only [M.get_run, hrec, Bool.not_true, Bool.and_false, Bool.false_eq_true, if_false]
    rfl
  have key : ∃ s', applyTxEntry P h keymr bo e s = .ok () s' := by
    rcases he with hv | hconv | ⟨a, hb, hall, hplain⟩
    · exact ⟨s, by
        unfold applyTxEntry
        rw [M.bind_run]
        simp only [M.get_run, hv, Bool.false_and, Bool.false_eq_true, if_false]
        rfl⟩
    · cases hrec : s.isRecorded e.hash with
      | false => exact conversion_entry_arrival_never_fails P h keymr bo e s hconv (fresh_of_histOK hs.1 e.hash hrec) (unheld_of_holdOK hs.2 e.hash hrec)
      | true => exact ⟨s, hskip hrec⟩
    · cases hrec : s.isRecorded e.hash with
      | false => exact transfer_entry_never_fails P h keymr bo e s a hb hall hplain (fresh_of_histOK hs.1 e.hash hrec)
      | true => exact ⟨s, hskip hrec⟩
  obtain ⟨s', h'⟩ := key
  exact ⟨s', h', histRel_inv (hstep.ok h') hs⟩

/-- **No entry block of the transaction chain made of harmless entries can fail**, on any ledger
    whose history and holding tables are consistent (every reachable one: `runBlocks_histHoldOK`). -/
theorem harmless_tx_block_never_fails (P : Params) (h : Nat) (keymr : String) (es : List TxEntry) (s : DB)
    (hs : HistHoldOK s) (he : ∀ e ∈ es, HarmlessEntry P h e) :
    ∃ s', applyTransactionBlock P h keymr es s = .ok () s' ∧ HistHoldOK s' := by
  unfold applyTransactionBlock M.forEachIdx
  suffices hk : ∀ (k : Nat) (s : DB), HistHoldOK s →
      ∃ s', M.forEach (es.zipIdx k) (fun p => applyTxEntry P h keymr p.2 p.1) s = .ok () s' ∧ HistHoldOK s' from hk 0 s hs
  induction es with
  | nil => intro k s hs; exact ⟨s, rfl, hs⟩
  | cons e rest ih =>
    intro k s hs
    obtain ⟨s1, h1, hs1⟩ := harmless_entry_never_fails P h keymr k e s hs (he e List.mem_cons_self)
    obtain ⟨s2, h2, hs2⟩ := ih (fun e' he' => he e' (List.mem_cons_of_mem _ he')) (k + 1) s1 hs1
    refine ⟨s2, ?_, hs2⟩
    simp only [List.zipIdx_cons, M.forEach]
    show (applyTxEntry P h keymr k e >>= fun _ => M.forEach (rest.zipIdx (k + 1)) (fun p => applyTxEntry P h keymr p.2 p.1)) s = _
    rw [M.bind_run, h1]
    exact h2

end Pegnet
