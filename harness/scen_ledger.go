package main

// The `ledger` scenario: an era-crossing chain (two snapshot heights) in lock-step with full
// dumps after every block, with the executable specifications of monitors.go evaluated on the
// implementation's own dumps: C03 (no negative balance), C04 / C17 (history + scheduled
// adjustments replay to the balances at every height), C07 (converted amounts vs recorded rates),
// C11 (rewards vs an independent run of the real graders), C14 (staking payouts), C15 (developer
// payouts and one-time adjustments), C16 (bank rows).

import (
	"github.com/Factom-Asset-Tokens/factom"
	"os"
	"fmt"
	"math/big"
	"math/rand"
	"sort"
	"strings"

	"github.com/pegnet/pegnetd/fat/fat2"
	"github.com/pegnet/pegnetd/node"
	"github.com/pegnet/pegnetd/node/conversions"
	"github.com/pegnet/pegnetd/node/pegnet"
)

func ledgerActs(r *rand.Rand, variant int) Acts {
	gap := func(lo, hi int) uint32 { return uint32(lo + r.Intn(hi-lo+1)) }
	var a Acts
	a.Pegnet = 100
	a.GradingV2 = a.Pegnet + gap(2, 3)
	a.TxConv = a.GradingV2 + gap(2, 3)
	a.PegPricing = a.TxConv + gap(2, 4)
	a.OneWayFCT = a.PegPricing + gap(2, 4)
	a.ConvLimit = a.OneWayFCT + gap(3, 5)
	a.PegFloat = a.ConvLimit
	a.V4 = a.ConvLimit + gap(4, 6)
	a.RCDE = a.V4
	a.V20 = a.V4 + gap(5, 7)
	switch variant % 3 {
	case 0:
		a.DevRewards = 139 + gap(0, 4)
		a.V202 = 150 + gap(0, 10)
	case 1:
		a.DevRewards = 146 + gap(0, 6)
		a.V202 = a.DevRewards + gap(6, 14)
	case 2:
		a.DevRewards = 134 + gap(0, 3)
		a.V202 = a.DevRewards + gap(2, 5)
	}
	a.SprSig = a.DevRewards
	a.OneWaySmall = a.V202
	a.V204 = a.V202 + gap(4, 8)
	a.V204Burn = a.V204 + gap(4, 8)
	a.PIP10 = a.V204Burn + gap(4, 8)
	return a
}

type ledgerMon struct {
	rep    *Report
	s      Setup
	seed   int64
	chain  func() []*BlockSpec
	mintHex, burnHex, oldBurnHex string
	devs   map[string]uint64
	seenDisc map[string]bool
	// the implementation's own rolling averages after the block (read from the node), and the
	// height they were computed for
	avgs       map[fat2.PTicker]uint64
	avgsHeight uint32
}

func (m *ledgerMon) violate(sig, what string, h uint32) {
	path := WriteReplay(m.rep.Property, "ledger-"+strings.SplitN(sig, ":", 2)[0], Replay{Property: m.rep.Property, Scenario: "ledger", Seed: m.seed, Setup: m.s,
		What: fmt.Sprintf("height %d: %s", h, what), Blocks: ChainJSON(m.chain())})
	m.rep.Violate(sig, fmt.Sprintf("height %d: %s", h, what), path)
}

// adjustments are the protocol's scheduled one-time changes that have no history rows.
func (m *ledgerMon) adjust(bal map[string]map[int]*big.Int, h int64) {
	a := m.s.Acts
	zeroAll := func(addr string) {
		for t := range bal[addr] {
			bal[addr][t] = new(big.Int)
		}
	}
	if uint32(h) == a.DevRewards {
		zeroAll(m.oldBurnHex)
	}
	if uint32(h) == a.V202 {
		zeroAll(m.burnHex)
	}
	if uint32(h) == a.V204 {
		for _, ms := range node.MintTotalSupplyMap {
			v := new(big.Int).Mul(new(big.Int).SetUint64(ms.Amount), big.NewInt(1e8))
			addTo(bal, m.mintHex, int(ms.Ticker), v)
		}
	}
	if uint32(h) == a.V204Burn {
		for _, ms := range node.MintTotalSupplyMap {
			if bal[m.mintHex] != nil && bal[m.mintHex][int(ms.Ticker)] != nil {
				bal[m.mintHex][int(ms.Ticker)] = new(big.Int)
			}
		}
	}
}

func (m *ledgerMon) check(h uint32, b *BlockSpec, prevDump, dump []string, prevWinners []string, top [][]byte, applied bool) {
	a := m.s.Acts
	L := ParseDump(dump)
	// C03
	if neg := L.Negative(); neg != "" {
		m.violate("nonneg:negative-balance", neg, h)
	}
	// C11: before 2.0 exactly the factoid transactions of burn shape are recorded (and, by the
	// history replay below, credited) as burns, for the burned amount, to the burning address;
	// from 2.0 on nothing in a factoid block is
	if applied && b != nil {
		var wantBurns, gotBurns []string
		if h < a.V20 {
			for _, t := range b.FCT {
				if IsBurn(t) && t.TransactionID != nil {
					wantBurns = append(wantBurns, fmt.Sprintf("%x|%x|%d", t.TransactionID[:], t.FCTInputs[0].Address[:], t.FCTInputs[0].Amount))
				}
			}
		}
		for _, bb := range L.B {
			if bb.height != int64(h) {
				continue
			}
			for _, t := range L.T[bb.hash] {
				if t.action == 4 {
					gotBurns = append(gotBurns, fmt.Sprintf("%s|%s|%d", bb.hash, t.from, t.toAmount))
				}
			}
		}
		sort.Strings(wantBurns)
		sort.Strings(gotBurns)
		if fmt.Sprint(wantBurns) != fmt.Sprint(gotBurns) {
			m.violate("rewards:burn", fmt.Sprintf("burns recorded %v, factoid transactions of burn shape in the block %v", gotBurns, wantBurns), h)
		}
		if len(b.FCT) > 0 {
			m.rep.Count(fmt.Sprintf("fct:txs-with-burns=%d", len(wantBurns)))
		}
	}
	// C04 / C17: history + scheduled adjustments replay to the balances
	want := L.ReplayHistory(a, m.adjust)
	if m.seenDisc == nil {
		m.seenDisc = map[string]bool{}
	}
	if os.Getenv("VERIF_DEBUG") != "" {
		say("h=%d discrepancies=%d first=%s", h, len(CompareBalancesAll(L.Bal, want)), CompareBalances(L.Bal, want))
	}
	for _, d := range CompareBalancesAll(L.Bal, want) {
		// a discrepancy stays in the ledger for good: it is reported at the block that created it
		key := fmt.Sprintf("%s|%d|%s", d.addr, d.t, d.delta)
		if m.seenDisc[key] {
			continue
		}
		m.seenDisc[key] = true
		sig := "history-replay:balances-differ"
		switch d.addr {
		case m.oldBurnHex:
			sig = "history-replay:old-burn-address"
		case m.burnHex:
			sig = "history-replay:burn-address"
		case m.mintHex:
			sig = "history-replay:mint-address"
		default:
			sig += ":" + eraOf(a, h)
			// attribute it to the known double payment of batches that mix a PEG request with
			// other transactions, when such a batch of this address executed in this block
			for _, bb := range L.B {
				if bb.exec == int64(h) && h >= a.ConvLimit && L.MixedPegBatch(bb.hash) && len(L.T[bb.hash]) > 0 && L.T[bb.hash][0].from == d.addr {
					sig += ":mixed-peg-request-batch"
					break
				}
			}
		}
		m.violate(sig, d.what, h)
		// C11: "pays the winning records exactly the reward the grading algorithm assigns": a PEG
		// discrepancy that appears, in the block that pays them, on the payout address of one of
		// this block's reward rows is a reward credited with another amount than the one recorded
		if d.t == int(fat2.PTickerPEG) && applied && b != nil {
			paidHere := false
			for _, e := range append(append([]factom.Entry{}, b.OPR...), b.SPR...) {
				for _, t := range L.T[hx(e.Hash[:])] {
					if t.action == 3 && t.from == d.addr {
						paidHere = true
					}
				}
			}
			if paidHere {
				m.violate("rewards:credit:"+eraOf(a, h), "reward recipient: "+d.what, h)
			}
		}
	}
	if !applied {
		return
	}
	// C11: coinbase rows of this block's record entries vs an independent grading run
	oprHashes := map[string]bool{}
	for _, e := range b.OPR {
		oprHashes[hx(e.Hash[:])] = true
	}
	if exp, err := ExpectedOPRRewards(a, b, prevWinners); err == nil {
		if h >= a.V20 && h < a.V202 && len(L.Rates[int64(h)]) == 0 && len(exp) > 0 {
			// the early-return quirk: winners recorded, block otherwise empty (known finding)
			if len(L.CoinbaseRowsFor(oprHashes)) == 0 {
				m.violate("rewards:winners-unpaid-on-band-miss", fmt.Sprintf("%d OPR winners graded but nothing paid (no rates recorded)", len(exp)), h)
			}
		} else if got := L.CoinbaseRowsFor(oprHashes); !sameRewards(got, exp) {
			m.violate("rewards:opr:"+eraOf(a, h), fmt.Sprintf("OPR coinbase rows %d, independent grading expects %d winners", len(got), len(exp)), h)
		}
	}
	sprHashes := map[string]bool{}
	for _, e := range b.SPR {
		sprHashes[hx(e.Hash[:])] = true
	}
	if exp, err := ExpectedSPRRewards(a, b, top); err == nil {
		got := L.CoinbaseRowsFor(sprHashes)
		if h >= a.V20 && h < a.V202 && len(L.Rates[int64(h)]) == 0 && len(exp) > 0 && len(got) == 0 {
			// same quirk
		} else if !sameRewards(got, exp) {
			m.violate("rewards:spr:"+eraOf(a, h), fmt.Sprintf("SPR coinbase rows %d, independent grading expects %d winners", len(got), len(exp)), h)
		}
	}
	// C12: a block without winners (by the independent grading runs above) records no rates
	{
		ow, errO := ExpectedOPRRewards(a, b, prevWinners)
		sw, errS := ExpectedSPRRewards(a, b, top)
		if errO == nil && errS == nil {
			winners := len(ow) > 0 || (h >= a.V20 && len(sw) > 0)
			if !winners && len(L.Rates[int64(h)]) > 0 {
				m.violate("rates:recorded-without-winners:"+eraOf(a, h), fmt.Sprintf("%d rate rows recorded although neither record set has winners (%d OPR / %d SPR entries in the block)", len(L.Rates[int64(h)]), len(b.OPR), len(b.SPR)), h)
			}
			// ... and a block where exactly one record set has winners records that winner's rates
			// ("combined with the winning SPR … when both are present" leaves nothing to fail on)
			oneSided := (len(ow) > 0) != (h >= a.V20 && len(sw) > 0)
			if oneSided && len(L.Rates[int64(h)]) == 0 {
				m.violate("rates:missing-with-one-sided-winners:"+eraOf(a, h), fmt.Sprintf("no rate rows recorded although exactly one record set has winners (%d OPR winners, %d SPR winners)", len(ow), len(sw)), h)
			}
			m.rep.Count(fmt.Sprintf("rates:winners=%v,one-sided=%v,recorded=%v", winners, oneSided, len(L.Rates[int64(h)]) > 0))
		}
	}
	// C15: developer payouts
	devRows := map[string]uint64{}
	for hash, ts := range L.T {
		for _, t := range ts {
			if t.action == 3 && len(hash) == 64 && strings.HasSuffix(hash, fmt.Sprintf("%062d", h)) && hash[:2] != "00" {
				// %02d%062d  (j >= 1)
				if bh := L.batchHeight(hash); bh == int64(h) {
					devRows[t.from] += uint64(t.toAmount)
				}
			}
		}
	}
	devDue := h >= a.DevRewards && h%pegnet.SnapshotRate == 0
	if devDue {
		for addr, pct := range m.devs {
			exp := uint64(conversions.PerBlockDevelopers) / 100 * pct
			if h >= a.V202 {
				exp *= pegnet.SnapshotRate
			}
			if devRows[addr] != exp {
				m.violate("issuance:dev-payout", fmt.Sprintf("developer %s paid %d, table says %d", addr, devRows[addr], exp), h)
				break
			}
		}
		var total uint64
		for _, v := range devRows {
			total += v
		}
		expTotal := uint64(conversions.PerBlockDevelopers)
		if h >= a.V202 {
			expTotal *= pegnet.SnapshotRate
		}
		if total != expTotal {
			m.violate("issuance:dev-total", fmt.Sprintf("developer payout total %d, expected %d", total, expTotal), h)
		}
	} else if len(devRows) > 0 {
		m.violate("issuance:dev-offschedule", "developer payout rows at a height that is not due", h)
	}
	// C15: mint / burn-address events
	prev := ParseDump(prevDump)
	mintDelta := func(t int) *big.Int {
		d := new(big.Int)
		if L.Bal[m.mintHex] != nil && L.Bal[m.mintHex][t] != nil {
			d.Add(d, L.Bal[m.mintHex][t])
		}
		if prev.Bal[m.mintHex] != nil && prev.Bal[m.mintHex][t] != nil {
			d.Sub(d, prev.Bal[m.mintHex][t])
		}
		return d
	}
	for _, ms := range node.MintTotalSupplyMap {
		d := mintDelta(int(ms.Ticker))
		exp := new(big.Int)
		if h == a.V204 {
			exp.Mul(new(big.Int).SetUint64(ms.Amount), big.NewInt(1e8))
		}
		if h == a.V204Burn && prev.Bal[m.mintHex] != nil && prev.Bal[m.mintHex][int(ms.Ticker)] != nil {
			exp.Neg(prev.Bal[m.mintHex][int(ms.Ticker)])
		}
		// ordinary history may also move the mint address' funds (nobody holds its key, so only
		// transfers into it): they are added to the expectation; only the one-time heights are pinned
		if in := L.TransfersInto(int64(h), m.mintHex)[int(ms.Ticker)]; in != nil {
			exp.Add(exp, in)
		}
		if (h == a.V204 || h == a.V204Burn) && d.Cmp(exp) != 0 {
			m.violate("issuance:mint", fmt.Sprintf("mint address %s changed by %v, expected %v", ms.Ticker.String(), d, exp), h)
			break
		}
	}
	// … and nothing else on the mint address moves at those two heights: assets outside the mint
	// table change only by what is transferred in
	if h == a.V204 || h == a.V204Burn {
		minted := map[int]bool{}
		for _, ms := range node.MintTotalSupplyMap {
			minted[int(ms.Ticker)] = true
		}
		in := L.TransfersInto(int64(h), m.mintHex)
		for t := 1; t < int(fat2.PTickerMax); t++ {
			if minted[t] {
				continue
			}
			d := mintDelta(t)
			if in[t] != nil {
				d.Sub(d, in[t])
			}
			if d.Sign() != 0 {
				m.violate("issuance:mint-unlisted-asset", fmt.Sprintf("mint address %s (not in the mint table) changed by %v at height %d", fat2.PTicker(t).String(), d, h), h)
				break
			}
		}
	}
	if h == a.DevRewards {
		in := L.TransfersInto(int64(h), m.oldBurnHex) // received after the zeroing, in this very block
		for t, v := range L.Bal[m.oldBurnHex] {
			if in[t] != nil {
				v = new(big.Int).Sub(v, in[t])
			}
			if v.Sign() != 0 {
				m.violate("issuance:old-burn-not-zeroed", fmt.Sprintf("old burn address still holds %v of asset %s after its zeroing height", v, fat2.PTicker(t).String()), h)
				break
			}
		}
	}
	if h == a.V202 {
		for t, v := range L.Bal[m.burnHex] {
			if v.Sign() != 0 {
				m.violate("issuance:burn-not-zeroed", fmt.Sprintf("burn address still holds %v of asset %s after its zeroing height", v, fat2.PTicker(t).String()), h)
				break
			}
		}
	}
	// C14: staking payouts
	stakeHash := fmt.Sprintf("%064d", h)
	var paid []uint64
	for _, t := range L.T[stakeHash] {
		if h == a.DevRewards && t.from == m.oldBurnHex {
			continue // the burn-address zeroing records its rows under the same mock txid
		}
		if t.action == 3 && L.batchHeight(stakeHash) == int64(h) {
			paid = append(paid, uint64(t.toAmount))
		}
	}
	sort.Slice(paid, func(i, j int) bool { return paid[i] < paid[j] })
	snapDue := h >= a.V20 && h%pegnet.SnapshotRate == 0
	if snapDue {
		rates := L.Rates[int64(h)]
		if len(rates) == 0 && h >= a.V202 {
			var best int64 = -1
			for rh := range L.Rates {
				if rh < int64(h) && rh > best {
					best = rh
				}
			}
			rates = L.Rates[best]
		}
		cap := uint64(conversions.PerBlockAssetHolders) * pegnet.SnapshotRate
		exp, total, ok := ExpectedStaking(a, h, L, rates, cap)
		if ok {
			var sum uint64
			for _, p := range paid {
				sum += p
			}
			m.rep.Count(fmt.Sprintf("staking:stakers=%d,over=%v", len(exp), total.Cmp(new(big.Int).SetUint64(cap)) >= 0))
			if sum > cap {
				m.violate("staking:over-cap", fmt.Sprintf("staking payouts total %d exceed the cap %d", sum, cap), h)
			}
			if fmt.Sprint(exp) != fmt.Sprint(paid) {
				m.violate("staking:payouts", fmt.Sprintf("staking payouts %v, specification %v (total stake %v)", paid, exp, total), h)
			}
		}
		// C14: "the balance at the previous snapshot and at this one": whenever a snapshot height has
		// rates to value stakes with (its own, or the borrowed ones above) the snapshot tables
		// rotate — current := the balances as they stood before this block, past := the previous
		// current — whether or not anybody ends up being paid
		specRates := rates
		if len(specRates) == 0 && h < a.V202 {
			specRates = L.Rates[int64(h)-1]
		}
		if applied && len(specRates) > 0 {
			m.rep.Count("staking:snapshot-rotation-checked")
			// (the one-time adjustments of a height — burn-address zeroings, mint, burn of the mint —
			// run ahead of the snapshot: at those heights the special addresses are left out)
			before := prev.Bal
			if h == a.DevRewards || h == a.V202 || h == a.V204 || h == a.V204Burn {
				before = map[string]map[int]*big.Int{}
				for k, v := range prev.Bal {
					before[k] = v
				}
				for _, sp := range []string{m.burnHex, m.oldBurnHex, m.mintHex} {
					if L.SC[sp] != nil {
						before[sp] = L.SC[sp]
					} else {
						delete(before, sp)
					}
				}
			}
			if d := balMapDiff(L.SC, before); d != "" {
				m.violate("staking:snapshot-current", "after snapshot height "+fmt.Sprint(h)+" the current snapshot is not the balance table as it stood before the block: "+d, h)
			}
			if d := balMapDiff(L.SP, prev.SC); d != "" {
				m.violate("staking:snapshot-past", "after snapshot height "+fmt.Sprint(h)+" the past snapshot is not the previous current snapshot: "+d, h)
			}
		}
	} else if len(paid) > 0 && h != a.DevRewards {
		// (at the developer-reward activation the burn-address zeroing records rows under the same mock txid)
		m.violate("staking:offschedule", "staking payout at a height that is not a snapshot height", h)
	}
	// C04 / C03: an executed transfer credits exactly what it debits (no uint64 wrap-around)
	for _, bb := range L.B {
		if bb.exec != int64(h) {
			continue
		}
		for _, t := range L.T[bb.hash] {
			if t.action != 1 {
				continue
			}
			sum := new(big.Int)
			for _, o := range t.outputs {
				v, _ := new(big.Int).SetString(o[1], 10)
				if v != nil {
					sum.Add(sum, v)
				}
			}
			if sum.Cmp(big.NewInt(t.fromAmount)) != 0 {
				m.violate("transfer:outputs-differ-from-input", fmt.Sprintf("transfer %s/%d executed: input %d, outputs total %v", bb.hash, t.idx, t.fromAmount, sum), h)
			}
		}
	}
	// C07 / C12: conversions execute only in a block that recorded rates of its own
	if len(L.Rates[int64(h)]) == 0 {
		for _, bb := range L.B {
			if bb.exec != int64(h) {
				continue
			}
			for _, t := range L.T[bb.hash] {
				if t.action == 2 {
					m.violate("conversion:executed-without-rates", fmt.Sprintf("conversion %s (submitted at %d) executed at height %d, which recorded no rates", bb.hash, bb.height, h), h)
				}
			}
		}
	}
	// C07 / C04: once averaging is active the amount credited is floor(in * min(spot, average) /
	// max(spot, average)); the averages are the implementation's own (its cache right after the
	// block, computed for the last rated height before this one)
	if rates := L.Rates[int64(h)]; h >= a.PIP10 && len(rates) > 0 {
		var fromH int64 = -1
		var rated []int64
		for rh := range L.Rates {
			if rh < int64(h) {
				rated = append(rated, rh)
				if rh > fromH {
					fromH = rh
				}
			}
		}
		sort.Slice(rated, func(i, j int) bool { return rated[i] > rated[j] })
		type execConv struct {
			hash string
			t    histT
		}
		var convs []execConv
		for _, bb := range L.B {
			if bb.exec != int64(h) {
				continue
			}
			for _, t := range L.T[bb.hash] {
				if t.action == 2 {
					convs = append(convs, execConv{bb.hash, t})
				}
			}
		}
		// C13: "once averaging is active, [a conversion involving an asset] whose average is
		// unavailable" is not executed. Whatever the node's window holds (the rated heights of the
		// last AveragePeriod heights after a reload, up to the last AveragePeriod rated heights
		// when it has been running), it is a subset of the last AveragePeriod rated heights before
		// the block: with fewer than AverageRequired non-zero quotes among THOSE, no reading of the
		// rule makes the average available.
		if fromH >= 0 && m.s.AvgPeriod > 0 {
			period := int(m.s.AvgPeriod)
			if len(rated) > period {
				rated = rated[:period]
			}
			for _, c := range convs {
				for _, asset := range []string{c.t.fromAsset, c.t.toAsset} {
					nz := 0
					for _, rh := range rated {
						if L.Rates[rh][asset] != 0 {
							nz++
						}
					}
					m.rep.Count("admission:average-availability-checked")
					if nz < period/2 {
						m.violate("admission:average-unavailable-executed", fmt.Sprintf("conversion %s executed at height %d although %s has only %d non-zero quotes among the last %d rated heights before it (%d required)", c.hash, h, asset, nz, len(rated), period/2), h)
					}
				}
			}
		}
		// C07 / C13 (Lean: priced_with_the_window_mean): when every one of the AveragePeriod heights
		// ending at the last rated height before the block is rated and quotes the asset, the
		// average the node holds for it is the mean of exactly those quotes (0 when fewer than half
		// are non-zero) — whatever path produced it
		if fromH >= 0 && m.avgs != nil && len(convs) > 0 && int64(m.avgsHeight) == fromH && m.s.AvgPeriod > 0 && fromH >= int64(m.s.AvgPeriod) {
			period := int64(m.s.AvgPeriod)
			seen := map[string]bool{}
			for _, c := range convs {
				for _, asset := range []string{c.t.fromAsset, c.t.toAsset} {
					if seen[asset] {
						continue
					}
					seen[asset] = true
					whole := true
					sum := new(big.Int)
					nz := 0
					for g := fromH - period + 1; g <= fromH; g++ {
						v, has := L.Rates[g][asset]
						if !has {
							whole = false
							break
						}
						if v != 0 {
							nz++
						}
						sum.Add(sum, new(big.Int).SetUint64(v))
					}
					if !whole {
						continue
					}
					exp := uint64(0)
					if int64(nz) >= period/2 {
						exp = new(big.Int).Div(new(big.Int).Mod(sum, new(big.Int).Lsh(big.NewInt(1), 64)), big.NewInt(period)).Uint64()
					}
					tick := fat2.StringToTicker(asset)
					m.rep.Count("conversion:window-mean-checked")
					if got := m.avgs[tick]; got != exp {
						m.violate("conversion:window-mean", fmt.Sprintf("block %d: the node's average of %s at height %d is %d, the mean of the %d quotes of heights %d..%d is %d", h, asset, fromH, got, period, fromH-period+1, fromH, exp), h)
					}
				}
			}
		}
		// C07: the averages a block prices its conversions with are those taken at the last rated
		// height before it
		if fromH >= 0 && m.avgs != nil && len(convs) > 0 && int64(m.avgsHeight) != fromH {
			m.violate("conversion:averages-height", fmt.Sprintf("block %d executed conversions with averages taken at height %d; the last rated height before it is %d", h, m.avgsHeight, fromH), h)
		}
		if fromH >= 0 && m.avgs != nil && int64(m.avgsHeight) == fromH {
			for _, c := range convs {
				t, bb := c.t, struct{ hash string }{c.hash}
				fr, tr := rates[t.fromAsset], rates[t.toAsset]
				fa, ta := m.avgs[fat2.StringToTicker(t.fromAsset)], m.avgs[fat2.StringToTicker(t.toAsset)]
				if fr == 0 || tr == 0 || fa == 0 || ta == 0 {
					m.violate("conversion:zero-rate-executed", fmt.Sprintf("conversion %s executed with a zero rate or average", bb.hash), h)
					continue
				}
				src, dst := fr, tr
				if fa < src {
					src = fa
				}
				if ta > dst {
					dst = ta
				}
				x := new(big.Int).Mul(big.NewInt(t.fromAmount), new(big.Int).SetUint64(src))
				x.Div(x, new(big.Int).SetUint64(dst))
				m.rep.Count("conversion:pip10-amount-checked")
				if x.Cmp(big.NewInt(t.toAmount)) != 0 {
					m.violate("conversion:amount:pip10", fmt.Sprintf("conversion %s credited %d, floor(%d*min(%d,%d)/max(%d,%d)) = %v", bb.hash, t.toAmount, t.fromAmount, fr, fa, tr, ta, x), h)
				}
			}
		}
	}
	// C07: converted amounts of conversions executed in this block, before averaging
	if h < a.PIP10 {
		rates := L.Rates[int64(h)]
		for _, bb := range L.B {
			if bb.exec != int64(h) {
				continue
			}
			for _, t := range L.T[bb.hash] {
				if t.action != 2 || (t.toAsset == "PEG" && h >= a.ConvLimit) {
					continue
				}
				if bb.height >= int64(h) {
					m.violate("conversion:same-block", fmt.Sprintf("conversion %s submitted at %d executed at %d", bb.hash, bb.height, h), h)
				}
				fr, tr := rates[t.fromAsset], rates[t.toAsset]
				if fr == 0 || tr == 0 {
					m.violate("conversion:zero-rate-executed", fmt.Sprintf("conversion %s executed with a zero rate", bb.hash), h)
					continue
				}
				x := new(big.Int).Mul(big.NewInt(t.fromAmount), new(big.Int).SetUint64(fr))
				x.Div(x, new(big.Int).SetUint64(tr))
				if x.Cmp(big.NewInt(t.toAmount)) != 0 {
					sig := "conversion:amount"
					if h >= a.ConvLimit && L.MixedPegBatch(bb.hash) {
						sig += ":mixed-peg-request-batch"
					}
					m.violate(sig, fmt.Sprintf("conversion %s credited %d, floor(%d*%d/%d) = %v", bb.hash, t.toAmount, t.fromAmount, fr, tr, x), h)
				}
			}
		}
	}
	// C13: from 2.0 on a conversion into PEG is never executed
	if h >= a.V20 {
		for _, bb := range L.B {
			if bb.exec != int64(h) {
				continue
			}
			for _, t := range L.T[bb.hash] {
				if t.action == 2 && t.toAsset == "PEG" {
					m.violate("admission:peg-conversion-executed:"+eraOf(a, h), fmt.Sprintf("batch %s with a conversion into PEG was executed at height %d", bb.hash, h), h)
				}
			}
		}
	}
	// C12: PEG's recorded price follows the pricing phase of the height
	if rr := L.Rates[int64(h)]; len(rr) > 0 && h < a.PegFloat {
		exp := new(big.Int)
		if h >= a.PegPricing {
			// (total capitalisation of the other assets) / (PEG supply), on the committed supply
			sup := prev.Supply()
			if ps := sup[int(fat2.PTickerPEG)]; ps != nil && ps.Sign() > 0 {
				cap := new(big.Int)
				for t, v := range sup {
					if t == int(fat2.PTickerPEG) {
						continue
					}
					cap.Add(cap, new(big.Int).Mul(v, new(big.Int).SetUint64(rr[fat2.PTicker(t).String()])))
				}
				exp.Div(cap, ps)
			}
		}
		if got := new(big.Int).SetUint64(rr["PEG"]); got.Cmp(exp) != 0 && exp.IsUint64() {
			m.violate("rates:peg-price:"+eraOf(a, h), fmt.Sprintf("PEG recorded at %v, the pricing phase of the height prescribes %v", got, exp), h)
		}
	}
	// ... and in the floating phase before 2.0 it is the winning OPR's own PEG quote (independent
	// grading run); every other asset's recorded rate is the winner's quote in every pre-2.0 phase
	if rr := L.Rates[int64(h)]; len(rr) > 0 && h < a.V20 {
		if wa := ExpectedWinnerAssets(a, b, prevWinners); wa != nil {
			for name, v := range wa {
				if name == "PNT" {
					name = "PEG"
				}
				tick := name
				if name != "PEG" {
					tick = "p" + name
				}
				got, has := rr[tick]
				if !has {
					continue
				}
				if tick == "PEG" && h < a.PegFloat {
					continue // phase-priced: checked above
				}
				m.rep.Count("rates:winner-quote-checked")
				if got != v {
					m.violate("rates:winner-quote:"+eraOf(a, h), fmt.Sprintf("%s recorded at %d, the winning OPR quotes %d", tick, got, v), h)
					break
				}
			}
		}
	}
	// C16: "the unconverted part of the input is refunded in the source asset": for every genuine
	// PEG request executed in a bank-era block, the refund recorded with it (and, by the history
	// replay above, credited) is floor((floor(in*src/peg) - paid) * peg / src) at the block's rates
	if h >= a.ConvLimit && h < a.V20 {
		rates := L.Rates[int64(h)]
		for _, bb := range L.B {
			if bb.exec != int64(h) || L.MixedPegBatch(bb.hash) {
				continue
			}
			for _, t := range L.T[bb.hash] {
				if t.action != 2 || t.toAsset != "PEG" {
					continue
				}
				src, peg := rates[t.fromAsset], rates["PEG"]
				if src == 0 || peg == 0 {
					continue
				}
				maxY := new(big.Int).Mul(big.NewInt(t.fromAmount), new(big.Int).SetUint64(src))
				maxY.Div(maxY, new(big.Int).SetUint64(peg))
				rest := new(big.Int).Sub(maxY, big.NewInt(t.toAmount))
				exp := new(big.Int).Mul(rest, new(big.Int).SetUint64(peg))
				exp.Div(exp, new(big.Int).SetUint64(src))
				got := new(big.Int)
				for _, o := range t.outputs {
					v, _ := new(big.Int).SetString(o[1], 10)
					got.Add(got, v)
				}
				m.rep.Count("bank:refund-checked")
				if rest.Sign() < 0 || got.Cmp(exp) != 0 {
					m.violate("bank:refund", fmt.Sprintf("PEG request %s[%d]: input %d %s, paid %d PEG of %v requested, refund recorded %v, floor((requested-paid)*%d/%d) = %v", bb.hash, t.idx, t.fromAmount, t.fromAsset, t.toAmount, maxY, got, peg, src, exp), h)
				}
			}
		}
	}
	// C16: bank rows
	if row, ok := L.Bank[int64(h)]; ok {
		if row[1] > row[0] {
			m.violate("bank:over-limit", fmt.Sprintf("bank row used %d > amount %d", row[1], row[0]), h)
		}
		if !(h >= a.V4 && h < a.V20) {
			m.violate("bank:row-offschedule", "bank row outside the era that records it", h)
		}
	}
	// "the bank ledger records the amount available, used and requested for that block": a rated
	// block of the bank-table era has its row, and the row is filled in (it is inserted with
	// -1 / -1 and completed by the bank pass) with what the block's PEG requests were paid
	if h >= a.V4 && h < a.V20 && applied && len(L.Rates[int64(h)]) > 0 {
		if row, ok := L.Bank[int64(h)]; !ok {
			m.violate("bank:row-missing", "a rated block of the bank-table era has no bank row", h)
		} else {
			var paid int64
			mixed := false
			for _, bb := range L.B {
				if bb.exec != int64(h) {
					continue
				}
				if L.MixedPegBatch(bb.hash) {
					mixed = true
				}
				for _, t := range L.T[bb.hash] {
					if t.action == 2 && t.toAsset == "PEG" {
						paid += t.toAmount
					}
				}
			}
			m.rep.Count("bank:row-checked")
			if row[1] < 0 || row[2] < 0 {
				m.violate("bank:row-not-filled", fmt.Sprintf("bank row of the block: used %d, requested %d (placeholders left)", row[1], row[2]), h)
			} else if !mixed && row[1] != paid {
				m.violate("bank:row-used", fmt.Sprintf("bank row says %d PEG used, the block's executed requests were paid %d", row[1], paid), h)
			}
		}
	}
}

// balMapDiff: first difference between two balance tables (absent = zero), "" when equal
func balMapDiff(x, y map[string]map[int]*big.Int) string {
	get := func(m map[string]map[int]*big.Int, a string, t int) *big.Int {
		if m[a] == nil || m[a][t] == nil {
			return new(big.Int)
		}
		return m[a][t]
	}
	var addrs []string
	seen := map[string]bool{}
	for _, m := range []map[string]map[int]*big.Int{x, y} {
		for a := range m {
			if !seen[a] {
				seen[a] = true
				addrs = append(addrs, a)
			}
		}
	}
	sort.Strings(addrs)
	for _, a := range addrs {
		for t := 0; t < int(fat2.PTickerMax); t++ {
			if get(x, a, t).Cmp(get(y, a, t)) != 0 {
				return fmt.Sprintf("%s %s: %v vs %v", a, fat2.PTicker(t).String(), get(x, a, t), get(y, a, t))
			}
		}
	}
	return ""
}

func (L *Ledger) batchHeight(hash string) int64 {
	for _, b := range L.B {
		if b.hash == hash {
			return b.height
		}
	}
	return -1
}

func scenLedger(rep *Report, tier string, seed int64) {
	chains := 1
	if tier == "thorough" {
		chains = 3
	}
	for c := 0; c < chains; c++ {
		runLedgerChain(rep, seed+int64(c)*7919, int(seed)+c, tier)
	}
	rep.Rule = "one evaluation = one block applied by the real daemon and the model with full dumps compared, and the executable specifications (history replay = balances, rewards vs independent grading, staking / developer / mint / burn-address schedules, conversion amounts, bank rows) evaluated on the implementation's dump; distinct = distinct (era, block shape)"
}

func runLedgerChain(rep *Report, seed int64, variant int, tier string) {
	runLedgerChainWith(rep, seed, variant, tier, nil, 292, nil)
}

// bankActs stretches the two bank eras (5,000 PEG per block, then the bank table) to 30 blocks each.
func bankActs() Acts {
	return Acts{Pegnet: 100, GradingV2: 102, TxConv: 104, PegPricing: 106, OneWayFCT: 108, ConvLimit: 112, PegFloat: 112, V4: 142, RCDE: 142,
		V20: 172, DevRewards: 176, SprSig: 176, OneWaySmall: 180, V202: 180, V204: 184, V204Burn: 188, PIP10: 192}
}

// The `bank` scenario (C16, C17, C04): the ledger chain with long bank eras, ungraded blocks every
// few heights, and in every bank-era block several conversions into PEG whose total is below,
// around and far above the bank, some of them inside mixed batches.
func scenBank(rep *Report, tier string, seed int64) {
	chains := 1
	if tier == "thorough" {
		chains = 3
	}
	for c := 0; c < chains; c++ {
		sd := seed + int64(c)*104729
		acts := bankActs()
		runLedgerChainWith(rep, sd, int(sd), tier, &acts, 176, func(w *World, b *BlockSpec) {
			a := w.S.Acts
			g := w.G
			h := b.Height
			w.NoTransferNextToRequest = true
			if h == a.Pegnet+2 {
				// deep pockets: the requests of a block can exceed the bank several thousand times
				for i, u := range g.Users {
					b.FCT = append(b.FCT, Burn(h, u.FA(), 2e13, 20+i))
				}
			}
			if h == a.TxConv+2 {
				for _, u := range g.Users {
					if u.IsE && h < a.RCDE {
						continue
					}
					b.TX = append(b.TX, g.Batch(h, u, []fat2.Transaction{Conversion(u.FA(), fat2.PTickerFCT, 1e12, fat2.PTickerUSD)}))
				}
			}
			if h < a.OneWayFCT || h >= a.V20 {
				return
			}
			if g.R.Intn(4) == 0 {
				b.OPR = nil // ungraded block: the next rated block walks a window of several heights
				w.Rep.Count("bank:ungraded")
			}
			// one tiny request per block: next to the large ones its share of the bank rounds to
			// zero and everything has to come back as a refund
			if u := g.Users[int(h)%len(g.Users)]; !(u.IsE && h < a.RCDE) {
				if bal := w.Balance(u.FA(), fat2.PTickerUSD); bal > 10 {
					b.TX = append(b.TX, g.Batch(h, u, []fat2.Transaction{Conversion(u.FA(), fat2.PTickerUSD, uint64(1+g.R.Intn(3)), fat2.PTickerPEG)}))
					w.Rep.Count("bank:dust-request")
				}
			}
			// a request that will be REJECTED when it executes: the same block also moves the
			// funds it relies on (the transfer is applied at once, the request waits)
			if g.R.Intn(3) == 0 {
				for ui, u := range g.Users {
					if u.IsE && h < a.RCDE {
						continue
					}
					if bal := w.Balance(u.FA(), fat2.PTickerFCT); bal > 1000 {
						other := g.Users[(ui+1)%len(g.Users)]
						b.TX = append(b.TX,
							g.Batch(h, u, []fat2.Transaction{Conversion(u.FA(), fat2.PTickerFCT, bal/2+1, fat2.PTickerPEG)}),
							g.Batch(h, u, []fat2.Transaction{Transfer(u.FA(), fat2.PTickerFCT, fat2.AddressAmountTuple{Address: other.FA(), Amount: bal/2 + 1})}))
						w.Rep.Count("bank:request-rejected-later")
						break
					}
				}
			}
			n := g.R.Intn(4)
			for i := 0; i < n; i++ {
				u := g.Users[g.R.Intn(len(g.Users))]
				if u.IsE && h < a.RCDE {
					continue
				}
				assets := w.NonZeroAssets(u.FA())
				var src fat2.PTicker
				for _, t := range assets {
					if t != fat2.PTickerPEG && w.Balance(u.FA(), t) > 1000 {
						src = t
						break
					}
				}
				if src == fat2.PTickerInvalid {
					continue
				}
				bal := w.Balance(u.FA(), src)
				amt := bal / uint64(2+g.R.Intn(20))
				switch g.R.Intn(4) {
				case 0:
					amt = bal / 2 // large: usually above the bank on its own
				case 1:
					amt = uint64(1 + g.R.Intn(1000)) // dust
				}
				txs := []fat2.Transaction{Conversion(u.FA(), src, amt, fat2.PTickerPEG)}
				shape := g.R.Intn(12)
				if shape == 0 && h+2 != a.V20 {
					// a transfer next to a request wedges every later rated block of the era (known
					// finding): only tried where the era ends and the batch is re-validated away
					shape = 2
				}
				if h+2 == a.V20 && i == 0 {
					shape = 0
				}
				switch shape {
				case 0: // mixed batch: a transfer and a request
					txs = append([]fat2.Transaction{Transfer(u.FA(), src, fat2.AddressAmountTuple{Address: w.someAddress(), Amount: amt / 3})}, txs...)
					w.Rep.Count("bank:mixed-transfer+request")
				case 1: // mixed batch: an ordinary conversion and a request
					to := fat2.PTickerUSD
					if src == to {
						to = fat2.PTickerEUR
					}
					txs = append([]fat2.Transaction{Conversion(u.FA(), src, amt/3, to)}, txs...)
					w.Rep.Count("bank:mixed-conversion+request")
				}
				b.TX = append(b.TX, g.Batch(h, u, txs))
				w.Rep.Count("bank:peg-request")
			}
		})
	}
	rep.Rule = "one evaluation = one block of a chain with 30-block bank eras (ungraded blocks, several PEG requests per block, under/over the bank) applied by the real daemon and the model, full dumps compared, ledger monitors (history replay = balances, bank rows, conversion amounts) on the implementation's dump; distinct = (era, block shape)"
}

func init() { scenarios["bank"] = scenBank }

// The `aligned` scenario (C15, C14): short chains in which an activation height coincides with
// the 144-block cadence, so that the one-time adjustment, the snapshot, the staking payout and
// the developer payout all fall into one block (the mainnet heights are not aligned; the
// property quantifies over every alignment).
func scenAligned(rep *Report, tier string, seed int64) {
	// the chain starts early enough for a first snapshot at 144, so that there are stakers at 288
	base := Acts{Pegnet: 120, GradingV2: 121, TxConv: 122, PegPricing: 123, OneWayFCT: 124, ConvLimit: 126, PegFloat: 126, V4: 129, RCDE: 129, V20: 132}
	variants := []func(a *Acts){
		func(a *Acts) { // 2.0.2 on the cadence
			a.DevRewards, a.SprSig, a.V202, a.OneWaySmall, a.V204, a.V204Burn, a.PIP10 = 270, 270, 288, 288, 291, 294, 297
		},
		func(a *Acts) { // developer rewards (and the old-burn zeroing) on the cadence
			a.DevRewards, a.SprSig, a.V202, a.OneWaySmall, a.V204, a.V204Burn, a.PIP10 = 288, 288, 291, 291, 294, 297, 300
		},
		func(a *Acts) { // mint on the cadence
			a.DevRewards, a.SprSig, a.V202, a.OneWaySmall, a.V204, a.V204Burn, a.PIP10 = 270, 270, 280, 280, 288, 294, 297
		},
		func(a *Acts) { // burn of the minted supply on the cadence, PIP-10 right after
			a.DevRewards, a.SprSig, a.V202, a.OneWaySmall, a.V204, a.V204Burn, a.PIP10 = 266, 266, 272, 272, 280, 288, 289
		},
	}
	n := 2
	if tier == "thorough" {
		n = len(variants)
	}
	for i := 0; i < n; i++ {
		a := base
		variants[(int(seed)-1+i)%len(variants)](&a)
		if i < 2 && tier != "thorough" {
			a = base
			variants[i](&a) // the quick tier always runs the two payout alignments
		}
		runLedgerChainWith(rep, seed+int64(i)*15485863, int(seed)+i, tier, &a, 304, func(w *World, b *BlockSpec) {
			if b.Height == 288 {
				// the aligned block itself is an ordinary well-graded block
				ver := OPRVersionAt(w.S.Acts, 288)
				b.OPR = w.G.OPRSet(288, ver, w.LastShortHashes(288), 25, w.G.Rates, nil)
				b.SPR = nil
			}
		})
	}
	rep.Rule = "one evaluation = one block of a 184-block chain (first snapshot at 144) whose developer-reward / 2.0.2 / mint / burn activation is a multiple of 144, applied by the real daemon and the model with full dumps compared and the issuance, staking and history monitors evaluated on the implementation's dump; distinct = (era, block shape)"
}

func init() { scenarios["aligned"] = scenAligned }

func runLedgerChainWith(rep *Report, seed int64, variant int, tier string, acts *Acts, last uint32, decorate func(w *World, b *BlockSpec)) {
	g := NewGen(seed, 5, 2)
	s := Setup{Acts: ledgerActs(g.R, variant), AvgPeriod: 8, SyncVersion: mainnetSyncVersion}
	if acts != nil {
		s.Acts = *acts
	}
	run, err := NewRun(s)
	if err != nil {
		rep.Note("infrastructure: %v", err)
		return
	}
	defer run.Close()
	run.FullEvery = 1
	w := &World{G: g, Run: run, S: s, Rep: rep}
	defer func() {
		if w.ro != nil {
			w.ro.Close()
		}
	}()
	mon := &ledgerMon{rep: rep, s: s, seed: seed, chain: func() []*BlockSpec { return run.Chain },
		mintHex: hexAddr(node.GlobalMintAddress), burnHex: hexAddr(node.GlobalBurnAddress), oldBurnHex: hexAddr(node.GlobalOldBurnAddress),
		devs: map[string]uint64{}}
	for _, d := range node.DeveloperRewardAddreses {
		mon.devs[hexAddr(d.DevAddress)] += uint64(d.DevRewardPct)
	}
	oldBurn, _ := factomFA(node.GlobalOldBurnAddress)
	newBurn, _ := factomFA(node.GlobalBurnAddress)
	mintA, _ := factomFA(node.GlobalMintAddress)
	prevDump, _ := DumpDB(run.D.DBPath)
	for h := s.Acts.Pegnet + 1; h <= last; h++ {
		prevWinners := w.LastShortHashes(h)
		top := w.TopPEG(100)
		b := w.BuildBlock(h)
		if decorate != nil {
			decorate(w, b)
		}
		// send funds to the special addresses now and then, so the one-time events have work to do
		if h > s.Acts.TxConv+3 && g.R.Intn(6) == 0 {
			u := g.Users[g.R.Intn(len(g.Users))]
			for _, t := range w.NonZeroAssets(u.FA()) {
				if bal := w.Balance(u.FA(), t); bal > 100 {
					dst := oldBurn
					switch g.R.Intn(3) {
					case 1:
						dst = newBurn
					case 2:
						dst = mintA
					}
					b.TX = append(b.TX, g.Batch(h, u, []fat2.Transaction{Transfer(u.FA(), t, fat2.AddressAmountTuple{Address: dst, Amount: bal / 20})}))
					break
				}
			}
		}
		// the burn address receives some of the LAST asset of the ticker list right before its
		// zeroing height (a zeroing loop that stops one short would leave it there)
		if lastT := fat2.PTickerMax - 1; h+6 >= s.Acts.V202 && h < s.Acts.V202 && h > s.Acts.TxConv+3 {
			for _, u := range g.Users {
				if u.IsE && h < s.Acts.RCDE {
					continue
				}
				if bal := w.Balance(u.FA(), lastT); bal > 0 {
					b.TX = append(b.TX, g.Batch(h, u, []fat2.Transaction{Transfer(u.FA(), lastT, fat2.AddressAmountTuple{Address: newBurn, Amount: bal})}))
					rep.Count("ledger:last-asset-to-burn-address")
				} else if bal := w.Balance(u.FA(), fat2.PTickerFCT); bal > 1e6 && h+4 <= s.Acts.V202 {
					b.TX = append(b.TX, g.Batch(h, u, []fat2.Transaction{Conversion(u.FA(), fat2.PTickerFCT, bal/40, lastT)}))
					rep.Count("ledger:conversion-into-last-asset")
				}
				break
			}
		}
		// the mint address receives some of an asset that is NOT in the mint table shortly before
		// the burn of the minted supply (which must leave it alone)
		if h+6 >= s.Acts.V204Burn && h < s.Acts.V204Burn && h > s.Acts.TxConv+3 {
			for _, u := range g.Users {
				if u.IsE && h < s.Acts.RCDE {
					continue
				}
				if bal := w.Balance(u.FA(), fat2.PTickerEUR); bal > 10 {
					b.TX = append(b.TX, g.Batch(h, u, []fat2.Transaction{Transfer(u.FA(), fat2.PTickerEUR, fat2.AddressAmountTuple{Address: mintA, Amount: bal / 5})}))
					rep.Count("ledger:unminted-asset-to-mint-address")
				} else if bal := w.Balance(u.FA(), fat2.PTickerFCT); bal > 1e6 && h+3 <= s.Acts.V204Burn {
					b.TX = append(b.TX, g.Batch(h, u, []fat2.Transaction{Conversion(u.FA(), fat2.PTickerFCT, bal/40, fat2.PTickerEUR)}))
				}
				break
			}
		}
		// an UNGRADED snapshot block in the 2.0.2 era with a conversion waiting in holding: the
		// staking payout borrows the most recent earlier rates, the held conversion must not
		if (h+1)%pegnet.SnapshotRate == 0 && h+1 >= s.Acts.V202 && variant%2 == 1 {
			for _, u := range g.Users {
				if u.IsE && h < s.Acts.RCDE {
					continue
				}
				if bal := w.Balance(u.FA(), fat2.PTickerUSD); bal > 1000 {
					b.TX = append(b.TX, g.Batch(h, u, []fat2.Transaction{Conversion(u.FA(), fat2.PTickerUSD, bal/7, fat2.PTickerEUR)}))
					rep.Count("ledger:conversion-pending-at-ungraded-snapshot")
					break
				}
			}
		}
		if h%pegnet.SnapshotRate == 0 && h >= s.Acts.V202 && variant%2 == 1 {
			b.OPR, b.SPR = nil, nil
			rep.Count("ledger:ungraded-snapshot-block")
		}
		if h == s.Acts.Pegnet+2 && variant%2 == 1 {
			// two holders with equal, very large stakes: the staking total exceeds the cap and the
			// rounding dust has to be assigned among exactly tied top stakers
			b.FCT = append(b.FCT, Burn(h, g.Users[0].FA(), 4e14, 7), Burn(h, g.Users[1].FA(), 4e14, 8))
		}
		res := run.Step(b)
		shape := fmt.Sprintf("%s|opr%d|spr%d|tx%d|fct%d|%s", eraOf(s.Acts, h), len(b.OPR), len(b.SPR), len(b.TX), len(b.FCT), res.ImplClass)
		rep.Case(shape, len(b.OPR)+len(b.SPR)+len(b.TX)+len(b.FCT) > 0)
		rep.Count("era:" + eraOf(s.Acts, h))
		rep.Count("result:" + res.ImplClass)
		rep.Traces++
		if res.Diff != "" {
			path := WriteReplay(rep.Property, "ledger", Replay{Property: rep.Property, Scenario: "ledger", Seed: seed, Setup: s,
				What: fmt.Sprintf("model and implementation disagree at height %d", h), Detail: []string{res.Diff, "impl: " + res.ImplMsg, "model: " + res.ModelAns},
				Blocks: ChainJSON(run.Chain)})
			rep.Disagree("lockstep:"+eraOf(s.Acts, h), res.Diff, path)
			// the search for a failing input goes on: the rest of the chain is applied by the
			// implementation alone and the monitors keep evaluating its dumps
			run.NoModel = true
			rep.Count("continued-without-model")
		}
		mon.avgs = nil
		if res.ImplOK && h >= s.Acts.PIP10 {
			mon.avgs = map[fat2.PTicker]uint64{}
			for k, v := range run.D.N.LastAverages {
				mon.avgs[k] = v
			}
			mon.avgsHeight = run.D.N.LastAveragesHeight
		}
		mon.check(h, b, prevDump, res.Dump, prevWinners, top, res.ImplOK)
		if !res.ImplOK {
			rep.Sample(map[string]interface{}{"height": h, "era": eraOf(s.Acts, h), "result": res.ImplClass, "msg": res.ImplMsg})
			mon.violate("liveness:"+res.ImplClass+":"+eraOf(s.Acts, h)+":"+msgSlug(res.ImplMsg), "block cannot be applied: "+res.ImplMsg, h)
			if h == s.Acts.DevRewards && h%pegnet.SnapshotRate == 0 && strings.Contains(res.ImplMsg, "pn_history_txbatch") {
				// C15, aligned configuration: the zeroing rows and the staking payout share a mock txid
				mon.violate("issuance:zeroing-txid-collides-with-staking", "developer-reward activation on a snapshot height: "+res.ImplMsg, h)
			}
			if err := run.RecoverFrom(res); err != nil {
				rep.Note("infrastructure: %v", err)
				return
			}
			run.Chain = run.Chain[:len(run.Chain)-1]
			res = run.Step(&BlockSpec{Height: h, Time: BlockTime(h)})
			if res.Diff != "" {
				rep.Disagree("lockstep:recover", fmt.Sprintf("h=%d %s %s", h, res.Diff, res.ImplMsg), "")
				return
			}
			if !res.ImplOK {
				// even an empty block cannot be applied at this height (model and implementation
				// agree): the chain is wedged for good, which the liveness violation above reports
				rep.Count("chain-wedged-for-good")
				return
			}
		}
		prevDump = res.Dump
		if h == last {
			pagingCheck(rep, run, g, s, seed)
			apiPagingCheck(rep, run, g, s, seed)
		}
		if h%61 == 0 {
			rep.Sample(map[string]interface{}{"height": h, "era": eraOf(s.Acts, h), "opr": len(b.OPR), "spr": len(b.SPR), "tx": len(b.TX), "dump_lines": len(res.Dump)})
		}
	}
}

func init() { scenarios["ledger"] = scenLedger }


// pagingCheck (C17): every recorded action is returned exactly once by the hash / address /
// height queries across pages, and the reported count equals the number of rows returned.
func pagingCheck(rep *Report, run *Run, g *Gen, s Setup, seed int64) {
	p := run.D.N.Pegnet
	type key struct {
		hash string
		idx  int
	}
	dump, _ := DumpDB(run.D.DBPath)
	L := ParseDump(dump)
	// the actions an address takes part in, from the recorded actions themselves (sender,
	// converter, payee or recipient of an output) — not from the lookup table the queries use
	involves := func(addrHex string) map[key]bool {
		out := map[key]bool{}
		for hash, ts := range L.T {
			for _, t := range ts {
				hit := t.from == addrHex
				for _, o := range t.outputs {
					if o[0] == addrHex {
						hit = true
					}
				}
				if hit {
					out[key{hash, int(t.idx)}] = true
				}
			}
		}
		return out
	}
	var expected map[key]bool
	collect := func(what string, fetch func(off int) ([]pegnet.HistoryTransaction, int, error)) {
		want := expected
		expected = nil
		seen := map[key]bool{}
		total := -1
		n := 0
		for off := 0; ; off += pegnet.QueryLimit {
			rows, count, err := fetch(off)
			if err != nil {
				if off > 0 && strings.Contains(err.Error(), "offset too big") {
					break
				}
				if off == 0 {
					return
				}
				break
			}
			if total == -1 {
				total = count
			}
			for _, r := range rows {
				k := key{r.Hash.String(), r.TxIndex}
				// "the history exposed by the API agrees with the ledger": every field of the returned
				// action equals the recorded row, whatever else is on the page
				for _, t := range L.T[k.hash] {
					if int(t.idx) != k.idx {
						continue
					}
					var outs, wantOuts []string
					for _, o := range r.Outputs {
						outs = append(outs, fmt.Sprintf("%s:%d", hx(o.Address[:]), o.Amount))
					}
					for _, o := range t.outputs {
						wantOuts = append(wantOuts, o[0]+":"+o[1])
					}
					from := ""
					if r.FromAddress != nil {
						from = hx(r.FromAddress[:])
					}
					got := fmt.Sprintf("%d|%s|%s|%d|%s|%d|%v", int(r.TxAction), from, r.FromAsset, r.FromAmount, r.ToAsset, r.ToAmount, outs)
					want := fmt.Sprintf("%d|%s|%s|%d|%s|%d|%v", t.action, t.from, t.fromAsset, t.fromAmount, t.toAsset, t.toAmount, wantOuts)
					rep.Count("paging:rows-compared")
					if got != want {
						sig := "paging:content"
						if L.MixedPegBatch(k.hash) {
							// the known double payment of batches mixing a PEG request with other
							// transactions also writes a refund output into the row of the ORDINARY
							// conversion, which the API (outputs only for transfers and PEG requests) drops
							sig += ":mixed-peg-request-batch"
						}
						rep.Violate(sig, fmt.Sprintf("%s: action %s/%d is returned as %s, the recorded row is %s", what, k.hash, k.idx, got, want), "")
					}
				}
				if seen[k] {
					rep.Violate("paging:duplicate", fmt.Sprintf("%s: action %s/%d returned twice across pages", what, k.hash, k.idx), "")
				}
				seen[k] = true
				n++
			}
			if len(rows) < pegnet.QueryLimit {
				break
			}
		}
		rep.Count("paging:queries")
		if want != nil {
			for k := range want {
				if !seen[k] {
					rep.Violate("paging:missing", fmt.Sprintf("%s: recorded action %s/%d involves the address but no page returns it", what, k.hash, k.idx), "")
					break
				}
			}
			for k := range seen {
				if !want[k] {
					rep.Violate("paging:unrelated", fmt.Sprintf("%s: action %s/%d is returned but does not involve the address", what, k.hash, k.idx), "")
					break
				}
			}
		}
		if total >= 0 && n != total {
			rep.Violate("paging:count", fmt.Sprintf("%s: count says %d, pages returned %d", what, total, n), "")
		}
	}
	for _, u := range g.Users {
		a := u.FA()
		for _, desc := range []bool{false, true} {
			d := desc
			expected = involves(hx(a[:]))
			collect("address "+a.String(), func(off int) ([]pegnet.HistoryTransaction, int, error) {
				return p.SelectTransactionHistoryActionsByAddress(&a, pegnet.HistoryQueryOptions{Offset: off, Desc: d})
			})
		}
	}
	for _, m := range g.MinerFA[:6] {
		a := m
		collect("miner "+a.String(), func(off int) ([]pegnet.HistoryTransaction, int, error) {
			return p.SelectTransactionHistoryActionsByAddress(&a, pegnet.HistoryQueryOptions{Offset: off, Coinbase: true})
		})
	}
	for h := s.Acts.Pegnet + 1; h <= s.Acts.Pegnet+160; h += 7 {
		hh := h
		collect(fmt.Sprintf("height %d", hh), func(off int) ([]pegnet.HistoryTransaction, int, error) {
			return p.SelectTransactionHistoryActionsByHeight(hh, pegnet.HistoryQueryOptions{Offset: off})
		})
	}
}

// msgSlug keeps the distinguishing tail of an error message for a signature.
func msgSlug(msg string) string {
	if i := strings.Index(msg, "failed to sync height: "); i >= 0 {
		msg = msg[i+len("failed to sync height: "):]
	} else if i := strings.LastIndex(msg, ": "); i >= 0 {
		msg = msg[i+2:]
	}
	out := []byte{}
	for _, c := range []byte(msg) {
		switch {
		case c >= 'a' && c <= 'z' || c >= 'A' && c <= 'Z':
			out = append(out, c)
		case len(out) > 0 && out[len(out)-1] != '-':
			out = append(out, '-')
		}
		if len(out) >= 48 {
			break
		}
	}
	return strings.Trim(string(out), "-")
}
