import Proofs.Holding
import Proofs.BatchLemmas
/-
  C06, chain level: an entry is executed at most once.

  `DB.execLog` is a history variable: `applyTransactionBatch` appends the entry hash every time it
  goes on to record a batch. The invariant "no hash occurs twice in the log, and every logged hash
  bears a replay mark" is preserved by every successful block — because both callers of
  `applyTransactionBatch` check `IsReplayTransaction` right before, the first recorded transaction
  of the batch writes the relation row that sets the mark, and marks are never removed.
-/
namespace Pegnet

/-- the invariant -/
def ExecOnce (s : DB) : Prop := s.execLog.Nodup ∧ ∀ x ∈ s.execLog, s.isReplay x = true

/-- successful runs relate start and end state (failed runs are rolled back with the block) -/
structure StepOk {α} (R : Rel DB) (m : LM α) : Prop where
  ok : ∀ s a s', m s = .ok a s' → R.r s s'

namespace StepOk
variable {α β : Type} {R : Rel DB}

theorem of_step {m : LM α} (h : Step R m) : StepOk R m := ⟨fun _ _ _ e => h.ok e⟩

theorem bind {m : LM α} {f : α → LM β} (hm : StepOk R m) (hf : ∀ a, StepOk R (f a)) : StepOk R (m >>= f) := by
  constructor
  intro s b s' h
  obtain ⟨a, s1, h1, h2⟩ := M.bind_ok h
  exact R.trans _ _ _ (hm.ok s a s1 h1) ((hf a).ok s1 b s' h2)

theorem pure (a : α) : StepOk R (Pure.pure a : LM α) := of_step (Step.pure a)

theorem forEach {l : List α} {f : α → LM Unit} (hf : ∀ a, StepOk R (f a)) : StepOk R (M.forEach l f) := by
  induction l with
  | nil => exact of_step (Step.pure' ())
  | cons x xs ih => exact bind (m := f x) (hf x) (fun _ => ih)

theorem foldM {f : β → α → LM β} {l : List α} {b : β} (hf : ∀ b a, StepOk R (f b a)) : StepOk R (M.foldM f b l) := by
  induction l generalizing b with
  | nil => exact of_step (Step.pure' b)
  | cons x xs ih => exact bind (m := f b x) (hf b x) (fun b' => ih)

end StepOk

def execRel : Rel DB := invRel ExecOnce

/-- marks only grow and the log is kept: what every primitive and every component outside the two
    callers of `applyTransactionBatch` does -/
def keepLogGrowRels : Rel DB where
  r s s' := s'.execLog = s.execLog ∧ ∀ x, s.isReplay x = true → s'.isReplay x = true
  refl _ := ⟨rfl, fun _ h => h⟩
  trans _ _ _ h1 h2 := ⟨h2.1.trans h1.1, fun x hx => h2.2 x (h1.2 x hx)⟩

theorem execOnce_of_keep {s s' : DB} (h : keepLogGrowRels.r s s') (hi : ExecOnce s) : ExecOnce s' := by
  obtain ⟨hl, hr⟩ := h
  refine ⟨by rw [hl]; exact hi.1, fun x hx => ?_⟩
  rw [hl] at hx
  exact hr x (hi.2 x hx)

theorem klgr_keep (s s' : DB) (e1 : s'.execLog = s.execLog) (e2 : s'.rels = s.rels) : keepLogGrowRels.r s s' :=
  ⟨e1, fun x hx => by unfold DB.isReplay at *; rw [e2]; exact hx⟩

theorem primsOK_klgr (P : Params) (h : Nat) : PrimsOK P h keepLogGrowRels where
  addBal _ _ _ := Step.guarded (fun s => klgr_keep _ _ rfl rfl)
  subBal a t v _ := subBal_step_of P a t v (Step.guarded (fun s => klgr_keep _ _ rfl rfl)) (Step.guarded (fun s => klgr_keep _ _ rfl rfl))
  insertRate _ _ := Step.guarded (fun s => klgr_keep _ _ rfl rfl)
  insertHistBatch _ := Step.guarded (fun s => klgr_keep _ _ rfl rfl)
  insertHistTx _ _ := Step.guarded (fun s => klgr_keep _ _ rfl rfl)
  insertLookup _ := Step.guarded (fun s => by split <;> exact klgr_keep _ _ rfl rfl)
  setExecuted _ _ := Step.guarded (fun s => klgr_keep _ _ rfl rfl)
  setConvertedAmount _ _ _ := Step.guarded (fun s => klgr_keep _ _ rfl rfl)
  setPegConverted _ _ _ _ := Step.guarded (fun s => klgr_keep _ _ rfl rfl)
  insertRelation hash a i t c := Step.guarded (fun s => by
    split
    · exact klgr_keep _ _ rfl rfl
    · refine ⟨rfl, fun x hx => ?_⟩
      unfold DB.isReplay at *
      simp only [List.any_append, hx, Bool.true_or])
  insertHolding _ _ _ := Step.guarded (fun s => klgr_keep _ _ rfl rfl)
  insertBank _ := Step.guarded (fun s => klgr_keep _ _ rfl rfl)
  updateBank _ _ _ := Step.guarded (fun s => klgr_keep _ _ rfl rfl)
  insertGrade _ _ _ _ _ := Step.guarded (fun s => klgr_keep _ _ rfl rfl)
  insertWinner _ _ _ _ _ := Step.guarded (fun s => klgr_keep _ _ rfl rfl)
  markSynced _ := Step.guarded (fun s => klgr_keep _ _ rfl rfl)
  rotate := Step.guarded (fun s => klgr_keep _ _ rfl rfl)
  touch := Step.guarded (fun s => klgr_keep _ _ rfl rfl)

/-- a component that keeps the log and only adds marks preserves the invariant -/
theorem stepOk_of_klgr {α} {m : LM α} (h : Step keepLogGrowRels m) : StepOk execRel m :=
  ⟨fun _ _ _ e hi => execOnce_of_keep (h.ok e) hi⟩

section
variable {P : Params} {h : Nat}

/-- recording a non-empty batch keeps the log, keeps the marks and marks its own hash -/
theorem recordBatch_marks_keeps {hash : Hash} {rates avgs : Option TMap} {t0 : Tx} {rest : List Tx} {s s' : DB}
    (hr : recordBatch P h hash rates avgs (t0 :: rest) s = .ok () s') :
    keepLogGrowRels.r s s' ∧ s'.isReplay hash = true :=
  ⟨(recordBatch_step (primsOK_klgr P h) hash rates avgs (t0 :: rest)).ok hr, recordBatch_marks hr⟩

/-- `applyTransactionBatch` on an entry that bears no mark yet -/
theorem applyBatch_execOnce {e : TxEntry} {rates avgs : Option TMap} {s s' : DB} {v : Verdict}
    (hne : e.txs ≠ []) (hnr : s.isReplay e.hash = false) (hi : ExecOnce s)
    (hr : applyBatch P h e rates avgs s = .ok v s') : ExecOnce s' := by
  unfold applyBatch at hr
  rw [M.bind_run] at hr
  simp only [M.get_run] at hr
  cases hver : verdict P s h rates avgs e.txs with
  | apply =>
    rw [hver] at hr
    simp only [M.bind_run, logExec, M.guarded] at hr
    cases hrec : recordBatch P h e.hash rates avgs e.txs { s with execLog := s.execLog ++ [e.hash] } with
    | fail f s2 => rw [hrec] at hr; cases hr
    | ok u s2 =>
      rw [hrec] at hr
      simp only [M.pure_run] at hr
      injection hr with _ hs
      subst hs
      cases htx : e.txs with
      | nil => exact absurd htx hne
      | cons t0 rest =>
        rw [htx] at hrec
        obtain ⟨⟨hl, hg⟩, hm⟩ := recordBatch_marks_keeps hrec
        refine ⟨?_, fun x hx => ?_⟩
        · rw [hl]
          show (s.execLog ++ [e.hash]).Nodup
          rw [List.nodup_append]
          refine ⟨hi.1, by simp, ?_⟩
          intro a ha b hb hab
          simp only [List.mem_singleton] at hb
          rw [hb] at hab
          rw [hab] at ha
          have := hi.2 e.hash ha
          rw [hnr] at this
          cases this
        · rw [hl] at hx
          have hx' : x ∈ s.execLog ++ [e.hash] := hx
          rcases List.mem_append.1 hx' with hx' | hx'
          · exact hg x (hi.2 x hx')
          · simp only [List.mem_singleton] at hx'
            subst hx'
            exact hm
  | reject c => rw [hver] at hr; simp only [M.pure_run] at hr; injection hr with _ hs; subst hs; exact hi
  | dropped => rw [hver] at hr; simp only [M.pure_run] at hr; injection hr with _ hs; subst hs; exact hi
  | failBlock f => rw [hver] at hr; simp only [M.throw_run] at hr; cases hr

end


section
variable {P : Params} {h : Nat}

/-- recording the arrival of an entry touches neither the relation table nor the log -/
theorem recordHistory_keeps (bo : Nat) (e : TxEntry) :
    Step (keepRel (fun s : DB => (s.rels, s.execLog))) (recordHistory P h bo e) := by
  have p4 : ∀ r, Step (keepRel (fun s : DB => (s.rels, s.execLog))) (insertHistBatch r) := fun r => Step.guarded (fun _ => rfl)
  have p5 : ∀ r, Step (keepRel (fun s : DB => (s.rels, s.execLog))) (insertHistTx r) := fun r => Step.guarded (fun _ => rfl)
  have p6 : ∀ r, Step (keepRel (fun s : DB => (s.rels, s.execLog))) (insertLookup r) :=
    fun r => Step.guarded (fun s => by simp only [keepRel]; split <;> rfl)
  unfold recordHistory; step_tac

theorem execOnce_of_same {s s' : DB} (e : (s'.rels, s'.execLog) = (s.rels, s.execLog)) (hi : ExecOnce s) : ExecOnce s' := by
  simp only [Prod.mk.injEq] at e
  exact execOnce_of_keep (klgr_keep s s' e.2 e.1) hi

/-- one entry of the transaction chain -/
theorem applyTxEntry_execOnce (keymr : String) (bo : Nat) (e : TxEntry) :
    StepOk execRel (applyTxEntry P h keymr bo e) := by
  constructor
  intro s a s' hr hi
  unfold applyTxEntry at hr
  rw [M.bind_run] at hr
  simp only [M.get_run] at hr
  by_cases hc : (e.validAt P h && !s.isReplay e.hash && !s.isRecorded e.hash) = true
  · rw [if_pos hc] at hr
    simp only [Bool.and_eq_true, Bool.not_eq_true'] at hc
    obtain ⟨⟨hval, hnr⟩, _⟩ := hc
    obtain ⟨_, s1, h1, h2⟩ := M.bind_ok hr
    have hk := (recordHistory_keeps (P := P) (h := h) bo e).ok h1
    have hi1 : ExecOnce s1 := execOnce_of_same hk hi
    have hnr1 : s1.isReplay e.hash = false := by
      simp only [keepRel, Prod.mk.injEq] at hk
      unfold DB.isReplay at *
      rw [hk.1]; exact hnr
    by_cases hconv : e.hasConversions P = true
    · rw [if_pos hconv] at h2
      exact execOnce_of_keep (((primsOK_klgr P h).insertHolding e keymr trivial).ok h2) hi1
    · rw [if_neg hconv] at h2
      obtain ⟨v, s2, h3, h4⟩ := M.bind_ok h2
      have hi2 := applyBatch_execOnce (validAt_txs_ne_nil hval) hnr1 hi1 h3
      split at h4
      · exact execOnce_of_keep (((primsOK_klgr P h).setExecuted _ _).ok h4) hi2
      · cases h4
      · simp only [M.pure_run] at h4; injection h4 with _ hs; subst hs; exact hi2
  · rw [if_neg hc] at hr
    simp only [M.pure_run] at hr
    injection hr with _ hs; subst hs; exact hi

/-- one held batch -/
theorem applyHeld_execOnce (rates avgs : TMap) (e : TxEntry) : StepOk execRel (applyHeld P h rates avgs e) := by
  constructor
  intro s j s' hr hi
  unfold applyHeld at hr
  rw [M.bind_run] at hr
  simp only [M.get_run] at hr
  by_cases hc : ((decide (h ≥ P.act.v20) && !e.validPegTx P) || !e.validAt P h) = true
  · rw [if_pos hc] at hr
    obtain ⟨_, s1, h1, h2⟩ := M.bind_ok hr
    simp only [M.pure_run] at h2
    injection h2 with _ hs; subst hs
    exact execOnce_of_keep (((primsOK_klgr P h).setExecuted _ _).ok h1) hi
  · rw [if_neg hc] at hr
    have hval : e.validAt P h = true := by
      cases hv : e.validAt P h with
      | true => rfl
      | false => simp [hv] at hc
    by_cases hrp : s.isReplay e.hash = true
    · rw [if_pos hrp] at hr
      simp only [M.pure_run] at hr
      injection hr with _ hs; subst hs; exact hi
    · rw [if_neg hrp] at hr
      have hnr : s.isReplay e.hash = false := by simpa using hrp
      obtain ⟨v, s1, h1, h2⟩ := M.bind_ok hr
      have hi1 := applyBatch_execOnce (validAt_txs_ne_nil hval) hnr hi h1
      cases v with
      | reject c =>
        simp only at h2
        obtain ⟨_, s2, h3, h4⟩ := M.bind_ok h2
        simp only [M.pure_run] at h4
        injection h4 with _ hs; subst hs
        exact execOnce_of_keep (((primsOK_klgr P h).setExecuted _ _).ok h3) hi1
      | apply => simp only [M.pure_run] at h2; injection h2 with _ hs; subst hs; exact hi1
      | dropped => simp only [M.pure_run] at h2; injection h2 with _ hs; subst hs; exact hi1
      | failBlock f => simp only [M.pure_run] at h2; injection h2 with _ hs; subst hs; exact hi1

end


namespace StepOk
variable {α β : Type} {R : Rel DB}
theorem pure' (a : α) : StepOk R (M.pure a : LM α) := of_step (Step.pure' a)
theorem get : StepOk R (M.get : LM DB) := of_step Step.get
theorem throw (e : Failure) : StepOk R (M.throw e : LM α) := of_step (Step.throw e)
theorem forEachIdx {l : List α} {f : Nat → α → LM Unit} (hf : ∀ i a, StepOk R (f i a)) :
    StepOk R (M.forEachIdx l f) := forEach (fun p => hf p.2 p.1)
end StepOk

/-- decompose a `StepOk R prog` goal along the structure of `prog` -/
syntax "stepok_tac" : tactic
macro_rules
  | `(tactic| stepok_tac) => `(tactic|
    repeat (first
      | with_reducible exact StepOk.pure _
      | with_reducible exact StepOk.pure' _
      | with_reducible exact StepOk.throw _
      | with_reducible exact StepOk.get
      | with_reducible assumption
      | apply_hyp
      | with_reducible apply StepOk.forEach
      | with_reducible apply StepOk.forEachIdx
      | with_reducible apply StepOk.foldM
      | with_reducible apply StepOk.bind
      | intro _
      | dsimp only
      | split))

section
variable {P : Params} (c : DB) (b : Block) (avgs : TMap)

theorem applyTransactionBlock_execOnce (h : Nat) (keymr : String) (es : List TxEntry) :
    StepOk execRel (applyTransactionBlock P h keymr es) := by
  unfold applyTransactionBlock
  exact StepOk.forEachIdx (fun i e => applyTxEntry_execOnce keymr i e)

theorem applyHolding_execOnce (h : Nat) (rates avgs : TMap) (fromH : Nat) :
    StepOk execRel (applyHolding P c h rates avgs fromH) := by
  have c1 := fun e => applyHeld_execOnce (P := P) (h := h) rates avgs e
  have c2 := fun bs bank bh => stepOk_of_klgr (recordPegRequests_step (primsOK_klgr P h) rates avgs bs bank bh)
  unfold applyHolding; stepok_tac

theorem holdingPhase_execOnce (ra : Bool) : StepOk execRel (holdingPhase P c b avgs ra) := by
  have c1 := fun a => stepOk_of_klgr ((primsOK_klgr P b.height).insertBank a)
  have c2 := stepOk_of_klgr (primsOK_klgr P b.height).touch
  have c3 := fun rates fromH => applyHolding_execOnce (P := P) c b.height rates avgs fromH
  unfold holdingPhase; stepok_tac

theorem txBlockPhase_execOnce : StepOk execRel (txBlockPhase P b) := by
  have c1 := fun keymr es => applyTransactionBlock_execOnce (P := P) b.height keymr es
  unfold txBlockPhase; stepok_tac

theorem txPhase_execOnce (ra : Bool) : StepOk execRel (txPhase P c b avgs ra) := by
  have c1 := stepOk_of_klgr (snapshotPhase_step (P := P) b (primsOK_klgr P b.height))
  have c2 := holdingPhase_execOnce (P := P) c b avgs
  have c3 := txBlockPhase_execOnce (P := P) b
  unfold txPhase; stepok_tac

theorem preAdjust_klgr : Step keepLogGrowRels (preAdjust P c b.height) := by
  have c2 := mintTokens_step (primsOK_klgr P b.height)
  have c3 := nullifyMinted_step (primsOK_klgr P b.height) c
  unfold preAdjust; step_tac

theorem burnZeroing_klgr : Step keepLogGrowRels (burnZeroing P c b) := by
  have c3 := nullifyBurn_step (primsOK_klgr P b.height) c
  unfold burnZeroing; step_tac

theorem syncBlock_execOnce : StepOk execRel (syncBlock P c b avgs) := by
  have c1 := stepOk_of_klgr (gradeAndRates_step c b (primsOK_klgr P b.height))
  have c2 := stepOk_of_klgr (preAdjust_klgr (P := P) c b)
  have c3 := stepOk_of_klgr (sprPanicCheck_step (P := P) b (primsOK_klgr P b.height))
  have c4 := txPhase_execOnce (P := P) c b avgs
  have c5 := stepOk_of_klgr (rewardPhase_step b (primsOK_klgr P b.height))
  unfold syncBlock; stepok_tac

/-- a block that commits preserves the invariant -/
theorem blockTx_execOnce : StepOk execRel (blockTx P c b avgs) := by
  have c1 := syncBlock_execOnce (P := P) c b avgs
  have c2 := stepOk_of_klgr (burnZeroing_klgr (P := P) c b)
  have c3 := fun v => stepOk_of_klgr ((primsOK_klgr P b.height).markSynced v)
  unfold blockTx; stepok_tac

end


/-! ### chain level -/

theorem execOnce_congr {s s' : DB} (e1 : s'.execLog = s.execLog) (e2 : s'.rels = s.rels) (hi : ExecOnce s) : ExecOnce s' :=
  execOnce_of_keep (klgr_keep s s' e1 e2) hi

/-- one iteration of the sync loop, committed or rolled back -/
theorem applyBlock_execOnce (P : Params) (n : Node) (b : Block) (hi : ExecOnce n.db) :
    ExecOnce (applyBlock P n b).1.db := by
  unfold applyBlock
  dsimp only
  split
  · rename_i u db' hr
    have := (blockTx_execOnce (P := P) _ b _).ok _ _ _ hr (execOnce_congr (s := n.db) rfl rfl hi)
    exact execOnce_congr (s := db') rfl rfl this
  · exact hi

theorem runBlocks_execOnce (P : Params) (n : Node) (chain : List Block) (hi : ExecOnce n.db) :
    ExecOnce (runBlocks P n chain).db := by
  induction chain generalizing n with
  | nil => exact hi
  | cons b bs ih => exact ih _ (applyBlock_execOnce P n b hi)

theorem execOnce_fresh (P : Params) : ExecOnce (freshNode P).db :=
  ⟨List.nodup_nil, fun _ hx => by cases hx⟩

end Pegnet
