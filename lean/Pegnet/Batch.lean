import Pegnet.DB
/-
  fat2 validation (on decoded batches) and node/sync.go: applyTransactionBatch, recordBatch,
  recordPegnetRequests.
-/
namespace Pegnet

/-! ### fat2.Transaction / TransactionBatch -/

def Tx.isConversion (P : Params) (t : Tx) : Bool :=
  t.transfers.isEmpty && decide (0 < t.conversion) && decide (t.conversion < P.tickerMax)

def Tx.isPEGRequest (t : Tx) : Bool := t.transfers.isEmpty && t.conversion == tPEG

/-- the subtract-with-check loop of `Transaction.Validate` -/
def remainingAfter : Nat → List Transfer → Option Nat
  | r, [] => some r
  | r, tr :: rest => if r < tr.amount then none else remainingAfter (r - tr.amount) rest

/-- `Transaction.Validate() == nil` -/
def Tx.valid (P : Params) (t : Tx) : Bool :=
  if t.inAddr == P.coinbaseAddr then false
  else if t.inAddr == P.zeroAddr && t.inAmount == 0 && t.inType == 0 then false
  else if t.transfers.isEmpty && t.conversion == 0 then false
  else if !t.transfers.isEmpty && decide (0 < t.conversion) then false
  else match remainingAfter t.inAmount t.transfers with
    | none => false
    | some rem =>
      if !t.isConversion P && rem != 0 then false
      else if t.isConversion P && t.inType == t.conversion then false
      else true

/-- `TransactionBatch.ValidData() == nil` -/
def validData (P : Params) (version : Nat) (txs : List Tx) : Bool :=
  version == 1 && !txs.isEmpty && txs.all (·.valid P) &&
    (match txs with
     | [] => false
     | t :: rest => rest.all (·.inAddr == t.inAddr))

/-- signature verdict under the flag set in force at height `h` (`ValidExtIDs`). -/
def TxEntry.sigOK (P : Params) (e : TxEntry) (h : Nat) : Bool :=
  if h > P.act.rcde then e.validRCDe else e.validRCD1

/-- `TransactionBatch.Validate(h) == nil` on a decoded batch. -/
def TxEntry.validAt (P : Params) (e : TxEntry) (h : Nat) : Bool :=
  match e.parsed with
  | none => false
  | some (v, txs) => validData P v txs && e.sigOK P h && txs.all (fun t => decide (t.inAmount ≤ maxInt64))

/-- `TransactionBatch.ValidatePegTx(h) == nil` -/
def TxEntry.validPegTx (P : Params) (e : TxEntry) : Bool :=
  match e.parsed with
  | none => false
  | some (v, txs) => validData P v txs && txs.all (fun t => t.conversion != tPEG)

def TxEntry.txs (e : TxEntry) : List Tx :=
  match e.parsed with
  | none => []
  | some (_, txs) => txs

def TxEntry.hasConversions (P : Params) (e : TxEntry) : Bool := e.txs.any (·.isConversion P)
def TxEntry.hasPEGRequest (e : TxEntry) : Bool := e.txs.any (·.isPEGRequest)

/-! ### applyTransactionBatch -/

/-- outcome of the in-memory checks of `applyTransactionBatch` -/
inductive Verdict where
  | apply                      -- both passes fine: recordBatch runs
  | reject (code : Int)        -- a tolerated reject error (−1, −3, −4, −5)
  | dropped                    -- Convert error in pass 1: `return nil`, nothing happens
  | failBlock (e : Failure)    -- any other error
  deriving Repr, DecidableEq

/-- per-transaction checks of the first loop; `none` = passes. -/
def pass1Tx (P : Params) (h : Nat) (bal : Ticker → Int) (rates avgs : Option TMap) (t : Tx) : Option Verdict :=
  if (t.inAmount : Int) > bal t.inType then some (.reject (-1))
  else if t.isConversion P then
    match rates with
    | none => some (.failBlock (.uncaught "rates must exist if TransactionBatch contains conversions"))
    | some r =>
      if r.isEmpty then some (.failBlock (.uncaught "rates must exist if TransactionBatch contains conversions"))
      else if r.get t.inType = 0 ∨ r.get t.conversion = 0 then some (.reject (-4))
      else if h ≥ P.act.oneWayFCT ∧ t.conversion = tFCT then some (.reject (-3))
      else if h ≥ P.act.oneWaySmall ∧ P.oneWaySet.contains t.conversion then some (.reject (-5))
      else
        let a := avgs.getD []
        match convert P.act.pip10 h (toInt64 t.inAmount) (r.get t.inType) (a.get t.inType) (r.get t.conversion) (a.get t.conversion) with
        | none => some .dropped
        | some _ => none
  else none

def pass1 (P : Params) (h : Nat) (bal : Ticker → Int) (rates avgs : Option TMap) : List Tx → Option Verdict
  | [] => none
  | t :: rest =>
    match pass1Tx P h bal rates avgs t with
    | some v => some v
    | none => pass1 P h bal rates avgs rest

/-- the cumulative second loop over the in-memory balance map of the (single) input address. -/
def pass2 (P : Params) (h : Nat) (rates avgs : Option TMap) : (Ticker → Int) → List Tx → Option Verdict
  | _, [] => none
  | bal, t :: rest =>
    if bal t.inType < (t.inAmount : Int) then some (.reject (-1))
    else if t.isConversion P then
      let r := rates.getD []
      let a := avgs.getD []
      match convert P.act.pip10 h (toInt64 t.inAmount) (r.get t.inType) (a.get t.inType) (r.get t.conversion) (a.get t.conversion) with
      | none => some (.failBlock (.uncaught "convert"))
      | some out =>
        let b1 : Ticker → Int := fun x => if x = t.inType then bal x - t.inAmount else bal x
        -- a PEG output deferred to the second pass is not spendable by the batch itself
        let deferred : Bool := decide (h ≥ P.act.convLimit) && t.isPEGRequest
        let b2 : Ticker → Int := fun x => if x = t.conversion ∧ !deferred then b1 x + out else b1 x
        pass2 P h rates avgs b2 rest
    else
      let back : Int := ((t.transfers.filter (·.addr == t.inAddr)).map (fun tr => (tr.amount : Int))).sum
      let b1 : Ticker → Int := fun x => if x = t.inType then bal x - t.inAmount + back else bal x
      pass2 P h rates avgs b1 rest

def verdict (P : Params) (db : DB) (h : Nat) (rates avgs : Option TMap) (txs : List Tx) : Verdict :=
  match txs with
  | [] => .apply
  | t0 :: _ =>
    let bal := db.balances t0.inAddr
    match pass1 P h bal rates avgs txs with
    | some v => v
    | none =>
      match pass2 P h rates avgs bal txs with
      | some v => v
      | none => .apply

/-- canonical rendering of a history `outputs` JSON list -/
def renderOutputs (l : List (Addr × Int)) : String :=
  "[" ++ ",".intercalate (l.map (fun p => p.1 ++ ":" ++ toString p.2)) ++ "]"

/-- the burn address `recordBatch` compares transfer outputs with -/
def burnAddrAt (P : Params) (h : Nat) : Addr := if h ≥ P.act.v202 then P.burnAddr else P.zeroAddr

/-- the output side of one recorded transaction (sync.go:1151-1206) -/
def recordOutputs (P : Params) (h : Nat) (hash : Hash) (rates avgs : Option TMap) (idx : Nat) (t : Tx) : LM Unit :=
  let r := rates.getD []
  let a := avgs.getD []
  if h ≥ P.act.convLimit ∧ t.isPEGRequest then
    match convert P.act.pip10 h (toInt64 t.inAmount) (r.get t.inType) (a.get t.inType) (r.get t.conversion) (a.get t.conversion) with
    | none => M.throw (.uncaught "convert")
    | some _ => pure ()
  else if t.isConversion P then
    match convert P.act.pip10 h (toInt64 t.inAmount) (r.get t.inType) (a.get t.inType) (r.get t.conversion) (a.get t.conversion) with
    | none => M.throw (.uncaught "convert")
    | some out => do
      setConvertedAmount hash idx out
      addBal P t.inAddr t.conversion out.toNat
  else
    M.forEach t.transfers fun tr =>
      if tr.addr == burnAddrAt P h then pure () else do
        addBal P tr.addr t.inType tr.amount
        insertRelation hash tr.addr idx true false

def recordTx (P : Params) (h : Nat) (hash : Hash) (rates avgs : Option TMap) (idx : Nat) (t : Tx) : LM Unit := do
  let ok ← subBal P t.inAddr t.inType t.inAmount
  if !ok then M.throw (.uncaught "insufficient balance")
  else do
    insertRelation hash t.inAddr idx false (t.isConversion P)
    setExecuted hash h
    recordOutputs P h hash rates avgs idx t

def recordBatch (P : Params) (h : Nat) (hash : Hash) (rates avgs : Option TMap) (txs : List Tx) : LM Unit :=
  M.forEachIdx txs (recordTx P h hash rates avgs)

/-- history variable only: this execution of the batch is noted -/
abbrev logExec (hash : Hash) : LM Unit :=
  M.guarded (fun _ => none) fun db => { db with execLog := db.execLog ++ [hash] }

/-- `applyTransactionBatch`: returns the verdict; on `.apply` the batch has been recorded. -/
def applyBatch (P : Params) (h : Nat) (e : TxEntry) (rates avgs : Option TMap) : LM Verdict := do
  let db ← M.get
  match verdict P db h rates avgs e.txs with
  | .apply => do logExec e.hash; recordBatch P h e.hash rates avgs e.txs; pure .apply
  | .failBlock f => M.throw f
  | v => pure v

/-! ### recordPegnetRequests (bank era) -/

structure PegReq where
  key : TxKey
  tx : Tx
  requested : Nat
  deriving Repr

/-- every transaction of every batch handed to `recordPegnetRequests` (the code does not filter
    on `IsPEGRequest`). -/
def pegRequests (P : Params) (h : Nat) (rates avgs : TMap) (batches : List TxEntry) : List PegReq :=
  batches.flatMap fun e =>
    e.txs.zipIdx.map fun p =>
      let t := p.1
      let amt := convertD P.act.pip10 h (toInt64 t.inAmount) (rates.get t.inType) (avgs.get t.inType) (rates.get t.conversion) (avgs.get t.conversion)
      { key := { idx := p.2, hash := e.hash }, tx := t, requested := amt.toNat }

def hasDupKey : List TxKey → Bool
  | [] => false
  | k :: ks => ks.contains k || hasDupKey ks

def payPegReq (P : Params) (h : Nat) (rates : TMap) (r : PegReq) (pegYield : Nat) : LM Unit := do
  let t := r.tx
  let refundAmt := refund P.act.pip10 h (toInt64 t.inAmount) (toInt64 pegYield) (rates.get t.inType) (rates.get t.conversion)
  setPegConverted r.key.hash r.key.idx (toInt64 pegYield) (renderOutputs [(t.inAddr, refundAmt)])
  addBal P t.inAddr t.conversion pegYield
  addBal P t.inAddr t.inType (refundAmt.toNat)

def recordPegRequests (P : Params) (h : Nat) (rates avgs : TMap) (batches : List TxEntry)
    (bank : Nat) (bankHeight : Int) : LM Unit := do
  let reqs := pegRequests P h rates avgs batches
  if hasDupKey (reqs.map (·.key)) then M.throw (.uncaught "txid already exists in the this set")
  let pays := payouts bank (reqs.map fun r => (r.key, r.requested))
  M.forEach (reqs.zip pays) fun rp => payPegReq P h rates rp.1 rp.2.2
  let totalPaid : Int := (pays.map (fun p => toInt64 p.2)).sum
  if bankHeight ≥ (P.act.v4 : Int) then
    updateBank bankHeight totalPaid (toInt64 (totalRequested (reqs.map fun r => (r.key, r.requested))))
  else pure ()

end Pegnet
