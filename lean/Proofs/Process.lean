import Proofs.AvgIrrelevant
import Proofs.Holding
/-
  The daemon as a process (DBlockSync loop, node/sync.go:52-144; start-up, node/node.go:44-64)
  at block granularity. One event is
    * an iteration of the loop that runs to its end (commit, or rollback of a failing block),
    * an iteration that is cut short before COMMIT — by an injected fault (a failed upstream
      request or SQL statement) or by a kill: nothing is committed (SQLite's atomicity is assumed),
      the in-memory averaging cache may or may not have been advanced,
    * a restart: the process state is rebuilt from the database (`restart`).
  The block attempted is always the one at height `Sync.Synced + 1` of the chain.
-/
namespace Pegnet

inductive Ev where
  | attempt
  | aborted (touched : Bool)
  | restart
  deriving Repr, DecidableEq

/-- the cache after `GetPegNetRateAverages` ran for block `b` -/
def touchCache (P : Params) (n : Node) (b : Block) : AvgCache :=
  (getAverages P { n.db with avgTouched := false } n.cache
    (({ n.db with avgTouched := false } : DB).mostRecentRatesBefore b.height).2).1

def stepEv (P : Params) (ch : Nat → Block) (n : Node) : Ev → Node
  | .attempt => (applyBlock P n (ch (n.mem + 1))).1
  | .aborted t => if t then { n with cache := touchCache P n (ch (n.mem + 1)) } else n
  | .restart => restart P n

def runEvs (P : Params) (ch : Nat → Block) (n : Node) (es : List Ev) : Node := es.foldl (stepEv P ch) n

def Ev.isAborted : Ev → Bool
  | .aborted _ => true
  | _ => false

/-- every height attempted along the run is below the PIP-10 activation -/
def BelowPip10 (P : Params) (ch : Nat → Block) : Node → List Ev → Prop
  | _, [] => True
  | n, e :: es => n.mem + 1 < P.act.pip10 ∧ BelowPip10 P ch (stepEv P ch n e) es

/-! ### in-memory height -/

theorem applyBlock_mem (P : Params) (n : Node) (b : Block) :
    (applyBlock P n b).1.mem = if (applyBlock P n b).2 = none then b.height else n.mem := by
  unfold applyBlock
  simp only
  split <;> simp

/-! ### C10: aborted iterations leave no trace (below PIP-10) -/

/-- Erasing every aborted iteration from a run changes neither the database nor the sync height:
    once the fault clears, the daemon reaches exactly the state of the fault-free run. -/
theorem aborted_erasable (P : Params) (ch : Nat → Block) (hch : ∀ h, (ch h).height = h)
    (es : List Ev) (n₁ n₂ : Node) (hdb : n₁.db = n₂.db) (hmem : n₁.mem = n₂.mem)
    (hb : BelowPip10 P ch n₁ es) :
    (runEvs P ch n₁ es).db = (runEvs P ch n₂ (es.filter (fun e => !e.isAborted))).db ∧
    (runEvs P ch n₁ es).mem = (runEvs P ch n₂ (es.filter (fun e => !e.isAborted))).mem := by
  induction es generalizing n₁ n₂ with
  | nil => exact ⟨hdb, hmem⟩
  | cons e rest ih =>
    obtain ⟨hlt, hb'⟩ := hb
    cases e with
    | attempt =>
      have hf : (Ev.attempt :: rest).filter (fun e => !e.isAborted) = Ev.attempt :: rest.filter (fun e => !e.isAborted) := rfl
      rw [hf]
      show (runEvs P ch (stepEv P ch n₁ .attempt) rest).db = (runEvs P ch (stepEv P ch n₂ .attempt) _).db ∧
           (runEvs P ch (stepEv P ch n₁ .attempt) rest).mem = (runEvs P ch (stepEv P ch n₂ .attempt) _).mem
      have hblk : (ch (n₁.mem + 1)).height < P.act.pip10 := by rw [hch]; exact hlt
      have hci := applyBlock_cache_irrelevant (P := P) n₁ n₂ (ch (n₁.mem + 1)) hdb hblk
      have hm1 := applyBlock_mem P n₁ (ch (n₁.mem + 1))
      have hm2 := applyBlock_mem P n₂ (ch (n₁.mem + 1))
      have e1 : stepEv P ch n₁ .attempt = (applyBlock P n₁ (ch (n₁.mem + 1))).1 := rfl
      have e2 : stepEv P ch n₂ .attempt = (applyBlock P n₂ (ch (n₁.mem + 1))).1 := by simp only [stepEv, hmem]
      apply ih
      · rw [e1, e2]; exact hci.1
      · rw [e1, e2, hm1, hm2, hci.2, hmem]
      · exact hb'
    | aborted t =>
      have hf : (Ev.aborted t :: rest).filter (fun e => !e.isAborted) = rest.filter (fun e => !e.isAborted) := rfl
      rw [hf]
      show (runEvs P ch (stepEv P ch n₁ (.aborted t)) rest).db = _ ∧ (runEvs P ch (stepEv P ch n₁ (.aborted t)) rest).mem = _
      apply ih
      · simp only [stepEv]; split <;> exact hdb
      · simp only [stepEv]; split <;> exact hmem
      · exact hb'
    | restart =>
      have hf : (Ev.restart :: rest).filter (fun e => !e.isAborted) = Ev.restart :: rest.filter (fun e => !e.isAborted) := rfl
      rw [hf]
      show (runEvs P ch (stepEv P ch n₁ .restart) rest).db = (runEvs P ch (stepEv P ch n₂ .restart) _).db ∧
           (runEvs P ch (stepEv P ch n₁ .restart) rest).mem = (runEvs P ch (stepEv P ch n₂ .restart) _).mem
      apply ih
      · simp only [stepEv, restart, hdb]
      · simp only [stepEv, restart, hdb]
      · exact hb'

/-! ### C02: heights are applied once each, in order, without gaps -/

/-- the version-table relation of a block at height `h`: rows are only appended, every appended
    row is a row of height `h`, and heights stay unique (PRIMARY KEY) -/
def svAt (h : Nat) : Rel DB where
  r s s' := (∃ extra, s'.syncVersions = s.syncVersions ++ extra ∧ ∀ r ∈ extra, r.1 = h) ∧
            ((s.syncVersions.map (·.1)).Nodup → (s'.syncVersions.map (·.1)).Nodup) ∧
            (s'.synced = s.synced ∨ s'.synced = some h)
  refl s := ⟨⟨[], by simp, by simp⟩, id, Or.inl rfl⟩
  trans a b c h1 h2 := by
    obtain ⟨⟨e1, he1, ha1⟩, hn1, hs1⟩ := h1
    obtain ⟨⟨e2, he2, ha2⟩, hn2, hs2⟩ := h2
    refine ⟨⟨e1 ++ e2, by rw [he2, he1, List.append_assoc], ?_⟩, fun hn => hn2 (hn1 hn), ?_⟩
    · intro r hr
      rcases List.mem_append.1 hr with hr | hr
      · exact ha1 r hr
      · exact ha2 r hr
    · rcases hs2 with hs2 | hs2
      · rw [hs2]; exact hs1
      · exact Or.inr hs2

theorem svAt_keep (h : Nat) (s s' : DB) (e : s'.syncVersions = s.syncVersions) (e2 : s'.synced = s.synced) :
    (svAt h).r s s' :=
  ⟨⟨[], by rw [e]; simp, by simp⟩, fun hn => by rw [e]; exact hn, Or.inl e2⟩

theorem guarded_keep2 {R : Rel DB} {β γ : Type} (f : DB → β) (f2 : DB → γ)
    (hkeep : ∀ s s', f s' = f s → f2 s' = f2 s → R.r s s')
    {g : DB → Option Failure} {u : DB → DB} (hu : ∀ s, f (u s) = f s) (hu2 : ∀ s, f2 (u s) = f2 s) :
    Step R (M.guarded g u) :=
  Step.guarded (fun s => hkeep s (u s) (hu s) (hu2 s))

theorem primsOK_svAt (P : Params) (h : Nat) : PrimsOK P h (svAt h) where
  addBal _ _ _ := guarded_keep2 (·.syncVersions) (·.synced) (svAt_keep h) (fun _ => rfl) (fun _ => rfl)
  subBal a t v _ := subBal_step_of P a t v
    (guarded_keep2 (·.syncVersions) (·.synced) (svAt_keep h) (fun _ => rfl) (fun _ => rfl))
    (guarded_keep2 (·.syncVersions) (·.synced) (svAt_keep h) (fun _ => rfl) (fun _ => rfl))
  insertRate _ _ := guarded_keep2 (·.syncVersions) (·.synced) (svAt_keep h) (fun _ => rfl) (fun _ => rfl)
  insertHistBatch _ := guarded_keep2 (·.syncVersions) (·.synced) (svAt_keep h) (fun _ => rfl) (fun _ => rfl)
  insertHistTx _ _ := guarded_keep2 (·.syncVersions) (·.synced) (svAt_keep h) (fun _ => rfl) (fun _ => rfl)
  insertLookup _ := guarded_keep2 (·.syncVersions) (·.synced) (svAt_keep h) (fun s => by split <;> rfl) (fun s => by split <;> rfl)
  setExecuted _ _ := guarded_keep2 (·.syncVersions) (·.synced) (svAt_keep h) (fun _ => rfl) (fun _ => rfl)
  setConvertedAmount _ _ _ := guarded_keep2 (·.syncVersions) (·.synced) (svAt_keep h) (fun _ => rfl) (fun _ => rfl)
  setPegConverted _ _ _ _ := guarded_keep2 (·.syncVersions) (·.synced) (svAt_keep h) (fun _ => rfl) (fun _ => rfl)
  insertRelation _ _ _ _ _ := guarded_keep2 (·.syncVersions) (·.synced) (svAt_keep h) (fun s => by split <;> rfl) (fun s => by split <;> rfl)
  insertHolding _ _ _ := guarded_keep2 (·.syncVersions) (·.synced) (svAt_keep h) (fun _ => rfl) (fun _ => rfl)
  insertBank _ := guarded_keep2 (·.syncVersions) (·.synced) (svAt_keep h) (fun _ => rfl) (fun _ => rfl)
  updateBank _ _ _ := guarded_keep2 (·.syncVersions) (·.synced) (svAt_keep h) (fun _ => rfl) (fun _ => rfl)
  insertGrade _ _ _ _ _ := guarded_keep2 (·.syncVersions) (·.synced) (svAt_keep h) (fun _ => rfl) (fun _ => rfl)
  insertWinner _ _ _ _ _ := guarded_keep2 (·.syncVersions) (·.synced) (svAt_keep h) (fun _ => rfl) (fun _ => rfl)
  markSynced v := by
    constructor
    intro s
    unfold markSynced M.guarded
    simp only
    split
    · exact (svAt h).refl s
    · rename_i hg
      have hno : s.syncVersions.any (·.1 == h) = false := by
        cases hany : s.syncVersions.any (·.1 == h) with
        | true => simp [hany] at hg
        | false => rfl
      refine ⟨⟨[(h, v)], rfl, by simp⟩, fun hn => ?_, Or.inr rfl⟩
      show ((s.syncVersions ++ [(h, v)]).map (·.1)).Nodup
      rw [List.map_append, List.nodup_append]
      refine ⟨hn, by simp, ?_⟩
      intro a ha b hb
      simp only [List.map_cons, List.map_nil, List.mem_singleton] at hb
      subst hb
      intro hab
      subst hab
      obtain ⟨r, hr, hra⟩ := List.mem_map.1 ha
      have : s.syncVersions.any (·.1 == r.1) = true := List.any_eq_true.2 ⟨r, hr, by simp⟩
      rw [hra, hno] at this
      cases this
  rotate := guarded_keep2 (·.syncVersions) (·.synced) (svAt_keep h) (fun _ => rfl) (fun _ => rfl)
  touch := guarded_keep2 (·.syncVersions) (·.synced) (svAt_keep h) (fun _ => rfl) (fun _ => rfl)

end Pegnet

namespace Pegnet

/-! ### the block transaction appends exactly its own version row -/

theorem same_height_nodup_le_one (h : Nat) : ∀ (l : VRows), (∀ r ∈ l, r.1 = h) → (l.map (·.1)).Nodup → l.length ≤ 1
  | [], _, _ => by simp
  | [_], _, _ => by simp
  | a :: b :: rest, hall, hn => by
    exfalso
    have ha := hall a (by simp)
    have hb := hall b (by simp)
    simp only [List.map_cons, List.nodup_cons, List.mem_cons] at hn
    exact hn.1 (Or.inl (by rw [ha, hb]))

theorem blockTx_commit {P : Params} {c : DB} {b : Block} {avgs : TMap} {s s' : DB}
    (hs : blockTx P c b avgs s = .ok () s') :
    s'.synced = some b.height ∧ (b.height, P.syncVersion) ∈ s'.syncVersions := by
  unfold blockTx at hs
  obtain ⟨_, s1, _, hs⟩ := M.bind_ok hs
  obtain ⟨_, s2, _, hs⟩ := M.bind_ok hs
  unfold markSynced M.guarded at hs
  split at hs
  · cases hs
  · injection hs with _ hs
    subst hs
    exact ⟨rfl, by simp⟩

/-- A committed block adds exactly one version row, its own, and records its own height. -/
theorem blockTx_sv {P : Params} {c : DB} {b : Block} {avgs : TMap} {s s' : DB}
    (hs : blockTx P c b avgs s = .ok () s')
    (hn : (s.syncVersions.map (·.1)).Nodup) (hnew : ∀ r ∈ s.syncVersions, r.1 ≠ b.height) :
    s'.syncVersions = s.syncVersions ++ [(b.height, P.syncVersion)] ∧ s'.synced = some b.height ∧
    (s'.syncVersions.map (·.1)).Nodup := by
  obtain ⟨⟨extra, hext, hall⟩, hnd, _⟩ := (blockTx_step (P := P) c b avgs (primsOK_svAt P b.height)
    (fun _ => Step.guarded (fun s => svAt_keep b.height s _ rfl rfl))).ok hs
  obtain ⟨hsy, hmem⟩ := blockTx_commit hs
  have hnd' := hnd hn
  rw [hext] at hmem hnd'
  have hin : (b.height, P.syncVersion) ∈ extra := by
    rcases List.mem_append.1 hmem with hm | hm
    · exact absurd rfl (hnew _ hm)
    · exact hm
  have hex_nd : (extra.map (·.1)).Nodup := by
    rw [List.map_append] at hnd'
    exact (List.nodup_append.1 hnd').2.1
  have hlen := same_height_nodup_le_one b.height extra hall hex_nd
  have hex : extra = [(b.height, P.syncVersion)] := by
    cases extra with
    | nil => cases hin
    | cons x xs =>
      cases xs with
      | nil => simp only [List.mem_singleton] at hin; rw [hin]
      | cons _ _ => simp at hlen
  rw [hex] at hext hnd'
  exact ⟨hext, hsy, by rw [hext]; exact hnd'⟩

/-! ### the invariant -/

def heightsAbove (lo : Nat) (rows : VRows) : List Nat := (rows.filter (fun r => decide (r.1 > lo))).map (·.1)

/-- "heights are applied once each, in order, without gaps": above the height `lo` the process
    started from, the version table lists exactly `lo+1, lo+2, …, Synced`, in this order, each
    once; the recorded sync height is the in-memory one; no row is above it. -/
structure InOrder (P : Params) (lo : Nat) (n : Node) : Prop where
  mem_ge : lo ≤ n.mem
  synced : n.db.synced.getD P.act.pegnet = n.mem
  rows_le : ∀ r ∈ n.db.syncVersions, r.1 ≤ n.mem
  nodup : (n.db.syncVersions.map (·.1)).Nodup
  rows : heightsAbove lo n.db.syncVersions = List.range' (lo + 1) (n.mem - lo)

theorem inOrder_start (P : Params) (n : Node) (hs : n.db.synced.getD P.act.pegnet = n.mem)
    (hle : ∀ r ∈ n.db.syncVersions, r.1 ≤ n.mem) (hn : (n.db.syncVersions.map (·.1)).Nodup) :
    InOrder P n.mem n where
  mem_ge := Nat.le_refl _
  synced := hs
  rows_le := hle
  nodup := hn
  rows := by
    have : n.db.syncVersions.filter (fun r => decide (r.1 > n.mem)) = [] := by
      apply List.filter_eq_nil_iff.2
      intro r hr
      have := hle r hr
      simp; omega
    simp [heightsAbove, this]

theorem inOrder_fresh (P : Params) : InOrder P (freshNode P).mem (freshNode P) :=
  inOrder_start P (freshNode P) rfl (fun r hr => by cases hr) List.nodup_nil

theorem heightsAbove_mem {lo : Nat} {rows : VRows} {k : Nat} (h : k ∈ heightsAbove lo rows) :
    rows.any (·.1 == k) = true := by
  unfold heightsAbove at h
  obtain ⟨r, hr, hk⟩ := List.mem_map.1 h
  exact List.any_eq_true.2 ⟨r, (List.mem_filter.1 hr).1, by simp [hk]⟩

theorem backfill_fold_inv (lo s : Nat) (L : List Nat) (hL : ∀ k, lo < k → k ≤ s → k ∈ L) :
    ∀ (forks : List (Nat × Int)) (rows : VRows),
      (∀ r ∈ rows, r.1 ≤ s) → (rows.map (·.1)).Nodup → heightsAbove lo rows = L →
      let rows' := forks.foldl (fun r f => if s ≥ f.1 then markIgnoringConflict r f.1 (-1) else r) rows
      (∀ r ∈ rows', r.1 ≤ s) ∧ (rows'.map (·.1)).Nodup ∧ heightsAbove lo rows' = L
  | [], rows, h1, h2, h3 => ⟨h1, h2, h3⟩
  | f :: fs, rows, h1, h2, h3 => by
    simp only [List.foldl_cons]
    by_cases hf : s ≥ f.1
    · rw [if_pos hf]
      unfold markIgnoringConflict
      by_cases hany : rows.any (·.1 == f.1) = true
      · rw [if_pos hany]
        exact backfill_fold_inv lo s L hL fs rows h1 h2 h3
      · rw [if_neg hany]
        have hnot : ∀ r ∈ rows, r.1 ≠ f.1 := by
          intro r hr he
          exact hany (List.any_eq_true.2 ⟨r, hr, by simp [he]⟩)
        have hflo : f.1 ≤ lo := by
          by_cases hc : f.1 ≤ lo
          · exact hc
          · exfalso
            have hin := hL f.1 (by omega) hf
            rw [← h3] at hin
            exact hany (heightsAbove_mem hin)
        apply backfill_fold_inv lo s L hL fs
        · intro r hr
          rcases List.mem_append.1 hr with hr | hr
          · exact h1 r hr
          · simp only [List.mem_singleton] at hr; subst hr; exact hf
        · rw [List.map_append, List.nodup_append]
          refine ⟨h2, by simp, ?_⟩
          intro a ha b hb
          simp only [List.map_cons, List.map_nil, List.mem_singleton] at hb
          subst hb
          obtain ⟨r, hr, hra⟩ := List.mem_map.1 ha
          intro hab
          exact hnot r hr (by rw [hra, hab])
        · unfold heightsAbove at h3 ⊢
          rw [List.filter_append, List.map_append, h3]
          have : ([(f.1, (-1 : Int))] : VRows).filter (fun r => decide (r.1 > lo)) = [] := by
            simp; omega
          rw [this]; simp
    · rw [if_neg hf]
      exact backfill_fold_inv lo s L hL fs rows h1 h2 h3

theorem inOrder_restart {P : Params} {lo : Nat} {n : Node} (h : InOrder P lo n) : InOrder P lo (restart P n) := by
  have hmem : (restart P n).mem = n.mem := h.synced
  have hsy : (restart P n).db.synced = n.db.synced := rfl
  have hsv : (restart P n).db.syncVersions = backfill P.forks n.db.synced n.db.syncVersions := rfl
  have key : (∀ r ∈ backfill P.forks n.db.synced n.db.syncVersions, r.1 ≤ n.mem) ∧
      ((backfill P.forks n.db.synced n.db.syncVersions).map (·.1)).Nodup ∧
      heightsAbove lo (backfill P.forks n.db.synced n.db.syncVersions) = List.range' (lo + 1) (n.mem - lo) := by
    unfold backfill
    cases hs : n.db.synced with
    | none => exact ⟨h.rows_le, h.nodup, h.rows⟩
    | some s =>
      have hsm : s = n.mem := by have := h.synced; rw [hs] at this; exact this
      simp only
      split
      · subst hsm
        apply backfill_fold_inv lo n.mem (List.range' (lo + 1) (n.mem - lo)) _ P.forks _ h.rows_le h.nodup h.rows
        intro k h1 h2
        rw [List.mem_range'_1]; omega
      · exact ⟨h.rows_le, h.nodup, h.rows⟩
  exact {
    mem_ge := by rw [hmem]; exact h.mem_ge
    synced := by rw [hsy, hmem]; exact h.synced
    rows_le := by rw [hsv, hmem]; exact key.1
    nodup := by rw [hsv]; exact key.2.1
    rows := by rw [hsv, hmem]; exact key.2.2 }

theorem inOrder_attempt {P : Params} {lo : Nat} {n : Node} (b : Block) (hb : b.height = n.mem + 1)
    (h : InOrder P lo n) : InOrder P lo (applyBlock P n b).1 := by
  unfold applyBlock
  simp only
  split
  · rename_i u s' hs
    have hnew : ∀ r ∈ ({ n.db with avgTouched := false } : DB).syncVersions, r.1 ≠ b.height := by
      intro r hr
      have := h.rows_le r hr
      omega
    obtain ⟨hsv, hsy, hnd⟩ := blockTx_sv hs h.nodup hnew
    exact {
      mem_ge := by show lo ≤ b.height; have := h.mem_ge; omega
      synced := by show (s'.synced).getD _ = b.height; rw [hsy]; rfl
      rows_le := by
        show ∀ r ∈ s'.syncVersions, r.1 ≤ b.height
        rw [hsv]
        intro r hr
        rcases List.mem_append.1 hr with hr | hr
        · have := h.rows_le r hr; omega
        · simp only [List.mem_singleton] at hr; subst hr; exact Nat.le_refl _
      nodup := hnd
      rows := by
        show heightsAbove lo s'.syncVersions = List.range' (lo + 1) (b.height - lo)
        rw [hsv]
        unfold heightsAbove
        rw [List.filter_append, List.map_append]
        have hr := h.rows
        unfold heightsAbove at hr
        show _ ++ _ = _
        have e1 : (List.filter (fun r => decide (r.1 > lo)) ({ n.db with avgTouched := false } : DB).syncVersions).map (·.1)
            = List.range' (lo + 1) (n.mem - lo) := hr
        rw [e1]
        have hgt : b.height > lo := by have := h.mem_ge; omega
        have e2 : ([(b.height, P.syncVersion)] : VRows).filter (fun r => decide (r.1 > lo)) = [(b.height, P.syncVersion)] := by
          simp; exact hgt
        rw [e2]
        have e3 : b.height - lo = (n.mem - lo) + 1 := by have := h.mem_ge; omega
        rw [e3, List.range'_concat]
        simp only [List.map_cons, List.map_nil, Nat.one_mul]
        congr 2
        have := h.mem_ge
        omega }
  · exact { mem_ge := h.mem_ge, synced := h.synced, rows_le := h.rows_le, nodup := h.nodup, rows := h.rows }

/-- **Heights are applied once each, in order, without gaps** — along every run of the process,
    whatever faults, kills and restarts it contains and whatever the blocks contain. -/
theorem runEvs_inOrder (P : Params) (ch : Nat → Block) (hch : ∀ h, (ch h).height = h) (lo : Nat)
    (es : List Ev) (n : Node) (h : InOrder P lo n) : InOrder P lo (runEvs P ch n es) := by
  induction es generalizing n with
  | nil => exact h
  | cons e rest ih =>
    show InOrder P lo (runEvs P ch (stepEv P ch n e) rest)
    apply ih
    cases e with
    | attempt => exact inOrder_attempt (ch (n.mem + 1)) (hch _) h
    | aborted t =>
      simp only [stepEv]
      split
      · exact { mem_ge := h.mem_ge, synced := h.synced, rows_le := h.rows_le, nodup := h.nodup, rows := h.rows }
      · exact h
    | restart => exact inOrder_restart h

end Pegnet

namespace Pegnet

/-! ### C10 at every height: a propagated fault leaves no trace

  An iteration that is cut short can only have advanced the averaging cache if the complete
  iteration would have reached `GetPegNetRateAverages` too (up to the fault the two executions
  are the same). With that, aborted iterations can be erased at EVERY height: the retry finds
  the cache already at the height it asks for and gets the same averages. -/

/-- the complete iteration for block `b` reaches `ApplyTransactionBatchesInHolding` -/
def touches (P : Params) (n : Node) (b : Block) : Bool :=
  let c : DB := { n.db with avgTouched := false }
  (blockTx P c b (getAverages P c n.cache (c.mostRecentRatesBefore b.height).2).2 c).state.avgTouched

/-- runs in which an aborted iteration claims a cache update only where that is possible -/
def ValidRun (P : Params) (ch : Nat → Block) : Node → List Ev → Prop
  | _, [] => True
  | n, e :: es => (e = .aborted true → touches P n (ch (n.mem + 1)) = true) ∧ ValidRun P ch (stepEv P ch n e) es

theorem getAverages_idem (P : Params) (db : DB) (c : AvgCache) (h : Nat) :
    getAverages P db (getAverages P db c h).1 h = getAverages P db c h := by
  unfold getAverages
  by_cases hc : c.height = h
  · simp [hc]
  · simp [hc]

/-- node equality up to a cache that has (legitimately) been advanced for the next block -/
def AheadOf (P : Params) (ch : Nat → Block) (n₁ n₂ : Node) : Prop :=
  n₁.db = n₂.db ∧ n₁.mem = n₂.mem ∧
  (n₁.cache = n₂.cache ∨
   (n₁.cache = touchCache P n₂ (ch (n₂.mem + 1)) ∧ touches P n₂ (ch (n₂.mem + 1)) = true))

theorem node_ext {n₁ n₂ : Node} (h1 : n₁.db = n₂.db) (h2 : n₁.mem = n₂.mem) (h3 : n₁.cache = n₂.cache) : n₁ = n₂ := by
  cases n₁; cases n₂; simp_all

theorem applyBlock_ahead (P : Params) (n₁ n₂ : Node) (b : Block) (hdb : n₁.db = n₂.db) (hmem : n₁.mem = n₂.mem)
    (hc : n₁.cache = touchCache P n₂ b) (ht : touches P n₂ b = true) :
    applyBlock P n₁ b = applyBlock P n₂ b := by
  unfold applyBlock
  unfold touchCache at hc
  unfold touches at ht
  simp only [hdb, hc, hmem] at ht ⊢
  rw [getAverages_idem]
  generalize getAverages P _ n₂.cache _ = g at ht ⊢
  cases hb : blockTx P { n₂.db with avgTouched := false } b g.2 { n₂.db with avgTouched := false } with
  | ok u s' =>
    rw [hb] at ht
    simp only [Res.state] at ht
    simp only [ht, if_true]
  | fail e s' =>
    rw [hb] at ht
    simp only [Res.state] at ht
    simp only [ht, if_true]

theorem touchCache_congr (P : Params) (n₁ n₂ : Node) (b : Block) (hdb : n₁.db = n₂.db) (hc : n₁.cache = n₂.cache) :
    touchCache P n₁ b = touchCache P n₂ b := by
  unfold touchCache; rw [hdb, hc]

theorem touches_congr (P : Params) (n₁ n₂ : Node) (b : Block) (hdb : n₁.db = n₂.db) (hc : n₁.cache = n₂.cache) :
    touches P n₁ b = touches P n₂ b := by
  unfold touches; rw [hdb, hc]

/-- **Fault transparency (propagated faults), every height.** Erasing the aborted iterations
    from any valid run changes neither the database nor the sync height. -/
theorem aborted_erasable_all (P : Params) (ch : Nat → Block)
    (es : List Ev) (n₁ n₂ : Node) (ha : AheadOf P ch n₁ n₂) (hv : ValidRun P ch n₁ es) :
    (runEvs P ch n₁ es).db = (runEvs P ch n₂ (es.filter (fun e => !e.isAborted))).db ∧
    (runEvs P ch n₁ es).mem = (runEvs P ch n₂ (es.filter (fun e => !e.isAborted))).mem := by
  induction es generalizing n₁ n₂ with
  | nil => exact ⟨ha.1, ha.2.1⟩
  | cons e rest ih =>
    obtain ⟨hdb, hmem, hcache⟩ := ha
    obtain ⟨hve, hv'⟩ := hv
    cases e with
    | attempt =>
      have hf : (Ev.attempt :: rest).filter (fun e => !e.isAborted) = Ev.attempt :: rest.filter (fun e => !e.isAborted) := rfl
      rw [hf]
      show (runEvs P ch (stepEv P ch n₁ .attempt) rest).db = (runEvs P ch (stepEv P ch n₂ .attempt) _).db ∧
           (runEvs P ch (stepEv P ch n₁ .attempt) rest).mem = (runEvs P ch (stepEv P ch n₂ .attempt) _).mem
      have heq : stepEv P ch n₁ .attempt = stepEv P ch n₂ .attempt := by
        simp only [stepEv, hmem]
        rcases hcache with hc | ⟨hc, ht⟩
        · rw [node_ext hdb hmem hc]
        · rw [applyBlock_ahead P n₁ n₂ _ hdb hmem hc ht]
      apply ih
      · rw [heq]; exact ⟨rfl, rfl, Or.inl rfl⟩
      · exact hv'
    | aborted t =>
      have hf : (Ev.aborted t :: rest).filter (fun e => !e.isAborted) = rest.filter (fun e => !e.isAborted) := rfl
      rw [hf]
      show (runEvs P ch (stepEv P ch n₁ (.aborted t)) rest).db = _ ∧ (runEvs P ch (stepEv P ch n₁ (.aborted t)) rest).mem = _
      apply ih _ _ _ hv'
      cases t with
      | false => exact ⟨hdb, hmem, hcache⟩
      | true =>
        simp only [stepEv, if_true]
        refine ⟨hdb, hmem, Or.inr ?_⟩
        have htouch := hve rfl
        rcases hcache with hc | ⟨hc, ht⟩
        · rw [hmem] at htouch ⊢
          exact ⟨touchCache_congr P n₁ n₂ _ hdb hc, by rw [← touches_congr P n₁ n₂ _ hdb hc]; exact htouch⟩
        · refine ⟨?_, ht⟩
          rw [hmem]
          show touchCache P n₁ _ = touchCache P n₂ _
          unfold touchCache at hc ⊢
          rw [hdb, hc, getAverages_idem]
    | restart =>
      have hf : (Ev.restart :: rest).filter (fun e => !e.isAborted) = Ev.restart :: rest.filter (fun e => !e.isAborted) := rfl
      rw [hf]
      show (runEvs P ch (stepEv P ch n₁ .restart) rest).db = (runEvs P ch (stepEv P ch n₂ .restart) _).db ∧
           (runEvs P ch (stepEv P ch n₁ .restart) rest).mem = (runEvs P ch (stepEv P ch n₂ .restart) _).mem
      have heq : stepEv P ch n₁ .restart = stepEv P ch n₂ .restart := by
        simp only [stepEv, restart, hdb]
      apply ih
      · rw [heq]; exact ⟨rfl, rfl, Or.inl rfl⟩
      · exact hv'

end Pegnet
