import Pegnet.Basic
/-
  cmd/util.go FactoidToFactoshi, and (below) the FAT-2 JSON acceptance over a token tree.
-/
namespace Pegnet

def allDigits (s : String) : Bool := s.toList.all Char.isDigit

/-- numeric core of `cmd.FactoidToFactoshi` once the string has been split into a whole part
    (value `whole`; `strconv.ParseUint` fails above 2^64-1) and `fracLen` fraction digits of value
    `frac`: `none` = the Go function returns an error. -/
def amountCore (whole frac fracLen : Nat) : Option Nat :=
  if whole > maxUint64 then none
  else if whole > maxUint64 / 100000000 then none
  else if fracLen > 8 then none
  else
    let total := whole * 100000000
    let f := frac * 100000000 / (10 ^ fracLen)
    if total + f > maxUint64 then none else some (total + f)

/-- `cmd.FactoidToFactoshi`: `none` = error returned. -/
def factoidToFactoshi (s : String) : Option Nat :=
  let parts := s.splitOn "."
  match parts with
  | [w] =>
    if allDigits w then amountCore (w.toNat?.getD 0) 0 0 else none
  | [w, f] =>
    if !(allDigits w) || f.isEmpty || !(allDigits f) then none
    else amountCore (w.toNat?.getD 0) (f.toNat?.getD 0) f.length
  | _ => none

namespace Codec
def runLine (_toks : List String) : String := "unimplemented"
end Codec

end Pegnet
