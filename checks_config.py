# Per-property configuration of ./check: which correspondence scenarios run, which monitor
# signatures belong to the property, what is assumed. MANIFEST.json is generated from this file
# by ./gen_manifest.py.

COMMON_TRUSTED = [
    "extractor /verif/extract (go/ast; regenerates lean/Pegnet/Generated/Facts.lean and facts.json from /repo on every run)",
    "correspondence harness /verif/harness (differential run of the real Go code and the Lean model's executable definitions; spec monitors on the implementation's dumps)",
]
SQLITE = "SQLite: a committed sql.Tx is atomic and durable, a rolled-back or killed one leaves no effect, pool connections read committed state only"
ORACLES = "grading libraries, LXR hash, fat103/ed25519/secp256k1 signature checks, encoding/json and the Factom binary formats are outside the model (their answers enter as arbitrary oracle values)"

CHECKS = {
    "C01": {
        "scenarios": [{"name": "replaymp"}, {"name": "payouts"}, {"name": "general", "tier": "thorough"}],
        "accept": ["replay:", "payouts:nondeterministic"],
        "technique": "Lean: for EVERY permutation of the map iteration order the staking order (hence every payout txid and the dust) and ConversionSupplySet.Payouts (amount per txid, dust receiver) are the same (Proofs/OrderFree: insertion sort by (stake,address) is a function of the multiset; the least txid under SortTxIDS is unique); regenerated list of every map range / sort / clock read in the sync path; kernel-checked witness that untied staking order mattered (repaired). Tie: N independent OS processes replay one tie-laden chain whose conversions are priced with binding rolling averages, plus one replay computed by two processes in turn; dumps compared; Payouts evaluated repeatedly on one request set; reference run in lock-step with the model",
        "assumptions": [ORACLES, "multiFetch's worker interleaving is not modelled (entries are stored by index)"],
        "design_ref": "DESIGN.md §7 C01",
    },
    "C02": {
        "scenarios": [{"name": "crash"}, {"name": "restart"}],
        "accept": ["crash:", "replay:", "restart:"],
        "technique": "Lean: the daemon as a process (Proofs/Process, NonInterference): along EVERY run of completed iterations, iterations cut short before COMMIT and restarts, heights are applied once each, in order, without gaps (InOrder invariant); cut-short iterations leave no trace at any height; every kill and restart can be erased without changing the ledger or the sync height — below PIP-10 unconditionally, above it on runs whose averaging windows have no hole (resume_equals_uninterrupted_whole_windows) (relational program logic: nothing but the final bump reads pn_sync_version); block all-or-nothing; regenerated fact that no sync-path write uses the pool. Tie: real SIGKILL of a child daemon before every kind of SQL statement / COMMIT / after COMMIT, and before COMMIT of a snapshot block on a 40 000-holder ledger (pages spilled) under the daemon's own journal configuration; reopen, integrity check, compare with the reference ledger, resume; single statements of a block transaction (first / last write, a random one, COMMIT) failing once instead of a kill, resumed ledger (one version row per height) compared; clean restarts after single heights and random sets of heights of a chain that runs past PIP-10 with moving prices and ungraded blocks (the averages cache is process state: C09's scenario), ledger compared with the continuous run",
        "assumptions": [SQLITE],
        "design_ref": "DESIGN.md §7 C02",
    },
    "C03": {
        "scenarios": [{"name": "admission"}, {"name": "bank"}, {"name": "general", "tier": "thorough"}],
        "accept": ["batch:", "nonneg:", "history-replay:balances-differ", "transfer:", "bank:refund", "liveness:uncaught"],
        "technique": "Lean: balance-table invariant lifted through the whole block transaction and every chain; rejected batch = no state change; precheck_sound: if the cumulative in-memory pass accepts a batch, recordBatch never meets an insufficient balance (exact point-wise effect of every write on the input address, by induction over the batch, PEG requests deferred); accepted batch passed the funds check. Tie: bank-era chains with requests that are rejected when they execute; applyTransactionBatch (hook) on random 1-4 transaction batches and on change-output batches (spends relying on an output back to the input address, at / below / above what is left) vs the model and the cumulative funds rule; transfers whose outputs wrap uint64; lock-step chains; conservation monitor on executed transfers",
        "assumptions": ["per-asset column sums stay below 2^63 (no check in the code; SQLite would switch to REAL)"],
        "design_ref": "DESIGN.md §7 C03",
    },
    "C04": {
        "scenarios": [{"name": "ledger"}, {"name": "bank"}],
        "accept": ["history-replay:", "nonneg:", "conversion:amount:pip10", "transfer:", "rewards:burn"],
        "technique": "Lean: AddToBalance/SubFromBalance change the column sum by exactly their amount; a transfer changes its asset's supply by minus what went to the burn address and nothing else; exact effect on EVERY (address, asset) cell of an executed batch (transfers with change outputs, ordinary conversions, bank-era requests: batchDelta), of the bank pass (yield + refund per request), of FCT burns, miner / staking-record rewards, developer rewards and the mint — nobody else's balance moves. Tie: era-crossing lock-step chain; monitor recomputes every balance from the recorded history + scheduled adjustments after every block",
        "assumptions": [ORACLES, "block-level sum of all event kinds is checked by the monitor, proved only per event kind (transfer, rejected batch)"],
        "design_ref": "DESIGN.md §7 C04",
    },
    "C05": {
        "scenarios": [{"name": "sigmut"}, {"name": "dups"}],
        "accept": ["sigmut:", "liveness:", "dups:"],
        "technique": "Lean: rcde_keys_activate_with_v4 (regenerated constants: fat2 accepts RCD-e keys from the V4 OPR update); Lean: debit_needs_signature for one block and every chain — a balance of address a can only decrease if a is the input address of a batch (in the block or in holding) that passes Validate at that height, or a special address at its adjustment height (structural theorem with call-site obligations, Proofs/Auth); invalid entry inert on arrival and from holding; key type selected strictly above its activation; single input address; int64 bound. Tie: one validly signed transfer plus hundreds of mutants per key type and era, lock-step, executions counted (incl. batches naming another address as input of their first / last / middle / only transaction under the signer's signature alone); repetition patterns followed by a valid entry",
        "assumptions": [ORACLES, "signature soundness (a verdict bit implies the key holder signed) is assumed of fat103 / the crypto libraries"],
        "design_ref": "DESIGN.md §7 C05",
    },
    "C06": {
        "scenarios": [{"name": "dups"}, {"name": "bank"}, {"name": "ledger"}],
        "accept": ["dups:", "holding:passed-over", "history-replay:balances-differ:bank-", "conversion:executed-without-rates"],
        "technique": "Lean: execution marks the entry hash, the mark is permanent over every chain (relation rows only grow: invariant lifted through the whole block), marked or already-recorded entries are skipped, holding window visits strictly earlier heights; block-level 'at least once': every batch held in the window of a rated block gets a status / replay mark / dropped in that block (history variable statusLog, lifted through the whole block transaction). Tie: repetition patterns synced with and without the duplicates, lock-step with the model",
        "assumptions": [ORACLES],
        "design_ref": "DESIGN.md §7 C06",
    },
    "C07": {
        "scenarios": [{"name": "convert"}, {"name": "ledger"}, {"name": "avgwindow"}],
        "accept": ["convert:", "conversion:", "holding:passed-over"],
        "technique": "Lean: priced_with_the_window_mean — along every in-order chain whose averaging windows have no hole the average a block is priced with is, per asset, the mean of the rate table's quotes over the height window ending at the last rated height before it (0 when too few are non-zero), whichever path of GetPegNetRateAverages produced it; Lean: Convert succeeds iff its guards hold and then returns floor(amt*src/dst) within int64, src=min/dst=max under PIP-10, value non-increasing, all reject cases; a held conversion is dealt with by the first rated block after it (block-level theorem). Tie: conversions.Convert on edge/random inputs vs the model; chains with graded/ungraded patterns, recorded to_amount vs recorded rates, never executed in the submitting block; PIP-10 chains with short and zero-heavy averaging windows (averages taken at the last rated height, amounts = floor(in*min/max))",
        "assumptions": ["big.Int arithmetic modelled by Int/Nat"],
        "design_ref": "DESIGN.md §7 C07",
    },
    "C08": {
        "scenarios": [{"name": "malformed"}, {"name": "dups"}, {"name": "snapshots"}, {"name": "avgwindow"}, {"name": "general", "tier": "thorough"}],
        "accept": ["liveness:", "dups:"],
        "technique": "Lean: every model function total (termination checked), staking glue never panics, repeated entry hashes are skipped, an empty block always applies; entries that do not validate are skipped (a whole entry block of them is a no-op); transfer_entry_never_fails: no transfer-only entry (any shape, funded or not) can fail its step of ApplyTransactionBlock — recorded, then applied or rejected (block_total_partial for the transfer class); HistOK (every history row belongs to a recorded batch) along every chain, HoldOK (every held entry is recorded) likewise; hence after ANY chain no entry block of the transaction chain can fail on arrival — invalid entries are skipped, conversion entries recorded and held, transfer-only entries applied or rejected (harmless_tx_block_never_fails_after_any_chain, every_entry_is_harmless); executing a held batch of any kind never fails when the block has rates (held_batch_execution_never_fails: applied / rejected with a status / dropped / skipped); regenerated swallow/pool-read lists. Tie: blocks with malformed / oversized / truncated / duplicated entries on all three chains on reachable ledgers, real grader libraries, lock-step; well-formed batches built to overdraw through a change output; snapshot heights whose rate set has holes (held assets or pUSD recorded at 0); each block must apply",
        "assumptions": [ORACLES, "a panic inside the grading libraries is outside the model (seen by the monitor only)", "SQLite lock escalation between the block transaction and pool reads is not modelled (known finding)"],
        "design_ref": "DESIGN.md §7 C08",
    },
    "C09": {
        "scenarios": [{"name": "restart"}],
        "accept": ["restart:"],
        "technique": "Lean: restart_independent_whole_windows — at EVERY height (above PIP-10 too) every run with any number of restarts, kills and failed iterations ends in the ledger and sync height of the run without them provided no averaging window the incremental path starts from has a hole (per-ticker semantics of the cache: cached / reloaded / incremental answer = quotes of the height window; count trim = height trim on a window without holes; the block transaction reads averages only through per-ticker lookups); witness_window_has_a_hole: the known finding's witness is exactly such a hole; restart_independent_partial — below PIP-10 every run with any number of restarts (and kills) ends in the ledger and sync height of the run without them, for every chain and fork table; block outcome independent of the cache below PIP-10; reload path is a function of the database; kernel-checked witness (1000 vs 1057) that above PIP-10 the incremental and reload averages differ after an ungraded block. Tie: chains (with ungraded blocks; with assets quoted at 0 by the 2.0.2 band rule; era-crossing) synced continuously and with clean restarts, both in lock-step with the model, final ledgers compared",
        "assumptions": [SQLITE],
        "design_ref": "DESIGN.md §7 C09",
    },
    "C10": {
        "scenarios": [{"name": "faults"}],
        "accept": ["faults:"],
        "technique": "Lean: unchecked_row_loops_are_api_only (regenerated: every result-set loop on the sync path asks rows.Err(); the five that do not are API-only readers); Lean: propagated_faults_transparent — for every chain, every height and every finite plan of iterations cut short by a failed request or statement, the run ends in exactly the database of the fault-free run (the retry finds the cache at the height it asks for: getAverages is idempotent); a propagated failure commits nothing; swallow keeps partial effects; regenerated lists of discarded / log-only / blank-assigned errors equal the known ones. Tie: every upstream request and (sampled) SQL statement of chosen blocks — incl. the blocks right after PIP-10, where the averages are a consensus input — fails once on a copy of the pre-block database; the daemon's own retry must reach the fault-free ledger",
        "assumptions": [SQLITE, "faults are injected at the database/sql driver and at the HTTP transport"],
        "design_ref": "DESIGN.md §7 C10",
    },
    "C11": {
        "scenarios": [{"name": "ledger"}],
        "accept": ["rewards:"],
        "technique": "Lean: version ladders equal the regenerated ones, no winners = no reward, unparsable address skipped, each winner credited exactly Payout() with one coinbase row, SPR rewards only from 2.0 and only for declared top-100 ids, burn shape iff and exact credit. Tie: lock-step chain; monitor compares coinbase rows with an independent run of the real graders",
        "assumptions": [ORACLES],
        "design_ref": "DESIGN.md §7 C11",
    },
    "C12": {
        "scenarios": [{"name": "inband"}, {"name": "assetrates"}, {"name": "ledger"}],
        "accept": ["inband:", "rates:", "assetrates:", "conversion:executed-without-rates"],
        "technique": "Lean: rates_recorded_exact — whenever a block's grading step makes rates available the rate table grows by exactly the rows of the selected asset list (winning OPR, filtered against the winning SPR by the era's band rule) with PEG priced by the phase; rates of other heights untouched by any block, for every chain; no rates => holding phase is the identity; band constants regenerated. Tie: exact binary64 band test vs Go at band edges; real GetAssetRates(V0) on generated winner lists; lock-step chains; monitors: PEG price by phase, no winners (independent grading) => no rate rows",
        "assumptions": [ORACLES, "a healthy Factom node serves each height once"],
        "design_ref": "DESIGN.md §7 C12",
    },
    "C13": {
        "scenarios": [{"name": "admission"}, {"name": "ledger"}, {"name": "avgwindow"}],
        "accept": ["admission:", "holding:passed-over"],
        "technique": "Lean: average_available_iff_window_has_quotes — along every in-order chain without window holes the average of an asset is unavailable exactly when the height window of the committed rate table holds fewer than AverageRequired non-zero quotes of it, else it is their mean; Lean: outcome of a single-conversion batch equals the rule table for all pairs, heights, rates, averages and balances; corollaries per rule and the converse (admissible and funded = executed); regenerated one-way set, guard and reject codes. Tie: applyTransactionBatch (hook) over pairs x heights around every activation x rate/average patterns vs the model and the table; lock-step chains with runs of zero (out-of-band) quotes around ungraded blocks under PIP-10, with the availability rule stated on the recorded rates (no executed conversion on an asset with fewer than AverageRequired non-zero quotes among the last AveragePeriod rated heights)",
        "assumptions": ["PEG-destination rule from 2.0 lives in the holding path (ValidatePegTx) and is exercised by the lock-step chains"],
        "design_ref": "DESIGN.md §7 C13",
    },
    "C14": {
        "scenarios": [{"name": "payouts"}, {"name": "ledger"}, {"name": "bank"}, {"name": "snapshots"}],
        "accept": ["staking:", "payouts:"],
        "technique": "Lean: snapshot taken first in the transaction phase (current := balances before the block's conversions / transactions / rewards, past := previous current); nothing off the cadence; stakers come from the inner join (absent from either snapshot => not considered); total paid = min(total stake, cap), exact when over, full when under, proportional shares; stake uses min(current, past) and ignores PEG; staking order independent of map iteration (C01); staking_payout_exact: a successful snapshot step credits, for every address and asset, exactly the Payouts share in PEG of each valued staker of the inner join and nothing else. Tie: ConversionSupplySet vs the model on random sets with ties; lock-step chain over two snapshot heights (one ungraded) with the staking specification recomputed from the snapshot tables; snapshot rotation checked against the balance dumps (current = balances before the block, past = previous current) on 2.0.2 chains whose snapshot heights have unrated held assets / unrated pUSD",
        "assumptions": ["every per-asset valuation fits in int64 (otherwise the block fails: C08)"],
        "design_ref": "DESIGN.md §7 C14",
    },
    "C15": {
        "scenarios": [{"name": "ledger"}, {"name": "aligned"}],
        "accept": ["issuance:", "history-replay:old-burn", "history-replay:burn", "history-replay:mint"],
        "technique": "Lean: regenerated developer table sums to 100 % / 2000 PEG (x144), mint table shape, activation order; payouts, mint and zeroings are identity off their heights; kernel-checked witness that the old-burn zeroing stops at the first non-zero asset; developer payout and mint exact for every address and asset. Tie: lock-step chain crossing every activation with funds on the special addresses; chains whose developer-reward / 2.0.2 activation is a multiple of 144 (aligned with the payout cadence); the last asset of the ticker list sent to the burn address before its zeroing; schedule monitor",
        "assumptions": [ORACLES],
        "design_ref": "DESIGN.md §7 C15",
    },
    "C16": {
        "scenarios": [{"name": "payouts"}, {"name": "ledger"}, {"name": "bank"}],
        "accept": ["payouts:", "refund:", "bank:", "history-replay:balances-differ:bank-"],
        "technique": "Lean: bank pass of a block — PEG supply grows by exactly the sum of Payouts over the requests, which is at most the bank; bank row gets used = sum of yields, requested = total (recordPegRequests level, genuine PEG requests); Payouts: limit, full if fits, exact when over, proportional; refund: yield*pegRate + refund*srcRate <= input*srcRate; paying a request credits exactly yield (PEG) + Refund(input, yield) (source asset) to the requester and records both in its history row, for every address and asset. bank_pass_never_fails: on conversions with distinct keys (no transfer inside a PEG-request batch: the recorded finding) the pass never fails; no request is paid more than the bank. Tie: ConversionSupplySet / Refund vs the model; bank-era chains with requests below / around / above the bank, ungraded blocks, rejected requests; refund monitor on every executed PEG request (recorded refund = floor((requested - paid)*peg/src))",
        "assumptions": ["request keys are distinct (Go map keys)", "bank is a uint64"],
        "design_ref": "DESIGN.md §7 C16",
    },
    "C17": {
        "scenarios": [{"name": "ledger"}, {"name": "bank"}],
        "accept": ["history-replay:", "paging:", "holding:"],
        "technique": "Lean: pages at offsets 0, 50, ... partition any ordered result; arrival records pending; rejected batch has no effect; status update hits exactly the rows of the hash; kernel-checked witness that an unconvertible amount stays pending; otherwise a held batch is resolved by the first rated block (partial theorem); every recorded action belongs to a recorded batch along every chain (HistOK); the history row of an executed conversion carries the amount credited, the row of a paid PEG request carries yield and refund (the amounts the balance theorems of C04 / C16 show were credited). Tie: lock-step chain; monitor replays the whole history (+ scheduled adjustments) to the balances after every block",
        "assumptions": [ORACLES, "API paging is modelled as LIMIT/OFFSET over a fixed ordered list"],
        "design_ref": "DESIGN.md §7 C17",
    },
    "C18": {
        "scenarios": [{"name": "api", "race": True}],
        "accept": ["api:", "race:"],
        "technique": "Lean (call granularity): API calls never change the committed database, see committed state only, but move the shared averaging cache (kernel-checked witness); regenerated lists of API sites touching shared node state, of goroutine starts and of every package-level variable of the packages both sides run (a new one breaks the obligation). Tie/support: real srv handlers over HTTP from 6 goroutines during real sync, ledger compared with the load-free run; a phase in which a reader outlasts the busy timeout so that COMMITs fail with 'database is locked' (rollback journal, the default) and must be retried; binary built with -race, reports parsed",
        "assumptions": [SQLITE, "goroutine interleavings inside one call cannot be exhibited by the sequential model: the race detector run supports, it does not prove"],
        "design_ref": "DESIGN.md §7 C18",
    },
    "C19": {
        "scenarios": [{"name": "hardforks"}],
        "accept": ["hardforks:"],
        "technique": "Lean 4 iff-characterisation of CheckHardForks over all fork tables / row sets, adequate builds always accepted, back-fill rows; regenerated shipped table. Tie: real CheckHardForks on databases produced by real session histories (start-up check each session)",
        "assumptions": ["pn_sync_version has PRIMARY KEY(height) (SQLite enforces it)"],
        "design_ref": "DESIGN.md §7 C19",
    },
    "C20": {
        "scenarios": [{"name": "amount"}, {"name": "codec"}],
        "accept": ["amount:", "codec:"],
        "technique": "Lean: reencoding_round_trips — decBatch (encBatch v txs) = (v, txs) for every batch the model of the fat2 encoders accepts (ValidData, tickers inside the table), every way of writing addresses, every uint64 amount; shipped_tickers_round_trip: the regenerated 62-name table meets the hypotheses (kernel-decided). Tie: the encoder model against json.Marshal on every decoded batch of the codec scenario (driver command `encode`). Lean: model of the four fat2 JSON decoders over a token tree (which key fills which field, null / duplicate / case-folded keys, ticker and amount decoding, expected-length accounting); soundness of the length accounting proved (accepted => exactly the expected keys, once each, on every level: accepted_only_in_canonical_form); input without a type refused (the repaired defect 85f24f7); amount parser exact or rejecting; decoded-level shape (one input address, int64, transfers xor conversion, input = sum). Tie: every generated document (canonical, 16 byte-level mutation kinds, 6 000 structure-level fuzzed trees per run) through fat2 and through the model's decoders on the token tree; independent canonical-form checker; re-encode round trip; cmd.FactoidToFactoshi vs the model",
        "assumptions": ["the text factom.FAAddress writes decodes back to the address (factom library, outside the model); strconv writes decimal (Nat.repr)", "byte-level JSON acceptance (duplicate / unknown keys) is outside the Lean model: decided by the differential codec scenario only"],
        "design_ref": "DESIGN.md §7 C20",
    },
}

for _c in CHECKS.values():
    _c.setdefault("trusted", COMMON_TRUSTED)
