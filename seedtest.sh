#!/bin/bash
# usage: ./seedtest.sh <seeded-dir> <check ids...>   (applies the patch to /repo, runs the checks, reverts)
set -u
d=$(realpath "$1"); shift
if [ -n "$(git -C /repo status --porcelain)" ]; then echo "/repo not clean"; exit 2; fi
# the evidence files are rewritten by every run: keep the clean-tree ones
ev=$(mktemp -d /tmp/seedtest-ev.XXXXXX); cp -a /verif/evidence/. "$ev"/
git -C /repo apply "$d/patch.diff" || exit 2
trap 'git -C /repo checkout -- . ; git -C /repo status --porcelain; cp -a "$ev"/. /verif/evidence/; rm -rf "$ev"' EXIT
for c in "$@"; do
  out=$(cd /verif && ./check "$c" --tier "${TIER:-quick}" 2>&1); rc=$?
  echo "== $c exit=$rc  violations=$(echo "$out" | grep -c '^VIOLATION')"
  echo "$out" | grep '^VIOLATION' | head -4
done
