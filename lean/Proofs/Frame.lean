import Proofs.Steps
/-
  One structural proof for the whole block transaction: if every primitive table operation of
  the block at height `h` respects a relation `R`, so does `blockTx`.  Property-specific
  relations then only have to discharge the primitive obligations (`PrimsOK`).
-/
namespace Pegnet

/-- `SubFromBalance` respects `R` when its two writes do (for relations that need no guard) -/
theorem subBal_step_of {R : Rel DB} (P : Params) (a : Addr) (t : Ticker) (v : Nat)
    (hadd : Step R (addBal P a t 0)) (hdeb : Step R (debit a t v)) : Step R (subBal P a t v) := by
  unfold subBal; step_tac

/-- the primitive table operations as the block at height `h` uses them -/
structure PrimsOK (P : Params) (h : Nat) (R : Rel DB) : Prop where
  addBal : ∀ a t v, Step R (addBal P a t v)
  subBal : ∀ a t v, Step R (subBal P a t v)
  insertRate : ∀ tok v, Step R (insertRate h tok v)
  insertHistBatch : ∀ r, Step R (insertHistBatch r)
  insertHistTx : ∀ r, Step R (insertHistTx r)
  insertLookup : ∀ r, Step R (insertLookup r)
  setExecuted : ∀ hash v, Step R (setExecuted hash v)
  setConvertedAmount : ∀ hash i a, Step R (setConvertedAmount hash i a)
  setPegConverted : ∀ hash i a o, Step R (setPegConverted hash i a o)
  insertRelation : ∀ hash a i t c, Step R (insertRelation hash a i t c)
  insertHolding : ∀ e keymr, Step R (insertHolding { entry := e, height := h, keymr := keymr })
  insertBank : ∀ a, Step R (insertBank h a)
  updateBank : ∀ bh u r, Step R (updateBank bh u r)
  insertGrade : ∀ keymr sh v c n, Step R (insertGrade { height := h, keymr := keymr, shorthashes := sh, version := v, cutoff := c, count := n })
  insertWinner : ∀ p e pay m a, Step R (insertWinner { height := h, position := p, entryhash := e, payout := pay, minerid := m, addrStr := a })
  markSynced : ∀ v, Step R (markSynced h v)
  rotate : Step R (M.guarded (fun _ => none) fun db => { db with snapPast := db.snapCur, snapCur := db.addrs })
  touch : Step R (M.guarded (fun _ => none) fun db => { db with avgTouched := true })

section
variable {P : Params} {h : Nat} {R : Rel DB} (ok : PrimsOK P h R)
include ok

/-- bring every primitive fact into the local context (for `apply_assumption`) -/
syntax "prims " term : tactic
macro_rules
  | `(tactic| prims $ok) => `(tactic|
    (have p1 := PrimsOK.addBal $ok; have p2 := PrimsOK.subBal $ok; have p3 := PrimsOK.insertRate $ok
     have p4 := PrimsOK.insertHistBatch $ok; have p5 := PrimsOK.insertHistTx $ok; have p6 := PrimsOK.insertLookup $ok
     have p7 := PrimsOK.setExecuted $ok; have p8 := PrimsOK.setConvertedAmount $ok; have p9 := PrimsOK.setPegConverted $ok
     have p10 := PrimsOK.insertRelation $ok; have p11 := PrimsOK.insertHolding $ok; have p12 := PrimsOK.insertBank $ok
     have p13 := PrimsOK.updateBank $ok; have p14 := PrimsOK.insertGrade $ok; have p15 := PrimsOK.insertWinner $ok
     have p16 := PrimsOK.markSynced $ok; have p17 := PrimsOK.rotate $ok; have p18 := PrimsOK.touch $ok))

/-! ### balances -/

theorem subBal_step (a : Addr) (t : Ticker) (v : Nat) : Step R (subBal P a t v) := PrimsOK.subBal ok a t v

/-! ### Batch.lean -/

theorem recordOutputs_step (hash : Hash) (rates avgs : Option TMap) (idx : Nat) (t : Tx) :
    Step R (recordOutputs P h hash rates avgs idx t) := by
  prims ok
  unfold recordOutputs; step_tac

theorem recordTx_step (hash : Hash) (rates avgs : Option TMap) (idx : Nat) (t : Tx) :
    Step R (recordTx P h hash rates avgs idx t) := by
  prims ok
  have c1 := subBal_step ok
  have c2 := recordOutputs_step ok
  unfold recordTx; step_tac

theorem recordBatch_step (hash : Hash) (rates avgs : Option TMap) (txs : List Tx) :
    Step R (recordBatch P h hash rates avgs txs) := by
  have c1 := recordTx_step ok
  unfold recordBatch; step_tac

theorem applyBatch_step (e : TxEntry) (rates avgs : Option TMap) : Step R (applyBatch P h e rates avgs) := by
  have c1 := recordBatch_step ok
  unfold applyBatch; step_tac

theorem payPegReq_step (rates : TMap) (r : PegReq) (y : Nat) : Step R (payPegReq P h rates r y) := by
  prims ok
  unfold payPegReq; step_tac

theorem recordPegRequests_step (rates avgs : TMap) (bs : List TxEntry) (bank : Nat) (bh : Int) :
    Step R (recordPegRequests P h rates avgs bs bank bh) := by
  prims ok
  have c1 := payPegReq_step ok
  unfold recordPegRequests; step_tac

/-! ### Sync.lean -/

theorem mintTokens_step : Step R (mintTokens P) := by
  prims ok
  unfold mintTokens; step_tac

theorem nullifyMinted_step (c : DB) : Step R (nullifyMinted P c) := by
  have c1 := subBal_step ok
  unfold nullifyMinted; step_tac

theorem insertZeroingCoinbase_step (txid : String) (i hh : Nat) (ts : Int) (payout : Nat) (asset : String) (a : Addr) :
    Step R (insertZeroingCoinbase txid i hh ts payout asset a) := by
  prims ok
  unfold insertZeroingCoinbase; step_tac

theorem nullifyBurnLoop_step (c : DB) (hh : Nat) (ts : Int) (a : Addr) (i j : Nat) (ts' : List Ticker) :
    Step R (nullifyBurnLoop P c hh ts a i j ts') := by
  have c1 := subBal_step ok
  have c2 := insertZeroingCoinbase_step ok
  induction ts' generalizing i j with
  | nil => unfold nullifyBurnLoop; step_tac
  | cons t rest ih =>
    unfold nullifyBurnLoop
    step_tac

theorem nullifyBurn_step (c : DB) (hh : Nat) (ts : Int) : Step R (nullifyBurn P c hh ts) := by
  unfold nullifyBurn
  exact nullifyBurnLoop_step ok ..

theorem insertGradeBlock_step (keymr : String) (g : OprGraded) : Step R (insertGradeBlock h keymr g) := by
  prims ok
  unfold insertGradeBlock; step_tac

theorem insertRates_step (c : DB) (assets : List (String × Nat)) (phase : Phase) :
    Step R (insertRates P c h assets phase) := by
  prims ok
  unfold insertRates; step_tac

theorem snapshotPayouts_step (ts : Int) (rates : TMap) (order : List Addr) :
    Step R (snapshotPayouts P h ts rates order) := by
  prims ok
  unfold snapshotPayouts; step_tac

theorem devPayoutLoop_step (ts : Int) (i j : Nat) (l : List (Addr × Nat)) :
    Step R (devPayoutLoop P h ts i j l) := by
  prims ok
  induction l generalizing i j with
  | nil => unfold devPayoutLoop; step_tac
  | cons d rest ih =>
    unfold devPayoutLoop
    step_tac

theorem developersPayouts_step (ts : Int) : Step R (developersPayouts P h ts) := by
  unfold developersPayouts; exact devPayoutLoop_step ok ..

theorem recordHistory_step (bo : Nat) (e : TxEntry) : Step R (recordHistory P h bo e) := by
  prims ok
  unfold recordHistory; step_tac

theorem applyTxEntry_step (keymr : String) (bo : Nat) (e : TxEntry) : Step R (applyTxEntry P h keymr bo e) := by
  prims ok
  have c1 := recordHistory_step ok
  have c2 := applyBatch_step ok
  unfold applyTxEntry; step_tac

theorem applyTransactionBlock_step (keymr : String) (es : List TxEntry) :
    Step R (applyTransactionBlock P h keymr es) := by
  have c1 := applyTxEntry_step ok
  unfold applyTransactionBlock; step_tac

theorem applyHeld_step (rates avgs : TMap) (e : TxEntry) : Step R (applyHeld P h rates avgs e) := by
  prims ok
  have c2 := applyBatch_step ok
  unfold applyHeld; step_tac

theorem applyHolding_step (c : DB) (rates avgs : TMap) (fromH : Nat) :
    Step R (applyHolding P c h rates avgs fromH) := by
  have c1 := applyHeld_step ok
  have c2 := recordPegRequests_step ok
  unfold applyHolding; step_tac

theorem applyFct_step (rcd : Addr) (f : FctTx) : Step R (applyFct P h rcd f) := by
  prims ok
  unfold applyFct; step_tac

theorem applyFactoidBlock_step (rcd : Addr) (fcts : List FctTx) : Step R (applyFactoidBlock P h rcd fcts) := by
  have c1 := applyFct_step ok rcd
  unfold applyFactoidBlock; step_tac

theorem applyGradedOPR_step (oh ts : Int) (ws : List OprW) : Step R (applyGradedOPR P oh ts ws) := by
  prims ok
  unfold applyGradedOPR; step_tac

theorem applyGradedSPR_step (oh ts : Int) (ws : List SprW) : Step R (applyGradedSPR P oh ts ws) := by
  prims ok
  unfold applyGradedSPR; step_tac

end

/-! ### the block -/

theorem gradeAndRates_step {P : Params} {R : Rel DB} (c : DB) (b : Block) (ok : PrimsOK P b.height R) :
    Step R (gradeAndRates P c b) := by
  have c1 := insertGradeBlock_step ok
  have c2 := insertRates_step ok
  unfold gradeAndRates; step_tac

section
variable {P : Params} {R : Rel DB} (c : DB) (b : Block) (avgs : TMap) (ok : PrimsOK P b.height R)
include ok

theorem preAdjust_step : Step R (preAdjust P c b.height) := by
  have c2 := mintTokens_step ok
  have c3 := nullifyMinted_step ok
  unfold preAdjust; step_tac

theorem sprPanicCheck_step : Step R (sprPanicCheck b) := by
  unfold sprPanicCheck; step_tac

theorem snapshotPhase_step : Step R (snapshotPhase P b) := by
  have c4 := snapshotPayouts_step ok
  unfold snapshotPhase; step_tac

theorem holdingPhase_step (ra : Bool) : Step R (holdingPhase P c b avgs ra) := by
  prims ok
  have c5 := applyHolding_step ok
  unfold holdingPhase; step_tac

theorem txBlockPhase_step : Step R (txBlockPhase P b) := by
  have c6 := applyTransactionBlock_step ok
  unfold txBlockPhase; step_tac

theorem txPhase_step (ra : Bool) : Step R (txPhase P c b avgs ra) := by
  have c1 := snapshotPhase_step b ok
  have c2 := holdingPhase_step c b avgs ok
  have c3 := txBlockPhase_step b ok
  unfold txPhase; step_tac

theorem oprRewardPhase_step : Step R (oprRewardPhase P b) := by
  have c8 := applyGradedOPR_step ok
  unfold oprRewardPhase; step_tac

theorem sprRewardPhase_step : Step R (sprRewardPhase P b) := by
  have c9 := applyGradedSPR_step ok
  unfold sprRewardPhase; step_tac

theorem devRewardPhase_step : Step R (devRewardPhase P b) := by
  have c10 := developersPayouts_step ok
  unfold devRewardPhase; step_tac

theorem rewardPhase_step : Step R (rewardPhase P b) := by
  have c7 := applyFactoidBlock_step ok
  have c1 := oprRewardPhase_step b ok
  have c2 := sprRewardPhase_step b ok
  have c3 := devRewardPhase_step b ok
  unfold rewardPhase; step_tac

theorem syncBlock_step : Step R (syncBlock P c b avgs) := by
  have c1 := gradeAndRates_step c b ok
  have c2 := preAdjust_step c b ok
  have c3 := sprPanicCheck_step (P := P) b ok
  have c4 := txPhase_step c b avgs ok
  have c5 := rewardPhase_step b ok
  unfold syncBlock; step_tac

theorem burnZeroing_step : Step R (burnZeroing P c b) := by
  have c2 := nullifyBurn_step ok
  unfold burnZeroing; step_tac

/-- every step of the block transaction respects `R` -/
theorem blockTx_step : Step R (blockTx P c b avgs) := by
  prims ok
  have c1 := syncBlock_step c b avgs ok
  have c2 := burnZeroing_step c b ok
  unfold blockTx; step_tac

end

end Pegnet
