package main

// C13 / C03: applyTransactionBatch called directly (hook: node/verif_export.go) on a scratch
// database, for (source, destination) pairs × heights just before / at / after every activation
// × zero / non-zero rate and average patterns × funded / unfunded inputs, and for multi-
// transaction batch shapes; compared with the model's `applyBatch` and with the admission
// specification written out below.

import (
	"context"
	"encoding/json"
	"fmt"
	"math/rand"
	"os"
	"sort"
	"strings"

	"github.com/Factom-Asset-Tokens/factom"
	"github.com/pegnet/pegnetd/config"
	"github.com/pegnet/pegnetd/fat/fat2"
	"github.com/pegnet/pegnetd/node"
	"github.com/pegnet/pegnetd/node/conversions"
	"github.com/pegnet/pegnetd/node/pegnet"
	"github.com/spf13/viper"
)

type directNode struct {
	N   *node.Pegnetd
	dir string
}

func newDirectNode() (*directNode, error) {
	dir := tempDir("verif-direct-")
	conf := viper.New()
	conf.Set(config.SqliteDBPath, dir+"/sql.db")
	conf.Set(config.Server, "http://fake.invalid/v2")
	conf.Set(config.Network, "verif")
	n, err := node.NewPegnetd(context.Background(), conf)
	if err != nil {
		return nil, err
	}
	return &directNode{N: n, dir: dir}, nil
}

func (d *directNode) Close() {
	d.N.Pegnet.DB.Close()
	os.RemoveAll(d.dir)
}

func balLine(m map[fat2.PTicker]uint64) string {
	var parts []string
	for t := fat2.PTicker(1); t < fat2.PTickerMax; t++ {
		if m[t] != 0 {
			parts = append(parts, fmt.Sprintf("%d=%d", int(t), m[t]))
		}
	}
	return strings.Join(parts, ",")
}

func mapLine(m map[fat2.PTicker]uint64) string {
	keys := make([]int, 0, len(m))
	for k := range m {
		keys = append(keys, int(k))
	}
	sort.Ints(keys)
	var sb strings.Builder
	fmt.Fprintf(&sb, "%d", len(keys))
	for _, k := range keys {
		fmt.Fprintf(&sb, " %d %d", k, m[fat2.PTicker(k)])
	}
	return sb.String()
}

// applyDirect runs one batch through the real applyTransactionBatch on fresh balances and
// returns "ok <verdict> | <addr:balances…> | rels=n" in the model's format.
func (d *directNode) applyDirect(h uint32, bals map[fat2.PTicker]uint64, txs []fat2.Transaction, rates, avgs map[fat2.PTicker]uint64, nilRates bool, others []factom.FAAddress) (string, factom.Entry) {
	p := d.N.Pegnet
	content, _ := json.Marshal(struct {
		Version      uint               `json:"version"`
		Transactions []fat2.Transaction `json:"transactions"`
	}{1, txs})
	var fs factom.FsAddress
	e := SignBatch(content, EntryTime(h).Unix(), fs)
	tb := &fat2.TransactionBatch{Version: 1, Transactions: txs, Entry: e}
	in := txs[0].Input.Address
	// clean slate for the addresses involved
	p.DB.Exec("DELETE FROM pn_addresses")
	p.DB.Exec("DELETE FROM pn_address_transactions")
	tx, err := p.DB.Begin()
	if err != nil {
		return "infra " + err.Error(), e
	}
	for t, v := range bals {
		if v > 0 {
			if _, err := p.AddToBalance(tx, &in, t, v); err != nil {
				tx.Rollback()
				return "infra " + err.Error(), e
			}
		}
	}
	if len(bals) == 0 {
		p.AddToBalance(tx, &in, fat2.PTickerPEG, 0)
	}
	tx.Commit()
	tx, _ = p.DB.Begin()
	var r, a map[fat2.PTicker]uint64
	if !nilRates {
		r, a = rates, avgs
	}
	aerr := d.N.VerifApplyTransactionBatch(tx, tb, r, a, h)
	code, rest := pegnet.IsRejectedTx(aerr)
	verdict := ""
	switch {
	case rest != nil:
		tx.Rollback()
		return "fail " + classify(rest.Error()), e
	case code < 0:
		verdict = fmt.Sprintf("reject %d", code)
	default:
		verdict = "apply"
	}
	tx.Commit()
	// dump balances in row order
	var sb strings.Builder
	rows, _ := p.DB.Query("SELECT address FROM pn_addresses ORDER BY id")
	var addrs [][]byte
	for rows.Next() {
		var ab []byte
		rows.Scan(&ab)
		addrs = append(addrs, ab)
	}
	rows.Close()
	for _, ab := range addrs {
		var fa factom.FAAddress
		copy(fa[:], ab)
		m, _ := p.SelectBalances(&fa)
		fmt.Fprintf(&sb, " %s:%s", hx(ab), balLine(m))
	}
	var nrel int
	p.DB.QueryRow("SELECT COUNT(*) FROM pn_address_transactions").Scan(&nrel)
	return fmt.Sprintf("ok %s |%s | rels=%d", verdict, sb.String(), nrel), e
}

// specVerdict is the admission table of C13 written out directly (single conversion).
// specOneWayTickers: destinations closed by the OneWaySmallAssetsConversions rule.
func specOneWayTickers() []fat2.PTicker {
	return []fat2.PTicker{fat2.PTickerPEG, fat2.PTickerDCR, fat2.PTickerDGB, fat2.PTickerDOGE, fat2.PTickerHBAR, fat2.PTickerONT,
		fat2.PTickerRVN, fat2.PTickerBAT, fat2.PTickerALGO, fat2.PTickerBIF, fat2.PTickerETB, fat2.PTickerKES, fat2.PTickerNGN,
		fat2.PTickerRWF, fat2.PTickerTZS, fat2.PTickerUGX}
}

func specVerdict(a Acts, h uint32, src, dst fat2.PTicker, amount, bal uint64, rates, avgs map[fat2.PTicker]uint64, oneWay map[fat2.PTicker]bool) string {
	if amount > bal {
		return "reject -1"
	}
	if rates[src] == 0 || rates[dst] == 0 {
		return "reject -4"
	}
	if h >= a.OneWayFCT && dst == fat2.PTickerFCT {
		return "reject -3"
	}
	if h >= a.OneWaySmall && oneWay[dst] {
		return "reject -5"
	}
	if h >= a.PIP10 && (avgs[src] == 0 || avgs[dst] == 0) {
		return "dropped"
	}
	return "apply-or-overflow"
}

func scenAdmission(rep *Report, tier string, seed int64) {
	r := rand.New(rand.NewSource(seed))
	acts := Acts{Pegnet: 0, GradingV2: 10, TxConv: 20, PegPricing: 30, OneWayFCT: 40, ConvLimit: 50, PegFloat: 50, RCDE: 60, V4: 60,
		V20: 70, DevRewards: 80, SprSig: 80, OneWaySmall: 90, V202: 90, V204: 100, V204Burn: 110, PIP10: 120}
	s := Setup{Acts: acts, AvgPeriod: 8, SyncVersion: mainnetSyncVersion}
	s.Apply()
	d, err := newDirectNode()
	if err != nil {
		rep.Note("infrastructure: %v", err)
		return
	}
	defer d.Close()
	m, err := StartModel()
	if err != nil {
		rep.Note("infrastructure: %v", err)
		return
	}
	defer m.Close()
	m.Must(ParamsLine(s))
	// the SPECIFICATION's one-way destinations are pinned here (the protocol rule the property
	// names: PEG and the small-cap assets); the model takes its set from the regenerated facts, so
	// a changed list in the source moves model and implementation together and it is this
	// pinned list that exhibits the conversion that is now wrongly executed or refused
	oneWay := map[fat2.PTicker]bool{}
	for _, t := range specOneWayTickers() {
		oneWay[t] = true
	}
	heights := []uint32{39, 40, 41, 49, 50, 51, 69, 70, 89, 90, 91, 119, 120, 121}
	var in factom.FAAddress
	r.Read(in[:])
	nT := int(fat2.PTickerMax) - 1
	total := 0
	run1 := func(h uint32, src, dst fat2.PTicker, pattern int, funded int) {
		rates := map[fat2.PTicker]uint64{}
		avgs := map[fat2.PTicker]uint64{}
		for t := fat2.PTicker(1); t < fat2.PTickerMax; t++ {
			rates[t] = uint64(1e6 + int(t)*37e5)
			avgs[t] = uint64(1e6 + int(t)*41e5)
		}
		switch pattern {
		case 1:
			rates[src] = 0
		case 2:
			rates[dst] = 0
		case 3:
			avgs[src] = 0
		case 4:
			avgs[dst] = 0
		case 5:
			rates[dst] = 1 // overflow: huge output
			rates[src] = 1 << 62
		}
		bal := uint64(1000000)
		amount := bal
		switch funded {
		case 1:
			amount = bal + 1
		case 2:
			amount = bal - 1
		}
		if pattern == 5 {
			bal = 1 << 40
			amount = bal
		}
		txs := []fat2.Transaction{Conversion(in, src, amount, dst)}
		bals := map[fat2.PTicker]uint64{src: bal}
		impl, e := d.applyDirect(h, bals, txs, rates, avgs, false, nil)
		line := fmt.Sprintf("applybatch %d %s 0 %s %s %s", h, mapLine(bals), mapLine(rates), mapLine(avgs), strings.TrimPrefix(txLineForced(e, EntryTime(h).Unix(), txs), "tx "))
		model := m.Ask(line)
		total++
		// the implementation reports a dropped batch as "apply" without effects; the model says "dropped"
		implN := impl
		modelN := strings.Replace(model, "ok dropped", "ok apply", 1)
		spec := specVerdict(acts, h, src, dst, amount, bal, rates, avgs, oneWay)
		era := fmt.Sprintf("h%d", h)
		rep.Case(fmt.Sprintf("%s|%s|p%d|f%d|fct=%v|ow=%v|peg=%v", era, strings.Fields(impl + " x x")[1], pattern, funded, dst == fat2.PTickerFCT, oneWay[dst], dst == fat2.PTickerPEG), true)
		if total <= 3 {
			rep.Sample(map[string]interface{}{"height": h, "src": src.String(), "dst": dst.String(), "pattern": pattern, "impl": impl, "model": model, "spec": spec})
		}
		if implN != modelN {
			path := WriteReplay(rep.Property, "admission", Replay{Property: rep.Property, Scenario: "admission", Seed: seed, Setup: s,
				What: "applyTransactionBatch differs from the model", Extra: map[string]interface{}{"line": line, "impl": impl, "model": model}})
			rep.Disagree("admission:"+era, fmt.Sprintf("h=%d %s->%s pattern=%d funded=%d impl=%q model=%q", h, src, dst, pattern, funded, impl, model), path)
		}
		// specification monitor on the implementation's answer
		iv := strings.Join(strings.Fields(impl)[1:], " ")
		ok := true
		switch spec {
		case "apply-or-overflow":
			ok = strings.HasPrefix(iv, "apply")
			if ok && pattern != 5 {
				// executed: source debited, destination credited with floor(amount*src/dst)
				srcR, dstR := rates[src], rates[dst]
				if h >= acts.PIP10 {
					if avgs[src] < srcR {
						srcR = avgs[src]
					}
					if avgs[dst] > dstR {
						dstR = avgs[dst]
					}
				}
				out, cerr := conversions.Convert(0, int64(amount), srcR, srcR, dstR, dstR)
				wantBal := map[fat2.PTicker]uint64{src: bal - amount}
				if !(dst == fat2.PTickerPEG && h >= acts.ConvLimit) { // bank era: the PEG output is paid by the second pass
					wantBal[dst] += uint64(out)
				}
				if cerr == nil && !strings.Contains(impl, hx(in[:])+":"+balLine(wantBal)+" ") {
					ok = false
				}
			}
		case "dropped":
			ok = strings.HasPrefix(iv, "apply") && strings.Contains(impl, hx(in[:])+":"+balLine(bals)+" ") && strings.Contains(impl, "rels=0")
		default:
			ok = strings.HasPrefix(iv, spec) && strings.Contains(impl, hx(in[:])+":"+balLine(bals)+" ")
		}
		if !ok {
			path := WriteReplay(rep.Property, "admission-spec", Replay{Property: rep.Property, Scenario: "admission", Seed: seed, Setup: s,
				What: "conversion admission contradicts the rule table", Extra: map[string]interface{}{"height": h, "src": src.String(), "dst": dst.String(), "pattern": pattern, "funded": funded, "impl": impl, "spec": spec}})
			rep.Violate(fmt.Sprintf("admission:%s:%s", spec, era), fmt.Sprintf("h=%d %s->%s pattern=%d funded=%d: impl %q, rule table says %s", h, src, dst, pattern, funded, impl, spec), path)
		}
	}
	if tier == "thorough" {
		for _, h := range heights {
			for si := 1; si <= nT; si++ {
				for di := 1; di <= nT; di++ {
					if si == di {
						continue
					}
					run1(h, fat2.PTicker(si), fat2.PTicker(di), 0, 0)
				}
			}
		}
	}
	// every destination, just below / at / above the small-asset activation and in the last era
	// (quick tier too: a destination missing from or added to the one-way list is a single pair)
	for _, h := range []uint32{89, 90, 91, 121} {
		for di := 1; di <= nT; di++ {
			src := fat2.PTickerUSD
			if fat2.PTicker(di) == src {
				src = fat2.PTickerEUR
			}
			run1(h, src, fat2.PTicker(di), 0, 0)
		}
	}
	n := 2500
	if tier == "thorough" {
		n = 30000
	}
	for i := 0; i < n; i++ {
		h := heights[r.Intn(len(heights))]
		src := fat2.PTicker(1 + r.Intn(nT))
		dst := fat2.PTicker(1 + r.Intn(nT))
		switch r.Intn(5) {
		case 0:
			dst = fat2.PTickerFCT
		case 1:
			ow := specOneWayTickers()
			dst = ow[r.Intn(len(ow))]
		case 2:
			dst = fat2.PTickerPEG
		}
		if src == dst {
			continue
		}
		run1(h, src, dst, r.Intn(6), r.Intn(3))
	}
	// multi-transaction batches (C03): cumulative spends, self transfers, mid-batch credits
	nb := 800
	if tier == "thorough" {
		nb = 12000
	}
	for i := 0; i < nb; i++ {
		h := heights[r.Intn(len(heights))]
		rates := map[fat2.PTicker]uint64{}
		avgs := map[fat2.PTicker]uint64{}
		for t := fat2.PTicker(1); t < fat2.PTickerMax; t++ {
			rates[t] = uint64(1e6 + int(t)*37e5)
			avgs[t] = uint64(1e6 + int(t)*41e5)
		}
		assets := []fat2.PTicker{fat2.PTickerUSD, fat2.PTickerEUR, fat2.PTickerXBT, fat2.PTickerPEG}
		bals := map[fat2.PTicker]uint64{}
		for _, t := range assets {
			if r.Intn(3) != 0 {
				bals[t] = uint64(100 + r.Intn(1000))
			}
		}
		k := 1 + r.Intn(4)
		var txs []fat2.Transaction
		hasConv := false
		shape := ""
		for j := 0; j < k; j++ {
			t := assets[r.Intn(len(assets))]
			amt := bals[t]
			switch r.Intn(5) {
			case 0:
				amt = amt / 2
			case 1:
				amt = amt + 1
			case 2:
				if amt > 0 {
					amt--
				}
			case 3:
				amt = uint64(r.Intn(50))
			}
			if r.Intn(2) == 0 {
				var to factom.FAAddress
				if r.Intn(3) == 0 {
					to = in // self transfer
				} else {
					r.Read(to[:])
				}
				txs = append(txs, Transfer(in, t, fat2.AddressAmountTuple{Address: to, Amount: amt}))
				shape += "T"
			} else {
				dst := assets[r.Intn(len(assets))]
				if dst == t {
					dst = fat2.PTickerJPY
				}
				txs = append(txs, Conversion(in, t, amt, dst))
				hasConv = true
				shape += "C"
			}
		}
		if i%5 == 0 {
			// directed shape: spend t, convert u into t, spend t again relying on the conversion's
			// output (in the bank era a PEG output is only paid by the second pass)
			t := assets[r.Intn(len(assets))]
			u := assets[(int(r.Intn(len(assets)-1))+1+tickerIndex(assets, t))%len(assets)]
			bals = map[fat2.PTicker]uint64{t: uint64(100 + r.Intn(100)), u: uint64(100000 + r.Intn(1000))}
			var b1, b2 factom.FAAddress
			r.Read(b1[:])
			r.Read(b2[:])
			first := bals[t] - uint64(r.Intn(3))
			second := bals[t] - uint64(r.Intn(3))
			txs = []fat2.Transaction{
				Transfer(in, t, fat2.AddressAmountTuple{Address: b1, Amount: first}),
				Conversion(in, u, bals[u], t),
				Transfer(in, t, fat2.AddressAmountTuple{Address: b2, Amount: second}),
			}
			hasConv = true
			shape = "TCT-dependent"
			if t == fat2.PTickerPEG {
				shape += "-peg"
			}
		}
		overdraft := false
		if i%5 == 1 {
			// directed shape: a transfer with a change output back to the input address, then
			// spends that rely on the change — at, just below and above what is really left
			t := assets[r.Intn(len(assets))]
			x := uint64(100 + r.Intn(1000))
			bals = map[fat2.PTicker]uint64{t: x}
			var b1, b2 factom.FAAddress
			r.Read(b1[:])
			r.Read(b2[:])
			first := x - uint64(r.Intn(int(x/2)))
			change := uint64(1 + r.Intn(int(first-1)))
			left := x - first + change
			var second uint64
			switch r.Intn(5) {
			case 0:
				second = left
			case 1:
				second = left + 1
			case 2:
				second = left - 1
			case 3:
				second = left + 1 + uint64(r.Intn(int(first-change))) // up to the full balance
			default:
				second = uint64(1 + r.Intn(int(x)))
			}
			if second == 0 {
				second = 1
			}
			outs := []fat2.AddressAmountTuple{{Address: b1, Amount: first - change}, {Address: in, Amount: change}}
			if r.Intn(2) == 0 {
				outs[0], outs[1] = outs[1], outs[0]
			}
			txs = []fat2.Transaction{Transfer(in, t, outs...), Transfer(in, t, fat2.AddressAmountTuple{Address: b2, Amount: second})}
			overdraft = second > left
			if r.Intn(3) == 0 && second <= left {
				// a third spend of what the first two leave
				third := left - second + uint64(r.Intn(2))
				if third > 0 {
					txs = append(txs, Transfer(in, t, fat2.AddressAmountTuple{Address: b1, Amount: third}))
					overdraft = third > left-second
				}
			}
			hasConv = false
			shape = "TT-change"
			if r.Intn(2) == 0 {
				// the LATER transfer pays (part of) its input back to the sender: what it may spend is
				// what is left BEFORE its own outputs come back
				spend := left
				switch r.Intn(4) {
				case 0:
					spend = left + 1
				case 1:
					spend = left + 1 + uint64(r.Intn(int(first-change)))
				case 2:
					if left > 1 {
						spend = left - 1
					}
				}
				back := spend - uint64(r.Intn(int(spend)))
				if back > spend {
					back = spend
				}
				outs2 := []fat2.AddressAmountTuple{{Address: in, Amount: back}}
				if spend > back {
					outs2 = append(outs2, fat2.AddressAmountTuple{Address: b2, Amount: spend - back})
				}
				txs = []fat2.Transaction{Transfer(in, t, outs...), Transfer(in, t, outs2...)}
				overdraft = spend > left
				shape = "TT-change-selfback"
			}
			if overdraft {
				shape += "-overdraft"
			}
		}
		nilRates := !hasConv
		impl, e := d.applyDirect(h, bals, txs, rates, avgs, nilRates, nil)
		nr := 0
		if nilRates {
			nr = 1
		}
		line := fmt.Sprintf("applybatch %d %s %d %s %s %s", h, mapLine(bals), nr, mapLine(rates), mapLine(avgs), strings.TrimPrefix(txLineForced(e, EntryTime(h).Unix(), txs), "tx "))
		model := strings.Replace(m.Ask(line), "ok dropped", "ok apply", 1)
		if strings.HasPrefix(model, "fail ") {
			model = "fail " + modelClass(model)
		}
		total++
		rep.Case(fmt.Sprintf("batch|%s|%s", shape, strings.Fields(impl + " x x")[1]), true)
		if impl != model {
			path := WriteReplay(rep.Property, "admission-batch", Replay{Property: rep.Property, Scenario: "admission", Seed: seed, Setup: s,
				What: "applyTransactionBatch (multi-transaction batch) differs from the model", Extra: map[string]interface{}{"line": line, "impl": impl, "model": model}})
			rep.Disagree("batch:"+shape, fmt.Sprintf("h=%d shape=%s impl=%q model=%q", h, shape, impl, model), path)
		}
		// monitors: a rejected batch leaves the balances exactly as they were; nothing is negative
		if strings.HasPrefix(impl, "ok reject") && !strings.Contains(impl, hx(in[:])+":"+balLine(bals)+" ") {
			path := WriteReplay(rep.Property, "admission-partial", Replay{Property: rep.Property, Scenario: "admission", Seed: seed, Setup: s,
				What: "a rejected batch changed balances", Extra: map[string]interface{}{"line": line, "impl": impl, "height": h, "balances_before": balLine(bals)}})
			rep.Violate("batch:reject-changed-balances", fmt.Sprintf("shape=%s %q from %s", shape, impl, balLine(bals)), path)
		}
		if strings.Contains(impl, "=-") {
			rep.Violate("batch:negative", impl, "")
		}
		// C03: "no batch can spend more of an asset than its input address holds … even when the
		// batch … credit[s] it mid-batch": the change-output shapes whose spends exceed what is
		// left must be refused as a whole, the others applied
		if strings.HasPrefix(shape, "TT-change") {
			rep.Count("batch:change-output:overdraft=" + fmt.Sprint(overdraft))
			if overdraft != strings.HasPrefix(impl, "ok reject") {
				path := WriteReplay(rep.Property, "admission-change", Replay{Property: rep.Property, Scenario: "admission", Seed: seed, Setup: s,
					What: "batch with a change output: verdict differs from the cumulative funds rule", Extra: map[string]interface{}{"line": line, "impl": impl, "height": h, "balances_before": balLine(bals), "overdraft": overdraft}})
				rep.Violate("batch:change-output-funds", fmt.Sprintf("overdraft=%v but %q from %s", overdraft, impl, balLine(bals)), path)
			}
		}
	}
	rep.Traces = total
	rep.Rule = "one evaluation = one batch through the real applyTransactionBatch (verif hook) on fresh balances, compared with the model's applyBatch (verdict, balances, relation rows) and with the admission rule table; single conversions over (source, destination) pairs × heights around every activation × zero-rate / zero-average / overflow patterns × funded / short, plus random 1-4 transaction batches; distinct = (height, verdict, pattern, destination class) / (batch shape, verdict)"
}

// txLineForced renders a tx line for a batch the harness built itself (signature validity is
// irrelevant to applyTransactionBatch: both verdict bits are sent as 1).
func txLineForced(e factom.Entry, ts int64, txs []fat2.Transaction) string {
	var sb strings.Builder
	fmt.Fprintf(&sb, "tx %s %d 1 1 1 %d", hx(e.Hash[:]), ts, len(txs))
	for _, tx := range txs {
		fmt.Fprintf(&sb, " %s %d %d %d %d", hx(tx.Input.Address[:]), int(tx.Input.Type), tx.Input.Amount, int(tx.Conversion), len(tx.Transfers))
		for _, tr := range tx.Transfers {
			fmt.Fprintf(&sb, " %s %d", hx(tr.Address[:]), tr.Amount)
		}
	}
	return sb.String()
}

func init() { scenarios["admission"] = scenAdmission }

func tickerIndex(l []fat2.PTicker, t fat2.PTicker) int {
	for i, x := range l {
		if x == t {
			return i
		}
	}
	return 0
}
