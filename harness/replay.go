package main

// `vharness replay <file>`: re-runs the chain stored in a replay file (or a chain file) through
// the real daemon and the Lean model in lock-step with full dumps, optionally restarting the
// daemon after the heights listed under extra.restart_after, and prints what happens at every
// height where the two differ or the block cannot be applied. Exit 1 if anything differed.

import (
	"bytes"
	"compress/gzip"
	"encoding/json"
	"fmt"
	"io/ioutil"
	"os"
	"strings"

	"github.com/pegnet/pegnetd/node"
)

func replayCmd(args []string) {
	if len(args) < 1 {
		say("usage: vharness replay <replay.json[.gz]> [-nomodel]")
		os.Exit(2)
	}
	data, err := ioutil.ReadFile(args[0])
	if err != nil {
		say("replay: %v", err)
		os.Exit(2)
	}
	if strings.HasSuffix(args[0], ".gz") {
		zr, err := gzip.NewReader(bytes.NewReader(data))
		if err != nil {
			say("replay: %v", err)
			os.Exit(2)
		}
		data, _ = ioutil.ReadAll(zr)
	}
	var f struct {
		What   string                 `json:"what"`
		Setup  Setup                  `json:"setup"`
		Blocks []blockJSON            `json:"blocks"`
		Extra  map[string]interface{} `json:"extra"`
	}
	if err := json.Unmarshal(data, &f); err != nil {
		say("replay: %v", err)
		os.Exit(2)
	}
	if len(f.Blocks) == 0 {
		say("replay: the file carries no chain (what: %s)", f.What)
		os.Exit(2)
	}
	restartAfter := map[uint32]bool{}
	if l, ok := f.Extra["restart_after"].([]interface{}); ok {
		for _, x := range l {
			if v, ok := x.(float64); ok {
				restartAfter[uint32(v)] = true
			}
		}
	}
	say("replay: %s", f.What)
	run, err := NewRun(f.Setup)
	if err != nil {
		say("replay: %v", err)
		os.Exit(2)
	}
	defer run.Close()
	run.FullEvery = 1
	for _, a := range args[1:] {
		if a == "-nomodel" {
			run.NoModel = true
		}
	}
	rep := NewReport("X", "replay", "quick", 0)
	curReport = rep
	bad := 0
	// the ledger monitors (history replay, rewards, staking, issuance, rates, bank rows …)
	w := &World{Run: run, S: f.Setup, Rep: rep}
	defer func() {
		if w.ro != nil {
			w.ro.Close()
		}
	}()
	mon := &ledgerMon{rep: rep, s: f.Setup, chain: func() []*BlockSpec { return nil },
		mintHex: hexAddr(node.GlobalMintAddress), burnHex: hexAddr(node.GlobalBurnAddress), oldBurnHex: hexAddr(node.GlobalOldBurnAddress),
		devs: map[string]uint64{}}
	for _, d := range node.DeveloperRewardAddreses {
		mon.devs[hexAddr(d.DevAddress)] += uint64(d.DevRewardPct)
	}
	prevDump, _ := DumpDB(run.D.DBPath)
	for _, b := range BlocksFromJSON(f.Blocks) {
		prevWinners := w.LastShortHashes(b.Height)
		top := w.TopPEG(100)
		res := run.Step(b)
		if res.Dump != nil {
			mon.check(b.Height, b, prevDump, res.Dump, prevWinners, top, res.ImplOK)
			if res.ImplOK {
				prevDump = res.Dump
			}
		}
		if res.Diff != "" || !res.ImplOK {
			bad++
			say("height %d: impl=%s model=%s", b.Height, res.ImplClass, res.ModelClass)
			if res.ImplMsg != "" {
				say("    impl message: %s", res.ImplMsg)
			}
			if res.Diff != "" {
				say("    first difference: %s", res.Diff)
			}
			if !res.ImplOK {
				if err := run.RecoverFrom(res); err != nil {
					say("    cannot continue: %v", err)
					break
				}
				run.Chain = run.Chain[:len(run.Chain)-1]
				if r2 := run.Step(&BlockSpec{Height: b.Height, Time: BlockTime(b.Height)}); !r2.ImplOK {
					say("    an empty block cannot be applied either: the chain stops here")
					break
				}
			}
			if res.Diff != "" {
				run.NoModel = true
				say("    (continuing with the implementation alone)")
			}
		}
		if restartAfter[b.Height] {
			if err := run.RestartDaemon(); err != nil {
				say("height %d: restart refused: %v", b.Height, err)
				bad++
				break
			}
			say("height %d: daemon restarted", b.Height)
		}
	}
	if len(restartAfter) > 0 && bad == 0 {
		// compare with the same chain synced by a daemon that is never restarted
		final, _ := DumpDB(run.D.DBPath)
		cont, err := NewRun(f.Setup)
		if err == nil {
			cont.NoModel = true
			cont.FullEvery = 1000
			for _, b := range BlocksFromJSON(f.Blocks) {
				cont.Step(b)
			}
			cd, _ := DumpDB(cont.D.DBPath)
			cont.Close()
			if diff := FirstDiff(dropBackfill(final), dropBackfill(cd)); diff != "" {
				say("restarted run vs continuous run: %s", diff)
				bad++
			} else {
				say("restarted run and continuous run end with the same ledger")
			}
		}
	}
	for _, v := range rep.Violations {
		say("monitor %s: %s", v.Signature, v.What)
		bad++
	}
	say("replay: %d blocks, %d heights with a difference or failure", len(f.Blocks), bad)
	fmt.Print("")
	if bad > 0 {
		os.Exit(1)
	}
}
