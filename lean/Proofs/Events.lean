import Proofs.Precheck
/-
  C04: the exact effect of one executed transfer on EVERY address and asset.
-/
namespace Pegnet

theorem debit_outcome_all (a : Addr) (t : Ticker) (v : Nat) (s : DB) (hrow : (findRow s.addrs a).isSome = true) :
    Outcome (debit a t v s) (fun _ s' => ∀ a' x, s'.bal a' x = s.bal a' x - (if a' = a ∧ x = t then (v : Int) else 0)) := by
  simp only [debit, M.guarded]
  by_cases h2 : v > maxInt64
  · simp [h2, Outcome, NotShort]
  · simp only [h2, if_false, Outcome]
    intro a' x
    rw [bal_updRow]
    by_cases ha : a' = a
    · subst ha
      by_cases hx : x = t
      · simp [hx, hrow]
      · simp [hx]
    · simp [ha]

/-- `SubFromBalance a t v` on a funded balance, seen from every address -/
theorem subBal_funded_all (P : Params) (a : Addr) (t : Ticker) (v : Nat) (s : DB) (hf : (v : Int) ≤ s.bal a t) :
    Outcome (subBal P a t v s)
      (fun b s' => b = true ∧ ∀ a' x, s'.bal a' x = s.bal a' x - (if a' = a ∧ x = t then (v : Int) else 0)) := by
  unfold subBal
  by_cases hv : v = 0
  · rw [if_pos hv]
    apply Outcome.bind (addBal_outcome P a t 0 s)
    intro _ s1 h1
    simp only [M.pure_run, Outcome]
    refine ⟨trivial, fun a' x => ?_⟩
    rw [h1 a' x]
    subst hv
    simp
  · rw [if_neg hv]
    by_cases hvt : (!validTicker P t) = true
    · rw [if_pos hvt]
      simp [Outcome, NotShort]
    · rw [if_neg hvt, M.bind_run]
      simp only [M.get_run]
      have hnl : ¬ s.bal a t < (v : Int) := by omega
      rw [if_neg hnl]
      have hpos : 0 < s.bal a t := by omega
      apply Outcome.bind (debit_outcome_all a t v s (row_of_pos_bal hpos))
      intro _ s1 h1
      simp only [M.pure_run, Outcome]
      exact ⟨trivial, h1⟩

/-- the crediting loop never touches the burn address it skips -/
theorem creditLoop_burn (P : Params) (h : Nat) (hash : Hash) (idx : Nat) (ty : Ticker) (trs : List Transfer) (s : DB) :
    Outcome (M.forEach trs (fun tr =>
        if tr.addr == burnAddrAt P h then (pure () : LM Unit) else do
          addBal P tr.addr ty tr.amount
          insertRelation hash tr.addr idx true false) s)
      (fun _ s' => ∀ x, s'.bal (burnAddrAt P h) x = s.bal (burnAddrAt P h) x) := by
  induction trs generalizing s with
  | nil => simp [M.forEach, Outcome]
  | cons tr rest ih =>
    simp only [M.forEach]
    apply Outcome.bind (m := if tr.addr == burnAddrAt P h then (pure () : LM Unit) else do
          addBal P tr.addr ty tr.amount
          insertRelation hash tr.addr idx true false)
      (p := fun _ s1 => ∀ x, s1.bal (burnAddrAt P h) x = s.bal (burnAddrAt P h) x)
    · by_cases hbu : (tr.addr == burnAddrAt P h) = true
      · rw [if_pos hbu]; simp [Outcome]
      · rw [if_neg hbu]
        apply Outcome.bind (addBal_outcome P tr.addr ty tr.amount s)
        intro _ s1 h1
        have h2 := insertRelation_outcome hash tr.addr idx true false s1
        cases hr : insertRelation hash tr.addr idx true false s1 with
        | fail e s2 => rw [hr] at h2; exact h2
        | ok u s2 =>
          rw [hr] at h2
          simp only [Outcome] at h2 ⊢
          intro x
          rw [h2 _ x, h1 _ x]
          have : ¬ burnAddrAt P h = tr.addr := by
            intro he; apply hbu; rw [← he]; simp
          simp [this]
    · intro _ s1 h1
      have := ih s1
      cases hr : M.forEach rest (fun tr =>
          if tr.addr == burnAddrAt P h then (pure () : LM Unit) else do
            addBal P tr.addr ty tr.amount
            insertRelation hash tr.addr idx true false) s1 with
      | fail e s2 => rw [hr] at this; exact this
      | ok u s2 =>
        rw [hr] at this
        simp only [Outcome] at this ⊢
        intro x
        rw [this x, h1 x]

/-- what a transfer credits to address `a` in its own asset: the outputs naming `a`, except that
    outputs to the burn address are not credited -/
def creditedTo (P : Params) (h : Nat) (a : Addr) (trs : List Transfer) : Int :=
  if a = burnAddrAt P h then 0 else backTo a trs

/-- **An executed transfer, exactly.** For EVERY address `a` and asset `x`: the balance after the
    transfer is the balance before, minus the input amount if `a` is the sender and `x` the asset,
    plus the outputs naming `a` (in that asset; outputs to the burn address are not credited).
    Nobody else's balance changes, and no other asset's. -/
theorem transfer_exact (P : Params) (h : Nat) (hash : Hash) (rates avgs : Option TMap) (idx : Nat) (t : Tx)
    (htr : t.transfers ≠ []) (s : DB) (hf : (t.inAmount : Int) ≤ s.bal t.inAddr t.inType) :
    Outcome (recordTx P h hash rates avgs idx t s)
      (fun _ s' => ∀ a x, s'.bal a x = s.bal a x
        - (if a = t.inAddr ∧ x = t.inType then (t.inAmount : Int) else 0)
        + (if x = t.inType then creditedTo P h a t.transfers else 0)) := by
  have hnc : t.isConversion P = false := by
    unfold Tx.isConversion
    cases htl : t.transfers with
    | nil => exact absurd htl htr
    | cons _ _ => simp
  have hnp : t.isPEGRequest = false := by
    unfold Tx.isPEGRequest
    cases htl : t.transfers with
    | nil => exact absurd htl htr
    | cons _ _ => simp
  unfold recordTx
  apply Outcome.bind (subBal_funded_all P t.inAddr t.inType t.inAmount s hf)
  intro ok s1 ⟨hok, h1⟩
  subst hok
  simp only [Bool.not_true, Bool.false_eq_true, if_false]
  apply Outcome.bind (insertRelation_outcome hash t.inAddr idx false (t.isConversion P) s1)
  intro _ s2 h2
  apply Outcome.bind (setExecuted_outcome hash h s2)
  intro _ s3 h3
  unfold recordOutputs
  simp only [hnp, hnc, Bool.false_eq_true, and_false, if_false]
  -- every address at once: the burn address is untouched, any other address gets its outputs
  cases hr : M.forEach t.transfers (fun tr =>
      if tr.addr == burnAddrAt P h then (pure () : LM Unit) else do
        addBal P tr.addr t.inType tr.amount
        insertRelation hash tr.addr idx true false) s3 with
  | fail e s4 =>
    have := creditLoop_burn P h hash idx t.inType t.transfers s3
    rw [hr] at this
    exact this
  | ok u s4 =>
    simp only [Outcome]
    intro a x
    by_cases hab : a = burnAddrAt P h
    · have := creditLoop_burn P h hash idx t.inType t.transfers s3
      rw [hr] at this
      simp only [Outcome] at this
      subst hab
      rw [this x, h3 _ x, h2 _ x, h1 _ x]
      simp [creditedTo]
    · have := creditLoop_outcome P h hash idx t.inType a hab t.transfers s3
      rw [hr] at this
      simp only [Outcome] at this
      rw [this x, h3 _ x, h2 _ x, h1 _ x]
      simp [creditedTo, hab]


/-- writes that may fail at SQL level and leave the balance table alone -/
theorem guarded_keeps_bal {g : DB → Option Failure} {u : DB → DB} (hg : ∀ s e, g s = some e → NotShort e)
    (hu : ∀ s, (u s).addrs = s.addrs) (s : DB) :
    Outcome (M.guarded g u s) (fun _ s' => ∀ a x, s'.bal a x = s.bal a x) := by
  simp only [M.guarded]
  cases hgs : g s with
  | some e => simp only [Outcome]; exact hg s e hgs
  | none =>
    simp only [Outcome]
    intro a x
    unfold DB.bal
    rw [hu s]

theorem Outcome.mono {α} {r : Res DB α} {p q : α → DB → Prop} (h : Outcome r p) (hpq : ∀ a s, p a s → q a s) :
    Outcome r q := by
  cases r with
  | ok a s => exact hpq a s h
  | fail e s => exact h

theorem insertHistBatch_outcome (r : HistBatch) (s : DB) :
    Outcome (insertHistBatch r s) (fun _ s' => ∀ a x, s'.bal a x = s.bal a x) := by
  simp only [insertHistBatch, M.guarded]
  by_cases hc : (s.histB.any fun x => x.hash == r.hash && x.height == r.height) = true
  · simp [hc, Outcome, NotShort]
  · simp only [hc, Bool.false_eq_true, if_false, Outcome]
    intro a x; rfl

theorem insertHistTx_outcome (r : HistTx) (s : DB) :
    Outcome (insertHistTx r s) (fun _ s' => ∀ a x, s'.bal a x = s.bal a x) := by
  simp only [insertHistTx, M.guarded]
  by_cases hc : (s.histT.any fun x => x.hash == r.hash && x.txIndex == r.txIndex) = true
  · simp [hc, Outcome, NotShort]
  · simp only [hc, Bool.false_eq_true, if_false, Outcome]
    intro a x; rfl

theorem insertLookup_outcome (r : HistLookup) (s : DB) :
    Outcome (insertLookup r s) (fun _ s' => ∀ a x, s'.bal a x = s.bal a x) :=
  keeps_bal_outcome (fun s => by split <;> rfl) s

/-- what a list of winning records credits to `a`: the payouts of the records whose payout
    address parses to `a` -/
def oprCredit (a : Addr) (ws : List OprW) : Int :=
  ((ws.filter (fun w => w.addr == some a)).map (fun w => ((w.payout.toNat : Nat) : Int))).sum

/-- **Mining rewards, exactly.** Applying a graded OPR block changes, for every address and
    asset, only the PEG balance of the payout addresses named in the winning records, by exactly
    their payouts; a record whose address does not parse pays nothing. -/
theorem oprRewards_exact (P : Params) (oh ts : Int) (ws : List OprW) (s : DB) :
    Outcome (applyGradedOPR P oh ts ws s)
      (fun _ s' => ∀ a x, s'.bal a x = s.bal a x + (if x = tPEG then oprCredit a ws else 0)) := by
  unfold applyGradedOPR
  induction ws generalizing s with
  | nil => simp [M.forEach, Outcome, oprCredit]
  | cons w rest ih =>
    simp only [M.forEach]
    apply Outcome.bind (m := match w.addr with
        | none => (pure () : LM Unit)
        | some a => do
          addBal P a tPEG w.payout.toNat
          insertHistBatch { hash := w.entryhash, height := oh, blockorder := 0, ts := ts, executed := oh }
          insertHistTx { hash := w.entryhash, txIndex := 0, action := 3, fromAddr := a, fromAsset := "", fromAmount := 0,
                         toAsset := "PEG", toAmount := w.payout, outputs := "" }
          insertLookup { hash := w.entryhash, txIndex := 0, addr := a })
      (p := fun _ s1 => ∀ a x, s1.bal a x = s.bal a x + (if x = tPEG ∧ w.addr = some a then ((w.payout.toNat : Nat) : Int) else 0))
    · cases hw : w.addr with
      | none => simp [Outcome]
      | some wa =>
        simp only
        apply Outcome.bind (addBal_outcome P wa tPEG w.payout.toNat s)
        intro _ s1 h1
        apply Outcome.bind (insertHistBatch_outcome _ s1)
        intro _ s2 h2
        apply Outcome.bind (insertHistTx_outcome _ s2)
        intro _ s3 h3
        apply Outcome.mono (insertLookup_outcome { hash := w.entryhash, txIndex := 0, addr := wa } s3)
        intro _ s4 h4 a x
        rw [h4 a x, h3 a x, h2 a x, h1 a x]
        by_cases hx : x = tPEG
        · by_cases ha : a = wa
          · subst ha; simp [hx]
          · have : ¬ wa = a := fun h => ha h.symm
            simp [hx, ha, this]
        · simp [hx]
    · intro _ s1 h1
      apply Outcome.mono (ih s1)
      intro _ s2 h2 a x
      rw [h2 a x, h1 a x]
      unfold oprCredit
      by_cases hx : x = tPEG
      · by_cases hwa : w.addr = some a
        · simp [hx, hwa]; omega
        · have : (w.addr == some a) = false := by simpa using hwa
          simp [hx, hwa, this]
      · simp [hx]

/-- what a list of winning staking records credits to `a`: the payouts of the records whose payout
    address parses to `a` -/
def sprCredit (a : Addr) (ws : List SprW) : Int :=
  ((ws.filter (fun w => w.addr == some a)).map (fun w => ((w.payout.toNat : Nat) : Int))).sum

/-- **Staking-record rewards, exactly.** Applying a graded SPR block changes, for every address and
    asset, only the PEG balance of the payout addresses named in the winning records, by exactly
    their payouts; a record whose address does not parse pays nothing. -/
theorem sprRewards_exact (P : Params) (oh ts : Int) (ws : List SprW) (s : DB) :
    Outcome (applyGradedSPR P oh ts ws s)
      (fun _ s' => ∀ a x, s'.bal a x = s.bal a x + (if x = tPEG then sprCredit a ws else 0)) := by
  unfold applyGradedSPR
  induction ws generalizing s with
  | nil => simp [M.forEach, Outcome, sprCredit]
  | cons w rest ih =>
    simp only [M.forEach]
    apply Outcome.bind (m := match w.addr with
        | none => (pure () : LM Unit)
        | some a => do
          addBal P a tPEG w.payout.toNat
          insertHistBatch { hash := w.entryhash, height := oh, blockorder := 0, ts := ts, executed := oh }
          insertHistTx { hash := w.entryhash, txIndex := 0, action := 3, fromAddr := a, fromAsset := "", fromAmount := 0,
                         toAsset := "PEG", toAmount := w.payout, outputs := "" }
          insertLookup { hash := w.entryhash, txIndex := 0, addr := a })
      (p := fun _ s1 => ∀ a x, s1.bal a x = s.bal a x + (if x = tPEG ∧ w.addr = some a then ((w.payout.toNat : Nat) : Int) else 0))
    · cases hw : w.addr with
      | none => simp [Outcome]
      | some wa =>
        simp only
        apply Outcome.bind (addBal_outcome P wa tPEG w.payout.toNat s)
        intro _ s1 h1
        apply Outcome.bind (insertHistBatch_outcome _ s1)
        intro _ s2 h2
        apply Outcome.bind (insertHistTx_outcome _ s2)
        intro _ s3 h3
        apply Outcome.mono (insertLookup_outcome { hash := w.entryhash, txIndex := 0, addr := wa } s3)
        intro _ s4 h4 a x
        rw [h4 a x, h3 a x, h2 a x, h1 a x]
        by_cases hx : x = tPEG
        · by_cases ha : a = wa
          · subst ha; simp [hx]
          · have : ¬ wa = a := fun h => ha h.symm
            simp [hx, ha, this]
        · simp [hx]
    · intro _ s1 h1
      apply Outcome.mono (ih s1)
      intro _ s2 h2 a x
      rw [h2 a x, h1 a x]
      unfold sprCredit
      by_cases hx : x = tPEG
      · by_cases hwa : w.addr = some a
        · simp [hx, hwa]; omega
        · have : (w.addr == some a) = false := by simpa using hwa
          simp [hx, hwa, this]
      · simp [hx]


end Pegnet
