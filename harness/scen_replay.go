package main

// C01: the same chain replayed by several independent OS processes (fresh map seeds, fresh
// goroutine schedules, different wall-clock times) must give byte-identical canonical ledgers.
// The chain deliberately contains exact ties: holders with equal stakes at both snapshot
// heights, equal PEG requests in the bank era.

import (
	"github.com/pegnet/pegnetd/node"
	"fmt"
	"io/ioutil"
	"os"
	"path/filepath"
	"strings"

	"github.com/pegnet/pegnetd/fat/fat2"
)

func replayActs() Acts {
	return Acts{Pegnet: 120, GradingV2: 121, TxConv: 122, PegPricing: 123, OneWayFCT: 124, ConvLimit: 125, PegFloat: 125, RCDE: 128, V4: 128,
		V20: 134, DevRewards: 140, SprSig: 140, OneWaySmall: 150, V202: 150, V204: 160, V204Burn: 170, PIP10: 250}
}

func scenReplayMP(rep *Report, tier string, seed int64) {
	dir := tempDir("verif-replay-")
	defer os.RemoveAll(dir)
	g := NewGen(seed, 6, 0)
	s := Setup{Acts: replayActs(), AvgPeriod: 8, SyncVersion: mainnetSyncVersion}
	tip := uint32(290)
	tolerateRefDiff = true
	ref, ok := buildReference(rep, s, g, dir, s.Acts.Pegnet+1, tip, func(w *World, h uint32) *BlockSpec {
		a := s.Acts
		b := &BlockSpec{Height: h, Time: BlockTime(h)}
		// from shortly before PIP-10 on, pFCT rises and pXBT falls block by block, and the tied
		// holders convert pFCT into pXBT: both rolling averages bind (min on the source, max on the
		// destination), so the credited amounts depend on the averaging window
		if h >= a.PIP10-12 {
			g.Rates["FCT"] += g.Rates["FCT"] / 30
			g.Rates["XBT"] -= g.Rates["XBT"] / 40
		}
		if h >= a.PIP10+2 {
			u := g.Users[int(h)%4]
			if bal := w.Balance(u.FA(), fat2.PTickerFCT); bal > 1e6 {
				b.TX = append(b.TX, g.Batch(h, u, []fat2.Transaction{Conversion(u.FA(), fat2.PTickerFCT, bal/50, fat2.PTickerXBT)}))
				rep.Count("replay:averaged-conversion")
			}
		}
		ver := OPRVersionAt(a, h)
		n := 25
		if ver == 1 {
			n = 10
		}
		b.OPR = g.OPRSet(h, ver, w.LastShortHashes(h), n, g.Rates, nil)
		if h >= a.V20 {
			if top := w.TopPEG(100); len(top) > 0 {
				ids := make([][]byte, 25)
				signers := make([]factomFs, 25)
				payout := make([]string, 25)
				for i := range ids {
					ids[i] = top[i%len(top)]
					signers[i] = g.Users[0].Fs
					payout[i] = g.Miners[i]
				}
				b.SPR = g.SPRSet(h, SPRVersionAt(a, h), ids, signers, payout, g.Rates, nil)
			}
		}
		// four users burn the same, very large amount in the same block: they tie for the TOP stake
		// at both snapshots and the total is far above the cap, so the rounding dust has to be
		// assigned among exactly tied stakers; a fifth, smaller staker makes the shares uneven
		if h == a.Pegnet+1 {
			for i := 0; i < 4; i++ {
				b.FCT = append(b.FCT, Burn(h, g.Users[i].FA(), 4e14, i))
			}
			b.FCT = append(b.FCT, Burn(h, g.Users[4].FA(), 1.5e14+7, 9))
		}
		// transfers to the global burn address before its activation (an ordinary recipient then),
		// after it, and after the point where the two-session replay changes process: whether an
		// output is burned depends on the height of the batch alone, never on what the process
		// has seen before
		if h == a.V202-5 || h == a.V202+5 || h == a.PIP10+25 || h == a.PIP10+31 {
			burnA, _ := factomFA(node.GlobalBurnAddress)
			u := g.Users[5]
			for _, t := range []fat2.PTicker{fat2.PTickerFCT, fat2.PTickerPEG} {
				if bal := w.Balance(u.FA(), t); bal > 1000 {
					b.TX = append(b.TX, g.Batch(h, u, []fat2.Transaction{Transfer(u.FA(), t, fat2.AddressAmountTuple{Address: burnA, Amount: bal / 100}, fat2.AddressAmountTuple{Address: g.Users[0].FA(), Amount: 7})}))
					rep.Count("replay:transfer-to-burn-address")
					break
				}
			}
		}
		// equal PEG requests in the bank era (same amounts, different entries)
		if h == a.ConvLimit+1 || h == a.V4+1 {
			for i := 0; i < 4; i++ {
				b.TX = append(b.TX, g.Batch(h, g.Users[i], []fat2.Transaction{Conversion(g.Users[i].FA(), fat2.PTickerFCT, 10e8, fat2.PTickerPEG)}))
			}
		}
		// an oversubscribed bank pass that also holds requests filled in full (a few units of a
		// cheap asset convert to 0 PEG: yield = requested = 0): the pass ranges over a map, so
		// anything carried from one request to the next shows as a difference between processes
		if h == a.TxConv+1 {
			for i := 0; i < 3; i++ {
				b.TX = append(b.TX, g.Batch(h, g.Users[i], []fat2.Transaction{Conversion(g.Users[i].FA(), fat2.PTickerFCT, 1e8, fat2.PTickerINR)}))
			}
		}
		if h == a.ConvLimit+2 || h == a.V4+3 {
			for i := 0; i < 4; i++ {
				u := g.Users[i]
				if bal := w.Balance(u.FA(), fat2.PTickerFCT); bal > 1e10 {
					b.TX = append(b.TX, g.Batch(h, u, []fat2.Transaction{Conversion(u.FA(), fat2.PTickerFCT, bal/10*(3+uint64(i)), fat2.PTickerPEG)}))
					rep.Count("replay:oversubscribing-peg-request")
				}
				if i < 3 && w.Balance(u.FA(), fat2.PTickerINR) > 100 {
					b.TX = append(b.TX, g.Batch(h, u, []fat2.Transaction{Conversion(u.FA(), fat2.PTickerINR, 5+uint64(i), fat2.PTickerPEG)}))
					rep.Count("replay:zero-yield-peg-request")
				}
			}
		}
		return b
	})
	if !ok {
		return
	}
	n := 3
	if tier == "thorough" {
		n = 8
	}
	dumps := [][]string{ref.Dumps[int64(tip)]}
	for i := 0; i < n; i++ {
		cdir, _ := ioutil.TempDir(dir, "p")
		code, out := runChild("child-sync", "-chain", ref.ChainFn, "-dir", cdir, "-upto", fmt.Sprint(tip))
		rep.Traces++
		if code != 0 {
			rep.Violate("replay:process-failed", fmt.Sprintf("process %d could not replay the chain: %.300s", i, out), "")
			continue
		}
		d, err := DumpDB(filepath.Join(cdir, "sql.db.v4"))
		if err != nil {
			rep.Note("infrastructure: %v", err)
			return
		}
		dumps = append(dumps, d)
		os.RemoveAll(cdir)
	}
	// one more replay, computed by TWO processes in turn: the first stops (cleanly) after a height
	// in the averaging era, the second continues on the same database. The chain has no ungraded
	// block, so nothing a process keeps in memory may show in the result.
	{
		cdir, _ := ioutil.TempDir(dir, "two")
		split := s.Acts.PIP10 + 20
		code, out := runChild("child-sync", "-chain", ref.ChainFn, "-dir", cdir, "-upto", fmt.Sprint(split))
		if code == 0 {
			code, out = runChild("child-sync", "-chain", ref.ChainFn, "-dir", cdir, "-upto", fmt.Sprint(tip))
		}
		rep.Traces++
		if code != 0 {
			rep.Violate("replay:process-failed", fmt.Sprintf("the two-session replay could not complete: %.300s", out), "")
		} else if d, err := DumpDB(filepath.Join(cdir, "sql.db.v4")); err == nil {
			rep.Case("two-sessions", true)
			if diff := FirstDiff(dropBackfill(d), dropBackfill(dumps[0])); diff != "" {
				path := WriteReplay(rep.Property, "replaymp-two-sessions", Replay{Property: rep.Property, Scenario: "replaymp", Seed: seed, Setup: s,
					What:   fmt.Sprintf("the chain replayed by two processes in turn (the second taking over after height %d) gives a different ledger than one process", split),
					Detail: []string{diff}, Blocks: ChainJSON(ref.Chain)})
				rep.Violate("replay:ledger-differs:two-sessions", diff, path)
			}
		}
		os.RemoveAll(cdir)
	}
	stakeTx := []string{fmt.Sprintf("%064d", 288), fmt.Sprintf("%064d", 144)}
	for i := 1; i < len(dumps); i++ {
		rep.Case(fmt.Sprintf("process-pair-0-%d", i), true)
		diff := FirstDiff(dumps[i], dumps[0])
		if diff == "" {
			continue
		}
		sig := "replay:ledger-differs"
		for _, tx := range stakeTx {
			if strings.Contains(diff, tx) {
				sig = "replay:staking-tie-order"
			}
		}
		path := WriteReplay(rep.Property, "replaymp", Replay{Property: rep.Property, Scenario: "replaymp", Seed: seed, Setup: s,
			What: "two processes replaying the same chain produced different ledgers", Detail: []string{diff}, Blocks: ChainJSON(ref.Chain)})
		rep.Violate(sig, diff, path)
	}
	rep.Sample(map[string]interface{}{"processes": len(dumps), "chain_length": len(ref.Chain), "ties": "4 stakers tied for the top stake (total above the cap, dust to assign) at snapshots 144 and 288; 4 equal PEG requests in two bank-era blocks"})
	rep.Rule = "one evaluation = the stored chain replayed by one more independent OS process (child of the harness) and its canonical dump compared with the reference run's (which is in lock-step with the model); distinct = process pairs"
}

func init() { scenarios["replaymp"] = scenReplayMP }
