import Proofs.Chain
import Proofs.Relations
/-
  C06 / C16: an entry is held at most once — the holding table never has two rows of one entry hash.
-/
namespace Pegnet

def HoldNodup (s : DB) : Prop := (s.holding.map (·.entry.hash)).Nodup

theorem holdNodup_keep {s s' : DB} (e : s'.holding = s.holding) (h : HoldNodup s) : HoldNodup s' := by
  unfold HoldNodup at *; rw [e]; exact h

theorem primsOK_holdNodup (P : Params) (h : Nat) : PrimsOK P h (invRel HoldNodup) where
  addBal _ _ _ := guarded_keep (·.holding) (fun _ _ e => holdNodup_keep e) (fun _ => rfl)
  subBal a t v _ := subBal_step_of P a t v (guarded_keep (·.holding) (fun _ _ e => holdNodup_keep e) (fun _ => rfl))
    (guarded_keep (·.holding) (fun _ _ e => holdNodup_keep e) (fun _ => rfl))
  insertRate _ _ := guarded_keep (·.holding) (fun _ _ e => holdNodup_keep e) (fun _ => rfl)
  insertHistBatch _ := guarded_keep (·.holding) (fun _ _ e => holdNodup_keep e) (fun _ => rfl)
  insertHistTx _ _ := guarded_keep (·.holding) (fun _ _ e => holdNodup_keep e) (fun _ => rfl)
  insertLookup _ := guarded_keep (·.holding) (fun _ _ e => holdNodup_keep e) (fun s => by split <;> rfl)
  setExecuted _ _ := guarded_keep (·.holding) (fun _ _ e => holdNodup_keep e) (fun _ => rfl)
  setConvertedAmount _ _ _ := guarded_keep (·.holding) (fun _ _ e => holdNodup_keep e) (fun _ => rfl)
  setPegConverted _ _ _ _ := guarded_keep (·.holding) (fun _ _ e => holdNodup_keep e) (fun _ => rfl)
  insertRelation _ _ _ _ _ := guarded_keep (·.holding) (fun _ _ e => holdNodup_keep e) (fun s => by split <;> rfl)
  insertHolding e keymr _ := by
    constructor
    intro s
    simp only [insertHolding, M.guarded]
    by_cases hany : (s.holding.any fun x => x.entry.hash == e.hash) = true
    · simp only [hany, if_true]
      exact fun hs => hs
    · simp only [hany, Bool.false_eq_true, if_false]
      intro hs
      unfold HoldNodup at *
      show (List.map (fun x => x.entry.hash) (s.holding ++ [{ entry := e, height := h, keymr := keymr }])).Nodup
      rw [List.map_append, List.nodup_append]
      refine ⟨hs, List.nodup_cons.2 ⟨List.not_mem_nil, List.nodup_nil⟩, ?_⟩
      intro a ha b hb hab
      have hb' : b = e.hash := by simpa using hb
      apply hany
      obtain ⟨r, hr, hra⟩ := List.mem_map.1 ha
      exact List.any_eq_true.2 ⟨r, hr, by rw [hra, hab, hb']; simp⟩
  insertBank _ := guarded_keep (·.holding) (fun _ _ e => holdNodup_keep e) (fun _ => rfl)
  updateBank _ _ _ := guarded_keep (·.holding) (fun _ _ e => holdNodup_keep e) (fun _ => rfl)
  insertGrade _ _ _ _ _ := guarded_keep (·.holding) (fun _ _ e => holdNodup_keep e) (fun _ => rfl)
  insertWinner _ _ _ _ _ := guarded_keep (·.holding) (fun _ _ e => holdNodup_keep e) (fun _ => rfl)
  markSynced _ := guarded_keep (·.holding) (fun _ _ e => holdNodup_keep e) (fun _ => rfl)
  rotate := guarded_keep (·.holding) (fun _ _ e => holdNodup_keep e) (fun _ => rfl)
  touch := guarded_keep (·.holding) (fun _ _ e => holdNodup_keep e) (fun _ => rfl)

/-- **No entry is ever held twice**, along every chain -/
theorem runBlocks_holdNodup (P : Params) (n : Node) (chain : List Block) (h : HoldNodup n.db) :
    HoldNodup (runBlocks P n chain).db :=
  runBlocks_rel (P := P) (invRel HoldNodup) ⟨fun _ _ h => h⟩ (fun b => primsOK_holdNodup P b.height)
    (fun _ => Step.guarded (fun _ h => h)) n chain h

end Pegnet
