package main

// Executable specifications evaluated on the IMPLEMENTATION's own dumps (independent of the
// model): supply conservation per block (C04), history replays to balances (C17), grading
// rewards (C11), staking payouts (C14), scheduled issuance (C15), non-negative balances (C03).

import (
	"fmt"
	"math/big"
	"sort"
	"strconv"
	"strings"

	"github.com/Factom-Asset-Tokens/factom"
	"github.com/pegnet/pegnet/modules/grader"
	"github.com/pegnet/pegnet/modules/graderStake"
	"github.com/pegnet/pegnetd/fat/fat2"
	"github.com/pegnet/pegnetd/node"
)

type histB struct {
	hash                     string
	height, blockorder, exec int64
}
type histT struct {
	hash                string
	idx                 int64
	action              int
	from, fromAsset     string
	fromAmount          int64
	toAsset             string
	toAmount            int64
	outputs             [][2]string // addr, amount
}

type Ledger struct {
	Bal   map[string]map[int]*big.Int // addr -> ticker -> balance
	Order []string
	SP    map[string]map[int]*big.Int
	SC    map[string]map[int]*big.Int
	Rates map[int64]map[string]uint64
	B     []histB
	T     map[string][]histT
	Synced int64
	Bank  map[int64][3]int64
	Held  map[string]int64 // entry hash -> height it was put in holding
}

func parseBals(s string) map[int]*big.Int {
	m := map[int]*big.Int{}
	if s == "" {
		return m
	}
	for _, kv := range strings.Split(s, ",") {
		p := strings.SplitN(kv, "=", 2)
		t, _ := strconv.Atoi(p[0])
		v, _ := new(big.Int).SetString(p[1], 10)
		m[t] = v
	}
	return m
}

func ParseDump(lines []string) *Ledger {
	L := &Ledger{Bal: map[string]map[int]*big.Int{}, SP: map[string]map[int]*big.Int{}, SC: map[string]map[int]*big.Int{},
		Rates: map[int64]map[string]uint64{}, T: map[string][]histT{}, Bank: map[int64][3]int64{}, Held: map[string]int64{}, Synced: -1}
	for _, l := range lines {
		f := strings.Split(l, "|")
		switch f[0] {
		case "A":
			L.Bal[f[1]] = parseBals(f[2])
			L.Order = append(L.Order, f[1])
		case "SP":
			L.SP[f[1]] = parseBals(f[2])
		case "SC":
			L.SC[f[1]] = parseBals(f[2])
		case "R":
			h, _ := strconv.ParseInt(f[1], 10, 64)
			v, _ := strconv.ParseUint(f[3], 10, 64)
			if L.Rates[h] == nil {
				L.Rates[h] = map[string]uint64{}
			}
			L.Rates[h][f[2]] = v
		case "H":
			h, _ := strconv.ParseInt(f[2], 10, 64)
			if _, seen := L.Held[f[1]]; !seen {
				L.Held[f[1]] = h
			}
		case "B":
			h, _ := strconv.ParseInt(f[2], 10, 64)
			bo, _ := strconv.ParseInt(f[3], 10, 64)
			ex, _ := strconv.ParseInt(f[5], 10, 64)
			L.B = append(L.B, histB{f[1], h, bo, ex})
		case "T":
			idx, _ := strconv.ParseInt(f[2], 10, 64)
			act, _ := strconv.Atoi(f[3])
			fa, _ := strconv.ParseInt(f[6], 10, 64)
			ta, _ := strconv.ParseInt(f[8], 10, 64)
			t := histT{hash: f[1], idx: idx, action: act, from: f[4], fromAsset: f[5], fromAmount: fa, toAsset: f[7], toAmount: ta}
			if len(f) > 9 && strings.HasPrefix(f[9], "[") {
				body := strings.Trim(f[9], "[]")
				if body != "" {
					for _, o := range strings.Split(body, ",") {
						p := strings.SplitN(o, ":", 2)
						t.outputs = append(t.outputs, [2]string{p[0], p[1]})
					}
				}
			}
			L.T[f[1]] = append(L.T[f[1]], t)
		case "K":
			h, _ := strconv.ParseInt(f[1], 10, 64)
			a, _ := strconv.ParseInt(f[2], 10, 64)
			u, _ := strconv.ParseInt(f[3], 10, 64)
			r, _ := strconv.ParseInt(f[4], 10, 64)
			L.Bank[h] = [3]int64{a, u, r}
		case "S":
			if f[1] != "-" {
				L.Synced, _ = strconv.ParseInt(f[1], 10, 64)
			}
		}
	}
	return L
}

func (L *Ledger) Supply() map[int]*big.Int {
	s := map[int]*big.Int{}
	for _, m := range L.Bal {
		for t, v := range m {
			if s[t] == nil {
				s[t] = new(big.Int)
			}
			s[t].Add(s[t], v)
		}
	}
	return s
}

func tickerIdx(name string) int { return int(fat2.StringToTicker(name)) }

func addTo(m map[string]map[int]*big.Int, addr string, t int, v *big.Int) {
	if m[addr] == nil {
		m[addr] = map[int]*big.Int{}
	}
	if m[addr][t] == nil {
		m[addr][t] = new(big.Int)
	}
	m[addr][t].Add(m[addr][t], v)
}

func bi(v int64) *big.Int { return big.NewInt(v) }

// specialAddrs in hex
func hexAddr(fa string) string {
	a, err := factom.NewFAAddress(fa)
	if err != nil {
		return ""
	}
	return hx(a[:])
}

// ReplayHistory recomputes every balance from the recorded history plus the protocol's scheduled
// one-time adjustments; adjustments are taken from the observed ledger (they have no history
// rows) as the caller supplies them.
func (L *Ledger) ReplayHistory(a Acts, adjust func(bal map[string]map[int]*big.Int, h int64)) map[string]map[int]*big.Int {
	bal := map[string]map[int]*big.Int{}
	// group executed batches by execution height, preserving history order
	type ev struct {
		h   int64
		seq int
		b   histB
	}
	var evs []ev
	seen := map[string]bool{}
	for i, b := range L.B {
		if b.exec > 0 && !seen[b.hash] {
			seen[b.hash] = true
			evs = append(evs, ev{b.exec, i, b})
		}
	}
	sort.SliceStable(evs, func(i, j int) bool { return evs[i].h < evs[j].h })
	burn := hexAddr(node.GlobalBurnAddress)
	zero := strings.Repeat("0", 64)
	lastAdj := int64(-1)
	doAdj := func(upto int64) {
		for h := lastAdj + 1; h <= upto; h++ {
			adjust(bal, h)
		}
		lastAdj = upto
	}
	for _, e := range evs {
		doAdj(e.h)
		for _, t := range L.T[e.b.hash] {
			switch t.action {
			case 1:
				tk := tickerIdx(t.fromAsset)
				addTo(bal, t.from, tk, bi(-t.fromAmount))
				for _, o := range t.outputs {
					skip := zero
					if uint32(e.h) >= a.V202 {
						skip = burn
					}
					if o[0] == skip {
						continue
					}
					v, _ := new(big.Int).SetString(o[1], 10)
					addTo(bal, o[0], tk, v)
				}
			case 2:
				addTo(bal, t.from, tickerIdx(t.fromAsset), bi(-t.fromAmount))
				addTo(bal, t.from, tickerIdx(t.toAsset), bi(t.toAmount))
				for _, o := range t.outputs { // refund of a bank-era PEG request
					v, _ := new(big.Int).SetString(o[1], 10)
					addTo(bal, o[0], tickerIdx(t.fromAsset), v)
				}
			case 3:
				if t.toAmount > 0 {
					addTo(bal, t.from, tickerIdx(t.toAsset), bi(t.toAmount))
				}
			case 4:
				addTo(bal, t.from, tickerIdx(t.toAsset), bi(t.toAmount))
			}
		}
	}
	doAdj(L.Synced)
	return bal
}

// TransfersInto sums, per asset, what the transfers executed at height h sent to addr.
func (L *Ledger) TransfersInto(h int64, addr string) map[int]*big.Int {
	out := map[int]*big.Int{}
	for _, b := range L.B {
		if b.exec != h {
			continue
		}
		for _, t := range L.T[b.hash] {
			if t.action != 1 {
				continue
			}
			tk := tickerIdx(t.fromAsset)
			for _, o := range t.outputs {
				if o[0] == addr {
					v, _ := new(big.Int).SetString(o[1], 10)
					if out[tk] == nil {
						out[tk] = new(big.Int)
					}
					out[tk].Add(out[tk], v)
				}
			}
		}
	}
	return out
}

// CompareBalances returns a description of the first difference between two balance maps.
type balDisc struct {
	addr  string
	t     int
	delta string // ledger minus history replay
	what  string
}

// CompareBalancesAll lists every (address, asset) whose ledger balance differs from the replay.
func CompareBalancesAll(got, want map[string]map[int]*big.Int) []balDisc {
	addrs := map[string]bool{}
	for a := range got {
		addrs[a] = true
	}
	for a := range want {
		addrs[a] = true
	}
	var list []string
	for a := range addrs {
		list = append(list, a)
	}
	sort.Strings(list)
	var out []balDisc
	for _, a := range list {
		for t := 1; t < int(fat2.PTickerMax); t++ {
			g, w := new(big.Int), new(big.Int)
			if got[a] != nil && got[a][t] != nil {
				g = got[a][t]
			}
			if want[a] != nil && want[a][t] != nil {
				w = want[a][t]
			}
			if g.Cmp(w) != 0 {
				out = append(out, balDisc{a, t, new(big.Int).Sub(g, w).String(),
					fmt.Sprintf("address %s asset %s: ledger %v, history replay %v", a, fat2.PTicker(t).String(), g, w)})
			}
		}
	}
	return out
}

// MixedPegBatch reports whether the batch has a conversion into PEG next to other transactions.
func (L *Ledger) MixedPegBatch(hash string) bool {
	ts := L.T[hash]
	if len(ts) < 2 {
		return false
	}
	for _, t := range ts {
		if t.action == 2 && t.toAsset == "PEG" {
			return true
		}
	}
	return false
}

func CompareBalances(got, want map[string]map[int]*big.Int) string {
	addrs := map[string]bool{}
	for a := range got {
		addrs[a] = true
	}
	for a := range want {
		addrs[a] = true
	}
	var list []string
	for a := range addrs {
		list = append(list, a)
	}
	sort.Strings(list)
	for _, a := range list {
		for t := 1; t < int(fat2.PTickerMax); t++ {
			g, w := new(big.Int), new(big.Int)
			if got[a] != nil && got[a][t] != nil {
				g = got[a][t]
			}
			if want[a] != nil && want[a][t] != nil {
				w = want[a][t]
			}
			if g.Cmp(w) != 0 {
				return fmt.Sprintf("address %s asset %s: ledger %v, history replay %v", a, fat2.PTicker(t).String(), g, w)
			}
		}
	}
	return ""
}

// MinBalance returns a description of a negative balance, if any.
// PassedOver names a held batch that is still pending although a rated block above its holding
// height has been applied ("" if none).
func (L *Ledger) PassedOver() [][2]string {
	var maxRated int64 = -1
	for h := range L.Rates {
		if h > maxRated && h <= L.Synced {
			maxRated = h
		}
	}
	var out [][2]string
	for _, b := range L.B {
		if b.exec != 0 {
			continue
		}
		if hh, ok := L.Held[b.hash]; ok && hh < maxRated {
			out = append(out, [2]string{b.hash, fmt.Sprintf("batch %s was put in holding at height %d and is still pending after the rated block %d", b.hash, hh, maxRated)})
		}
	}
	return out
}

func (L *Ledger) Negative() string {
	for a, m := range L.Bal {
		for t, v := range m {
			if v.Sign() < 0 {
				return fmt.Sprintf("address %s asset %d balance %v", a, t, v)
			}
		}
	}
	return ""
}

/* ---------- C11: independent grading oracle ---------- */

type rewardRow struct {
	hash   string
	addr   string
	amount int64
}

// ExpectedOPRRewards grades the block's OPR entries with the real library using the harness'
// own version ladder and the previous winners read from the implementation's database.
func ExpectedOPRRewards(a Acts, b *BlockSpec, prev []string) ([]rewardRow, error) {
	if len(b.OPR) == 0 {
		return nil, nil
	}
	g, err := grader.NewGrader(OPRVersionAt(a, b.Height), int32(b.Height), prev)
	if err != nil {
		return nil, err
	}
	for _, e := range b.OPR {
		ext := make([][]byte, len(e.ExtIDs))
		for i := range e.ExtIDs {
			ext[i] = e.ExtIDs[i]
		}
		g.AddOPR(e.Hash[:], ext, e.Content)
	}
	var out []rewardRow
	for _, w := range g.Grade().Winners() {
		fa, err := factom.NewFAAddress(w.OPR.GetAddress())
		if err != nil {
			continue
		}
		out = append(out, rewardRow{hx(w.EntryHash), hx(fa[:]), w.Payout()})
	}
	return out, nil
}

// ExpectedWinnerAssets gives the asset values of the winning OPR by an independent grading run
// (nil when the block has no winner).
func ExpectedWinnerAssets(a Acts, b *BlockSpec, prev []string) map[string]uint64 {
	if len(b.OPR) == 0 {
		return nil
	}
	g, err := grader.NewGrader(OPRVersionAt(a, b.Height), int32(b.Height), prev)
	if err != nil {
		return nil
	}
	for _, e := range b.OPR {
		ext := make([][]byte, len(e.ExtIDs))
		for i := range e.ExtIDs {
			ext[i] = e.ExtIDs[i]
		}
		g.AddOPR(e.Hash[:], ext, e.Content)
	}
	ws := g.Grade().Winners()
	if len(ws) == 0 {
		return nil
	}
	out := map[string]uint64{}
	for _, x := range ws[0].OPR.GetOrderedAssetsUint() {
		out[x.Name] = x.Value
	}
	return out
}

// ExpectedSPRRewards does the same for staking records; top is the committed top-100 PEG list.
func ExpectedSPRRewards(a Acts, b *BlockSpec, top [][]byte) ([]rewardRow, error) {
	if len(b.SPR) == 0 || b.Height < a.V20 {
		return nil, nil
	}
	g, err := graderStake.NewGrader(SPRVersionAt(a, b.Height), int32(b.Height))
	if err != nil {
		return nil, err
	}
	isTop := map[string]bool{}
	for _, t := range top {
		isTop[string(t)] = true
	}
	for _, e := range b.SPR {
		if len(e.ExtIDs) < 2 || !isTop[string(e.ExtIDs[1])] {
			continue
		}
		ext := make([][]byte, len(e.ExtIDs))
		for i := range e.ExtIDs {
			ext[i] = e.ExtIDs[i]
		}
		g.AddSPR(e.Hash[:], ext, e.Content)
	}
	var out []rewardRow
	for _, w := range g.Grade().Winners() {
		fa, err := factom.NewFAAddress(w.SPR.GetAddress())
		if err != nil {
			continue
		}
		out = append(out, rewardRow{hx(w.EntryHash), hx(fa[:]), w.Payout()})
	}
	return out, nil
}

// CoinbaseRowsFor returns the coinbase rows recorded for the given entry hashes.
func (L *Ledger) CoinbaseRowsFor(hashes map[string]bool) []rewardRow {
	var out []rewardRow
	for h := range hashes {
		for _, t := range L.T[h] {
			if t.action == 3 {
				out = append(out, rewardRow{h, t.from, t.toAmount})
			}
		}
	}
	sort.Slice(out, func(i, j int) bool { return out[i].hash < out[j].hash })
	return out
}

func sameRewards(a, b []rewardRow) bool {
	if len(a) != len(b) {
		return false
	}
	sort.Slice(a, func(i, j int) bool { return a[i].hash < a[j].hash })
	sort.Slice(b, func(i, j int) bool { return b[i].hash < b[j].hash })
	for i := range a {
		if a[i] != b[i] {
			return false
		}
	}
	return true
}

/* ---------- C14: staking payout specification ---------- */

// ExpectedStaking computes, from the two snapshot tables and the rates, the total stake and the
// multiset of payouts (the assignment among exactly equal stakes is left open).
func ExpectedStaking(a Acts, h uint32, L *Ledger, rates map[string]uint64, cap uint64) (payouts []uint64, total *big.Int, ok bool) {
	type st struct {
		addr  string
		stake *big.Int
	}
	var list []st
	usd := rates["pUSD"]
	for addr, cur := range L.SC {
		past, both := L.SP[addr]
		if !both {
			continue
		}
		sum := new(big.Int)
		for t := 2; t < int(fat2.PTickerMax); t++ {
			c, p := cur[t], past[t]
			if c == nil || p == nil {
				continue
			}
			m := c
			if p.Cmp(c) < 0 {
				m = p
			}
			if m.Sign() == 0 {
				continue
			}
			r := rates[fat2.PTicker(t).String()]
			if (r == 0 || usd == 0) && h >= a.V202 {
				continue
			}
			if r == 0 || usd == 0 {
				return nil, nil, false // the implementation fails the block here (C08's concern)
			}
			v := new(big.Int).Mul(m, new(big.Int).SetUint64(r))
			v.Div(v, new(big.Int).SetUint64(usd))
			sum.Add(sum, v)
		}
		if sum.Sign() > 0 {
			list = append(list, st{addr, sum})
		}
	}
	total = new(big.Int)
	for _, s := range list {
		total.Add(total, s.stake)
	}
	capB := new(big.Int).SetUint64(cap)
	if total.Cmp(capB) < 0 {
		for _, s := range list {
			payouts = append(payouts, s.stake.Uint64())
		}
	} else {
		var paid uint64
		var maxStake *big.Int
		for _, s := range list {
			p := new(big.Int).Mul(s.stake, capB)
			p.Div(p, total)
			payouts = append(payouts, p.Uint64())
			paid += p.Uint64()
			if maxStake == nil || s.stake.Cmp(maxStake) > 0 {
				maxStake = s.stake
			}
		}
		// the dust goes to one staker with the maximal stake
		for i, s := range list {
			if s.stake.Cmp(maxStake) == 0 {
				payouts[i] += cap - paid
				break
			}
		}
	}
	sort.Slice(payouts, func(i, j int) bool { return payouts[i] < payouts[j] })
	return payouts, total, true
}
