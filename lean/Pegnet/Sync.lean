import Pegnet.Batch
import Pegnet.Average
import Pegnet.Float64
import Pegnet.VersionLock
/-
  node/sync.go: SyncBlock and the body of the DBlockSync loop, in the code's order.
-/
namespace Pegnet

/-! ### block input (what the Factom node serves, plus oracle answers of external libraries) -/

structure OprW where
  entryhash : String
  payout : Int
  position : Nat
  minerid : String
  addrStr : String
  addr : Option Addr        -- factom.NewFAAddress(addrStr), hex; none = does not parse
  deriving Repr

structure OprGraded where
  shorthashes : String
  version : Nat
  cutoff : Nat
  count : Nat
  graded : List OprW
  winners : List OprW
  assets : List (String × Nat)    -- winners[0].OPR.GetOrderedAssetsUint()
  deriving Repr

inductive OprAnswer where
  | absent                        -- no OPR eblock at this height
  | err (what : String)           -- Grade returned an error (NewGrader / previous winners)
  | graded (g : OprGraded)
  deriving Repr

structure SprW where
  entryhash : String
  payout : Int
  addrStr : String
  addr : Option Addr
  deriving Repr

structure SprGraded where
  winners : List SprW
  assets : List (String × Nat)
  deriving Repr

inductive SprAnswer where
  | absent
  | panic (site : String)
  | err (what : String)
  | graded (g : SprGraded)
  deriving Repr

structure FctTx where
  txid : Hash
  ts : Int
  fctInputs : List (Addr × Nat)
  nFctOutputs : Nat
  ecOutputs : List (Addr × Nat)
  deriving Repr

structure Block where
  height : Nat
  ts : Int
  opr : OprAnswer := .absent
  oprKeymr : String := ""
  spr : SprAnswer := .absent
  txs : Option (List TxEntry) := none     -- transaction eblock, entries in eblock order
  txKeymr : String := ""
  fcts : List FctTx := []
  burnRCD : Addr := ""
  stakeOrder : List Addr := []     -- order oracle for equal stakes (DESIGN §3.4 site 1); [] = default
  deriving Repr

/-! ### process state -/

structure Node where
  db : DB := {}                    -- committed database
  mem : Nat := 0                   -- Sync.Synced (in memory)
  cache : AvgCache := {}
  deriving Repr

/-! ### helpers -/

def pad (width : Nat) (n : Nat) : String :=
  let s := toString n
  String.ofList (List.replicate (width - s.length) '0') ++ s

/-- `fmt.Sprintf("%064d", height)` -/
def txidOfHeight (h : Nat) : String := pad 64 h

/-! ### one-time adjustments -/

def mintTokens (P : Params) : LM Unit :=
  M.forEach P.mint fun p => addBal P P.mintAddr p.1 (p.2 * 100000000)

/-- `NullifyMintedTokens`: balances are read through the pool (committed state `c`). -/
def nullifyMinted (P : Params) (c : DB) : LM Unit :=
  M.forEach P.mint fun p => do
    let v := (c.bal P.mintAddr p.1).toNat
    let ok ← subBal P P.mintAddr p.1 v
    if !ok then M.throw (.uncaught "insufficient balance")

/-- `InsertZeroingCoinbase(tx, txid, addTxid, height, ts, payout, asset, addr)` with `-payout` on a
    uint64. -/
def insertZeroingCoinbase (txid : String) (i : Nat) (h : Nat) (ts : Int) (payout : Nat) (asset : String) (a : Addr) : LM Unit := do
  insertHistBatch { hash := txid, height := h, blockorder := 0, ts := ts, executed := h }
  if payout ≠ 0 then M.throw (.sqlError "uint64 values with high bit set are not supported")
  insertHistTx { hash := txid, txIndex := i, action := 3, fromAddr := a, fromAsset := "", fromAmount := 0,
                 toAsset := asset, toAmount := 0, outputs := "" }
  insertLookup { hash := txid, txIndex := i, addr := a }

def nullifyBurnLoop (P : Params) (c : DB) (h : Nat) (ts : Int) (a : Addr) : Nat → Nat → List Ticker → LM Unit
  | _, _, [] => pure ()
  | i, j, t :: rest => do
    let v := (c.bal a t).toNat
    -- the result (txErr / err) of SubFromBalance is only logged
    let _ ← M.swallow (do let _ ← subBal P a t v; pure ())
    if h < P.act.v202 then
      insertZeroingCoinbase (pad 64 ((h + 4294967296 - j) % 4294967296)) i h ts v (tickerName P t) a
    nullifyBurnLoop P c h ts a (if i + 1 > 9 then 0 else i + 1) (j + 1) rest

/-- `NullifyBurnAddress` (after its `dblock.Get`). -/
def nullifyBurn (P : Params) (c : DB) (h : Nat) (ts : Int) : LM Unit :=
  let a := if h < P.act.v202 then P.oldBurnAddr else P.burnAddr
  let j0 := if h ≥ P.act.v202 then 50 else 0
  nullifyBurnLoop P c h ts a 0 j0 ((List.range (P.tickerMax - 1)).map (· + 1))

/-! ### grading glue -/

def graderVersionOPR (P : Params) (h : Nat) : Nat :=
  if h ≥ P.act.v20 then 5 else if h ≥ P.act.v4 then 4 else if h ≥ P.act.pegFloat then 3
  else if h ≥ P.act.gradingV2 then 2 else 1

def graderVersionSPR (P : Params) (h : Nat) : Nat :=
  if h ≥ P.act.v202 then 7 else if h ≥ P.act.sprSig then 6 else 5

/-- `SelectPreviousWinners`: shorthashes JSON of the last graded block below `h` (pool). -/
def DB.prevWinners (db : DB) (h : Nat) : Option String :=
  let rows := db.grades.filter (·.height < h)
  match rows with
  | [] => none
  | r :: rs => some (rs.foldl (fun best x => if x.height > best.height then x else best) r).shorthashes

def insertIntoSorted (r : AddrRow) : List AddrRow → List AddrRow
  | [] => [r]
  | x :: xs => if getB x.bals tPEG < getB r.bals tPEG then r :: x :: xs else x :: insertIntoSorted r xs

/-- rows with a positive PEG balance, by PEG balance descending, ties in row order; first 100. -/
def DB.top100 (db : DB) : List Addr :=
  let rows := db.addrs.filter (fun r => getB r.bals tPEG > 0)
  ((rows.foldl (fun acc r => insertIntoSorted r acc) []).take 100).map (·.addr)

/-- The staker ids `GradeS` lets through: entries with fewer than two ExtIDs (`none`) are
    skipped, the others pass when the id is among the committed top-100 PEG holders. -/
def sprPass (db : DB) (entries : List (Option Addr)) : Option (List Nat) :=
  let top := db.top100
  some ((entries.zipIdx.filter (fun p => match p.1 with | some a => top.contains a | none => false)).map (·.2))

def insertGradeBlock (h : Nat) (keymr : String) (g : OprGraded) : LM Unit := do
  insertGrade { height := h, keymr := keymr, shorthashes := g.shorthashes, version := g.version, cutoff := g.cutoff, count := g.count }
  if !g.winners.isEmpty then
    M.forEach g.graded fun o =>
      insertWinner { height := h, position := o.position, entryhash := o.entryhash, payout := o.payout, minerid := o.minerid, addrStr := o.addrStr }

inductive Phase where | zero | equation | floating
  deriving Repr, DecidableEq

/-- sum of a balance column over all rows (`SelectIssuances`, pool). -/
def DB.supply (db : DB) (t : Ticker) : Int := (db.addrs.map (fun r => getB r.bals t)).sum

/-- `Pegnet.InsertRates`; `c` is the committed database (issuance for the equation price). -/
def insertRates (P : Params) (c : DB) (h : Nat) (assets : List (String × Nat)) (phase : Phase) : LM Unit := do
  M.forEach assets fun a =>
    if a.1 == "PEG" then pure () else insertRate h ("p" ++ a.1) a.2
  let pegIn := match (assets.filter (·.1 == "PEG")).getLast? with | some a => a.2 | none => 0
  let ratePEG : Nat :=
    match phase with
    | .zero => 0
    | .floating => pegIn
    | .equation =>
      let cap : Nat := (assets.map fun a =>
        if a.1 == "PEG" then 0 else (c.supply (stringToTicker P ("p" ++ a.1))).toNat * a.2).sum
      let iss := (c.supply tPEG).toNat
      if iss = 0 then 0 else (cap / iss) % 18446744073709551616
  insertRate h "PEG" ratePEG

/-- `GetAssetRatesV0` (1 % / 0.1 % band); `none` = error. Empty lists stand for Go's nil / empty. -/
def assetRatesV0 (opr spr : List (String × Nat)) : Option (List (String × Nat)) :=
  if !opr.isEmpty && spr.isEmpty then some opr
  else if opr.isEmpty && !spr.isEmpty then some spr
  else if !opr.isEmpty && !spr.isEmpty then
    if opr.length != spr.length then none
    else
      (opr.zip spr).foldl (fun acc p =>
        match acc with
        | none => none
        | some l =>
          if p.1.1 == p.2.1 then
            let (tn, td) := if p.2.2 ≥ 100000 then (1, 3) else (1, 2)
            if inBand p.1.2 p.2.2 tn td then some (l ++ [p.1]) else none
          else some l) (some [])
  else none

/-- `GetAssetRates` (10 % band; 25 % and zeroing from v2.0.2). -/
def assetRates (P : Params) (h : Nat) (opr spr : List (String × Nat)) : Option (List (String × Nat)) :=
  if !opr.isEmpty && spr.isEmpty then some opr
  else if opr.isEmpty && !spr.isEmpty then some spr
  else if !opr.isEmpty && !spr.isEmpty then
    if opr.length != spr.length then none
    else
      (opr.zip spr).foldl (fun acc p =>
        match acc with
        | none => none
        | some l =>
          if p.1.1 == p.2.1 then
            let (tn, td) := if h ≥ P.act.v202 then (25, 2) else (1, 1)
            if inBand p.1.2 p.2.2 tn td then some (l ++ [p.1])
            else if h ≥ P.act.v202 then some (l ++ [(p.2.1, 0)])
            else none
          else some l) (some [])
  else none

/-! ### staking payout -/

/-- pUSD valuation of one joined snapshot row; `none` = `Convert` failed (block fails). -/
def stakeOf (P : Params) (h : Nat) (rates : TMap) (cur past : List Int) : Option Nat :=
  ((List.range (P.tickerMax - 1)).map (· + 1)).foldl (fun acc t =>
    match acc with
    | none => none
    | some total =>
      if t == tPEG then some total else
      let b := min (getB cur t) (getB past t)
      if b == 0 then some total else
      if (rates.get t == 0 || rates.get tUSD == 0) && decide (h ≥ P.act.v202) then some total else
      match convert P.act.pip10 h b (rates.get t) (rates.get t) (rates.get tUSD) (rates.get tUSD) with
      | none => none
      | some c => some (total + c.toNat)) (some 0)

def insertSortedStake (x : Addr × Nat) : List (Addr × Nat) → List (Addr × Nat)
  | [] => [x]
  | y :: ys => if x.2 < y.2 || (x.2 == y.2 && decide (x.1 < y.1)) then x :: y :: ys else y :: insertSortedStake x ys

/-- the order oracle's default: ascending by pUSD value, ties by address (any order of ties is a
    possible behaviour of the Go code, see Props/C01). -/
def sortStakes (l : List (Addr × Nat)) : List (Addr × Nat) :=
  l.foldl (fun acc x => insertSortedStake x acc) []

def stakesAscending : List (Addr × Nat) → Bool
  | [] => true
  | [_] => true
  | x :: y :: rest => decide (x.2 ≤ y.2) && stakesAscending (y :: rest)

/-- use the oracle's order when it is a permutation of the eligible stakers that is ascending by
    stake (every such order is a possible result of `range` over a map + `sort.Slice`). -/
def orderStakes (order : List Addr) (l : List (Addr × Nat)) : List (Addr × Nat) :=
  let r := order.filterMap (fun a => l.find? (·.1 == a))
  if order.length == l.length && r.length == l.length && order.eraseDups.length == order.length && stakesAscending r
  then r else sortStakes l

/-- the inner join of the two snapshot tables on the address (snapshot.go:51-156) -/
def joinSnapshots (cur past : List AddrRow) : List (Addr × List Int × List Int) :=
  cur.filterMap fun c =>
    match findRow past c.addr with
    | some p => some (c.addr, c.bals, p.bals)
    | none => none

def snapshotPayouts (P : Params) (h : Nat) (ts : Int) (rates : TMap) (order : List Addr := []) : LM Unit := do
  -- SnapshotCurrent
  M.guarded (fun _ => none) fun db => { db with snapPast := db.snapCur, snapCur := db.addrs }
  let db ← M.get
  -- inner join on address, MIN per asset
  let joined := joinSnapshots db.snapCur db.snapPast
  let staked ← M.foldM (fun (l : List (Addr × Nat)) j =>
      match stakeOf P h rates j.2.1 j.2.2 with
      | none => M.throw (.uncaught "staking valuation: convert failed")
      | some s => pure (l ++ [(j.1, s)])) [] joined
  if staked.any (fun p => decide (p.2 > maxUint64)) then M.throw (.uncaught "balance that is not uint64")
  let list := orderStakes order (staked.filter (fun p => decide (p.2 > 0)))
  if !list.isEmpty then do
    let txid := txidOfHeight h
    let reqs := list.zipIdx.map fun p => (({ idx := p.2, hash := txid } : TxKey), p.1.2)
    let pays := payouts (P.perBlockHolders * P.snapshotRate) reqs
    insertHistBatch { hash := txid, height := h, blockorder := 0, ts := ts, executed := h }
    M.forEach (list.zip pays) fun lp => do
      insertHistTx { hash := txid, txIndex := lp.2.1.idx, action := 3, fromAddr := lp.1.1, fromAsset := "", fromAmount := 0,
                     toAsset := "PEG", toAmount := lp.2.2, outputs := "" }
      insertLookup { hash := txid, txIndex := lp.2.1.idx, addr := lp.1.1 }
    M.forEach (list.zip pays) fun lp => addBal P lp.1.1 tPEG lp.2.2

/-! ### developer payouts -/

def devPayoutLoop (P : Params) (h : Nat) (ts : Int) : Nat → Nat → List (Addr × Nat) → LM Unit
  | _, _, [] => pure ()
  | i, j, d :: rest => do
    let txid := pad 2 j ++ pad 62 h
    let reward := (P.perBlockDevs / 100) * d.2 * (if h ≥ P.act.v202 then P.snapshotRate else 1)
    addBal P d.1 tPEG reward
    insertHistBatch { hash := txid, height := h, blockorder := 0, ts := ts, executed := h }
    insertHistTx { hash := txid, txIndex := i, action := 3, fromAddr := d.1, fromAsset := "", fromAmount := 0,
                   toAsset := "PEG", toAmount := reward, outputs := "" }
    insertLookup { hash := txid, txIndex := i, addr := d.1 }
    devPayoutLoop P h ts (if i + 1 > 9 then 0 else i + 1) (j + 1) rest

def developersPayouts (P : Params) (h : Nat) (ts : Int) : LM Unit := devPayoutLoop P h ts 0 1 P.devs

/-! ### transactions -/

/-- `ApplyTransactionBlock` -/
def recordHistory (P : Params) (h : Nat) (blockorder : Nat) (e : TxEntry) : LM Unit := do
  insertHistBatch { hash := e.hash, height := h, blockorder := blockorder, ts := e.ts, executed := 0 }
  M.forEachIdx e.txs fun idx t => do
    insertLookup { hash := e.hash, txIndex := idx, addr := t.inAddr }
    if t.isConversion P then
      insertHistTx { hash := e.hash, txIndex := idx, action := 2, fromAddr := t.inAddr, fromAsset := tickerName P t.inType,
                     fromAmount := t.inAmount, toAsset := tickerName P t.conversion, toAmount := 0, outputs := "",
                     fromT := t.inType, toT := t.conversion }
    else do
      M.forEach t.transfers fun tr => insertLookup { hash := e.hash, txIndex := idx, addr := tr.addr }
      insertHistTx { hash := e.hash, txIndex := idx, action := 1, fromAddr := t.inAddr, fromAsset := tickerName P t.inType,
                     fromAmount := t.inAmount, toAsset := "", toAmount := 0,
                     outputs := renderOutputs (t.transfers.map fun tr => (tr.addr, (tr.amount : Int))),
                     fromT := t.inType, outs := t.transfers.map fun tr => (tr.addr, tr.amount) }

/-- one entry of `ApplyTransactionBlock` -/
def applyTxEntry (P : Params) (h : Nat) (keymr : String) (blockorder : Nat) (e : TxEntry) : LM Unit := do
  let db ← M.get
  if e.validAt P h && !db.isReplay e.hash && !db.isRecorded e.hash then do
    recordHistory P h blockorder e
    if e.hasConversions P then
      insertHolding { entry := e, height := h, keymr := keymr }
    else do
      let v ← applyBatch P h e none none
      match v with
      | .reject (-1) => setExecuted e.hash (-1)
      | .reject c => M.throw (.uncaught ("reject " ++ toString c))
      | _ => pure ()

/-- `ApplyTransactionBlock` -/
def applyTransactionBlock (P : Params) (h : Nat) (keymr : String) (entries : List TxEntry) : LM Unit :=
  M.forEachIdx entries (applyTxEntry P h keymr)

/-- one held batch inside `ApplyTransactionBatchesInHolding`; returns whether it joins the PEG
    second pass. -/
def applyHeld (P : Params) (h : Nat) (rates avgs : TMap) (e : TxEntry) : LM Bool := do
  let db ← M.get
  if (decide (h ≥ P.act.v20) && !e.validPegTx P) || !e.validAt P h then do
    setExecuted e.hash (-2)
    pure false
  else if db.isReplay e.hash then pure false
  else do
    let v ← applyBatch P h e (some rates) (some avgs)
    match v with
    | .reject c => do setExecuted e.hash c; pure false
    | _ => pure (decide (h < P.act.v20) && decide (h ≥ P.act.convLimit) && e.hasPEGRequest)

/-- `ApplyTransactionBatchesInHolding`; `c` = committed database (holding rows are read through
    the pool), `avgs` = averages at the last rated height before `h`, `from` that height. -/
def applyHolding (P : Params) (c : DB) (h : Nat) (rates avgs : TMap) (fromH : Nat) : LM Unit := do
  let heights := (List.range (h - fromH)).map (· + fromH)
  let pegs ← M.foldM (fun (pend : List TxEntry) i => do
      let held := (c.holding.filter (·.height == i)).map (·.entry)
      let pend ← M.foldM (fun (l : List TxEntry) e => do
          let join ← applyHeld P h rates avgs e
          pure (if join then l ++ [e] else l)) pend held
      if h ≥ P.act.convLimit ∧ h < P.act.v4 then do
        recordPegRequests P h rates avgs pend P.bankBase ((h : Int) - 1)
        pure []
      else pure pend) [] heights
  if h ≥ P.act.v4 ∧ h < P.act.v20 then do
    let db ← M.get
    let bank := db.bankAmount h
    recordPegRequests P h rates avgs pegs bank.toNat h
  else pure ()

/-! ### factoid burns, rewards -/

/-- the burn a factoid transaction makes, if it has the burn shape: exactly one FCT input, no FCT
    output, exactly one EC output, to the burn address, of amount zero (sync.go:1316-1345) -/
def burnOf (burnRCD : Addr) (f : FctTx) : Option (Addr × Nat) :=
  match f.ecOutputs, f.fctInputs with
  | [out], [inp] =>
    if f.nFctOutputs > 0 then none
    else if out.1 != burnRCD then none
    else if out.2 != 0 then none
    else some inp
  | _, _ => none

def applyFct (P : Params) (h : Nat) (burnRCD : Addr) (f : FctTx) : LM Unit :=
  match burnOf burnRCD f with
  | none => pure ()
  | some inp => do
    addBal P inp.1 tFCT inp.2
    insertHistBatch { hash := f.txid, height := h, blockorder := -1, ts := f.ts, executed := h }
    insertHistTx { hash := f.txid, txIndex := 0, action := 4, fromAddr := inp.1, fromAsset := "FCT", fromAmount := inp.2,
                   toAsset := "pFCT", toAmount := inp.2, outputs := "" }
    insertLookup { hash := f.txid, txIndex := 0, addr := inp.1 }

def applyFactoidBlock (P : Params) (h : Nat) (burnRCD : Addr) (fcts : List FctTx) : LM Unit :=
  M.forEach fcts (applyFct P h burnRCD)

def applyGradedOPR (P : Params) (oh : Int) (ts : Int) (winners : List OprW) : LM Unit :=
  M.forEach winners fun w =>
    match w.addr with
    | none => pure ()
    | some a => do
      addBal P a tPEG w.payout.toNat
      insertHistBatch { hash := w.entryhash, height := oh, blockorder := 0, ts := ts, executed := oh }
      insertHistTx { hash := w.entryhash, txIndex := 0, action := 3, fromAddr := a, fromAsset := "", fromAmount := 0,
                     toAsset := "PEG", toAmount := w.payout, outputs := "" }
      insertLookup { hash := w.entryhash, txIndex := 0, addr := a }

def applyGradedSPR (P : Params) (oh : Int) (ts : Int) (winners : List SprW) : LM Unit :=
  M.forEach winners fun w =>
    match w.addr with
    | none => pure ()
    | some a => do
      addBal P a tPEG w.payout.toNat
      insertHistBatch { hash := w.entryhash, height := oh, blockorder := 0, ts := ts, executed := oh }
      insertHistTx { hash := w.entryhash, txIndex := 0, action := 3, fromAddr := a, fromAsset := "", fromAmount := 0,
                     toAsset := "PEG", toAmount := w.payout, outputs := "" }
      insertLookup { hash := w.entryhash, txIndex := 0, addr := a }

/-! ### SyncBlock -/

/-- what the rate-selection part of SyncBlock decided -/
inductive RateStep where
  | cont (ratesAvailable : Bool)
  | earlyReturn                  -- `return err` with `err == nil` (sync.go:459-461)

def gradeAndRates (P : Params) (c : DB) (b : Block) : LM RateStep := do
  let h := b.height
  if h < P.act.v20 then
    match b.opr with
    | .err w => M.throw (.grader w)
    | .absent => pure (.cont false)
    | .graded g => do
      insertGradeBlock h b.oprKeymr g
      if !g.winners.isEmpty then
        let phase := if h ≥ P.act.pegFloat then Phase.floating else if h ≥ P.act.pegPricing then Phase.equation else Phase.zero
        insertRates P c h g.assets phase
        pure (.cont true)
      else pure (.cont false)
  else
    match b.opr, b.spr with
    | .err w, _ => M.throw (.grader w)
    | _, .err w => M.throw (.grader w)
    | o, s => do
      let oprAssets ← (match o with
        | .graded g => do
            insertGradeBlock h b.oprKeymr g
            pure (if g.winners.isEmpty then [] else g.assets)
        | _ => pure [])
      let sprAssets := match s with
        | .graded g => if g.winners.isEmpty then [] else g.assets
        | _ => []
      if !oprAssets.isEmpty || !sprAssets.isEmpty then
        let filtered := if h < P.act.devRewards then assetRatesV0 oprAssets sprAssets else assetRates P h oprAssets sprAssets
        match filtered with
        | none => pure .earlyReturn
        | some f => do
          insertRates P c h f Phase.floating
          pure (.cont true)
      else pure (.cont false)

/-- mint / nullify-mint at their activation heights (sync.go:342-352) -/
def preAdjust (P : Params) (c : DB) (h : Nat) : LM Unit := do
  if h = P.act.v204 then mintTokens P
  if h = P.act.v204Burn then nullifyMinted P c

/-- GradeS runs (and may panic) at every height that has an SPR eblock -/
def sprPanicCheck (b : Block) : LM Unit :=
  match b.spr with
  | .panic s => M.throw (.panic s)
  | _ => pure ()

/-- snapshot + staking payout at snapshot heights (sync.go:482-512) -/
def snapshotPhase (P : Params) (b : Block) : LM Unit := do
  let h := b.height
  if h ≥ P.act.v20 ∧ h % P.snapshotRate = 0 then
    let db ← M.get
    let rates0 := ratesToMap P (db.ratesAt h)
    let rates1 := if rates0.isEmpty ∧ h ≥ P.act.v202 then ratesToMap P (db.mostRecentRatesBefore h).1 else rates0
    snapshotPayouts P h b.ts rates1 b.stakeOrder

/-- bank row + held batches, only when the block has rates (sync.go:517-527) -/
def holdingPhase (P : Params) (c : DB) (b : Block) (avgs : TMap) (ratesAvailable : Bool) : LM Unit := do
  let h := b.height
  if ratesAvailable then
    if h ≥ P.act.v4 ∧ h < P.act.v20 then insertBank h P.bankBase
    M.guarded (fun _ => none) fun db => { db with avgTouched := true }
    let db ← M.get
    applyHolding P c h (ratesToMap P (db.ratesAt h)) avgs (c.mostRecentRatesBefore h).2

def txBlockPhase (P : Params) (b : Block) : LM Unit :=
  match b.txs with
  | some entries => applyTransactionBlock P b.height b.txKeymr entries
  | none => pure ()

/-- everything under `height >= TransactionConversionActivation` (sync.go:476-535) -/
def txPhase (P : Params) (c : DB) (b : Block) (avgs : TMap) (ratesAvailable : Bool) : LM Unit := do
  if b.height ≥ P.act.txConv then
    snapshotPhase P b
    holdingPhase P c b avgs ratesAvailable
    txBlockPhase P b

def oprRewardPhase (P : Params) (b : Block) : LM Unit :=
  match b.opr with
  | .graded g => applyGradedOPR P b.height b.ts g.winners
  | _ => pure ()

def sprRewardPhase (P : Params) (b : Block) : LM Unit := do
  if b.height ≥ P.act.v20 then
    match b.spr with
    | .graded g => applyGradedSPR P b.height b.ts g.winners
    | _ => pure ()

def devRewardPhase (P : Params) (b : Block) : LM Unit := do
  if b.height ≥ P.act.devRewards ∧ b.height % P.snapshotRate = 0 then
    developersPayouts P b.height b.ts

/-- burns, OPR rewards, SPR rewards, developer rewards (sync.go:537-579) -/
def rewardPhase (P : Params) (b : Block) : LM Unit := do
  if b.height < P.act.v20 then applyFactoidBlock P b.height b.burnRCD b.fcts
  oprRewardPhase P b
  sprRewardPhase P b
  devRewardPhase P b

/-- `SyncBlock(ctx, tx, height)`. `c` = committed database, `avgs` = what
    `GetPegNetRateAverages` returns for the last rated height before `h` (computed by the caller
    because it mutates the in-memory cache even when the block later fails). -/
def syncBlock (P : Params) (c : DB) (b : Block) (avgs : TMap) : LM Unit := do
  preAdjust P c b.height
  sprPanicCheck b
  let step ← gradeAndRates P c b
  match step with
  | .earlyReturn => pure ()
  | .cont ratesAvailable => do
    txPhase P c b avgs ratesAvailable
    rewardPhase P b

/-- burn-address zeroing ahead of SyncBlock (sync.go:97-102); errors are discarded -/
def burnZeroing (P : Params) (c : DB) (b : Block) : LM Unit := do
  if b.height = P.act.devRewards then
    let _ ← M.swallow (nullifyBurn P c b.height b.ts)
  if b.height = P.act.v202 then
    let _ ← M.swallow (nullifyBurn P c b.height b.ts)

/-- the block transaction of one iteration of the DBlockSync loop -/
def blockTx (P : Params) (c : DB) (b : Block) (avgs : TMap) : LM Unit := do
  burnZeroing P c b
  syncBlock P c b avgs
  markSynced b.height P.syncVersion

/-- body of the DBlockSync loop for one block: returns the new node and `none` on success or the
    failure that rolled the block back.  The averaging cache is an in-memory side effect of
    `ApplyTransactionBatchesInHolding`: it is updated exactly when that call is reached
    (`avgTouched`), whether or not the block is later rolled back. -/
def applyBlock (P : Params) (n : Node) (b : Block) : Node × Option Failure :=
  let c := { n.db with avgTouched := false }
  let fromH := (c.mostRecentRatesBefore b.height).2
  let (cache', avgs) := getAverages P c n.cache fromH
  match blockTx P c b avgs c with
  | .ok _ db' => ({ db := { db' with avgTouched := false }, mem := b.height, cache := if db'.avgTouched then cache' else n.cache }, none)
  | .fail e db' => ({ n with cache := if db'.avgTouched then cache' else n.cache }, some e)

/-- `NewPegnetd` on an existing database: in-memory state starts empty; `CheckHardForks` writes
    its legacy back-fill rows (through the pool, outside any block). -/
def restart (P : Params) (n : Node) : Node :=
  { db := { n.db with syncVersions := backfill P.forks n.db.synced n.db.syncVersions },
    mem := n.db.synced.getD P.act.pegnet, cache := {} }

end Pegnet
