import Proofs.Process
import Pegnet.Generated.Facts
/-
  C10 — Fault transparency.
  The model separates call sites that PROPAGATE an error (the block transaction fails as a whole:
  nothing is committed, the block is retried) from call sites that SWALLOW it (`M.swallow`:
  execution continues and the partial effects stay in the transaction). The set of swallowing
  sites is regenerated from the source on every run.
-/
namespace Pegnet.C10
open Pegnet

/-- a propagated failure is transparent: nothing is committed, so a retry of the same block
    starts from exactly the same database -/
theorem propagated_failure_is_transparent (P : Params) (n : Node) (b : Block) (e : Failure)
    (hf : (applyBlock P n b).2 = some e) : (applyBlock P n b).1.db = n.db := by
  rcases applyBlock_db P n b with h | ⟨_, _, _, _, hnone⟩
  · exact h
  · rw [hnone] at hf; cases hf

/-- retrying is deterministic: the outcome of a block is a function of the committed database,
    the in-memory cache and the block — there is no hidden state a failed attempt could leave
    behind other than the averaging cache (see C09) -/
theorem retry_same_outcome (P : Params) (n n' : Node) (b : Block)
    (hdb : n'.db = n.db) (hc : n'.cache = n.cache) :
    (applyBlock P n' b).1.db = (applyBlock P n b).1.db ∧ (applyBlock P n' b).2 = (applyBlock P n b).2 := by
  unfold applyBlock
  simp only [hdb, hc]
  constructor <;> (split <;> simp_all)

/-- a swallowed failure keeps the partial effects it made before failing (this is what makes the
    burn-address zeroing non-transparent; the developer payouts and the status updates propagate
    their errors since fixes 6e0a94f and 805da50) -/
theorem swallow_keeps_partial_effects {σ} (m : M σ Unit) (s s' : σ) (e : Failure)
    (h : m s = .fail e s') : M.swallow m s = .ok false s' := by
  unfold M.swallow; rw [h]

/-- Regenerated from /repo: the calls of the sync path whose error result is discarded, the
    `if err != nil` blocks that only log, and the blank-assigned errors are exactly the known
    ones. A new swallowed error anywhere under DBlockSync breaks this obligation. -/
theorem swallow_sites_are_the_known_ones :
    Generated.discardedErrors =
      ["node/sync.go:DBlockSync:NullifyBurnAddress", "node/sync.go:DBlockSync:NullifyBurnAddress"] ∧
    Generated.logOnlyErrors =
      ["node/opr.go:Grade:err != nil", "node/spr.go:GradeS:err != nil",
       "node/sync.go:NullifyMintedTokens:err != nil",
       "node/sync.go:NullifyBurnAddress:err != nil", "node/sync.go:NullifyBurnAddress:err != nil",
       "node/sync.go:NullifyBurnAddress:err != nil", "node/sync.go:NullifyBurnAddress:err != nil",
       "node/sync.go:recordBatch:err != nil"] ∧
    Generated.blankAssignedErrors =
      ["node/conversions/conversionlimit.go:Refund:Convert", "node/conversions/conversionlimit.go:Refund:Convert",
       "node/sync.go:recordPegnetRequests:Convert"] := by
  decide

/-- **`faults_transparent` for propagated faults, every height, every chain, every finite fault
    plan.** A run of the daemon in which any number of iterations are cut short by a failed
    upstream request or SQL statement (the error is propagated: the block transaction is rolled
    back, the in-memory cache may already have been advanced) ends in exactly the database and
    sync height of the fault-free run. The retry finds the cache at the height it asks for and is
    handed the same averages (`getAverages_idem`). What this does NOT cover are the call sites
    that swallow an error (`swallow_sites_are_the_known_ones`): there the iteration is not cut
    short, it commits with part of its effects missing — the known findings of this property. -/
theorem propagated_faults_transparent (P : Params) (ch : Nat → Block) (n : Node) (es : List Ev)
    (hv : ValidRun P ch n es) :
    (runEvs P ch n es).db = (runEvs P ch n (es.filter (fun e => !e.isAborted))).db ∧
    (runEvs P ch n es).mem = (runEvs P ch n (es.filter (fun e => !e.isAborted))).mem :=
  aborted_erasable_all P ch es n n ⟨rfl, rfl, Or.inl rfl⟩ hv

/-- asking the averaging cache twice for the same height changes nothing the second time -/
theorem averages_idempotent (P : Params) (db : DB) (c : AvgCache) (h : Nat) :
    getAverages P db (getAverages P db c h).1 h = getAverages P db c h := getAverages_idem P db c h

/-- non-vacuity: a fault plan with two failed iterations of the same block -/
example : [Ev.aborted false, .aborted true, .attempt].filter (fun e => !e.isAborted) = [.attempt] := rfl

end Pegnet.C10

namespace Pegnet.C10
open Pegnet
/-- Regenerated from /repo on every run: the functions of `node` / `node/pegnet` that iterate a result
    set (`for rows.Next()`) without ever asking `rows.Err()` — where a fetch that fails (lock timeout,
    I/O error: go-sqlite3 reports the first step's error at `Next`, not at `Query`) ends the loop
    silently with a truncated result. After the repair 8c83015 they are exactly the five readers only
    the API calls; every reader on the sync path returns the error, so the model's atomic reads
    (a read either fails the block or returns everything) describe it. -/
theorem unchecked_row_loops_are_api_only :
    Generated.uncheckedRowLoops =
      ["node/pegnet/addresses.go:SelectAllBalances", "node/pegnet/addresses.go:SelectRichList",
       "node/pegnet/txhistory_util.go:turnRowsIntoHistoryTransactions", "node/pegnet/winners.go:SelectGraded",
       "node/pegnet/winners.go:SelectMinerDominance"] := by
  decide
end Pegnet.C10

#print axioms Pegnet.C10.propagated_failure_is_transparent
#print axioms Pegnet.C10.retry_same_outcome
#print axioms Pegnet.C10.swallow_keeps_partial_effects
#print axioms Pegnet.C10.swallow_sites_are_the_known_ones
#print axioms Pegnet.C10.propagated_faults_transparent
#print axioms Pegnet.C10.averages_idempotent
#print axioms Pegnet.C10.unchecked_row_loops_are_api_only
