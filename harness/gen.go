package main

// Generators: keys, OPR / SPR record sets (graded by the real libraries), signed FAT-2 batches,
// factoid burns. Every random choice comes from one PRNG seeded by VERIF_SEED.

import (
	"crypto/ed25519"
	"crypto/sha256"
	"crypto/sha512"
	"encoding/hex"
	"encoding/json"
	"fmt"
	"math/rand"
	"strconv"
	"time"

	"github.com/Factom-Asset-Tokens/factom"
	"github.com/Factom-Asset-Tokens/factom/jsonlen"
	lxr "github.com/pegnet/LXRHash"
	"github.com/pegnet/pegnet/modules/factoidaddress"
	"github.com/pegnet/pegnet/modules/opr"
	"github.com/pegnet/pegnet/modules/testutils"
	"github.com/pegnet/pegnetd/config"
	"github.com/pegnet/pegnetd/fat/fat2"
)

func timeUnix(s int64) time.Time { return time.Unix(s, 0) }

func init() {
	os_setenv_lxr()
	testutils.SetTestLXR(lxr.Init(lxr.Seed, 8, lxr.HashSize, lxr.Passes))
}

type Key struct {
	Fs  factom.FsAddress
	Eth factom.EthSecret
	IsE bool
}

func (k Key) FA() factom.FAAddress {
	if k.IsE {
		return k.Eth.FAAddress()
	}
	return k.Fs.FAAddress()
}
func (k Key) Signer() factom.RCDSigner {
	if k.IsE {
		return k.Eth
	}
	return k.Fs
}

type Gen struct {
	R     *rand.Rand
	Seed  int64
	Users []Key    // ed25519 users first, then eth users
	Miners []string // 25 payout addresses (FA strings); the first len(Users) are the users
	MinerFA []factom.FAAddress
	Rates map[string]uint64 // current "market" rates by asset name (no p prefix)
}

func NewGen(seed int64, nFs, nEth int) *Gen {
	g := &Gen{R: rand.New(rand.NewSource(seed)), Seed: seed, Rates: map[string]uint64{}}
	rand.Seed(seed)
	for i := 0; i < nFs; i++ {
		var fs factom.FsAddress
		g.R.Read(fs[:])
		g.Users = append(g.Users, Key{Fs: fs})
	}
	for i := 0; i < nEth; i++ {
		var es factom.EthSecret
		g.R.Read(es[:])
		g.Users = append(g.Users, Key{Eth: es, IsE: true})
	}
	for i := 0; i < 25; i++ {
		var fa factom.FAAddress
		if i < len(g.Users) {
			fa = g.Users[i].FA()
		} else {
			g.R.Read(fa[:])
		}
		g.Miners = append(g.Miners, fa.String())
		g.MinerFA = append(g.MinerFA, fa)
	}
	for i, name := range opr.V5Assets {
		switch name {
		case "USD":
			g.Rates[name] = 1e8
		case "PEG":
			g.Rates[name] = 25e5 // 0.025 USD
		case "FCT":
			g.Rates[name] = 2e8
		case "XBT":
			g.Rates[name] = 9000e8
		default:
			g.Rates[name] = uint64(1e6 + (i*7919)%997*1e6)
		}
	}
	return g
}

// OPRVersionAt mirrors the activation ladder so that generated records are valid by default.
func OPRVersionAt(a Acts, h uint32) uint8 {
	v := uint8(1)
	if h >= a.GradingV2 {
		v = 2
	}
	if h >= a.PegFloat {
		v = 3
	}
	if h >= a.V4 {
		v = 4
	}
	if h >= a.V20 {
		v = 5
	}
	return v
}

func SPRVersionAt(a Acts, h uint32) uint8 {
	v := uint8(5)
	if h >= a.SprSig {
		v = 6
	}
	if h >= a.V202 {
		v = 7
	}
	return v
}

func assetListFor(version uint8) []string {
	switch version {
	case 1:
		return opr.V1Assets
	case 4:
		return opr.V4Assets
	case 5:
		return opr.V5Assets
	}
	return opr.V2Assets
}

// OPRSet builds n records of the given version for height h that all carry the same rates
// (so the winner's rates are the generator's rates), paying the generator's miner addresses.
// mutate, if non-nil, may alter record i before it is hashed.
func (g *Gen) OPRSet(h uint32, version uint8, prev []string, n int, rates map[string]uint64, mutate func(i int, o interface{})) []factom.Entry {
	var out []factom.Entry
	want := testutils.WinnerAmt(version)
	pw := prev
	if len(pw) == 0 {
		pw = make([]string, want)
	}
	for i := 0; i < n; i++ {
		idx := i
		_, extids, content := testutils.RandomOPRWithFieldsAndModify(version, int32(h), pw, func(o interface{}) {
			switch c := o.(type) {
			case *opr.V1Content:
				c.CoinbaseAddress = g.Miners[idx%len(g.Miners)]
				c.FactomDigitalID = fmt.Sprintf("miner%d", idx)
				for k := range c.Assets {
					name := k
					if name == "PNT" {
						name = "PEG"
					}
					if r, ok := rates[name]; ok {
						c.Assets[k] = float64(int64(float64(r)/1e4)) / 1e4
						if c.Assets[k] == 0 {
							c.Assets[k] = 0.0001
						}
					}
				}
			case *opr.V2Content:
				c.Address = g.Miners[idx%len(g.Miners)]
				c.ID = fmt.Sprintf("miner%d", idx)
				list := assetListFor(version)
				for k, name := range list {
					if r, ok := rates[name]; ok && k < len(c.Assets) {
						c.Assets[k] = r
					}
				}
			}
			if mutate != nil {
				mutate(idx, o)
			}
		})
		if content == nil {
			continue
		}
		out = append(out, MakeEntry(config.OPRChain, extids, content))
	}
	return out
}

// SPRSet builds one staking record per staker. stakerIDs are the 32-byte ids placed in
// ExtIDs[1]; signers sign the content (S2/S3); payout[i] is the address paid.
func (g *Gen) SPRSet(h uint32, version uint8, stakerIDs [][]byte, signers []factom.FsAddress, payout []string, rates map[string]uint64, mutate func(i int, c *opr.V2Content)) []factom.Entry {
	var out []factom.Entry
	for i := range stakerIDs {
		c := &opr.V2Content{Address: payout[i], Height: int32(h)}
		c.Assets = make([]uint64, len(opr.V5Assets))
		for k, name := range opr.V5Assets {
			c.Assets[k] = rates[name]
			if c.Assets[k] == 0 {
				c.Assets[k] = 1
			}
		}
		if mutate != nil {
			mutate(i, c)
		}
		content, err := c.Marshal()
		if err != nil {
			panic(err)
		}
		var ext2 []byte
		if version >= 6 {
			priv := signers[i].PrivateKey()
			pub := priv.Public().(ed25519.PublicKey)
			sig := ed25519.Sign(priv, content)
			ext2 = append(append([]byte{}, pub...), sig...)
		} else {
			ext2 = []byte{0}
		}
		out = append(out, MakeEntry(config.SPRChain, [][]byte{{version}, stakerIDs[i], ext2}, content))
	}
	return out
}

// SignBatch is fat103.Sign with an explicit time salt (deterministic).
func SignBatch(content []byte, salt int64, signers ...factom.RCDSigner) factom.Entry {
	chain := config.TransactionChain
	timeSalt := []byte(strconv.FormatInt(salt, 10))
	maxLen := jsonlen.Uint64(uint64(len(signers)))
	msg := make([]byte, maxLen+len(timeSalt)+32+len(content))
	i := maxLen
	i += copy(msg[i:], timeSalt)
	i += copy(msg[i:], chain[:])
	copy(msg[i:], content)
	ext := [][]byte{timeSalt}
	for id, s := range signers {
		idSalt := strconv.FormatUint(uint64(id), 10)
		start := maxLen - len(idSalt)
		copy(msg[start:], idSalt)
		hsh := sha512.Sum512(msg[start:])
		ext = append(ext, s.RCD(), s.Sign(hsh[:]))
	}
	return MakeEntry(chain, ext, content)
}

// Batch builds a signed FAT-2 entry for block h from transactions.
func (g *Gen) Batch(h uint32, signer Key, txs []fat2.Transaction) factom.Entry {
	b := fat2.TransactionBatch{Version: 1, Transactions: txs}
	content, err := json.Marshal(struct {
		Version      uint               `json:"version"`
		Transactions []fat2.Transaction `json:"transactions"`
	}{b.Version, b.Transactions})
	if err != nil {
		panic(err)
	}
	salt := EntryTime(h).Unix() + int64(g.R.Intn(600)) - 300
	return SignBatch(content, salt, signer.Signer())
}

func Transfer(from factom.FAAddress, t fat2.PTicker, outs ...fat2.AddressAmountTuple) fat2.Transaction {
	var sum uint64
	for _, o := range outs {
		sum += o.Amount
	}
	return fat2.Transaction{Input: fat2.TypedAddressAmountTuple{Address: from, Amount: sum, Type: t}, Transfers: outs}
}

func Conversion(from factom.FAAddress, t fat2.PTicker, amount uint64, to fat2.PTicker) fat2.Transaction {
	return fat2.Transaction{Input: fat2.TypedAddressAmountTuple{Address: from, Amount: amount, Type: t}, Conversion: to}
}

// Burn builds an FCT burn transaction of amount factoshis from addr.
func Burn(h uint32, addr factom.FAAddress, amount uint64, salt int) factom.FactoidTransaction {
	var burnRCD factom.Bytes32
	mr, _ := hex.DecodeString("37399721298d77984585040ea61055377039a4c3f3e2cd48c46ff643d50fd64f")
	copy(burnRCD[:], mr)
	return MakeFctTx(BlockTime(h).Add(time.Duration(salt)*time.Millisecond),
		[]factom.FactoidTransactionIO{{Amount: amount, Address: factom.Bytes32(addr)}}, nil,
		[]factom.FactoidTransactionIO{{Amount: 0, Address: burnRCD}})
}

func shaHex(b []byte) string { s := sha256.Sum256(b); return hex.EncodeToString(s[:]) }

var _ = factoidaddress.Valid
