import Proofs.Frame
/-
  Building `PrimsOK` for relations that only look at one table: every primitive that does not
  write that table satisfies the relation for free.
-/
namespace Pegnet

theorem guarded_keep {R : Rel DB} {β : Type} (f : DB → β) (hkeep : ∀ s s', f s' = f s → R.r s s')
    {g : DB → Option Failure} {u : DB → DB} (hu : ∀ s, f (u s) = f s) : Step R (M.guarded g u) :=
  Step.guarded (fun s => hkeep s (u s) (hu s))

/-- a relation that only depends on the rate table -/
theorem primsOK_of_rates (P : Params) (h : Nat) (R : Rel DB)
    (hkeep : ∀ s s', s'.rates = s.rates → R.r s s')
    (hins : ∀ tok v, Step R (insertRate h tok v)) : PrimsOK P h R where
  addBal _ _ _ := guarded_keep (·.rates) hkeep (fun _ => rfl)
  subBal a t v _ := subBal_step_of P a t v (guarded_keep (·.rates) hkeep (fun _ => rfl)) (guarded_keep (·.rates) hkeep (fun _ => rfl))
  insertRate := hins
  insertHistBatch _ := guarded_keep (·.rates) hkeep (fun _ => rfl)
  insertHistTx _ _ := guarded_keep (·.rates) hkeep (fun _ => rfl)
  insertLookup _ := guarded_keep (·.rates) hkeep (fun s => by split <;> rfl)
  setExecuted _ _ := guarded_keep (·.rates) hkeep (fun _ => rfl)
  setConvertedAmount _ _ _ := guarded_keep (·.rates) hkeep (fun _ => rfl)
  setPegConverted _ _ _ _ := guarded_keep (·.rates) hkeep (fun _ => rfl)
  insertRelation _ _ _ _ _ := guarded_keep (·.rates) hkeep (fun s => by split <;> rfl)
  insertHolding _ _ _ := guarded_keep (·.rates) hkeep (fun _ => rfl)
  insertBank _ := guarded_keep (·.rates) hkeep (fun _ => rfl)
  updateBank _ _ _ := guarded_keep (·.rates) hkeep (fun _ => rfl)
  insertGrade _ _ _ _ _ := guarded_keep (·.rates) hkeep (fun _ => rfl)
  insertWinner _ _ _ _ _ := guarded_keep (·.rates) hkeep (fun _ => rfl)
  markSynced _ := guarded_keep (·.rates) hkeep (fun _ => rfl)
  rotate := guarded_keep (·.rates) hkeep (fun _ => rfl)
  touch := guarded_keep (·.rates) hkeep (fun _ => rfl)

/-- a relation that only depends on the relation (replay-protection) table -/
theorem primsOK_of_rels (P : Params) (h : Nat) (R : Rel DB)
    (hkeep : ∀ s s', s'.rels = s.rels → R.r s s')
    (hins : ∀ hash a i t c, Step R (insertRelation hash a i t c)) : PrimsOK P h R where
  addBal _ _ _ := guarded_keep (·.rels) hkeep (fun _ => rfl)
  subBal a t v _ := subBal_step_of P a t v (guarded_keep (·.rels) hkeep (fun _ => rfl)) (guarded_keep (·.rels) hkeep (fun _ => rfl))
  insertRate _ _ := guarded_keep (·.rels) hkeep (fun _ => rfl)
  insertHistBatch _ := guarded_keep (·.rels) hkeep (fun _ => rfl)
  insertHistTx _ _ := guarded_keep (·.rels) hkeep (fun _ => rfl)
  insertLookup _ := guarded_keep (·.rels) hkeep (fun s => by split <;> rfl)
  setExecuted _ _ := guarded_keep (·.rels) hkeep (fun _ => rfl)
  setConvertedAmount _ _ _ := guarded_keep (·.rels) hkeep (fun _ => rfl)
  setPegConverted _ _ _ _ := guarded_keep (·.rels) hkeep (fun _ => rfl)
  insertRelation := hins
  insertHolding _ _ _ := guarded_keep (·.rels) hkeep (fun _ => rfl)
  insertBank _ := guarded_keep (·.rels) hkeep (fun _ => rfl)
  updateBank _ _ _ := guarded_keep (·.rels) hkeep (fun _ => rfl)
  insertGrade _ _ _ _ _ := guarded_keep (·.rels) hkeep (fun _ => rfl)
  insertWinner _ _ _ _ _ := guarded_keep (·.rels) hkeep (fun _ => rfl)
  markSynced _ := guarded_keep (·.rels) hkeep (fun _ => rfl)
  rotate := guarded_keep (·.rels) hkeep (fun _ => rfl)
  touch := guarded_keep (·.rels) hkeep (fun _ => rfl)

/-- a relation that only depends on the balance table -/
theorem primsOK_of_addrs (P : Params) (h : Nat) (R : Rel DB)
    (hkeep : ∀ s s', s'.addrs = s.addrs → R.r s s')
    (hadd : ∀ a t v, Step R (addBal P a t v)) (hsub : ∀ a t v, Step R (subBal P a t v)) : PrimsOK P h R where
  addBal := hadd
  subBal a t v _ := hsub a t v
  insertRate _ _ := guarded_keep (·.addrs) hkeep (fun _ => rfl)
  insertHistBatch _ := guarded_keep (·.addrs) hkeep (fun _ => rfl)
  insertHistTx _ _ := guarded_keep (·.addrs) hkeep (fun _ => rfl)
  insertLookup _ := guarded_keep (·.addrs) hkeep (fun s => by split <;> rfl)
  setExecuted _ _ := guarded_keep (·.addrs) hkeep (fun _ => rfl)
  setConvertedAmount _ _ _ := guarded_keep (·.addrs) hkeep (fun _ => rfl)
  setPegConverted _ _ _ _ := guarded_keep (·.addrs) hkeep (fun _ => rfl)
  insertRelation _ _ _ _ _ := guarded_keep (·.addrs) hkeep (fun s => by split <;> rfl)
  insertHolding _ _ _ := guarded_keep (·.addrs) hkeep (fun _ => rfl)
  insertBank _ := guarded_keep (·.addrs) hkeep (fun _ => rfl)
  updateBank _ _ _ := guarded_keep (·.addrs) hkeep (fun _ => rfl)
  insertGrade _ _ _ _ _ := guarded_keep (·.addrs) hkeep (fun _ => rfl)
  insertWinner _ _ _ _ _ := guarded_keep (·.addrs) hkeep (fun _ => rfl)
  markSynced _ := guarded_keep (·.addrs) hkeep (fun _ => rfl)
  rotate := guarded_keep (·.addrs) hkeep (fun _ => rfl)
  touch := guarded_keep (·.addrs) hkeep (fun _ => rfl)

/-! ### C12: rate rows of other heights are never touched -/

def ratesOnlyAt (h : Nat) : Rel DB where
  r s s' := ∀ g, g ≠ h → s'.ratesAt g = s.ratesAt g
  refl _ _ _ := rfl
  trans _ _ _ h1 h2 g hg := (h2 g hg).trans (h1 g hg)

theorem primsOK_ratesOnlyAt (P : Params) (h : Nat) : PrimsOK P h (ratesOnlyAt h) :=
  primsOK_of_rates P h (ratesOnlyAt h)
    (fun s s' e g _ => by unfold DB.ratesAt; rw [e])
    (fun tok v => Step.guarded (fun s g hg => by
      unfold DB.ratesAt
      simp only [List.filter_append, List.filter_cons, List.filter_nil]
      have : ((h == g) = false) := by simp; omega
      simp [this]))

/-! ### C06: a relation row, once written, stays -/

def relsGrow : Rel DB where
  r s s' := ∀ x, s.isReplay x = true → s'.isReplay x = true
  refl _ _ h := h
  trans _ _ _ h1 h2 x hx := h2 x (h1 x hx)

theorem primsOK_relsGrow (P : Params) (h : Nat) : PrimsOK P h relsGrow :=
  primsOK_of_rels P h relsGrow
    (fun s s' e x hx => by unfold DB.isReplay at *; rw [e]; exact hx)
    (fun hash a i t c => Step.guarded (fun s x hx => by
      unfold DB.isReplay at *
      split
      · exact hx
      · simp only [List.any_append, Bool.or_eq_true]
        exact Or.inl hx))

end Pegnet
