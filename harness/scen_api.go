package main

// C18: the real API server (srv package, real HTTP on the loopback interface) serving read
// requests from several goroutines while the real DBlockSync loop syncs a chain. Monitors:
//   * the final ledger equals the ledger of the same chain synced without API load
//     (and the model's, the reference run being in lock-step);
//   * a sync height reported by get-sync-status is never above the committed sync height;
//   * the daemon does not crash.
// When the binary is built with -race (./check C18 does that) the race detector's reports are
// printed on stderr and turned into violations by ./check.

import (
	"os"
	"bytes"
	"encoding/json"
	"fmt"
	"io/ioutil"
	"net"
	"net/http"
	"sync"
	"sync/atomic"
	"time"

	"github.com/pegnet/pegnetd/config"
	"github.com/pegnet/pegnetd/srv"
	"github.com/spf13/viper"
)

func freePort() int {
	l, err := net.Listen("tcp", "127.0.0.1:0")
	if err != nil {
		return 18070
	}
	defer l.Close()
	return l.Addr().(*net.TCPAddr).Port
}

func rpcCall(url, method string, params interface{}) (json.RawMessage, error) {
	body, _ := json.Marshal(map[string]interface{}{"jsonrpc": "2.0", "id": 1, "method": method, "params": params})
	resp, err := http.Post(url, "application/json", bytes.NewReader(body))
	if err != nil {
		return nil, err
	}
	defer resp.Body.Close()
	data, _ := ioutil.ReadAll(resp.Body)
	var out struct {
		Result json.RawMessage `json:"result"`
		Error  json.RawMessage `json:"error"`
	}
	if err := json.Unmarshal(data, &out); err != nil {
		return nil, err
	}
	if len(out.Error) > 0 && string(out.Error) != "null" {
		return out.Error, fmt.Errorf("rpc error")
	}
	return out.Result, nil
}

func scenAPI(rep *Report, tier string, seed int64) {
	g := NewGen(seed, 4, 1)
	s := Setup{Acts: restartActs(), AvgPeriod: 8, SyncVersion: mainnetSyncVersion}
	length := uint32(40)
	if tier == "thorough" {
		length = 90
	}
	// reference: lock-step run without API load (also produces the chain)
	gaps := map[uint32]bool{17: true, 27: true}
	chain, refDump, ok := buildRestartChain(rep, s, g, length, gaps)
	if !ok {
		return
	}
	// run under API load: the real daemon + real API server
	s.Apply()
	fake := NewFakeFactom()
	for _, b := range chain {
		fake.Install(&BlockSpec{Height: b.Height, Time: b.Time, OPR: b.OPR, SPR: b.SPR, TX: b.TX, FCT: b.FCT})
	}
	dir := tempDir("verif-api-")
	d, err := OpenDaemon(dir, fake)
	if err != nil {
		rep.Note("infrastructure: %v", err)
		return
	}
	port := freePort()
	conf := viper.New()
	conf.Set(config.APIListen, fmt.Sprintf("127.0.0.1:%d", port))
	api := srv.NewAPIServer(conf, d.N)
	stop := make(chan struct{})
	done := api.Start(stop)
	url := fmt.Sprintf("http://127.0.0.1:%d/v1", port)
	for i := 0; i < 100; i++ {
		if _, err := rpcCall(url, "properties", nil); err == nil {
			break
		}
		time.Sleep(20 * time.Millisecond)
	}
	fake.SetTip(0)
	d.Start()
	var calls, early int64
	var wg sync.WaitGroup
	quit := make(chan struct{})
	var earlyExample atomic.Value
	userAddr := g.Users[0].FA().String()
	methods := []struct {
		name   string
		params func(h uint32) interface{}
	}{
		{"get-global-rich-list", func(h uint32) interface{} { return map[string]interface{}{"count": 10} }},
		{"get-rich-list", func(h uint32) interface{} { return map[string]interface{}{"asset": "pUSD", "count": 10} }},
		{"get-sync-status", func(h uint32) interface{} { return nil }},
		{"get-pegnet-rates", func(h uint32) interface{} { return map[string]interface{}{"height": h} }},
		{"get-pegnet-balances", func(h uint32) interface{} { return map[string]interface{}{"address": userAddr} }},
		{"get-pegnet-issuance", func(h uint32) interface{} { return nil }},
		{"get-transactions", func(h uint32) interface{} { return map[string]interface{}{"address": userAddr} }},
		{"get-bank", func(h uint32) interface{} { return map[string]interface{}{"height": h} }},
	}
	workers := 6
	// the first blocks are synced without any request, so that the sync loop's averaging cache
	// already exists when the first handler runs (a handler that copied or captured the node's
	// state at first use would otherwise start from an empty one)
	warm := uint32(10)
	for h := uint32(1); h <= warm; h++ {
		if synced, msg := d.StepTo(h); synced < int64(h) {
			rep.Violate("api:sync-stuck-or-crashed", fmt.Sprintf("height %d before any API request: %s", h, msg), "")
			d.Stop()
			return
		}
		rep.Traces++
	}
	// every COMMIT of the sync loop is held back for a moment: whatever the daemon publishes
	// before its block is committed stays observable for that long
	Wrap.mu.Lock()
	Wrap.CommitDelay = 12 * time.Millisecond
	Wrap.mu.Unlock()
	defer func() {
		Wrap.mu.Lock()
		Wrap.CommitDelay = 0
		Wrap.mu.Unlock()
	}()
	for wkr := 0; wkr < workers; wkr++ {
		wg.Add(1)
		go func(id int) {
			defer wg.Done()
			i := id
			for {
				select {
				case <-quit:
					return
				default:
				}
				mth := methods[i%len(methods)]
				i++
				h := fake.Tip()
				res, err := rpcCall(url, mth.name, mth.params(h))
				atomic.AddInt64(&calls, 1)
				if err == nil && mth.name == "get-sync-status" {
					var st struct {
						Sync uint32 `json:"syncheight"`
					}
					if json.Unmarshal(res, &st) == nil {
						committed := CommittedSynced(d.DBPath)
						if committed >= 0 && int64(st.Sync) > committed {
							// re-check after a moment: was it merely committed between the two reads?
							atomic.AddInt64(&early, 1)
							earlyExample.Store(fmt.Sprintf("get-sync-status reported %d while the committed sync height was %d", st.Sync, committed))
						}
					}
				}
			}
		}(wkr)
	}
	stuck := ""
	for h := warm + 1; h <= length; h++ {
		synced, msg := d.StepTo(h)
		rep.Traces++
		if synced < int64(h) {
			stuck = fmt.Sprintf("height %d under API load: %s", h, msg)
			break
		}
	}
	close(quit)
	wg.Wait()
	// the API server is left running until the process ends: srv.Shutdown(nil) dereferences its
	// nil context whenever a keep-alive connection is still open (a shutdown-time crash that is
	// outside this property: it cannot happen while the daemon serves and syncs)
	_ = stop
	_ = done
	d.Stop()
	rep.Distribution["api_calls"] = int(calls)
	rep.Distribution["workers"] = workers
	rep.Case("api-load", true)
	rep.Case(fmt.Sprintf("calls>0=%v", calls > 0), calls > 0)
	rep.Evaluations = int(calls) + int(length)
	if stuck != "" {
		rep.Violate("api:sync-stuck-or-crashed", stuck, "")
	} else {
		dump, err := DumpDB(d.DBPath)
		if err != nil {
			rep.Note("infrastructure: %v", err)
		} else if diff := FirstDiff(dropBackfill(dump), dropBackfill(refDump)); diff != "" {
			path := WriteReplay(rep.Property, "api", Replay{Property: rep.Property, Scenario: "api", Seed: seed, Setup: s,
				What: "the ledger synced under concurrent API load differs from the ledger synced without it", Detail: []string{diff}, Blocks: ChainJSON(chain)})
			rep.Violate("api:ledger-differs", diff, path)
		}
	}
	if early > 0 {
		ex, _ := earlyExample.Load().(string)
		rep.Violate("api:height-published-before-commit", fmt.Sprintf("%d of the get-sync-status answers named a height that was not committed yet, e.g. %s", early, ex), "")
	}
	rep.Sample(map[string]interface{}{"chain_length": length, "api_calls": calls, "early_height_answers": early})
	apiLockedCommits(rep, s, chain, refDump, seed)
	apiUnderWriterLock(rep, d.DBPath, userAddr)
	rep.Rule = "one evaluation = one API request served by the real srv handlers over HTTP (6 client goroutines cycling through the read methods) while the real DBlockSync applies the chain block by block, plus one per block; final ledger compared with the load-free lock-step run; distinct is not meaningful for a schedule exploration and is reported as the number of scenario phases"
}

// apiLockedCommits: the default storage configuration is SQLite's rollback journal, in which a
// reader's SHARED lock blocks COMMIT. A slow API read (a rich list over a large table, a slow
// client) can therefore outlast the busy timeout and make the COMMIT of a block fail with
// "database is locked". That must neither crash the daemon nor change the ledger: the block is
// retried. Here the busy timeout of the daemon's pool is 40 ms (an operator sets it with db.mode)
// and a reader on the same pool keeps a cursor open for 120 ms out of every 200.
func apiLockedCommits(rep *Report, s Setup, chain []*BlockSpec, refDump []string, seed int64) {
	s.Apply()
	fake := NewFakeFactom()
	for _, b := range chain {
		fake.Install(&BlockSpec{Height: b.Height, Time: b.Time, OPR: b.OPR, SPR: b.SPR, TX: b.TX, FCT: b.FCT})
	}
	dir := tempDir("verif-api-locked-")
	defer os.RemoveAll(dir)
	DaemonDSNExtra = "&_busy_timeout=40"
	d, err := OpenDaemon(dir, fake)
	DaemonDSNExtra = ""
	if err != nil {
		rep.Note("infrastructure: %v", err)
		return
	}
	if d.JournalMode == "wal" {
		rep.Note("locked-commit phase skipped: the daemon's default journal mode is WAL")
		d.Stop()
		return
	}
	fake.SetTip(0)
	d.Start()
	quit := make(chan struct{})
	var wg sync.WaitGroup
	var held int64
	wg.Add(1)
	go func() {
		defer wg.Done()
		for {
			select {
			case <-quit:
				return
			default:
			}
			rows, err := d.N.Pegnet.DB.Query("SELECT * FROM pn_addresses")
			if err == nil {
				if rows.Next() {
					atomic.AddInt64(&held, 1)
					time.Sleep(120 * time.Millisecond)
				}
				rows.Close()
			}
			time.Sleep(80 * time.Millisecond)
		}
	}()
	tip := uint32(len(chain))
	if tip > 30 {
		tip = 30
	}
	theHook.Clear()
	commitFailures := 0
	stuck := ""
	for h := uint32(1); h <= tip && stuck == ""; h++ {
		fake.SetTip(h)
		deadline := time.Now().Add(20 * time.Second)
		for CommittedSynced(d.DBPath) < int64(h) {
			if p := d.Panicked(); p != "" {
				stuck = fmt.Sprintf("height %d with a reader holding the database: panic: %s", h, p)
				break
			}
			if time.Now().After(deadline) {
				stuck = fmt.Sprintf("height %d with a reader holding the database: not synced after 20 s: %s", h, theHook.Last())
				break
			}
			time.Sleep(2 * time.Millisecond)
		}
		commitFailures += theHook.Count("unable to commit")
		theHook.Clear()
		rep.Traces++
	}
	close(quit)
	wg.Wait()
	d.Stop()
	rep.Distribution["locked:reader-cursors-held"] = int(held)
	rep.Distribution["locked:commit-failures-seen"] = commitFailures
	rep.Case(fmt.Sprintf("locked-commits|failures>0=%v", commitFailures > 0), true)
	rep.Evaluations += int(tip)
	if stuck != "" {
		rep.Violate("api:commit-blocked-by-reader", stuck, "")
		return
	}
	// the reference ledger at height tip: replay the chain prefix without load
	ref, _, ok := replayWithRestartsX(rep, s, chain[:tip], map[uint32]bool{})
	if !ok {
		return
	}
	dump, err := DumpDB(d.DBPath)
	if err != nil {
		rep.Note("infrastructure: %v", err)
		return
	}
	if diff := FirstDiff(dropBackfill(dump), dropBackfill(ref)); diff != "" {
		path := WriteReplay(rep.Property, "api-locked", Replay{Property: rep.Property, Scenario: "api", Seed: seed, Setup: s,
			What: "the ledger synced while a reader kept blocking COMMIT differs from the ledger synced without it", Detail: []string{diff}, Blocks: ChainJSON(chain[:tip])})
		rep.Violate("api:ledger-differs:locked-commit", diff, path)
	}
}

func init() { scenarios["api"] = scenAPI }
