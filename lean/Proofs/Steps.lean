import Proofs.Hoare
/-
  Automation for `Step` goals over the ledger monad.
-/
namespace Pegnet

theorem Step.guarded {σ} {R : Rel σ} {g : σ → Option Failure} {u : σ → σ}
    (h : ∀ s, R.r s (u s)) : Step R (M.guarded g u) := by
  constructor
  intro s
  unfold M.guarded
  cases hg : g s with
  | some e => exact R.refl s
  | none => exact h s

/-- registered `Step` facts (primitives with a real obligation, and composite functions once
    proved) found by instance search -/
class StepPrim {σ α} (R : Rel σ) (m : M σ α) : Prop where
  step : Step R m

/-- decompose a `Step R prog` goal along the structure of `prog` -/
syntax "step_tac" : tactic
macro_rules
  | `(tactic| step_tac) => `(tactic|
    repeat (first
      | exact StepPrim.step
      | exact Step.pure _
      | exact Step.pure' _
      | exact Step.throw _
      | exact Step.get
      | assumption
      | (apply Step.guarded; intro _; first | rfl | exact id | (simp only [keepRel]; (repeat' split) <;> rfl))
      | apply Step.swallow
      | apply Step.forEach
      | apply Step.forEachIdx
      | apply Step.foldM
      | apply Step.bind
      | apply Step.bind'
      | intro _
      | split
      | dsimp only))

end Pegnet
