import Pegnet.Json
/-
  fat/fat2: the JSON ENCODERS (`encoding/json` over the structs of transaction.go /
  transactionbatch.go, `PTicker.MarshalJSON`, `TransactionBatch.MarshalJSON`), producing the same
  token tree the decoder model reads.

  Outside the model: how an address is written (`factom.FAAddress.MarshalJSON`, base58 with
  checksum) — the encoder takes it as a parameter `al : Addr → String × String` (lexeme with quotes,
  decoded value) and the node it writes carries the address itself, i.e. "the address text decodes
  back to the address" is assumed of the factom library. Numbers are written by `strconv` in
  decimal (`Nat.repr`).
-/
namespace Pegnet

def kf (k : String) (v : J) : String × String × J := ("\"" ++ k ++ "\"", k, v)

def encAddr (al : Addr → String × String) (a : Addr) : J := .str (al a).1 (al a).2 (some a)

def encNat (n : Nat) : J := .num (Nat.repr n)

/-- `PTicker.MarshalJSON`: an error for anything outside the table -/
def encTicker (P : Params) (t : Ticker) : Option J :=
  if validTicker P t then some (.str ("\"" ++ tickerName P t ++ "\"") (tickerName P t) none) else none

def encTuple (al : Addr → String × String) (tr : Transfer) : J :=
  .obj [kf "address" (encAddr al tr.addr), kf "amount" (encNat tr.amount)]

def encTyped (P : Params) (al : Addr → String × String) (a : Addr) (n : Nat) (ty : Ticker) : Option J :=
  match encTicker P ty with
  | none => none
  | some tj => some (.obj [kf "address" (encAddr al a), kf "amount" (encNat n), kf "type" tj])

/-- `json.Marshal(Transaction)`: `transfers` omitted when empty, `conversion` omitted when zero -/
def encTx (P : Params) (al : Addr → String × String) (t : Tx) : Option J :=
  match encTyped P al t.inAddr t.inAmount t.inType with
  | none => none
  | some ij =>
    let trs := if t.transfers.isEmpty then [] else [kf "transfers" (.arr (t.transfers.map (encTuple al)))]
    if t.conversion = 0 then some (.obj ([kf "input" ij] ++ trs))
    else
      match encTicker P t.conversion with
      | none => none
      | some cj => some (.obj ([kf "input" ij] ++ trs ++ [kf "conversion" cj]))

def encTxs (P : Params) (al : Addr → String × String) : List Tx → Option (List J)
  | [] => some []
  | t :: ts =>
    match encTx P al t, encTxs P al ts with
    | some x, some xs => some (x :: xs)
    | _, _ => none

/-- `TransactionBatch.MarshalJSON`: refuses what `ValidData` refuses -/
def encBatch (P : Params) (al : Addr → String × String) (v : Nat) (txs : List Tx) : Option J :=
  if validData P v txs then
    match encTxs P al txs with
    | none => none
    | some items => some (.obj [kf "version" (encNat v), kf "transactions" (.arr items)])
  else none

end Pegnet
