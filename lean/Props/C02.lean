import Proofs.Chain
import Pegnet.Generated.Facts
/-
  C02 — Per-block atomicity and crash consistency of the balance store.
  In the model a block is one function `DB → Res DB`; what the theorems add is that its result is
  all-or-nothing, that the height bump is part of it, that a height cannot be applied twice, and
  (regenerated from the source) that no write of the sync path bypasses the block transaction.
-/
namespace Pegnet.C02
open Pegnet

/-- A block is applied completely or not at all: either the committed database is untouched
    (and a failure is reported), or it is the result of the complete block transaction. -/
theorem block_all_or_nothing (P : Params) (n : Node) (b : Block) :
    ((applyBlock P n b).1.db = n.db) ∨
    (∃ s' avgs, blockTx P { n.db with avgTouched := false } b avgs { n.db with avgTouched := false } = .ok () s' ∧
      (applyBlock P n b).1.db = { s' with avgTouched := false } ∧ (applyBlock P n b).2 = none) :=
  applyBlock_db P n b

/-- a reported failure means nothing of the block was committed -/
theorem failure_commits_nothing (P : Params) (n : Node) (b : Block) (e : Failure)
    (hf : (applyBlock P n b).2 = some e) : (applyBlock P n b).1.db = n.db := by
  rcases applyBlock_db P n b with h | ⟨_, _, _, _, hnone⟩
  · exact h
  · rw [hnone] at hf; cases hf

/-- version rows are only ever added by the block transaction -/
def svGrow : Rel DB where
  r s s' := ∀ x ∈ s.syncVersions, x ∈ s'.syncVersions
  refl _ _ h := h
  trans _ _ _ h1 h2 x hx := h2 x (h1 x hx)

theorem primsOK_svGrow (P : Params) (h : Nat) : PrimsOK P h svGrow where
  addBal _ _ _ := Step.guarded (fun _ _ hx => hx)
  subBal a t v := subBal_step_of P a t v (Step.guarded (fun _ _ hx => hx)) (Step.guarded (fun _ _ hx => hx))
  insertRate _ _ := Step.guarded (fun _ _ hx => hx)
  insertHistBatch _ := Step.guarded (fun _ _ hx => hx)
  insertHistTx _ := Step.guarded (fun _ _ hx => hx)
  insertLookup _ := Step.guarded (fun s x hx => by split <;> exact hx)
  setExecuted _ _ := Step.guarded (fun _ _ hx => hx)
  setConvertedAmount _ _ _ := Step.guarded (fun _ _ hx => hx)
  setPegConverted _ _ _ _ := Step.guarded (fun _ _ hx => hx)
  insertRelation _ _ _ _ _ := Step.guarded (fun s x hx => by split <;> exact hx)
  insertHolding _ _ := Step.guarded (fun _ _ hx => hx)
  insertBank _ := Step.guarded (fun _ _ hx => hx)
  updateBank _ _ _ := Step.guarded (fun _ _ hx => hx)
  insertGrade _ _ _ _ _ := Step.guarded (fun _ _ hx => hx)
  insertWinner _ _ _ _ _ := Step.guarded (fun _ _ hx => hx)
  markSynced _ := Step.guarded (fun _ x hx => List.mem_append_left _ hx)
  rotate := Step.guarded (fun _ _ hx => hx)
  touch := Step.guarded (fun _ _ hx => hx)

/-- Heights are applied once each: a block whose height already has a version row cannot be
    committed again (the PRIMARY KEY on `pn_sync_version.height` makes the bump fail, and the
    bump is part of the block transaction). -/
theorem height_applied_once (P : Params) (n : Node) (b : Block) (v : Int)
    (hrow : (b.height, v) ∈ n.db.syncVersions) : (applyBlock P n b).2 ≠ none := by
  intro hnone
  rcases applyBlock_db P n b with hdb | ⟨s', avgs, hs, _, _⟩
  · -- unchanged database but "no failure": inspect the definition
    unfold applyBlock at hnone
    simp only at hnone
    split at hnone
    · rename_i s' hs
      -- success: then markSynced succeeded although the row existed
      unfold blockTx at hs
      obtain ⟨_, s1, h1, hs⟩ := M.bind_ok hs
      obtain ⟨_, s2, h2, hs⟩ := M.bind_ok hs
      have ok := primsOK_svGrow P b.height
      have g1 : svGrow.r _ s1 := (burnZeroing_step _ b ok).ok h1
      have g2 : svGrow.r s1 s2 := (syncBlock_step _ b _ ok).ok h2
      have hmem : (b.height, v) ∈ s2.syncVersions := g2 _ (g1 _ hrow)
      unfold markSynced M.guarded at hs
      have hany : s2.syncVersions.any (·.1 == b.height) = true :=
        List.any_eq_true.2 ⟨_, hmem, by simp⟩
      simp [hany] at hs
    · cases hnone
  · unfold blockTx at hs
    obtain ⟨_, s1, h1, hs⟩ := M.bind_ok hs
    obtain ⟨_, s2, h2, hs⟩ := M.bind_ok hs
    have ok := primsOK_svGrow P b.height
    have g1 : svGrow.r _ s1 := (burnZeroing_step _ b ok).ok h1
    have g2 : svGrow.r s1 s2 := (syncBlock_step _ b _ ok).ok h2
    have hmem : (b.height, v) ∈ s2.syncVersions := g2 _ (g1 _ hrow)
    unfold markSynced M.guarded at hs
    have hany : s2.syncVersions.any (·.1 == b.height) = true :=
      List.any_eq_true.2 ⟨_, hmem, by simp⟩
    simp [hany] at hs

/-- a committed block records its own height as the sync height, in the same transaction -/
theorem commit_bumps_height (P : Params) (c : DB) (b : Block) (avgs : TMap) (s s' : DB)
    (hs : blockTx P c b avgs s = .ok () s') :
    s'.synced = some b.height ∧ (b.height, P.syncVersion) ∈ s'.syncVersions := by
  unfold blockTx at hs
  obtain ⟨_, s1, _, hs⟩ := M.bind_ok hs
  obtain ⟨_, s2, _, hs⟩ := M.bind_ok hs
  unfold markSynced M.guarded at hs
  split at hs
  · cases hs
  · injection hs with _ hs
    subst hs
    exact ⟨rfl, by simp⟩

/-- Regenerated from /repo on every run: no SQL write of the sync path goes through the
    connection pool (every one uses the block's `*sql.Tx`), and the reads that do use the pool
    are exactly the known ones (each reads rows older than the block). -/
theorem all_writes_via_block_tx :
    Generated.poolWrites = [] ∧
    Generated.poolReadsSyncPath =
      ["node/pegnet/addresses.go:IsIncludedTopPEGAddress:pool:SELECT:p.DB",
       "node/pegnet/addresses.go:SelectBalances:pool-arg:p.selectBalances",
       "node/pegnet/addresses.go:SelectIssuances:pool:SELECT:p.DB",
       "node/pegnet/grading.go:SelectPreviousWinners:pool:SELECT:p.DB",
       "node/pegnet/grading.go:SelectRates:pool:SELECT:p.DB",
       "node/pegnet/txbatchholding.go:SelectTransactionBatchesInHoldingAtHeight:pool:SELECT:p.DB"] := by
  decide

end Pegnet.C02

#print axioms Pegnet.C02.block_all_or_nothing
#print axioms Pegnet.C02.failure_commits_nothing
#print axioms Pegnet.C02.height_applied_once
#print axioms Pegnet.C02.commit_bumps_height
#print axioms Pegnet.C02.all_writes_via_block_tx
