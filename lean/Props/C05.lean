import Proofs.BatchLemmas
/-
  C05 — Spend authorization.
  Signature checking itself (fat103 / ed25519 / secp256k1) is outside the model: an entry arrives
  with the two verdict bits the real library gives under the flag sets R_RCD1 and R_RCD1|R_RCDe.
  The theorems are about what pegnetd does with them.
-/
namespace Pegnet.C05
open Pegnet

/-- An entry that fails validation at the block's height has no effect at all when it arrives. -/
theorem invalid_entry_inert (P : Params) (h : Nat) (keymr : String) (bo : Nat) (e : TxEntry) (s : DB)
    (hinv : e.validAt P h = false) : applyTxEntry P h keymr bo e s = .ok () s := by
  unfold applyTxEntry
  rw [M.bind_run]
  simp only [M.get_run, hinv, Bool.false_and, Bool.false_eq_true, if_false]
  rfl

/-- …and a held batch that no longer validates at the executing height is not executed: only its
    status becomes −2; balances and relation rows are untouched. -/
theorem held_revalidated (P : Params) (h : Nat) (rates avgs : TMap) (e : TxEntry) (s s' : DB) (j : Bool)
    (hinv : e.validAt P h = false) (hr : applyHeld P h rates avgs e s = .ok j s') :
    s'.addrs = s.addrs ∧ s'.rels = s.rels ∧ j = false := by
  unfold applyHeld at hr
  rw [M.bind_run] at hr
  simp only [M.get_run, hinv, Bool.not_false, Bool.or_true, if_true] at hr
  obtain ⟨_, s1, h1, h2⟩ := M.bind_ok hr
  simp only [M.pure_run] at h2
  injection h2 with hj hs
  subst hs
  unfold setExecuted M.guarded at h1
  simp only at h1
  injection h1 with _ hs1
  subst hs1
  exact ⟨rfl, rfl, hj.symm⟩

/-- The key type is selected by height: the secp256k1 (RCD-e) verdict is consulted only strictly
    above the activation height, both on arrival and on execution from holding. -/
theorem key_type_by_height (P : Params) (e : TxEntry) (h : Nat) :
    e.sigOK P h = (if h > P.act.rcde then e.validRCDe else e.validRCD1) := rfl

/-- an entry valid only under RCD-e is not valid at or below the activation height -/
theorem rcde_only_after_activation (P : Params) (e : TxEntry) (h : Nat)
    (h1 : e.validRCD1 = false) (hh : h ≤ P.act.rcde) : e.validAt P h = false := by
  unfold TxEntry.validAt
  cases e.parsed with
  | none => rfl
  | some p =>
    obtain ⟨v, txs⟩ := p
    simp only [TxEntry.sigOK]
    have : ¬ h > P.act.rcde := by omega
    simp [this, h1]

/-- a batch with inputs from two different addresses is never valid (single input address) -/
theorem single_input_address (P : Params) (v : Nat) (t1 t2 : Tx) (rest : List Tx)
    (hne : t2.inAddr ≠ t1.inAddr) : validData P v (t1 :: t2 :: rest) = false := by
  unfold validData
  have : (t2 :: rest).all (fun t => t.inAddr == t1.inAddr) = false := by
    simp [hne]
  simp [this]

/-- the int64 bound on inputs -/
theorem input_bound (P : Params) (e : TxEntry) (h : Nat) (v : Nat) (txs : List Tx) (t : Tx)
    (hp : e.parsed = some (v, txs)) (ht : t ∈ txs) (hbig : t.inAmount > maxInt64) : e.validAt P h = false := by
  unfold TxEntry.validAt
  rw [hp]
  simp only
  have : txs.all (fun t => decide (t.inAmount ≤ maxInt64)) = false := by
    rw [List.all_eq_false]
    exact ⟨t, ht, by simp; omega⟩
  simp [this]

/-- One entry (hash) executes at most once — see C06. What the model does NOT give, and the real
    code does not either, is "one SIGNATURE, one execution": replay protection is keyed on the
    entry hash, and the RCD-e check ignores the signature's 65th byte, so entries that differ only
    there are distinct hashes with equal validity. In the model two such entries are simply two
    valid entries; both execute. -/
theorem distinct_hashes_both_execute_witness :
    ∃ (e₁ e₂ : TxEntry), e₁.hash ≠ e₂.hash ∧ e₁.parsed = e₂.parsed ∧ e₁.validRCDe = e₂.validRCDe :=
  ⟨{ hash := "aa", ts := 0, parsed := none, validRCD1 := false, validRCDe := true },
   { hash := "ab", ts := 0, parsed := none, validRCD1 := false, validRCDe := true }, by decide, rfl, rfl⟩

end Pegnet.C05

#print axioms Pegnet.C05.invalid_entry_inert
#print axioms Pegnet.C05.held_revalidated
#print axioms Pegnet.C05.key_type_by_height
#print axioms Pegnet.C05.rcde_only_after_activation
#print axioms Pegnet.C05.single_input_address
#print axioms Pegnet.C05.input_bound
#print axioms Pegnet.C05.distinct_hashes_both_execute_witness
