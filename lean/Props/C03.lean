import Proofs.BatchLemmas
import Proofs.Precheck
/-
  C03 — No overdraft; batches are all-or-nothing.
-/
namespace Pegnet.C03
open Pegnet

/-- No balance is ever negative: after replaying ANY chain of blocks (any entries on the tracked
    chains, any answers of the grading / signature libraries, any failures along the way) every
    address holds a non-negative amount of every asset, and has exactly one balance row. -/
theorem balances_nonneg (P : Params) (chain : List Block) (a : Addr) (t : Ticker) :
    0 ≤ (runBlocks P (freshNode P) chain).db.bal a t := by
  apply bal_nonneg_of_addrsOK
  apply runBlocks_addrsOK
  exact ⟨List.nodup_nil, fun r hr => by cases hr⟩

/-- …and the same from any state that satisfies the invariant (e.g. a database being resumed). -/
theorem balances_nonneg_from (P : Params) (n : Node) (chain : List Block) (h : AddrsOK n.db)
    (a : Addr) (t : Ticker) : 0 ≤ (runBlocks P n chain).db.bal a t :=
  bal_nonneg_of_addrsOK (runBlocks_addrsOK P n chain h) a t

/-- A batch is applied completely or not at all, part 1: a batch that is rejected (codes −1, −3,
    −4, −5) or dropped leaves the whole state exactly as it was (the caller then records only the
    status code). -/
theorem reject_is_noop {P : Params} {h : Nat} {e : TxEntry} {rates avgs : Option TMap} {s s' : DB} {v : Verdict}
    (hr : applyBatch P h e rates avgs s = .ok v s') (hv : v ≠ .apply) : s' = s :=
  applyBatch_noop hr hv

/-- No batch can spend more of an asset than its input address holds when it executes:
    every transaction of an accepted batch passed the funds check against the balance held
    before the batch. -/
theorem no_overspend {P : Params} {db : DB} {h : Nat} {rates avgs : Option TMap} {t0 : Tx} {rest : List Tx}
    (hv : verdict P db h rates avgs (t0 :: rest) = .apply) :
    ∀ t ∈ t0 :: rest, (t.inAmount : Int) ≤ db.bal t0.inAddr t.inType :=
  verdict_apply_funded hv

/-- **`precheck_sound`: the in-memory simulation before any write agrees with the writes.** If
    both passes of `applyTransactionBatch` accept a batch (all its inputs name one address, as
    `Validate` guarantees; not the burn address, which nobody can sign for), then `recordBatch` —
    which re-checks every debit against the database — never meets an insufficient balance,
    however the transactions of the batch interact: several inputs drawing on one balance, credits
    arriving mid-batch from conversions and from outputs back to the sender, PEG requests whose
    output is deferred to the bank pass (fix eb58d6d). Any failure it can end in is an SQL-level
    one that fails the whole block. So no batch spends more of an asset than its input address
    holds at the moment it executes, and an accepted batch is applied completely. -/
theorem precheck_sound (P : Params) (db : DB) (h : Nat) (hash : Hash) (rates avgs : Option TMap) (t0 : Tx) (rest : List Tx)
    (hv : verdict P db h rates avgs (t0 :: rest) = .apply)
    (hall : ∀ t ∈ rest, t.inAddr = t0.inAddr) (hb : t0.inAddr ≠ burnAddrAt P h) :
    ∀ e s', recordBatch P h hash rates avgs (t0 :: rest) db = .fail e s' → e ≠ .uncaught "insufficient balance" :=
  recordBatch_never_short P h hash rates avgs t0.inAddr hb (t0 :: rest) db
    (fun t ht => by
      rcases List.mem_cons.1 ht with rfl | ht
      · rfl
      · exact hall t ht)
    (verdict_apply_pass2 hv)

/-- one step of the cumulative pass: the transaction's input is covered by what the address holds
    after the earlier transactions of the same batch, and the balance carried forward is the old
    one minus the input plus what this transaction credits back to the address -/
theorem cumulative_pass_step {P : Params} {h : Nat} {rates avgs : Option TMap} {bal : Ticker → Int} {t : Tx} {rest : List Tx}
    (hp : pass2 P h rates avgs bal (t :: rest) = none) :
    (t.inAmount : Int) ≤ bal t.inType ∧ ∃ c, creditOf P h rates avgs t = some c ∧
      pass2 P h rates avgs (fun x => bal x - (if x = t.inType then (t.inAmount : Int) else 0) + c x) rest = none :=
  pass2_cons_none hp

/-- the debit itself re-checks: `SubFromBalance` never writes when the balance is short -/
theorem debit_guarded (P : Params) (a : Addr) (t : Ticker) (v : Nat) (s : DB)
    (hv : v ≠ 0) (hvt : validTicker P t = true) (hshort : s.bal a t < (v : Int)) :
    subBal P a t v s = .ok false s := by
  unfold subBal
  rw [if_neg hv, if_neg (by simp [hvt]), M.bind_run]
  simp only [M.get_run]
  rw [if_pos hshort]
  rfl

/-- part 2: any failure inside the block transaction leaves the committed database untouched -/
theorem failed_block_changes_nothing (P : Params) (n : Node) (b : Block) (e : Failure)
    (hf : (applyBlock P n b).2 = some e) : (applyBlock P n b).1.db = n.db := by
  rcases applyBlock_db P n b with h | ⟨_, _, _, _, hnone⟩
  · exact h
  · rw [hnone] at hf; cases hf

/-! non-vacuity: a two-transaction batch drawing twice on the same 10 units is rejected by the
    cumulative pass although each transaction alone is funded. -/
def exP : Params :=
  { act := ⟨0,0,0,0,0,0,0,0,0,0,0,0,0,0,0,0,0⟩, tickerMax := 63, tickerNames := [], oneWaySet := [],
    snapshotRate := 144, perBlockHolders := 0, perBlockDevs := 0, bankBase := 0, avgPeriod := 8, avgRequired := 4,
    syncVersion := 2, devs := [], «mint» := [], burnAddr := "burn", oldBurnAddr := "old", mintAddr := "mint",
    coinbaseAddr := "cb", zeroAddr := "00" }
def exDB : DB := { addrs := [{ addr := "alice", bals := setB [] 2 10 }] }
def exTx : Tx := { inAddr := "alice", inType := 2, inAmount := 10, transfers := [{ addr := "bob", amount := 10 }], conversion := 0 }
example : verdict exP exDB 5 none none [exTx] = .apply := by decide
example : verdict exP exDB 5 none none [exTx, exTx] = .reject (-1) := by decide

end Pegnet.C03

#print axioms Pegnet.C03.balances_nonneg
#print axioms Pegnet.C03.balances_nonneg_from
#print axioms Pegnet.C03.reject_is_noop
#print axioms Pegnet.C03.no_overspend
#print axioms Pegnet.C03.debit_guarded
#print axioms Pegnet.C03.failed_block_changes_nothing
#print axioms Pegnet.C03.precheck_sound
#print axioms Pegnet.C03.cumulative_pass_step
