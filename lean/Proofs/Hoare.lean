import Pegnet.Sync
/-
  A small program logic for the model monad: `Step R m` says every run of `m` (successful or
  failed — a failed run's state matters where the Go code swallows the error) relates the start
  state to the end state by the reflexive-transitive relation `R`.
  Invariants are the special case `R s s' := I s → I s'`.
-/
namespace Pegnet

/-- end state of a run -/
def Res.state {σ α} : Res σ α → σ
  | .ok _ s => s
  | .fail _ s => s

structure Rel (σ : Type) where
  r : σ → σ → Prop
  refl : ∀ s, r s s
  trans : ∀ a b c, r a b → r b c → r a c

structure Step {σ α} (R : Rel σ) (m : M σ α) : Prop where
  run : ∀ s, R.r s (m s).state

namespace Step
variable {σ α β : Type} {R : Rel σ}

theorem pure (a : α) : Step R (Pure.pure a : M σ α) := ⟨fun s => R.refl s⟩
theorem pure' (a : α) : Step R (M.pure a : M σ α) := ⟨fun s => R.refl s⟩
theorem throw (e : Failure) : Step R (M.throw e : M σ α) := ⟨fun s => R.refl s⟩
theorem get : Step R (M.get : M σ σ) := ⟨fun s => R.refl s⟩

theorem modify {f : σ → σ} (h : ∀ s, R.r s (f s)) : Step R (M.modify f) := ⟨fun s => h s⟩

theorem bind {m : M σ α} {f : α → M σ β} (hm : Step R m) (hf : ∀ a, Step R (f a)) :
    Step R (m >>= f) := by
  constructor
  intro s
  show R.r s (M.bind m f s).state
  unfold M.bind
  have h1 := hm.run s
  cases hms : m s with
  | ok a s' =>
    rw [hms] at h1
    exact R.trans _ _ _ h1 ((hf a).run s')
  | fail e s' =>
    rw [hms] at h1
    exact h1

theorem bind' {m : M σ α} {f : α → M σ β} (hm : Step R m) (hf : ∀ a, Step R (f a)) :
    Step R (M.bind m f) := bind hm hf

theorem seq {m : M σ α} {k : M σ β} (hm : Step R m) (hk : Step R k) :
    Step R (m >>= fun _ => k) := bind hm (fun _ => hk)

theorem swallow {m : M σ Unit} (hm : Step R m) : Step R (M.swallow m) := by
  constructor
  intro s
  have h1 := hm.run s
  unfold M.swallow
  cases hms : m s with
  | ok a s' => rw [hms] at h1; exact h1
  | fail e s' => rw [hms] at h1; exact h1

theorem forEach {l : List α} {f : α → M σ Unit} (hf : ∀ a, Step R (f a)) : Step R (M.forEach l f) := by
  induction l with
  | nil => exact pure' ()
  | cons x xs ih => exact bind' (hf x) (fun _ => ih)

theorem forEachIdx {l : List α} {f : Nat → α → M σ Unit} (hf : ∀ i a, Step R (f i a)) :
    Step R (M.forEachIdx l f) := forEach (fun p => hf p.2 p.1)

theorem foldM {f : β → α → M σ β} {l : List α} {b : β} (hf : ∀ b a, Step R (f b a)) :
    Step R (M.foldM f b l) := by
  induction l generalizing b with
  | nil => exact pure' b
  | cons x xs ih => exact bind' (hf b x) (fun b' => ih)

theorem ite {c : Prop} [Decidable c] {a b : M σ α} (ha : Step R a) (hb : Step R b) :
    Step R (if c then a else b) := by
  split <;> assumption

/-- a primitive written as an explicit state function -/
theorem of_fun {m : M σ α} (h : ∀ s, R.r s (m s).state) : Step R m := ⟨h⟩

end Step

/-- the relation "invariant `I` is preserved" -/
def invRel {σ} (I : σ → Prop) : Rel σ where
  r s s' := I s → I s'
  refl _ h := h
  trans _ _ _ h1 h2 h := h2 (h1 h)

/-- the relation "observation `f` is unchanged" -/
def keepRel {σ β} (f : σ → β) : Rel σ where
  r s s' := f s' = f s
  refl _ := rfl
  trans _ _ _ h1 h2 := h2.trans h1

/-- the relation "`le (f s) (f s')`" for a preorder given explicitly (append-only tables) -/
def monoRel {σ β} (f : σ → β) (le : β → β → Prop) (hr : ∀ a, le a a) (ht : ∀ a b c, le a b → le b c → le a c) : Rel σ where
  r s s' := le (f s) (f s')
  refl s := hr (f s)
  trans _ _ _ h1 h2 := ht _ _ _ h1 h2

/-- on success the relation holds between start and result state -/
theorem Step.ok {σ α} {R : Rel σ} {m : M σ α} (h : Step R m) {s s' : σ} {a : α} (e : m s = .ok a s') :
    R.r s s' := by
  have := h.run s; rw [e] at this; exact this

theorem M.bind_ok {σ α β} {m : M σ α} {f : α → M σ β} {s s' : σ} {b : β}
    (h : (m >>= f) s = .ok b s') : ∃ a s1, m s = .ok a s1 ∧ f a s1 = .ok b s' := by
  rw [M.bind_run] at h
  cases hm : m s with
  | ok a s1 => rw [hm] at h; exact ⟨a, s1, rfl, h⟩
  | fail e s1 => rw [hm] at h; cases h


end Pegnet
