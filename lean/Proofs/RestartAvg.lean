import Proofs.AvgWindow
import Proofs.AvgGet
import Proofs.NonInterference
/-
  Restart independence ABOVE PIP-10, on chains whose averaging windows have no holes.

  Two processes with the same database whose caches both hold "the window of their height"
  (`CacheGood`: true of the empty cache of a fresh process and kept by every block) answer every
  ticker alike, so they apply the next block identically — and both stay good. The only hypothesis
  is the one the known finding is about: when the incremental path is taken, the window it starts
  from has no hole (`NoHole`), i.e. no ungraded block sits inside it after a quoted height.
-/
namespace Pegnet

def avgOf (P : Params) (l : List Nat) : Nat :=
  if P.avgPeriod - numberMissing P.avgPeriod l < P.avgRequired then 0
  else (l.sum % 18446744073709551616) / l.length

theorem computeAverages_get_series (P : Params) (d : List (Ticker × List Nat)) (t : Ticker) :
    (computeAverages P d).get t = avgOf P (series d t) := by
  unfold computeAverages TMap.get series dataGet
  rw [List.find?_map]
  have hf : ((fun x : Ticker × Nat => x.1 == t) ∘ fun p : Ticker × List Nat =>
      if P.avgPeriod - numberMissing P.avgPeriod p.2 < P.avgRequired then (p.1, 0)
      else (p.1, (p.2.sum % 18446744073709551616) / p.2.length)) = fun x => x.1 == t := by
    funext q
    simp only [Function.comp]
    split <;> rfl
  rw [hf]
  cases d.find? (·.1 == t) with
  | none =>
    simp only [Option.map_none, Option.getD_none, avgOf, List.sum_nil, List.length_nil, Nat.div_zero]
    split <;> rfl
  | some q =>
    simp only [Option.map_some, Option.getD_some, avgOf]
    split <;> rfl

theorem window_congr (P : Params) (db db' : DB) (H : Nat) (t : Ticker)
    (h : ∀ g, g ≤ H → db'.ratesAt g = db.ratesAt g) : window P db' H t = window P db H t := by
  unfold window
  generalize hk : H + 1 - startOf P.avgPeriod H = k
  have hle : ∀ i, i < k → startOf P.avgPeriod H + i ≤ H := by
    intro i hi; omega
  clear hk
  induction k with
  | zero => rfl
  | succ k ih =>
    simp only [cat]
    rw [ih (fun i hi => hle i (by omega))]
    congr 1
    unfold quoteAt
    rw [h _ (hle k (by omega))]

theorem cacheSem_congr (P : Params) (db db' : DB) (c : AvgCache)
    (h : ∀ g, g ≤ c.height → db'.ratesAt g = db.ratesAt g) (hc : CacheSem P db c) : CacheSem P db' c := by
  intro t
  rw [hc t, window_congr P db db' c.height t h]

theorem noHole_congr (P : Params) (db db' : DB) (H : Nat) (t : Ticker)
    (h : ∀ g, g ≤ H → db'.ratesAt g = db.ratesAt g) (hn : NoHole P db H t) : NoHole P db' H t := by
  intro hH i hi
  have e1 : quoteAt P db' (H + 1 - P.avgPeriod + i) t = quoteAt P db (H + 1 - P.avgPeriod + i) t := by
    unfold quoteAt; rw [h _ (by omega)]
  have e2 : quoteAt P db' (H + 1 - P.avgPeriod + i + 1) t = quoteAt P db (H + 1 - P.avgPeriod + i + 1) t := by
    unfold quoteAt; rw [h _ (by omega)]
  rw [e1, e2]
  exact hn hH i hi

/-- the cache of a node holds the window of its height, and that height has been synced -/
structure CacheGood (P : Params) (n : Node) : Prop where
  ok : CacheOK P n.cache
  sem : CacheSem P n.db n.cache
  le : n.cache.height ≤ n.mem

theorem cacheGood_restart (P : Params) (n : Node) : CacheGood P (restart P n) :=
  ⟨cacheOK_empty P, cacheSem_empty P _, Nat.zero_le _⟩

/-- **what a good cache answers**: the average of the height window asked for -/
theorem good_answer (P : Params) (hp : 0 < P.avgPeriod) (db : DB) (c : AvgCache) (height : Nat)
    (hc : CacheOK P c) (hs : CacheSem P db c) (hh : ∀ t, NoHole P db (height - 1) t) (t : Ticker) :
    (getAverages P db c height).2.get t = avgOf P (window P db height t) := by
  obtain ⟨hok, he⟩ := getAverages_ok P hp db c height hc
  obtain ⟨hsem, hht⟩ := getAverages_sem P hp db c height hs (by
    intro e t'
    have : c.height = height - 1 := by omega
    rw [this]; exact hh t')
  rw [he, hok.avgs, computeAverages_get_series, hsem t, hht]

/-- two good caches over one database give answers that agree on every ticker -/
theorem good_answers_agree (P : Params) (hp : 0 < P.avgPeriod) (db : DB) (c₁ c₂ : AvgCache) (height : Nat)
    (h1 : CacheOK P c₁) (s1 : CacheSem P db c₁) (h2 : CacheOK P c₂) (s2 : CacheSem P db c₂)
    (hh : ∀ t, NoHole P db (height - 1) t) (t : Ticker) :
    (getAverages P db c₁ height).2.get t = (getAverages P db c₂ height).2.get t := by
  rw [good_answer P hp db c₁ height h1 s1 hh, good_answer P hp db c₂ height h2 s2 hh]

theorem fromH_lt (db : DB) (h : Nat) (hpos : 0 < h) : (db.mostRecentRatesBefore h).2 < h := by
  unfold DB.mostRecentRatesBefore
  dsimp only
  generalize hhs : (db.rates.filter (·.height < h)).map (·.height) = hs
  have hall : ∀ x ∈ hs, x < h := by
    intro x hx
    rw [← hhs] at hx
    obtain ⟨q, hq, rfl⟩ := List.mem_map.1 hx
    simpa using (List.mem_filter.1 hq).2
  cases hs with
  | nil => exact hpos
  | cons x xs =>
    dsimp only
    have : ∀ (l : List Nat) (a : Nat), a < h → (∀ y ∈ l, y < h) → l.foldl max a < h := by
      intro l
      induction l with
      | nil => intro a ha _; exact ha
      | cons y ys ih =>
        intro a ha hl
        simp only [List.foldl_cons]
        apply ih
        · have := hl y List.mem_cons_self
          omega
        · intro z hz; exact hl z (List.mem_cons_of_mem _ hz)
    exact this _ 0 hpos hall

/-- every averaging window the incremental path could start from, when block `h` is applied on
    `db`, has no hole -/
def WindowsWhole (P : Params) (db : DB) (h : Nat) : Prop :=
  ∀ t, NoHole P db ((db.mostRecentRatesBefore h).2 - 1) t

theorem applyBlock_good (P : Params) (hp : 0 < P.avgPeriod) (n : Node) (b : Block) (hb : b.height = n.mem + 1)
    (hg : CacheGood P n) (hw : WindowsWhole P n.db b.height) : CacheGood P (applyBlock P n b).1 := by
  have hr := applyBlock_ratesAt P n b
  have hlt := fromH_lt { n.db with avgTouched := false } b.height (by omega)
  have hsem0 : CacheSem P { n.db with avgTouched := false } n.cache :=
    cacheSem_congr P n.db _ n.cache (fun _ _ => rfl) hg.sem
  obtain ⟨hok', _⟩ := getAverages_ok P hp { n.db with avgTouched := false } n.cache
    (({ n.db with avgTouched := false } : DB).mostRecentRatesBefore b.height).2 hg.ok
  obtain ⟨hsem', hht'⟩ := getAverages_sem P hp { n.db with avgTouched := false } n.cache
    (({ n.db with avgTouched := false } : DB).mostRecentRatesBefore b.height).2 hsem0 (by
      intro e t
      have := hw t
      have e2 : n.cache.height = (n.db.mostRecentRatesBefore b.height).2 - 1 := by
        have : ({ n.db with avgTouched := false } : DB).mostRecentRatesBefore b.height = n.db.mostRecentRatesBefore b.height := rfl
        rw [this] at e; omega
      rw [e2]
      exact noHole_congr P n.db _ _ t (fun _ _ => rfl) this)
  unfold applyBlock at hr ⊢
  dsimp only at hr ⊢
  split at hr
  · rename_i u db' hres
    dsimp only at hr ⊢
    by_cases ht : db'.avgTouched = true
    · rw [if_pos ht]
      refine ⟨hok', ?_, ?_⟩
      · apply cacheSem_congr P { n.db with avgTouched := false } _ _ _ hsem'
        intro g hgle
        rw [hht'] at hgle
        exact hr g (by omega)
      · dsimp only; rw [hht']; omega
    · rw [if_neg ht]
      refine ⟨hg.ok, ?_, ?_⟩
      · apply cacheSem_congr P n.db _ _ _ hg.sem
        intro g hgle
        have := hg.le
        exact hr g (by omega)
      · have := hg.le; dsimp only; omega
  · rename_i e db' hres
    dsimp only
    by_cases ht : db'.avgTouched = true
    · rw [if_pos ht]
      refine ⟨hok', ?_, ?_⟩
      · exact cacheSem_congr P { n.db with avgTouched := false } _ _ (fun _ _ => rfl) hsem'
      · dsimp only; rw [hht']; omega
    · rw [if_neg ht]
      exact ⟨hg.ok, hg.sem, hg.le⟩

/-- `applyBlock_sv_blind` with the PIP-10 bound replaced by "the two caches answer alike" -/
theorem applyBlock_sv_blind_get {P : Params} (n₁ n₂ : Node) (b : Block) (A : VRows)
    (hdb : n₁.db = { n₂.db with syncVersions := A }) (hmem : n₁.mem = n₂.mem)
    (hg : A.any (·.1 == b.height) = n₂.db.syncVersions.any (·.1 == b.height))
    (hav : ∀ t, (getAverages P { n₁.db with avgTouched := false } n₁.cache
          (({ n₁.db with avgTouched := false } : DB).mostRecentRatesBefore b.height).2).2.get t
        = (getAverages P { n₂.db with avgTouched := false } n₂.cache
          (({ n₂.db with avgTouched := false } : DB).mostRecentRatesBefore b.height).2).2.get t) :
    (∃ A', (applyBlock P n₁ b).1.db = { (applyBlock P n₂ b).1.db with syncVersions := A' }) ∧
    (applyBlock P n₁ b).1.mem = (applyBlock P n₂ b).1.mem ∧ (applyBlock P n₁ b).2 = (applyBlock P n₂ b).2 := by
  unfold applyBlock
  simp only [hdb, hmem] at hav ⊢
  generalize (getAverages P _ n₁.cache _) = g₁ at hav ⊢
  generalize (getAverages P _ n₂.cache _) = g₂ at hav ⊢
  have key := blockTx_sv_blind (P := P) { n₂.db with avgTouched := false } A b g₂.2 A { n₂.db with avgTouched := false } hg
  rw [blockTx_get _ b g₁.2 g₂.2 hav]
  revert key
  generalize blockTx P { n₂.db with avgTouched := false } b g₂.2 { n₂.db with avgTouched := false } = r₂
  have e : ({ ({ n₂.db with syncVersions := A } : DB) with avgTouched := false } : DB)
      = { ({ n₂.db with avgTouched := false } : DB) with syncVersions := A } := rfl
  simp only at e ⊢
  generalize blockTx P _ b g₂.2 _ = r₁
  intro key
  cases r₁ with
  | ok u t₁ =>
    cases r₂ with
    | ok u' t₂ => simp only at key; subst key; exact ⟨⟨_, rfl⟩, rfl, rfl⟩
    | fail e' t₂ => exact key.elim
  | fail e t₁ =>
    cases r₂ with
    | ok u' t₂ => exact key.elim
    | fail e' t₂ => simp only at key; subst key; exact ⟨⟨A, rfl⟩, rfl, rfl⟩


theorem touchCache_good (P : Params) (hp : 0 < P.avgPeriod) (n : Node) (b : Block) (hb : b.height = n.mem + 1)
    (hg : CacheGood P n) (hw : WindowsWhole P n.db b.height) :
    CacheGood P { n with cache := touchCache P n b } := by
  have hlt := fromH_lt { n.db with avgTouched := false } b.height (by omega)
  have hsem0 : CacheSem P { n.db with avgTouched := false } n.cache :=
    cacheSem_congr P n.db _ n.cache (fun _ _ => rfl) hg.sem
  obtain ⟨hok', _⟩ := getAverages_ok P hp { n.db with avgTouched := false } n.cache
    (({ n.db with avgTouched := false } : DB).mostRecentRatesBefore b.height).2 hg.ok
  obtain ⟨hsem', hht'⟩ := getAverages_sem P hp { n.db with avgTouched := false } n.cache
    (({ n.db with avgTouched := false } : DB).mostRecentRatesBefore b.height).2 hsem0 (by
      intro e t
      have := hw t
      have e2 : n.cache.height = (n.db.mostRecentRatesBefore b.height).2 - 1 := by
        have : ({ n.db with avgTouched := false } : DB).mostRecentRatesBefore b.height = n.db.mostRecentRatesBefore b.height := rfl
        rw [this] at e; omega
      rw [e2]
      exact noHole_congr P n.db _ _ t (fun _ _ => rfl) this)
  refine ⟨hok', ?_, ?_⟩
  · exact cacheSem_congr P { n.db with avgTouched := false } _ _ (fun _ _ => rfl) hsem'
  · show (touchCache P n b).height ≤ n.mem
    unfold touchCache
    rw [hht']; omega

/-- along the run, whenever an iteration starts (whether it completes or is cut short), the
    averaging window the incremental path may start from has no hole -/
def WholeRun (P : Params) (ch : Nat → Block) : Node → List Ev → Prop
  | _, [] => True
  | n, e :: es => WindowsWhole P n.db (n.mem + 1) ∧ WholeRun P ch (stepEv P ch n e) es

theorem windowsWhole_sv (P : Params) (db : DB) (A : VRows) (h : Nat) :
    WindowsWhole P { db with syncVersions := A } h ↔ WindowsWhole P db h := Iff.rfl

/-- **Restart independence above PIP-10 on runs whose windows have no hole.** Any run of the daemon
    — completed iterations, iterations cut short, restarts — started with a good cache ends in the
    ledger and sync height of the run with everything but the completed iterations erased, at
    EVERY height (no PIP-10 bound), provided no averaging window the incremental path starts from
    has a hole (`WholeRun`). The hypothesis is exactly what the known finding violates: an
    ungraded block inside the window, after a quoted height. -/
theorem only_attempts_matter_whole (P : Params) (hp : 0 < P.avgPeriod) (ch : Nat → Block) (hch : ∀ h, (ch h).height = h) (lo : Nat)
    (es : List Ev) (n₁ n₂ : Node) (A : VRows) (hdb : n₁.db = { n₂.db with syncVersions := A }) (hmem : n₁.mem = n₂.mem)
    (h1 : InOrder P lo n₁) (h2 : InOrder P lo n₂) (g1 : CacheGood P n₁) (g2 : CacheGood P n₂)
    (hw : WholeRun P ch n₁ es) :
    (runEvs P ch n₁ es).db.ledger = (runEvs P ch n₂ (es.filter Ev.isAttempt)).db.ledger ∧
    (runEvs P ch n₁ es).mem = (runEvs P ch n₂ (es.filter Ev.isAttempt)).mem := by
  induction es generalizing n₁ n₂ A with
  | nil => exact ⟨ledger_eq_of_sv hdb, hmem⟩
  | cons e rest ih =>
    obtain ⟨hw0, hw'⟩ := hw
    have hw2 : WindowsWhole P n₂.db (n₁.mem + 1) := by
      rw [hdb] at hw0; exact (windowsWhole_sv P n₂.db A _).1 hw0
    cases e with
    | attempt =>
      have hf : (Ev.attempt :: rest).filter Ev.isAttempt = Ev.attempt :: rest.filter Ev.isAttempt := rfl
      rw [hf]
      show (runEvs P ch (stepEv P ch n₁ .attempt) rest).db.ledger = (runEvs P ch (stepEv P ch n₂ .attempt) _).db.ledger ∧
           (runEvs P ch (stepEv P ch n₁ .attempt) rest).mem = (runEvs P ch (stepEv P ch n₂ .attempt) _).mem
      have e1 : stepEv P ch n₁ .attempt = (applyBlock P n₁ (ch (n₁.mem + 1))).1 := rfl
      have e2 : stepEv P ch n₂ .attempt = (applyBlock P n₂ (ch (n₁.mem + 1))).1 := by simp only [stepEv, hmem]
      have hg : A.any (·.1 == (ch (n₁.mem + 1)).height) = n₂.db.syncVersions.any (·.1 == (ch (n₁.mem + 1)).height) := by
        rw [hch]
        have a1 := inOrder_no_next h1
        have a2 := inOrder_no_next h2
        rw [hdb] at a1
        rw [← hmem] at a2
        exact a1.trans a2.symm
      have hav : ∀ t, (getAverages P { n₁.db with avgTouched := false } n₁.cache
            (({ n₁.db with avgTouched := false } : DB).mostRecentRatesBefore (ch (n₁.mem + 1)).height).2).2.get t
          = (getAverages P { n₂.db with avgTouched := false } n₂.cache
            (({ n₂.db with avgTouched := false } : DB).mostRecentRatesBefore (ch (n₁.mem + 1)).height).2).2.get t := by
        intro t
        rw [hch]
        have a1 := good_answer P hp ({ n₁.db with avgTouched := false } : DB) n₁.cache
          (({ n₁.db with avgTouched := false } : DB).mostRecentRatesBefore (n₁.mem + 1)).2 g1.ok
          (cacheSem_congr P n₁.db _ _ (fun _ _ => rfl) g1.sem)
          (fun t' => noHole_congr P n₁.db _ _ t' (fun _ _ => rfl) (hw0 t')) t
        have a2 := good_answer P hp ({ n₂.db with avgTouched := false } : DB) n₂.cache
          (({ n₂.db with avgTouched := false } : DB).mostRecentRatesBefore (n₁.mem + 1)).2 g2.ok
          (cacheSem_congr P n₂.db _ _ (fun _ _ => rfl) g2.sem)
          (fun t' => noHole_congr P n₂.db _ _ t' (fun _ _ => rfl) (hw2 t')) t
        rw [a1, a2]
        rw [hdb]
        rfl
      obtain ⟨⟨A', hA'⟩, hm', _⟩ := applyBlock_sv_blind_get (P := P) n₁ n₂ (ch (n₁.mem + 1)) A hdb hmem hg hav
      apply ih _ _ A'
      · rw [e1, e2]; exact hA'
      · rw [e1, e2]; exact hm'
      · rw [e1]; exact inOrder_attempt _ (hch _) h1
      · rw [e2]; exact inOrder_attempt _ (by rw [hch, hmem]) h2
      · rw [e1]; exact applyBlock_good P hp n₁ _ (hch _) g1 (by rw [hch]; exact hw0)
      · rw [e2]; exact applyBlock_good P hp n₂ _ (by rw [hch, hmem]) g2 (by rw [hch]; exact hw2)
      · exact hw'
    | aborted t =>
      have hf : (Ev.aborted t :: rest).filter Ev.isAttempt = rest.filter Ev.isAttempt := rfl
      rw [hf]
      show (runEvs P ch (stepEv P ch n₁ (.aborted t)) rest).db.ledger = _ ∧ (runEvs P ch (stepEv P ch n₁ (.aborted t)) rest).mem = _
      apply ih _ _ A
      · simp only [stepEv]; split <;> exact hdb
      · simp only [stepEv]; split <;> exact hmem
      · simp only [stepEv]; split
        · exact { mem_ge := h1.mem_ge, synced := h1.synced, rows_le := h1.rows_le, nodup := h1.nodup, rows := h1.rows }
        · exact h1
      · exact h2
      · simp only [stepEv]; split
        · exact touchCache_good P hp n₁ _ (hch _) g1 (by rw [hch]; exact hw0)
        · exact g1
      · exact g2
      · exact hw'
    | restart =>
      have hf : (Ev.restart :: rest).filter Ev.isAttempt = rest.filter Ev.isAttempt := rfl
      rw [hf]
      show (runEvs P ch (stepEv P ch n₁ .restart) rest).db.ledger = _ ∧ (runEvs P ch (stepEv P ch n₁ .restart) rest).mem = _
      apply ih _ _ (backfill P.forks n₁.db.synced n₁.db.syncVersions)
      · simp only [stepEv, restart, hdb]
      · show (restart P n₁).mem = n₂.mem
        rw [← hmem]; exact h1.synced
      · exact inOrder_restart h1
      · exact h2
      · exact cacheGood_restart P n₁
      · exact g2
      · exact hw'


/-! ### what a block is priced with -/

/-- **the average a block is priced with is the mean of the height window** ending at the last rated
    height before it — whatever path (`cached`, reload, incremental) produced it — for a process whose
    cache is good and whose window has no hole -/
theorem pricing_average_is_window_mean (P : Params) (hp : 0 < P.avgPeriod) (n : Node) (b : Block)
    (hg : CacheGood P n) (hw : WindowsWhole P n.db b.height) (t : Ticker) :
    (getAverages P { n.db with avgTouched := false } n.cache
        (({ n.db with avgTouched := false } : DB).mostRecentRatesBefore b.height).2).2.get t
      = avgOf P (window P n.db (n.db.mostRecentRatesBefore b.height).2 t) := by
  have a1 := good_answer P hp ({ n.db with avgTouched := false } : DB) n.cache
    (({ n.db with avgTouched := false } : DB).mostRecentRatesBefore b.height).2 hg.ok
    (cacheSem_congr P n.db _ _ (fun _ _ => rfl) hg.sem)
    (fun t' => noHole_congr P n.db _ _ t' (fun _ _ => rfl) (hw t')) t
  rw [a1]
  rfl

/-- a chain applied block by block, each at the next height, no window with a hole on the way -/
def WholeChain (P : Params) : Node → List Block → Prop
  | _, [] => True
  | n, b :: bs => b.height = n.mem + 1 ∧ WindowsWhole P n.db b.height ∧ WholeChain P (applyBlock P n b).1 bs

theorem runBlocks_good (P : Params) (hp : 0 < P.avgPeriod) (bs : List Block) :
    ∀ n, CacheGood P n → WholeChain P n bs → CacheGood P (runBlocks P n bs) := by
  induction bs with
  | nil => intro n hg _; exact hg
  | cons b bs ih =>
    intro n hg hw
    obtain ⟨hb, hw0, hw'⟩ := hw
    unfold runBlocks
    exact ih _ (applyBlock_good P hp n b hb hg hw0) hw'

theorem wholeChain_append (P : Params) (bs : List Block) (b : Block) :
    ∀ n, WholeChain P n (bs ++ [b]) →
      WholeChain P n bs ∧ b.height = (runBlocks P n bs).mem + 1 ∧ WindowsWhole P (runBlocks P n bs).db b.height := by
  induction bs with
  | nil =>
    intro n h
    obtain ⟨h1, h2, _⟩ := h
    exact ⟨trivial, h1, h2⟩
  | cons x xs ih =>
    intro n h
    obtain ⟨h1, h2, h3⟩ := h
    obtain ⟨a, b', c⟩ := ih _ h3
    exact ⟨⟨h1, h2, a⟩, b', c⟩


theorem window_length (P : Params) (db : DB) (H : Nat) (t : Ticker) : (window P db H t).length ≤ P.avgPeriod := by
  unfold window
  have := cat_length (fun g => quoteAt P db g t) (fun g => quoteAt_length P db g t) (startOf P.avgPeriod H) (H + 1 - startOf P.avgPeriod H)
  have h2 : H + 1 - startOf P.avgPeriod H ≤ P.avgPeriod := by
    unfold startOf; split <;> omega
  omega

/-- on a series no longer than the period: unavailable below `AverageRequired` non-zero quotes, the
    mean (zero quotes in the divisor) otherwise -/
theorem avgOf_spec (P : Params) (l : List Nat) (hl : l.length ≤ P.avgPeriod) :
    avgOf P l = if nonZero l < P.avgRequired then 0 else (l.sum % 18446744073709551616) / l.length := by
  unfold avgOf
  have := enough_iff_nonZero P.avgPeriod P.avgRequired l hl
  by_cases h : P.avgPeriod - numberMissing P.avgPeriod l < P.avgRequired
  · rw [if_pos h, if_pos]
    have := (not_congr this).1 (by simpa using h)
    omega
  · rw [if_neg h, if_neg]
    have := this.1 h
    omega

end Pegnet
