import Proofs.Payouts
import Proofs.Arith
/-
  C16 — PEG conversion bank (legacy era): limit, proportional yield, refund.
  Statements are about `payouts` / `refund`, the model functions the correspondence check runs
  against `ConversionSupplySet.Payouts` / `conversions.Refund`.
-/
namespace Pegnet.C16
open Pegnet

/-- The PEG created by the conversions of one block never exceeds that block's bank. -/
theorem bank_limit (bank : Nat) (reqs : List (TxKey × Nat)) (hb : bank ≤ maxUint64)
    (hn : (reqs.map (·.1)).Nodup) : sumReq (payouts bank reqs) ≤ bank := by
  by_cases hne : reqs = []
  · subst hne; simp [payouts, sumReq]
  · rw [payouts_sum bank reqs hb hn hne]
    split <;> omega

/-- Each request receives its full amount if the total fits under the bank. -/
theorem full_if_fits (bank : Nat) (reqs : List (TxKey × Nat)) (hb : bank ≤ maxUint64)
    (hfit : sumReq reqs < bank) : payouts bank reqs = reqs :=
  payouts_fit bank reqs hb hfit

/-- Otherwise the whole bank is paid out, to the last unit. -/
theorem exact_when_over (bank : Nat) (reqs : List (TxKey × Nat)) (hb : bank ≤ maxUint64)
    (hn : (reqs.map (·.1)).Nodup) (hne : reqs ≠ []) (hover : bank ≤ sumReq reqs) :
    sumReq (payouts bank reqs) = bank := by
  rw [payouts_sum bank reqs hb hn hne, if_neg (by omega)]

/-- …and before the dust every request gets its proportional share ⌊c·bank/total⌋. -/
theorem proportional_otherwise (bank : Nat) (reqs : List (TxKey × Nat)) (hb : bank ≤ maxUint64) :
    reqs.map (fun r => (r.1, payoutBig r.2 bank (sumReq reqs))) =
    reqs.map (fun r => (r.1, r.2 * bank / sumReq reqs)) :=
  pays_eq_shares reqs bank (Nat.lt_of_le_of_lt hb maxUint64_lt_W)

/-- payouts are reported for exactly the requesting txids, in order -/
theorem same_requesters (bank : Nat) (reqs : List (TxKey × Nat)) :
    (payouts bank reqs).map (·.1) = reqs.map (·.1) := payouts_keys bank reqs

/-- Yield plus refund never exceed the value of the input:
    yield·pegRate + refund·srcRate ≤ input·srcRate, whenever the yield is at most the full yield
    ⌊input·srcRate/pegRate⌋ (which `payouts` guarantees: a payout never exceeds its request
    when the bank is the binding limit, and equals it otherwise). -/
theorem refund_value (pip10 h : Nat) (input yield : Int) (srcR pegR : Nat)
    (hin : 0 ≤ input)
    (hy : yield ≤ convertD pip10 h input srcR srcR pegR pegR) :
    yield * (pegR : Int) + refund pip10 h input yield srcR pegR * (srcR : Int) ≤ input * (srcR : Int) := by
  unfold refund
  have hmax := convertD_value_le pip10 h input srcR srcR pegR pegR hin
  generalize convertD pip10 h input srcR srcR pegR pegR = maxY at hy hmax
  have hsub : (maxY - yield) * (pegR : Int) = maxY * (pegR : Int) - yield * (pegR : Int) := Int.sub_mul ..
  have hr := convertD_value_le pip10 h (maxY - yield) pegR pegR srcR srcR (by omega)
  show yield * (pegR : Int) + convertD pip10 h (maxY - yield) pegR pegR srcR srcR * (srcR : Int) ≤ input * (srcR : Int)
  omega

/-! non-vacuity -/
example : payouts 100 [(⟨0, "aa"⟩, 60), (⟨1, "aa"⟩, 60)] = [(⟨0, "aa"⟩, 50), (⟨1, "aa"⟩, 50)] := by decide
example : payouts 100 [(⟨0, "bb"⟩, 70), (⟨0, "aa"⟩, 70), (⟨1, "aa"⟩, 10)] =
    [(⟨0, "bb"⟩, 46), (⟨0, "aa"⟩, 48), (⟨1, "aa"⟩, 6)] := by decide   -- 2 units of dust to the lowest txid among the top
example : refund 1000 5 199 1 1 100 = 0 := by decide

end Pegnet.C16

#print axioms Pegnet.C16.bank_limit
#print axioms Pegnet.C16.full_if_fits
#print axioms Pegnet.C16.exact_when_over
#print axioms Pegnet.C16.proportional_otherwise
#print axioms Pegnet.C16.same_requesters
#print axioms Pegnet.C16.refund_value
