import Proofs.Chain
import Proofs.Process
import Proofs.Moves
import Pegnet.Generated.Facts
/-
  C15 — Scheduled issuance: developer rewards and one-time ledger adjustments.
-/
namespace Pegnet.C15
open Pegnet

/-- Regenerated developer table: integral percentages summing to 100, 14 distinct addresses;
    hence one payout totals exactly 2,000 PEG (× 144 from 2.0.2 on). -/
theorem dev_table_total :
    Generated.devPctIntegral = true ∧
    (Generated.devs.map (·.2)).sum = 100 ∧
    (Generated.devs.map (fun d => Generated.perBlockDevelopers / 100 * d.2)).sum = 200000000000 ∧
    (Generated.devs.map (fun d => Generated.perBlockDevelopers / 100 * d.2 * Generated.snapshotRate)).sum = 200000000000 * 144 ∧
    (Generated.devs.map (·.1)).eraseDups.length = Generated.devs.length ∧
    Generated.snapshotRate = 144 := by
  decide

/-- the amount one developer receives in the model is the table's percentage of the budget -/
theorem dev_reward_formula (P : Params) (h : Nat) (pct : Nat) :
    (P.perBlockDevs / 100) * pct * (if h ≥ P.act.v202 then P.snapshotRate else 1) =
      if h ≥ P.act.v202 then P.perBlockDevs / 100 * pct * P.snapshotRate else P.perBlockDevs / 100 * pct := by
  split <;> simp

/-- Developer rewards are paid only every `snapshotRate`-th block from their activation. -/
theorem dev_cadence_off (P : Params) (b : Block) (s : DB)
    (h : ¬ (b.height ≥ P.act.devRewards ∧ b.height % P.snapshotRate = 0)) :
    devRewardPhase P b s = .ok () s := by
  unfold devRewardPhase
  simp [h]

/-- The minting and the burning of the 2.0.4 supply happen at exactly their activation heights… -/
theorem mint_only_at_activation (P : Params) (c : DB) (h : Nat) (s : DB)
    (h1 : h ≠ P.act.v204) (h2 : h ≠ P.act.v204Burn) : preAdjust P c h s = .ok () s := by
  unfold preAdjust
  simp [h1, h2]

/-- …and the burn-address zeroings at exactly theirs. -/
theorem burn_zeroing_only_at_activation (P : Params) (c : DB) (b : Block) (s : DB)
    (h1 : b.height ≠ P.act.devRewards) (h2 : b.height ≠ P.act.v202) : burnZeroing P c b s = .ok () s := by
  unfold burnZeroing
  simp [h1, h2]

/-- the mint credits exactly the listed amounts (× 1e8) to the mint address: one `AddToBalance`
    per table entry -/
theorem mint_is_table (P : Params) : mintTokens P = M.forEach P.mint (fun p => addBal P P.mintAddr p.1 (p.2 * 100000000)) := rfl

/-- Regenerated mint table: 31 entries, the first is 334,509,613 PEG. -/
theorem mint_table_shape :
    Generated.mint.length = 31 ∧ Generated.mint.head? = some (1, 334509613) ∧
    (Generated.mint.map (·.1)).eraseDups.length = 31 ∧ Generated.mint.all (fun m => decide (0 < m.1 ∧ m.1 < Generated.tickerMax)) = true := by
  decide

/-- activation heights regenerated from config/activations.go keep the order the model's
    era reasoning relies on (strict where two one-time events must not coincide) -/
theorem mainnet_activation_order :
    let a := Generated.activations
    Generated.activationsComplete = true ∧
    a.pegnet < a.gradingV2 ∧ a.gradingV2 < a.txConv ∧ a.txConv < a.pegPricing ∧ a.pegPricing < a.oneWayFCT ∧
    a.oneWayFCT < a.convLimit ∧ a.convLimit = a.pegFloat ∧ a.convLimit < a.v4 ∧ a.rcde = a.v4 ∧ a.v4 < a.v20 ∧
    a.v20 < a.devRewards ∧ a.sprSig = a.devRewards ∧ a.devRewards < a.v202 ∧ a.oneWaySmall = a.v202 ∧
    a.v202 < a.v204 ∧ a.v204 < a.v204Burn ∧ a.v204Burn < a.pip10 := by
  decide

/-! The old-burn-address zeroing is NOT "for exactly the specified amounts": recording the zeroing
    of a non-zero balance fails (`-payout` on a uint64 is rejected by the SQL driver), the caller
    discards the error, and every asset after the first non-zero one keeps its balance.
    Witness: the old burn address holds 5 PEG and 7 pUSD; after the zeroing at `devRewards` the
    7 pUSD are still there. -/
def wP : Params :=
  { act := ⟨0,1,2,3,4,5,5,6,6,7,100,100,200,200,300,310,400⟩, tickerMax := 63,
    tickerNames := ["PEG", "pUSD"], oneWaySet := [], snapshotRate := 144, perBlockHolders := 0, perBlockDevs := 0,
    bankBase := 0, avgPeriod := 8, avgRequired := 4, syncVersion := 2, devs := [], «mint» := [],
    burnAddr := "burn", oldBurnAddr := "old", mintAddr := "mint", coinbaseAddr := "cb", zeroAddr := "00" }
def wDB : DB := { addrs := [{ addr := "old", bals := setB (setB [] 1 5) 2 7 }] }

theorem old_burn_zeroing_incomplete :
    (match M.swallow (nullifyBurn wP wDB 100 0) wDB with
     | .ok _ s => (s.bal "old" 1, s.bal "old" 2)
     | .fail _ _ => (-1, -1)) = (0, 7) := by decide

/-- the 2.0.2 zeroing (no history rows) does zero every asset of the burn address -/
theorem new_burn_zeroing_complete :
    (match M.swallow (nullifyBurn wP { addrs := [{ addr := "burn", bals := setB (setB [] 1 5) 2 7 }] } 200 0)
        { addrs := [{ addr := "burn", bals := setB (setB [] 1 5) 2 7 }] } with
     | .ok _ s => (s.bal "burn" 1, s.bal "burn" 2)
     | .fail _ _ => (-1, -1)) = (0, 0) := by decide

/-- **Each one-time adjustment occurs at most once, along every run.** The adjustments are tied to
    their heights (`mint_only_at_activation`, `burn_zeroing_only_at_activation`: at any other height
    the step is the identity), and along every run of the daemon — whatever the blocks contain,
    however often it is killed, fails or is restarted — every height is committed at most once:
    the version table never holds two rows of one height. A failed attempt at the height rolls the
    adjustment back with the rest of the block. -/
theorem each_height_committed_at_most_once (P : Params) (ch : Nat → Block) (hch : ∀ h, (ch h).height = h)
    (es : List Ev) (h : Nat) :
    (((runEvs P ch (freshNode P) es).db.syncVersions.map (·.1)).count h) ≤ 1 := by
  have hin := runEvs_inOrder P ch hch (freshNode P).mem es (freshNode P) (inOrder_fresh P)
  exact List.nodup_iff_count.1 hin.nodup h

/-- …and none is skipped: when the run has passed an adjustment height, that height has been
    committed (heights are applied in order, without gaps) -/
theorem passed_height_was_committed (P : Params) (ch : Nat → Block) (hch : ∀ h, (ch h).height = h)
    (es : List Ev) (h : Nat) (hlo : P.act.pegnet < h) (hhi : h ≤ (runEvs P ch (freshNode P) es).mem) :
    h ∈ (runEvs P ch (freshNode P) es).db.syncVersions.map (·.1) := by
  have hin := runEvs_inOrder P ch hch (freshNode P).mem es (freshNode P) (inOrder_fresh P)
  have hmem : h ∈ heightsAbove (freshNode P).mem (runEvs P ch (freshNode P) es).db.syncVersions := by
    rw [hin.rows, List.mem_range'_1]
    have : (freshNode P).mem = P.act.pegnet := rfl
    omega
  unfold heightsAbove at hmem
  obtain ⟨r, hr, hrh⟩ := List.mem_map.1 hmem
  exact List.mem_map.2 ⟨r, (List.mem_filter.1 hr).1, hrh⟩

/-- **Developer payout, for every address and asset**: exactly the tabled share
    `(perBlock/100)·pct·(144 from 2.0.2 on)` in PEG to each table entry, nothing to anybody else -/
theorem developer_payout_exact (P : Params) (h : Nat) (ts : Int) (s : DB) :
    Outcome (developersPayouts P h ts s)
      (fun _ s' => ∀ a x, s'.bal a x = s.bal a x +
        (P.devs.map (fun d => if a = d.1 ∧ x = tPEG then ((devReward P h d : Nat) : Int) else 0)).sum) :=
  developersPayouts_exact P h ts s

/-- **The mint, for every address and asset**: exactly the tabled amounts to the mint address -/
theorem mint_exact (P : Params) (s : DB) :
    Outcome (mintTokens P s)
      (fun _ s' => ∀ a x, s'.bal a x = s.bal a x +
        (P.mint.map (fun p => if a = P.mintAddr ∧ x = p.1 then ((p.2 * 100000000 : Nat) : Int) else 0)).sum) :=
  mintTokens_exact P s

end Pegnet.C15

namespace Pegnet.C15
open Pegnet
/-- the shipped schedule, regenerated from config/activations.go and fat/fat2/activations.go on every
    run, against the values this property was read with: the heights of the developer rewards and of the one-time adjustments. Every scenario of the harness
    runs on a compressed schedule that overwrites these constants, so nothing else would notice one of
    them moving; a moved height is a different protocol, not a rewrite. -/
theorem shipped_schedule :
    let a := Generated.activations
    Generated.activationsComplete = true ∧ a.devRewards = 260118 ∧ a.v202 = 274036 ∧ a.v204 = 288878 ∧ a.v204Burn = 294206 := by
  decide
end Pegnet.C15

#print axioms Pegnet.C15.dev_table_total
#print axioms Pegnet.C15.dev_reward_formula
#print axioms Pegnet.C15.dev_cadence_off
#print axioms Pegnet.C15.mint_only_at_activation
#print axioms Pegnet.C15.burn_zeroing_only_at_activation
#print axioms Pegnet.C15.mint_is_table
#print axioms Pegnet.C15.mint_table_shape
#print axioms Pegnet.C15.mainnet_activation_order
#print axioms Pegnet.C15.old_burn_zeroing_incomplete
#print axioms Pegnet.C15.new_burn_zeroing_complete
#print axioms Pegnet.C15.each_height_committed_at_most_once
#print axioms Pegnet.C15.passed_height_was_committed
#print axioms Pegnet.C15.developer_payout_exact
#print axioms Pegnet.C15.mint_exact
#print axioms Pegnet.C15.shipped_schedule
