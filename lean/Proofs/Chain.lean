import Proofs.Relations
import Pegnet.Chain
/-
  Lifting per-block relations to `applyBlock` and to whole chains.
-/
namespace Pegnet

/-- the committed database after `applyBlock`: either untouched, or the result of a successful
    block transaction (with the ephemeral flag cleared) -/
theorem applyBlock_db (P : Params) (n : Node) (b : Block) :
    (applyBlock P n b).1.db = n.db ∨
    ∃ s' avgs, blockTx P { n.db with avgTouched := false } b avgs { n.db with avgTouched := false } = .ok () s' ∧
      (applyBlock P n b).1.db = { s' with avgTouched := false } ∧ (applyBlock P n b).2 = none := by
  unfold applyBlock
  simp only
  split
  · rename_i s' hs
    exact Or.inr ⟨s', _, hs, rfl, rfl⟩
  · exact Or.inl rfl

/-- a relation that ignores the ephemeral `avgTouched` flag -/
structure FlagBlind (R : Rel DB) : Prop where
  set : ∀ s b, R.r s { s with avgTouched := b }

theorem applyBlock_rel {P : Params} {R : Rel DB} (fb : FlagBlind R) (n : Node) (b : Block)
    (ok : PrimsOK P b.height R) (hlog : ∀ x, Step R (logExec x)) : R.r n.db (applyBlock P n b).1.db := by
  rcases applyBlock_db P n b with h | ⟨s', avgs, hs, hdb, _⟩
  · rw [h]; exact R.refl _
  · rw [hdb]
    have h1 := (blockTx_step (P := P) (R := R) { n.db with avgTouched := false } b avgs ok hlog).ok hs
    exact R.trans _ _ _ (fb.set n.db false) (R.trans _ _ _ h1 (fb.set s' false))

/-- a relation family indexed by the block height holds along a whole chain when it composes -/
theorem runBlocks_rel {P : Params} (R : Rel DB) (fb : FlagBlind R)
    (ok : ∀ b : Block, PrimsOK P b.height R) (hlog : ∀ x, Step R (logExec x)) (n : Node) (chain : List Block) :
    R.r n.db (runBlocks P n chain).db := by
  induction chain generalizing n with
  | nil => exact R.refl _
  | cons b bs ih =>
    unfold runBlocks
    exact R.trans _ _ _ (applyBlock_rel fb n b (ok b) hlog) (ih _)

/-! ### C12: rates are immutable -/

/-- rate rows of height `g` are untouched by every block of a different height -/
def ratesFrozen (g : Nat) : Rel DB where
  r s s' := s'.ratesAt g = s.ratesAt g
  refl _ := rfl
  trans _ _ _ h1 h2 := h2.trans h1

theorem applyBlock_ratesAt (P : Params) (n : Node) (b : Block) (g : Nat) (hg : g ≠ b.height) :
    (applyBlock P n b).1.db.ratesAt g = n.db.ratesAt g := by
  have := applyBlock_rel (P := P) (R := ratesOnlyAt b.height) ⟨fun s _ g _ => rfl⟩ n b (primsOK_ratesOnlyAt P b.height) (fun _ => Step.guarded (fun _ _ _ => rfl))
  exact this g hg

theorem runBlocks_ratesAt (P : Params) (n : Node) (chain : List Block) (g : Nat)
    (hg : ∀ b ∈ chain, g ≠ b.height) :
    (runBlocks P n chain).db.ratesAt g = n.db.ratesAt g := by
  induction chain generalizing n with
  | nil => rfl
  | cons b bs ih =>
    unfold runBlocks
    rw [ih _ (fun b' hb' => hg b' (List.mem_cons_of_mem _ hb'))]
    exact applyBlock_ratesAt P n b g (hg b List.mem_cons_self)

/-! ### C06: replay marks are permanent -/

theorem runBlocks_replay (P : Params) (n : Node) (chain : List Block) (x : Hash)
    (hx : n.db.isReplay x = true) : (runBlocks P n chain).db.isReplay x = true :=
  runBlocks_rel (P := P) relsGrow ⟨fun _ _ _ h => h⟩ (fun b => primsOK_relsGrow P b.height) (fun _ => Step.guarded (fun _ _ h => h)) n chain x hx

end Pegnet
