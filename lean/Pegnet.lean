import Pegnet.Basic
import Pegnet.Monad
import Pegnet.Arith
import Pegnet.Float64
import Pegnet.DB
import Pegnet.Average
import Pegnet.Batch
import Pegnet.Sync
