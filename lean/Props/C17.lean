import Proofs.BatchLemmas
import Pegnet.Generated.Facts
import Proofs.Holding
import Proofs.Moves
import Proofs.HistOK
/-
  C17 — History and status tell the truth about the ledger.
-/
namespace Pegnet.C17
open Pegnet

/-! ### paging: LIMIT 50 OFFSET k over a fixed ordered result -/

/-- one page of a query result: `LIMIT lim OFFSET off` -/
def page {α} (lim : Nat) (l : List α) (off : Nat) : List α := (l.drop off).take lim

theorem pages_concat {α} (lim : Nat) (l : List α) (k : Nat) :
    ((List.range k).flatMap fun i => page lim l (lim * i)) = l.take (lim * k) := by
  induction k with
  | zero => simp
  | succ k ih =>
    rw [List.range_succ, List.flatMap_append, ih]
    simp only [List.flatMap_cons, List.flatMap_nil, List.append_nil, page]
    rw [Nat.mul_succ]
    rw [← List.take_add]

/-- Every recorded action is returned exactly once across pages: the pages at offsets
    0, lim, 2·lim, … concatenate to the full result, without duplicates or gaps. -/
theorem pages_partition {α} (lim : Nat) (hl : 0 < lim) (l : List α) :
    ((List.range (l.length / lim + 1)).flatMap fun i => page lim l (lim * i)) = l := by
  rw [pages_concat]
  apply List.take_of_length_le
  have := Nat.lt_mul_div_succ l.length hl
  omega

/-- the regenerated page size -/
theorem query_limit : Generated.queryLimit = 50 := by decide

/-! ### status -/

/-- a batch is recorded as pending (executed = 0) when it arrives -/
theorem arrival_records_pending (P : Params) (h bo : Nat) (e : TxEntry) (s s' : DB)
    (hr : recordHistory P h bo e s = .ok () s') :
    ∃ r ∈ s'.histB, r.hash = e.hash ∧ r.height = h ∧ r.executed = 0 := by
  unfold recordHistory at hr
  obtain ⟨_, s1, h1, h2⟩ := M.bind_ok hr
  unfold insertHistBatch M.guarded at h1
  simp only at h1
  split at h1
  · cases h1
  · injection h1 with _ hs1
    -- the remaining steps only append transaction / lookup rows
    have hkeep : s'.histB = s1.histB := by
      have hk : Step (keepRel (·.histB)) (M.forEachIdx e.txs fun idx t => do
          insertLookup { hash := e.hash, txIndex := idx, addr := t.inAddr }
          if t.isConversion P then
            insertHistTx { hash := e.hash, txIndex := idx, action := 2, fromAddr := t.inAddr, fromAsset := tickerName P t.inType,
                           fromAmount := t.inAmount, toAsset := tickerName P t.conversion, toAmount := 0, outputs := "",
                           fromT := t.inType, toT := t.conversion }
          else do
            M.forEach t.transfers fun tr => insertLookup { hash := e.hash, txIndex := idx, addr := tr.addr }
            insertHistTx { hash := e.hash, txIndex := idx, action := 1, fromAddr := t.inAddr, fromAsset := tickerName P t.inType,
                           fromAmount := t.inAmount, toAsset := "", toAmount := 0,
                           outputs := renderOutputs (t.transfers.map fun tr => (tr.addr, (tr.amount : Int))),
                           fromT := t.inType, outs := t.transfers.map fun tr => (tr.addr, tr.amount) }) := by
        have p6 : ∀ r, Step (keepRel (·.histB)) (insertLookup r) :=
          fun r => Step.guarded (fun s => by simp only [keepRel]; split <;> rfl)
        have p5 : ∀ r, Step (keepRel (·.histB)) (insertHistTx r) := fun r => Step.guarded (fun s => rfl)
        step_tac
      exact hk.ok h2
    rw [hkeep, ← hs1]
    exact ⟨_, List.mem_append_right _ (List.mem_singleton.2 rfl), rfl, rfl, rfl⟩

/-- a rejected or dropped batch has no effect on any balance, relation or holding row -/
theorem reject_has_no_effect {P : Params} {h : Nat} {e : TxEntry} {rates avgs : Option TMap} {s s' : DB} {v : Verdict}
    (hr : applyBatch P h e rates avgs s = .ok v s') (hv : v ≠ .apply) :
    s'.addrs = s.addrs ∧ s'.rels = s.rels ∧ s'.histB = s.histB := by
  rw [applyBatch_noop hr hv]; exact ⟨rfl, rfl, rfl⟩

/-- setting the status of a hash sets it on every history row of that hash and on no other -/
theorem set_executed_exact (hash : Hash) (v : Int) (s s' : DB) (hr : setExecuted hash v s = .ok () s') :
    s'.histB = s.histB.map (fun r => if r.hash == hash then { r with executed := v } else r) ∧ s'.addrs = s.addrs := by
  unfold setExecuted M.guarded at hr
  simp only at hr
  injection hr with _ hs
  subst hs
  exact ⟨rfl, rfl⟩

/-- The overflow path: a conversion whose amount cannot be converted is "accepted" by the code
    with no effect — verdict `.dropped` leaves the status at 0 (pending) forever. Witness of the
    full statement's failure ("pending only while it is still waiting"). -/
def wP : Params :=
  { act := ⟨0,0,0,0,0,0,0,0,0,0,100,100,200,200,300,310,400⟩, tickerMax := 63, tickerNames := ["PEG", "pUSD", "pEUR"], oneWaySet := [],
    snapshotRate := 144, perBlockHolders := 0, perBlockDevs := 0, bankBase := 0, avgPeriod := 8, avgRequired := 4,
    syncVersion := 2, devs := [], «mint» := [], burnAddr := "b", oldBurnAddr := "o", mintAddr := "m", coinbaseAddr := "c", zeroAddr := "0" }

theorem unconvertible_amount_stays_pending :
    verdict wP { addrs := [{ addr := "alice", bals := setB [] 2 4611686018427387904 }] } 50
      (some [(2, 4611686018427387904), (3, 1)]) (some [])
      [{ inAddr := "alice", inType := 2, inAmount := 4611686018427387904, transfers := [], conversion := 3 }] = .dropped := by
  decide

/-- "pending only while it is still waiting", the part that holds: once a rated block above the
    holding height is applied, a held batch has had a status written (or bears a replay mark),
    EXCEPT when its conversion is not computable — the `.dropped` case witnessed by
    `unconvertible_amount_stays_pending`, which is why this theorem is `_partial`. -/
theorem pending_only_while_waiting_partial {P : Params} {c : DB} {b : Block} {avgs : TMap} {s' : DB}
    (hpos : 0 < b.height) (hrun : blockTx P c b avgs c = .ok () s') (htx : b.height ≥ P.act.txConv) :
    (∃ s1 s2 st, gradeAndRates P c b s1 = .ok st s2 ∧ st ≠ .cont true) ∨
    ∃ rates, ∀ row ∈ c.holding, (c.mostRecentRatesBefore b.height).2 ≤ row.height → row.height < b.height →
      Considered P b.height rates avgs c s' row.entry :=
  block_considers_held hpos hrun htx

/-! ### the recorded amounts are the amounts that moved -/

/-- **An executed conversion's history row carries the amount credited**: `to_amount` of the row
    is `out = ⌊in·src/dst⌋`, the amount `executed_batch_moves_exactly` (C04) shows was added to the
    destination balance. -/
theorem conversion_row_tells_the_credit (P : Params) (h : Nat) (hash : Hash) (rates avgs : Option TMap) (idx : Nat) (t : Tx)
    (s s' : DB) (hnp : ¬ (h ≥ P.act.convLimit ∧ t.isPEGRequest = true)) (hcv : t.isConversion P = true)
    (hr : recordOutputs P h hash rates avgs idx t s = .ok () s') :
    ∃ out, convert P.act.pip10 h (toInt64 t.inAmount) ((rates.getD []).get t.inType) ((avgs.getD []).get t.inType)
        ((rates.getD []).get t.conversion) ((avgs.getD []).get t.conversion) = some out ∧
      (∀ r ∈ s'.histT, r.hash = hash → r.txIndex = (idx : Int) → r.toAmount = out) ∧
      ∀ a x, s'.bal a x = s.bal a x + (if a = t.inAddr ∧ x = t.conversion then out else 0) := by
  obtain ⟨out, hconv, hrow⟩ := conversion_row_records_credit P h hash rates avgs idx t s s' hnp hcv hr
  refine ⟨out, hconv, hrow, ?_⟩
  have := recordOutputs_exact P h hash rates avgs idx t s
  rw [hr] at this
  intro a x
  rw [this a x]
  unfold outDelta
  rw [if_neg hnp, if_pos hcv, hconv]

/-- **A paid PEG request's row carries yield and refund** (bank era) -/
theorem peg_request_row_tells_the_payment (P : Params) (h : Nat) (rates : TMap) (rq : PegReq) (y : Nat) (s s' : DB)
    (hr : payPegReq P h rates rq y s = .ok () s') :
    ∀ r ∈ s'.histT, r.hash = rq.key.hash → r.txIndex = (rq.key.idx : Int) →
      r.toAmount = toInt64 y ∧
      r.outputs = renderOutputs [(rq.tx.inAddr,
        refund P.act.pip10 h (toInt64 rq.tx.inAmount) (toInt64 y) (rates.get rq.tx.inType) (rates.get rq.tx.conversion))] :=
  pegRequest_row_records_payment P h rates rq y s s' hr

/-- **The history tables stay consistent along every chain**: every recorded action (row of
    `pn_history_transaction`) and every held entry belongs to a recorded batch (row of
    `pn_history_txbatch` with its hash), whatever the blocks contain and whether they commit or fail. -/
theorem every_action_belongs_to_a_batch (P : Params) (chain : List Block) :
    (∀ r ∈ (runBlocks P (freshNode P) chain).db.histT, (runBlocks P (freshNode P) chain).db.isRecorded r.hash = true) ∧
    (∀ r ∈ (runBlocks P (freshNode P) chain).db.holding, (runBlocks P (freshNode P) chain).db.isRecorded r.entry.hash = true) :=
  runBlocks_histHoldOK P _ chain (histHoldOK_fresh P)

end Pegnet.C17

#print axioms Pegnet.C17.pages_concat
#print axioms Pegnet.C17.pages_partition
#print axioms Pegnet.C17.query_limit
#print axioms Pegnet.C17.arrival_records_pending
#print axioms Pegnet.C17.reject_has_no_effect
#print axioms Pegnet.C17.set_executed_exact
#print axioms Pegnet.C17.unconvertible_amount_stays_pending
#print axioms Pegnet.C17.pending_only_while_waiting_partial
#print axioms Pegnet.C17.conversion_row_tells_the_credit
#print axioms Pegnet.C17.peg_request_row_tells_the_payment
#print axioms Pegnet.C17.every_action_belongs_to_a_batch
