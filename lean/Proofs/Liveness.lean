import Proofs.Moves
/-
  C08: nothing a transfer-only entry can contain fails the block.
-/
namespace Pegnet

/-- a program that succeeds from every state -/
def Safe {α} (m : LM α) : Prop := ∀ s, ∃ a s', m s = .ok a s'

namespace Safe
variable {α β : Type}

theorem pure (a : α) : Safe (Pure.pure a : LM α) := fun s => ⟨a, s, rfl⟩
theorem pure' (a : α) : Safe (M.pure a : LM α) := fun s => ⟨a, s, rfl⟩
theorem get : Safe (M.get : LM DB) := fun s => ⟨s, s, rfl⟩

theorem bind {m : LM α} {f : α → LM β} (hm : Safe m) (hf : ∀ a, Safe (f a)) : Safe (m >>= f) := by
  intro s
  obtain ⟨a, s1, h1⟩ := hm s
  obtain ⟨b, s2, h2⟩ := hf a s1
  exact ⟨b, s2, by rw [M.bind_run, h1]; exact h2⟩

theorem guarded {g : DB → Option Failure} {u : DB → DB} (hg : ∀ s, g s = none) : Safe (M.guarded g u) := by
  intro s
  exact ⟨(), u s, by simp only [M.guarded, hg s]⟩

theorem forEach {l : List α} {f : α → LM Unit} (hf : ∀ a ∈ l, Safe (f a)) : Safe (M.forEach l f) := by
  induction l with
  | nil => exact pure' ()
  | cons x xs ih =>
    exact bind (m := f x) (hf x List.mem_cons_self) (fun _ => ih (fun a ha => hf a (List.mem_cons_of_mem _ ha)))

end Safe

theorem addBal_safe (P : Params) (a : Addr) (t : Ticker) (v : Nat) (ht : validTicker P t = true) (hv : v ≤ maxInt64) :
    Safe (addBal P a t v) :=
  Safe.guarded (fun _ => by simp [ht]; omega)

theorem subBal_safe (P : Params) (a : Addr) (t : Ticker) (v : Nat) (ht : validTicker P t = true) (hv : v ≤ maxInt64) :
    Safe (subBal P a t v) := by
  unfold subBal
  by_cases h0 : v = 0
  · rw [if_pos h0]
    exact Safe.bind (addBal_safe P a t 0 ht (by simp [maxInt64])) (fun _ => Safe.pure true)
  · rw [if_neg h0]
    have : (!validTicker P t) = false := by simp [ht]
    rw [if_neg (by simp [this])]
    apply Safe.bind Safe.get
    intro db
    split
    · exact Safe.pure false
    · exact Safe.bind (Safe.guarded (fun _ => by simp; omega)) (fun _ => Safe.pure true)

theorem remainingAfter_le : ∀ (trs : List Transfer) (r rem : Nat), remainingAfter r trs = some rem →
    ∀ tr ∈ trs, tr.amount ≤ r
  | [], _, _, _, _, h => by cases h
  | t :: rest, r, rem, hr, tr, hm => by
    simp only [remainingAfter] at hr
    split at hr
    · cases hr
    · rename_i hlt
      rcases List.mem_cons.1 hm with rfl | hm
      · omega
      · have := remainingAfter_le rest (r - t.amount) rem hr tr hm
        omega

/-- the output side of a transfer never fails (valid asset, outputs within the input) -/
theorem recordOutputs_transfer_safe (P : Params) (h : Nat) (hash : Hash) (rates avgs : Option TMap) (idx : Nat) (t : Tx)
    (hnc : t.isConversion P = false) (hnp : t.isPEGRequest = false) (ht : validTicker P t.inType = true)
    (hamt : ∀ tr ∈ t.transfers, tr.amount ≤ maxInt64) : Safe (recordOutputs P h hash rates avgs idx t) := by
  unfold recordOutputs
  simp only [hnp, hnc, Bool.false_eq_true, and_false, if_false]
  apply Safe.forEach
  intro tr htr
  split
  · exact Safe.pure ()
  · exact Safe.bind (addBal_safe P tr.addr t.inType tr.amount ht (hamt tr htr)) (fun _ => Safe.guarded (fun _ => rfl))

/-- recording a transfer can only fail for lack of funds -/
theorem recordTx_transfer_fail_short (P : Params) (h : Nat) (hash : Hash) (rates avgs : Option TMap) (idx : Nat) (t : Tx)
    (hnc : t.isConversion P = false) (hnp : t.isPEGRequest = false) (ht : validTicker P t.inType = true)
    (hin : t.inAmount ≤ maxInt64) (hamt : ∀ tr ∈ t.transfers, tr.amount ≤ maxInt64)
    (s s' : DB) (e : Failure) (hr : recordTx P h hash rates avgs idx t s = .fail e s') :
    e = .uncaught "insufficient balance" := by
  unfold recordTx at hr
  rw [M.bind_run] at hr
  obtain ⟨ok, s1, h1⟩ := subBal_safe P t.inAddr t.inType t.inAmount ht hin s
  rw [h1] at hr
  cases ok with
  | false =>
    simp only [Bool.not_false, if_true, M.throw_run] at hr
    injection hr with he _
    exact he.symm
  | true =>
    simp only [Bool.not_true, Bool.false_eq_true, if_false] at hr
    have hs : Safe (do
        insertRelation hash t.inAddr idx false (t.isConversion P)
        setExecuted hash h
        recordOutputs P h hash rates avgs idx t) :=
      Safe.bind (Safe.guarded (fun _ => rfl)) (fun _ => Safe.bind (Safe.guarded (fun _ => rfl))
        (fun _ => recordOutputs_transfer_safe P h hash rates avgs idx t hnc hnp ht hamt))
    obtain ⟨_, s2, h2⟩ := hs s1
    rw [h2] at hr
    cases hr


/-- a transfer-only transaction as the decoder and `Validate` let it through -/
structure PlainTransfer (P : Params) (t : Tx) : Prop where
  notConv : t.isConversion P = false
  notPeg : t.isPEGRequest = false
  ticker : validTicker P t.inType = true
  input : t.inAmount ≤ maxInt64
  outputs : ∀ tr ∈ t.transfers, tr.amount ≤ maxInt64

theorem recordLoop_transfers_fail_short (P : Params) (h : Nat) (hash : Hash) (rates avgs : Option TMap) :
    ∀ (l : List (Tx × Nat)), (∀ p ∈ l, PlainTransfer P p.1) → ∀ (s s' : DB) (e : Failure),
      M.forEach l (fun p => recordTx P h hash rates avgs p.2 p.1) s = .fail e s' →
      e = .uncaught "insufficient balance"
  | [], _, s, s', e, hr => by simp only [M.forEach, M.pure_run'] at hr; cases hr
  | p :: rest, hp, s, s', e, hr => by
    simp only [M.forEach] at hr
    have hr' : (recordTx P h hash rates avgs p.2 p.1 >>= fun _ => M.forEach rest (fun p => recordTx P h hash rates avgs p.2 p.1)) s = .fail e s' := hr
    rw [M.bind_run] at hr'
    have hpt := hp p List.mem_cons_self
    cases h1 : recordTx P h hash rates avgs p.2 p.1 s with
    | fail e1 s1 =>
      rw [h1] at hr'
      injection hr' with he _
      subst he
      exact recordTx_transfer_fail_short P h hash rates avgs p.2 p.1 hpt.notConv hpt.notPeg hpt.ticker hpt.input hpt.outputs s s1 e1 h1
    | ok u s1 =>
      rw [h1] at hr'
      exact recordLoop_transfers_fail_short P h hash rates avgs rest (fun q hq => hp q (List.mem_cons_of_mem _ hq)) s1 s' e hr'

theorem mem_zipIdx_fst {α} {l : List α} {k : Nat} {p : α × Nat} (hp : p ∈ l.zipIdx k) : p.1 ∈ l := by
  induction l generalizing k with
  | nil => cases hp
  | cons x xs ih =>
    rw [List.zipIdx_cons] at hp
    rcases List.mem_cons.1 hp with rfl | hp
    · exact List.mem_cons_self
    · exact List.mem_cons_of_mem _ (ih hp)

/-- **A batch of plain transfers that passed the funds checks is recorded**: `recordBatch` succeeds -/
theorem recordBatch_transfers_succeeds (P : Params) (h : Nat) (hash : Hash) (rates avgs : Option TMap) (a : Addr)
    (hb : a ≠ burnAddrAt P h) (txs : List Tx) (s : DB) (hall : ∀ t ∈ txs, t.inAddr = a)
    (hplain : ∀ t ∈ txs, PlainTransfer P t)
    (hp : pass2 P h rates avgs (s.balances a) txs = none) :
    ∃ s', recordBatch P h hash rates avgs txs s = .ok () s' := by
  cases hr : recordBatch P h hash rates avgs txs s with
  | ok u s' => exact ⟨s', rfl⟩
  | fail e s' =>
    have hne := recordBatch_never_short P h hash rates avgs a hb txs s hall hp e s' hr
    unfold recordBatch M.forEachIdx at hr
    have := recordLoop_transfers_fail_short P h hash rates avgs txs.zipIdx
      (fun p hpm => hplain p.1 (mem_zipIdx_fst hpm)) s s' e hr
    exact absurd this hne

/-- the first loop lets a plain transfer through or rejects it for lack of funds -/
theorem pass1_transfers (P : Params) (h : Nat) (bal : Ticker → Int) (rates avgs : Option TMap) :
    ∀ (txs : List Tx), (∀ t ∈ txs, t.isConversion P = false) →
      pass1 P h bal rates avgs txs = none ∨ pass1 P h bal rates avgs txs = some (.reject (-1))
  | [], _ => Or.inl rfl
  | t :: rest, hnc => by
    simp only [pass1, pass1Tx]
    have := hnc t List.mem_cons_self
    by_cases hf : (t.inAmount : Int) > bal t.inType
    · right; simp [hf]
    · simp only [hf, if_false, this, Bool.false_eq_true]
      exact pass1_transfers P h bal rates avgs rest (fun q hq => hnc q (List.mem_cons_of_mem _ hq))

theorem pass2_transfers (P : Params) (h : Nat) (rates avgs : Option TMap) :
    ∀ (txs : List Tx) (bal : Ticker → Int), (∀ t ∈ txs, t.isConversion P = false) →
      pass2 P h rates avgs bal txs = none ∨ pass2 P h rates avgs bal txs = some (.reject (-1))
  | [], _, _ => Or.inl rfl
  | t :: rest, bal, hnc => by
    simp only [pass2]
    have := hnc t List.mem_cons_self
    by_cases hf : bal t.inType < (t.inAmount : Int)
    · right; simp [hf]
    · simp only [hf, if_false, this, Bool.false_eq_true]
      exact pass2_transfers P h rates avgs rest _ (fun q hq => hnc q (List.mem_cons_of_mem _ hq))

/-- the verdict on a batch of plain transfers: applied, or rejected for lack of funds — never a
    block-failing error -/
theorem verdict_transfers (P : Params) (db : DB) (h : Nat) (rates avgs : Option TMap) (txs : List Tx)
    (hnc : ∀ t ∈ txs, t.isConversion P = false) :
    verdict P db h rates avgs txs = .apply ∨ verdict P db h rates avgs txs = .reject (-1) := by
  unfold verdict
  cases txs with
  | nil => exact Or.inl rfl
  | cons t0 rest =>
    simp only
    rcases pass1_transfers P h (db.balances t0.inAddr) rates avgs (t0 :: rest) hnc with h1 | h1
    · rw [h1]
      simp only
      rcases pass2_transfers P h rates avgs (t0 :: rest) (db.balances t0.inAddr) hnc with h2 | h2
      · rw [h2]; exact Or.inl rfl
      · rw [h2]; exact Or.inr rfl
    · rw [h1]; exact Or.inr rfl

/-- **`applyTransactionBatch` on a batch of plain transfers never fails**: it applies the batch or
    rejects it for lack of funds -/
theorem applyBatch_transfers_total (P : Params) (h : Nat) (e : TxEntry) (rates avgs : Option TMap) (s : DB)
    (a : Addr) (hb : a ≠ burnAddrAt P h) (hall : ∀ t ∈ e.txs, t.inAddr = a) (hplain : ∀ t ∈ e.txs, PlainTransfer P t) :
    ∃ v s', applyBatch P h e rates avgs s = .ok v s' ∧ (v = .apply ∨ v = .reject (-1)) := by
  unfold applyBatch
  rw [M.bind_run]
  simp only [M.get_run]
  rcases verdict_transfers P s h rates avgs e.txs (fun t ht => (hplain t ht).notConv) with hv | hv
  · rw [hv]
    simp only [M.bind_run, logExec, M.guarded]
    cases htx : e.txs with
    | nil =>
      exact ⟨.apply, { s with execLog := s.execLog ++ [e.hash] }, rfl, Or.inl rfl⟩
    | cons t0 rest =>
      rw [htx] at hv hall hplain
      have hp2 := verdict_apply_pass2 hv
      have ha0 : t0.inAddr = a := hall t0 List.mem_cons_self
      rw [ha0] at hp2
      obtain ⟨s', hs'⟩ := recordBatch_transfers_succeeds P h e.hash rates avgs a hb (t0 :: rest)
        { s with execLog := s.execLog ++ [e.hash] } hall hplain hp2
      exact ⟨.apply, s', by rw [hs']; rfl, Or.inl rfl⟩
  · rw [hv]
    exact ⟨.reject (-1), s, rfl, Or.inr rfl⟩


/-! ### recording the arrival -/

/-- the body of `recordHistory`'s loop -/
def recordHistoryTx (P : Params) (hash : Hash) (idx : Nat) (t : Tx) : LM Unit := do
  insertLookup { hash := hash, txIndex := idx, addr := t.inAddr }
  if t.isConversion P then
    insertHistTx { hash := hash, txIndex := idx, action := 2, fromAddr := t.inAddr, fromAsset := tickerName P t.inType,
                   fromAmount := t.inAmount, toAsset := tickerName P t.conversion, toAmount := 0, outputs := "",
                   fromT := t.inType, toT := t.conversion }
  else do
    M.forEach t.transfers fun tr => insertLookup { hash := hash, txIndex := idx, addr := tr.addr }
    insertHistTx { hash := hash, txIndex := idx, action := 1, fromAddr := t.inAddr, fromAsset := tickerName P t.inType,
                   fromAmount := t.inAmount, toAsset := "", toAmount := 0,
                   outputs := renderOutputs (t.transfers.map fun tr => (tr.addr, (tr.amount : Int))),
                   fromT := t.inType, outs := t.transfers.map fun tr => (tr.addr, tr.amount) }

/-- what the history inserts leave alone -/
def sameButHistory (s s' : DB) : Prop := s'.histB = s.histB ∧ s'.holding = s.holding

theorem lookup_keeps (r : HistLookup) (s0 : DB) :
    ∃ s1, insertLookup r s0 = .ok () s1 ∧ s1.histT = s0.histT ∧ sameButHistory s0 s1 := by
  simp only [insertLookup, M.guarded]
  refine ⟨_, rfl, ?_, ?_, ?_⟩ <;> (split <;> rfl)

theorem lookups_keep (hash : Hash) (k : Nat) : ∀ (l : List Transfer) (s0 : DB),
    ∃ s1, M.forEach l (fun tr => insertLookup { hash := hash, txIndex := k, addr := tr.addr }) s0 = .ok () s1 ∧
      s1.histT = s0.histT ∧ sameButHistory s0 s1
  | [], s0 => ⟨s0, rfl, rfl, rfl, rfl⟩
  | tr :: rest, s0 => by
    obtain ⟨s1, h1, e1, e2, e3⟩ := lookup_keeps { hash := hash, txIndex := k, addr := tr.addr } s0
    obtain ⟨s2, h2, f1, f2, f3⟩ := lookups_keep hash k rest s1
    refine ⟨s2, ?_, by rw [f1, e1], by rw [f2, e2], by rw [f3, e3]⟩
    simp only [M.forEach]
    show (insertLookup { hash := hash, txIndex := k, addr := tr.addr } >>= fun _ => M.forEach rest _) s0 = _
    rw [M.bind_run, h1]
    exact h2

/-- the per-transaction part of `recordHistory` at index `k`, on a history in which every row of
    this entry has a smaller index: succeeds, and the rows of this entry now have indexes below `k + 1` -/
theorem recordHistoryTx_ok (P : Params) (hash : Hash) (k : Nat) (t : Tx) (s : DB)
    (hinv : ∀ r ∈ s.histT, r.hash = hash → r.txIndex < (k : Int)) :
    ∃ s', recordHistoryTx P hash k t s = .ok () s' ∧
      (∀ r ∈ s'.histT, r.hash = hash → r.txIndex < ((k + 1 : Nat) : Int)) ∧ sameButHistory s s' := by
  -- inserting the row of index k into a table whose rows of this entry have smaller indexes
  have hins : ∀ (row : HistTx) (s1 : DB), row.hash = hash → row.txIndex = (k : Int) → s1.histT = s.histT → sameButHistory s s1 →
      ∃ s', insertHistTx row s1 = .ok () s' ∧
        (∀ r ∈ s'.histT, r.hash = hash → r.txIndex < ((k + 1 : Nat) : Int)) ∧ sameButHistory s s' := by
    intro row s1 hrh hri hT1 hsame
    simp only [insertHistTx, M.guarded]
    have hno : (s1.histT.any fun x => x.hash == row.hash && x.txIndex == row.txIndex) = false := by
      rw [hT1, hrh, hri]
      apply Bool.eq_false_iff.2
      intro hany
      obtain ⟨r, hr, hc⟩ := List.any_eq_true.1 hany
      simp only [Bool.and_eq_true, beq_iff_eq] at hc
      have := hinv r hr hc.1
      omega
    simp only [hno, Bool.false_eq_true, if_false]
    refine ⟨_, rfl, ?_, hsame⟩
    intro r hr hh
    simp only [hT1] at hr
    rcases List.mem_append.1 hr with hr | hr
    · have := hinv r hr hh; push_cast; omega
    · simp only [List.mem_singleton] at hr
      subst hr
      rw [hri]
      push_cast
      omega
  unfold recordHistoryTx
  obtain ⟨s0, h0, hT0, hsame0⟩ := lookup_keeps { hash := hash, txIndex := k, addr := t.inAddr } s
  rw [M.bind_run, h0]
  by_cases hcv : t.isConversion P = true
  · simp only [hcv, if_true]
    exact hins _ s0 rfl rfl hT0 hsame0
  · have hcf : t.isConversion P = false := by simpa using hcv
    simp only [hcf, Bool.false_eq_true, if_false]
    obtain ⟨s1, h1, hT1, hB1, hH1⟩ := lookups_keep hash k t.transfers s0
    rw [M.bind_run, h1]
    exact hins _ s1 rfl rfl (by rw [hT1, hT0]) ⟨by rw [hB1, hsame0.1], by rw [hH1, hsame0.2]⟩

theorem recordHistoryLoop_ok (P : Params) (hash : Hash) :
    ∀ (txs : List Tx) (k : Nat) (s : DB),
      (∀ r ∈ s.histT, r.hash = hash → r.txIndex < (k : Int)) →
      ∃ s', M.forEach (txs.zipIdx k) (fun p => recordHistoryTx P hash p.2 p.1) s = .ok () s' ∧ sameButHistory s s'
  | [], _, s, _ => ⟨s, rfl, rfl, rfl⟩
  | t :: rest, k, s, hinv => by
    obtain ⟨s1, h1, hinv1, hB1, hH1⟩ := recordHistoryTx_ok P hash k t s hinv
    obtain ⟨s2, h2, hB2, hH2⟩ := recordHistoryLoop_ok P hash rest (k + 1) s1 hinv1
    refine ⟨s2, ?_, by rw [hB2, hB1], by rw [hH2, hH1]⟩
    rw [List.zipIdx_cons]
    simp only [M.forEach]
    show (recordHistoryTx P hash k t >>= fun _ => M.forEach (rest.zipIdx (k + 1)) (fun p => recordHistoryTx P hash p.2 p.1)) s = _
    rw [M.bind_run, h1]
    exact h2

/-- **Recording the arrival of a fresh entry succeeds**, whatever it contains, and leaves the
    holding table alone. -/
theorem recordHistory_ok (P : Params) (h bo : Nat) (e : TxEntry) (s : DB)
    (hnrec : s.isRecorded e.hash = false) (hfresh : ∀ r ∈ s.histT, r.hash ≠ e.hash) :
    ∃ s', recordHistory P h bo e s = .ok () s' ∧ s'.holding = s.holding := by
  unfold recordHistory
  rw [M.bind_run]
  simp only [insertHistBatch, M.guarded]
  have hno : (s.histB.any fun x => x.hash == e.hash && x.height == (h : Int)) = false := by
    apply Bool.eq_false_iff.2
    intro hany
    obtain ⟨r, hr, hc⟩ := List.any_eq_true.1 hany
    simp only [Bool.and_eq_true] at hc
    have : s.isRecorded e.hash = true := List.any_eq_true.2 ⟨r, hr, hc.1⟩
    rw [hnrec] at this
    cases this
  simp only [hno, Bool.false_eq_true, if_false]
  obtain ⟨s', h', _, hH⟩ := recordHistoryLoop_ok P e.hash e.txs 0
    { s with histB := s.histB ++ [{ hash := e.hash, height := h, blockorder := bo, ts := e.ts, executed := 0 }] }
    (fun r hr hh => absurd hh (hfresh r hr))
  exact ⟨s', h', hH⟩

/-- **No transfer-only entry can fail the block.** An entry that validates at this height, holds
    only transfers (any number of transactions and outputs, any amounts, funded or not) and has not
    been seen before is recorded and then either applied or rejected for lack of funds: the entry
    step of `ApplyTransactionBlock` succeeds. (`hdec`: what the decoder guarantees for every accepted
    batch — known asset, outputs within the input; `hb`: nobody holds the key of the burn address.) -/
theorem transfer_entry_never_fails (P : Params) (h : Nat) (keymr : String) (bo : Nat) (e : TxEntry) (s : DB)
    (a : Addr) (hb : a ≠ burnAddrAt P h) (hall : ∀ t ∈ e.txs, t.inAddr = a) (hplain : ∀ t ∈ e.txs, PlainTransfer P t)
    (hfresh : ∀ r ∈ s.histT, r.hash ≠ e.hash) :
    ∃ s', applyTxEntry P h keymr bo e s = .ok () s' := by
  unfold applyTxEntry
  rw [M.bind_run]
  simp only [M.get_run]
  by_cases hc : (e.validAt P h && !s.isReplay e.hash && !s.isRecorded e.hash) = true
  · rw [if_pos hc]
    simp only [Bool.and_eq_true, Bool.not_eq_true'] at hc
    obtain ⟨s1, h1, _⟩ := recordHistory_ok P h bo e s hc.2 hfresh
    rw [M.bind_run, h1]
    have hnoconv : e.hasConversions P = false := by
      unfold TxEntry.hasConversions
      apply Bool.eq_false_iff.2
      intro hany
      obtain ⟨t, ht, hcv⟩ := List.any_eq_true.1 hany
      rw [(hplain t ht).notConv] at hcv
      cases hcv
    simp only [hnoconv, Bool.false_eq_true, if_false]
    obtain ⟨v, s2, h2, hv⟩ := applyBatch_transfers_total P h e none none s1 a hb hall hplain
    rw [M.bind_run, h2]
    rcases hv with rfl | rfl
    · exact ⟨s2, rfl⟩
    · exact ⟨_, rfl⟩
  · rw [if_neg hc]
    exact ⟨s, rfl⟩


/-- **The arrival of an entry with conversions never fails the block either**: it is recorded and
    put into holding (`hhold`: it is not held yet — an entry is held only after being recorded, and a
    recorded entry is skipped). What can fail a block is the EXECUTION of held conversions, where the
    recorded findings of this property live. -/
theorem conversion_entry_arrival_never_fails (P : Params) (h : Nat) (keymr : String) (bo : Nat) (e : TxEntry) (s : DB)
    (hconv : e.hasConversions P = true) (hfresh : ∀ r ∈ s.histT, r.hash ≠ e.hash)
    (hhold : ∀ r ∈ s.holding, r.entry.hash ≠ e.hash) :
    ∃ s', applyTxEntry P h keymr bo e s = .ok () s' := by
  unfold applyTxEntry
  rw [M.bind_run]
  simp only [M.get_run]
  by_cases hc : (e.validAt P h && !s.isReplay e.hash && !s.isRecorded e.hash) = true
  · rw [if_pos hc]
    simp only [Bool.and_eq_true, Bool.not_eq_true'] at hc
    obtain ⟨s1, h1, hH⟩ := recordHistory_ok P h bo e s hc.2 hfresh
    rw [M.bind_run, h1]
    simp only [hconv, if_true, insertHolding, M.guarded]
    have hno : (s1.holding.any fun x => x.entry.hash == e.hash) = false := by
      rw [hH]
      apply Bool.eq_false_iff.2
      intro hany
      obtain ⟨r, hr, hcx⟩ := List.any_eq_true.1 hany
      exact hhold r hr (by simpa using hcx)
    simp only [hno, Bool.false_eq_true, if_false]
    exact ⟨_, rfl⟩
  · rw [if_neg hc]
    exact ⟨s, rfl⟩

end Pegnet
