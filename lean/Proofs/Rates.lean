import Proofs.Chain
/-
  C12: the rate rows a block records are exactly the rows of the selected asset list, with PEG
  priced according to the phase of the height.
-/
namespace Pegnet

/-- the PEG price `InsertRates` records (grading.go:78-135) -/
def pegPrice (P : Params) (c : DB) (assets : List (String × Nat)) (phase : Phase) : Nat :=
  let pegIn := match (assets.filter (·.1 == "PEG")).getLast? with | some a => a.2 | none => 0
  match phase with
  | .zero => 0
  | .floating => pegIn
  | .equation =>
    let cap : Nat := (assets.map fun a =>
      if a.1 == "PEG" then 0 else (c.supply (stringToTicker P ("p" ++ a.1))).toNat * a.2).sum
    let iss := (c.supply tPEG).toNat
    if iss = 0 then 0 else (cap / iss) % 18446744073709551616

/-- the rows `InsertRates` writes for an asset list: one `p<NAME>` row per non-PEG asset, in
    list order, then the PEG row -/
def rateRows (P : Params) (c : DB) (h : Nat) (assets : List (String × Nat)) (phase : Phase) : List RateRow :=
  (assets.filter (fun a => !(a.1 == "PEG"))).map (fun a => { height := h, token := "p" ++ a.1, value := a.2 }) ++
    [{ height := h, token := "PEG", value := pegPrice P c assets phase }]

theorem insertRate_ok {h : Nat} {tok : String} {v : Nat} {s s' : DB} (hr : insertRate h tok v s = .ok () s') :
    s' = { s with rates := s.rates ++ [{ height := h, token := tok, value := v }] } := by
  simp only [insertRate, M.guarded] at hr
  split at hr
  · cases hr
  · injection hr with _ hs; exact hs.symm

theorem forEach_insert_nonpeg (h : Nat) (assets : List (String × Nat)) (s s' : DB)
    (hr : M.forEach assets (fun a => if a.1 == "PEG" then (pure () : LM Unit) else insertRate h ("p" ++ a.1) a.2) s = .ok () s') :
    s' = { s with rates := s.rates ++
      (assets.filter (fun a => !(a.1 == "PEG"))).map (fun a => { height := h, token := "p" ++ a.1, value := a.2 }) } := by
  induction assets generalizing s with
  | nil =>
    simp only [M.forEach, M.pure_run'] at hr
    injection hr with _ hs
    subst hs
    simp
  | cons a rest ih =>
    simp only [M.forEach] at hr
    obtain ⟨_, s1, h1, h2⟩ := M.bind_ok (m := if a.1 == "PEG" then (pure () : LM Unit) else insertRate h ("p" ++ a.1) a.2) hr
    by_cases hp : (a.1 == "PEG") = true
    · rw [if_pos hp] at h1
      simp only [M.pure_run] at h1
      injection h1 with _ hs
      subst hs
      rw [ih s h2]
      simp [hp]
    · rw [if_neg hp] at h1
      have e1 := insertRate_ok h1
      rw [ih s1 h2, e1]
      have hp' : (a.1 == "PEG") = false := by simpa using hp
      simp [hp', List.append_assoc]

/-- `InsertRates` appends exactly `rateRows` and touches nothing else -/
theorem insertRates_ok {P : Params} {c : DB} {h : Nat} {assets : List (String × Nat)} {phase : Phase} {s s' : DB}
    (hr : insertRates P c h assets phase s = .ok () s') :
    s' = { s with rates := s.rates ++ rateRows P c h assets phase } := by
  unfold insertRates at hr
  obtain ⟨_, s1, h1, h2⟩ := M.bind_ok hr
  have e1 := forEach_insert_nonpeg h assets s s1 h1
  have e2 := insertRate_ok h2
  rw [e2, e1]
  simp only [rateRows, pegPrice, List.append_assoc]
  rfl

theorem insertGradeBlock_keeps_rates (h : Nat) (keymr : String) (g : OprGraded) :
    Step (keepRel (·.rates)) (insertGradeBlock h keymr g) := by
  unfold insertGradeBlock
  apply Step.bind
  · exact Step.guarded (fun _ => rfl)
  · intro _
    split
    · exact Step.forEach (fun o => Step.guarded (fun _ => rfl))
    · exact Step.pure _

/-- the pricing phase of a height before 2.0 -/
def phaseAt (P : Params) (h : Nat) : Phase :=
  if h ≥ P.act.pegFloat then .floating else if h ≥ P.act.pegPricing then .equation else .zero

/-- the asset list a block's rates are taken from: before 2.0 the winning OPR's; from 2.0 on the
    winning OPR's filtered against the winning SPR's by the band rule of the era -/
def selectedAssets (P : Params) (b : Block) : Option (List (String × Nat)) :=
  let h := b.height
  if h < P.act.v20 then
    match b.opr with
    | .graded g => if g.winners.isEmpty then none else some g.assets
    | _ => none
  else
    let o := match b.opr with | .graded g => if g.winners.isEmpty then [] else g.assets | _ => []
    let s := match b.spr with | .graded g => if g.winners.isEmpty then [] else g.assets | _ => []
    if o.isEmpty && s.isEmpty then none
    else if h < P.act.devRewards then assetRatesV0 o s else assetRates P h o s

/-- **The rates recorded for a block are exactly those selected from the winning records.**
    Whenever the grading step of a block reports "rates available", the rate table has grown by
    exactly `rateRows` of the selected asset list — the winning OPR's assets (before 2.0), or
    those assets filtered against the winning SPR under the tolerance band of the era (from 2.0
    on) — with PEG priced by the phase of the height; no other rate row is written or changed. -/
theorem gradeAndRates_records_exact {P : Params} {c : DB} {b : Block} {s s' : DB}
    (hr : gradeAndRates P c b s = .ok (.cont true) s') :
    ∃ sel, selectedAssets P b = some sel ∧
      s'.rates = s.rates ++ rateRows P c b.height sel (if b.height < P.act.v20 then phaseAt P b.height else .floating) := by
  unfold gradeAndRates at hr
  unfold selectedAssets
  by_cases hh : b.height < P.act.v20
  · simp only [hh, if_true] at hr ⊢
    cases ho : b.opr with
    | absent => rw [ho] at hr; simp only [M.pure_run] at hr; injection hr with h1 _; cases h1
    | err w => rw [ho] at hr; cases hr
    | graded g =>
      rw [ho] at hr
      simp only at hr ⊢
      obtain ⟨_, s1, h1, h2⟩ := M.bind_ok hr
      have k1 : s1.rates = s.rates := (insertGradeBlock_keeps_rates b.height b.oprKeymr g).ok h1
      by_cases hw : (!g.winners.isEmpty) = true
      · rw [if_pos hw] at h2
        obtain ⟨_, s2, h3, h4⟩ := M.bind_ok h2
        simp only [M.pure_run] at h4
        injection h4 with _ hs
        subst hs
        have hw' : g.winners.isEmpty = false := by simpa using hw
        refine ⟨g.assets, by simp [hw'], ?_⟩
        rw [insertRates_ok h3]
        simp only [k1, phaseAt]
      · rw [if_neg hw] at h2
        simp only [M.pure_run] at h2
        injection h2 with h2 _; cases h2
  · simp only [hh, if_false] at hr ⊢
    -- 2.0 branch
    cases ho : b.opr with
    | err w => rw [ho] at hr; cases hr
    | absent =>
      rw [ho] at hr
      cases hsp : b.spr with
      | err w => rw [hsp] at hr; cases hr
      | absent =>
        rw [hsp] at hr
        simp [M.bind_run] at hr
      | panic st =>
        rw [hsp] at hr
        simp [M.bind_run] at hr
      | graded gs =>
        rw [hsp] at hr
        simp only [M.bind_run, M.pure_run, List.isEmpty_nil, Bool.not_true, Bool.false_or] at hr
        by_cases he : (!(if gs.winners.isEmpty then ([] : List (String × Nat)) else gs.assets).isEmpty) = true
        · rw [if_pos he] at hr
          have he' : (if gs.winners.isEmpty then ([] : List (String × Nat)) else gs.assets).isEmpty = false := by simpa using he
          simp only [List.isEmpty_nil, Bool.true_and, he']
          cases hf : (if b.height < P.act.devRewards then assetRatesV0 [] (if gs.winners.isEmpty then [] else gs.assets)
              else assetRates P b.height [] (if gs.winners.isEmpty then [] else gs.assets)) with
          | none => rw [hf] at hr; simp at hr
          | some f =>
            rw [hf] at hr
            simp only [M.bind_run] at hr
            cases hi : insertRates P c b.height f Phase.floating s with
            | fail e t => rw [hi] at hr; cases hr
            | ok u t =>
              rw [hi] at hr
              simp only [M.pure_run] at hr
              injection hr with _ hs
              subst hs
              exact ⟨f, rfl, by rw [insertRates_ok hi]⟩
        · rw [if_neg he] at hr
          injection hr with h1 _; cases h1
    | graded g =>
      rw [ho] at hr
      cases hsp : b.spr with
      | err w => rw [hsp] at hr; cases hr
      | absent =>
        rw [hsp] at hr
        simp only [M.bind_run] at hr
        cases hg : insertGradeBlock b.height b.oprKeymr g s with
        | fail e t => rw [hg] at hr; cases hr
        | ok u s1 =>
          rw [hg] at hr
          have k1 : s1.rates = s.rates := (insertGradeBlock_keeps_rates b.height b.oprKeymr g).ok hg
          simp only [M.pure_run, List.isEmpty_nil, Bool.not_true, Bool.or_false] at hr
          by_cases he : (!(if g.winners.isEmpty then ([] : List (String × Nat)) else g.assets).isEmpty) = true
          · rw [if_pos he] at hr
            have he' : (if g.winners.isEmpty then ([] : List (String × Nat)) else g.assets).isEmpty = false := by simpa using he
            simp only [List.isEmpty_nil, Bool.and_true, he']
            cases hf : (if b.height < P.act.devRewards then assetRatesV0 (if g.winners.isEmpty then [] else g.assets) []
                else assetRates P b.height (if g.winners.isEmpty then [] else g.assets) []) with
            | none => rw [hf] at hr; simp at hr
            | some f =>
              rw [hf] at hr
              simp only [M.bind_run] at hr
              cases hi : insertRates P c b.height f Phase.floating s1 with
              | fail e t => rw [hi] at hr; cases hr
              | ok u t =>
                rw [hi] at hr
                simp only [M.pure_run] at hr
                injection hr with _ hs
                subst hs
                exact ⟨f, rfl, by rw [insertRates_ok hi]; simp only [k1]⟩
          · rw [if_neg he] at hr
            injection hr with h1 _; cases h1
      | panic st =>
        rw [hsp] at hr
        simp only [M.bind_run] at hr
        cases hg : insertGradeBlock b.height b.oprKeymr g s with
        | fail e t => rw [hg] at hr; cases hr
        | ok u s1 =>
          rw [hg] at hr
          have k1 : s1.rates = s.rates := (insertGradeBlock_keeps_rates b.height b.oprKeymr g).ok hg
          simp only [M.pure_run, List.isEmpty_nil, Bool.not_true, Bool.or_false] at hr
          by_cases he : (!(if g.winners.isEmpty then ([] : List (String × Nat)) else g.assets).isEmpty) = true
          · rw [if_pos he] at hr
            have he' : (if g.winners.isEmpty then ([] : List (String × Nat)) else g.assets).isEmpty = false := by simpa using he
            simp only [List.isEmpty_nil, Bool.and_true, he']
            cases hf : (if b.height < P.act.devRewards then assetRatesV0 (if g.winners.isEmpty then [] else g.assets) []
                else assetRates P b.height (if g.winners.isEmpty then [] else g.assets) []) with
            | none => rw [hf] at hr; simp at hr
            | some f =>
              rw [hf] at hr
              simp only [M.bind_run] at hr
              cases hi : insertRates P c b.height f Phase.floating s1 with
              | fail e t => rw [hi] at hr; cases hr
              | ok u t =>
                rw [hi] at hr
                simp only [M.pure_run] at hr
                injection hr with _ hs
                subst hs
                exact ⟨f, rfl, by rw [insertRates_ok hi]; simp only [k1]⟩
          · rw [if_neg he] at hr
            injection hr with h1 _; cases h1
      | graded gs =>
        rw [hsp] at hr
        simp only [M.bind_run] at hr
        cases hg : insertGradeBlock b.height b.oprKeymr g s with
        | fail e t => rw [hg] at hr; cases hr
        | ok u s1 =>
          rw [hg] at hr
          have k1 : s1.rates = s.rates := (insertGradeBlock_keeps_rates b.height b.oprKeymr g).ok hg
          simp only [M.pure_run] at hr
          by_cases he : (!(if g.winners.isEmpty then ([] : List (String × Nat)) else g.assets).isEmpty ||
              !(if gs.winners.isEmpty then ([] : List (String × Nat)) else gs.assets).isEmpty) = true
          · rw [if_pos he] at hr
            have he' : ((if g.winners.isEmpty then ([] : List (String × Nat)) else g.assets).isEmpty &&
                (if gs.winners.isEmpty then ([] : List (String × Nat)) else gs.assets).isEmpty) = false := by
              revert he
              generalize (if g.winners.isEmpty then ([] : List (String × Nat)) else g.assets) = A
              generalize (if gs.winners.isEmpty then ([] : List (String × Nat)) else gs.assets) = B
              intro he
              cases hA : A.isEmpty <;> cases hB : B.isEmpty <;> simp [hA, hB] at he ⊢
            simp only [he']
            cases hf : (if b.height < P.act.devRewards
                then assetRatesV0 (if g.winners.isEmpty then [] else g.assets) (if gs.winners.isEmpty then [] else gs.assets)
                else assetRates P b.height (if g.winners.isEmpty then [] else g.assets) (if gs.winners.isEmpty then [] else gs.assets)) with
            | none => rw [hf] at hr; simp at hr
            | some f =>
              rw [hf] at hr
              simp only [M.bind_run] at hr
              cases hi : insertRates P c b.height f Phase.floating s1 with
              | fail e t => rw [hi] at hr; cases hr
              | ok u t =>
                rw [hi] at hr
                simp only [M.pure_run] at hr
                injection hr with _ hs
                subst hs
                exact ⟨f, rfl, by rw [insertRates_ok hi]; simp only [k1]⟩
          · rw [if_neg he] at hr
            injection hr with h1 _; cases h1

end Pegnet
