import Proofs.BatchLemmas
/-
  Per-asset supply (column sums of the balance table) under the primitive balance operations.
-/
namespace Pegnet

def rowsSupply (rows : List AddrRow) (t : Ticker) : Int := (rows.map (fun r => getB r.bals t)).sum

theorem supply_eq (db : DB) (t : Ticker) : db.supply t = rowsSupply db.addrs t := rfl

theorem rowsSupply_updRow_absent (rows : List AddrRow) (a : Addr) (t t' : Ticker) (f : Int → Int)
    (h : a ∉ rows.map (·.addr)) : rowsSupply (updRow rows a t f) t' = rowsSupply rows t' := by
  induction rows with
  | nil => rfl
  | cons x xs ih =>
    simp only [List.map_cons, List.mem_cons, not_or] at h
    unfold updRow rowsSupply at *
    simp only [List.map_cons, List.sum_cons]
    have : (x.addr == a) = false := by simp; exact fun e => h.1 e.symm
    rw [this]
    simp only [Bool.false_eq_true, if_false]
    rw [ih h.2]

/-- updating the (unique) row of `a` changes the column sum of `t` by the change of that cell -/
theorem rowsSupply_updRow (rows : List AddrRow) (a : Addr) (t t' : Ticker) (f : Int → Int) (r : AddrRow)
    (hn : (rows.map (·.addr)).Nodup) (hr : r ∈ rows) (ha : r.addr = a) :
    rowsSupply (updRow rows a t f) t' =
      rowsSupply rows t' + (if t = t' then f (getB r.bals t) - getB r.bals t else 0) := by
  induction rows with
  | nil => cases hr
  | cons x xs ih =>
    simp only [List.map_cons, List.nodup_cons] at hn
    rcases List.mem_cons.1 hr with e | e
    · subst e
      have hx : (r.addr == a) = true := by simp [ha]
      have habs : a ∉ xs.map (·.addr) := ha ▸ hn.1
      have hrest := rowsSupply_updRow_absent xs a t t' f habs
      unfold updRow rowsSupply at *
      simp only [List.map_cons, List.sum_cons, hx, if_true]
      rw [hrest, getB_setB]
      by_cases htt : t = t'
      · subst htt; simp only [if_true]; omega
      · simp only [htt, if_false]; omega
    · have hx : (x.addr == a) = false := by
        simp only [beq_eq_false_iff_ne, ne_eq]
        intro hxa
        apply hn.1
        rw [hxa, ← ha]
        exact List.mem_map_of_mem e
      have := ih hn.2 e
      unfold updRow rowsSupply at *
      simp only [List.map_cons, List.sum_cons, hx, Bool.false_eq_true, if_false]
      rw [this]; omega

theorem rowsSupply_upsertAdd (rows : List AddrRow) (a : Addr) (t t' : Ticker) (v : Int)
    (hn : (rows.map (·.addr)).Nodup) :
    rowsSupply (upsertAdd rows a t v) t' = rowsSupply rows t' + (if t = t' then v else 0) := by
  unfold upsertAdd
  cases hf : findRow rows a with
  | some r =>
    simp only
    have hr : r ∈ rows := List.mem_of_find?_eq_some hf
    have ha : r.addr = a := by
      have := List.find?_some hf
      simpa using this
    rw [rowsSupply_updRow rows a t t' (· + v) r hn hr ha]
    split <;> omega
  | none =>
    simp only
    unfold rowsSupply
    simp only [List.map_append, List.map_cons, List.map_nil, List.sum_append, List.sum_cons, List.sum_nil, getB_setB, getB_nil]
    split <;> omega

/-- `AddToBalance` raises the supply of its asset by exactly the amount, and of no other asset. -/
theorem addBal_supply (P : Params) (a : Addr) (t : Ticker) (v : Nat) (s s' : DB) (hok : AddrsOK s)
    (h : addBal P a t v s = .ok () s') :
    (∀ t', s'.supply t' = s.supply t' + (if t = t' then (v : Int) else 0)) ∧ AddrsOK s' := by
  unfold addBal M.guarded at h
  simp only at h
  split at h
  · cases h
  · injection h with _ hs
    subst hs
    exact ⟨fun t' => rowsSupply_upsertAdd s.addrs a t t' v hok.1, addrsOK_upsertAdd s a t v hok⟩

/-- `SubFromBalance` that succeeds lowers the supply by exactly the amount; one that reports an
    insufficient balance changes nothing. -/
theorem subBal_supply (P : Params) (a : Addr) (t : Ticker) (v : Nat) (s s' : DB) (b : Bool) (hok : AddrsOK s)
    (h : subBal P a t v s = .ok b s') :
    (∀ t', s'.supply t' = s.supply t' - (if b ∧ t = t' then (v : Int) else 0)) ∧ AddrsOK s' := by
  have hinv : AddrsOK s' := by
    have := (subBal_addrsOK P a t v).run s hok
    rw [h] at this; exact this
  refine ⟨?_, hinv⟩
  unfold subBal at h
  by_cases hv : v = 0
  · rw [if_pos hv] at h
    obtain ⟨_, s1, h1, h2⟩ := M.bind_ok h
    simp only [M.pure_run] at h2
    injection h2 with hb hs
    subst hs
    have := (addBal_supply P a t 0 s s1 hok h1).1
    intro t'
    rw [this t', hv]
    split <;> split <;> simp
  · rw [if_neg hv] at h
    by_cases hvt : (!validTicker P t) = true
    · rw [if_pos hvt] at h; cases h
    · rw [if_neg hvt, M.bind_run] at h
      simp only [M.get_run] at h
      by_cases hb : s.bal a t < (v : Int)
      · rw [if_pos hb] at h
        simp only [M.pure_run] at h
        injection h with hbb hs
        subst hs; subst hbb
        intro t'; simp
      · rw [if_neg hb] at h
        obtain ⟨_, s1, h1, h2⟩ := M.bind_ok h
        simp only [M.pure_run] at h2
        injection h2 with hbb hs
        subst hs; subst hbb
        rcases debit_run a t v s with hd | hd
        · -- the debit failed: impossible, the bind succeeded
          rw [h1] at hd
          simp only [Res.state] at hd
          -- then h1 says debit returned ok with unchanged state; inspect the definition
          unfold debit M.guarded at h1
          simp only at h1
          split at h1
          · cases h1
          · injection h1 with _ hs1
            -- updated state equals s: compute supply through the general lemma anyway
            subst hs1
            intro t'
            have hpos : (0 : Int) < v := by omega
            have hbal : (v : Int) ≤ s.bal a t := by omega
            -- a row exists because the balance is positive
            cases hf : findRow s.addrs a with
            | none => unfold DB.bal at hbal; rw [hf] at hbal; simp at hbal; omega
            | some r =>
              have hr : r ∈ s.addrs := List.mem_of_find?_eq_some hf
              have ha : r.addr = a := by have := List.find?_some hf; simpa using this
              have := rowsSupply_updRow s.addrs a t t' (· - (v : Int)) r hok.1 hr ha
              show rowsSupply (updRow s.addrs a t (· - (v : Int))) t' = _
              rw [this, supply_eq]
              split <;> simp_all <;> omega
        · rw [hd] at h1
          injection h1 with _ hs1
          subst hs1
          intro t'
          have hbal : (v : Int) ≤ s.bal a t := by omega
          cases hf : findRow s.addrs a with
          | none => unfold DB.bal at hbal; rw [hf] at hbal; simp at hbal; omega
          | some r =>
            have hr : r ∈ s.addrs := List.mem_of_find?_eq_some hf
            have ha : r.addr = a := by have := List.find?_some hf; simpa using this
            have := rowsSupply_updRow s.addrs a t t' (· - (v : Int)) r hok.1 hr ha
            show rowsSupply (updRow s.addrs a t (· - (v : Int))) t' = _
            rw [this, supply_eq]
            split <;> simp_all <;> omega

end Pegnet
