import Proofs.BatchLemmas
import Proofs.Holding
import Proofs.ExecOnce
import Proofs.HoldOnce
import Proofs.Process
import Pegnet.Generated.Facts
/-
  C06 — At-most-once execution of an entry (replay protection).
-/
namespace Pegnet.C06
open Pegnet

/-- Executing a batch marks its entry hash: afterwards `IsReplayTransaction` answers true. -/
theorem execution_marks_entry {P : Params} {h : Nat} {e : TxEntry} {rates avgs : Option TMap} {s s' : DB}
    {t0 : Tx} {rest : List Tx} (htx : e.txs = t0 :: rest)
    (hr : applyBatch P h e rates avgs s = .ok .apply s') : s'.isReplay e.hash = true := by
  unfold applyBatch at hr
  rw [M.bind_run] at hr
  simp only [M.get_run] at hr
  cases hver : verdict P s h rates avgs e.txs with
  | apply =>
    rw [hver] at hr
    obtain ⟨_, s0, _, hr⟩ := M.bind_ok hr
    obtain ⟨_, s1, hrec, hp⟩ := M.bind_ok hr
    simp only [M.pure_run] at hp
    injection hp with _ hs
    subst hs
    rw [htx] at hrec
    exact recordBatch_marks hrec
  | reject c => rw [hver] at hr; simp only [M.pure_run] at hr; injection hr with hv _; cases hv
  | dropped => rw [hver] at hr; simp only [M.pure_run] at hr; injection hr with hv _; cases hv
  | failBlock f => rw [hver] at hr; simp only [M.throw_run] at hr; cases hr

/-- The mark is permanent: no later block, whatever it contains and whether it is applied or
    rolled back, removes it. For every chain. -/
theorem mark_is_permanent (P : Params) (n : Node) (chain : List Block) (x : Hash)
    (hx : n.db.isReplay x = true) : (runBlocks P n chain).db.isReplay x = true :=
  runBlocks_replay P n chain x hx

/-- A marked entry that arrives again on the chain is skipped entirely: nothing is written. -/
theorem repeated_arrival_is_noop (P : Params) (h : Nat) (keymr : String) (bo : Nat) (e : TxEntry) (s : DB)
    (hx : s.isReplay e.hash = true) : applyTxEntry P h keymr bo e s = .ok () s := by
  unfold applyTxEntry
  rw [M.bind_run]
  simp only [M.get_run, hx, Bool.not_true, Bool.and_false, Bool.false_and, Bool.false_eq_true, if_false]
  rfl

/-- A marked entry still sitting in holding is skipped when its window is processed: balances,
    relations and holding are untouched (only an invalid batch gets its status set to −2). -/
theorem repeated_holding_no_balance_change (P : Params) (h : Nat) (rates avgs : TMap) (e : TxEntry) (s s' : DB) (j : Bool)
    (hx : s.isReplay e.hash = true) (hr : applyHeld P h rates avgs e s = .ok j s') :
    s'.addrs = s.addrs ∧ s'.rels = s.rels := by
  unfold applyHeld at hr
  rw [M.bind_run] at hr
  simp only [M.get_run] at hr
  split at hr
  · obtain ⟨_, s1, h1, h2⟩ := M.bind_ok hr
    simp only [M.pure_run] at h2
    injection h2 with _ hs
    subst hs
    unfold setExecuted M.guarded at h1
    simp only at h1
    injection h1 with _ hs1
    subst hs1
    exact ⟨rfl, rfl⟩
  · simp only [M.pure_run] at hr
    injection hr with _ hs
    subst hs
    exact ⟨rfl, rfl⟩

/-- the holding window of block `h` visits only heights `fromH … h-1`: strictly earlier blocks -/
theorem window_strictly_earlier (fromH h i : Nat) (hi : i ∈ (List.range (h - fromH)).map (· + fromH)) :
    fromH ≤ i ∧ i < h := by
  obtain ⟨k, hk, rfl⟩ := List.mem_map.1 hi
  have := List.mem_range.1 hk
  omega

/-- **At least once.** When a block at or above the transaction activation is applied, then
    unless it had no usable rates (conversions keep waiting) every batch held at a height of the
    window `[last rated height, this height)` is considered in this very block: a non-zero status
    (execution height or negative reject code) is written for it, or it already bears a replay mark, or its
    conversion could not be computed (dropped: C17's known finding). Together with
    `window_strictly_earlier` and `mark_is_permanent` this is "considered for execution exactly
    once". (`DB.statusLog` is a history variable: the sequence of status writes.) -/
theorem held_batches_are_considered {P : Params} {c : DB} {b : Block} {avgs : TMap} {s' : DB}
    (hpos : 0 < b.height) (hrun : blockTx P c b avgs c = .ok () s') (htx : b.height ≥ P.act.txConv) :
    (∃ s1 s2 st, gradeAndRates P c b s1 = .ok st s2 ∧ st ≠ .cont true) ∨
    ∃ rates, ∀ row ∈ c.holding, (c.mostRecentRatesBefore b.height).2 ≤ row.height → row.height < b.height →
      Considered P b.height rates avgs c s' row.entry :=
  block_considers_held hpos hrun htx

/-- non-vacuity: a concrete holding window in which a funded conversion is executed (a status is
    written), evaluated by the kernel -/
def wP : Params :=
  { act := ⟨0,0,0,0,0,0,0,0,0,0,100,100,200,200,300,310,400⟩, tickerMax := 63, tickerNames := ["PEG", "pUSD", "pEUR"], oneWaySet := [],
    snapshotRate := 144, perBlockHolders := 0, perBlockDevs := 0, bankBase := 0, avgPeriod := 8, avgRequired := 4,
    syncVersion := 2, devs := [], «mint» := [], burnAddr := "b", oldBurnAddr := "o", mintAddr := "m", coinbaseAddr := "c", zeroAddr := "0" }
def wEntry : TxEntry :=
  { hash := "e1", ts := 0, validRCD1 := true, validRCDe := true,
    parsed := some (1, [{ inAddr := "alice", inType := 2, inAmount := 100, transfers := [], conversion := 3 }]) }
def wDB : DB :=
  { addrs := [{ addr := "alice", bals := setB [] 2 1000 }],
    holding := [{ entry := wEntry, height := 7, keymr := "k" }],
    histB := [{ hash := "e1", height := 7, blockorder := 0, ts := 0, executed := 0 }] }
example :
    (match applyHolding wP wDB 9 [(2, 100000000), (3, 200000000)] [] 7 wDB with
     | .ok _ s' => s'.statusLog
     | .fail _ _ => []) = [("e1", 9)] := by
  decide

/-! ### at most once, along every chain and every process run

`DB.execLog` is a history variable of the model: `applyTransactionBatch` appends the entry hash
each time — and only when — it goes on to move balances (`execution_is_logged`,
`no_execution_no_effect`). The theorems say no hash ever occurs twice in it. -/

/-- an execution (the batch is applied: balances move) is logged -/
theorem execution_is_logged {P : Params} {h : Nat} {e : TxEntry} {rates avgs : Option TMap} {s s' : DB}
    (hr : applyBatch P h e rates avgs s = .ok .apply s') : s'.execLog = s.execLog ++ [e.hash] := by
  unfold applyBatch at hr
  rw [M.bind_run] at hr
  simp only [M.get_run] at hr
  cases hver : verdict P s h rates avgs e.txs with
  | apply =>
    rw [hver] at hr
    simp only [M.bind_run, logExec, M.guarded] at hr
    cases hrec : recordBatch P h e.hash rates avgs e.txs { s with execLog := s.execLog ++ [e.hash] } with
    | fail f s2 => rw [hrec] at hr; cases hr
    | ok u s2 =>
      rw [hrec] at hr
      simp only [M.pure_run] at hr
      injection hr with _ hs
      subst hs
      exact ((recordBatch_step (primsOK_klgr P h) e.hash rates avgs e.txs).ok hrec).1
  | reject c => rw [hver] at hr; simp only [M.pure_run] at hr; injection hr with hv _; cases hv
  | dropped => rw [hver] at hr; simp only [M.pure_run] at hr; injection hr with hv _; cases hv
  | failBlock f => rw [hver] at hr; simp only [M.throw_run] at hr; cases hr

/-- every other outcome of `applyTransactionBatch` that lets the block go on changes nothing at all -/
theorem no_execution_no_effect {P : Params} {h : Nat} {e : TxEntry} {rates avgs : Option TMap} {s s' : DB} {v : Verdict}
    (hv : v ≠ .apply) (hr : applyBatch P h e rates avgs s = .ok v s') : s' = s := by
  unfold applyBatch at hr
  rw [M.bind_run] at hr
  simp only [M.get_run] at hr
  cases hver : verdict P s h rates avgs e.txs with
  | apply =>
    rw [hver] at hr
    simp only [M.bind_run, logExec, M.guarded] at hr
    cases hrec : recordBatch P h e.hash rates avgs e.txs { s with execLog := s.execLog ++ [e.hash] } with
    | fail f s2 => rw [hrec] at hr; cases hr
    | ok u s2 =>
      rw [hrec] at hr
      simp only [M.pure_run] at hr
      injection hr with hv' _
      exact absurd hv'.symm hv
  | reject c => rw [hver] at hr; simp only [M.pure_run] at hr; injection hr with _ hs; exact hs.symm
  | dropped => rw [hver] at hr; simp only [M.pure_run] at hr; injection hr with _ hs; exact hs.symm
  | failBlock f => rw [hver] at hr; simp only [M.throw_run] at hr; cases hr

/-- **At most once, every chain.** Whatever blocks the chain holds — entries repeated on the
    transaction chain, the same entry held twice, an entry both held and arriving again, blocks
    that fail and are retried — no entry hash is executed twice. -/
theorem executed_at_most_once (P : Params) (chain : List Block) :
    (runBlocks P (freshNode P) chain).db.execLog.Nodup :=
  (runBlocks_execOnce P _ chain (execOnce_fresh P)).1

theorem executed_at_most_once_count (P : Params) (chain : List Block) (x : Hash) :
    (runBlocks P (freshNode P) chain).db.execLog.count x ≤ 1 :=
  List.nodup_iff_count.1 (executed_at_most_once P chain) x

/-- … and everything executed bears its mark at the end (so it stays unexecutable) -/
theorem executed_is_marked (P : Params) (chain : List Block) (x : Hash)
    (hx : x ∈ (runBlocks P (freshNode P) chain).db.execLog) :
    (runBlocks P (freshNode P) chain).db.isReplay x = true :=
  (runBlocks_execOnce P _ chain (execOnce_fresh P)).2 x hx

/-- **At most once, every process run**: attempts, killed iterations and restarts in any order. -/
theorem executed_at_most_once_process (P : Params) (ch : Nat → Block) (es : List Ev) :
    (runEvs P ch (freshNode P) es).db.execLog.Nodup := by
  suffices h : ∀ n : Node, ExecOnce n.db → ExecOnce (runEvs P ch n es).db from (h _ (execOnce_fresh P)).1
  induction es with
  | nil => intro n hi; exact hi
  | cons e es ih =>
    intro n hi
    show ExecOnce (runEvs P ch (stepEv P ch n e) es).db
    apply ih
    cases e with
    | attempt => exact applyBlock_execOnce P n _ hi
    | aborted t => cases t <;> exact hi
    | restart => exact execOnce_congr (s := n.db) rfl rfl hi

/-- non-vacuity: the same conversion entry held twice is executed once (the log has one entry,
    and the second visit writes nothing), evaluated by the kernel -/
example :
    (match applyHolding wP { wDB with holding := wDB.holding ++ wDB.holding } 9 [(2, 100000000), (3, 200000000)] [] 7 wDB with
     | .ok _ s' => s'.execLog
     | .fail _ _ => []) = ["e1"] := by
  decide

/-- **An entry is placed in holding at most once**, along every chain: the holding table never has
    two rows of one entry hash (so the window of a block meets a held entry once). -/
theorem held_at_most_once (P : Params) (chain : List Block) :
    ((runBlocks P (freshNode P) chain).db.holding.map (·.entry.hash)).Nodup :=
  runBlocks_holdNodup P _ chain List.nodup_nil

end Pegnet.C06

namespace Pegnet.C06
open Pegnet
/-- the shipped schedule, regenerated from config/activations.go and fat/fat2/activations.go on every
    run, against the values this property was read with: the height from which conversions are held for the next rated block. Every scenario of the harness
    runs on a compressed schedule that overwrites these constants, so nothing else would notice one of
    them moving; a moved height is a different protocol, not a rewrite. -/
theorem shipped_schedule :
    let a := Generated.activations
    Generated.activationsComplete = true ∧ a.txConv = 213237 := by
  decide
end Pegnet.C06

#print axioms Pegnet.C06.execution_marks_entry
#print axioms Pegnet.C06.mark_is_permanent
#print axioms Pegnet.C06.repeated_arrival_is_noop
#print axioms Pegnet.C06.repeated_holding_no_balance_change
#print axioms Pegnet.C06.window_strictly_earlier
#print axioms Pegnet.C06.held_batches_are_considered
#print axioms Pegnet.C06.execution_is_logged
#print axioms Pegnet.C06.no_execution_no_effect
#print axioms Pegnet.C06.executed_at_most_once
#print axioms Pegnet.C06.executed_at_most_once_count
#print axioms Pegnet.C06.executed_is_marked
#print axioms Pegnet.C06.executed_at_most_once_process
#print axioms Pegnet.C06.held_at_most_once
#print axioms Pegnet.C06.shipped_schedule
