import Proofs.Balances
/-
  C05, block level: whose balance can a block decrease?
  The relation "no balance of an address outside `A` decreases" holds for `AddToBalance`
  unconditionally and for `SubFromBalance a …` whenever `a ∈ A`; the structural theorem
  `blockTx_stepA` then asks, call site by call site, that the debited address is in `A` — and
  the call sites are: the input address of a batch that passed `Validate` at this height
  (arriving or from holding), and the special addresses of the scheduled adjustments.
-/
namespace Pegnet

/-! ### point-wise effect of the two balance writes -/

theorem findRow_updRow (rows : List AddrRow) (a a' : Addr) (t : Ticker) (f : Int → Int) :
    findRow (updRow rows a t f) a' =
      (findRow rows a').map (fun r => if r.addr == a then { r with bals := setB r.bals t (f (getB r.bals t)) } else r) := by
  unfold findRow updRow
  rw [List.find?_map]
  have hcomp : ((fun x : AddrRow => x.addr == a') ∘
      (fun r : AddrRow => if r.addr == a then { r with bals := setB r.bals t (f (getB r.bals t)) } else r)) =
      (fun x : AddrRow => x.addr == a') := by
    funext r
    simp only [Function.comp]
    split <;> rfl
  rw [hcomp]

theorem findRow_addr {rows : List AddrRow} {a : Addr} {r : AddrRow} (h : findRow rows a = some r) : r.addr = a := by
  unfold findRow at h
  have := List.find?_some h
  simpa using this

theorem bal_updRow (db : DB) (a a' : Addr) (t t' : Ticker) (f : Int → Int) :
    ({ db with addrs := updRow db.addrs a t f } : DB).bal a' t' =
      if a' = a ∧ t' = t ∧ (findRow db.addrs a').isSome then f (db.bal a' t') else db.bal a' t' := by
  unfold DB.bal
  simp only [findRow_updRow]
  cases hf : findRow db.addrs a' with
  | none => simp
  | some r =>
    have hra := findRow_addr hf
    simp only [Option.map_some, Option.isSome_some, and_true]
    by_cases haa : a' = a
    · subst haa
      simp only [hra, beq_self_eq_true, if_true, true_and]
      rw [getB_setB]
      by_cases htt : t = t'
      · subst htt; simp
      · have : ¬ t' = t := fun h => htt h.symm
        simp [htt, this]
    · have : (r.addr == a) = false := by rw [hra]; simpa using haa
      simp [this, haa]

theorem findRow_append_singleton (rows : List AddrRow) (x : AddrRow) (a' : Addr) :
    findRow (rows ++ [x]) a' = (findRow rows a').or (if x.addr == a' then some x else none) := by
  unfold findRow
  rw [List.find?_append]
  simp only [List.find?_cons, List.find?_nil]
  cases List.find? (fun r => r.addr == a') rows with
  | some r => simp
  | none =>
    by_cases h : (x.addr == a') = true
    · simp [h]
    · have h' : (x.addr == a') = false := by simpa using h
      simp [h']

/-- `AddToBalance` never lowers anybody's balance -/
theorem bal_upsertAdd_ge (db : DB) (a a' : Addr) (t t' : Ticker) (v : Nat) :
    db.bal a' t' ≤ ({ db with addrs := upsertAdd db.addrs a t (v : Int) } : DB).bal a' t' := by
  unfold upsertAdd
  cases hf : findRow db.addrs a with
  | some r =>
    simp only
    rw [bal_updRow]
    split <;> omega
  | none =>
    simp only
    unfold DB.bal
    simp only [findRow_append_singleton]
    cases hf' : findRow db.addrs a' with
    | some r' => simp
    | none =>
      simp only [Option.none_or]
      by_cases haa : (a == a') = true
      · simp only [haa, if_true]
        rw [getB_setB]
        split
        · omega
        · rw [getB_nil]; omega
      · have : (a == a') = false := by simpa using haa
        simp [this]

/-- `SubFromBalance a …` leaves everybody else's balance alone -/
theorem bal_debit_other (db : DB) (a a' : Addr) (t t' : Ticker) (v : Nat) (hne : a' ≠ a) :
    ({ db with addrs := updRow db.addrs a t (· - (v : Int)) } : DB).bal a' t' = db.bal a' t' := by
  rw [bal_updRow]
  simp [hne]

/-! ### the relation -/

/-- no balance of an address outside `A` decreases -/
def noDebitOutside (A : Addr → Prop) : Rel DB where
  r s s' := ∀ a, ¬ A a → ∀ t, s.bal a t ≤ s'.bal a t
  refl _ _ _ _ := Int.le_refl _
  trans _ _ _ h1 h2 a ha t := Int.le_trans (h1 a ha t) (h2 a ha t)

theorem noDebit_keep (A : Addr → Prop) (s s' : DB) (e : s'.addrs = s.addrs) : (noDebitOutside A).r s s' := by
  intro a _ t
  unfold DB.bal
  rw [e]
  exact Int.le_refl _

theorem addBal_noDebit (P : Params) (A : Addr → Prop) (a : Addr) (t : Ticker) (v : Nat) :
    Step (noDebitOutside A) (addBal P a t v) :=
  Step.guarded (fun s a' _ t' => bal_upsertAdd_ge s a a' t t' v)

theorem subBal_noDebit (P : Params) (A : Addr → Prop) (a : Addr) (t : Ticker) (v : Nat) (ha : A a) :
    Step (noDebitOutside A) (subBal P a t v) := by
  have hdeb : Step (noDebitOutside A) (debit a t v) :=
    Step.guarded (fun s a' ha' t' => by
      have hne : a' ≠ a := fun h => ha' (h ▸ ha)
      rw [bal_debit_other s a a' t t' v hne]
      exact Int.le_refl _)
  exact subBal_step_of P a t v (addBal_noDebit P A a t 0) hdeb

theorem primsOK_noDebit (P : Params) (h : Nat) (A : Addr → Prop) : PrimsOK P h (noDebitOutside A) A where
  addBal := addBal_noDebit P A
  subBal a t v ha := subBal_noDebit P A a t v ha
  insertRate _ _ := guarded_keep (·.addrs) (noDebit_keep A) (fun _ => rfl)
  insertHistBatch _ := guarded_keep (·.addrs) (noDebit_keep A) (fun _ => rfl)
  insertHistTx _ _ := guarded_keep (·.addrs) (noDebit_keep A) (fun _ => rfl)
  insertLookup _ := guarded_keep (·.addrs) (noDebit_keep A) (fun s => by split <;> rfl)
  setExecuted _ _ := guarded_keep (·.addrs) (noDebit_keep A) (fun _ => rfl)
  setConvertedAmount _ _ _ := guarded_keep (·.addrs) (noDebit_keep A) (fun _ => rfl)
  setPegConverted _ _ _ _ := guarded_keep (·.addrs) (noDebit_keep A) (fun _ => rfl)
  insertRelation _ _ _ _ _ := guarded_keep (·.addrs) (noDebit_keep A) (fun s => by split <;> rfl)
  insertHolding _ _ _ := guarded_keep (·.addrs) (noDebit_keep A) (fun _ => rfl)
  insertBank _ := guarded_keep (·.addrs) (noDebit_keep A) (fun _ => rfl)
  updateBank _ _ _ := guarded_keep (·.addrs) (noDebit_keep A) (fun _ => rfl)
  insertGrade _ _ _ _ _ := guarded_keep (·.addrs) (noDebit_keep A) (fun _ => rfl)
  insertWinner _ _ _ _ _ := guarded_keep (·.addrs) (noDebit_keep A) (fun _ => rfl)
  markSynced _ := guarded_keep (·.addrs) (noDebit_keep A) (fun _ => rfl)
  rotate := guarded_keep (·.addrs) (noDebit_keep A) (fun _ => rfl)
  touch := guarded_keep (·.addrs) (noDebit_keep A) (fun _ => rfl)

/-! ### who a block may debit -/

/-- the addresses block `b`, applied on the committed database `c`, is entitled to debit -/
def Debitable (P : Params) (c : DB) (b : Block) (a : Addr) : Prop :=
  (∃ es, b.txs = some es ∧ ∃ e ∈ es, e.validAt P b.height = true ∧ ∃ t ∈ e.txs, t.inAddr = a) ∨
  (∃ row ∈ c.holding, row.entry.validAt P b.height = true ∧ ∃ t ∈ row.entry.txs, t.inAddr = a) ∨
  (b.height = P.act.v204Burn ∧ a = P.mintAddr) ∨
  ((b.height = P.act.devRewards ∨ b.height = P.act.v202) ∧
    a = (if b.height < P.act.v202 then P.oldBurnAddr else P.burnAddr))

theorem authOK_debitable (P : Params) (c : DB) (b : Block) :
    AuthOK P (noDebitOutside (Debitable P c b)) (Debitable P c b) c b where
  log _ := guarded_keep (·.addrs) (noDebit_keep _) (fun _ => rfl)
  comps := histComps_of_prims (primsOK_noDebit P b.height (Debitable P c b)) (fun _ => trivial) trivial
  txs es hes e he hv t ht := Or.inl ⟨es, hes, e, he, hv, t, ht, rfl⟩
  held row hrow hv t ht := Or.inr (Or.inl ⟨row, hrow, hv, t, ht, rfl⟩)
  mint hb := Or.inr (Or.inr (Or.inl ⟨hb, rfl⟩))
  burn hb := Or.inr (Or.inr (Or.inr ⟨hb, rfl⟩))

/-- **Only the key holder can cause a debit.** If applying a block lowers some balance of an
    address (whether the block then commits or fails), the address is the input address of a batch
    — on the transaction chain in this block, or waiting in holding — that passes `Validate` at
    this height (well-formed, single input address, signature of the input address' key valid
    under the key types accepted at this height), or it is one of the three special addresses at
    the height of its scheduled adjustment. -/
theorem blockTx_debits_only_debitable (P : Params) (c : DB) (b : Block) (avgs : TMap) (s : DB) (a : Addr) (t : Ticker)
    (hdec : (blockTx P c b avgs s).state.bal a t < s.bal a t) : Debitable P c b a := by
  have hstep := (blockTx_stepA (P := P) (R := noDebitOutside (Debitable P c b)) c b avgs
    (primsOK_noDebit P b.height (Debitable P c b)) (authOK_debitable P c b)).run s
  by_cases hA : Debitable P c b a
  · exact hA
  · have := hstep a hA t
    omega

/-- the same for the committed result of a loop iteration -/
theorem applyBlock_debits_only_debitable (P : Params) (n : Node) (b : Block) (a : Addr) (t : Ticker)
    (hdec : (applyBlock P n b).1.db.bal a t < n.db.bal a t) :
    Debitable P { n.db with avgTouched := false } b a := by
  rcases applyBlock_db P n b with h | ⟨s', avgs, hs, hdb, _⟩
  · rw [h] at hdec; omega
  · rw [hdb] at hdec
    apply blockTx_debits_only_debitable P _ b avgs { n.db with avgTouched := false } a t
    rw [hs]
    exact hdec

end Pegnet
