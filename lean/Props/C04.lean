import Proofs.Supply
import Proofs.Events
import Proofs.Moves
/-
  C04 — Supply conservation: value is created or destroyed only by protocol events.
-/
namespace Pegnet.C04
open Pegnet

/-- what the outputs of a transfer credit: everything except outputs to the burn address -/
def creditedSum (burn : Addr) (trs : List Transfer) : Int :=
  ((trs.filter (fun tr => !(tr.addr == burn))).map (fun tr => (tr.amount : Int))).sum

def burnedSum (burn : Addr) (trs : List Transfer) : Int :=
  ((trs.filter (fun tr => tr.addr == burn)).map (fun tr => (tr.amount : Int))).sum

theorem credit_transfers_supply (P : Params) (h : Nat) (hash : Hash) (idx : Nat) (ty : Ticker) (trs : List Transfer)
    (s s' : DB) (hok : AddrsOK s)
    (hr : M.forEach trs (fun tr =>
        if tr.addr == burnAddrAt P h then (pure () : LM Unit) else do
          addBal P tr.addr ty tr.amount
          insertRelation hash tr.addr idx true false) s = .ok () s') :
    (∀ t', s'.supply t' = s.supply t' + (if ty = t' then creditedSum (burnAddrAt P h) trs else 0)) ∧ AddrsOK s' := by
  induction trs generalizing s with
  | nil =>
    simp only [M.forEach, M.pure_run'] at hr
    injection hr with _ hs; subst hs
    exact ⟨fun t' => by simp [creditedSum], hok⟩
  | cons tr rest ih =>
    simp only [M.forEach] at hr
    obtain ⟨_, s1, h1, h2⟩ := M.bind_ok (m := if tr.addr == burnAddrAt P h then (pure () : LM Unit) else do
          addBal P tr.addr ty tr.amount
          insertRelation hash tr.addr idx true false) hr
    by_cases hb : (tr.addr == burnAddrAt P h) = true
    · rw [if_pos hb] at h1
      simp only [M.pure_run] at h1
      injection h1 with _ hs; subst hs
      obtain ⟨hsup, hok'⟩ := ih s hok h2
      refine ⟨fun t' => ?_, hok'⟩
      rw [hsup t']
      simp [creditedSum, hb]
    · rw [if_neg hb] at h1
      obtain ⟨_, s0, ha, hi⟩ := M.bind_ok h1
      obtain ⟨hsa, hoka⟩ := addBal_supply P tr.addr ty tr.amount s s0 hok ha
      have hkeep : s1.addrs = s0.addrs := by
        unfold insertRelation M.guarded at hi
        simp only at hi
        injection hi with _ hs; subst hs
        split <;> rfl
      have hok1 : AddrsOK s1 := by unfold AddrsOK at *; rw [hkeep]; exact hoka
      obtain ⟨hsup, hok'⟩ := ih s1 hok1 h2
      refine ⟨fun t' => ?_, hok'⟩
      rw [hsup t']
      have : s1.supply t' = s0.supply t' := by unfold DB.supply; rw [hkeep]
      rw [this, hsa t']
      have hb' : (tr.addr == burnAddrAt P h) = false := by simpa using hb
      simp only [creditedSum, List.filter_cons, hb', Bool.not_false, if_true, List.map_cons, List.sum_cons]
      split <;> omega

/-- A transfer moves value without creating or destroying any: executing one transfer
    transaction changes the supply of its asset by minus the input plus what is credited, i.e. by
    exactly minus what was sent to the burn address; no other asset's supply changes. -/
theorem transfer_conserves (P : Params) (h : Nat) (hash : Hash) (rates avgs : Option TMap) (idx : Nat) (t : Tx)
    (s s' : DB) (hok : AddrsOK s) (htr : t.transfers ≠ [])
    (hsum : ((t.transfers.map (fun tr => (tr.amount : Int))).sum) = (t.inAmount : Int))
    (hr : recordTx P h hash rates avgs idx t s = .ok () s') :
    (∀ t', s'.supply t' = s.supply t' - (if t.inType = t' then burnedSum (burnAddrAt P h) t.transfers else 0)) ∧ AddrsOK s' := by
  unfold recordTx at hr
  obtain ⟨okb, s1, hsub, hr⟩ := M.bind_ok hr
  by_cases hokb : (!okb) = true
  · rw [if_pos hokb] at hr; cases hr
  · rw [if_neg hokb] at hr
    have hb : okb = true := by simpa using hokb
    subst hb
    obtain ⟨hs1, hok1⟩ := subBal_supply P t.inAddr t.inType t.inAmount s s1 true hok hsub
    obtain ⟨_, s2, hrel, hr⟩ := M.bind_ok hr
    have hk2 : s2.addrs = s1.addrs := by
      unfold insertRelation M.guarded at hrel
      simp only at hrel
      injection hrel with _ hs; subst hs
      split <;> rfl
    obtain ⟨_, s3, hex, hr⟩ := M.bind_ok hr
    have hk3 : s3.addrs = s2.addrs := by
      unfold setExecuted M.guarded at hex
      simp only at hex
      injection hex with _ hs; subst hs; rfl
    have hok3 : AddrsOK s3 := by unfold AddrsOK at *; rw [hk3, hk2]; exact hok1
    -- outputs of a transfer
    unfold recordOutputs at hr
    have hnp : ¬ (h ≥ P.act.convLimit ∧ t.isPEGRequest = true) := by
      intro ⟨_, hp⟩
      unfold Tx.isPEGRequest at hp
      cases htl : t.transfers with
      | nil => exact htr htl
      | cons _ _ => rw [htl] at hp; simp at hp
    have hnc : ¬ (t.isConversion P = true) := by
      intro hc
      unfold Tx.isConversion at hc
      cases htl : t.transfers with
      | nil => exact htr htl
      | cons _ _ => rw [htl] at hc; simp at hc
    simp only [hnp, hnc, if_false] at hr
    obtain ⟨hs', hok'⟩ := credit_transfers_supply P h hash idx t.inType t.transfers s3 s' hok3 hr
    refine ⟨fun t' => ?_, hok'⟩
    rw [hs' t']
    have e3 : s3.supply t' = s1.supply t' := by unfold DB.supply; rw [hk3, hk2]
    rw [e3, hs1 t']
    have hsplit : creditedSum (burnAddrAt P h) t.transfers + burnedSum (burnAddrAt P h) t.transfers = (t.inAmount : Int) := by
      rw [← hsum]
      unfold creditedSum burnedSum
      generalize t.transfers = l
      induction l with
      | nil => simp
      | cons x xs ih =>
        by_cases hx : (x.addr == burnAddrAt P h) = true
        · simp only [List.filter_cons, hx, Bool.not_true, Bool.false_eq_true, if_false, if_true, List.map_cons, List.sum_cons] at ih ⊢
          omega
        · have hx' : (x.addr == burnAddrAt P h) = false := by simpa using hx
          simp only [List.filter_cons, hx', Bool.not_false, Bool.false_eq_true, if_false, if_true, List.map_cons, List.sum_cons] at ih ⊢
          omega
    by_cases htt : t.inType = t'
    · simp only [htt, if_true, and_self]; omega
    · simp only [htt, if_false, and_false]; omega

/-- with no output to the burn address a transfer leaves every asset's supply unchanged -/
theorem plain_transfer_supply_unchanged (P : Params) (h : Nat) (hash : Hash) (rates avgs : Option TMap) (idx : Nat) (t : Tx)
    (s s' : DB) (hok : AddrsOK s) (htr : t.transfers ≠ [])
    (hsum : ((t.transfers.map (fun tr => (tr.amount : Int))).sum) = (t.inAmount : Int))
    (hnb : ∀ tr ∈ t.transfers, (tr.addr == burnAddrAt P h) = false)
    (hr : recordTx P h hash rates avgs idx t s = .ok () s') : ∀ t', s'.supply t' = s.supply t' := by
  intro t'
  rw [(transfer_conserves P h hash rates avgs idx t s s' hok htr hsum hr).1 t']
  have : burnedSum (burnAddrAt P h) t.transfers = 0 := by
    unfold burnedSum
    have : t.transfers.filter (fun tr => tr.addr == burnAddrAt P h) = [] := by
      apply List.filter_eq_nil_iff.2
      intro tr htr'
      simp [hnb tr htr']
    rw [this]; rfl
  rw [this]; split <;> omega

/-- a rejected or dropped batch changes no supply (it changes nothing at all) -/
theorem rejected_batch_supply_unchanged {P : Params} {h : Nat} {e : TxEntry} {rates avgs : Option TMap} {s s' : DB} {v : Verdict}
    (hr : applyBatch P h e rates avgs s = .ok v s') (hv : v ≠ .apply) (t : Ticker) : s'.supply t = s.supply t := by
  rw [applyBatch_noop hr hv]

/-- **A transfer, for every address and asset.** After an executed transfer the balance of EVERY
    address `a` in EVERY asset `x` is its balance before, minus the input amount when `a` is the
    sender and `x` the transferred asset, plus the outputs naming `a` in that asset (outputs to the
    burn address are not credited). Every unit debited from the sender is credited to the named
    recipients, and nobody else's balance changes. (`Outcome`: the only other way the step can end is
    an SQL-level failure of the block, never a partial application.) -/
theorem transfer_moves_value_exactly (P : Params) (h : Nat) (hash : Hash) (rates avgs : Option TMap) (idx : Nat) (t : Tx)
    (htr : t.transfers ≠ []) (s : DB) (hf : (t.inAmount : Int) ≤ s.bal t.inAddr t.inType) :
    Outcome (recordTx P h hash rates avgs idx t s)
      (fun _ s' => ∀ a x, s'.bal a x = s.bal a x
        - (if a = t.inAddr ∧ x = t.inType then (t.inAmount : Int) else 0)
        + (if x = t.inType then creditedTo P h a t.transfers else 0)) :=
  transfer_exact P h hash rates avgs idx t htr s hf

/-- nobody else: an address that is neither the sender nor named in an output keeps every balance -/
theorem transfer_leaves_bystanders_alone (P : Params) (h : Nat) (a : Addr) (t : Tx)
    (hns : a ≠ t.inAddr) (hno : ∀ tr ∈ t.transfers, tr.addr ≠ a) (x : Ticker) :
    (- (if a = t.inAddr ∧ x = t.inType then (t.inAmount : Int) else 0)
      + (if x = t.inType then creditedTo P h a t.transfers else 0)) = 0 := by
  have hb : backTo a t.transfers = 0 := by
    unfold backTo
    have : t.transfers.filter (·.addr == a) = [] := by
      apply List.filter_eq_nil_iff.2
      intro tr htr
      simpa using hno tr htr
    rw [this]; rfl
  unfold creditedTo
  simp [hns, hb]

/-- **Mining and staking-record rewards create exactly the rewards decided**: for every address
    and asset, applying the graded OPR (SPR) block changes only the PEG balance of the payout
    addresses of the winning records, by exactly their payouts. -/
theorem opr_rewards_create_exactly (P : Params) (oh ts : Int) (ws : List OprW) (s : DB) :
    Outcome (applyGradedOPR P oh ts ws s)
      (fun _ s' => ∀ a x, s'.bal a x = s.bal a x + (if x = tPEG then oprCredit a ws else 0)) :=
  oprRewards_exact P oh ts ws s

theorem spr_rewards_create_exactly (P : Params) (oh ts : Int) (ws : List SprW) (s : DB) :
    Outcome (applyGradedSPR P oh ts ws s)
      (fun _ s' => ∀ a x, s'.bal a x = s.bal a x + (if x = tPEG then sprCredit a ws else 0)) :=
  sprRewards_exact P oh ts ws s

/-! ### every kind of executed transaction, every event that creates value -/

/-- **An executed batch, for every address and asset.** If `recordBatch` records a batch (that is,
    the batch executes), then the balance of EVERY address in EVERY asset changes by exactly the sum,
    over the batch's transactions, of: minus the input (for the input address and asset), plus the
    transfer outputs naming the address (burn-address outputs excepted), plus the converted amount
    `⌊in·src/dst⌋` for an ordinary conversion (a bank-era PEG request is paid by the bank pass).
    Nothing else moves: no third address, no other asset, no rounding gain. -/
theorem executed_batch_moves_exactly (P : Params) (h : Nat) (hash : Hash) (rates avgs : Option TMap) (txs : List Tx)
    (s s' : DB) (hok : AddrsOK s) (hr : recordBatch P h hash rates avgs txs s = .ok () s') :
    ∀ a x, s'.bal a x = s.bal a x + batchDelta P h rates avgs txs a x :=
  (recordBatch_exact P h hash rates avgs txs s s' hok hr).2

/-- an ordinary conversion, spelled out: the input address loses the input in the source asset and
    gains `out = ⌊in·src/dst⌋` in the destination asset; nobody else is touched -/
theorem conversion_moves_value_exactly (P : Params) (h : Nat) (rates avgs : Option TMap) (t : Tx) (a : Addr) (x : Ticker)
    (hcv : t.isConversion P = true) (hnp : ¬ (h ≥ P.act.convLimit ∧ t.isPEGRequest = true)) (out : Int)
    (hconv : convert P.act.pip10 h (toInt64 t.inAmount) ((rates.getD []).get t.inType) ((avgs.getD []).get t.inType)
        ((rates.getD []).get t.conversion) ((avgs.getD []).get t.conversion) = some out) :
    txDelta P h rates avgs t a x =
      (if a = t.inAddr ∧ x = t.conversion then out else 0) - (if a = t.inAddr ∧ x = t.inType then (t.inAmount : Int) else 0) := by
  unfold txDelta outDelta
  rw [if_neg hnp, if_pos hcv, hconv]

/-- **The bank pass creates exactly the yields it decides and refunds exactly the rest.** -/
theorem bank_pass_moves_exactly (P : Params) (h : Nat) (rates avgs : TMap) (batches : List TxEntry)
    (bank : Nat) (bh : Int) (s : DB) :
    Outcome (recordPegRequests P h rates avgs batches bank bh s)
      (fun _ s' => ∀ a x, s'.bal a x = s.bal a x +
        (((pegRequests P h rates avgs batches).zip
            (payouts bank ((pegRequests P h rates avgs batches).map fun r => (r.key, r.requested)))).map
          (fun rp => pegDelta P h rates rp.1 rp.2.2 a x)).sum) :=
  recordPegRequests_exact P h rates avgs batches bank bh s

/-- **FCT burns create exactly the burned amounts**, in pFCT, for the burning addresses -/
theorem burns_create_exactly (P : Params) (h : Nat) (burnRCD : Addr) (fcts : List FctTx) (s : DB) :
    Outcome (applyFactoidBlock P h burnRCD fcts s)
      (fun _ s' => ∀ a x, s'.bal a x = s.bal a x + (fcts.map (fun f => burnDelta burnRCD f a x)).sum) :=
  applyFactoidBlock_exact P h burnRCD fcts s

/-- **Developer rewards create exactly the tabled shares**, in PEG -/
theorem developer_rewards_create_exactly (P : Params) (h : Nat) (ts : Int) (s : DB) :
    Outcome (developersPayouts P h ts s)
      (fun _ s' => ∀ a x, s'.bal a x = s.bal a x +
        (P.devs.map (fun d => if a = d.1 ∧ x = tPEG then ((devReward P h d : Nat) : Int) else 0)).sum) :=
  developersPayouts_exact P h ts s

/-- **The mint creates exactly the tabled amounts**, for the mint address only -/
theorem mint_creates_exactly (P : Params) (s : DB) :
    Outcome (mintTokens P s)
      (fun _ s' => ∀ a x, s'.bal a x = s.bal a x +
        (P.mint.map (fun p => if a = P.mintAddr ∧ x = p.1 then ((p.2 * 100000000 : Nat) : Int) else 0)).sum) :=
  mintTokens_exact P s

/-- non-vacuity: a two-transaction batch (a transfer with change, then a conversion) evaluated by
    the kernel against `batchDelta` -/
def wP : Params :=
  { act := ⟨0,0,0,0,0,0,0,0,0,0,100,100,200,200,300,310,400⟩, tickerMax := 63, tickerNames := ["PEG", "pUSD", "pEUR"], oneWaySet := [],
    snapshotRate := 144, perBlockHolders := 0, perBlockDevs := 0, bankBase := 0, avgPeriod := 8, avgRequired := 4,
    syncVersion := 2, devs := [], «mint» := [], burnAddr := "b", oldBurnAddr := "o", mintAddr := "m", coinbaseAddr := "c", zeroAddr := "0" }
def wTxs : List Tx :=
  [{ inAddr := "alice", inType := 2, inAmount := 100, transfers := [⟨"bob", 70⟩, ⟨"alice", 30⟩], conversion := 0 },
   { inAddr := "alice", inType := 2, inAmount := 50, transfers := [], conversion := 3 }]
example :
    (batchDelta wP 5 (some [(2, 200), (3, 100)]) none wTxs "alice" 2, batchDelta wP 5 (some [(2, 200), (3, 100)]) none wTxs "alice" 3,
     batchDelta wP 5 (some [(2, 200), (3, 100)]) none wTxs "bob" 2) = (-120, 100, 70) := by
  decide

end Pegnet.C04

#print axioms Pegnet.C04.credit_transfers_supply
#print axioms Pegnet.C04.transfer_conserves
#print axioms Pegnet.C04.plain_transfer_supply_unchanged
#print axioms Pegnet.C04.rejected_batch_supply_unchanged
#print axioms Pegnet.C04.transfer_moves_value_exactly
#print axioms Pegnet.C04.transfer_leaves_bystanders_alone
#print axioms Pegnet.C04.opr_rewards_create_exactly
#print axioms Pegnet.C04.spr_rewards_create_exactly
#print axioms Pegnet.C04.executed_batch_moves_exactly
#print axioms Pegnet.C04.conversion_moves_value_exactly
#print axioms Pegnet.C04.bank_pass_moves_exactly
#print axioms Pegnet.C04.burns_create_exactly
#print axioms Pegnet.C04.developer_rewards_create_exactly
#print axioms Pegnet.C04.mint_creates_exactly
