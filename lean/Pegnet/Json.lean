import Pegnet.Batch
/-
  fat/fat2/transaction.go, transactionbatch.go, pticker.go: the JSON decoders, over a token tree.

  The harness tokenises the (syntactically valid, compacted) entry content and sends the tree
  with raw lexemes; `encoding/json`'s lexing, string unescaping and the base58 address decoding
  stay outside the model (they enter as the decoded key / decoded string value / decoded address
  carried by the nodes). What is modelled is what fat2 does with the tree: which keys fill which
  fields (case-insensitive match, last duplicate wins, unknown keys ignored), how each field value
  is decoded, and the expected-length accounting that is meant to reject duplicate and unknown keys.
-/
namespace Pegnet

/-- a JSON value with the raw lexemes of its scalars and keys -/
inductive J where
  | null
  | tru
  | fals
  | num (lex : String)
  /-- raw lexeme (with the quotes and escapes), decoded value, and — when the decoded value is a
      well-formed Factoid address — its 32 bytes in hex (`factom.FAAddress.UnmarshalJSON`) -/
  | str (lex : String) (val : String) (addr : Option Addr)
  | arr (items : List J)
  /-- fields in document order: key lexeme (with quotes), decoded key, value -/
  | obj (fields : List (String × String × J))

mutual
  /-- length in bytes of the compacted JSON text of the value (`len(json.RawMessage)`) -/
  def J.len : J → Nat
    | .null => 4
    | .tru => 4
    | .fals => 5
    | .num lex => lex.utf8ByteSize
    | .str lex _ _ => lex.utf8ByteSize
    | .arr items => 2 + J.lenItems items + (items.length - 1)
    | .obj fields => 2 + J.lenFields fields + (fields.length - 1)
  def J.lenItems : List J → Nat
    | [] => 0
    | x :: xs => J.len x + J.lenItems xs
  def J.lenFields : List (String × String × J) → Nat
    | [] => 0
    | f :: fs => (f.1.utf8ByteSize + 1 + J.len f.2.2) + J.lenFields fs
end

mutual
  /-- the compacted JSON text of the value -/
  def J.text : J → String
    | .null => "null"
    | .tru => "true"
    | .fals => "false"
    | .num lex => lex
    | .str lex _ _ => lex
    | .arr items => "[" ++ J.textItems items ++ "]"
    | .obj fields => "{" ++ J.textFields fields ++ "}"
  def J.textItems : List J → String
    | [] => ""
    | [x] => J.text x
    | x :: y :: xs => J.text x ++ "," ++ J.textItems (y :: xs)
  def J.textFields : List (String × String × J) → String
    | [] => ""
    | [f] => f.1 ++ ":" ++ J.text f.2.2
    | f :: g :: fs => f.1 ++ ":" ++ J.text f.2.2 ++ "," ++ J.textFields (g :: fs)
end

/-- `encoding/json`'s case folding of a key rune (ASCII case, plus the two non-ASCII runes that
    fold to ASCII letters: U+017F → s, U+212A → k) -/
def foldRune (c : Char) : Char :=
  if c = 'ſ' then 's' else if c = 'K' then 'k' else c.toLower

def foldKey (k : String) : String := String.ofList (k.toList.map foldRune)

/-- does this field fill the struct field tagged `name` (a lower-case ASCII name)? -/
def fieldIs (name : String) (f : String × String × J) : Bool := foldKey f.2.1 == name

/-- the value `json.Unmarshal` leaves in the struct field tagged `name`: the LAST field of the
    object whose key matches (case-insensitively) -/
def lookupField (fs : List (String × String × J)) (name : String) : Option J :=
  ((fs.filter (fieldIs name)).getLast?).map (·.2.2)

/-- `json.Unmarshal(raw, &x)` for an unsigned 64-bit `x`: `none` = error; `null` leaves 0 -/
def decUint (j : J) : Option Nat :=
  match j with
  | .null => some 0
  | .num lex =>
    if lex.toList.all Char.isDigit && !lex.isEmpty then
      match lex.toNat? with
      | some n => if n ≤ maxUint64 then some n else none
      | none => none
    else none
  | _ => none

/-- `json.Unmarshal(raw, &addr)` for a `factom.FAAddress` (a `TextUnmarshaler`): a string is
    handed to the address decoder, `null` leaves the zero address, anything else is an error -/
def decAddr (P : Params) (j : J) : Option Addr :=
  match j with
  | .str _ _ a => a
  | .null => some P.zeroAddr
  | _ => none

def trimQuotes (s : String) : String :=
  String.ofList ((s.toList.dropWhile (· == '"')).reverse.dropWhile (· == '"')).reverse

/-- `PTicker.UnmarshalJSON(data)` -/
def tickerOfBytes (P : Params) (data : String) : Option Ticker :=
  if data.isEmpty then none else
  let t := if data.toList.head? == some '"' then trimQuotes data else data
  if t.utf8ByteSize < 3 then none
  else
    let k := stringToTicker P t
    if k = 0 then none else some k

/-- a `PTicker` field without the `,string` option: the decoder gets the raw token -/
def decTickerRaw (P : Params) (j : J) : Option Ticker := tickerOfBytes P (J.text j)

/-- a `PTicker` field with the `,string` option: the value must be a JSON string, the decoder
    gets its decoded content -/
def decTickerQuoted (P : Params) (j : J) : Option Ticker :=
  match j with
  | .str _ val _ => tickerOfBytes P val
  | _ => none

/-- `AddressAmountTuple.UnmarshalJSON` -/
def decTuple (P : Params) (j : J) : Option Transfer :=
  match j with
  | .obj fs =>
    match lookupField fs "address", lookupField fs "amount" with
    | some aj, some nj =>
      match decAddr P aj, decUint nj with
      | some a, some n =>
        if 22 + J.len aj + J.len nj = J.len j then some { addr := a, amount := n } else none
      | _, _ => none
    | _, _ => none
  | _ => none

/-- `TypedAddressAmountTuple.UnmarshalJSON` (with the known-ticker check of the repaired code) -/
def decTyped (P : Params) (j : J) : Option (Addr × Nat × Ticker) :=
  match j with
  | .obj fs =>
    -- the struct decode itself fails when a present "type" does not decode
    match (match lookupField fs "type" with
           | none => some 0
           | some tj => decTickerQuoted P tj) with
    | none => none
    | some ty =>
      match lookupField fs "address", lookupField fs "amount" with
      | some aj, some nj =>
        match decAddr P aj, decUint nj with
        | some a, some n =>
          if ¬ validTicker P ty then none
          else if 32 + J.len aj + J.len nj + (tickerName P ty).utf8ByteSize = J.len j then some (a, n, ty) else none
        | _, _ => none
      | _, _ => none
  | _ => none

def decTuples (P : Params) : List J → Option (List Transfer)
  | [] => some []
  | x :: xs =>
    match decTuple P x, decTuples P xs with
    | some t, some ts => some (t :: ts)
    | _, _ => none

/-- the `transfers` field: absent, `null` (nil slice) or an array of tuples -/
def decTransfersField (P : Params) : Option J → Option (List Transfer)
  | none => some []
  | some .null => some []
  | some (.arr items) => decTuples P items
  | some _ => none

/-- the `conversion` field: absent (zero value) or a ticker token -/
def decConversionField (P : Params) : Option J → Option Ticker
  | none => some 0
  | some cj => decTickerRaw P cj

def optLen : Option J → Nat
  | none => 0
  | some j => J.len j

/-- the length `Transaction.UnmarshalJSON` expects the (compacted) object to have -/
def expectedTxLen (P : Params) (fs : List (String × String × J)) (ij : J) (t : Tx) : Nat :=
  (match lookupField fs "metadata" with
   | none => 0
   | some mj => 12 + J.len mj) +
  (if t.isConversion P then 24 + J.len ij + optLen (lookupField fs "conversion")
   else 23 + J.len ij + optLen (lookupField fs "transfers"))

/-- `Transaction.UnmarshalJSON` -/
def decTx (P : Params) (j : J) : Option Tx :=
  match j with
  | .obj fs =>
    match lookupField fs "input" with
    | none => none
    | some ij =>
      match decTyped P ij with
      | none => none
      | some (a, n, ty) =>
        match decTransfersField P (lookupField fs "transfers") with
        | none => none
        | some trs =>
          match decConversionField P (lookupField fs "conversion") with
          | none => none
          | some conv =>
            let t : Tx := { inAddr := a, inType := ty, inAmount := n, transfers := trs, conversion := conv }
            if expectedTxLen P fs ij t = J.len j then some t else none
  | _ => none

def decTxs (P : Params) : List J → Option (List Tx)
  | [] => some []
  | x :: xs =>
    match decTx P x, decTxs P xs with
    | some t, some ts => some (t :: ts)
    | _, _ => none

/-- `TransactionBatch.UnmarshalJSON`: version and transactions -/
def decBatch (P : Params) (j : J) : Option (Nat × List Tx) :=
  match j with
  | .obj fs =>
    match lookupField fs "version", lookupField fs "transactions" with
    | some vj, some tj =>
      match decUint vj with
      | none => none
      | some v =>
        match (match tj with
               | .null => some []
               | .arr items => decTxs P items
               | _ => none) with
        | none => none
        | some txs => if 28 + J.len vj + J.len tj = J.len j then some (v, txs) else none
    | _, _ => none
  | _ => none

end Pegnet
