import Proofs.BatchLemmas
import Pegnet.Generated.Facts
import Proofs.Auth
/-
  C05 — Spend authorization.
  Signature checking itself (fat103 / ed25519 / secp256k1) is outside the model: an entry arrives
  with the two verdict bits the real library gives under the flag sets R_RCD1 and R_RCD1|R_RCDe.
  The theorems are about what pegnetd does with them.
-/
namespace Pegnet.C05
open Pegnet

/-- An entry that fails validation at the block's height has no effect at all when it arrives. -/
theorem invalid_entry_inert (P : Params) (h : Nat) (keymr : String) (bo : Nat) (e : TxEntry) (s : DB)
    (hinv : e.validAt P h = false) : applyTxEntry P h keymr bo e s = .ok () s := by
  unfold applyTxEntry
  rw [M.bind_run]
  simp only [M.get_run, hinv, Bool.false_and, Bool.false_eq_true, if_false]
  rfl

/-- …and a held batch that no longer validates at the executing height is not executed: only its
    status becomes −2; balances and relation rows are untouched. -/
theorem held_revalidated (P : Params) (h : Nat) (rates avgs : TMap) (e : TxEntry) (s s' : DB) (j : Bool)
    (hinv : e.validAt P h = false) (hr : applyHeld P h rates avgs e s = .ok j s') :
    s'.addrs = s.addrs ∧ s'.rels = s.rels ∧ j = false := by
  unfold applyHeld at hr
  rw [M.bind_run] at hr
  simp only [M.get_run, hinv, Bool.not_false, Bool.or_true, if_true] at hr
  obtain ⟨_, s1, h1, h2⟩ := M.bind_ok hr
  simp only [M.pure_run] at h2
  injection h2 with hj hs
  subst hs
  unfold setExecuted M.guarded at h1
  simp only at h1
  injection h1 with _ hs1
  subst hs1
  exact ⟨rfl, rfl, hj.symm⟩

/-- The key type is selected by height: the secp256k1 (RCD-e) verdict is consulted only strictly
    above the activation height, both on arrival and on execution from holding. -/
theorem key_type_by_height (P : Params) (e : TxEntry) (h : Nat) :
    e.sigOK P h = (if h > P.act.rcde then e.validRCDe else e.validRCD1) := rfl

/-- an entry valid only under RCD-e is not valid at or below the activation height -/
theorem rcde_only_after_activation (P : Params) (e : TxEntry) (h : Nat)
    (h1 : e.validRCD1 = false) (hh : h ≤ P.act.rcde) : e.validAt P h = false := by
  unfold TxEntry.validAt
  cases e.parsed with
  | none => rfl
  | some p =>
    obtain ⟨v, txs⟩ := p
    simp only [TxEntry.sigOK]
    have : ¬ h > P.act.rcde := by omega
    simp [this, h1]

/-- a batch with inputs from two different addresses is never valid (single input address) -/
theorem single_input_address (P : Params) (v : Nat) (t1 t2 : Tx) (rest : List Tx)
    (hne : t2.inAddr ≠ t1.inAddr) : validData P v (t1 :: t2 :: rest) = false := by
  unfold validData
  have : (t2 :: rest).all (fun t => t.inAddr == t1.inAddr) = false := by
    simp [hne]
  simp [this]

/-- the int64 bound on inputs -/
theorem input_bound (P : Params) (e : TxEntry) (h : Nat) (v : Nat) (txs : List Tx) (t : Tx)
    (hp : e.parsed = some (v, txs)) (ht : t ∈ txs) (hbig : t.inAmount > maxInt64) : e.validAt P h = false := by
  unfold TxEntry.validAt
  rw [hp]
  simp only
  have : txs.all (fun t => decide (t.inAmount ≤ maxInt64)) = false := by
    rw [List.all_eq_false]
    exact ⟨t, ht, by simp; omega⟩
  simp [this]

/-- One entry (hash) executes at most once — see C06. What the model does NOT give, and the real
    code does not either, is "one SIGNATURE, one execution": replay protection is keyed on the
    entry hash, and the RCD-e check ignores the signature's 65th byte, so entries that differ only
    there are distinct hashes with equal validity. In the model two such entries are simply two
    valid entries; both execute. -/
theorem distinct_hashes_both_execute_witness :
    ∃ (e₁ e₂ : TxEntry), e₁.hash ≠ e₂.hash ∧ e₁.parsed = e₂.parsed ∧ e₁.validRCDe = e₂.validRCDe :=
  ⟨{ hash := "aa", ts := 0, parsed := none, validRCD1 := false, validRCDe := true },
   { hash := "ab", ts := 0, parsed := none, validRCD1 := false, validRCDe := true }, by decide, rfl, rfl⟩

/-! ### block and chain level: only the key holder can cause a debit -/

/-- **`debit_needs_signature`, one block.** Whatever a block contains (any entries on the three
    chains, any grader answers), if applying it lowers some balance of address `a` — whether the
    block then commits or is rolled back — then `a` is the input address of a batch, written on
    the transaction chain in this block or waiting in holding, that passes `Validate` at this
    height (canonical data, ONE input address, signature by that address' key valid under the key
    types accepted at this height), or `a` is the mint / burn address at the height of its
    scheduled adjustment (`Debitable`). Nobody else's balance can go down. -/
theorem debit_needs_signature (P : Params) (c : DB) (b : Block) (avgs : TMap) (s : DB) (a : Addr) (t : Ticker)
    (hdec : (blockTx P c b avgs s).state.bal a t < s.bal a t) : Debitable P c b a :=
  blockTx_debits_only_debitable P c b avgs s a t hdec

/-- **…every chain.** If replaying a chain of blocks lowers a balance of `a`, some block of the
    chain had `a` among its debitable addresses in the state it was applied to. -/
theorem chain_debit_needs_signature (P : Params) (chain : List Block) (n : Node) (a : Addr) (t : Ticker)
    (hdec : (runBlocks P n chain).db.bal a t < n.db.bal a t) :
    ∃ pre b post, chain = pre ++ b :: post ∧
      Debitable P { (runBlocks P n pre).db with avgTouched := false } b a := by
  induction chain generalizing n with
  | nil => exact absurd hdec (Int.lt_irrefl _)
  | cons b bs ih =>
    by_cases h1 : (applyBlock P n b).1.db.bal a t < n.db.bal a t
    · exact ⟨[], b, bs, rfl, applyBlock_debits_only_debitable P n b a t h1⟩
    · have h2 : (runBlocks P (applyBlock P n b).1 bs).db.bal a t < (applyBlock P n b).1.db.bal a t := by
        have : (runBlocks P n (b :: bs)) = runBlocks P (applyBlock P n b).1 bs := rfl
        rw [this] at hdec
        omega
      obtain ⟨pre, b', post, hch, hd⟩ := ih (applyBlock P n b).1 h2
      exact ⟨b :: pre, b', post, by rw [hch]; rfl, hd⟩

/-- a batch in `Debitable` is valid at the block's height, in particular its signature verdict
    under the key types of that height is positive and all its inputs name one address -/
theorem debitable_batch_is_signed (P : Params) (e : TxEntry) (h : Nat) (hv : e.validAt P h = true) :
    e.sigOK P h = true ∧ ∃ v txs, e.parsed = some (v, txs) ∧ validData P v txs = true := by
  unfold TxEntry.validAt at hv
  cases hp : e.parsed with
  | none => rw [hp] at hv; cases hv
  | some p =>
    obtain ⟨v, txs⟩ := p
    rw [hp] at hv
    simp only [Bool.and_eq_true] at hv
    exact ⟨hv.1.2, v, txs, rfl, hv.1.1⟩

/-- non-vacuity: a block with one validly signed transfer lowers the sender's balance, and the
    sender is debitable in it -/
def xP : Params :=
  { act := ⟨0,0,0,0,0,0,0,0,0,0,100,100,200,200,300,310,400⟩, tickerMax := 63, tickerNames := ["PEG", "pUSD", "pEUR"], oneWaySet := [],
    snapshotRate := 144, perBlockHolders := 0, perBlockDevs := 0, bankBase := 0, avgPeriod := 8, avgRequired := 4,
    syncVersion := 2, devs := [], «mint» := [], burnAddr := "b", oldBurnAddr := "o", mintAddr := "m", coinbaseAddr := "c", zeroAddr := "0" }
def xEntry : TxEntry :=
  { hash := "e1", ts := 0, validRCD1 := true, validRCDe := true,
    parsed := some (1, [{ inAddr := "alice", inType := 2, inAmount := 30, transfers := [{ addr := "bob", amount := 30 }], conversion := 0 }]) }
def xDB : DB := { addrs := [{ addr := "alice", bals := setB [] 2 100 }] }
def xBlock : Block := { height := 7, ts := 0, txs := some [xEntry] }
example : (blockTx xP xDB xBlock [] xDB).state.bal "alice" 2 = 70 ∧ xDB.bal "alice" 2 = 100 := by decide
example : Debitable xP xDB xBlock "alice" :=
  Or.inl ⟨[xEntry], rfl, xEntry, List.mem_singleton.2 rfl, by decide, _, List.mem_singleton.2 rfl, rfl⟩

end Pegnet.C05

namespace Pegnet.C05
open Pegnet
/-- the shipped schedule: "V4OPRUpdate indicates the activation of additional currencies and ecdsa
    keys" (config/activations.go) — the height from which `fat2` accepts RCD-e keys, regenerated from
    fat/fat2/activations.go, is the V4 OPR update regenerated from config/activations.go -/
theorem rcde_keys_activate_with_v4 :
    Generated.activations.rcde = Generated.activations.v4 ∧ Generated.activationsComplete = true := by
  decide
end Pegnet.C05

namespace Pegnet.C05
open Pegnet
/-- the shipped schedule, regenerated from config/activations.go and fat/fat2/activations.go on every
    run, against the values this property was read with: the height above which RCD-e keys sign. Every scenario of the harness
    runs on a compressed schedule that overwrites these constants, so nothing else would notice one of
    them moving; a moved height is a different protocol, not a rewrite. -/
theorem shipped_schedule :
    let a := Generated.activations
    Generated.activationsComplete = true ∧ a.rcde = 231620 := by
  decide
end Pegnet.C05

#print axioms Pegnet.C05.invalid_entry_inert
#print axioms Pegnet.C05.held_revalidated
#print axioms Pegnet.C05.key_type_by_height
#print axioms Pegnet.C05.rcde_only_after_activation
#print axioms Pegnet.C05.single_input_address
#print axioms Pegnet.C05.input_bound
#print axioms Pegnet.C05.distinct_hashes_both_execute_witness
#print axioms Pegnet.C05.debit_needs_signature
#print axioms Pegnet.C05.chain_debit_needs_signature
#print axioms Pegnet.C05.debitable_batch_is_signed
#print axioms Pegnet.C05.rcde_keys_activate_with_v4
#print axioms Pegnet.C05.shipped_schedule
