import Pegnet.Arith
/-
  `ConversionSupplySet.Payouts`: totals, proportionality, dust.
-/
namespace Pegnet

def W : Nat := 18446744073709551616

theorem maxUint64_lt_W : maxUint64 < W := by decide

/-- proportional share without the uint64 truncation -/
def share (c bank total : Nat) : Nat := c * bank / total

theorem share_le_bank {c bank total : Nat} (h : c ≤ total) : share c bank total ≤ bank := by
  unfold share
  by_cases ht : total = 0
  · subst ht; simp
  · have : c * bank ≤ total * bank := Nat.mul_le_mul_right bank h
    calc c * bank / total ≤ total * bank / total := Nat.div_le_div_right this
      _ = bank := by rw [Nat.mul_comm, Nat.mul_div_cancel _ (by omega)]

theorem payoutBig_eq_share {c bank total : Nat} (h : c ≤ total) (hb : bank < W) :
    payoutBig c bank total = share c bank total := by
  unfold payoutBig
  have hs := share_le_bank (bank := bank) h
  split
  · rename_i hz
    unfold share
    rcases hz with hz | hz | hz
    · subst hz; simp
    · subst hz; simp
    · subst hz; simp
  · unfold share at *
    exact Nat.mod_eq_of_lt (by unfold W at hb; omega)

theorem add_div_le (a c t : Nat) : a / t + c / t ≤ (a + c) / t := by
  by_cases ht : t = 0
  · subst ht; simp
  · rw [Nat.le_div_iff_mul_le (by omega)]
    have h1 := Nat.div_mul_le_self a t
    have h2 := Nat.div_mul_le_self c t
    rw [Nat.add_mul]; omega

theorem sum_share_le (l : List Nat) (bank total : Nat) :
    (l.map (fun c => share c bank total)).sum ≤ l.sum * bank / total := by
  induction l with
  | nil => simp
  | cons x xs ih =>
    simp only [List.map_cons, List.sum_cons]
    calc share x bank total + (xs.map (fun c => share c bank total)).sum
        ≤ x * bank / total + xs.sum * bank / total := by
          have h1 : share x bank total = x * bank / total := rfl
          omega
      _ ≤ (x * bank + xs.sum * bank) / total := add_div_le _ _ _
      _ = (x + xs.sum) * bank / total := by rw [Nat.add_mul]

theorem mem_le_sum {l : List Nat} {c : Nat} (h : c ∈ l) : c ≤ l.sum := by
  induction l with
  | nil => cases h
  | cons x xs ih =>
    simp only [List.sum_cons]
    cases h with
    | head => omega
    | tail _ h' => have := ih h'; omega

/-- the payouts before the dust, as the proportional shares -/
theorem pays_eq_shares (reqs : List (TxKey × Nat)) (bank : Nat) (hb : bank < W) :
    reqs.map (fun r => (r.1, payoutBig r.2 bank (sumReq reqs))) =
    reqs.map (fun r => (r.1, share r.2 bank (sumReq reqs))) := by
  apply List.map_congr_left
  intro r hr
  have : r.2 ≤ sumReq reqs := by
    unfold sumReq
    exact mem_le_sum (List.mem_map_of_mem (f := (·.2)) hr)
  rw [payoutBig_eq_share this hb]

theorem sumReq_map_snd (reqs : List (TxKey × Nat)) (g : Nat → Nat) :
    sumReq (reqs.map (fun r => (r.1, g r.2))) = ((reqs.map (·.2)).map g).sum := by
  induction reqs with
  | nil => rfl
  | cons x xs ih =>
    simp only [List.map_cons, sumReq, List.sum_cons] at ih ⊢
    rw [ih]

theorem sumReq_shares_le (reqs : List (TxKey × Nat)) (bank : Nat) :
    sumReq (reqs.map (fun r => (r.1, share r.2 bank (sumReq reqs)))) ≤ bank := by
  rw [sumReq_map_snd reqs (fun c => share c bank (sumReq reqs))]
  have h := sum_share_le (reqs.map (·.2)) bank (sumReq reqs)
  refine Nat.le_trans h ?_
  unfold sumReq
  by_cases ht : (reqs.map (·.2)).sum = 0
  · rw [ht]; simp
  · rw [Nat.mul_comm, Nat.mul_div_cancel _ (by omega)]
    exact Nat.le_refl _

/-! ### the dust receiver -/

theorem foldl_min_mem (ks : List TxKey) (k : TxKey) :
    ks.foldl (fun m x => if x.lt m then x else m) k ∈ k :: ks := by
  induction ks generalizing k with
  | nil => simp
  | cons x xs ih =>
    simp only [List.foldl_cons]
    by_cases hlt : x.lt k = true
    · rw [if_pos hlt]
      have := ih x
      exact List.mem_cons_of_mem _ this
    · rw [if_neg hlt]
      have := ih k
      rcases List.mem_cons.1 this with h | h
      · rw [h]; exact List.mem_cons_self
      · exact List.mem_cons_of_mem _ (List.mem_cons_of_mem _ h)

theorem minKey_mem {ks : List TxKey} {w : TxKey} (h : minKey ks = some w) : w ∈ ks := by
  cases ks with
  | nil => simp [minKey] at h
  | cons k ks =>
    simp only [minKey, Option.some.injEq] at h
    rw [← h]; exact foldl_min_mem ks k

theorem minKey_isSome {ks : List TxKey} (h : ks ≠ []) : ∃ w, minKey ks = some w := by
  cases ks with
  | nil => exact absurd rfl h
  | cons k ks => exact ⟨_, rfl⟩

theorem foldl_max_ge (l : List (TxKey × Nat)) (m : Nat) :
    m ≤ l.foldl (fun m r => max m r.2) m := by
  induction l generalizing m with
  | nil => simp
  | cons x xs ih =>
    simp only [List.foldl_cons]
    have := ih (max m x.2)
    omega

theorem foldl_max_attained (l : List (TxKey × Nat)) (m : Nat) :
    l.foldl (fun m r => max m r.2) m = m ∨ ∃ r ∈ l, r.2 = l.foldl (fun m r => max m r.2) m := by
  induction l generalizing m with
  | nil => simp
  | cons x xs ih =>
    simp only [List.foldl_cons]
    rcases ih (max m x.2) with h | ⟨r, hr, hv⟩
    · by_cases hm : m ≤ x.2
      · right; refine ⟨x, List.mem_cons_self, ?_⟩
        rw [h]; omega
      · left; rw [h]; omega
    · right; exact ⟨r, List.mem_cons_of_mem _ hr, hv⟩

theorem maxReq_attained {reqs : List (TxKey × Nat)} (h : reqs ≠ []) :
    ∃ r ∈ reqs, r.2 = maxReq reqs := by
  unfold maxReq
  rcases foldl_max_attained reqs 0 with h0 | h1
  · cases reqs with
    | nil => exact absurd rfl h
    | cons x xs =>
      refine ⟨x, List.mem_cons_self, ?_⟩
      have := foldl_max_ge xs (max 0 x.2)
      simp only [List.foldl_cons] at h0 ⊢
      omega
  · exact h1

/-! ### adding the dust to exactly one entry -/

theorem sumReq_cons (p : TxKey × Nat) (l : List (TxKey × Nat)) : sumReq (p :: l) = p.2 + sumReq l := by
  simp [sumReq]

theorem sumReq_bump_absent (l : List (TxKey × Nat)) (w : TxKey) (f : Nat → Nat)
    (h : w ∉ l.map (·.1)) :
    sumReq (l.map (fun p => if p.1 == w then (p.1, f p.2) else p)) = sumReq l := by
  induction l with
  | nil => rfl
  | cons x xs ih =>
    simp only [List.map_cons, List.mem_cons, not_or] at h
    simp only [List.map_cons, sumReq_cons]
    have hx : (x.1 == w) = false := by
      simp only [beq_eq_false_iff_ne, ne_eq]; exact fun e => h.1 e.symm
    rw [hx]
    simp only [Bool.false_eq_true, if_false]
    rw [ih h.2]

theorem sumReq_bump (l : List (TxKey × Nat)) (w : TxKey) (d : Nat)
    (hn : (l.map (·.1)).Nodup) (hw : w ∈ l.map (·.1)) :
    sumReq (l.map (fun p => if p.1 == w then (p.1, p.2 + d) else p)) = sumReq l + d := by
  induction l with
  | nil => cases hw
  | cons x xs ih =>
    simp only [List.map_cons, List.nodup_cons] at hn
    simp only [List.map_cons, sumReq_cons]
    by_cases hx : x.1 = w
    · have : (x.1 == w) = true := by simp [hx]
      rw [this]; simp only [if_true]
      have habs : w ∉ xs.map (·.1) := hx ▸ hn.1
      rw [sumReq_bump_absent xs w (fun v => v + d) habs]
      omega
    · have : (x.1 == w) = false := by simp [hx]
      rw [this]; simp only [Bool.false_eq_true, if_false]
      have hw' : w ∈ xs.map (·.1) := by
        simp only [List.map_cons, List.mem_cons] at hw
        rcases hw with h | h
        · exact absurd h.symm hx
        · exact h
      rw [ih hn.2 hw']
      omega


theorem mem_sumReq_le {l : List (TxKey × Nat)} {p : TxKey × Nat} (h : p ∈ l) : p.2 ≤ sumReq l := by
  unfold sumReq
  exact mem_le_sum (List.mem_map_of_mem (f := (·.2)) h)

theorem map_fst_pays (reqs : List (TxKey × Nat)) (g : TxKey × Nat → Nat) :
    (reqs.map (fun r => (r.1, g r))).map (·.1) = reqs.map (·.1) := by
  rw [List.map_map]; rfl

/-- Total paid out: everything requested when it fits under the bank, otherwise exactly the bank. -/
theorem payouts_sum (bank : Nat) (reqs : List (TxKey × Nat)) (hb : bank ≤ maxUint64)
    (hn : (reqs.map (·.1)).Nodup) (hne : reqs ≠ []) :
    sumReq (payouts bank reqs) = if sumReq reqs < bank then sumReq reqs else bank := by
  have hbW : bank < W := Nat.lt_of_le_of_lt hb maxUint64_lt_W
  unfold payouts
  have he : reqs.isEmpty = false := by
    cases reqs with
    | nil => exact absurd rfl hne
    | cons _ _ => rfl
  simp only [he, Bool.false_eq_true, if_false]
  by_cases hfit : sumReq reqs < bank
  · have : sumReq reqs ≤ maxUint64 ∧ sumReq reqs < bank := ⟨by omega, hfit⟩
    rw [if_pos this, if_pos hfit]
  · have : ¬ (sumReq reqs ≤ maxUint64 ∧ sumReq reqs < bank) := fun h => hfit h.2
    rw [if_neg this, if_neg hfit]
    rw [pays_eq_shares reqs bank hbW]
    have hS := sumReq_shares_le reqs bank
    generalize hp : reqs.map (fun r => (r.1, share r.2 bank (sumReq reqs))) = pays at hS
    have hkeys : pays.map (·.1) = reqs.map (·.1) := by
      rw [← hp]; exact map_fst_pays reqs (fun r => share r.2 bank (sumReq reqs))
    have hSW : sumReq pays % 18446744073709551616 = sumReq pays := Nat.mod_eq_of_lt (by unfold W at hbW; omega)
    rw [hSW]
    have hdust : (bank + 18446744073709551616 - sumReq pays) % 18446744073709551616 = bank - sumReq pays := by
      have : bank + 18446744073709551616 - sumReq pays = (bank - sumReq pays) + 18446744073709551616 := by omega
      rw [this, Nat.add_mod_right]
      exact Nat.mod_eq_of_lt (by unfold W at hbW; omega)
    rw [hdust]
    obtain ⟨r, hr, hmax⟩ := maxReq_attained hne
    have htop : (reqs.filter (fun r => r.2 == maxReq reqs)).map (·.1) ≠ [] := by
      intro hnil
      have : r.1 ∈ (reqs.filter (fun r => r.2 == maxReq reqs)).map (·.1) :=
        List.mem_map_of_mem (List.mem_filter.2 ⟨hr, by simp [hmax]⟩)
      rw [hnil] at this; cases this
    obtain ⟨w, hw⟩ := minKey_isSome htop
    rw [hw]
    simp only
    have hwmem : w ∈ pays.map (·.1) := by
      rw [hkeys]
      have := minKey_mem hw
      obtain ⟨q, hq, hqe⟩ := List.mem_map.1 this
      rw [← hqe]
      exact List.mem_map_of_mem (List.mem_filter.1 hq).1
    have hcongr : pays.map (fun p => if p.1 == w then (p.1, (p.2 + (bank - sumReq pays)) % 18446744073709551616) else p) =
        pays.map (fun p => if p.1 == w then (p.1, p.2 + (bank - sumReq pays)) else p) := by
      apply List.map_congr_left
      intro p hpm
      have := mem_sumReq_le hpm
      split
      · rw [Nat.mod_eq_of_lt (by unfold W at hbW; omega)]
      · rfl
    rw [hcongr, sumReq_bump pays w _ (hkeys ▸ hn) hwmem]
    omega

/-- below the bank every request is filled exactly -/
theorem payouts_fit (bank : Nat) (reqs : List (TxKey × Nat)) (hb : bank ≤ maxUint64)
    (hfit : sumReq reqs < bank) : payouts bank reqs = reqs := by
  unfold payouts
  cases reqs with
  | nil => rfl
  | cons x xs =>
    have : sumReq (x :: xs) ≤ maxUint64 ∧ sumReq (x :: xs) < bank := ⟨by omega, hfit⟩
    simp only [List.isEmpty_cons, Bool.false_eq_true, if_false, if_pos this]

/-- the result lists the same txids in the same order -/
theorem payouts_keys (bank : Nat) (reqs : List (TxKey × Nat)) :
    (payouts bank reqs).map (·.1) = reqs.map (·.1) := by
  unfold payouts
  cases reqs with
  | nil => rfl
  | cons x xs =>
    simp only [List.isEmpty_cons, Bool.false_eq_true, if_false]
    split
    · rfl
    · split
      · exact map_fst_pays _ _
      · rw [List.map_map]
        have : ∀ (w : TxKey) (d : Nat), ((fun (x : TxKey × Nat) => x.1) ∘ fun p => if p.1 == w then (p.1, (p.2 + d) % 18446744073709551616) else p) = (fun x => x.1) := by
          intro w d; funext p; simp only [Function.comp]; split <;> rfl
        rw [this]
        exact map_fst_pays _ _

end Pegnet
