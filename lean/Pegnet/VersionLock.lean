import Pegnet.Basic
/-
  node/pegnet/admin.go: CheckHardForks over the rows of pn_sync_version (height, version).
-/
namespace Pegnet

abbrev VRows := List (Nat × Int)

/-- `COALESCE(MIN(height), 0)` -/
def lowestSynced (rows : VRows) : Nat :=
  match rows with
  | [] => 0
  | r :: rs => rs.foldl (fun m x => min m x.1) r.1

/-- `COALESCE(MAX(height), 0)` -/
def highestSynced (rows : VRows) : Nat := rows.foldl (fun m x => max m x.1) 0

/-- `COALESCE(MIN(version), -1) WHERE height >= h` -/
def minVersionFrom (rows : VRows) (h : Nat) : Int :=
  match rows.filter (fun r => r.1 ≥ h) with
  | [] => -1
  | r :: rs => rs.foldl (fun m x => min m x.2) r.2

/-- `COALESCE(MAX(version), -1) WHERE height >= h` -/
def maxVersionFrom (rows : VRows) (h : Nat) : Int :=
  match rows.filter (fun r => r.1 ≥ h) with
  | [] => -1
  | r :: rs => rs.foldl (fun m x => max m x.2) r.2

/-- `markHeightSyncedVersion` whose error (PRIMARY KEY conflict) is discarded -/
def markIgnoringConflict (rows : VRows) (h : Nat) (v : Int) : VRows :=
  if rows.any (·.1 == h) then rows else rows ++ [(h, v)]

/-- the legacy back-fill: −1 at every fork height the database has reached -/
def backfill (forks : List (Nat × Int)) (synced : Option Nat) (rows : VRows) : VRows :=
  match synced with
  | none => rows
  | some s =>
    if s > lowestSynced rows then
      forks.foldl (fun r f => if s ≥ f.1 then markIgnoringConflict r f.1 (-1) else r) rows
    else rows

/-- `CheckHardForks`: the rows after the back-fill and whether start-up is refused.
    `forks` = (activation height, minimum version), `cur` = PegnetdSyncVersion,
    `synced` = pn_metadata['synced'] if present. -/
def checkHardForks (forks : List (Nat × Int)) (cur : Int) (synced : Option Nat) (rows : VRows) : VRows × Bool :=
  let rows' := backfill forks synced rows
  let top := highestSynced rows'
  let forkBad := forks.any (fun f => decide (f.1 ≤ top) && decide (minVersionFrom rows' f.1 < f.2))
  let downgrade := decide (cur < maxVersionFrom rows' 0)
  (rows', forkBad || downgrade)

end Pegnet
