import Proofs.Moves
/-
  C14: what a snapshot block credits, for every address and asset.
-/
namespace Pegnet

theorem Outcome.of_ok {α} {r : Res DB α} {p : α → DB → Prop} {a : α} {s' : DB} (h : Outcome r p) (hr : r = .ok a s') : p a s' := by
  subst hr; exact h

/-- the valuation of every joined row (none when some conversion fails: the block fails) -/
def stakesOf (P : Params) (h : Nat) (rates : TMap) : List (Addr × List Int × List Int) → Option (List (Addr × Nat))
  | [] => some []
  | j :: rest =>
    match stakeOf P h rates j.2.1 j.2.2, stakesOf P h rates rest with
    | some s, some l => some ((j.1, s) :: l)
    | _, _ => none

/-- the valuation loop is the pure valuation, and writes nothing -/
theorem stakeFold_ok (P : Params) (h : Nat) (rates : TMap) (joined : List (Addr × List Int × List Int)) :
    ∀ (acc : List (Addr × Nat)) (s s' : DB) (r : List (Addr × Nat)),
      M.foldM (fun (l : List (Addr × Nat)) j =>
        match stakeOf P h rates j.2.1 j.2.2 with
        | none => (M.throw (.uncaught "staking valuation: convert failed") : LM (List (Addr × Nat)))
        | some st => pure (l ++ [(j.1, st)])) acc joined s = .ok r s' →
      s' = s ∧ ∃ l, stakesOf P h rates joined = some l ∧ r = acc ++ l := by
  induction joined with
  | nil =>
    intro acc s s' r hr
    simp only [M.foldM, M.pure_run'] at hr
    injection hr with h1 h2
    exact ⟨h2.symm, [], rfl, by simp [h1]⟩
  | cons j rest ih =>
    intro acc s s' r hr
    simp only [M.foldM] at hr
    obtain ⟨b, s1, h1, h2⟩ := M.bind_ok hr
    cases hst : stakeOf P h rates j.2.1 j.2.2 with
    | none => rw [hst] at h1; cases h1
    | some st =>
      rw [hst] at h1
      simp only [M.pure_run] at h1
      injection h1 with hb hs
      subst hb; subst hs
      obtain ⟨hs', l, hl, hr'⟩ := ih _ _ _ _ h2
      refine ⟨hs', (j.1, st) :: l, ?_, ?_⟩
      · simp only [stakesOf, hst, hl]
      · rw [hr']; simp

/-- a loop of history inserts leaves the balances alone (success-only) -/
theorem stakeRows_keep (txid : String) (l : List ((Addr × Nat) × (TxKey × Nat))) :
    ∀ (s s' : DB), M.forEach l (fun lp => do
        insertHistTx { hash := txid, txIndex := lp.2.1.idx, action := 3, fromAddr := lp.1.1, fromAsset := "", fromAmount := 0,
                       toAsset := "PEG", toAmount := lp.2.2, outputs := "" }
        insertLookup { hash := txid, txIndex := lp.2.1.idx, addr := lp.1.1 }) s = .ok () s' →
      ∀ a x, s'.bal a x = s.bal a x := by
  induction l with
  | nil =>
    intro s s' hr a x
    simp only [M.forEach, M.pure_run'] at hr
    injection hr with _ hs; subst hs; rfl
  | cons lp rest ih =>
    intro s s' hr a x
    simp only [M.forEach] at hr
    obtain ⟨_, s1, h1, h2⟩ := M.bind_ok hr
    obtain ⟨_, s2, h3, h4⟩ := M.bind_ok h1
    have e1 := Outcome.of_ok (insertHistTx_outcome _ _) h3
    have e2 := Outcome.of_ok (insertLookup_outcome _ _) h4
    rw [ih s1 s' h2 a x, e2 a x, e1 a x]

/-- what the staking payout credits to `a`: the `Payouts` shares of the stakers whose address is `a` -/
def stakingCredit (a : Addr) (lp : List ((Addr × Nat) × (TxKey × Nat))) : Int :=
  (lp.map (fun p => if a = p.1.1 then ((p.2.2 : Nat) : Int) else 0)).sum

/-- **A snapshot payout, for every address and asset.** If the snapshot-and-payout step of a block
    succeeds then: the stakers are the addresses of the inner join of the (rotated) snapshots, each
    valued by `stakeOf` on min(current, previous) of its non-PEG balances; those with a positive
    stake, in the deterministic order, each receive in PEG their `Payouts` share of
    4,500 PEG × 144 — and no other balance of anybody changes. -/
theorem snapshotPayouts_exact (P : Params) (h : Nat) (ts : Int) (rates : TMap) (order : List Addr) (s s' : DB)
    (hr : snapshotPayouts P h ts rates order s = .ok () s') :
    ∃ staked, stakesOf P h rates (joinSnapshots s.addrs s.snapCur) = some staked ∧
      let list := orderStakes order (staked.filter (fun p => decide (p.2 > 0)))
      let pays := payouts (P.perBlockHolders * P.snapshotRate)
        (list.zipIdx.map fun p => (({ idx := p.2, hash := txidOfHeight h } : TxKey), p.1.2))
      ∀ a x, s'.bal a x = s.bal a x + (if x = tPEG then stakingCredit a (list.zip pays) else 0) := by
  unfold snapshotPayouts at hr
  obtain ⟨_, s1, h1, hr⟩ := M.bind_ok hr
  simp only [M.guarded] at h1
  injection h1 with _ hs1
  obtain ⟨db, s2, h2, hr⟩ := M.bind_ok hr
  simp only [M.get_run] at h2
  injection h2 with hdb hs2
  rw [← hdb, ← hs2] at hr
  clear hdb hs2 db s2
  obtain ⟨staked, s3, h3, hr⟩ := M.bind_ok hr
  obtain ⟨hs3, l, hl, hst⟩ := stakeFold_ok P h rates _ [] _ _ _ h3
  rw [hs3] at hr
  simp only [List.nil_append] at hst
  rw [hst] at hr
  clear hs3 hst h3 s3 staked
  have hj : joinSnapshots s1.snapCur s1.snapPast = joinSnapshots s.addrs s.snapCur := by rw [← hs1]
  rw [hj] at hl
  refine ⟨l, hl, ?_⟩
  have hbal1 : ∀ a x, s1.bal a x = s.bal a x := by intro a x; rw [← hs1]; rfl
  dsimp only at hr ⊢
  split at hr
  · obtain ⟨_, _, h4, _⟩ := M.bind_ok hr
    cases h4
  · split at hr
    · rename_i hne
      obtain ⟨_, s5, h5, hr⟩ := M.bind_ok hr
      obtain ⟨_, s6, h6, hr⟩ := M.bind_ok hr
      have e5 := Outcome.of_ok (insertHistBatch_outcome _ _) h5
      have e6 := stakeRows_keep _ _ _ _ h6
      have e7 := Outcome.of_ok (creditList_exact P (fun (lp : (Addr × Nat) × (TxKey × Nat)) => lp.1.1) (fun _ => tPEG) (fun lp => lp.2.2) _ _) hr
      intro a x
      rw [e7 a x, e6 a x, e5 a x, hbal1 a x]
      by_cases hx : x = tPEG
      · simp only [hx, and_true, if_true, stakingCredit]
      · simp only [hx, and_false, if_false]
        have : ∀ (l : List ((Addr × Nat) × (TxKey × Nat))), (l.map (fun _ => (0 : Int))).sum = 0 := by
          intro l; induction l with
          | nil => rfl
          | cons _ _ ih => simp [ih]
        rw [this]
    · rename_i hempty
      simp only [M.pure_run] at hr
      injection hr with _ hs; subst hs
      intro a x
      rw [hbal1 a x]
      have he : orderStakes order (l.filter (fun p => decide (p.2 > 0))) = [] := by
        simpa using hempty
      simp [he, stakingCredit]

end Pegnet
