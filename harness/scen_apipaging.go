package main

// apiPagingCheck (C17): the same questions as pagingCheck, asked through the real API server
// (srv package, real HTTP on the loopback interface) in a shuffled order that mixes by-txid,
// by-hash, by-address and by-height requests on both methods: what a request returns is a function
// of the ledger and of that request, whatever was asked before it.

import (
	"encoding/json"
	"fmt"
	"math/rand"
	"sort"
	"time"

	"github.com/pegnet/pegnetd/config"
	"github.com/pegnet/pegnetd/srv"
	"github.com/spf13/viper"
)

func apiPagingCheck(rep *Report, run *Run, g *Gen, s Setup, seed int64) {
	dump, _ := DumpDB(run.D.DBPath)
	L := ParseDump(dump)
	port := freePort()
	conf := viper.New()
	conf.Set(config.APIListen, fmt.Sprintf("127.0.0.1:%d", port))
	api := srv.NewAPIServer(conf, run.D.N)
	stop := make(chan struct{})
	// the server is left running until the process ends: closing `stop` runs srv.Shutdown(nil),
	// which dereferences its nil context whenever a keep-alive connection is still open (a
	// shutdown-time crash outside the properties, see scen_api.go)
	_ = api.Start(stop)
	url := fmt.Sprintf("http://127.0.0.1:%d/v1", port)
	up := false
	for i := 0; i < 100; i++ {
		if _, err := rpcCall(url, "properties", nil); err == nil {
			up = true
			break
		}
		time.Sleep(20 * time.Millisecond)
	}
	if !up {
		rep.Note("infrastructure: API server did not come up")
		return
	}
	type key struct {
		hash string
		idx  int
	}
	type question struct {
		what   string
		method string
		params map[string]interface{}
		want   map[key]bool
	}
	var qs []question
	hashes := make([]string, 0, len(L.T))
	for h := range L.T {
		hashes = append(hashes, h)
	}
	sort.Strings(hashes)
	r := rand.New(rand.NewSource(seed ^ 0x17a9))
	r.Shuffle(len(hashes), func(i, j int) { hashes[i], hashes[j] = hashes[j], hashes[i] })
	multi := 0
	for _, h := range hashes {
		ts := L.T[h]
		if len(ts) == 0 {
			continue
		}
		if len(ts) > 1 {
			multi++
		} else if len(qs) > 120 {
			continue
		}
		all := map[key]bool{}
		for _, t := range ts {
			all[key{h, int(t.idx)}] = true
		}
		qs = append(qs, question{"entryhash " + h, "get-transactions", map[string]interface{}{"entryhash": h}, all})
		t := ts[r.Intn(len(ts))]
		one := map[key]bool{{h, int(t.idx)}: true}
		m := "get-transactions"
		if r.Intn(2) == 0 {
			m = "get-transaction"
		}
		qs = append(qs, question{fmt.Sprintf("txid %d-%s", t.idx, h), m, map[string]interface{}{"txid": fmt.Sprintf("%d-%s", t.idx, h)}, one})
		if len(qs) > 400 {
			break
		}
	}
	for _, u := range g.Users {
		a := u.FA()
		ah := hx(a[:])
		want := map[key]bool{}
		for hash, ts := range L.T {
			for _, t := range ts {
				hit := t.from == ah
				for _, o := range t.outputs {
					if o[0] == ah {
						hit = true
					}
				}
				if hit {
					want[key{hash, int(t.idx)}] = true
				}
			}
		}
		if len(want) > 0 {
			qs = append(qs, question{"address " + a.String(), "get-transactions", map[string]interface{}{"address": a.String()}, want})
		}
	}
	for h := s.Acts.Pegnet + 1; h <= s.Acts.Pegnet+160; h += 11 {
		want := map[key]bool{}
		for hash, ts := range L.T {
			if L.batchHeight(hash) == int64(h) {
				for _, t := range ts {
					want[key{hash, int(t.idx)}] = true
				}
			}
		}
		if len(want) > 0 {
			qs = append(qs, question{fmt.Sprintf("height %d", h), "get-transactions", map[string]interface{}{"height": int(h)}, want})
		}
	}
	r.Shuffle(len(qs), func(i, j int) { qs[i], qs[j] = qs[j], qs[i] })
	rep.Count(fmt.Sprintf("api-paging:multi-action-batches=%d", bucket(multi)))
	for _, q := range qs {
		seen := map[key]bool{}
		total, n := -1, 0
		bad := ""
		_, byTxid := q.params["txid"]
		for off, pages := 0, 0; pages < 200; pages++ {
			params := map[string]interface{}{}
			for k, v := range q.params {
				params[k] = v
			}
			if off > 0 {
				params["offset"] = off
			}
			raw, err := rpcCall(url, q.method, params)
			if err != nil {
				bad = fmt.Sprintf("offset %d: error %s", off, string(raw))
				break
			}
			var res struct {
				Actions []struct {
					Hash    string `json:"hash"`
					TxIndex int    `json:"txindex"`
				} `json:"actions"`
				Count      int `json:"count"`
				NextOffset int `json:"nextoffset"`
			}
			if err := json.Unmarshal(raw, &res); err != nil {
				bad = "unreadable answer: " + err.Error()
				break
			}
			if total == -1 {
				total = res.Count
			}
			for _, a := range res.Actions {
				k := key{a.Hash, a.TxIndex}
				if seen[k] && bad == "" {
					bad = fmt.Sprintf("action %s/%d returned twice across pages", k.hash, k.idx)
				}
				seen[k] = true
				n++
			}
			// a by-txid request is a lookup of one action (the property's paging clause is about the
			// hash, address and height queries; the count of a txid answer is the batch's)
			if res.NextOffset == 0 || byTxid {
				break
			}
			off = res.NextOffset
		}
		rep.Count("api-paging:questions")
		rep.Case("api-paging:"+q.method+":"+firstWord(q.what), true)
		if bad == "" {
			for k := range q.want {
				if !seen[k] {
					bad = fmt.Sprintf("recorded action %s/%d is not returned", k.hash, k.idx)
					break
				}
			}
		}
		if bad == "" {
			for k := range seen {
				if !q.want[k] {
					bad = fmt.Sprintf("action %s/%d is returned but does not belong to the answer", k.hash, k.idx)
					break
				}
			}
		}
		if bad == "" && !byTxid && total >= 0 && n != total {
			bad = fmt.Sprintf("count says %d, pages returned %d", total, n)
		}
		if bad != "" {
			rep.Violate("paging:api:"+firstWord(q.what), fmt.Sprintf("%s %s: %s", q.method, q.what, bad), "")
			return
		}
	}
}

func firstWord(s string) string {
	for i, c := range s {
		if c == ' ' {
			return s[:i]
		}
	}
	return s
}
