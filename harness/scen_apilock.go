package main

// C18 ("… nor crash it"): every read method of the API asked while a writer holds the database
// exclusively (what a block's COMMIT or a page-cache spill does to readers under SQLite's rollback
// journal). A handler may answer an error; it must not take the process down — and a panic outside
// the handler's own goroutine is not caught by anybody. The phase runs in a child process so that a
// dead daemon is an observation, not the end of the check.

import (
	"context"
	"database/sql"
	"flag"
	"fmt"
	"os"
	"strings"
	"time"

	"github.com/pegnet/pegnetd/config"
	"github.com/pegnet/pegnetd/srv"
	"github.com/spf13/viper"
)

func apiLockMethods(userAddr string) []struct {
	name   string
	params interface{}
} {
	return []struct {
		name   string
		params interface{}
	}{
		{"get-sync-status", nil},
		{"get-pegnet-issuance", nil},
		{"get-pegnet-balances", map[string]interface{}{"address": userAddr}},
		{"get-pegnet-rates", map[string]interface{}{"height": 20}},
		{"get-transactions", map[string]interface{}{"address": userAddr}},
		{"get-transactions", map[string]interface{}{"height": 20}},
		{"get-transaction-status", map[string]interface{}{"entryhash": strings.Repeat("ab", 32)}},
		{"get-rich-list", map[string]interface{}{"asset": "pUSD", "count": 10}},
		{"get-global-rich-list", map[string]interface{}{"count": 10}},
		{"get-bank", map[string]interface{}{"height": 20}},
		{"get-miner-distribution", map[string]interface{}{"start": 1, "stop": 20}},
	}
}

func childAPILock(args []string) {
	fs := flag.NewFlagSet("child-api-lock", flag.ExitOnError)
	dir := fs.String("dir", "", "")
	user := fs.String("user", "", "")
	fs.Parse(args)
	s := Setup{Acts: restartActs(), AvgPeriod: 8, SyncVersion: mainnetSyncVersion}
	s.Apply()
	DaemonDSNExtra = "&_busy_timeout=40"
	d, err := OpenDaemon(*dir, NewFakeFactom())
	DaemonDSNExtra = ""
	if err != nil {
		say("child: open: %v", err)
		os.Exit(4)
	}
	port := freePort()
	conf := viper.New()
	conf.Set(config.APIListen, fmt.Sprintf("127.0.0.1:%d", port))
	api := srv.NewAPIServer(conf, d.N)
	stop := make(chan struct{})
	api.Start(stop)
	url := fmt.Sprintf("http://127.0.0.1:%d/v1", port)
	for i := 0; i < 100; i++ {
		if _, err := rpcCall(url, "properties", nil); err == nil {
			break
		}
		time.Sleep(20 * time.Millisecond)
	}
	locker, err := sql.Open("sqlite3", "file:"+d.DBPath)
	if err != nil {
		say("child: locker: %v", err)
		os.Exit(4)
	}
	conn, err := locker.Conn(context.Background())
	if err != nil {
		say("child: locker conn: %v", err)
		os.Exit(4)
	}
	if _, err := conn.ExecContext(context.Background(), "BEGIN EXCLUSIVE"); err != nil {
		say("child: BEGIN EXCLUSIVE: %v", err)
		os.Exit(4)
	}
	for _, m := range apiLockMethods(*user) {
		say("CALLING %s", m.name)
		raw, err := rpcCall(url, m.name, m.params)
		kind := "result"
		if err != nil {
			kind = "error " + fmt.Sprintf("%.80s", string(raw))
		}
		say("ANSWER %s %s", m.name, kind)
		time.Sleep(30 * time.Millisecond) // a helper goroutine of the handler may still be running
	}
	conn.ExecContext(context.Background(), "ROLLBACK")
	conn.Close()
	say("SURVIVED")
	os.Exit(0)
}

// apiUnderWriterLock runs the child on a copy of the database the API scenario has just synced.
func apiUnderWriterLock(rep *Report, dbPath, userAddr string) {
	dir := tempDir("verif-api-wlock-")
	defer os.RemoveAll(dir)
	if err := copyFile(dbPath, dir+"/sql.db.v4"); err != nil {
		rep.Note("infrastructure: %v", err)
		return
	}
	code, out := runChild("child-api-lock", "-dir", dir, "-user", userAddr)
	rep.Evaluations += len(apiLockMethods(userAddr))
	rep.Case("api-under-writer-lock", true)
	answered := strings.Count(out, "ANSWER ")
	rep.Distribution["wlock:methods-answered"] = answered
	rep.Distribution["wlock:error-answers"] = strings.Count(out, " error ")
	if code == 4 {
		rep.Note("infrastructure: writer-lock phase could not start: %.300s", out)
		return
	}
	if !strings.Contains(out, "SURVIVED") {
		last := "?"
		for _, l := range strings.Split(out, "\n") {
			if strings.HasPrefix(l, "CALLING ") {
				last = strings.TrimPrefix(l, "CALLING ")
			}
		}
		tail := out
		if i := strings.Index(out, "panic:"); i >= 0 {
			tail = out[i:]
		}
		if len(tail) > 600 {
			tail = tail[:600]
		}
		path := WriteReplay(rep.Property, "api-wlock", Replay{Property: rep.Property, Scenario: "api", Seed: 0,
			What:  fmt.Sprintf("the daemon process died (exit %d) while serving %s with a writer holding the database exclusively", code, last),
			Extra: map[string]interface{}{"method": last, "output": tail}})
		rep.Violate("api:crash-under-writer-lock:"+last, fmt.Sprintf("exit %d after CALLING %s: %s", code, last, strings.ReplaceAll(tail, "\n", " | ")), path)
	}
}
