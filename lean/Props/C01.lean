import Proofs.Payouts
import Proofs.OrderFree
import Proofs.Chain
import Pegnet.Generated.Facts
/-
  C01 — Deterministic replay. Lean functions are deterministic; every place where the Go code's
  result could depend on something other than the chain (map iteration order, an unstable sort,
  the wall clock) is an explicit parameter of the model or is shown not to matter.
-/
namespace Pegnet.C01
open Pegnet

/-- the model is a function: the same chain from the same state gives the same ledger -/
theorem replay_is_a_function (P : Params) (n : Node) (chain : List Block) :
    ∀ r₁ r₂, r₁ = runBlocks P n chain → r₂ = runBlocks P n chain → r₁.db = r₂.db := by
  intro r₁ r₂ h₁ h₂; rw [h₁, h₂]

/-- Regenerated: the places in the sync path that range over a Go map, sort, or read the clock
    are exactly the known ones. Each is handled below; a new one breaks this obligation. -/
theorem nondeterminism_sites :
    Generated.mapRanges =
      ["node/average.go:GetPegNetRateAverages:ratesOverPeriod", "node/average.go:GetPegNetRateAverages:rates",
       "node/average.go:GetPegNetRateAverages:ratesOverPeriod", "node/average.go:GetPegNetRateAverages:ratesOverPeriod",
       "node/conversions/conversionlimit.go:Payouts:s.ConversionRequests", "node/conversions/conversionlimit.go:Payouts:s.ConversionRequests",
       "node/conversions/conversionlimit.go:Payouts:s.ConversionRequests",
       "node/pegnet/txhistory.go:InsertStakingCoinbase:payouts",
       "node/sync.go:SnapshotPayouts:staked", "node/sync.go:SnapshotPayouts:set.Payouts()",
       "node/sync.go:recordPegnetRequests:pegPayouts"] ∧
    Generated.sorts = ["node/sync.go:SnapshotPayouts:sort.Slice"] ∧
    Generated.timeNow =
      ["node/pegnet/admin.go:markHeightSyncedVersion:time.Now", "node/sync.go:DBlockSync:time.Now", "node/sync.go:DBlockSync:time.Now",
       "node/sync.go:DBlockSync:time.Now", "node/sync.go:SnapshotPayouts:time.Now", "node/sync.go:DevelopersPayouts:time.Now"] := by
  decide

/-- `Payouts` ranges over its request map three times. The results do not depend on the order:
    the total and the maximum are order-free … -/
theorem sum_perm {l₁ l₂ : List (TxKey × Nat)} (h : l₁.Perm l₂) : sumReq l₁ = sumReq l₂ := by
  unfold sumReq
  induction h with
  | nil => rfl
  | cons x _ ih => simp only [List.map_cons, List.sum_cons, ih]
  | swap x y l => simp only [List.map_cons, List.sum_cons]; omega
  | trans _ _ ih1 ih2 => exact ih1.trans ih2

theorem foldl_max_perm {l₁ l₂ : List (TxKey × Nat)} (h : l₁.Perm l₂) (m : Nat) :
    l₁.foldl (fun m r => max m r.2) m = l₂.foldl (fun m r => max m r.2) m := by
  induction h generalizing m with
  | nil => rfl
  | cons x _ ih => simp only [List.foldl_cons]; exact ih _
  | swap x y l =>
    simp only [List.foldl_cons]
    congr 1
    omega
  | trans _ _ ih1 ih2 => exact (ih1 m).trans (ih2 m)

theorem maxReq_perm {l₁ l₂ : List (TxKey × Nat)} (h : l₁.Perm l₂) : maxReq l₁ = maxReq l₂ :=
  foldl_max_perm h 0

/-- … and each request's share depends only on its own amount, the bank and the total. -/
theorem share_order_free (bank : Nat) {l₁ l₂ : List (TxKey × Nat)} (h : l₁.Perm l₂) (r : TxKey × Nat) :
    payoutBig r.2 bank (sumReq l₁) = payoutBig r.2 bank (sumReq l₂) := by rw [sum_perm h]

/-- The staking payout is the exception: the list index becomes the txid, the list comes out of
    a map and is sorted by stake only with an unstable sort, so two stakers with EQUAL stake can
    swap txid and (when they are the top stakers) the dust. Witness: two different orders that
    the Go code can both produce give different payouts to the same address. -/
theorem staking_tie_is_order_dependent :
    let l := [("addrA", 5), ("addrB", 5)]
    let reqs := fun (ord : List (Addr × Nat)) => ord.zipIdx.map fun p => (({ idx := p.2, hash := "00" } : TxKey), p.1.2)
    stakesAscending (orderStakes ["addrA", "addrB"] l) = true ∧ stakesAscending (orderStakes ["addrB", "addrA"] l) = true ∧
    ((orderStakes ["addrA", "addrB"] l).zip (payouts 9 (reqs (orderStakes ["addrA", "addrB"] l)))).map (fun p => (p.1.1, p.2.2)) =
      [("addrA", 5), ("addrB", 4)] ∧
    ((orderStakes ["addrB", "addrA"] l).zip (payouts 9 (reqs (orderStakes ["addrB", "addrA"] l)))).map (fun p => (p.1.1, p.2.2)) =
      [("addrB", 5), ("addrA", 4)] := by
  decide

/-- `replay_deterministic_partial`: with an order oracle that is not a valid ascending
    permutation the model falls back to its canonical order; in particular, for one staker (no
    ties possible) the oracle is irrelevant. -/
theorem single_staker_order_irrelevant (ord : List Addr) (x : Addr × Nat) :
    orderStakes ord [x] = [x] := by
  unfold orderStakes
  simp only
  by_cases hc : (ord.length == [x].length && (ord.filterMap (fun a => [x].find? (·.1 == a))).length == [x].length &&
      ord.eraseDups.length == ord.length && stakesAscending (ord.filterMap (fun a => [x].find? (·.1 == a)))) = true
  · rw [if_pos hc]
    simp only [Bool.and_eq_true, beq_iff_eq, List.length_cons, List.length_nil] at hc
    obtain ⟨⟨⟨h1, h2⟩, _⟩, _⟩ := hc
    cases ord with
    | nil => simp at h1
    | cons a rest =>
      cases rest with
      | nil =>
        simp only [List.filterMap_cons, List.filterMap_nil, List.find?_cons, List.find?_nil] at h2 ⊢
        by_cases hxa : (x.1 == a) = true
        · simp [hxa]
        · have hf : (x.1 == a) = false := by simpa using hxa
          simp [hf] at h2
      | cons _ _ => simp at h1
  · rw [if_neg hc]; rfl

/-! ### the two hash-map sites, for every iteration order (Proofs/OrderFree.lean) -/

/-- **Holder staking payouts do not depend on map iteration order.** `SnapshotPayouts` collects
    the stakers by ranging over a Go map and sorts them by (stake, address) — fix 5b8087b; the
    sorted slice, whose indices become the payout txids, is the same for every order in which the
    map can be iterated (every permutation of the stakers). Before the fix this was false:
    `staking_tie_is_order_dependent`. -/
theorem staking_order_free {l₁ l₂ : List (Addr × Nat)} (h : l₁.Perm l₂) :
    orderStakes [] l₁ = orderStakes [] l₂ := by
  have e : ∀ l : List (Addr × Nat), orderStakes [] l = sortStakes l := by
    intro l
    unfold orderStakes
    cases l with
    | nil => rfl
    | cons x xs => simp
  rw [e, e]
  exact sortStakes_order_free h

/-- **`ConversionSupplySet.Payouts` does not depend on map iteration order**: the amount paid to
    every txid (including who receives the rounding dust: the highest request, ties to the
    smallest txid in `SortTxIDS` order) is the same for every order of the request map. -/
theorem payouts_order_free (bank : Nat) {l₁ l₂ : List (TxKey × Nat)} (h : l₁.Perm l₂) (k : TxKey) (v : Nat) :
    (k, v) ∈ payouts bank l₁ ↔ (k, v) ∈ payouts bank l₂ :=
  (Pegnet.payouts_order_free bank h).mem_iff

/-- the dust receiver itself: the least txid among the highest requests is order-free -/
theorem dust_receiver_order_free {l₁ l₂ : List TxKey} (h : l₁.Perm l₂) : minKey l₁ = minKey l₂ := minKey_perm h

/-- non-vacuity: two iteration orders of one request set with tied top requests, total above the
    bank — same payouts, the dust goes to the smaller txid in both -/
example :
    payouts 100 [(⟨0, "bb"⟩, 70), (⟨0, "aa"⟩, 70), (⟨1, "aa"⟩, 10)] = [(⟨0, "bb"⟩, 46), (⟨0, "aa"⟩, 48), (⟨1, "aa"⟩, 6)] ∧
    payouts 100 [(⟨1, "aa"⟩, 10), (⟨0, "aa"⟩, 70), (⟨0, "bb"⟩, 70)] = [(⟨1, "aa"⟩, 6), (⟨0, "aa"⟩, 48), (⟨0, "bb"⟩, 46)] := by
  decide

end Pegnet.C01

#print axioms Pegnet.C01.replay_is_a_function
#print axioms Pegnet.C01.nondeterminism_sites
#print axioms Pegnet.C01.sum_perm
#print axioms Pegnet.C01.maxReq_perm
#print axioms Pegnet.C01.share_order_free
#print axioms Pegnet.C01.staking_tie_is_order_dependent
#print axioms Pegnet.C01.single_staker_order_irrelevant
#print axioms Pegnet.C01.staking_order_free
#print axioms Pegnet.C01.payouts_order_free
#print axioms Pegnet.C01.dust_receiver_order_free
