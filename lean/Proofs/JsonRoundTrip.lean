import Pegnet.JsonEnc
import Proofs.JsonKeys
import Std.Data.String.ToNat
/-
  Round trip: what the encoders write, the decoders read back — `decBatch (encBatch v txs) = (v, txs)`
  for every batch the encoder accepts (C20: "re-encoding any accepted batch yields an entry that
  decodes to the same transactions").
-/
namespace Pegnet

theorem fieldIs_kf (name k : String) (v : J) : fieldIs name (kf k v) = (foldKey k == name) := rfl

@[simp] theorem fk_address_address : (foldKey "address" == "address") = true := by decide
@[simp] theorem fk_address_amount : (foldKey "address" == "amount") = false := by decide
@[simp] theorem fk_amount_address : (foldKey "amount" == "address") = false := by decide
@[simp] theorem fk_amount_amount : (foldKey "amount" == "amount") = true := by decide
@[simp] theorem fk_address_type : (foldKey "address" == "type") = false := by decide
@[simp] theorem fk_amount_type : (foldKey "amount" == "type") = false := by decide
@[simp] theorem fk_type_type : (foldKey "type" == "type") = true := by decide
@[simp] theorem fk_type_address : (foldKey "type" == "address") = false := by decide
@[simp] theorem fk_type_amount : (foldKey "type" == "amount") = false := by decide
@[simp] theorem fk_input_input : (foldKey "input" == "input") = true := by decide
@[simp] theorem fk_input_transfers : (foldKey "input" == "transfers") = false := by decide
@[simp] theorem fk_input_conversion : (foldKey "input" == "conversion") = false := by decide
@[simp] theorem fk_input_metadata : (foldKey "input" == "metadata") = false := by decide
@[simp] theorem fk_transfers_input : (foldKey "transfers" == "input") = false := by decide
@[simp] theorem fk_transfers_transfers : (foldKey "transfers" == "transfers") = true := by decide
@[simp] theorem fk_transfers_conversion : (foldKey "transfers" == "conversion") = false := by decide
@[simp] theorem fk_transfers_metadata : (foldKey "transfers" == "metadata") = false := by decide
@[simp] theorem fk_conversion_input : (foldKey "conversion" == "input") = false := by decide
@[simp] theorem fk_conversion_transfers : (foldKey "conversion" == "transfers") = false := by decide
@[simp] theorem fk_conversion_conversion : (foldKey "conversion" == "conversion") = true := by decide
@[simp] theorem fk_conversion_metadata : (foldKey "conversion" == "metadata") = false := by decide
@[simp] theorem fk_version_version : (foldKey "version" == "version") = true := by decide
@[simp] theorem fk_version_transactions : (foldKey "version" == "transactions") = false := by decide
@[simp] theorem fk_transactions_version : (foldKey "transactions" == "version") = false := by decide
@[simp] theorem fk_transactions_transactions : (foldKey "transactions" == "transactions") = true := by decide

@[simp] theorem ksize_address : ("\"" ++ "address" ++ "\"" : String).utf8ByteSize = 9 := by decide
@[simp] theorem ksize_amount : ("\"" ++ "amount" ++ "\"" : String).utf8ByteSize = 8 := by decide
@[simp] theorem ksize_type : ("\"" ++ "type" ++ "\"" : String).utf8ByteSize = 6 := by decide
@[simp] theorem ksize_input : ("\"" ++ "input" ++ "\"" : String).utf8ByteSize = 7 := by decide
@[simp] theorem ksize_transfers : ("\"" ++ "transfers" ++ "\"" : String).utf8ByteSize = 11 := by decide
@[simp] theorem ksize_conversion : ("\"" ++ "conversion" ++ "\"" : String).utf8ByteSize = 12 := by decide
@[simp] theorem ksize_version : ("\"" ++ "version" ++ "\"" : String).utf8ByteSize = 9 := by decide
@[simp] theorem ksize_transactions : ("\"" ++ "transactions" ++ "\"" : String).utf8ByteSize = 14 := by decide

theorem lookup2 (k1 k2 name : String) (v1 v2 : J) :
    lookupField [kf k1 v1, kf k2 v2] name =
      if (foldKey k2 == name) = true then some v2 else if (foldKey k1 == name) = true then some v1 else none := by
  unfold lookupField
  simp only [List.filter, fieldIs_kf]
  cases h1 : (foldKey k1 == name) <;> cases h2 : (foldKey k2 == name) <;> simp [kf]

theorem lookup3 (k1 k2 k3 name : String) (v1 v2 v3 : J) :
    lookupField [kf k1 v1, kf k2 v2, kf k3 v3] name =
      if (foldKey k3 == name) = true then some v3 else if (foldKey k2 == name) = true then some v2
      else if (foldKey k1 == name) = true then some v1 else none := by
  unfold lookupField
  simp only [List.filter, fieldIs_kf]
  cases h1 : (foldKey k1 == name) <;> cases h2 : (foldKey k2 == name) <;> cases h3 : (foldKey k3 == name) <;> simp [kf]

theorem lookup1 (k1 name : String) (v1 : J) :
    lookupField [kf k1 v1] name = if (foldKey k1 == name) = true then some v1 else none := by
  unfold lookupField
  simp only [List.filter, fieldIs_kf]
  cases h1 : (foldKey k1 == name) <;> simp [kf]


/-! ### numbers -/

theorem decUint_encNat (n : Nat) (h : n ≤ maxUint64) : decUint (encNat n) = some n := by
  unfold decUint encNat
  have hd : (Nat.repr n).toList.all Char.isDigit = true := by
    rw [Nat.toList_repr]
    apply List.all_eq_true.2
    intro c hc
    exact Nat.isDigit_of_mem_toDigits (by omega) (by omega) hc
  have hne : (Nat.repr n).isEmpty = false := String.isEmpty_eq_false_iff.2 Nat.repr_ne_empty
  simp only [hd, hne, Bool.not_false, Bool.and_self, if_true, Nat.toNat?_repr, h]

/-! ### tickers -/

/-- what the round trip needs of the ticker table: a name reads back as its ticker, is at least three
    bytes long, and neither starts nor ends with a double quote -/
structure TickersOK (P : Params) : Prop where
  back : ∀ t, validTicker P t = true → stringToTicker P (tickerName P t) = t
  size : ∀ t, validTicker P t = true → 3 ≤ (tickerName P t).utf8ByteSize
  head : ∀ t, validTicker P t = true → (tickerName P t).toList.head? ≠ some '"'
  last : ∀ t, validTicker P t = true → (tickerName P t).toList.getLast? ≠ some '"'

theorem name_ne_empty {P : Params} (ok : TickersOK P) {t : Ticker} (hv : validTicker P t = true) :
    tickerName P t ≠ "" := by
  intro e
  have := ok.size t hv
  rw [e] at this
  simp at this

theorem valid_pos {P : Params} {t : Ticker} (hv : validTicker P t = true) : t ≠ 0 := by
  unfold validTicker at hv
  simp only [Bool.and_eq_true, decide_eq_true_eq] at hv
  exact Nat.pos_iff_ne_zero.1 hv.1

/-- the decoder of a `,string` ticker field reads a table name back -/
theorem tickerOfBytes_name {P : Params} (ok : TickersOK P) {t : Ticker} (hv : validTicker P t = true) :
    tickerOfBytes P (tickerName P t) = some t := by
  unfold tickerOfBytes
  have hne : (tickerName P t).isEmpty = false := String.isEmpty_eq_false_iff.2 (name_ne_empty ok hv)
  have hh : ((tickerName P t).toList.head? == some '"') = false := by
    have := ok.head t hv
    simpa using this
  have hs := ok.size t hv
  simp only [hne, Bool.false_eq_true, if_false, hh]
  rw [if_neg (by omega), ok.back t hv, if_neg (valid_pos hv)]

theorem dropWhile_quote_cons {l : List Char} (h : l.head? ≠ some '"') :
    l.dropWhile (· == '"') = l := by
  cases l with
  | nil => rfl
  | cons c cs =>
    have : (c == '"') = false := by
      simp only [List.head?_cons, ne_eq, Option.some.injEq] at h
      simpa using h
    simp [List.dropWhile, this]

theorem trimQuotes_quoted (s : String) (hne : s ≠ "") (hh : s.toList.head? ≠ some '"') (hl : s.toList.getLast? ≠ some '"') :
    trimQuotes ("\"" ++ s ++ "\"") = s := by
  unfold trimQuotes
  have e : ("\"" ++ s ++ "\"" : String).toList = '"' :: (s.toList ++ ['"']) := by
    rw [String.toList_append, String.toList_append]
    rfl
  rw [e]
  have d1 : ('"' :: (s.toList ++ ['"'])).dropWhile (· == '"') = s.toList ++ ['"'] := by
    have hne' : s.toList ≠ [] := by
      intro h0
      apply hne
      rw [← String.ofList_toList (s := s), h0]
    have : (s.toList ++ ['"']).head? ≠ some '"' := by
      cases hs : s.toList with
      | nil => exact absurd hs hne'
      | cons c cs => rw [hs] at hh; simpa using hh
    simp only [List.dropWhile, beq_self_eq_true, if_true]
    exact dropWhile_quote_cons this
  rw [d1, List.reverse_append]
  have d2 : (['"'].reverse ++ s.toList.reverse).dropWhile (· == '"') = s.toList.reverse := by
    simp only [List.reverse_cons, List.reverse_nil, List.nil_append, List.singleton_append, List.dropWhile, beq_self_eq_true, if_true]
    apply dropWhile_quote_cons
    rw [List.head?_reverse]
    exact hl
  rw [d2, List.reverse_reverse, String.ofList_toList]

/-- the decoder of a bare ticker field reads the quoted name back -/
theorem tickerOfBytes_quoted {P : Params} (ok : TickersOK P) {t : Ticker} (hv : validTicker P t = true) :
    tickerOfBytes P ("\"" ++ tickerName P t ++ "\"") = some t := by
  unfold tickerOfBytes
  have hne : ("\"" ++ tickerName P t ++ "\"" : String).isEmpty = false := by
    apply String.isEmpty_eq_false_iff.2
    intro e
    have := congrArg String.utf8ByteSize e
    rw [String.utf8ByteSize_append, String.utf8ByteSize_append] at this
    simp at this
  have hh : (("\"" ++ tickerName P t ++ "\"" : String).toList.head? == some '"') = true := by
    rw [String.toList_append, String.toList_append]
    rfl
  simp only [hne, Bool.false_eq_true, if_false, hh, if_true]
  rw [trimQuotes_quoted _ (name_ne_empty ok hv) (ok.head t hv) (ok.last t hv)]
  have hs := ok.size t hv
  rw [if_neg (by omega), ok.back t hv, if_neg (valid_pos hv)]


/-! ### tuples -/

theorem len_obj2 (k1 k2 : String) (v1 v2 : J) :
    J.len (.obj [kf k1 v1, kf k2 v2]) =
      2 + ((("\"" ++ k1 ++ "\"" : String).utf8ByteSize + 1 + J.len v1) + ((("\"" ++ k2 ++ "\"" : String).utf8ByteSize + 1 + J.len v2) + 0)) + 1 := by
  simp [J.len, J.lenFields, kf]

theorem len_obj3 (k1 k2 k3 : String) (v1 v2 v3 : J) :
    J.len (.obj [kf k1 v1, kf k2 v2, kf k3 v3]) =
      2 + ((("\"" ++ k1 ++ "\"" : String).utf8ByteSize + 1 + J.len v1) + ((("\"" ++ k2 ++ "\"" : String).utf8ByteSize + 1 + J.len v2) +
        ((("\"" ++ k3 ++ "\"" : String).utf8ByteSize + 1 + J.len v3) + 0))) + 2 := by
  simp [J.len, J.lenFields, kf]

theorem len_obj1 (k1 : String) (v1 : J) :
    J.len (.obj [kf k1 v1]) = 2 + ((("\"" ++ k1 ++ "\"" : String).utf8ByteSize + 1 + J.len v1) + 0) + 0 := by
  simp [J.len, J.lenFields, kf]

theorem decTuple_encTuple (P : Params) (al : Addr → String × String) (tr : Transfer) (h : tr.amount ≤ maxUint64) :
    decTuple P (encTuple al tr) = some tr := by
  unfold decTuple encTuple
  simp only [lookup2, fk_address_address, fk_amount_address, fk_amount_amount, if_true, Bool.false_eq_true, if_false]
  simp only [encAddr, decAddr, decUint_encNat tr.amount h, len_obj2, ksize_address, ksize_amount]
  rw [if_pos (by omega)]


theorem decTuples_map (P : Params) (al : Addr → String × String) (trs : List Transfer)
    (h : ∀ tr ∈ trs, tr.amount ≤ maxUint64) : decTuples P (trs.map (encTuple al)) = some trs := by
  induction trs with
  | nil => rfl
  | cons tr rest ih =>
    simp only [List.map_cons, decTuples]
    rw [decTuple_encTuple P al tr (h tr List.mem_cons_self), ih (fun x hx => h x (List.mem_cons_of_mem _ hx))]

theorem len_quoted (s : String) : ("\"" ++ s ++ "\"" : String).utf8ByteSize = s.utf8ByteSize + 2 := by
  rw [String.utf8ByteSize_append, String.utf8ByteSize_append]
  have : ("\"" : String).utf8ByteSize = 1 := by decide
  omega

theorem decTyped_encTyped (P : Params) (ok : TickersOK P) (al : Addr → String × String) (a : Addr) (n : Nat) (ty : Ticker)
    (hn : n ≤ maxUint64) (j : J) (he : encTyped P al a n ty = some j) : decTyped P j = some (a, n, ty) := by
  unfold encTyped encTicker at he
  by_cases hv : validTicker P ty = true
  · simp only [hv, if_true] at he
    injection he with he
    subst he
    unfold decTyped
    simp only [lookup3, fk_type_type, fk_type_address, fk_type_amount, fk_address_address, fk_address_type, fk_address_amount,
      fk_amount_amount, fk_amount_type, fk_amount_address, if_true, Bool.false_eq_true, if_false]
    simp only [decTickerQuoted, tickerOfBytes_name ok hv, encAddr, decAddr, decUint_encNat n hn, hv, not_true_eq_false, if_false,
      len_obj3, ksize_address, ksize_amount, ksize_type]
    simp only [J.len, len_quoted]
    rw [if_pos (by omega)]
  · simp only [hv] at he
    cases he


/-! ### transactions -/

theorem decTx_encTx (P : Params) (ok : TickersOK P) (al : Addr → String × String) (t : Tx)
    (hn : t.inAmount ≤ maxUint64) (htr : ∀ tr ∈ t.transfers, tr.amount ≤ maxUint64)
    (hx : (t.transfers ≠ [] ∧ t.conversion = 0) ∨ (t.transfers = [] ∧ t.conversion ≠ 0))
    (j : J) (he : encTx P al t = some j) : decTx P j = some t := by
  unfold encTx at he
  cases hty : encTyped P al t.inAddr t.inAmount t.inType with
  | none => rw [hty] at he; cases he
  | some ij =>
    rw [hty] at he
    have hdt := decTyped_encTyped P ok al _ _ _ hn ij hty
    rcases hx with ⟨hne, hc0⟩ | ⟨he0, hcn⟩
    · -- transfers
      have hemp : t.transfers.isEmpty = false := by
        cases htl : t.transfers with
        | nil => exact absurd htl hne
        | cons _ _ => rfl
      simp only [hemp, Bool.false_eq_true, if_false, hc0, if_true, List.cons_append, List.nil_append] at he
      injection he with he
      subst he
      unfold decTx
      simp only [lookup2, fk_input_input, fk_transfers_input, fk_input_transfers, fk_transfers_transfers, fk_input_conversion,
        fk_transfers_conversion, fk_input_metadata, fk_transfers_metadata, if_true, Bool.false_eq_true, if_false, hdt,
        decTransfersField, decTuples_map P al t.transfers htr, decConversionField]
      have hic : Tx.isConversion P { inAddr := t.inAddr, inType := t.inType, inAmount := t.inAmount, transfers := t.transfers, conversion := 0 } = false := by
        simp [Tx.isConversion, hemp]
      simp only [expectedTxLen, lookup2, fk_input_metadata, fk_transfers_metadata, fk_input_transfers, fk_transfers_transfers,
        Bool.false_eq_true, if_false, if_true, hic, optLen, len_obj2, ksize_input, ksize_transfers]
      rw [if_pos (by omega)]
      cases t
      simp only at hc0
      subst hc0
      rfl
    · -- conversion
      have hemp : t.transfers.isEmpty = true := by rw [he0]; rfl
      simp only [hemp, if_true, hcn, if_false, List.append_nil] at he
      cases hcj : encTicker P t.conversion with
      | none => rw [hcj] at he; cases he
      | some cj =>
        rw [hcj] at he
        injection he with he
        subst he
        have hv : validTicker P t.conversion = true := by
          unfold encTicker at hcj
          by_cases hv : validTicker P t.conversion = true
          · exact hv
          · simp only [hv] at hcj; cases hcj
        have hcj' : cj = .str ("\"" ++ tickerName P t.conversion ++ "\"") (tickerName P t.conversion) none := by
          unfold encTicker at hcj
          simp only [hv, if_true] at hcj
          injection hcj with hcj
          exact hcj.symm
        subst hcj'
        unfold decTx
        simp only [List.cons_append, List.nil_append, lookup2, fk_input_input, fk_conversion_input, fk_input_transfers,
          fk_conversion_transfers, fk_input_conversion, fk_conversion_conversion, fk_input_metadata, fk_conversion_metadata,
          if_true, Bool.false_eq_true, if_false, hdt, decTransfersField, decConversionField, decTickerRaw, J.text,
          tickerOfBytes_quoted ok hv]
        have hic : Tx.isConversion P { inAddr := t.inAddr, inType := t.inType, inAmount := t.inAmount, transfers := [], conversion := t.conversion } = true := by
          unfold validTicker at hv
          simp only [Bool.and_eq_true, decide_eq_true_eq] at hv
          simp [Tx.isConversion, hv.1, hv.2]
        simp only [expectedTxLen, lookup2, fk_input_metadata, fk_conversion_metadata, fk_input_conversion, fk_conversion_conversion,
          Bool.false_eq_true, if_false, if_true, hic, optLen, len_obj2, ksize_input, ksize_conversion]
        rw [if_pos (by omega)]
        cases t
        simp only at he0
        subst he0
        rfl


theorem valid_xor (P : Params) (t : Tx) (hv : t.valid P = true) :
    (t.transfers ≠ [] ∧ t.conversion = 0) ∨ (t.transfers = [] ∧ t.conversion ≠ 0) := by
  unfold Tx.valid at hv
  split at hv
  · cases hv
  · split at hv
    · cases hv
    · split at hv
      · cases hv
      · rename_i _ _ h3
        split at hv
        · cases hv
        · rename_i h4
          cases htl : t.transfers with
          | nil =>
            right
            refine ⟨rfl, ?_⟩
            intro hc
            apply h3
            simp [htl, hc]
          | cons x xs =>
            left
            refine ⟨by simp, ?_⟩
            cases hc : t.conversion with
            | zero => rfl
            | succ k =>
              exfalso
              apply h4
              simp [htl, hc]

/-- amounts as Go holds them: every amount of the batch fits a uint64 -/
def Fits (txs : List Tx) : Prop := ∀ t ∈ txs, t.inAmount ≤ maxUint64 ∧ ∀ tr ∈ t.transfers, tr.amount ≤ maxUint64

theorem decTxs_encTxs (P : Params) (ok : TickersOK P) (al : Addr → String × String) :
    ∀ (txs : List Tx) (items : List J), Fits txs → (∀ t ∈ txs, t.valid P = true) →
      encTxs P al txs = some items → decTxs P items = some txs := by
  intro txs
  induction txs with
  | nil =>
    intro items _ _ he
    simp only [encTxs, Option.some.injEq] at he
    subst he
    rfl
  | cons t ts ih =>
    intro items hf hv he
    unfold encTxs at he
    cases h1 : encTx P al t with
    | none => rw [h1] at he; cases he
    | some x =>
      cases h2 : encTxs P al ts with
      | none => rw [h1, h2] at he; cases he
      | some xs =>
        rw [h1, h2] at he
        simp only [Option.some.injEq] at he
        subst he
        have hft := hf t List.mem_cons_self
        unfold decTxs
        rw [decTx_encTx P ok al t hft.1 hft.2 (valid_xor P t (hv t List.mem_cons_self)) x h1,
          ih xs (fun y hy => hf y (List.mem_cons_of_mem _ hy)) (fun y hy => hv y (List.mem_cons_of_mem _ hy)) h2]

/-- **Round trip.** Whatever batch the encoder accepts (`MarshalJSON` refuses what `ValidData`
    refuses and any ticker outside the table), the decoder reads back as the same version and the
    same transactions — every field of every transaction, in order. -/
theorem decBatch_encBatch (P : Params) (ok : TickersOK P) (al : Addr → String × String) (v : Nat) (txs : List Tx)
    (hf : Fits txs) (j : J) (he : encBatch P al v txs = some j) : decBatch P j = some (v, txs) := by
  unfold encBatch at he
  by_cases hvd : validData P v txs = true
  · rw [if_pos hvd] at he
    cases hitems : encTxs P al txs with
    | none => rw [hitems] at he; cases he
    | some items =>
      rw [hitems] at he
      injection he with he
      subst he
      have hv1 : v = 1 := by
        unfold validData at hvd
        simp only [Bool.and_eq_true, beq_iff_eq] at hvd
        exact hvd.1.1.1
      have hall : ∀ t ∈ txs, t.valid P = true := by
        unfold validData at hvd
        simp only [Bool.and_eq_true] at hvd
        exact fun t ht => List.all_eq_true.1 hvd.1.2 t ht
      unfold decBatch
      simp only [lookup2, fk_version_version, fk_transactions_version, fk_version_transactions, fk_transactions_transactions,
        if_true, Bool.false_eq_true, if_false]
      have hvle : v ≤ maxUint64 := by rw [hv1]; decide
      simp only [decUint_encNat v hvle, decTxs_encTxs P ok al txs items hf hall hitems, len_obj2, ksize_version, ksize_transactions]
      rw [if_pos (by omega)]
  · rw [if_neg hvd] at he
    cases he


/-! ### the ticker table -/

/-- the four facts of `TickersOK`, as one computable check of a name table -/
def namesOK (P : Params) : Bool :=
  (List.range P.tickerMax).all fun t =>
    !validTicker P t ||
      (stringToTicker P (tickerName P t) == t && decide (3 ≤ (tickerName P t).utf8ByteSize) &&
        (tickerName P t).toList.head? != some '"' && (tickerName P t).toList.getLast? != some '"')

theorem tickersOK_of_check (P : Params) (h : namesOK P = true) : TickersOK P := by
  have key : ∀ t, validTicker P t = true →
      (stringToTicker P (tickerName P t) == t && decide (3 ≤ (tickerName P t).utf8ByteSize) &&
        (tickerName P t).toList.head? != some '"' && (tickerName P t).toList.getLast? != some '"') = true := by
    intro t hv
    have hlt : t < P.tickerMax := by
      unfold validTicker at hv
      simp only [Bool.and_eq_true, decide_eq_true_eq] at hv
      exact hv.2
    have := List.all_eq_true.1 h t (List.mem_range.2 hlt)
    simpa [hv] using this
  constructor
  · intro t hv
    have := key t hv
    simp only [Bool.and_eq_true, beq_iff_eq] at this
    exact this.1.1.1
  · intro t hv
    have := key t hv
    simp only [Bool.and_eq_true, decide_eq_true_eq] at this
    exact this.1.1.2
  · intro t hv
    have := key t hv
    simp only [Bool.and_eq_true, bne_iff_ne, ne_eq] at this
    exact this.1.2
  · intro t hv
    have := key t hv
    simp only [Bool.and_eq_true, bne_iff_ne, ne_eq] at this
    exact this.2


theorem namesOK_congr (P Q : Params) (h1 : P.tickerNames = Q.tickerNames) (h2 : P.tickerMax = Q.tickerMax) :
    namesOK P = namesOK Q := by
  unfold namesOK validTicker tickerName stringToTicker validTicker
  rw [h1, h2]

end Pegnet
