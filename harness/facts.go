package main

import (
	"encoding/json"
	"io/ioutil"
	"path/filepath"
)

type SiteJ struct {
	File string `json:"file"`
	Func string `json:"func"`
	Line int    `json:"line"`
	What string `json:"what"`
}

type FactsJ struct {
	OneWaySet []string `json:"one_way_set"`
	Discarded []SiteJ  `json:"discarded_errors"`
	PoolReads []SiteJ  `json:"pool_reads_sync_path"`
	Missing   []string `json:"missing"`
}

var factsCache *FactsJ

func loadFacts() *FactsJ {
	if factsCache != nil {
		return factsCache
	}
	data, err := ioutil.ReadFile(filepath.Join(verifRoot(), "facts.json"))
	if err != nil {
		return nil
	}
	var f FactsJ
	if json.Unmarshal(data, &f) != nil {
		return nil
	}
	factsCache = &f
	return factsCache
}
