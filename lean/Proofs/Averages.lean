import Pegnet.Average
/-
  node/average.go: when is an average published?

  `CacheOK c`: every series of the cache is at most `AveragePeriod` long and the stored averages
  are `computeAverages` of the stored series. It holds for the empty cache and is preserved by
  `GetPegNetRateAverages`, so every answer the function ever gives — cached, incremental or
  reloaded — is `computeAverages` of series of bounded length, for which "published" means "at
  least `AverageRequired` non-zero quotes".
-/
namespace Pegnet

def nonZero (l : List Nat) : Nat := (l.filter (· != 0)).length

theorem zeros_add_nonZero (l : List Nat) : (l.filter (· == 0)).length + nonZero l = l.length := by
  unfold nonZero
  induction l with
  | nil => rfl
  | cons x xs ih =>
    by_cases hx : x = 0
    · subst hx; simp only [List.filter_cons]; simp; omega
    · have h1 : (x == 0) = false := by simpa using hx
      have h2 : (x != 0) = true := by simpa using hx
      simp only [List.filter_cons, h1, h2, if_true, List.length_cons]
      simp only [Bool.false_eq_true, if_false]
      omega

/-- for a series no longer than the period, "enough values" means "enough non-zero quotes" -/
theorem enough_iff_nonZero (period req : Nat) (l : List Nat) (hl : l.length ≤ period) :
    ¬ (period - numberMissing period l < req) ↔ req ≤ nonZero l := by
  unfold numberMissing
  have := zeros_add_nonZero l
  split <;> omega

structure CacheOK (P : Params) (c : AvgCache) : Prop where
  len : ∀ p ∈ c.data, p.2.length ≤ P.avgPeriod
  avgs : c.avgs = computeAverages P c.data

theorem cacheOK_empty (P : Params) : CacheOK P {} := ⟨fun _ h => absurd h List.not_mem_nil, rfl⟩

theorem trimTo_length (period : Nat) (l : List Nat) (hp : 0 < period) : (trimTo period l).length < period ∨ (trimTo period l) = l ∧ l.length < period := by
  unfold trimTo
  rw [if_neg (by omega)]
  split
  · left; simp only [List.length_drop]; omega
  · right; exact ⟨rfl, by omega⟩

theorem trimTo_lt (period : Nat) (l : List Nat) (hp : 0 < period) : (trimTo period l).length < period := by
  rcases trimTo_length period l hp with h | ⟨h1, h2⟩
  · exact h
  · rw [h1]; exact h2

theorem dataGet_mem {d : List (Ticker × List Nat)} {t : Ticker} {l : List Nat} (h : dataGet d t = some l) :
    ∃ p ∈ d, p.2 = l := by
  unfold dataGet at h
  cases hf : d.find? (·.1 == t) with
  | none => rw [hf] at h; cases h
  | some p =>
    rw [hf] at h
    simp only [Option.map_some, Option.some.injEq] at h
    exact ⟨p, List.mem_of_find?_eq_some hf, h⟩

/-- appending one value to the series of one ticker keeps every series within `bound + 1` where
    the appended series was within `bound` -/
theorem dataSet_len {d : List (Ticker × List Nat)} {t : Ticker} {l : List Nat} {n : Nat}
    (hd : ∀ p ∈ d, p.2.length ≤ n) (hl : l.length ≤ n) : ∀ p ∈ dataSet d t l, p.2.length ≤ n := by
  intro p hp
  unfold dataSet at hp
  split at hp
  · obtain ⟨q, hq, rfl⟩ := List.mem_map.1 hp
    split
    · exact hl
    · exact hd q hq
  · rcases List.mem_append.1 hp with h | h
    · exact hd p h
    · simp only [List.mem_singleton] at h; subst h; exact hl

/-- the collection loop at one height: every series stays within the period, provided the series
    of the tickers still to be appended are strictly within -/
theorem collect_fold_len (P : Params) (hp : 0 < P.avgPeriod) (rates : TMap) :
    ∀ (acc : List (Ticker × List Nat)), (∀ p ∈ acc, p.2.length ≤ P.avgPeriod) →
      rates.Pairwise (fun a b => a.1 ≠ b.1) →
      (∀ kv ∈ rates, ∀ p ∈ acc, p.1 = kv.1 → p.2.length < P.avgPeriod) →
      ∀ p ∈ rates.foldl (fun acc kv => dataSet acc kv.1 ((dataGet acc kv.1).getD [] ++ [kv.2])) acc,
        p.2.length ≤ P.avgPeriod := by
  induction rates with
  | nil => intro acc h _ _; exact h
  | cons kv rest ih =>
    intro acc hacc hpw hlt
    simp only [List.foldl_cons]
    have hpw' := List.pairwise_cons.1 hpw
    have hnew : ((dataGet acc kv.1).getD [] ++ [kv.2]).length ≤ P.avgPeriod := by
      simp only [List.length_append, List.length_singleton]
      cases hg : dataGet acc kv.1 with
      | none =>
        simp only [Option.getD_none, List.length_nil]
        omega
      | some l =>
        simp only [Option.getD_some]
        unfold dataGet at hg
        cases hf : acc.find? (·.1 == kv.1) with
        | none => rw [hf] at hg; cases hg
        | some q =>
          rw [hf] at hg
          simp only [Option.map_some, Option.some.injEq] at hg
          have hk : q.1 = kv.1 := by simpa using List.find?_some hf
          have := hlt kv List.mem_cons_self q (List.mem_of_find?_eq_some hf) hk
          rw [hg] at this
          omega
    apply ih
    · exact dataSet_len hacc hnew
    · exact hpw'.2
    · intro kv' hkv' p hpm hk
      have hne : kv.1 ≠ kv'.1 := hpw'.1 kv' hkv'
      unfold dataSet at hpm
      split at hpm
      · obtain ⟨q, hq, rfl⟩ := List.mem_map.1 hpm
        by_cases hqk : (q.1 == kv.1) = true
        · simp only [hqk, if_true] at hk
          exact absurd hk hne
        · simp only [hqk] at hk ⊢
          exact hlt kv' (List.mem_cons_of_mem _ hkv') q hq hk
      · rcases List.mem_append.1 hpm with h | h
        · exact hlt kv' (List.mem_cons_of_mem _ hkv') p h hk
        · simp only [List.mem_singleton] at h; subst h; exact absurd hk hne


theorem set_pairwise (m : TMap) (t : Ticker) (v : Nat) (h : m.Pairwise (fun a b => a.1 ≠ b.1)) :
    (m.set t v).Pairwise (fun a b => a.1 ≠ b.1) := by
  unfold TMap.set
  refine List.pairwise_cons.2 ⟨fun b hb => ?_, h.sublist List.filter_sublist⟩
  have := (List.mem_filter.1 hb).2
  intro e
  simp only [bne_iff_ne, ne_eq] at this
  exact this e.symm

theorem ratesToMap_pairwise (P : Params) (rows : List RateRow) :
    (ratesToMap P rows).Pairwise (fun a b => a.1 ≠ b.1) := by
  unfold ratesToMap
  suffices h : ∀ (m : TMap), m.Pairwise (fun a b => a.1 ≠ b.1) →
      (rows.foldl (fun m r => let t := stringToTicker P r.token; if t == 0 then m else m.set t r.value) m).Pairwise (fun a b => a.1 ≠ b.1) from
    h [] List.Pairwise.nil
  induction rows with
  | nil => intro m hm; exact hm
  | cons r rs ih =>
    intro m hm
    simp only [List.foldl_cons]
    apply ih
    split
    · exact hm
    · exact set_pairwise m _ _ hm

/-- after `collectRatesAtHeight`, whatever the series were before, none is longer than the period -/
theorem collectAt_len (P : Params) (hp : 0 < P.avgPeriod) (db : DB) (d : List (Ticker × List Nat)) (h : Nat) :
    ∀ p ∈ collectAt P db d h, p.2.length ≤ P.avgPeriod := by
  unfold collectAt
  dsimp only
  have hd1 : ∀ p ∈ d.map (fun p => (p.1, trimTo P.avgPeriod p.2)), p.2.length < P.avgPeriod := by
    intro p hpm
    obtain ⟨q, _, rfl⟩ := List.mem_map.1 hpm
    exact trimTo_lt P.avgPeriod q.2 hp
  exact collect_fold_len P hp _ _ (fun p hpm => Nat.le_of_lt (hd1 p hpm)) (ratesToMap_pairwise P _)
    (fun _ _ p hpm _ => hd1 p hpm)

theorem reload_len (P : Params) (hp : 0 < P.avgPeriod) (db : DB) (start : Nat) (is : List Nat) :
    ∀ (d0 : List (Ticker × List Nat)), (∀ p ∈ d0, p.2.length ≤ P.avgPeriod) →
      ∀ p ∈ is.foldl (fun acc i => collectAt P db acc (start + i)) d0, p.2.length ≤ P.avgPeriod := by
  induction is with
  | nil => intro d0 h; exact h
  | cons i is ih => intro d0 _; exact ih _ (collectAt_len P hp db d0 (start + i))

/-- `GetPegNetRateAverages` keeps its cache consistent, and its answer is the cache's -/
theorem getAverages_ok (P : Params) (hp : 0 < P.avgPeriod) (db : DB) (c : AvgCache) (height : Nat) (hc : CacheOK P c) :
    CacheOK P (getAverages P db c height).1 ∧ (getAverages P db c height).2 = (getAverages P db c height).1.avgs := by
  unfold getAverages
  split
  · exact ⟨hc, rfl⟩
  · dsimp only
    refine ⟨⟨?_, rfl⟩, rfl⟩
    dsimp only
    split
    · apply reload_len P hp
      intro p hpm
      obtain ⟨q, _, rfl⟩ := List.mem_map.1 hpm
      exact Nat.zero_le _
    · exact collectAt_len P hp db c.data height

/-- a non-zero published average belongs to a series with enough non-zero quotes, and is the mean
    of that series (zeros included) -/
theorem computeAverages_get {P : Params} {d : List (Ticker × List Nat)} {t : Ticker}
    (hlen : ∀ p ∈ d, p.2.length ≤ P.avgPeriod) (hne : (computeAverages P d).get t ≠ 0) :
    ∃ p ∈ d, p.1 = t ∧ P.avgRequired ≤ nonZero p.2 ∧
      (computeAverages P d).get t = (p.2.sum % 18446744073709551616) / p.2.length := by
  unfold TMap.get at hne ⊢
  unfold computeAverages at hne ⊢
  rw [List.find?_map] at hne ⊢
  generalize hf : d.find? _ = o at hne ⊢
  cases o with
  | none => exact absurd rfl hne
  | some p =>
    have hm := List.mem_of_find?_eq_some hf
    have hk := List.find?_some hf
    simp only [Option.map_some] at hne ⊢
    by_cases hen : P.avgPeriod - numberMissing P.avgPeriod p.2 < P.avgRequired
    · rw [if_pos hen] at hne; exact absurd rfl hne
    · rw [if_neg hen] at hne ⊢
      simp only [Function.comp, if_neg hen] at hk
      exact ⟨p, hm, by simpa using hk, (enough_iff_nonZero _ _ _ (hlen p hm)).1 hen, rfl⟩

/-- **When an average is available.** Whatever the cache held before (as long as it came from this
    function), whichever path is taken: a non-zero answer for `t` means the window holds at least
    `AverageRequired` non-zero quotes of `t` among at most `AveragePeriod` samples, and the answer
    is their mean (zero quotes included in the divisor). -/
theorem published_average_has_quotes (P : Params) (hp : 0 < P.avgPeriod) (db : DB) (c : AvgCache) (height : Nat)
    (hc : CacheOK P c) (t : Ticker) (hne : (getAverages P db c height).2.get t ≠ 0) :
    ∃ p ∈ (getAverages P db c height).1.data, p.1 = t ∧ p.2.length ≤ P.avgPeriod ∧
      P.avgRequired ≤ nonZero p.2 ∧
      (getAverages P db c height).2.get t = (p.2.sum % 18446744073709551616) / p.2.length := by
  obtain ⟨hok, he⟩ := getAverages_ok P hp db c height hc
  rw [he, hok.avgs] at hne ⊢
  obtain ⟨p, hm, hk, hq, hv⟩ := computeAverages_get hok.len hne
  exact ⟨p, hm, hk, hok.len p hm, hq, hv⟩


/-! ### the height the averages are taken at -/

theorem foldl_max_ge (l : List Nat) (a : Nat) : a ≤ l.foldl max a ∧ ∀ x ∈ l, x ≤ l.foldl max a := by
  induction l generalizing a with
  | nil => exact ⟨Nat.le_refl _, fun _ h => by cases h⟩
  | cons y ys ih =>
    simp only [List.foldl_cons]
    obtain ⟨h1, h2⟩ := ih (max a y)
    refine ⟨by omega, fun x hx => ?_⟩
    rcases List.mem_cons.1 hx with rfl | hx
    · omega
    · exact h2 x hx

theorem foldl_max_mem (l : List Nat) (a : Nat) : l.foldl max a = a ∨ l.foldl max a ∈ l := by
  induction l generalizing a with
  | nil => exact Or.inl rfl
  | cons y ys ih =>
    simp only [List.foldl_cons]
    rcases ih (max a y) with h | h
    · rw [h]
      by_cases hay : a ≤ y
      · right; rw [Nat.max_eq_right hay]; exact List.mem_cons_self
      · left; exact Nat.max_eq_left (by omega)
    · right; exact List.mem_cons_of_mem _ h

/-- `SelectMostRecentRatesBeforeHeight` answers the greatest rated height below `h` -/
theorem mostRecentRatesBefore_spec (db : DB) (h : Nat) (r : RateRow) (hr : r ∈ db.rates) (hlt : r.height < h) :
    (db.mostRecentRatesBefore h).2 < h ∧ (∃ r' ∈ db.rates, r'.height = (db.mostRecentRatesBefore h).2) ∧
      ∀ r' ∈ db.rates, r'.height < h → r'.height ≤ (db.mostRecentRatesBefore h).2 := by
  unfold DB.mostRecentRatesBefore
  dsimp only
  have hmem : r.height ∈ (db.rates.filter (·.height < h)).map (·.height) :=
    List.mem_map.2 ⟨r, List.mem_filter.2 ⟨hr, by simpa using hlt⟩, rfl⟩
  generalize hhs : (db.rates.filter (·.height < h)).map (·.height) = hs at hmem
  have hall : ∀ x ∈ hs, x < h ∧ ∃ r' ∈ db.rates, r'.height = x := by
    intro x hx
    rw [← hhs] at hx
    obtain ⟨q, hq, rfl⟩ := List.mem_map.1 hx
    obtain ⟨hq1, hq2⟩ := List.mem_filter.1 hq
    exact ⟨by simpa using hq2, q, hq1, rfl⟩
  cases hs with
  | nil => cases hmem
  | cons y ys =>
    dsimp only
    obtain ⟨_, hge⟩ := foldl_max_ge (y :: ys) 0
    have hin : (y :: ys).foldl max 0 ∈ (y :: ys) := by
      rcases foldl_max_mem (y :: ys) 0 with h0 | h0
      · -- the maximum is 0: every element is 0, in particular the head
        have := hge y List.mem_cons_self
        rw [h0] at this ⊢
        have : y = 0 := by omega
        rw [this]; exact List.mem_cons_self
      · exact h0
    obtain ⟨hlt', hex⟩ := hall _ hin
    refine ⟨hlt', hex, fun r' hr' hr'lt => ?_⟩
    apply hge
    rw [← hhs]
    exact List.mem_map.2 ⟨r', List.mem_filter.2 ⟨hr', by simpa using hr'lt⟩, rfl⟩

theorem getAverages_height (P : Params) (db : DB) (c : AvgCache) (height : Nat) :
    (getAverages P db c height).1.height = height := by
  unfold getAverages
  split
  · assumption
  · rfl

end Pegnet
