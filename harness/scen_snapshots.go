package main

import (
	"fmt"

	"github.com/Factom-Asset-Tokens/factom"
	"github.com/pegnet/pegnetd/fat/fat2"
	"github.com/pegnet/pegnetd/node/pegnet"
)

// The `snapshots` scenario (C14, C08): two consecutive staking snapshots in the 2.0.2 era whose
// rate sets have holes. From 2.0.2 on an asset whose winning OPR and SPR disagree by more than
// 25 % is recorded at rate 0, so a snapshot height can find
//   - an asset that stakers have held since the previous snapshot without a rate (it must be left
//     out of their stake; the block must still apply), or
//   - pUSD itself without a rate (nobody can be valued and nobody is paid, but the snapshot is
//     still taken: the NEXT payout uses this height's balances as "the previous snapshot").
// Chain k%2==0: plain snapshot at 144; at 288 every held non-USD asset unrated (k%4==0) or every
// other one by ticker number (k%4==2: priced assets sit behind unrated ones in the valuation order).
// Chain k%2==1: pUSD unrated at 144, plain snapshot at 288 (pays on min(balances at 144, at 288)).
func scenSnapshots(rep *Report, tier string, seed int64) {
	n := 3
	if tier == "thorough" {
		n = 8
	}
	if rep.Property == "C08" && tier != "thorough" {
		n = 1
	}
	for k := 0; k < n; k++ {
		runSnapshotChain(rep, seed*977+int64(k), k)
	}
	rep.Rule = "one evaluation = one block of a 292-block chain (2.0.2 active before the first snapshot at 144, second snapshot at 288) in which the snapshot heights carry out-of-band SPR quotes (held assets, or pUSD, recorded at rate 0), applied by the real daemon and the model with full dumps compared and the ledger monitors (snapshot rotation against the balance dumps, staking specification, history replay, liveness) evaluated on the implementation's dump; distinct = (era, block shape)"
}

func init() { scenarios["snapshots"] = scenSnapshots }

func runSnapshotChain(rep *Report, seed int64, k int) {
	a := Acts{Pegnet: 100, GradingV2: 102, TxConv: 104, PegPricing: 106, OneWayFCT: 108, ConvLimit: 110, PegFloat: 110, V4: 114, RCDE: 114,
		V20: 118, DevRewards: 122, SprSig: 122, OneWaySmall: 126, V202: 126, V204: 300, V204Burn: 310, PIP10: 400}
	if k%4 >= 2 {
		a.PIP10 = 150 // the same with averaging active at the second snapshot
	}
	s1, s2 := uint32(pegnet.SnapshotRate), uint32(2*pegnet.SnapshotRate)
	decorate := func(w *World, b *BlockSpec) {
		g := w.G
		h := b.Height
		if h != s1 && h != s2 {
			return
		}
		var unrated []string
		switch {
		case k%2 == 0 && h == s2:
			// chain 0: every held non-USD asset; chain 2, 4, …: every other one (by ticker number), so
			// that stakers hold priced assets BEHIND an unrated one in the valuation's asset order
			seen := map[string]bool{}
			for _, u := range g.Users {
				for _, t := range w.NonZeroAssets(u.FA()) {
					name := t.String()[1:]
					if t != fat2.PTickerPEG && t != fat2.PTickerUSD && !seen[name] && (k%4 == 0 || int(t)%2 == 1) {
						seen[name] = true
						unrated = append(unrated, name)
					}
				}
			}
		case k%2 == 1 && h == s1:
			unrated = []string{"USD"}
		}
		ver := OPRVersionAt(a, h)
		b.OPR = g.OPRSet(h, ver, w.LastShortHashes(h), 25, g.Rates, nil)
		top := w.TopPEG(100)
		if len(top) == 0 {
			rep.Note("snapshots: no PEG holder at height %d", h)
			return
		}
		ids := make([][]byte, 25)
		signers := make([]factom.FsAddress, 25)
		payout := make([]string, 25)
		for i := range ids {
			ids[i] = top[i%len(top)]
			signers[i] = g.Users[0].Fs
			payout[i] = g.Miners[i%len(g.Miners)]
		}
		rates := map[string]uint64{}
		for name, v := range g.Rates {
			rates[name] = v
		}
		for _, name := range unrated {
			rates[name] = rates[name] * 2
		}
		b.SPR = g.SPRSet(h, SPRVersionAt(a, h), ids, signers, payout, rates, nil)
		rep.Count(fmt.Sprintf("snapshots:height-%d:unrated=%d", h/uint32(pegnet.SnapshotRate), len(unrated)))
		for _, name := range unrated {
			rep.Count("snapshots:unrated:" + name)
		}
	}
	runLedgerChainWith(rep, seed, 0, "quick", &a, s2+4, decorate)
}
