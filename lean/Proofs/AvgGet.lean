import Proofs.AvgIrrelevant
/-
  The block transaction reads the averages it is handed only through `TMap.get`: two average maps
  that answer every ticker alike are interchangeable, at every height (above PIP-10 too). This is
  what lets two caches that hold the same *series* — whatever the order of their keys, with or
  without empty series — stand for each other (Proofs/AvgWindow, C09).
-/
namespace Pegnet

section
variable {P : Params} {h : Nat} {a₁ a₂ : Option TMap} (hg : ∀ t, (a₁.getD []).get t = (a₂.getD []).get t)
include hg

theorem pass1Tx_get (bal : Ticker → Int) (rates : Option TMap) (t : Tx) :
    pass1Tx P h bal rates a₁ t = pass1Tx P h bal rates a₂ t := by
  unfold pass1Tx
  simp only [hg]

theorem pass1_get (bal : Ticker → Int) (rates : Option TMap) (txs : List Tx) :
    pass1 P h bal rates a₁ txs = pass1 P h bal rates a₂ txs := by
  induction txs with
  | nil => rfl
  | cons t rest ih => unfold pass1; rw [pass1Tx_get hg bal rates t, ih]

theorem pass2_get (rates : Option TMap) (bal : Ticker → Int) (txs : List Tx) :
    pass2 P h rates a₁ bal txs = pass2 P h rates a₂ bal txs := by
  induction txs generalizing bal with
  | nil => rfl
  | cons t rest ih =>
    unfold pass2
    simp only [hg, ih]

theorem verdict_get (db : DB) (rates : Option TMap) (txs : List Tx) :
    verdict P db h rates a₁ txs = verdict P db h rates a₂ txs := by
  unfold verdict
  cases txs with
  | nil => rfl
  | cons t rest => simp only [pass1_get hg _ rates, pass2_get hg rates]

theorem recordOutputs_get (hash : Hash) (rates : Option TMap) (idx : Nat) (t : Tx) :
    recordOutputs P h hash rates a₁ idx t = recordOutputs P h hash rates a₂ idx t := by
  unfold recordOutputs
  simp only [hg]

theorem recordTx_get (hash : Hash) (rates : Option TMap) (idx : Nat) (t : Tx) :
    recordTx P h hash rates a₁ idx t = recordTx P h hash rates a₂ idx t := by
  unfold recordTx; simp only [recordOutputs_get hg hash rates]

theorem recordBatch_get (hash : Hash) (rates : Option TMap) (txs : List Tx) :
    recordBatch P h hash rates a₁ txs = recordBatch P h hash rates a₂ txs := by
  unfold recordBatch
  have : recordTx P h hash rates a₁ = recordTx P h hash rates a₂ := by
    funext idx t; exact recordTx_get hg hash rates idx t
  rw [this]

theorem applyBatch_get (e : TxEntry) (rates : Option TMap) :
    applyBatch P h e rates a₁ = applyBatch P h e rates a₂ := by
  unfold applyBatch
  simp only [verdict_get hg _ rates, recordBatch_get hg e.hash rates]

end

section
variable {P : Params} {h : Nat} {a₁ a₂ : TMap} (hg : ∀ t, a₁.get t = a₂.get t)
include hg

theorem pegRequests_get (rates : TMap) (bs : List TxEntry) :
    pegRequests P h rates a₁ bs = pegRequests P h rates a₂ bs := by
  unfold pegRequests
  simp only [hg]

theorem recordPegRequests_get (rates : TMap) (bs : List TxEntry) (bank : Nat) (bh : Int) :
    recordPegRequests P h rates a₁ bs bank bh = recordPegRequests P h rates a₂ bs bank bh := by
  unfold recordPegRequests
  rw [pegRequests_get hg rates bs]

theorem applyHeld_get (rates : TMap) (e : TxEntry) :
    applyHeld P h rates a₁ e = applyHeld P h rates a₂ e := by
  unfold applyHeld
  have hg' : ∀ t, ((some a₁ : Option TMap).getD []).get t = ((some a₂ : Option TMap).getD []).get t := by
    intro t; simpa using hg t
  simp only [applyBatch_get hg' e (some rates)]

theorem applyHolding_get (c : DB) (rates : TMap) (fromH : Nat) :
    applyHolding P c h rates a₁ fromH = applyHolding P c h rates a₂ fromH := by
  unfold applyHolding
  have e1 : applyHeld P h rates a₁ = applyHeld P h rates a₂ := by
    funext e; exact applyHeld_get hg rates e
  have e2 : recordPegRequests P h rates a₁ = recordPegRequests P h rates a₂ := by
    funext bs bank bh; exact recordPegRequests_get hg rates bs bank bh
  rw [e1, e2]

end

/-- the block transaction depends on the averages only through what they answer per ticker -/
theorem blockTx_get {P : Params} (c : DB) (b : Block) (a₁ a₂ : TMap) (hg : ∀ t, a₁.get t = a₂.get t) :
    blockTx P c b a₁ = blockTx P c b a₂ := by
  unfold blockTx syncBlock txPhase holdingPhase
  simp only [applyHolding_get hg c]

end Pegnet
