package main

// Direct-call correspondence scenarios for the pure kernels: Convert / Refund / payout sets
// (C07, C16, C14), the tolerance band (C12), the amount parser (C20) and CheckHardForks (C19).

import (
	"database/sql"
	"encoding/hex"
	"fmt"
	"math"
	"math/big"
	"math/rand"
	"os"
	"path/filepath"
	"sort"
	"strings"

	"github.com/pegnet/pegnetd/cmd"
	"github.com/pegnet/pegnetd/config"
	"github.com/pegnet/pegnetd/node"
	"github.com/pegnet/pegnetd/node/conversions"
	"github.com/pegnet/pegnetd/node/pegnet"
	"github.com/spf13/viper"
)

func edgeU64(r *rand.Rand) uint64 {
	switch r.Intn(14) {
	case 0:
		return 0
	case 1:
		return 1
	case 2:
		return 2
	case 3:
		return math.MaxInt64
	case 4:
		return math.MaxInt64 - 1
	case 5:
		return math.MaxUint64
	case 6:
		return 1 << 63
	case 7:
		return uint64(r.Intn(1000))
	case 8:
		return uint64(r.Int63n(1e8))
	case 9:
		return uint64(r.Int63n(1e12))
	case 10:
		return 1e8
	default:
		return r.Uint64() >> uint(r.Intn(64))
	}
}

func scenConvert(rep *Report, tier string, seed int64) {
	r := rand.New(rand.NewSource(seed))
	n := 20000
	if tier == "thorough" {
		n = 400000
	}
	m, err := StartModel()
	if err != nil {
		rep.Note("infrastructure: %v", err)
		return
	}
	defer m.Close()
	saved := config.PIP10AverageActivation
	defer func() { config.PIP10AverageActivation = saved }()
	// the schedule the binary ships with (everything below runs on a moved activation height): a
	// conversion whose source average is below its spot rate is priced with the spot rate right
	// below height 295190 and with the average from there on
	{
		config.PIP10AverageActivation = mainnetActs.PIP10
		const pinned = 295190
		for _, h := range []uint32{pinned - 1, pinned, pinned + 1, pinned - 720, pinned + 720} {
			got, err := conversions.Convert(h, 1e8, 2e8, 1e8, 1e8, 1e8)
			want := int64(2e8)
			if h >= pinned {
				want = 1e8
			}
			rep.Count("convert:shipped-schedule")
			if err != nil || got != want {
				path := WriteReplay(rep.Property, "convert-schedule", Replay{Property: rep.Property, Scenario: "convert", Seed: seed,
					What:  fmt.Sprintf("with the shipped constants Convert at height %d prices 1 unit (spot 2, average 1, destination 1) at %d, expected %d: averaging applies from height %d on", h, got, want, pinned),
					Extra: map[string]interface{}{"height": h, "PIP10AverageActivation": mainnetActs.PIP10, "error": fmt.Sprint(err)}})
				rep.Violate("convert:shipped-schedule", fmt.Sprintf("height %d: got %d (%v), expected %d (PIP10AverageActivation = %d)", h, got, err, want, mainnetActs.PIP10), path)
				break
			}
		}
		config.PIP10AverageActivation = saved
	}
	for i := 0; i < n; i++ {
		pip := uint32(r.Intn(3) * 100)
		h := uint32(r.Intn(300))
		config.PIP10AverageActivation = pip
		var amt int64
		switch r.Intn(8) {
		case 0:
			amt = -int64(r.Int63n(1000)) - 1
		case 1:
			amt = math.MaxInt64
		case 2:
			amt = 0
		default:
			amt = int64(edgeU64(r) >> 1)
		}
		fr, fa, tr, ta := edgeU64(r), edgeU64(r), edgeU64(r), edgeU64(r)
		if r.Intn(3) == 0 { // plausible rates
			fr, fa, tr, ta = uint64(r.Int63n(1e13))+1, uint64(r.Int63n(1e13)), uint64(r.Int63n(1e13))+1, uint64(r.Int63n(1e13))
		}
		got, gerr := conversions.Convert(h, amt, fr, fa, tr, ta)
		impl := "err"
		if gerr == nil {
			impl = fmt.Sprintf("ok %d", got)
		}
		model := m.Ask(fmt.Sprintf("convert %d %d %d %d %d %d %d", pip, h, amt, fr, fa, tr, ta))
		cls := fmt.Sprintf("pip=%v|neg=%v|zr=%v|za=%v|ok=%v", h >= pip, amt < 0, fr == 0 || tr == 0, fa == 0 || ta == 0, gerr == nil)
		rep.Case(cls, true)
		rep.Count("convert:" + cls)
		if i < 3 {
			rep.Sample(map[string]interface{}{"args": []interface{}{pip, h, amt, fr, fa, tr, ta}, "impl": impl, "model": model})
		}
		if impl != model {
			path := WriteReplay(rep.Property, "convert", Replay{Property: rep.Property, Scenario: "convert", Seed: seed,
				What: "conversions.Convert differs from the model", Extra: map[string]interface{}{"pip10": pip, "height": h, "amount": amt, "fromRate": fr, "fromAvg": fa, "toRate": tr, "toAvg": ta, "impl": impl, "model": model}})
			rep.Disagree("convert", fmt.Sprintf("Convert(%d,%d,%d,%d,%d,%d) pip10=%d: impl=%s model=%s", h, amt, fr, fa, tr, ta, pip, impl, model), path)
		}
		// monitor (spec evaluated on the implementation's answer): the guards, then floor of amt*src/dst
		mustFail := amt < 0 || fr == 0 || tr == 0 || (h >= pip && (fa == 0 || ta == 0))
		if mustFail && gerr == nil {
			path := WriteReplay(rep.Property, "convert-spec", Replay{Property: rep.Property, Scenario: "convert", Seed: seed,
				What: "Convert accepted an input its guards must reject (negative amount, zero rate, or zero average under PIP-10)",
				Extra: map[string]interface{}{"pip10": pip, "height": h, "amount": amt, "fromRate": fr, "fromAvg": fa, "toRate": tr, "toAvg": ta, "result": got}})
			rep.Violate("convert:guard", fmt.Sprintf("Convert(%d,%d,%d,%d,%d,%d) pip10=%d = %d, must be rejected", h, amt, fr, fa, tr, ta, pip, got), path)
		}
		if gerr == nil && !mustFail {
			src, dst := fr, tr
			if h >= pip {
				if fa < src {
					src = fa
				}
				if ta > dst {
					dst = ta
				}
			}
			A := big.NewInt(amt)
			num := new(big.Int).Mul(A, new(big.Int).SetUint64(src))
			x := big.NewInt(got)
			lo := new(big.Int).Mul(x, new(big.Int).SetUint64(dst))
			hi := new(big.Int).Mul(new(big.Int).Add(x, big.NewInt(1)), new(big.Int).SetUint64(dst))
			vOut := new(big.Int).Mul(x, new(big.Int).SetUint64(tr))
			vIn := new(big.Int).Mul(A, new(big.Int).SetUint64(fr))
			if lo.Cmp(num) > 0 || num.Cmp(hi) >= 0 || vOut.Cmp(vIn) > 0 || got < 0 {
				path := WriteReplay(rep.Property, "convert-spec", Replay{Property: rep.Property, Scenario: "convert", Seed: seed,
					What: "Convert result is not floor(amount*source/destination) or yields more value than put in",
					Extra: map[string]interface{}{"pip10": pip, "height": h, "amount": amt, "fromRate": fr, "fromAvg": fa, "toRate": tr, "toAvg": ta, "result": got}})
				rep.Violate("convert:not-floor", fmt.Sprintf("Convert(%d,%d,%d,%d,%d,%d) pip10=%d = %d", h, amt, fr, fa, tr, ta, pip, got), path)
			}
		}
	}
	rep.Traces = n
	rep.Rule = "one evaluation = one call of conversions.Convert compared with the model's `convert` and checked against floor(amt*src/dst); distinct = distinct (pip10 active, negative, zero rate, zero average, success) classes"
}

func scenPayouts(rep *Report, tier string, seed int64) {
	r := rand.New(rand.NewSource(seed))
	n := 3000
	if tier == "thorough" {
		n = 60000
	}
	m, err := StartModel()
	if err != nil {
		rep.Note("infrastructure: %v", err)
		return
	}
	defer m.Close()
	for i := 0; i < n; i++ {
		var bank uint64
		switch r.Intn(6) {
		case 0:
			bank = 0
		case 1:
			bank = 5000 * 1e8
		case 2:
			bank = 4500 * 1e8 * 144
		case 3:
			bank = uint64(r.Intn(100))
		default:
			bank = edgeU64(r)
		}
		k := r.Intn(8)
		if r.Intn(10) == 0 {
			k = 20 + r.Intn(30)
		}
		set := conversions.NewConversionSupply(bank)
		type req struct {
			idx  int
			hash string
			amt  uint64
		}
		var reqs []req
		hashes := []string{}
		for j := 0; j < 3; j++ {
			b := make([]byte, 32)
			r.Read(b)
			hashes = append(hashes, hex.EncodeToString(b))
		}
		base := edgeU64(r) >> 1
		// one run in twelve: the requests sum to 2^64 + d with d below the bank, so the low 64 bits
		// of the total look like a total that fits
		wrap := k >= 2 && bank > 0 && bank < 1<<62 && r.Intn(12) == 0
		share := uint64(math.MaxUint64) / uint64(k+1)
		for j := 0; j < k; j++ {
			var amt uint64
			switch r.Intn(5) {
			case 0:
				amt = base // ties
			case 1:
				amt = 0
			case 2:
				if k > 0 {
					amt = bank / uint64(k)
				}
			default:
				amt = edgeU64(r) >> uint(1+r.Intn(20))
			}
			if wrap {
				amt = share
				if j == k-1 {
					// 2^64 + d - (k-1)*share
					amt = uint64(math.MaxUint64) - uint64(k-1)*share + 1 + uint64(r.Int63n(int64(bank%math.MaxInt64)+1))%bank
				}
			}
			q := req{idx: j, hash: hashes[r.Intn(len(hashes))], amt: amt}
			txid := fmt.Sprintf("%d-%s", q.idx, q.hash)
			if err := set.AddConversion(txid, amt); err != nil {
				continue
			}
			reqs = append(reqs, q)
		}
		pays := set.Payouts()
		// C01: the split is a function of the request set — repeated evaluation (each one ranges
		// over the request map in a fresh order) must give the same answer
		for rep2 := 0; rep2 < 6; rep2++ {
			again := set.Payouts()
			same := len(again) == len(pays)
			for kx, v := range pays {
				if again[kx] != v {
					same = false
				}
			}
			if !same {
				path := WriteReplay(rep.Property, "payouts-nondeterministic", Replay{Property: rep.Property, Scenario: "payouts", Seed: seed,
					What: "ConversionSupplySet.Payouts gave two different answers for one request set", Extra: map[string]interface{}{"bank": bank, "requests": fmt.Sprint(reqs), "first": fmt.Sprint(pays), "second": fmt.Sprint(again)}})
				rep.Violate("payouts:nondeterministic", fmt.Sprintf("bank %d, %d requests: repeated Payouts() differ", bank, len(reqs)), path)
				break
			}
		}
		keys := make([]string, 0, len(pays))
		for kx := range pays {
			keys = append(keys, kx)
		}
		sort.Strings(keys)
		var sb strings.Builder
		fmt.Fprintf(&sb, "ok %d", set.TotalRequested())
		var implParts []string
		for _, q := range reqs {
			txid := fmt.Sprintf("%d-%s", q.idx, q.hash)
			implParts = append(implParts, fmt.Sprintf("%s=%d", txid, pays[txid]))
		}
		impl := sb.String()
		if len(implParts) > 0 {
			impl += " " + strings.Join(implParts, " ")
		}
		var line strings.Builder
		fmt.Fprintf(&line, "payouts %d %d", bank, len(reqs))
		total := new(big.Int)
		var most uint64
		for _, q := range reqs {
			fmt.Fprintf(&line, " %d %s %d", q.idx, q.hash, q.amt)
			total.Add(total, new(big.Int).SetUint64(q.amt))
			if q.amt > most {
				most = q.amt
			}
		}
		model := m.Ask(line.String())
		over := total.Cmp(new(big.Int).SetUint64(bank)) >= 0
		ties := 0
		for _, q := range reqs {
			if q.amt == most {
				ties++
			}
		}
		cls := fmt.Sprintf("n=%d|over=%v|ties=%v|bank0=%v", bucket(len(reqs)), over, ties > 1, bank == 0)
		rep.Case(cls, len(reqs) > 0)
		rep.Count("payouts:" + cls)
		if i < 3 {
			rep.Sample(map[string]interface{}{"bank": bank, "requests": len(reqs), "impl": impl})
		}
		if impl != model {
			path := WriteReplay(rep.Property, "payouts", Replay{Property: rep.Property, Scenario: "payouts", Seed: seed,
				What: "ConversionSupplySet.Payouts differs from the model", Extra: map[string]interface{}{"line": line.String(), "impl": impl, "model": model}})
			rep.Disagree("payouts", fmt.Sprintf("bank=%d n=%d impl=%.80s model=%.80s", bank, len(reqs), impl, model), path)
		}
		// monitor: the spec of C16/C14 on the implementation's answer
		// (totals beyond 64 bits included: the set keeps the total as a big integer)
		if len(reqs) > 0 {
			paid := new(big.Int)
			bad := ""
			for _, q := range reqs {
				txid := fmt.Sprintf("%d-%s", q.idx, q.hash)
				p := pays[txid]
				paid.Add(paid, new(big.Int).SetUint64(p))
				if !over && p != q.amt {
					bad = "request not filled although the total fits"
				}
				if over && total.Sign() > 0 {
					fl := new(big.Int).Mul(new(big.Int).SetUint64(q.amt), new(big.Int).SetUint64(bank))
					fl.Div(fl, total)
					if p < fl.Uint64() || p-fl.Uint64() > uint64(len(reqs)) {
						bad = "payout is not the proportional share (+ dust)"
					}
				}
			}
			if over && paid.Cmp(new(big.Int).SetUint64(bank)) != 0 {
				bad = fmt.Sprintf("total paid %v differs from the bank %d", paid, bank)
			}
			if !total.IsUint64() {
				rep.Count("payouts:total-beyond-64-bits")
			}
			if !over && paid.Cmp(total) != 0 {
				bad = "total paid differs from total requested"
			}
			if bad != "" {
				path := WriteReplay(rep.Property, "payouts-spec", Replay{Property: rep.Property, Scenario: "payouts", Seed: seed,
					What: bad, Extra: map[string]interface{}{"line": line.String(), "impl": impl}})
				rep.Violate("payouts:"+strings.Fields(bad)[0], bad, path)
			}
		}
	}
	// Refund
	savedP := config.PIP10AverageActivation
	config.PIP10AverageActivation = 1 << 30
	for i := 0; i < n; i++ {
		in := int64(edgeU64(r) >> 1)
		ir, pr := uint64(r.Int63n(1e12))+1, uint64(r.Int63n(1e12))+1
		if r.Intn(10) == 0 {
			ir, pr = edgeU64(r), edgeU64(r)
		}
		maxY, _ := conversions.Convert(1, in, ir, ir, pr, pr)
		y := int64(0)
		if maxY == math.MaxInt64 {
			y = r.Int63()
		} else if maxY > 0 {
			y = r.Int63n(maxY + 1)
		}
		if r.Intn(20) == 0 {
			y = maxY + int64(r.Intn(5))
		}
		got := conversions.Refund(1, in, y, ir, pr)
		model := m.Ask(fmt.Sprintf("refund %d %d %d %d %d %d", 1<<30, 1, in, y, ir, pr))
		rep.Case(fmt.Sprintf("refund|full=%v|zero=%v", y == maxY, got == 0), true)
		if model != fmt.Sprintf("ok %d", got) {
			rep.Disagree("refund", fmt.Sprintf("Refund(%d,%d,%d,%d) impl=%d model=%s", in, y, ir, pr, got, model), "")
		}
		if y <= maxY && ir > 0 && pr > 0 {
			lhs := new(big.Int).Mul(big.NewInt(y), new(big.Int).SetUint64(pr))
			lhs.Add(lhs, new(big.Int).Mul(big.NewInt(got), new(big.Int).SetUint64(ir)))
			rhs := new(big.Int).Mul(big.NewInt(in), new(big.Int).SetUint64(ir))
			if lhs.Cmp(rhs) > 0 {
				rep.Violate("refund:value", fmt.Sprintf("yield %d + refund %d exceed the value of the input %d (rates %d/%d)", y, got, in, ir, pr), "")
			}
		}
	}
	config.PIP10AverageActivation = savedP
	rep.Traces = 2 * n
	rep.Rule = "one evaluation = one request set through ConversionSupplySet (or one Refund call) compared with the model and checked against the C16/C14 spec; distinct = (size bucket, over/under bank, ties for the top request, zero bank) classes"
}

func bucket(n int) int {
	switch {
	case n <= 2:
		return n
	case n < 8:
		return 4
	}
	return 8
}

func scenInBand(rep *Report, tier string, seed int64) {
	r := rand.New(rand.NewSource(seed))
	n := 20000
	if tier == "thorough" {
		n = 300000
	}
	m, err := StartModel()
	if err != nil {
		rep.Note("infrastructure: %v", err)
		return
	}
	defer m.Close()
	tols := []struct {
		f      float64
		tn, td int
	}{{0.1, 1, 1}, {0.25, 25, 2}, {0.01, 1, 2}, {0.001, 1, 3}}
	for i := 0; i < n; i++ {
		t := tols[r.Intn(len(tols))]
		spr := edgeU64(r)
		if r.Intn(2) == 0 {
			spr = uint64(r.Int63n(1e14)) + 1
		}
		// opr at and around both band edges
		var opr uint64
		hi := float64(spr) * (1 + t.f)
		lo := float64(spr) * (1 - t.f)
		switch r.Intn(6) {
		case 0:
			opr = uint64(hi)
		case 1:
			opr = uint64(hi) + 1
		case 2:
			opr = uint64(lo)
		case 3:
			if lo >= 1 {
				opr = uint64(lo) - 1
			}
		case 4:
			opr = uint64(lo) + 1
		default:
			opr = edgeU64(r)
		}
		tolerance := t.f
		high := float64(spr) * (1 + tolerance)
		low := float64(spr) * (1 - tolerance)
		impl := (float64(opr) >= low) && (float64(opr) <= high)
		model := m.Ask(fmt.Sprintf("inband %d %d %d %d", opr, spr, t.tn, t.td))
		want := "ok 0"
		if impl {
			want = "ok 1"
		}
		rep.Case(fmt.Sprintf("tol=%v|in=%v|big=%v", t.f, impl, spr > 1<<53), true)
		if model != want {
			rep.Disagree("inband", fmt.Sprintf("opr=%d spr=%d tol=%v impl=%v model=%s", opr, spr, t.f, impl, model), "")
		}
	}
	rep.Traces = n
	rep.Rule = "one evaluation = the band test of GetAssetRates / GetAssetRatesV0 in Go binary64 arithmetic against the model's exact binary64; opr drawn at, just above and just below both band edges; distinct = (tolerance, inside, spr above 2^53)"
}

func scenAmount(rep *Report, tier string, seed int64) {
	r := rand.New(rand.NewSource(seed))
	n := 20000
	if tier == "thorough" {
		n = 200000
	}
	m, err := StartModel()
	if err != nil {
		rep.Note("infrastructure: %v", err)
		return
	}
	defer m.Close()
	digits := func(k int) string {
		b := make([]byte, k)
		for i := range b {
			b[i] = byte('0' + r.Intn(10))
		}
		return string(b)
	}
	fixed := []string{"", "0", ".", "1.", ".5", "1.5", "184467440737", "184467440738", "184467440737.09551615", "184467440737.09551616",
		"99999999999999999999", "9223372036854775807", "9223372036854775808", "00000000000000000000001", "1.123456789", "1.12345678",
		"-1", "+1", "1e5", "1,5", " 1", "1 ", "0.00000001", "0.000000001", "92233720368.54775807", "92233720368.54775808", "1..2", "1.2.3"}
	for i := 0; i < n; i++ {
		var s string
		if i < len(fixed) {
			s = fixed[i]
		} else {
			switch r.Intn(8) {
			case 0:
				s = digits(1 + r.Intn(25))
			case 1:
				s = digits(r.Intn(12)) + "." + digits(r.Intn(11))
			case 2:
				s = digits(10+r.Intn(4)) + "." + digits(1+r.Intn(8))
			case 3:
				s = "18446744073" + digits(1) + "." + digits(8)
			case 4:
				b := []byte(digits(3) + "." + digits(3))
				b[r.Intn(len(b))] = "x-+e ,_"[r.Intn(7)]
				s = string(b)
			default:
				s = digits(1+r.Intn(10)) + "." + digits(1+r.Intn(8))
			}
		}
		got, gerr := cmd.FactoidToFactoshi(s)
		impl := "err"
		if gerr == nil {
			impl = fmt.Sprintf("ok %d", got)
		}
		model := m.Ask("amount " + hexOrDash(s))
		rep.Case(fmt.Sprintf("len=%d|dot=%v|ok=%v", bucket(len(s)), strings.Contains(s, "."), gerr == nil), true)
		if i < 3 {
			rep.Sample(map[string]interface{}{"input": s, "impl": impl})
		}
		if impl != model {
			rep.Disagree("amount", fmt.Sprintf("FactoidToFactoshi(%q) impl=%s model=%s", s, impl, model), "")
		}
		// monitor: exact or rejected
		if gerr == nil {
			exact, ok := exactAmount(s)
			if !ok || exact.Cmp(new(big.Int).SetUint64(got)) != 0 {
				path := WriteReplay(rep.Property, "amount-spec", Replay{Property: rep.Property, Scenario: "amount", Seed: seed,
					What: "decimal amount silently altered", Extra: map[string]interface{}{"input": s, "returned": got, "exact": fmt.Sprint(exact)}})
				sig := "amount:altered"
				if ok && exact.Cmp(new(big.Int).SetUint64(math.MaxUint64)) > 0 {
					sig = "amount:overflow-wraps"
				}
				rep.Violate(sig, fmt.Sprintf("FactoidToFactoshi(%q) = %d, exact value %v", s, got, exact), path)
			}
		}
	}
	rep.Traces = n
	rep.Rule = "one evaluation = one decimal string through cmd.FactoidToFactoshi compared with the model and with exact decimal arithmetic; distinct = (length bucket, has a dot, accepted)"
}

// exactAmount is the specification: value * 1e8 for [0-9]*(\.[0-9]{1,8})?, ok=false otherwise.
func exactAmount(s string) (*big.Int, bool) {
	parts := strings.SplitN(s, ".", 2)
	for _, p := range parts {
		for _, c := range p {
			if c < '0' || c > '9' {
				return nil, false
			}
		}
	}
	whole := new(big.Int)
	if parts[0] != "" {
		whole.SetString(parts[0], 10)
	}
	whole.Mul(whole, big.NewInt(1e8))
	if len(parts) == 2 {
		if parts[1] == "" || len(parts[1]) > 8 {
			return nil, false
		}
		f := new(big.Int)
		f.SetString(parts[1]+strings.Repeat("0", 8-len(parts[1])), 10)
		whole.Add(whole, f)
	}
	return whole, true
}

/* ---------- C19: CheckHardForks on prepared databases ---------- */

type session struct {
	version int
	blocks  int
	tracked bool // false = a build predating version tracking (no pn_sync_version rows)
}

func scenHardforks(rep *Report, tier string, seed int64) {
	r := rand.New(rand.NewSource(seed))
	n := 400
	if tier == "thorough" {
		n = 6000
	}
	m, err := StartModel()
	if err != nil {
		rep.Note("infrastructure: %v", err)
		return
	}
	defer m.Close()
	savedV, savedF := pegnet.PegnetdSyncVersion, pegnet.Hardforks
	defer func() { pegnet.PegnetdSyncVersion, pegnet.Hardforks = savedV, savedF }()
	dir := tempDir("verif-hf-")
	defer os.RemoveAll(dir)
	for i := 0; i < n; i++ {
		// fork table: (0,-1) plus 0..3 forks at small heights
		forks := []pegnet.ForkEvent{{ActivationHeight: 0, MinimumVersion: -1}}
		nf := r.Intn(4)
		hts := r.Perm(12)
		sort.Ints(hts[:nf])
		for j := 0; j < nf; j++ {
			forks = append(forks, pegnet.ForkEvent{ActivationHeight: uint32(hts[j] + 1), MinimumVersion: 1 + j + r.Intn(2)})
		}
		if i%7 == 3 {
			forks = savedF // the real table, exercised with large heights below
		}
		// session history
		var sess []session
		ns := 1 + r.Intn(4)
		for j := 0; j < ns; j++ {
			sess = append(sess, session{version: r.Intn(5), blocks: r.Intn(6), tracked: j > 0 || r.Intn(3) != 0})
		}
		cur := r.Intn(5)
		path := filepath.Join(dir, fmt.Sprintf("hf%d.db", i))
		conf := viper.New()
		conf.Set(config.SqliteDBPath, path)
		p := pegnet.New(conf)
		if err := p.Init(); err != nil {
			rep.Note("infrastructure: %v", err)
			return
		}
		height := uint32(0)
		if i%7 == 3 {
			height = 231615
		}
		var rows [][2]int64
		synced := int64(-1)
		pegnet.Hardforks = forks
		stopped := false
		for si, s := range sess {
			// every process start runs the version-lock check (node.NewPegnetd); a refused daemon
			// only continues under --no-hf, which half of the histories use
			if si > 0 || true {
				pegnet.PegnetdSyncVersion = s.version
				if s.tracked {
					if err := p.CheckHardForks(p.DB); err != nil && r.Intn(2) == 0 {
						stopped = true
					}
				}
			}
			if stopped {
				sess = sess[:si]
				break
			}
			for b := 0; b < s.blocks; b++ {
				height++
				tx, _ := p.DB.Begin()
				if s.tracked {
					pegnet.PegnetdSyncVersion = s.version
					if err := p.InsertSynced(tx, &pegnet.BlockSync{Synced: height}); err != nil {
						tx.Rollback()
						height--
						continue
					}
				} else {
					tx.Exec("REPLACE INTO pn_metadata (name, value) VALUES ($1, $2)", "synced", []byte(fmt.Sprintf(`{"Synced":%d}`, height)))
				}
				tx.Commit()
				synced = int64(height)
			}
		}
		// the rows the final start-up check sees (including back-fill rows of earlier starts)
		{
			rs, _ := p.DB.Query("SELECT height, version FROM pn_sync_version ORDER BY height")
			for rs.Next() {
				var h, v int64
				rs.Scan(&h, &v)
				rows = append(rows, [2]int64{h, v})
			}
			rs.Close()
		}
		pegnet.PegnetdSyncVersion = cur
		pegnet.Hardforks = forks
		gerr := p.CheckHardForks(p.DB)
		// rows after the check (the back-fill writes)
		var after []string
		rs, _ := p.DB.Query("SELECT height, version FROM pn_sync_version ORDER BY height")
		for rs.Next() {
			var h, v int64
			rs.Scan(&h, &v)
			after = append(after, fmt.Sprintf("%d:%d", h, v))
		}
		rs.Close()
		p.DB.Close()
		os.Remove(path + ".v4")
		impl := "accept"
		if gerr != nil {
			impl = "refuse"
		}
		var line strings.Builder
		sy := "-"
		if synced >= 0 {
			sy = fmt.Sprint(synced)
		}
		fmt.Fprintf(&line, "hardforks %d %s %d", cur, sy, len(forks))
		for _, f := range forks {
			fmt.Fprintf(&line, " %d %d", f.ActivationHeight, f.MinimumVersion)
		}
		fmt.Fprintf(&line, " %d", len(rows))
		for _, rw := range rows {
			fmt.Fprintf(&line, " %d %d", rw[0], rw[1])
		}
		ans := strings.Fields(m.Ask(line.String()))
		model := ans[0]
		mrows := append([]string{}, ans[1:]...)
		sort.Slice(mrows, func(a, b int) bool {
			var x, y int
			fmt.Sscanf(mrows[a], "%d:", &x)
			fmt.Sscanf(mrows[b], "%d:", &y)
			return x < y
		})
		untracked := false
		for _, s := range sess {
			if !s.tracked && s.blocks > 0 {
				untracked = true
			}
		}
		rep.Case(fmt.Sprintf("forks=%d|sessions=%d|untracked=%v|%s", len(forks), ns, untracked, impl), true)
		rep.Count("hardforks:" + impl)
		if i < 3 {
			rep.Sample(map[string]interface{}{"line": line.String(), "impl": impl})
		}
		if impl != model || strings.Join(after, " ") != strings.Join(mrows, " ") {
			path := WriteReplay(rep.Property, "hardforks", Replay{Property: rep.Property, Scenario: "hardforks", Seed: seed,
				What: "CheckHardForks differs from the model", Extra: map[string]interface{}{"line": line.String(), "impl": impl, "impl_rows": after, "model": ans}})
			rep.Disagree("hardforks", fmt.Sprintf("%s: impl=%s %v model=%v", line.String(), impl, after, ans), path)
		}
		// monitor: the property's iff, evaluated independently on the session history
		want := specRefuse(forks, sess, cur, height-uint32(totalBlocks(sess)))
		if (impl == "refuse") != want {
			path := WriteReplay(rep.Property, "hardforks-spec", Replay{Property: rep.Property, Scenario: "hardforks", Seed: seed,
				What: "start-up verdict contradicts the version-lock rule", Extra: map[string]interface{}{"line": line.String(), "impl": impl, "spec_refuse": want}})
			rep.Violate("hardforks:verdict", fmt.Sprintf("%s impl=%s spec refuse=%v", line.String(), impl, want), path)
		}
	}
	rep.Traces = n
	rep.Rule = "one evaluation = a database produced by a history of sessions (real InsertSynced with PegnetdSyncVersion varied, some sessions without version tracking) checked by the real CheckHardForks against a fork table, compared with the model (verdict and back-fill rows) and with the property's iff; distinct = (number of forks, sessions, untracked session present, verdict)"
}

func totalBlocks(sess []session) int {
	t := 0
	for _, s := range sess {
		t += s.blocks
	}
	return t
}

// specRefuse states C19 directly over the session history: refuse iff some block at or above a
// fork height was synced by a build older than the fork requires (an untracked build counts as
// version -1), or some block was synced by a newer build than the one starting.
func specRefuse(forks []pegnet.ForkEvent, sess []session, cur int, base uint32) bool {
	type blk struct {
		h uint32
		v int
	}
	var blocks []blk
	h := base
	anyTracked := false
	for _, s := range sess {
		for b := 0; b < s.blocks; b++ {
			h++
			v := s.version
			if !s.tracked {
				v = -1
			} else {
				anyTracked = true
			}
			blocks = append(blocks, blk{h, v})
		}
	}
	_ = anyTracked
	top := uint32(0)
	if len(blocks) > 0 {
		top = blocks[len(blocks)-1].h
	}
	for _, f := range forks {
		for _, b := range blocks {
			if b.h >= f.ActivationHeight && b.v < f.MinimumVersion && f.ActivationHeight <= top {
				return true
			}
		}
	}
	for _, b := range blocks {
		if b.v > cur {
			return true
		}
	}
	return false
}

var _ = sql.ErrNoRows
var _ = node.AveragePeriod

func init() {
	scenarios["convert"] = scenConvert
	scenarios["payouts"] = scenPayouts
	scenarios["inband"] = scenInBand
	scenarios["amount"] = scenAmount
	scenarios["hardforks"] = scenHardforks
}
