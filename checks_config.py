# Per-property configuration of ./check: which correspondence scenarios run, what is assumed.
# MANIFEST.json is generated from this file by ./gen_manifest.py.

COMMON_TRUSTED = [
    "extractor /verif/extract (go/ast; regenerates lean/Pegnet/Generated/Facts.lean and facts.json from /repo on every run)",
    "correspondence harness /verif/harness (differential run of the real Go code and the Lean model's executable definitions)",
]

CHECKS = {
    "C07": {
        "title": "Conversions execute later, at the next graded block's rates, exactly",
        "scenarios": [{"name": "convert"}, {"name": "timing"}],
        "technique": "Lean 4 theorems on convert (floor, min/max rates, value non-increasing, reject cases) + arrival/holding-window lemmas; differential run of conversions.Convert and of chains with graded/ungraded patterns",
        "assumptions": ["Go big.Int arithmetic and int64 conversion behave as specified (modelled as Int with the IsInt64 bound)"],
        "design_ref": "DESIGN.md §7 C07",
    },
    "C16": {
        "title": "PEG conversion bank (legacy era)",
        "scenarios": [{"name": "payouts"}, {"name": "bank"}],
        "technique": "Lean 4 theorems on payouts/refund (bank limit, exact when over, full if fits, proportional shares, refund value); differential run of ConversionSupplySet, Refund and bank-era chains",
        "assumptions": ["request keys are distinct (Go map keys)", "bank is a uint64"],
        "design_ref": "DESIGN.md §7 C16",
    },
    "C19": {
        "title": "Version lock",
        "scenarios": [{"name": "hardforks"}],
        "technique": "Lean 4 iff-characterisation of CheckHardForks over all fork tables / row sets; differential run of the real CheckHardForks on databases produced by real sessions",
        "assumptions": ["pn_sync_version has PRIMARY KEY(height) (SQLite enforces it)"],
        "design_ref": "DESIGN.md §7 C19",
    },
}

for _c in CHECKS.values():
    _c.setdefault("trusted", COMMON_TRUSTED)
