import Pegnet.Sync
/-
  Replaying a chain: the fold of `applyBlock` over the block list. A block that fails is not
  applied (the real daemon rolls it back and retries it; nothing later is applied on top).
-/
namespace Pegnet

def runBlocks (P : Params) : Node → List Block → Node
  | n, [] => n
  | n, b :: bs => runBlocks P (applyBlock P n b).1 bs

/-- the daemon's actual behaviour on a block that cannot be applied: it never gets past it -/
def runUntilStuck (P : Params) : Node → List Block → Node × Option (Block × Failure)
  | n, [] => (n, none)
  | n, b :: bs =>
    match applyBlock P n b with
    | (n', none) => runUntilStuck P n' bs
    | (n', some e) => (n', some (b, e))

def freshNode (P : Params) : Node := { mem := P.act.pegnet }

end Pegnet
