import Pegnet.Json
/-
  C20: the expected-length accounting of the fat2 decoders is SOUND as a duplicate / unknown key
  filter. Each decoder computes, from the raw values it picked out of the object, the length the
  object would have if it consisted of exactly the expected keys, once each, and compares it with
  the actual (compacted) length. Here: equality of the two lengths forces exactly that.

  The one assumption about the tokeniser is `J.WF`: a key's raw lexeme is at least two bytes (the
  quotes) longer than its decoded value has characters — true of every JSON string.
-/
namespace Pegnet

abbrev Field := String × String × J

/-- the tokeniser's contract on keys -/
def Field.wf (f : Field) : Prop := f.2.1.length + 2 ≤ f.1.utf8ByteSize

/-- weight of a field inside an object's text, without separating comma -/
def Field.w (f : Field) : Nat := f.1.utf8ByteSize + 1 + J.len f.2.2

theorem lenFields_eq (fs : List Field) : J.lenFields fs = (fs.map Field.w).sum := by
  induction fs with
  | nil => rfl
  | cons f fs ih => simp only [J.lenFields, List.map_cons, List.sum_cons, ih, Field.w]

theorem len_obj (fs : List Field) : J.len (.obj fs) = 2 + (fs.map Field.w).sum + (fs.length - 1) := by
  simp only [J.len, lenFields_eq]

theorem foldKey_length (k : String) : (foldKey k).length = k.length := by
  unfold foldKey
  simp [String.length]

/-- a field that fills the struct field `name` weighs at least `name` with its quotes, the colon
    and its value -/
theorem weight_of_match {name : String} {f : Field} (hwf : Field.wf f) (hm : fieldIs name f = true) :
    name.length + 3 + J.len f.2.2 ≤ Field.w f := by
  unfold fieldIs at hm
  have hk : foldKey f.2.1 = name := by simpa using hm
  have hl : f.2.1.length = name.length := by rw [← hk, foldKey_length]
  unfold Field.wf at hwf
  unfold Field.w
  omega

theorem weight_pos (f : Field) : 1 ≤ Field.w f := by unfold Field.w; omega

/-- a field matches at most one of two different names -/
theorem fieldIs_unique {n₁ n₂ : String} {f : Field} (h1 : fieldIs n₁ f = true) (h2 : fieldIs n₂ f = true) : n₁ = n₂ := by
  unfold fieldIs at h1 h2
  have a : foldKey f.2.1 = n₁ := by simpa using h1
  have b : foldKey f.2.1 = n₂ := by simpa using h2
  exact a.symm.trans b

/-- sum over a list splits along a predicate -/
theorem sum_filter_split (fs : List Field) (p : Field → Bool) (g : Field → Nat) :
    (fs.map g).sum = ((fs.filter p).map g).sum + ((fs.filter (fun f => !p f)).map g).sum := by
  induction fs with
  | nil => rfl
  | cons f fs ih =>
    by_cases hp : p f = true
    · simp [hp, ih]; omega
    · have : p f = false := by simpa using hp
      simp [this, ih]; omega

theorem length_filter_split (fs : List Field) (p : Field → Bool) :
    fs.length = (fs.filter p).length + (fs.filter (fun f => !p f)).length := by
  induction fs with
  | nil => rfl
  | cons f fs ih =>
    by_cases hp : p f = true
    · simp [hp, ih]; omega
    · have : p f = false := by simpa using hp
      simp [this, ih]; omega

/-- the fields that match none of the names -/
def restFields (names : List String) (fs : List Field) : List Field :=
  fs.filter (fun f => !(names.any (fun n => fieldIs n f)))

theorem restFields_cons (n : String) (names : List String) (fs : List Field) :
    restFields (n :: names) fs = (restFields names fs).filter (fun f => !(fieldIs n f)) := by
  unfold restFields
  rw [List.filter_filter]
  congr 1
  funext f
  simp only [List.any_cons, Bool.not_or, Bool.and_comm]

theorem filter_rest_eq (n : String) (names : List String) (hn : n ∉ names) (fs : List Field) :
    (restFields names fs).filter (fieldIs n) = fs.filter (fieldIs n) := by
  unfold restFields
  rw [List.filter_filter]
  apply List.filter_congr
  intro f _
  by_cases hf : fieldIs n f = true
  · have : names.any (fun m => fieldIs m f) = false := by
      cases hany : names.any (fun m => fieldIs m f) with
      | false => rfl
      | true =>
        obtain ⟨m, hm, hfm⟩ := List.any_eq_true.1 hany
        exact absurd (fieldIs_unique hfm hf ▸ hm) hn
    simp [hf, this]
  · have : fieldIs n f = false := by simpa using hf
    simp [this]

/-- weights and counts split into the buckets of the names and the rest -/
theorem buckets_split (g : Field → Nat) :
    ∀ (names : List String), names.Nodup → ∀ fs : List Field,
      (fs.map g).sum = (names.map (fun n => ((fs.filter (fieldIs n)).map g).sum)).sum + ((restFields names fs).map g).sum
  | [], _, fs => by
    have : restFields [] fs = fs := by
      unfold restFields
      simp
    rw [this]; simp
  | n :: names, hnd, fs => by
    have hn : n ∉ names := (List.nodup_cons.1 hnd).1
    have ih := buckets_split g names (List.nodup_cons.1 hnd).2 fs
    have e1 := sum_filter_split (restFields names fs) (fieldIs n) g
    rw [filter_rest_eq n names hn fs] at e1
    have e2 : restFields (n :: names) fs = (restFields names fs).filter (fun f => !(fieldIs n f)) := restFields_cons n names fs
    rw [ih, e1, e2]
    simp only [List.map_cons, List.sum_cons]
    generalize ((List.filter (fun f => !fieldIs n f) (restFields names fs)).map g).sum = X
    omega

theorem lookup_some_bucket {fs : List Field} {n : String} {v : J} (h : lookupField fs n = some v) :
    ∃ fl, (fs.filter (fieldIs n)).getLast? = some fl ∧ fl.2.2 = v := by
  unfold lookupField at h
  cases hl : (fs.filter (fieldIs n)).getLast? with
  | none => rw [hl] at h; cases h
  | some fl => rw [hl] at h; exact ⟨fl, rfl, by simpa using h⟩

/-- a non-empty bucket weighs at least its selected (last) field plus one per further field -/
theorem bucket_weight {fs : List Field} {n : String} {v : J} (hwf : ∀ f ∈ fs, Field.wf f) (h : lookupField fs n = some v) :
    n.length + 3 + J.len v + ((fs.filter (fieldIs n)).length - 1) ≤ ((fs.filter (fieldIs n)).map Field.w).sum ∧
    1 ≤ (fs.filter (fieldIs n)).length := by
  obtain ⟨fl, hlast, hv⟩ := lookup_some_bucket h
  generalize hb : fs.filter (fieldIs n) = b at hlast
  have hmem : ∀ f ∈ b, Field.wf f ∧ fieldIs n f = true := by
    intro f hf
    rw [← hb] at hf
    exact ⟨hwf f (List.mem_filter.1 hf).1, (List.mem_filter.1 hf).2⟩
  -- split off the last element
  have hne : b ≠ [] := by intro he; rw [he] at hlast; cases hlast
  have hsplit : b = b.dropLast ++ [fl] := by
    have := List.dropLast_concat_getLast hne
    rw [List.getLast?_eq_some_getLast hne] at hlast
    injection hlast with hlast
    rw [hlast] at this
    exact this.symm
  have hflm : fl ∈ b := by rw [hsplit]; simp
  have hw := weight_of_match (hmem fl hflm).1 (hmem fl hflm).2
  have hrest : b.dropLast.length ≤ (b.dropLast.map Field.w).sum := by
    generalize b.dropLast = l
    induction l with
    | nil => simp
    | cons x xs ih => simp only [List.length_cons, List.map_cons, List.sum_cons]; have := weight_pos x; omega
  constructor
  · rw [hsplit]
    simp only [List.map_append, List.sum_append, List.map_cons, List.map_nil, List.sum_cons, List.sum_nil,
      List.length_append, List.length_cons, List.length_nil]
    rw [hv] at hw
    omega
  · rw [hsplit]; simp

theorem rest_weight (l : List Field) : l.length ≤ (l.map Field.w).sum := by
  induction l with
  | nil => simp
  | cons x xs ih => simp only [List.length_cons, List.map_cons, List.sum_cons]; have := weight_pos x; omega

/-- **Soundness of the length accounting.** Let `names` be distinct field names all of which the
    object supplies (values `vals`). If the object's length equals the length of an object made of
    exactly those keys, once each, with those values — `2 + Σ (|name| + 3 + |value|) + (n-1)` — then
    the object has exactly `n` fields: each name is matched by exactly one field and no field
    matches none. -/
theorem accounting_sound (names : List String) (hnd : names.Nodup) (hne : names ≠ []) (fs : List Field)
    (hwf : ∀ f ∈ fs, Field.wf f) (vals : String → J) (hpres : ∀ n ∈ names, lookupField fs n = some (vals n))
    (hlen : J.len (.obj fs) = 2 + (names.map (fun n => n.length + 3 + J.len (vals n))).sum + (names.length - 1)) :
    (∀ n ∈ names, (fs.filter (fieldIs n)).length = 1) ∧ restFields names fs = [] := by
  rw [len_obj] at hlen
  have hw := buckets_split Field.w names hnd fs
  have hc := buckets_split (fun _ => 1) names hnd fs
  have hcount : ∀ l : List Field, (l.map (fun _ => 1)).sum = l.length := by
    intro l; induction l with
    | nil => rfl
    | cons _ _ ih => simp only [List.map_cons, List.sum_cons, List.length_cons, ih]; omega
  simp only [hcount] at hc
  -- per-name inequality, summed over the names
  have key : ∀ (ns : List String), (∀ n ∈ ns, lookupField fs n = some (vals n)) →
      (ns.map (fun n => n.length + 3 + J.len (vals n))).sum + (ns.map (fun n => (fs.filter (fieldIs n)).length)).sum
        + (ns.map (fun n => (fs.filter (fieldIs n)).length - 1)).sum ≤
      (ns.map (fun n => ((fs.filter (fieldIs n)).map Field.w).sum)).sum + (ns.map (fun n => (fs.filter (fieldIs n)).length)).sum ∧
      ns.length ≤ (ns.map (fun n => (fs.filter (fieldIs n)).length)).sum := by
    intro ns
    induction ns with
    | nil => intro _; simp
    | cons n ns ih =>
      intro hp
      obtain ⟨h1, h2⟩ := bucket_weight hwf (hp n List.mem_cons_self)
      obtain ⟨i1, i2⟩ := ih (fun m hm => hp m (List.mem_cons_of_mem _ hm))
      simp only [List.map_cons, List.sum_cons, List.length_cons]
      omega
  obtain ⟨k1, k2⟩ := key names hpres
  have hr := rest_weight (restFields names fs)
  have hnl : 1 ≤ names.length := by
    cases names with
    | nil => exact absurd rfl hne
    | cons _ _ => simp
  -- the slack: Σ (c_k - 1) + 2·|rest| ≤ 0
  have hslack : (names.map (fun n => (fs.filter (fieldIs n)).length - 1)).sum + (restFields names fs).length = 0 := by
    omega
  have hrest0 : (restFields names fs).length = 0 := by omega
  have hsum0 : (names.map (fun n => (fs.filter (fieldIs n)).length - 1)).sum = 0 := by omega
  refine ⟨fun n hn => ?_, List.eq_nil_of_length_eq_zero hrest0⟩
  have hge := (bucket_weight hwf (hpres n hn)).2
  have hz : (fs.filter (fieldIs n)).length - 1 = 0 := by
    have : ∀ (l : List String) (g : String → Nat), (l.map g).sum = 0 → ∀ x ∈ l, g x = 0 := by
      intro l g
      induction l with
      | nil => intro _ x hx; cases hx
      | cons y ys ih =>
        intro hs x hx
        simp only [List.map_cons, List.sum_cons] at hs
        rcases List.mem_cons.1 hx with rfl | hx
        · omega
        · exact ih (by omega) x hx
    exact this names _ hsum0 n hn
  omega

end Pegnet
